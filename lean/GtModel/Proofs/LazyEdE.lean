/-
  EditDistance protocol, part E: `tighten_bounds()`.
-/
import GtModel.Proofs.LazyEdD

namespace GtModel.Lazy
open GtModel.EditMatrix (Cell Move step spec lexLe goLeft goUp goDiag cellAt)

section
variable {rec : Ops} {g : Ghost}

/-- the invariant survives any `Keeps` change of the cells -/
theorem EdInv.cells (h : Protocol rec g) {s : EdSt} {cells cells' : List (List M)} (inv : EdInv g s cells)
    (K : KeepsLL g cells cells') : EdInv g s cells' := by
  have hfm := K.finM
  exact ⟨inv.nz, inv.pos, K.shape inv.shape, K.inv, inv.tab.fm hfm, inv.defs.keeps h K, inv.last, inv.jf, inv.jc,
    by rw [hfm]; exact inv.cv, by rw [hfm]; exact inv.stat⟩

/-- what every method of an `EditDistance` preserves -/
structure EdKeeps (g : Ghost) (s : EdSt) (cells : List (List M)) (s' : EdSt) (cells' : List (List M)) : Prop where
  inv : EdInv g s' cells'
  core : SameCore s s'
  kl : KeepsLL g cells cells'
  sub : (edViewOf s (finM g cells)).lo ≤ (edViewOf s' (finM g cells)).lo ∧
    (edViewOf s' (finM g cells)).hi ≤ (edViewOf s (finM g cells)).hi
  st : started s ≤ started s'

theorem EdKeeps.refl {s : EdSt} {cells : List (List M)} (inv : EdInv g s cells) : EdKeeps g s cells s cells :=
  ⟨inv, SameCore.refl s, KeepsLL.refl cells inv.cellsI, ⟨Nat.le_refl _, Nat.le_refl _⟩, Nat.le_refl _⟩

theorem EdKeeps.trans {s1 s2 s3 : EdSt} {c1 c2 c3 : List (List M)} (h1 : EdKeeps g s1 c1 s2 c2)
    (h2 : EdKeeps g s2 c2 s3 c3) : EdKeeps g s1 c1 s3 c3 := by
  have hfm := h1.kl.finM
  have s2' := h2.sub
  rw [hfm] at s2'
  exact ⟨h2.inv, h1.core.trans h2.core, h1.kl.trans h2.kl,
    ⟨Nat.le_trans h1.sub.1 s2'.1, Nat.le_trans s2'.2 h1.sub.2⟩, Nat.le_trans h1.st h2.st⟩

/-- only the cells changed -/
theorem EdKeeps.ofCells (h : Protocol rec g) {s : EdSt} {cells cells' : List (List M)} (inv : EdInv g s cells)
    (K : KeepsLL g cells cells') : EdKeeps g s cells s cells' :=
  ⟨inv.cells h K, SameCore.refl s, K, ⟨Nat.le_refl _, Nat.le_refl _⟩, Nat.le_refl _⟩

theorem edView_complete {s : EdSt} (fm : List (List Nat)) (hc : edComplete s = true) :
    edViewOf s fm = Iv.point (edFinOf s fm) := by simp [edViewOf, hc]

theorem edFin_core {s s' : EdSt} (c : SameCore s s') (fm : List (List Nat)) : edFinOf s' fm = edFinOf s fm := by
  simp [edFinOf, c.edT, c.nt, c.nf]

/-- `bounds()` as an `EdKeeps` step that does not change the interval -/
theorem edBounds_keeps (h : Protocol rec g) (F : Nat) {s : EdSt} {cells : List (List M)} (inv : EdInv g s cells)
    (hmu : muLLg g cells < F) :
    ∃ s' cells', edBounds rec F s cells = .ok (s', cells', edViewOf s (finM g cells)) ∧ EdKeeps g s cells s' cells' ∧
      edViewOf s' (finM g cells) = edViewOf s (finM g cells) ∧ started s' = started s ∧
      (edComplete s' = true → s'.cache.isSome = true) ∧ edComplete s' = edComplete s ∧
      (edComplete s = false → s' = s ∧ cells' = cells) := by
  obtain ⟨s', cells', e, inv', K, efr, efc, core, hq, hsame⟩ := edBounds_ok h F inv hmu
  have hst : started s' = started s := by simp [started, efr, efc]
  have hcomp : edComplete s' = edComplete s := by
    cases hc : edComplete s with
    | false => obtain ⟨rfl, _⟩ := hsame hc; exact hc
    | true =>
      have hpc := inv.complete_iff.mp hc
      exact inv'.complete_iff.mpr ⟨by rw [efr]; exact hpc.1, by simp only [kOf, efr, efc, core.nt, core.nf]; exact hpc.2⟩
  have hv : edViewOf s' (finM g cells) = edViewOf s (finM g cells) := by
    cases hc : edComplete s with
    | false => obtain ⟨rfl, _⟩ := hsame hc; rfl
    | true =>
      rw [edView_complete _ (hcomp.trans hc), edView_complete _ hc, edFin_core core]
  exact ⟨s', cells', e, ⟨inv', core, K, ⟨by rw [hv]; exact Nat.le_refl _, by rw [hv]; exact Nat.le_refl _⟩, by omega⟩,
    hv, hst, hq, hcomp, hsame⟩

theorem cornerIdx_none {s : EdSt} (h : s.nt = 0 ∨ s.nf = 0) : cornerIdx s = none := by
  rcases h with hh | hh <;> simp [cornerIdx, hh]

theorem cornerIdx_some {s : EdSt} (h : ¬ (s.nt = 0 ∨ s.nf = 0)) : cornerIdx s = some (s.nt - 1, s.nf - 1) := by
  have hnt : s.nt ≠ 0 := fun hh => h (Or.inl hh)
  have hnf : s.nf ≠ 0 := fun hh => h (Or.inr hh)
  simp [cornerIdx, hnt, hnf]

/-- `tighten_bounds()` on a complete matrix that is not freed yet: one step of the last cell, or — if that cell is
    final — `_cleanup()` -/
theorem edTightenComplete_ok (h : Protocol rec g) (F : Nat) {s : EdSt} {cells : List (List M)} (inv : EdInv g s cells)
    (hc : edComplete s = true) (hmu : muLLg g cells < F) :
    ∃ s' cells' r, edTightenComplete rec F s cells = .ok (s', cells', r) ∧ EdKeeps g s cells s' cells' ∧
      (r = true → muLLg g cells' < muLLg g cells) ∧ edComplete s' = true := by
  by_cases hcor : s.nt = 0 ∨ s.nf = 0
  · obtain ⟨s', cells', e, ek, _, _, hq, hcomp, _⟩ := edBounds_keeps h F inv hmu
    refine ⟨s', cells', false, ?_, ek, by simp, hcomp.trans hc⟩
    simp [edTightenComplete, cornerIdx_none hcor, e, bind, Except.bind, pure, Except.pure]
  · have ecor := cornerIdx_some hcor
    obtain ⟨m, em⟩ := mget_ok inv.shape (show s.nt - 1 < s.nt by omega) (show s.nf - 1 < s.nf by omega)
    have hIm := mget_inv inv.cellsI em
    obtain ⟨m1, eb, p1, _⟩ := h.bounds m hIm
    by_cases hdef : (g.view m).definitive = true
    · -- the last cell is final: `_cleanup()`
      obtain ⟨cells1, es, K1, _, _⟩ := mset_keeps inv.cellsI em p1.keeps
      have inv1 := inv.cells h K1
      have hmu1 : muLLg g cells1 < F := by have := K1.mu; omega
      obtain ⟨s', cells', e, ek, _, _, hq, hcomp, _⟩ := edBounds_keeps h F inv1 hmu1
      refine ⟨s', cells', false, ?_, (EdKeeps.ofCells h inv K1).trans ek, by simp, hcomp.trans hc⟩
      simp [edTightenComplete, ecor, em, eb, hdef, es, e, bind, Except.bind, pure, Except.pure]
    · -- one refinement step of the last cell
      obtain ⟨m2, r, et, st⟩ := h.tighten m1 p1.inv
      obtain ⟨cells', es, K, _, _⟩ := mset_keeps inv.cellsI em (p1.keeps.trans st.keeps)
      have hacc := mset_mu (g := g) em es
      have hndef : (g.view m).definitive = false := by
        cases hh : (g.view m).definitive with
        | true => exact absurd hh hdef
        | false => rfl
      refine ⟨s, cells', r, ?_, EdKeeps.ofCells h inv K, ?_, hc⟩
      · simp [edTightenComplete, ecor, em, eb, hndef, et, es, bind, Except.bind, pure, Except.pure]
      · intro hr
        have := st.dec hr; have := p1.mu
        omega

/-- an incomplete matrix has no cached script and is not freed -/
theorem EdInv.incomplete {s : EdSt} {cells : List (List M)} (inv : EdInv g s cells) (hnc : edComplete s = false) :
    s.cache = none ∧ s.freed = false ∧ ¬ PosComplete s := by
  have hnp : ¬ PosComplete s := fun hp => by rw [inv.complete_iff.mpr hp] at hnc; cases hnc
  have hcn : s.cache = none := by
    cases hc : s.cache with
    | none => rfl
    | some tr => exact absurd (inv.jc (by rw [hc]; rfl)) hnp
  refine ⟨hcn, ?_, hnp⟩
  cases hf : s.freed with
  | false => rfl
  | true => have := inv.jf.mp hf; rw [hcn] at this; cases this

/-- the invariant after the fringe has moved to the next anti-diagonal and (unless that is the corner) its inner
    cells have been tightened and filled in -/
theorem EdInv.advance {s : EdSt} {cells : List (List M)} (inv : EdInv g s cells) (hnc : edComplete s = false)
    {s2 : EdSt} {cells2 : List (List M)} (K : KeepsLL g cells cells2) (core : SameCore s s2)
    (hfreed : s2.freed = s.freed) (hcache : s2.cache = s.cache) (pos2 : Pos s2) (h02 : 0 ≤ s2.fr)
    (hk2 : kOf s2 = started s) (hlast : s2.lastFringe = diag s.fr s.fc s.nf)
    (tab2 : TabOK s2 (finM g cells)
      (fun r c => Filled s r c ∨ (r + c = started s ∧ (r = 0 ∨ c = 0 ∨ r + c < s.nt + s.nf))))
    (def2 : DefOn g cells2
      (fun r c => DefSet s r c ∨ (r ≤ s.nt ∧ c ≤ s.nf ∧ r + c = started s ∧ r + c < s.nt + s.nf))) :
    EdInv g s2 cells2 := by
  obtain ⟨hcn, hnfr, hnp⟩ := inv.incomplete hnc
  have hnt := core.nt; have hnf := core.nf
  have hfm := K.finM
  have hpl := inv.pos.lo; have hph := inv.pos.hi; have hpf := inv.pos.fc; have hpz := inv.pos.z
  have hst : 0 ≤ s.fr → started s = kOf s + 1 := by intro h0; simp only [started, kOf]; omega
  have hst0 : s.fr < 0 → started s = 0 := by
    intro hlt
    have := hpz (by omega)
    simp only [started]; omega
  have hc2 : s2.cache.isSome = false := by rw [hcache, hcn]; rfl
  refine ⟨by rw [hnt, hnf]; exact inv.nz, pos2, by rw [hnt, hnf]; exact K.shape inv.shape, K.inv, ?_, ?_, ?_, ?_, ?_, ?_,
    inv.stat.congr core.rem core.ins core.lb0 core.ub0 hfm⟩
  · refine (tab2.fm hfm).mono' ?_
    intro r c hr hc hf
    rcases hf with hf | ⟨_, hle, hthird⟩
    · exact Or.inl (Or.inl hf)
    · rw [hk2] at hle
      rw [hnt, hnf, hc2] at hthird
      have hthird' : r = 0 ∨ c = 0 ∨ r + c < s.nt + s.nf := by
        rcases hthird with h1 | h1 | h1 | h1
        · exact Or.inl h1
        · exact Or.inr (Or.inl h1)
        · exact Or.inr (Or.inr h1)
        · cases h1
      by_cases heq : r + c = started s
      · exact Or.inr ⟨heq, hthird'⟩
      · have hlt : r + c < started s := by omega
        by_cases h0 : 0 ≤ s.fr
        · have := hst h0
          refine Or.inl (Or.inr ⟨h0, by omega, ?_⟩)
          rcases hthird' with h1 | h1 | h1
          · exact Or.inl h1
          · exact Or.inr (Or.inl h1)
          · exact Or.inr (Or.inr (Or.inl h1))
        · have := hst0 (by omega); omega
  · refine def2.mono ?_
    intro r c hd
    obtain ⟨hr, hc, _, hle, hthird⟩ := hd
    rw [hk2] at hle
    rw [hnt] at hr; rw [hnf] at hc
    rw [hnt, hnf, hc2] at hthird
    have hlt2 : r + c < s.nt + s.nf := by
      rcases hthird with h1 | h1
      · exact h1
      · cases h1
    by_cases heq : r + c = started s
    · exact Or.inr ⟨hr, hc, heq, hlt2⟩
    · have hlt : r + c < started s := by omega
      by_cases h0 : 0 ≤ s.fr
      · have := hst h0
        exact Or.inl ⟨hr, hc, h0, by omega, Or.inl hlt2⟩
      · have := hst0 (by omega); omega
  · intro _ r c
    rw [hlast, hk2, hnt, hnf]
    by_cases h0 : 0 ≤ s.fr
    · rw [mem_diag h0 hpf, hst h0]
      simp only [kOf]
      constructor
      · rintro ⟨h1, h2, h3, h4⟩; omega
      · rintro ⟨h1, h2, h3⟩
        by_cases hlt : s.fr < s.nt
        · have := hpz hlt; omega
        · omega
    · have hd : diag s.fr s.fc s.nf = [] := by
        have : s.fr < 0 := by omega
        simp [diag, this]
      rw [hd, hst0 (by omega)]
      simp
  · rw [hfreed, hcache]; exact inv.jf
  · intro hh; rw [hc2] at hh; cases hh
  · intro tr htr; rw [hcache, hcn] at htr; cases htr

/-- fringe lower bound monotone, on the model's state: moving the fringe one diagonal on can only raise the lower
    bound (and never touches the upper bound) -/
theorem edView_advance {s s2 : EdSt} {cells cells2 : List (List M)} (inv : EdInv g s cells)
    (hnc : edComplete s = false) (inv2 : EdInv g s2 cells2) (core : SameCore s s2)
    (hfm : finM g cells2 = finM g cells) (h02 : 0 ≤ s2.fr) (hk2 : kOf s2 = started s) :
    (edViewOf s (finM g cells)).lo ≤ (edViewOf s2 (finM g cells)).lo ∧
      (edViewOf s2 (finM g cells)).hi ≤ (edViewOf s (finM g cells)).hi := by
  have wf := edView_wf inv
  by_cases hc2 : edComplete s2 = true
  · rw [edView_complete _ hc2, edFin_core core]
    simp only [Iv.point]
    exact wf
  · have hc2f : edComplete s2 = false := by
      cases hh : edComplete s2 with
      | true => exact absurd hh hc2
      | false => rfl
    have wf2 := edView_wf inv2
    rw [hfm] at wf2
    simp only [edViewOf, hnc, hc2f, Bool.false_eq_true, if_false, core.lb0, core.ub0] at wf wf2 ⊢
    by_cases h1 : s.fr ≤ 0
    · simp only [h1, if_true] at wf ⊢
      by_cases h2 : s2.fr ≤ 0
      · simp only [h2, if_true]; omega
      · simp only [h2, if_false, nmin, Nat.max_def]
        constructor
        · split <;> omega
        · omega
    · have hs1 : 1 ≤ s.fr := by omega
      have hph := inv.pos.hi; have hpz2 := inv2.pos.z; have hph2 := inv2.pos.hi
      have hnt := core.nt
      have hkk : kOf s2 = kOf s + 1 := by rw [hk2]; simp only [started, kOf]; omega
      have h2 : ¬ s2.fr ≤ 0 := by
        intro hle
        have hntpos : 0 < s.nt := by omega
        have := hpz2 (by omega)
        simp only [kOf] at hkk; omega
      have hs2 : 1 ≤ s2.fr := by omega
      simp only [h1, h2, if_false] at wf wf2 ⊢
      refine ⟨?_, Nat.le_refl _⟩
      -- the old fringe minimum is a lower bound of the two new diagonals
      have lb1 := EditMatrix.fringeLB_step s.rem s.ins (finM g cells) s.nt s.nf (kOf s) _
        (fringe_lb (finM g cells) inv.pos hs1 (inv.last (by omega)))
      have hl2 := inv2.last h02
      have hmemA := minD_mem (l := costsOn s2 (finM g cells) (diag s2.fr s2.fc s2.nf))
        (by simp only [costsOn, ne_eq, List.map_eq_nil_iff]; exact diag_ne h02 inv2.pos.fc)
      have hmemB := minD_mem (l := costsOn s2 (finM g cells) s2.lastFringe)
        (by simp only [costsOn, ne_eq, List.map_eq_nil_iff]; exact last_ne inv2.pos hs2 hl2)
      have hA : fringeMin s (finM g cells) ≤ minD (costsOn s2 (finM g cells) (diag s2.fr s2.fc s2.nf)) := by
        obtain ⟨rc, hrc, he⟩ := List.mem_map.mp hmemA
        obtain ⟨r, c⟩ := rc
        have hm := (mem_diag h02 inv2.pos.fc).mp hrc
        rw [← he, core.edT]
        refine lb1 r c ?_ ?_ (Or.inl ?_)
        · rw [← hnt]; omega
        · rw [← core.nf]; omega
        · simp only [kOf] at hkk ⊢; omega
      have hB : fringeMin s (finM g cells) ≤ minD (costsOn s2 (finM g cells) s2.lastFringe) := by
        obtain ⟨rc, hrc, he⟩ := List.mem_map.mp hmemB
        obtain ⟨r, c⟩ := rc
        have hm := (hl2 r c).mp hrc
        rw [← he, core.edT]
        refine lb1 r c (by rw [← hnt]; exact hm.1) (by rw [← core.nf]; exact hm.2.1) (Or.inr ?_)
        simp only [kOf] at hkk hm ⊢; omega
      simp only [fringeMin, nmin, Nat.max_def] at hA hB ⊢
      split <;> split <;> omega

/-! ### the build loop, cut into pieces -/

/-- the branch of the loop body taken when `_next_fringe()` reports that the matrix is complete -/
def edLoopDone (rec : Ops) (n : Nat) (s1 : EdSt) (cells : List (List M)) : R (EdSt × List (List M) × Bool) :=
  match cornerIdx s1 with
  | none => do
      let (s2, cells2, _) ← edBounds rec n s1 cells
      pure (s2, cells2, false)
  | some (r, c) => do
      let m ← mget cells r c
      let (m1, b) ← rec.bounds m
      let cells1 ← mset cells r c m1
      if !b.definitive then
        let (s2, cells2, ret) ← edTightenComplete rec n s1 cells1
        if !ret then
          let (s3, cells3, _) ← edBounds rec n s2 cells2
          pure (s3, cells3, false)
        else pure (s2, cells2, true)
      else
        let (s2, cells2, _) ← edBounds rec n s1 cells1
        pure (s2, cells2, false)

/-- tightening and filling in the new fringe -/
def edLoopFringe (rec : Ops) (quiet : Bool) (n : Nat) (firstFringe : Bool) (s1 : EdSt) (cells : List (List M)) :
    R (EdSt × List (List M)) :=
  if firstFringe then pure (s1, cells) else do
    let fringe := diag s1.fr s1.fc s1.nf
    let (cells1, total) ← if quiet then pure (cells, 0) else fringeRanges rec cells fringe
    processFringe rec n (decide (total > 0)) s1 cells1 fringe

/-- the test at the end of the loop body -/
def edLoopCheck (rec : Ops) (quiet : Bool) (n : Nat) (initial : Iv) (k : Nat) (s2 : EdSt) (cells2 : List (List M)) :
    R (EdSt × List (List M) × Bool) := do
  let (_, _, b1) ← edBounds rec n s2 cells2
  if b1.hi < initial.hi then pure (s2, cells2, true)
  else
    let (_, _, b2) ← edBounds rec n s2 cells2
    if b2.lo > initial.lo then pure (s2, cells2, true)
    else edBuildLoop rec quiet n initial k s2 cells2

theorem edBuildLoop_unfold (rec : Ops) (quiet : Bool) (n : Nat) (initial : Iv) (k : Nat) (s : EdSt)
    (cells : List (List M)) :
    edBuildLoop rec quiet n initial (k + 1) s cells = (do
      let (s1, ok) ← nextFringe s
      if !ok then
        if !edComplete s1 then throw .assertion
        edLoopDone rec n s1 cells
      else do
        let (s2, cells2) ← edLoopFringe rec quiet n (decide (s.fr < 0)) s1 cells
        edLoopCheck rec quiet n initial k s2 cells2) := by
  simp only [edBuildLoop, edLoopDone, edLoopFringe, edLoopCheck, bind, Except.bind, pure, Except.pure]
  cases nextFringe s with
  | error e => rfl
  | ok v =>
    obtain ⟨s1, ok⟩ := v
    cases ok
    · simp only [Bool.not_false, if_true]
      cases edComplete s1
      · simp [throw, throwThe, MonadExceptOf.throw]
      · simp only [Bool.not_true, Bool.false_eq_true, if_false]
        cases cornerIdx s1 with
        | none => rfl
        | some rc => rfl
    · simp only [Bool.not_true, Bool.false_eq_true, if_false]
      by_cases hf : s.fr < 0
      · simp [hf]
      · simp [hf]
        cases quiet
        · simp only [Bool.false_eq_true, if_false]
          cases fringeRanges rec cells (diag s1.fr s1.fc s1.nf) <;> rfl
        · rfl

theorem take_sum_le : ∀ (l : List Nat) (c : Nat), (l.take c).sum ≤ l.sum
  | [], c => by simp
  | x :: xs, 0 => by simp
  | x :: xs, c + 1 => by have := take_sum_le xs c; simp only [List.take_succ_cons, List.sum_cons]; omega

theorem take_sum_lt : ∀ (l : List Nat) (c : Nat), c < l.length → (∀ x ∈ l, 0 < x) → (l.take c).sum < l.sum
  | [], c, h, _ => by simp at h
  | x :: xs, 0, _, hp => by have := hp x (by simp); simp only [List.take_zero, List.sum_nil, List.sum_cons]; omega
  | x :: xs, c + 1, h, hp => by
      have := take_sum_lt xs c (by simpa using h) (fun y hy => hp y (by simp [hy]))
      simp only [List.take_succ_cons, List.sum_cons]; omega

/-- while the matrix of two non-empty sequences is being built, the interval is never a single value -/
theorem edView_building_nondef {s : EdSt} {cells : List (List M)} (inv : EdInv g s cells)
    (hnc : edComplete s = false) (hnt : 0 < s.nt) (hnf : 0 < s.nf) :
    (edViewOf s (finM g cells)).lo < (edViewOf s (finM g cells)).hi := by
  have hlt := inv.stat.lbLt hnf hnt
  simp only [edViewOf, hnc, Bool.false_eq_true, if_false]
  by_cases h1 : s.fr ≤ 0
  · simp only [h1, if_true]; exact hlt
  · simp only [h1, if_false]
    obtain ⟨_, _, hnp⟩ := inv.incomplete hnc
    have h0 : 0 ≤ s.fr := by omega
    have hph := inv.pos.hi; have hpf := inv.pos.fc
    have hk : kOf s < s.nt + s.nf := by simp only [PosComplete] at hnp; omega
    have hmem : (s.fr.toNat, s.fc) ∈ diag s.fr s.fc s.nf :=
      (mem_diag h0 hpf).mpr ⟨rfl, Nat.le_refl _, hpf, Nat.le_refl _⟩
    have hin : (spec s.rem s.ins (finM g cells) s.fr.toNat s.fc).cost ∈ costsOn s (finM g cells) (diag s.fr s.fc s.nf) :=
      List.mem_map.mpr ⟨(s.fr.toNat, s.fc), hmem, rfl⟩
    have h2 := minD_le hin
    have h3 := EditMatrix.spec_cost_le s.rem s.ins (finM g cells) s.fr.toNat s.fc
    have h4 := take_sum_le s.rem s.fc
    have h5 := take_sum_le s.ins s.fr.toNat
    have htot := inv.stat.total
    have hstrict : (s.rem.take s.fc).sum + (s.ins.take s.fr.toNat).sum < s.rem.sum + s.ins.sum := by
      simp only [kOf] at hk
      by_cases hc : s.fc < s.nf
      · have := take_sum_lt s.rem s.fc hc inv.stat.remPos; omega
      · have hr : s.fr.toNat < s.nt := by omega
        have := take_sum_lt s.ins s.fr.toNat hr inv.stat.insPos; omega
    simp only [fringeMin, nmin, Nat.max_def]
    split <;> omega

/-- the completion branch of the loop: the last cell gets one step (if it is not final), otherwise `_cleanup()` -/
theorem edLoopDone_ok (h : Protocol rec g) (F : Nat) {s1 : EdSt} {cells : List (List M)} (inv1 : EdInv g s1 cells)
    (hc : edComplete s1 = true) (hmu : muLLg g cells < F) :
    ∃ s' cells' r, edLoopDone rec F s1 cells = .ok (s', cells', r) ∧ EdKeeps g s1 cells s' cells' ∧
      edComplete s' = true ∧ (r = false → s'.cache.isSome = true) ∧ (r = true → 0 < s1.nt ∧ 0 < s1.nf) := by
  by_cases hcor : s1.nt = 0 ∨ s1.nf = 0
  · obtain ⟨s', cells', e, ek, _, _, hq, hcomp, _⟩ := edBounds_keeps h F inv1 hmu
    refine ⟨s', cells', false, ?_, ek, hcomp.trans hc, fun _ => hq (hcomp.trans hc), fun hr => (by cases hr)⟩
    simp [edLoopDone, cornerIdx_none hcor, e, bind, Except.bind, pure, Except.pure]
  · have ecor := cornerIdx_some hcor
    have hpos : 0 < s1.nt ∧ 0 < s1.nf := by omega
    obtain ⟨m, em⟩ := mget_ok inv1.shape (show s1.nt - 1 < s1.nt by omega) (show s1.nf - 1 < s1.nf by omega)
    have hIm := mget_inv inv1.cellsI em
    obtain ⟨m1, eb, p1, _⟩ := h.bounds m hIm
    obtain ⟨cells1, es, K1, _, _⟩ := mset_keeps inv1.cellsI em p1.keeps
    have inv1' := inv1.cells h K1
    have ek1 := EdKeeps.ofCells h inv1 K1
    have hmu1 : muLLg g cells1 < F := by have := K1.mu; omega
    by_cases hdef : (g.view m).definitive = true
    · obtain ⟨s', cells', e, ek, _, _, hq, hcomp, _⟩ := edBounds_keeps h F inv1' hmu1
      refine ⟨s', cells', false, ?_, ek1.trans ek, hcomp.trans hc, fun _ => hq (hcomp.trans hc), fun hr => (by cases hr)⟩
      simp [edLoopDone, ecor, em, eb, es, hdef, e, bind, Except.bind, pure, Except.pure]
    · have hndef : (g.view m).definitive = false := by
        cases hh : (g.view m).definitive with
        | true => exact absurd hh hdef
        | false => rfl
      obtain ⟨s2, cells2, ret, e2, ek2, _, hc2⟩ := edTightenComplete_ok h F inv1' hc hmu1
      cases ret with
      | true =>
        refine ⟨s2, cells2, true, ?_, ek1.trans ek2, hc2, fun hr => (by cases hr), fun _ => hpos⟩
        simp [edLoopDone, ecor, em, eb, es, hndef, e2, bind, Except.bind, pure, Except.pure]
      | false =>
        have hmu2 : muLLg g cells2 < F := by have := ek2.kl.mu; omega
        obtain ⟨s', cells', e, ek, _, _, hq, hcomp, _⟩ := edBounds_keeps h F ek2.inv hmu2
        refine ⟨s', cells', false, ?_, (ek1.trans ek2).trans ek, hcomp.trans hc2, fun _ => hq (hcomp.trans hc2),
          fun hr => (by cases hr)⟩
        simp [edLoopDone, ecor, em, eb, es, hndef, e2, e, bind, Except.bind, pure, Except.pure]

/-- the new fringe (not the corner) is tightened and filled in; the invariant holds again -/
theorem edLoopFringe_ok (h : Protocol rec g) (q : Bool) (F : Nat) {s s1 : EdSt} {cells : List (List M)}
    (inv : EdInv g s cells) (hnc : edComplete s = false) (pos1 : Pos s1) (h01 : 0 ≤ s1.fr)
    (hk1 : s1.fr.toNat + s1.fc = started s) (hlast1 : s1.lastFringe = diag s.fr s.fc s.nf) (st1 : SameStat s s1)
    (tab1 : TabOK s1 (finM g cells) (fun r c => Filled s r c ∨ (r + c = started s ∧ (r = 0 ∨ c = 0) ∧ 0 < r + c)))
    (hlt : started s < s.nt + s.nf) (hmu : muLLg g cells < F) :
    ∃ s2 cells2, edLoopFringe rec q F (decide (s.fr < 0)) s1 cells = .ok (s2, cells2) ∧ EdInv g s2 cells2 ∧
      KeepsLL g cells cells2 ∧ SameCore s s2 ∧ kOf s2 = started s ∧ 0 ≤ s2.fr := by
  have hnt1 := st1.nt; have hnf1 := st1.nf
  have hpz := inv.pos.z; have hpl := inv.pos.lo
  by_cases hfirst : s.fr < 0
  · -- the very first fringe is only the origin
    have hst0 : started s = 0 := by have := hpz (by omega); simp only [started]; omega
    refine ⟨s1, cells, by simp [edLoopFringe, hfirst, pure, Except.pure], ?_, KeepsLL.refl cells inv.cellsI, st1.core,
      by simp only [kOf]; exact hk1, h01⟩
    refine inv.advance hnc (KeepsLL.refl cells inv.cellsI) st1.core st1.freed st1.cache pos1 h01
      (by simp only [kOf]; exact hk1) hlast1 (tab1.mono' ?_) (inv.defs.mono' ?_)
    · intro r c _ _ hp
      rcases hp with hp | ⟨hs, _⟩
      · exact Or.inl hp
      · exact Or.inl (Or.inl (by omega))
    · intro r c hr hc hp
      rcases hp with hp | ⟨_, _, hs, _⟩
      · exact hp
      · omega
  · have h0 : 0 ≤ s.fr := by omega
    have hk : 1 ≤ started s := by simp only [started]; omega
    have hfalse : decide (s.fr < 0) = false := by simp [hfirst]
    -- the bounds reads of a non-quiet run
    have stepR : ∃ cells1 total, (if q then pure (cells, 0) else fringeRanges rec cells (diag s1.fr s1.fc s1.nf))
        = (.ok (cells1, total) : R (List (List M) × Nat)) ∧ KeepsLL g cells cells1 := by
      cases q with
      | true => exact ⟨cells, 0, rfl, KeepsLL.refl cells inv.cellsI⟩
      | false =>
        obtain ⟨cells1, tot, e, K⟩ := fringeRanges_ok h (nt := s.nt) (nf := s.nf) (diag s1.fr s1.fc s1.nf) cells
          inv.cellsI inv.shape (by
            intro rc hrc
            obtain ⟨r, c⟩ := rc
            have hm := (mem_diag h01 pos1.fc).mp hrc
            have := pos1.hi
            show r ≤ s.nt ∧ c ≤ s.nf
            rw [← hnt1, ← hnf1]; omega)
        exact ⟨cells1, tot, by simpa using e, K⟩
    obtain ⟨cells1, total, eR, KR⟩ := stepR
    have hfmR := KR.finM
    obtain ⟨s2, cells2, eP, sc, KP, tab2, def2⟩ := processFringe_ok h F (decide (total > 0)) (started s) hk
      (diag s1.fr s1.fc s1.nf) s1 cells1 _ (DefSet s) (tab1.fm hfmR)
      (by
        intro r c hlt'
        refine Or.inl (Or.inr ⟨h0, by simp only [started, kOf] at *; omega, Or.inr (Or.inr (Or.inl (by omega)))⟩))
      KR.inv (by rw [hnt1, hnf1]; exact KR.shape inv.shape) (inv.defs.keeps h KR)
      (by
        intro rc hrc
        obtain ⟨r, c⟩ := rc
        have hm := (mem_diag h01 pos1.fc).mp hrc
        have := pos1.hi
        show r ≤ s1.nt ∧ c ≤ s1.nf ∧ r + c = started s
        omega)
      (by have := KR.mu; omega)
    have K := KR.trans KP
    have core2 : SameCore s s2 := st1.core.trans sc.stat.core
    have hk2 : kOf s2 = started s := by simp only [kOf, sc.fr, sc.fc]; exact hk1
    have pos2 : Pos s2 := ⟨by rw [sc.fr]; exact pos1.lo, by rw [sc.fr, sc.nt]; exact pos1.hi,
      by rw [sc.fc, sc.nf]; exact pos1.fc, by rw [sc.fr, sc.fc, sc.nt]; exact pos1.z⟩
    have hmemd : ∀ r c, r ≤ s.nt → c ≤ s.nf → r + c = started s → (r, c) ∈ diag s1.fr s1.fc s1.nf := by
      intro r c hr hc hs
      refine (mem_diag h01 pos1.fc).mpr ?_
      have := pos1.hi; have := pos1.z
      rw [hnf1]
      by_cases hl : s1.fr < s1.nt
      · have := pos1.z hl; omega
      · rw [hnt1] at *; omega
    refine ⟨s2, cells2, ?_, ?_, K, core2, hk2, by rw [sc.fr]; exact h01⟩
    · simp only [edLoopFringe, hfalse, Bool.false_eq_true, if_false, bind, Except.bind]
      cases q with
      | true =>
        simp only [if_true, pure, Except.pure, Except.ok.injEq, Prod.mk.injEq] at eR ⊢
        obtain ⟨rfl, rfl⟩ := eR
        exact eP
      | false =>
        simp only [Bool.false_eq_true, if_false] at eR ⊢
        rw [eR]
        exact eP
    · refine inv.advance hnc K core2 (sc.freed.trans st1.freed) (sc.cache.trans st1.cache) pos2
        (by rw [sc.fr]; exact h01) hk2 (sc.last.trans hlast1) ((tab2.fm hfmR.symm).mono' ?_) (def2.mono' ?_)
      · intro r c hr hc hp
        rw [core2.nt] at hr; rw [core2.nf] at hc
        rcases hp with hp | ⟨hs, hthird⟩
        · exact Or.inl (Or.inl hp)
        · by_cases hb : r = 0 ∨ c = 0
          · exact Or.inl (Or.inr ⟨hs, hb, by omega⟩)
          · exact Or.inr ⟨hmemd r c hr hc hs, by omega, by omega⟩
      · intro r c _ _ hp
        rcases hp with hp | ⟨hr, hc, hs, _⟩
        · exact Or.inl hp
        · exact Or.inr (hmemd r c hr hc hs)

theorem iv_eq_of_sub {a b : Iv} (h1 : a.lo ≤ b.lo) (h2 : b.hi ≤ a.hi) (h3 : ¬ b.hi < a.hi) (h4 : ¬ b.lo > a.lo) :
    b = a := by
  cases a; cases b; simp only [Iv.mk.injEq] at *; omega

/-- the `while True` loop of `tighten_bounds()`: it sweeps fringe after fringe until the bounds move or the matrix
    is complete; at most `nt + nf + 1 - started` iterations -/
theorem edBuildLoop_ok (h : Protocol rec g) (q : Bool) (F : Nat) (initial : Iv) :
    ∀ (k : Nat) (s : EdSt) (cells : List (List M)), EdInv g s cells → edComplete s = false →
      edViewOf s (finM g cells) = initial → (s.nt + s.nf + 1) - started s < k → muLLg g cells < F →
      ∃ s' cells' r, edBuildLoop rec q F initial k s cells = .ok (s', cells', r) ∧ EdKeeps g s cells s' cells' ∧
        (r = true → started s < started s' ∧ edViewOf s' (finM g cells) ≠ initial) ∧
        (r = false → edComplete s' = true ∧ s'.cache.isSome = true)
  | 0, _, _, _, _, _, hk, _ => absurd hk (Nat.not_lt_zero _)
  | k + 1, s, cells, inv, hnc, hview, hk, hmu => by
    obtain ⟨hcn, hnfr, hnp⟩ := inv.incomplete hnc
    have hpl := inv.pos.lo; have hph := inv.pos.hi; have hpf := inv.pos.fc; have hpz := inv.pos.z
    have hstle : started s ≤ s.nt + s.nf := by
      simp only [PosComplete, kOf] at hnp
      simp only [started]; omega
    obtain ⟨s1, flag, e1, pos1, h01, hk1, hlast1, st1, tab1, hflag⟩ := nextFringe_ok inv.pos inv.nz hnc hnfr inv.tab
      (by
        intro r c hlt
        by_cases h0 : 0 ≤ s.fr
        · exact Or.inr ⟨h0, by simp only [started, kOf] at *; omega, Or.inr (Or.inr (Or.inl (by omega)))⟩
        · have := hpz (by omega); simp only [started] at hlt; omega)
    have hst1 : started s1 = started s + 1 := by simp only [started] at hk1 ⊢; omega
    rw [edBuildLoop_unfold]
    simp only [bind, Except.bind, e1]
    cases flag with
    | false =>
      -- the new diagonal is the lower right corner: the matrix is complete
      have hcorner : started s = s.nt + s.nf := hflag.mp rfl
      have nz := inv.nz
      have inv1 : EdInv g s1 cells := inv.advance hnc (KeepsLL.refl cells inv.cellsI) st1.core st1.freed st1.cache
        pos1 h01 (by simp only [kOf]; exact hk1) hlast1
        (tab1.mono' (by
          intro r c _ _ hp
          rcases hp with hp | ⟨hs, hthird⟩
          · exact Or.inl hp
          · refine Or.inr ⟨hs, ?_, by omega⟩
            rcases hthird with h1 | h1 | h1
            · exact Or.inl h1
            · exact Or.inr h1
            · omega))
        (inv.defs.mono' (by
          intro r c _ _ hp
          rcases hp with hp | ⟨_, _, hs, hl⟩
          · exact hp
          · omega))
      have hc1 : edComplete s1 = true :=
        inv1.complete_iff.mpr ⟨h01, by simp only [kOf]; rw [hk1, st1.nt, st1.nf]; omega⟩
      have hsub := edView_advance inv hnc inv1 st1.core rfl h01 (by simp only [kOf]; exact hk1)
      obtain ⟨s', cells', r, eD, ekD, hcD, hfalse, htrue⟩ := edLoopDone_ok h F inv1 hc1 hmu
      have ek1 : EdKeeps g s cells s1 cells :=
        ⟨inv1, st1.core, KeepsLL.refl cells inv.cellsI, hsub, by omega⟩
      refine ⟨s', cells', r, ?_, ek1.trans ekD, ?_, fun hr => ⟨hcD, hfalse hr⟩⟩
      · simp only [Bool.not_false, if_true, hc1, Bool.not_true, Bool.false_eq_true, if_false, pure, Except.pure]
        exact eD
      · intro hr
        obtain ⟨hnt1, hnf1⟩ := htrue hr
        rw [st1.nt] at hnt1; rw [st1.nf] at hnf1
        have hnd := edView_building_nondef inv hnc hnt1 hnf1
        rw [hview] at hnd
        refine ⟨by have := ekD.st; omega, ?_⟩
        rw [edView_complete _ hcD]
        intro heq
        rw [← heq] at hnd
        simp [Iv.point] at hnd
    | true =>
      have hlt : started s < s.nt + s.nf := by
        rcases Nat.lt_or_ge (started s) (s.nt + s.nf) with hh | hh
        · exact hh
        · have : started s = s.nt + s.nf := by omega
          have := hflag.mpr this; cases this
      obtain ⟨s2, cells2, eF, inv2, K2, core2, hk2, h02⟩ := edLoopFringe_ok h q F inv hnc pos1 h01 hk1 hlast1 st1 tab1 hlt hmu
      have hfm2 := K2.finM
      have hst2 : started s2 = started s + 1 := by simp only [started, kOf] at hk2 ⊢; omega
      have hsub := edView_advance inv hnc inv2 core2 hfm2 h02 hk2
      have hnc2 : edComplete s2 = false := by
        cases hh : edComplete s2 with
        | false => rfl
        | true =>
          have := (inv2.complete_iff.mp hh).2
          rw [hk2, core2.nt, core2.nf] at this; omega
      have hmu2 : muLLg g cells2 < F := by have := K2.mu; omega
      obtain ⟨sb, cb, eB, _, _, _, _, _, hsame⟩ := edBounds_keeps h F inv2 hmu2
      obtain ⟨rfl, rfl⟩ := hsame hnc2
      rw [hfm2] at eB
      have ek2 : EdKeeps g s cells sb cb := ⟨inv2, core2, K2, hsub, by omega⟩
      simp only [Bool.not_true, Bool.false_eq_true, if_false, eF, edLoopCheck, bind, Except.bind, eB, pure,
        Except.pure]
      by_cases hhi : (edViewOf sb (finM g cells)).hi < initial.hi
      · refine ⟨sb, cb, true, by simp [hhi], ek2, fun _ => ⟨by omega, ?_⟩, fun hr => by cases hr⟩
        intro heq; rw [heq] at hhi; omega
      · by_cases hlo : (edViewOf sb (finM g cells)).lo > initial.lo
        · refine ⟨sb, cb, true, by simp [hhi, hlo], ek2, fun _ => ⟨by omega, ?_⟩, fun hr => by cases hr⟩
          intro heq; rw [heq] at hlo; omega
        · -- nothing moved: go round again
          have hv2 : edViewOf sb (finM g cb) = initial := by
            rw [hfm2]
            rw [hview] at hsub
            exact iv_eq_of_sub hsub.1 hsub.2 hhi hlo
          obtain ⟨s', cells', r, eL, ekL, hT, hFa⟩ := edBuildLoop_ok h q F initial k sb cb inv2 hnc2 hv2
            (by rw [core2.nt, core2.nf]; omega) hmu2
          refine ⟨s', cells', r, by simp [hhi, hlo, eL], ek2.trans ekL, ?_, hFa⟩
          intro hr
          obtain ⟨h1, h2⟩ := hT hr
          rw [hfm2] at h2
          exact ⟨by omega, h2⟩

theorem started_le {s : EdSt} (pos : Pos s) : started s ≤ s.nt + s.nf + 1 := by
  have := pos.hi; have := pos.fc; have := pos.lo
  simp only [started]; omega

theorem EdKeeps.mu0 {s s' : EdSt} {cells cells' : List (List M)} (k : EdKeeps g s cells s' cells') :
    edMu0 s' + muLLg g cells' ≤ edMu0 s + muLLg g cells := by
  have := k.st; have := k.kl.mu; have := k.core.nt; have := k.core.nf
  simp only [edMu0]; omega

/-- `EditDistance.tighten_bounds()` -/
theorem edTighten_ok (h : Protocol rec g) (q : Bool) (F : Nat) {s : EdSt} {cells : List (List M)}
    (inv : EdInv g s cells) (hmu : edMu0 s + muLLg g cells < F) :
    ∃ s' cells' r, edTighten rec q F s cells = .ok (s', cells', r) ∧ EdKeeps g s cells s' cells' ∧
      (r = true → edMu0 s' + muLLg g cells' < edMu0 s + muLLg g cells) ∧
      (r = false → (edViewOf s' (finM g cells)).lo = (edViewOf s' (finM g cells)).hi) ∧
      ((edComplete s = true → s.cache.isSome = true) → r = true →
        edViewOf s' (finM g cells) ≠ edViewOf s (finM g cells)) ∧
      (r = false → edComplete s' = true) := by
  have nz := inv.nz
  have hz : (s.nf == 0 && s.nt == 0) = false := by
    cases h1 : s.nf with
    | zero => cases h2 : s.nt with
      | zero => rw [h1, h2] at nz; omega
      | succ _ => simp
    | succ _ => simp
  have hmuc : muLLg g cells < F := by omega
  by_cases hfr : s.freed = true
  · have hc : edComplete s = true := by simp [edComplete, hfr]
    refine ⟨s, cells, false, by simp [edTighten, hz, hfr, pure, Except.pure], EdKeeps.refl inv, by simp, ?_, by simp,
      fun _ => hc⟩
    intro _; rw [edView_complete _ hc]; rfl
  · have hfrf : s.freed = false := by
      cases hh : s.freed with
      | true => exact absurd hh hfr
      | false => rfl
    by_cases hc : edComplete s = true
    · obtain ⟨s', cells', r, e, ek, hdec, hc'⟩ := edTightenComplete_ok h F inv hc hmuc
      refine ⟨s', cells', r, by simp [edTighten, hz, hfrf, hc, e], ek, ?_, ?_, ?_, fun _ => hc'⟩
      · intro hr
        have := hdec hr; have := ek.st; have := ek.core.nt; have := ek.core.nf
        simp only [edMu0]; omega
      · intro _; rw [edView_complete _ hc']; rfl
      · intro hq _
        have := hq hc
        have := inv.jf.mpr this
        rw [hfrf] at this; cases this
    · have hcf : edComplete s = false := by
        cases hh : edComplete s with
        | true => exact absurd hh hc
        | false => rfl
      obtain ⟨s0, cells0, eB, _, _, _, _, _, hsame⟩ := edBounds_keeps h F inv hmuc
      obtain ⟨rfl, rfl⟩ := hsame hcf
      obtain ⟨s', cells', r, eL, ek, hT, hFa⟩ := edBuildLoop_ok h q F (edViewOf s0 (finM g cells0)) F s0 cells0 inv hcf rfl
        (by simp only [edMu0] at hmu; omega) hmuc
      refine ⟨s', cells', r, by simp [edTighten, hz, hfrf, hcf, eB, bind, Except.bind, eL], ek, ?_, ?_, ?_,
        fun hr => (hFa hr).1⟩
      · intro hr
        obtain ⟨hst, _⟩ := hT hr
        have := ek.kl.mu; have := ek.core.nt; have := ek.core.nf
        have := started_le ek.inv.pos
        simp only [edMu0]; omega
      · intro hr
        rw [edView_complete _ (hFa hr).1]; rfl
      · intro _ hr
        exact (hT hr).2

/-- `while not self.is_complete() and self.tighten_bounds(): pass` -/
theorem edRunToComplete_ok (h : Protocol rec g) (q : Bool) (F : Nat) :
    ∀ (k : Nat) (s : EdSt) (cells : List (List M)), EdInv g s cells → edMu0 s + muLLg g cells < F →
      edMu0 s + muLLg g cells < k →
      ∃ s' cells', edRunToComplete rec q F k s cells = .ok (s', cells') ∧ EdKeeps g s cells s' cells' ∧
        edComplete s' = true
  | 0, _, _, _, _, hk => absurd hk (Nat.not_lt_zero _)
  | k + 1, s, cells, inv, hmu, hk => by
    by_cases hc : edComplete s = true
    · exact ⟨s, cells, by simp [edRunToComplete, hc, pure, Except.pure], EdKeeps.refl inv, hc⟩
    · have hcf : edComplete s = false := by
        cases hh : edComplete s with
        | true => exact absurd hh hc
        | false => rfl
      obtain ⟨s1, cells1, r, e1, ek1, hdec, _, _, hfin⟩ := edTighten_ok h q F inv hmu
      cases r with
      | false =>
        exact ⟨s1, cells1, by simp [edRunToComplete, hcf, e1, bind, Except.bind, pure, Except.pure], ek1, hfin rfl⟩
      | true =>
        have := hdec rfl
        obtain ⟨s2, cells2, e2, ek2, hc2⟩ := edRunToComplete_ok h q F k s1 cells1 ek1.inv (by omega) (by omega)
        exact ⟨s2, cells2, by simp [edRunToComplete, hcf, e1, bind, Except.bind, e2], ek1.trans ek2, hc2⟩

/-- `edits()`: afterwards the script is cached -/
theorem edEnsure_ok (h : Protocol rec g) (q : Bool) (F : Nat) {s : EdSt} {cells : List (List M)}
    (inv : EdInv g s cells) (hmu : edMu0 s + muLLg g cells < F) :
    ∃ s' cells', edEnsure rec q F s cells = .ok (s', cells') ∧ EdKeeps g s cells s' cells' ∧
      s'.cache.isSome = true := by
  have nz := inv.nz
  have hz : (s.nf == 0 && s.nt == 0) = false := by
    cases h1 : s.nf with
    | zero => cases h2 : s.nt with
      | zero => rw [h1, h2] at nz; omega
      | succ _ => simp
    | succ _ => simp
  by_cases hcs : s.cache.isSome = true
  · exact ⟨s, cells, by simp [edEnsure, hcs, pure, Except.pure], EdKeeps.refl inv, hcs⟩
  · have hcsf : s.cache.isSome = false := by
      cases hh : s.cache.isSome with
      | true => exact absurd hh hcs
      | false => rfl
    obtain ⟨s1, cells1, e1, ek1, hc1⟩ := edRunToComplete_ok h q F F s cells inv hmu hmu
    by_cases hcs1 : s1.cache.isSome = true
    · refine ⟨s1, cells1, ?_, ek1, hcs1⟩
      simp [edEnsure, hcsf, hz, e1, bind, Except.bind, hc1, hcs1, pure, Except.pure]
    · have hcn1 : s1.cache = none := by
        cases hh : s1.cache with
        | none => rfl
        | some _ => rw [hh] at hcs1; exact absurd rfl hcs1
      have hcsf1 : s1.cache.isSome = false := by rw [hcn1]; rfl
      have hpc := ek1.inv.complete_iff.mp hc1
      have hmu1 : muLLg g cells1 < F := by have := ek1.kl.mu; omega
      obtain ⟨s2, cells2, e2, inv2, K2, hsome, efr, efc, core2⟩ := edFinalize_ok h F ek1.inv hpc hcn1 hmu1
      have hc2 : edComplete s2 = true :=
        inv2.complete_iff.mpr ⟨by rw [efr]; exact hpc.1, by simp only [kOf, efr, efc, core2.nt, core2.nf]; exact hpc.2⟩
      have ek2 : EdKeeps g s1 cells1 s2 cells2 := by
        refine ⟨inv2, core2, K2, ?_, by simp [started, efr, efc]⟩
        rw [edView_complete _ hc2, edView_complete _ hc1, edFin_core core2]
        exact ⟨Nat.le_refl _, Nat.le_refl _⟩
      refine ⟨s2, cells2, ?_, ek1.trans ek2, hsome⟩
      simp [edEnsure, hcsf, hz, e1, bind, Except.bind, hc1, hcsf1, e2, pure, Except.pure]

end

end GtModel.Lazy

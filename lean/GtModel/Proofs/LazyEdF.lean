/-
  EditDistance protocol, part F: walking the cached path (`on_diff`, the script dump, `edits()` at the root).
-/
import GtModel.Proofs.LazyEdE

namespace GtModel.Lazy
open GtModel.EditMatrix (Cell Move step spec lexLe goLeft goUp goDiag cellAt)

/-- every entry of a path names a cell inside the matrix that its move can enter -/
def TrValid (s : EdSt) (tr : List (Move × Nat × Nat)) : Prop :=
  ∀ e ∈ tr, e.2.1 ≤ s.nt ∧ e.2.2 ≤ s.nf ∧ (e.1 = .diag → 1 ≤ e.2.1 ∧ 1 ≤ e.2.2) ∧ (e.1 = .up → 1 ≤ e.2.1) ∧
    (e.1 = .left → 1 ≤ e.2.2)

theorem ptrace_valid (s : EdSt) (fm : List (List Nat)) : ∀ (k row col : Nat), row ≤ s.nt → col ≤ s.nf →
    TrValid s (ptrace s fm k row col)
  | 0, _, _, _, _ => by intro e he; simp [ptrace] at he
  | k + 1, row, col, hr, hc => by
    by_cases hz : row = 0 ∧ col = 0
    · obtain ⟨rfl, rfl⟩ := hz
      intro e he; simp [ptrace] at he
    · have hz' : (row == 0 && col == 0) = false := by
        cases hrow : row with
        | zero => cases hcol : col with
          | zero => exact absurd ⟨hrow, hcol⟩ hz
          | succ _ => simp
        | succ _ => simp
      have hpr : (predOf (moveAt s fm row col) row col).1 ≤ s.nt ∧ (predOf (moveAt s fm row col) row col).2 ≤ s.nf := by
        cases moveAt s fm row col <;> simp only [predOf] <;> omega
      have ih := ptrace_valid s fm k _ _ hpr.1 hpr.2
      intro e he
      simp only [ptrace, hz', Bool.false_eq_true, if_false, List.mem_cons] at he
      rcases he with rfl | he
      · simp only
        refine ⟨hr, hc, ?_, ?_, ?_⟩
        · intro hm
          simp only [moveAt] at hm
          by_cases h0 : row = 0
          · simp [h0] at hm
          · by_cases h1 : col = 0
            · simp [h0, h1] at hm
            · omega
        · intro hm
          simp only [moveAt] at hm
          by_cases h0 : row = 0
          · simp [h0] at hm
          · omega
        · intro hm
          simp only [moveAt] at hm
          by_cases h0 : row = 0
          · subst h0; omega
          · by_cases h1 : col = 0
            · simp [h0, h1] at hm
            · omega
      · exact ih e he

section
variable {rec : Ops} {g : Ghost}

theorem scrM_get {t : List (List M)} {r c : Nat} {m : M} (h : mget t r c = .ok m) :
    ((scrM g t).getD r []).getD c default = g.script m := by
  obtain ⟨row, h1, h2⟩ := mget_some h
  simp [scrM, List.getD, h1, h2]

theorem scrM_get' {t : List (List M)} {r c : Nat} {m : M} (h : mget t r c = .ok m) :
    ((scrM g t)[r]?.getD [])[c]?.getD default = g.script m := by
  obtain ⟨row, h1, h2⟩ := mget_some h
  simp [scrM, h1, h2]

theorem getD'_of_lt {l : List Nat} {i : Nat} (h : i < l.length) : l[i]?.getD 0 = l[i] := by
  simp [List.getElem?_eq_getElem h]

/-- all inner cells are definitive -/
def DefAll (g : Ghost) (s : EdSt) (cells : List (List M)) : Prop := DefOn g cells (fun r c => r ≤ s.nt ∧ c ≤ s.nf)

theorem dumpPath_ok (h : Protocol rec g) (s : EdSt) : ∀ (tr : List (Move × Nat × Nat)) (cells : List (List M)),
    (∀ r ∈ cells, ∀ m ∈ r, g.I m) → MShape cells s.nt s.nf → TrValid s tr → DefAll g s cells →
    ∃ cells', dumpPath rec s cells tr = .ok (cells', edPathScripts s (scrM g cells) tr) ∧ KeepsLL g cells cells'
  | [], cells, hI, _, _, _ => ⟨cells, rfl, KeepsLL.refl cells hI⟩
  | (mv, r, c) :: rest, cells, hI, sh, hv, hd => by
    obtain ⟨hr, hc, hdiag, hup, hleft⟩ := hv (mv, r, c) (by simp)
    simp only at hr hc hdiag hup hleft
    have hvr : TrValid s rest := fun e he => hv e (by simp [he])
    cases mv with
    | diag =>
      obtain ⟨h1, h2⟩ := hdiag rfl
      obtain ⟨m, em⟩ := mget_ok sh (show r - 1 < s.nt by omega) (show c - 1 < s.nf by omega)
      have hIm := mget_inv hI em
      obtain ⟨m', ed, km⟩ := h.dump m hIm (hd r c m h1 h2 ⟨hr, hc⟩ em)
      obtain ⟨cells1, es, K1, _, _⟩ := mset_keeps hI em km
      obtain ⟨cells2, e2, K2⟩ := dumpPath_ok h s rest cells1 K1.inv (K1.shape sh) hvr (hd.keeps h K1)
      refine ⟨cells2, ?_, K1.trans K2⟩
      have hs : scrM g cells1 = scrM g cells := K1.scripts
      simp [dumpPath, em, ed, es, e2, bind, Except.bind, pure, Except.pure, edPathScripts, hs, scrM_get' em]
    | up =>
      have h1 := hup rfl
      have hlt : r - 1 < s.ins.length := by simp only [EdSt.nt] at hr; omega
      obtain ⟨cells2, e2, K2⟩ := dumpPath_ok h s rest cells hI sh hvr hd
      refine ⟨cells2, ?_, K2⟩
      simp [dumpPath, lget_ok hlt, e2, bind, Except.bind, pure, Except.pure, edPathScripts, getD'_of_lt hlt]
    | left =>
      have h1 := hleft rfl
      have hlt : c - 1 < s.rem.length := by simp only [EdSt.nf] at hc; omega
      obtain ⟨cells2, e2, K2⟩ := dumpPath_ok h s rest cells hI sh hvr hd
      refine ⟨cells2, ?_, K2⟩
      simp [dumpPath, lget_ok hlt, e2, bind, Except.bind, pure, Except.pure, edPathScripts, getD'_of_lt hlt]

theorem onPath_ok (h : Protocol rec g) (s : EdSt) : ∀ (tr : List (Move × Nat × Nat)) (cells : List (List M)),
    (∀ r ∈ cells, ∀ m ∈ r, g.I m) → MShape cells s.nt s.nf → TrValid s tr →
    ∃ cells', onPath rec.onDiff cells tr = .ok cells' ∧ KeepsLL g cells cells'
  | [], cells, hI, _, _ => ⟨cells, rfl, KeepsLL.refl cells hI⟩
  | (mv, r, c) :: rest, cells, hI, sh, hv => by
    obtain ⟨hr, hc, hdiag, _, _⟩ := hv (mv, r, c) (by simp)
    simp only at hr hc hdiag
    have hvr : TrValid s rest := fun e he => hv e (by simp [he])
    cases mv with
    | diag =>
      obtain ⟨h1, h2⟩ := hdiag rfl
      obtain ⟨m, em⟩ := mget_ok sh (show r - 1 < s.nt by omega) (show c - 1 < s.nf by omega)
      obtain ⟨m', eo, km⟩ := h.onDiff m (mget_inv hI em)
      obtain ⟨cells1, es, K1, _, _⟩ := mset_keeps hI em km
      obtain ⟨cells2, e2, K2⟩ := onPath_ok h s rest cells1 K1.inv (K1.shape sh) hvr
      exact ⟨cells2, by simp [onPath, em, eo, es, e2, bind, Except.bind], K1.trans K2⟩
    | up =>
      obtain ⟨cells2, e2, K2⟩ := onPath_ok h s rest cells hI sh hvr
      exact ⟨cells2, by simp [onPath, e2], K2⟩
    | left =>
      obtain ⟨cells2, e2, K2⟩ := onPath_ok h s rest cells hI sh hvr
      exact ⟨cells2, by simp [onPath, e2], K2⟩

theorem pathNames_ok (s : EdSt) : ∀ (tr : List (Move × Nat × Nat)) (cells : List (List M)),
    MShape cells s.nt s.nf → TrValid s tr → ∃ names, pathNames cells tr = .ok names
  | [], _, _, _ => ⟨[], rfl⟩
  | (mv, r, c) :: rest, cells, sh, hv => by
    obtain ⟨hr, hc, hdiag, _, _⟩ := hv (mv, r, c) (by simp)
    simp only at hr hc hdiag
    obtain ⟨names, e⟩ := pathNames_ok s rest cells sh (fun e he => hv e (by simp [he]))
    cases mv with
    | diag =>
      obtain ⟨h1, h2⟩ := hdiag rfl
      obtain ⟨m, em⟩ := mget_ok sh (show r - 1 < s.nt by omega) (show c - 1 < s.nf by omega)
      exact ⟨className m :: names, by simp [pathNames, em, e, bind, Except.bind, pure, Except.pure]⟩
    | up => exact ⟨"Insert" :: names, by simp [pathNames, e, bind, Except.bind, pure, Except.pure]⟩
    | left => exact ⟨"Remove" :: names, by simp [pathNames, e, bind, Except.bind, pure, Except.pure]⟩

end

end GtModel.Lazy

/-
  Static facts about the greedy matrix that `EditDistance.bounds()` relies on while the matrix is being built:
  the minimum cost over two consecutive anti-diagonals is a lower bound of the final cost and only grows with the
  diagonal index ("fringe lower bound monotone"), and the final cost is at most Σ removes + Σ inserts.
-/
import GtModel.Proofs.EditMatrix

namespace GtModel.EditMatrix

section
variable (rem ins : List Nat) (cells : List (List Nat))

/-- every cell other than the origin has a predecessor on one of the two previous anti-diagonals, no dearer -/
theorem spec_pred (r c : Nat) (h : 0 < r + c) :
    ∃ r' c', r' ≤ r ∧ c' ≤ c ∧ (r' + c' + 1 = r + c ∨ r' + c' + 2 = r + c) ∧
      (spec rem ins cells r' c').cost ≤ (spec rem ins cells r c).cost := by
  match r, c, h with
  | 0, c + 1, _ =>
    refine ⟨0, c, Nat.le_refl _, Nat.le_succ _, Or.inl (by omega), ?_⟩
    rw [spec.eq_2]; simp [goLeft]
  | r + 1, 0, _ =>
    refine ⟨r, 0, Nat.le_succ _, Nat.le_refl _, Or.inl (by omega), ?_⟩
    rw [spec.eq_3]; simp [goUp]
  | r + 1, c + 1, _ =>
    rw [spec.eq_4]
    rcases step_cases (ins.getD r 0) (rem.getD c 0) (cellAt cells r c) (spec rem ins cells r c)
      (spec rem ins cells (r + 1) c) (spec rem ins cells r (c + 1)) with ⟨h, _, _⟩ | h | h
    · exact ⟨r, c, Nat.le_succ _, Nat.le_succ _, Or.inr (by omega), by rw [h]; simp [goDiag]⟩
    · exact ⟨r, c + 1, Nat.le_succ _, Nat.le_refl _, Or.inl (by omega), by rw [h]; simp [goUp]⟩
    · exact ⟨r + 1, c, Nat.le_refl _, Nat.le_succ _, Or.inl (by omega), by rw [h]; simp [goLeft]⟩

/-- `x` is a lower bound of the costs on the anti-diagonals `k` and `k - 1` (inside an `m × n` matrix):
    what `EditDistance.bounds()` computes from `_fringe_diagonal()` and `_last_fringe` -/
def FringeLB (m n k x : Nat) : Prop :=
  ∀ r c, r ≤ m → c ≤ n → (r + c = k ∨ r + c + 1 = k) → x ≤ (spec rem ins cells r c).cost

/-- fringe lower bound monotone: a lower bound for diagonals k, k-1 is one for k+1, k -/
theorem fringeLB_step (m n k x : Nat) (h : FringeLB rem ins cells m n k x) : FringeLB rem ins cells m n (k + 1) x := by
  intro r c hr hc hk
  rcases hk with hk | hk
  · obtain ⟨r', c', hr', hc', hs, hle⟩ := spec_pred rem ins cells r c (by omega)
    have := h r' c' (by omega) (by omega) (by omega)
    omega
  · exact h r c hr hc (Or.inl (by omega))

theorem fringeLB_mono (m n k j x : Nat) (h : FringeLB rem ins cells m n k x) :
    FringeLB rem ins cells m n (k + j) x := by
  induction j with
  | zero => exact h
  | succ j ih => exact fringeLB_step rem ins cells m n (k + j) x ih

/-- fringe lower bound sound: it never exceeds the final cost (the corner of the matrix) -/
theorem fringeLB_sound (k x : Nat) (hk : k ≤ ins.length + rem.length)
    (h : FringeLB rem ins cells ins.length rem.length k x) : x ≤ (solve rem ins cells).1 := by
  have h' := fringeLB_mono rem ins cells ins.length rem.length k (ins.length + rem.length - k) x h
  have := h' ins.length rem.length (Nat.le_refl _) (Nat.le_refl _) (Or.inl (by omega))
  rw [solve_eq_spec]
  exact this

end

end GtModel.EditMatrix

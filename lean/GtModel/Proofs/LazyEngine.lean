/-
  The protocol for every machine of the engine, by induction on the nesting depth.  All seven classes are proved
  (the per-class lemmas live in LazyColl, LazyEd*, LazyWm*, LazyMs*); `AtomHyp` survives only as a trivially true
  parameter (no machine is an atom any more).
-/
import GtModel.Proofs.LazyEdF
import GtModel.Proofs.LazyMsD

namespace GtModel.Lazy

theorem height_pos (m : M) : 1 ≤ height m := by
  cases m <;> simp [height]

@[simp] theorem G_view (a : Ghost) (F n : Nat) : (G a F n).view = viewG a := rfl
@[simp] theorem G_fin (a : Ghost) (F n : Nat) : (G a F n).fin = finG a := rfl
@[simp] theorem G_mu (a : Ghost) (F n : Nat) : (G a F n).μ = muG a := rfl
@[simp] theorem G_script (a : Ghost) (F n : Nat) : (G a F n).script = scriptG a := rfl
@[simp] theorem G_Q (a : Ghost) (F n : Nat) : (G a F n).Q = setG a := rfl
theorem G_I (a : Ghost) (F n : Nat) (m : M) : (G a F n).I m ↔ (invG a F m ∧ height m ≤ n) := Iff.rfl

section Lists
variable (a : Ghost) (F n : Nat)

theorem sumLo_G (ms : List M) : sumLo (G a F n) ms = (viewL a ms).lo := by
  induction ms with
  | nil => rfl
  | cons m ms ih => simp only [sumLo, viewL, Iv.add, G_view, ih]

theorem sumHi_G (ms : List M) : sumHi (G a F n) ms = (viewL a ms).hi := by
  induction ms with
  | nil => rfl
  | cons m ms ih => simp only [sumHi, viewL, Iv.add, G_view, ih]

theorem sumFin_G (ms : List M) : sumFin (G a F n) ms = finL a ms := by
  induction ms with
  | nil => rfl
  | cons m ms ih => simp only [sumFin, finL, G_fin, ih]

theorem sumMu_G (ms : List M) : sumMu (G a F n) ms = muL a ms := by
  induction ms with
  | nil => rfl
  | cons m ms ih => simp only [sumMu, muL, G_mu, ih]

theorem script_G (ms : List M) : ms.map (G a F n).script = scriptL a ms := by
  induction ms with
  | nil => rfl
  | cons m ms ih => rw [List.map, scriptL, ih]; rfl

theorem inv_G (ms : List M) : (∀ m ∈ ms, (G a F n).I m) ↔ (invL a F ms ∧ heightL ms ≤ n) := by
  induction ms with
  | nil => simp [invL, heightL]
  | cons m ms ih =>
    constructor
    · intro h
      have hm := h m (by simp)
      have hr := ih.mp (fun x hx => h x (by simp [hx]))
      exact ⟨⟨hm.1, hr.1⟩, Nat.max_le.mpr ⟨hm.2, hr.2⟩⟩
    · rintro ⟨⟨h1, h3⟩, h⟩ x hx
      have hh := Nat.max_le.mp h
      rcases List.mem_cons.mp hx with rfl | hx
      · exact ⟨h1, hh.1⟩
      · exact ih.mpr ⟨h3, hh.2⟩ x hx

theorem set_G (ms : List M) : (∀ m ∈ ms, (G a F n).Q m) ↔ setL a ms := by
  induction ms with
  | nil => simp [setL]
  | cons m ms ih =>
    constructor
    · intro h
      exact ⟨h m (by simp), ih.mp (fun x hx => h x (by simp [hx]))⟩
    · rintro ⟨h1, h2⟩ x hx
      rcases List.mem_cons.mp hx with rfl | hx
      · exact h1
      · exact ih.mpr h2 x hx

end Lists

theorem height_kvp {l : Lbl} {k v : M} {n : Nat} : height (.kvp l k v) ≤ n + 1 ↔ (height k ≤ n ∧ height v ≤ n) := by
  simp only [height]
  constructor
  · intro h; exact Nat.max_le.mp (Nat.le_of_succ_le_succ h)
  · intro h; exact Nat.succ_le_succ (Nat.max_le.mpr h)

theorem height_str {l : Lbl} {e : M} {n : Nat} : height (.str l e) ≤ n + 1 ↔ height e ≤ n := by
  simp only [height]; omega

theorem height_fixed {l : Lbl} {subs : List M} {t : List Script} {n : Nat} :
    height (.fixed l subs t) ≤ n + 1 ↔ heightL subs ≤ n := by
  simp only [height]; omega

theorem height_coll {l : Lbl} {s : CollSt} {p q : List M} {n : Nat} :
    height (.coll l s p q) ≤ n + 1 ↔ (heightL q ≤ n ∧ heightL p ≤ n) := by
  simp only [height]
  constructor
  · intro h; exact Nat.max_le.mp (Nat.le_of_succ_le_succ h)
  · intro h; exact Nat.succ_le_succ (Nat.max_le.mpr h)

/-! ### the collection's generic ghost (LazyColl) instantiated at `G` -/

theorem HiLe_view {g g' : Ghost} (hv : g.view = g'.view) : ∀ (q : List M) (is : List Nat), HiLe g q is ↔ HiLe g' q is
  | [], [] => Iff.rfl
  | m :: ms, i :: is => by simp only [HiLe, hv, HiLe_view hv ms is]
  | [], _ :: _ => Iff.rfl
  | _ :: _, [] => Iff.rfl

section CollG
variable (a : Ghost) (F n : Nat)

theorem decOf_G : ∀ (q : List M) (is : List Nat), decOf (G a F n) q is = decL a q is
  | [], _ => rfl
  | m :: ms, is => by simp only [decOf, decL, G_view, decOf_G ms is.tail]

theorem collView_G (l : Lbl) (s : CollSt) (p q : List M) :
    collView (G a F n) s q = viewG a (.coll l s p q) := by
  simp only [collView, viewG, sumLo_G, sumHi_G, decOf_G]
  cases s.cost <;> rfl

theorem collMu0_G (s : CollSt) (p q : List M) :
    collMu0 (G a F n) s p q = muL a q + muL a p + p.length + (if s.iterDone then 0 else 1) := by
  simp only [collMu0, sumMu_G]

theorem coll_I (l : Lbl) (s : CollSt) (p q : List M) :
    (G a F (n + 1)).I (.coll l s p q) ↔ (CollInv (G a F n) s p q ∧ collMu0 (G a F n) s p q < F) := by
  rw [collMu0_G]
  constructor
  · rintro ⟨⟨hmu, iq, ip, hq, hp, ub, dn, memo, ne⟩, hh⟩
    obtain ⟨h1, h2⟩ := height_coll.mp hh
    refine ⟨⟨(inv_G a F n q).mpr ⟨iq, h1⟩, (inv_G a F n p).mpr ⟨ip, h2⟩, (HiLe_view (g := G a F n) (g' := viewOnly (viewG a)) rfl q _).mpr hq,
      (HiLe_view (g := G a F n) (g' := viewOnly (viewG a)) rfl p _).mpr hp, ub, dn, ?_, ne⟩, hmu⟩
    intro c hc
    obtain ⟨m1, m2, m3⟩ := memo c hc
    exact ⟨m1, by rw [sumLo_G, sumHi_G]; exact m2, m3⟩
  · rintro ⟨inv, hmu⟩
    obtain ⟨iq, h1⟩ := (inv_G a F n q).mp inv.iq
    obtain ⟨ip, h2⟩ := (inv_G a F n p).mp inv.ip
    refine ⟨⟨hmu, iq, ip, (HiLe_view (g := G a F n) (g' := viewOnly (viewG a)) rfl q _).mp inv.hq, (HiLe_view (g := G a F n) (g' := viewOnly (viewG a)) rfl p _).mp inv.hp, inv.ub, inv.done, ?_, inv.ne⟩,
      height_coll.mpr ⟨h1, h2⟩⟩
    intro c hc
    obtain ⟨m1, m2, m3⟩ := inv.memo c hc
    exact ⟨m1, by rw [sumLo_G, sumHi_G] at m2; exact m2, m3⟩

/-- a `CollKeeps` step of the generic collection is a `Keeps` step of the machine -/
theorem coll_keeps {l : Lbl} {s s' : CollSt} {p p' q q' : List M}
    (P : Protocol (mkOps qq F n) (G a F n))
    (hI : (G a F (n + 1)).I (.coll l s p q)) (ck : CollKeeps (G a F n) s p q s' p' q') :
    Keeps (G a F (n + 1)) (.coll l s p q) (.coll l s' p' q') := by
  obtain ⟨inv, hmu⟩ := (coll_I a F n l s p q).mp hI
  have hmu' := ck.mu
  have hsub := ck.sub
  have wf' := collView_wf P ck.inv
  have hfin := ck.fin
  have hscr := ck.scr
  rw [collView_G a F n l s p q, collView_G a F n l s' p' q'] at hsub
  rw [collView_G a F n l s' p' q'] at wf'
  simp only [sumFin_G] at hfin wf'
  simp only [List.map_append, script_G] at hscr
  refine ⟨(coll_I a F n l s' p' q').mpr ⟨ck.inv, by omega⟩, ?_, hsub, ?_, ?_⟩
  · simp only [G_fin, finG, hfin]
  · rw [collMu0_G] at hmu'
    rw [collMu0_G] at hmu'
    simp only [G_mu, muG]; omega
  · simp only [G_script, scriptG, hfin, hscr]

end CollG

/-! ### the EditDistance's generic ghost (LazyEd*) instantiated at `G` -/

theorem height_ed {l : Lbl} {s : EdSt} {cells : List (List M)} {n : Nat} :
    height (.ed l s cells) ≤ n + 1 ↔ heightLL cells ≤ n := by
  simp only [height]; omega

theorem finM_congr {g g' : Ghost} (hf : g.fin = g'.fin) (t : List (List M)) : finM g t = finM g' t := by
  simp [finM, hf]

theorem DefOn_congr {g g' : Ghost} (hv : g.view = g'.view) {cells : List (List M)} {D : Nat → Nat → Prop}
    (d : DefOn g cells D) : DefOn g' cells D := by
  intro r c m hr hc hd hm
  rw [← hv]; exact d r c m hr hc hd hm

/-- the invariant only looks at the cells' intervals and final costs (and their own invariants) -/
theorem EdInv.congr {g g' : Ghost} (hv : g.view = g'.view) (hf : g.fin = g'.fin) {s : EdSt}
    {cells : List (List M)} (inv : EdInv g s cells) (hI : ∀ row ∈ cells, ∀ m ∈ row, g'.I m) : EdInv g' s cells := by
  have hfm := finM_congr hf cells
  exact ⟨inv.nz, inv.pos, inv.shape, hI, by rw [← hfm]; exact inv.tab, DefOn_congr hv inv.defs, inv.last, inv.jf,
    inv.jc, by rw [← hfm]; exact inv.cv, by rw [← hfm]; exact inv.stat⟩

theorem edPathScripts_core {s s' : EdSt} (c : SameCore s s') (scr : List (List DScript)) :
    ∀ (tr : List (EditMatrix.Move × Nat × Nat)), edPathScripts s' scr tr = edPathScripts s scr tr
  | [] => rfl
  | (mv, r, cc) :: rest => by
      simp only [edPathScripts, edPathScripts_core c scr rest, c.pre, c.ins, c.rem]

section EdG
variable (a : Ghost) (F n : Nat)

theorem finRow_G : ∀ (r : List M), r.map (G a F n).fin = finRow a r
  | [] => rfl
  | m :: ms => by simp only [List.map, finRow, G_fin, ← finRow_G ms]

theorem finM_G : ∀ (cells : List (List M)), finM (G a F n) cells = finLL a cells
  | [] => rfl
  | r :: rs => by
      have := finM_G rs
      simp only [finM] at this ⊢
      simp only [List.map, finLL, ← this, ← finRow_G a F n r]

theorem muLLg_G : ∀ (cells : List (List M)), muLLg (G a F n) cells = muLL2 a cells
  | [] => rfl
  | r :: rs => by simp only [muLLg, muLL2, sumMu_G, muLLg_G rs]

theorem scrM_G : ∀ (cells : List (List M)), scrM (G a F n) cells = scriptLL a cells
  | [] => rfl
  | r :: rs => by
      have := scrM_G rs
      simp only [scrM] at this ⊢
      simp only [List.map, scriptLL, ← this, ← script_G a F n r]

theorem invLL_G : ∀ (cells : List (List M)),
    (∀ row ∈ cells, ∀ m ∈ row, (G a F n).I m) ↔ (invLL2 a F cells ∧ heightLL cells ≤ n)
  | [] => by simp [invLL2, heightLL]
  | r :: rs => by
      have ih := invLL_G rs
      constructor
      · intro h
        have h1 := (inv_G a F n r).mp (h r (by simp))
        have h2 := ih.mp (fun row hrow => h row (by simp [hrow]))
        exact ⟨⟨h1.1, h2.1⟩, Nat.max_le.mpr ⟨h1.2, h2.2⟩⟩
      · rintro ⟨⟨h1, h2⟩, hh⟩ row hrow
        have hm := Nat.max_le.mp hh
        rcases List.mem_cons.mp hrow with rfl | hrow
        · exact (inv_G a F n row).mpr ⟨h1, hm.1⟩
        · exact ih.mpr ⟨h2, hm.2⟩ row hrow

theorem ed_I (l : Lbl) (s : EdSt) (cells : List (List M)) :
    (G a F (n + 1)).I (.ed l s cells) ↔ (EdInv (G a F n) s cells ∧ edMu0 s + muLLg (G a F n) cells < F) := by
  rw [muLLg_G]
  constructor
  · rintro ⟨⟨hmu, hI, inv⟩, hh⟩
    exact ⟨EdInv.congr (g := ghostOf a) (g' := G a F n) rfl rfl inv ((invLL_G a F n cells).mpr ⟨hI, height_ed.mp hh⟩), hmu⟩
  · rintro ⟨inv, hmu⟩
    obtain ⟨hI, hh⟩ := (invLL_G a F n cells).mp inv.cellsI
    exact ⟨⟨hmu, hI, EdInv.congr (g := G a F n) (g' := ghostOf a) rfl rfl inv (fun _ _ _ _ => trivial)⟩, height_ed.mpr hh⟩

/-- an `EdKeeps` step of the generic EditDistance is a `Keeps` step of the machine -/
theorem ed_keeps {l : Lbl} {s s' : EdSt} {cells cells' : List (List M)}
    (hI : (G a F (n + 1)).I (.ed l s cells)) (ek : EdKeeps (G a F n) s cells s' cells') :
    Keeps (G a F (n + 1)) (.ed l s cells) (.ed l s' cells') := by
  obtain ⟨inv, hmu⟩ := (ed_I a F n l s cells).mp hI
  have hmu' := ek.mu0
  have hfm : finLL a cells' = finLL a cells := by rw [← finM_G a F n, ← finM_G a F n]; exact ek.kl.finM
  have hscr : scriptLL a cells' = scriptLL a cells := by rw [← scrM_G a F n, ← scrM_G a F n]; exact ek.kl.scripts
  have hfin : edFinOf s' (finLL a cells') = edFinOf s (finLL a cells) := by rw [hfm, edFin_core ek.core]
  have hsub := ek.sub
  rw [finM_G] at hsub
  have c := ek.core
  refine ⟨(ed_I a F n l s' cells').mpr ⟨ek.inv, by omega⟩, ?_, ?_, ?_, ?_⟩
  · simp only [G_fin, finG, hfin]
  · simp only [G_view, viewG, hfm]; exact hsub
  · rw [muLLg_G, muLLg_G] at hmu'
    simp only [G_mu, muG]; exact hmu'
  · simp only [G_script, scriptG, hfm, hscr, c.pre, c.suf, c.flen, c.tlen, c.nt, c.nf,
      edPathScripts_core c, ptrace_congr (c.edT (finLL a cells)), edFin_core c]

end EdG

/-! ### the MultiSetEdit's generic ghost (LazyWm*, LazyMs*) instantiated at `G` -/

theorem height_ms {l : Lbl} {s : MsSt} {k : List M} {w : WmSt} {e : List (List M)} {n : Nat} :
    height (.ms l s k w e) ≤ n + 1 ↔ (heightL k ≤ n ∧ heightLL e ≤ n) := by
  simp only [height]
  constructor
  · intro h; exact Nat.max_le.mp (Nat.le_of_succ_le_succ h)
  · intro h; exact Nat.succ_le_succ (Nat.max_le.mpr h)

section MsG
variable (a : Ghost) (F n : Nat)

theorem viewRow_G : ∀ (r : List M), r.map (G a F n).view = viewRow a r
  | [] => rfl
  | m :: ms => by simp only [List.map, viewRow, G_view, ← viewRow_G ms]

theorem viewM_G : ∀ (e : List (List M)), viewM (G a F n) e = viewLL a e
  | [] => rfl
  | r :: rs => by
      have := viewM_G rs
      simp only [viewM] at this ⊢
      simp only [List.map, viewLL, ← this, ← viewRow_G a F n r]

theorem msView_G (l : Lbl) (s : MsSt) (k : List M) (w : WmSt) (e : List (List M)) :
    msViewOf (G a F n) s k w e = viewG a (.ms l s k w e) := by
  simp only [msViewOf, viewG, viewM_G, sumLo_G, sumHi_G]
  cases leftIv s w <;> rfl

theorem msFin_G (l : Lbl) (s : MsSt) (k : List M) (w : WmSt) (e : List (List M)) :
    msFinOf (G a F n) s k w e = finG a (.ms l s k w e) := by
  simp only [msFinOf, wmFin, finM_G, sumFin_G, finG]

theorem msScript_G (l : Lbl) (s : MsSt) (k : List M) (w : WmSt) (e : List (List M)) :
    msScriptOf (G a F n) l s k w e = scriptG a (.ms l s k w e) := by
  simp only [msScriptOf, msFin_G a F n l, scrM_G, script_G, scriptG, finG]

theorem msMu_G (l : Lbl) (s : MsSt) (k : List M) (w : WmSt) (e : List (List M)) :
    msMuOf (G a F n) s k w e = muG a (.ms l s k w e) := by
  simp only [msMuOf, msBase, sumMu_G, muLLg_G, msView_G a F n l, muG]

theorem ms_I (l : Lbl) (s : MsSt) (k : List M) (w : WmSt) (e : List (List M)) :
    (G a F (n + 1)).I (.ms l s k w e) ↔ (MsInv (G a F n) s k w e ∧ wmFlags w + muLLg (G a F n) e < F) := by
  rw [muLLg_G]
  constructor
  · rintro ⟨⟨hmu, ik, ie, sh, ok, mt, memo, hr, hi⟩, hh⟩
    obtain ⟨h1, h2⟩ := height_ms.mp hh
    refine ⟨⟨⟨sh, (invLL_G a F n e).mpr ⟨ie, h2⟩, ok, mt, ?_⟩, (inv_G a F n k).mpr ⟨ik, h1⟩, hr, hi⟩, hmu⟩
    intro b hb
    have := memo b hb
    simpa [wmFin, finM_G, viewM_G] using this
  · rintro ⟨inv, hmu⟩
    obtain ⟨ik, h1⟩ := (inv_G a F n k).mp inv.kI
    obtain ⟨ie, h2⟩ := (invLL_G a F n e).mp inv.wm.edgesI
    refine ⟨⟨hmu, ik, ie, inv.wm.shape, inv.wm.ok, inv.wm.mt, ?_, inv.rem, inv.ins⟩, height_ms.mpr ⟨h1, h2⟩⟩
    intro b hb
    have := inv.wm.memo b hb
    simpa [wmFin, finM_G, viewM_G] using this

/-- an `MsKeeps` step of the generic MultiSetEdit is a `Keeps` step of the machine -/
theorem ms_keeps {l : Lbl} {s : MsSt} {k k' : List M} {w w' : WmSt} {e e' : List (List M)}
    (hI : (G a F (n + 1)).I (.ms l s k w e)) (mk : MsKeeps (G a F n) s k w e k' w' e') :
    Keeps (G a F (n + 1)) (.ms l s k w e) (.ms l s k' w' e') := by
  obtain ⟨inv, hmu⟩ := (ms_I a F n l s k w e).mp hI
  have hfuel := mk.fuel
  refine ⟨(ms_I a F n l s k' w' e').mpr ⟨mk.inv, by omega⟩, ?_, ?_, ?_, ?_⟩
  · simp only [G_fin]; rw [← msFin_G a F n l, ← msFin_G a F n l]; exact mk.fin
  · simp only [G_view]; rw [← msView_G a F n l, ← msView_G a F n l]; exact mk.sub
  · simp only [G_mu]; rw [← msMu_G a F n l, ← msMu_G a F n l]; exact mk.mu
  · simp only [G_script]; rw [← msScript_G a F n l, ← msScript_G a F n l]; exact mk.scr l

end MsG

/-- the ghost `g` restricted to atoms (`ed`, `coll`, `ms` machines) -/
def atomsOf (g : Ghost) : Ghost := { g with I := fun m => g.I m ∧ isAtom m = true }

/-- what is assumed about `ed` / `coll` / `ms` machines: they obey the protocol at depth n+1 whenever everything
    obeys it at depth n -/
def AtomHyp (q : Bool) (F : Nat) (a : Ghost) : Prop :=
  ∀ n, Protocol (mkOps q F n) (G a F n) → Protocol (mkOps q F (n + 1)) (atomsOf (G a F (n + 1)))

theorem pres_lift {a : Ghost} {F n : Nat} {m m' : M} (h : Pres (G a F n) m m') :
    invG a F m' ∧ height m' ≤ n ∧ viewG a m' = viewG a m ∧ finG a m' = finG a m ∧ muG a m' ≤ muG a m ∧
      scriptG a m' = scriptG a m :=
  ⟨h.inv.1, h.inv.2, h.view, h.fin, h.mu, h.scr⟩

theorem engine_step (q : Bool) (F : Nat) (hF : 0 < F) (a : Ghost) (hA : AtomHyp q F a) (n : Nat) (P : Protocol (mkOps q F n) (G a F n)) :
    Protocol (mkOps q F (n + 1)) (G a F (n + 1)) := by
  refine ⟨?wf, ?bounds, ?tighten, ?complete, ?onDiff, ?dump⟩
  case wf =>
    intro m hm
    match m, hm with
    | .const l c, _ => simp [viewG, finG, Iv.point]
    | .kvp l k v, hm =>
      have hk : (G a F n).I k := ⟨hm.1.1, (height_kvp.mp hm.2).1⟩
      have hv : (G a F n).I v := ⟨hm.1.2, (height_kvp.mp hm.2).2⟩
      have := P.wf k hk; have := P.wf v hv
      simp only [G_view, G_fin, viewG, finG, Iv.add] at *; omega
    | .str l e, hm =>
      have he : (G a F n).I e := ⟨hm.1, height_str.mp hm.2⟩
      have := P.wf e he
      simp only [G_view, G_fin, viewG, finG] at *; omega
    | .fixed l subs tail, hm =>
      have hs : ∀ x ∈ subs, (G a F n).I x := (inv_G a F n subs).mpr ⟨hm.1, height_fixed.mp hm.2⟩
      have := sum_wf P subs hs
      rw [sumLo_G, sumFin_G, sumHi_G] at this
      simp only [G_view, G_fin, viewG, finG]; omega
    | .ed l s c, hm =>
      obtain ⟨inv, _⟩ := (ed_I a F n l s c).mp hm
      have := edView_wf inv
      rw [finM_G] at this
      simp only [G_view, G_fin, viewG, finG]; exact this
    | .coll l s p r, hm =>
      obtain ⟨inv, _⟩ := (coll_I a F n l s p r).mp hm
      have := collView_wf P inv
      rw [collView_G a F n l s p r] at this
      simp only [sumFin_G] at this
      simp only [G_view, G_fin, finG]; exact this
    | .ms l s k w e, hm =>
      obtain ⟨inv, _⟩ := (ms_I a F n l s k w e).mp hm
      have := msView_wf P inv
      rw [msView_G a F n l, msFin_G a F n l] at this
      simp only [G_view, G_fin]; exact this
  case bounds =>
    intro m hm
    match m, hm with
    | .const l c, hm =>
      exact ⟨.const l c, rfl, Pres.refl _ _ hm, trivial⟩
    | .kvp l k v, hm =>
      have hk : (G a F n).I k := ⟨hm.1.1, (height_kvp.mp hm.2).1⟩
      have hv : (G a F n).I v := ⟨hm.1.2, (height_kvp.mp hm.2).2⟩
      obtain ⟨k', v', e, pk, qk, pv, qv⟩ := kvpBounds_ok P l k v hk hv
      obtain ⟨ik, hk', vk, fk, mk, sk⟩ := pres_lift pk
      obtain ⟨iv, hv', vv, fv, mv, sv⟩ := pres_lift pv
      refine ⟨.kvp l k' v', e, ⟨⟨⟨ik, iv⟩, ?_⟩, ?_, ?_, ?_, ?_⟩, ⟨qk, qv⟩⟩
      · exact height_kvp.mpr ⟨hk', hv'⟩
      · simp only [G_view, viewG, vk, vv]
      · simp only [G_fin, finG, fk, fv]
      · simp only [G_mu, muG]; omega
      · simp only [G_script, scriptG, fk, fv, sk, sv]
    | .str l e, hm =>
      have he : (G a F n).I e := ⟨hm.1, height_str.mp hm.2⟩
      obtain ⟨e', ee, pe, qe⟩ := P.bounds e he
      obtain ⟨ie, he', ve, fe, me, se⟩ := pres_lift pe
      refine ⟨.str l e', ?_, ⟨⟨ie, ?_⟩, ?_, ?_, ?_, ?_⟩, qe⟩
      · show boundsB (mkOps q F n) F (.str l e) = _
        simp [boundsB, ee, bind, Except.bind, pure, Except.pure, viewG]
      · exact height_str.mpr he'
      · simp only [G_view, viewG, ve]
      · simp only [G_fin, finG, fe]
      · simp only [G_mu, muG]; exact me
      · simp only [G_script, scriptG, fe, se]
    | .fixed l subs tail, hm =>
      have hs : ∀ x ∈ subs, (G a F n).I x := (inv_G a F n subs).mpr ⟨hm.1, height_fixed.mp hm.2⟩
      obtain ⟨ms', e, ag, elo, ehi, qs⟩ := fixedBounds_ok P l subs tail hs
      have hi' := (inv_G a F n ms').mp ag.inv
      have hfin := ag.fin; have hmu := ag.mu
      rw [sumFin_G, sumFin_G] at hfin
      rw [sumMu_G, sumMu_G] at hmu
      rw [sumLo_G, sumLo_G] at elo
      rw [sumHi_G, sumHi_G] at ehi
      rw [sumLo_G, sumHi_G] at e
      have hscr := ag.scr
      rw [script_G, script_G] at hscr
      refine ⟨.fixed l ms' tail, e, ⟨⟨hi'.1, ?_⟩, ?_, ?_, ?_, ?_⟩, (set_G a F n ms').mp qs⟩
      · exact height_fixed.mpr hi'.2
      · simp only [G_view, viewG, elo, ehi]
      · simp only [G_fin, finG, hfin]
      · simp only [G_mu, muG, elo, ehi]; omega
      · simp only [G_script, scriptG, hfin, hscr]
    | .ed l s c, hm =>
      obtain ⟨inv, hmu⟩ := (ed_I a F n l s c).mp hm
      obtain ⟨s', c', e, ek, hv, _, hq, _, _⟩ := edBounds_keeps P F inv (by omega)
      have kp := ed_keeps a F n hm ek
      have hfm : finLL a c' = finLL a c := by rw [← finM_G a F n, ← finM_G a F n]; exact ek.kl.finM
      rw [finM_G] at e hv
      refine ⟨.ed l s' c', ?_, ⟨kp.inv, ?_, kp.fin, kp.mu, kp.scr⟩, hq⟩
      · show boundsB (mkOps q F n) F (.ed l s c) = _
        simp [boundsB, e, bind, Except.bind, pure, Except.pure, viewG]
      · simp only [G_view, viewG, hfm, hv]
    | .coll l s p r, hm =>
      obtain ⟨inv, _⟩ := (coll_I a F n l s p r).mp hm
      obtain ⟨s', q', e, ck, hv, _, _, _⟩ := collBounds_keeps P l s p r inv
      have kp := coll_keeps a F n P hm ck
      rw [collView_G a F n l s p r] at e
      rw [collView_G a F n l s p r, collView_G a F n l s' p q'] at hv
      exact ⟨.coll l s' p q', e, ⟨kp.inv, hv, kp.fin, kp.mu, kp.scr⟩, trivial⟩
    | .ms l s k w e, hm =>
      obtain ⟨inv, hmu⟩ := (ms_I a F n l s k w e).mp hm
      obtain ⟨k', w', e', hb, pk, pp, inv', sw, hv, qk, _⟩ := msBounds_ok P l inv
      have h1 := (KeepsL.sums pk.1).2.2.2.1
      have h2 := pp.1.mu
      have h3 := wmFlags_same sw
      have mk : MsKeeps (G a F n) s k w e k' w' e' :=
        ⟨agg_of_keepsL pk.1, pp.1, inv', sw.1, sw.2.1, sw.2.2.2.2.1, by rw [hv]; exact ⟨Nat.le_refl _, Nat.le_refl _⟩,
          by simp only [msBase]; omega, by omega⟩
      have kp := ms_keeps a F n hm mk
      rw [msView_G a F n l] at hb
      rw [msView_G a F n l, msView_G a F n l] at hv
      exact ⟨.ms l s k' w' e', hb, ⟨kp.inv, hv, kp.fin, kp.mu, kp.scr⟩, (set_G a F n k').mp qk⟩
  case tighten =>
    intro m hm
    match m, hm with
    | .const l c, hm =>
      exact ⟨.const l c, false, rfl, ⟨hm, rfl, ⟨Nat.le_refl _, Nat.le_refl _⟩, Nat.le_refl _, by simp,
        fun _ => by simp [viewG, Iv.point], by simp, rfl⟩⟩
    | .kvp l k v, hm =>
      have hk : (G a F n).I k := ⟨hm.1.1, (height_kvp.mp hm.2).1⟩
      have hv : (G a F n).I v := ⟨hm.1.2, (height_kvp.mp hm.2).2⟩
      obtain ⟨k', v', r, e, hcase⟩ := kvpTighten_ok P l k v hk hv
      refine ⟨.kvp l k' v', r, e, ?_⟩
      rcases hcase with ⟨hr, sk, rfl⟩ | ⟨sk, sv⟩
      · subst hr
        have s1 := sk.sub.1; have s2 := sk.sub.2
        simp only [G_view] at s1 s2
        have hscr := sk.scr; have hfin := sk.fin
        simp only [G_script, G_fin] at hscr hfin
        refine ⟨⟨⟨sk.inv.1, hv.1⟩, height_kvp.mpr ⟨sk.inv.2, hv.2⟩⟩, ?_, ?_, ?_, ?_, by simp, ?_,
          by simp only [G_script, scriptG, hscr, hfin]⟩
        · have := sk.fin; simp only [G_fin] at this; simp only [G_fin, finG, this]
        · simp only [G_view, viewG, Iv.add]; omega
        · have := sk.mu; simp only [G_mu] at this; simp only [G_mu, muG]; omega
        · intro _; have := sk.dec rfl; simp only [G_mu] at this; simp only [G_mu, muG]; omega
        · intro hq _
          have hne := sk.strict hq.1 rfl
          have := iv_ne_of_sub sk.sub hne
          simp only [G_view] at this
          simp only [G_view, viewG, Iv.add, ne_eq, Iv.mk.injEq]; omega
      · have s1 := sk.sub.1; have s2 := sk.sub.2; have t1 := sv.sub.1; have t2 := sv.sub.2
        have dk := sk.stop rfl
        simp only [G_view] at s1 s2 t1 t2 dk
        have hscr1 := sk.scr; have hfin1 := sk.fin; have hscr2 := sv.scr; have hfin2 := sv.fin
        simp only [G_script, G_fin] at hscr1 hfin1 hscr2 hfin2
        refine ⟨⟨⟨sk.inv.1, sv.inv.1⟩, height_kvp.mpr ⟨sk.inv.2, sv.inv.2⟩⟩, ?_, ?_, ?_, ?_, ?_, ?_,
          by simp only [G_script, scriptG, hscr1, hfin1, hscr2, hfin2]⟩
        · have h1 := sk.fin; have h2 := sv.fin; simp only [G_fin] at h1 h2; simp only [G_fin, finG, h1, h2]
        · simp only [G_view, viewG, Iv.add]; omega
        · have h1 := sk.mu; have h2 := sv.mu; simp only [G_mu] at h1 h2; simp only [G_mu, muG]; omega
        · intro hr; have h1 := sk.mu; have h2 := sv.dec hr; simp only [G_mu] at h1 h2; simp only [G_mu, muG]; omega
        · intro hr; have dv := sv.stop hr; simp only [G_view] at dv; simp only [G_view, viewG, Iv.add]; omega
        · intro hq hr
          have hne := sv.strict hq.2 hr
          have := iv_ne_of_sub sv.sub hne
          simp only [G_view] at this
          simp only [G_view, viewG, Iv.add, ne_eq, Iv.mk.injEq]; omega
    | .str l e, hm =>
      have he : (G a F n).I e := ⟨hm.1, height_str.mp hm.2⟩
      obtain ⟨e', r, ee, se⟩ := P.tighten e he
      have hscr := se.scr; have hfin := se.fin
      simp only [G_script, G_fin] at hscr hfin
      refine ⟨.str l e', r, ?_, ⟨⟨se.inv.1, height_str.mpr se.inv.2⟩, se.fin, se.sub, se.mu, se.dec, se.stop, se.strict,
        by simp only [G_script, scriptG, hscr, hfin]⟩⟩
      show tightenB (mkOps q F n) q F (.str l e) = _
      simp [tightenB, ee, bind, Except.bind, pure, Except.pure]
    | .fixed l subs tail, hm =>
      have hs : ∀ x ∈ subs, (G a F n).I x := (inv_G a F n subs).mpr ⟨hm.1, height_fixed.mp hm.2⟩
      obtain ⟨ms', r, e, out⟩ := fixedTighten_ok' P l tail F hF subs hs
      have hi' := (inv_G a F n ms').mp out.agg.inv
      have hfin := out.agg.fin; have hmu := out.agg.mu; have hlo := out.agg.lo; have hhi := out.agg.hi
      have hdec := out.dec; have hstrict := out.strict; have hstop := out.stop
      simp only [sumFin_G, sumMu_G, sumLo_G, sumHi_G] at hfin hmu hlo hhi hdec hstrict hstop
      have wf' := sum_wf P ms' out.agg.inv
      simp only [sumFin_G, sumLo_G, sumHi_G] at wf'
      have hscr := out.agg.scr
      rw [script_G, script_G] at hscr
      refine ⟨.fixed l ms' tail, r, e, ⟨⟨hi'.1, height_fixed.mpr hi'.2⟩, ?_, ?_, ?_, ?_, ?_, ?_,
        by simp only [G_script, scriptG, hfin, hscr]⟩⟩
      · simp only [G_fin, finG, hfin]
      · simp only [G_view, viewG]; omega
      · simp only [G_mu, muG]; omega
      · intro hr; have := hdec hr; simp only [G_mu, muG]; omega
      · intro hr; have := hstop hr; simp only [G_view, viewG]; omega
      · intro _ hr; have := hstrict hr
        simp only [G_view, viewG, ne_eq, Iv.mk.injEq]; omega
    | .ed l s c, hm =>
      obtain ⟨inv, hmu⟩ := (ed_I a F n l s c).mp hm
      obtain ⟨s', c', r, e, ek, hdec, hstop, hstrict, _⟩ := edTighten_ok P q F inv hmu
      have kp := ed_keeps a F n hm ek
      have hfm : finLL a c' = finLL a c := by rw [← finM_G a F n, ← finM_G a F n]; exact ek.kl.finM
      rw [finM_G] at hstop hstrict
      rw [muLLg_G, muLLg_G] at hdec
      refine ⟨.ed l s' c', r, ?_, ⟨kp.inv, kp.fin, kp.sub, kp.mu, ?_, ?_, ?_, kp.scr⟩⟩
      · show tightenB (mkOps q F n) q F (.ed l s c) = _
        simp [tightenB, e, bind, Except.bind, pure, Except.pure]
      · intro hr; simp only [G_mu, muG]; exact hdec hr
      · intro hr; simp only [G_view, viewG, hfm]; exact hstop hr
      · intro hq hr
        simp only [G_view, viewG, hfm]
        exact hstrict hq hr
    | .coll l s p r, hm =>
      obtain ⟨inv, hmu⟩ := (coll_I a F n l s p r).mp hm
      obtain ⟨s', p', q', rr, e, ck, c1, c2⟩ := collTighten_ok P l F s p r inv hmu
      have kp := coll_keeps a F n P hm ck
      have wf' := collView_wf P ck.inv
      have hmu' := ck.mu
      rw [collView_G a F n l s p r, collView_G a F n l s' p' q'] at c1
      rw [collView_G a F n l s' p' q'] at c2 wf'
      rw [collMu0_G, collMu0_G] at hmu'
      have hsub := kp.sub
      simp only [G_view] at hsub
      refine ⟨.coll l s' p' q', rr, e, ⟨kp.inv, kp.fin, kp.sub, kp.mu, ?_, c2, ?_, kp.scr⟩⟩
      · intro hr
        have := c1 hr
        simp only [G_mu, muG]; omega
      · intro _ hr
        have := c1 hr
        intro heq
        simp only [G_view] at heq
        rw [heq] at this
        omega
    | .ms l s k w e, hm =>
      obtain ⟨inv, hmu⟩ := (ms_I a F n l s k w e).mp hm
      obtain ⟨k', w', e', r, ht, kk, ke, inv', a1, a2, a3, v1, v2, hb, hfu, hdec, hstop, hstrict⟩ :=
        msTighten_ok P F l inv hmu
      have mk : MsKeeps (G a F n) s k w e k' w' e' := ⟨agg_of_keepsL kk, ke, inv', a1, a2, a3, ⟨v1, v2⟩, hb, hfu⟩
      have kp := ms_keeps a F n hm mk
      refine ⟨.ms l s k' w' e', r, ht, ⟨kp.inv, kp.fin, kp.sub, kp.mu, ?_, ?_, ?_, kp.scr⟩⟩
      · intro hr
        have := hdec hr
        have wf1 := msView_wf P inv
        have wf2 := msView_wf P inv'
        simp only [G_mu]
        rw [← msMu_G a F n l, ← msMu_G a F n l]
        simp only [msMuOf]
        omega
      · intro hr
        have := hstop hr
        simp only [G_view]
        rw [← msView_G a F n l]; exact this
      · intro hQ hr
        have := hstrict ((set_G a F n k).mpr hQ) hr
        simp only [G_view]
        rw [← msView_G a F n l, ← msView_G a F n l]; exact this
  case complete =>
    intro m hm
    match m, hm with
    | .const l c, hm => exact ⟨.const l c, true, rfl, Pres.refl _ _ hm, id⟩
    | .kvp l k v, hm =>
      have hk : (G a F n).I k := ⟨hm.1.1, (height_kvp.mp hm.2).1⟩
      have hv : (G a F n).I v := ⟨hm.1.2, (height_kvp.mp hm.2).2⟩
      obtain ⟨k', v', e, pk, qk, pv, qv⟩ := kvpBounds_ok P l k v hk hv
      obtain ⟨ik, hk', vk, fk, mk, sk⟩ := pres_lift pk
      obtain ⟨iv, hv', vv, fv, mv, sv⟩ := pres_lift pv
      refine ⟨.kvp l k' v', ((G a F n).view k).add ((G a F n).view v) |>.definitive, ?_,
        ⟨⟨⟨ik, iv⟩, height_kvp.mpr ⟨hk', hv'⟩⟩, ?_, ?_, ?_, by simp only [G_script, scriptG, fk, fv, sk, sv]⟩,
        fun _ => ⟨qk, qv⟩⟩
      · show completeB (mkOps q F n) F (.kvp l k v) = _
        simp [completeB, e, bind, Except.bind, pure, Except.pure]
      · simp only [G_view, viewG, vk, vv]
      · simp only [G_fin, finG, fk, fv]
      · simp only [G_mu, muG]; omega
    | .str l e, hm =>
      have he : (G a F n).I e := ⟨hm.1, height_str.mp hm.2⟩
      obtain ⟨e', ee, pe, qe⟩ := P.bounds e he
      obtain ⟨ie, he', ve, fe, me, se⟩ := pres_lift pe
      refine ⟨.str l e', ((G a F n).view e).definitive, ?_, ⟨⟨ie, height_str.mpr he'⟩, ?_, ?_, ?_,
        by simp only [G_script, scriptG, fe, se]⟩, fun _ => qe⟩
      · show completeB (mkOps q F n) F (.str l e) = _
        simp [completeB, ee, bind, Except.bind, pure, Except.pure]
      · simp only [G_view, viewG, ve]
      · simp only [G_fin, finG, fe]
      · simp only [G_mu, muG]; exact me
    | .fixed l subs tail, hm =>
      have hs : ∀ x ∈ subs, (G a F n).I x := (inv_G a F n subs).mpr ⟨hm.1, height_fixed.mp hm.2⟩
      obtain ⟨ms', c, e, ag, elo, ehi, qs⟩ := fixedComplete_ok P subs hs
      have hi' := (inv_G a F n ms').mp ag.inv
      have hfin := ag.fin; have hmu := ag.mu
      simp only [sumFin_G, sumMu_G, sumLo_G, sumHi_G] at hfin hmu elo ehi
      have hscr := ag.scr
      rw [script_G, script_G] at hscr
      refine ⟨.fixed l ms' tail, c, ?_, ⟨⟨hi'.1, height_fixed.mpr hi'.2⟩, ?_, ?_, ?_,
        by simp only [G_script, scriptG, hfin, hscr]⟩, ?_⟩
      · show completeB (mkOps q F n) F (.fixed l subs tail) = _
        simp [completeB, e, bind, Except.bind, pure, Except.pure]
      · simp only [G_view, viewG, elo, ehi]
      · simp only [G_fin, finG, hfin]
      · simp only [G_mu, muG, elo, ehi]; omega
      · intro hq
        exact (set_G a F n ms').mp (qs ((set_G a F n subs).mpr hq))
    | .ed l s c, hm => exact ⟨.ed l s c, edComplete s, rfl, Pres.refl _ _ hm, id⟩
    | .coll l s p r, hm =>
      obtain ⟨inv, _⟩ := (coll_I a F n l s p r).mp hm
      obtain ⟨s', q', e, ck, hv, _, _, _⟩ := collBounds_keeps P l s p r inv
      have kp := coll_keeps a F n P hm ck
      rw [collView_G a F n l s p r, collView_G a F n l s' p q'] at hv
      refine ⟨.coll l s' p q', (collView (G a F n) s r).definitive, ?_, ⟨kp.inv, hv, kp.fin, kp.mu, kp.scr⟩, fun _ => trivial⟩
      show completeB (mkOps q F n) F (.coll l s p r) = _
      simp [completeB, e, bind, Except.bind, pure, Except.pure]
    | .ms l s k w e, hm => exact ⟨.ms l s k w e, w.mtch.isSome, rfl, Pres.refl _ _ hm, id⟩

  case onDiff =>
    intro m hm
    match m, hm with
    | .const l c, hm => exact ⟨.const l c, rfl, Keeps.refl _ _ hm⟩
    | .kvp l k v, hm =>
      have hk : (G a F n).I k := ⟨hm.1.1, (height_kvp.mp hm.2).1⟩
      have hv : (G a F n).I v := ⟨hm.1.2, (height_kvp.mp hm.2).2⟩
      obtain ⟨k', ek, pk⟩ := P.onDiff k hk
      obtain ⟨v', ev, pv⟩ := P.onDiff v hv
      have fk := pk.fin; have fv := pv.fin; have sk := pk.scr; have sv := pv.scr
      have mk := pk.mu; have mv := pv.mu; have bk := pk.sub; have bv := pv.sub
      simp only [G_fin, G_script, G_mu, G_view] at fk fv sk sv mk mv bk bv
      refine ⟨.kvp l k' v', ?_, ⟨⟨⟨pk.inv.1, pv.inv.1⟩, height_kvp.mpr ⟨pk.inv.2, pv.inv.2⟩⟩, ?_, ?_, ?_, ?_⟩⟩
      · show onDiffB (mkOps q F n) q F (.kvp l k v) = _
        simp [onDiffB, ek, ev, bind, Except.bind, pure, Except.pure]
      · simp only [G_fin, finG, fk, fv]
      · simp only [G_view, viewG, Iv.add]; omega
      · simp only [G_mu, muG]; omega
      · simp only [G_script, scriptG, fk, fv, sk, sv]
    | .str l e, hm => exact ⟨.str l e, rfl, Keeps.refl _ _ hm⟩
    | .fixed l subs tail, hm =>
      have hs : ∀ x ∈ subs, (G a F n).I x := (inv_G a F n subs).mpr ⟨hm.1, height_fixed.mp hm.2⟩
      obtain ⟨ms', e, ag⟩ := mapOnDiff_ok P subs hs
      have hi' := (inv_G a F n ms').mp ag.inv
      have hfin := ag.fin; have hmu := ag.mu; have hscr := ag.scr; have hlo := ag.lo; have hhi := ag.hi
      have wf' := sum_wf P ms' ag.inv
      simp only [sumFin_G, sumMu_G, sumLo_G, sumHi_G] at hfin hmu hlo hhi wf'
      rw [script_G, script_G] at hscr
      refine ⟨.fixed l ms' tail, ?_, ⟨⟨hi'.1, height_fixed.mpr hi'.2⟩, ?_, ?_, ?_, ?_⟩⟩
      · show onDiffB (mkOps q F n) q F (.fixed l subs tail) = _
        simp [onDiffB, e, bind, Except.bind, pure, Except.pure]
      · simp only [G_fin, finG, hfin]
      · simp only [G_view, viewG]; omega
      · simp only [G_mu, muG]; omega
      · simp only [G_script, scriptG, hfin, hscr]
    | .ed l s c, hm =>
      obtain ⟨inv, hmu⟩ := (ed_I a F n l s c).mp hm
      obtain ⟨s1, c1, e1, ek1, hsome⟩ := edEnsure_ok P q F inv hmu
      obtain ⟨tr, htr⟩ := Option.isSome_iff_exists.mp hsome
      have hcv := ek1.inv.cv tr htr
      have hval : TrValid s1 tr.reverse := by
        intro x hx
        rw [hcv] at hx
        exact ptrace_valid s1 _ _ _ _ (Nat.le_refl _) (Nat.le_refl _) x (List.mem_reverse.mp hx)
      obtain ⟨c2, e2, K2⟩ := onPath_ok P s1 tr.reverse c1 ek1.inv.cellsI ek1.inv.shape hval
      refine ⟨.ed l s1 c2, ?_, ed_keeps a F n hm (ek1.trans (EdKeeps.ofCells P ek1.inv K2))⟩
      show onDiffB (mkOps q F n) q F (.ed l s c) = _
      simp [onDiffB, e1, htr, e2, bind, Except.bind, pure, Except.pure]
    | .coll l s p r, hm =>
      obtain ⟨inv, _⟩ := (coll_I a F n l s p r).mp hm
      obtain ⟨ck1, _⟩ := collExpandAll_ok P s p r inv
      obtain ⟨q2, e2, k2⟩ := mapOnDiff_keeps P (collExpandAll s p r).2 ck1.inv.iq
      have ck2 := collKeeps_children P ck1.inv k2 false
      simp only [Bool.false_eq_true, if_false] at ck2
      refine ⟨.coll l (collExpandAll s p r).1 [] q2, ?_, coll_keeps a F n P hm (ck1.trans ck2)⟩
      show onDiffB (mkOps q F n) q F (.coll l s p r) = _
      simp [onDiffB, e2, bind, Except.bind, pure, Except.pure]
    | .ms l s k w e, hm =>
      obtain ⟨inv, _⟩ := (ms_I a F n l s k w e).mp hm
      obtain ⟨k', w', e', ho, mk⟩ := msOnDiff_ok P q F l inv
      exact ⟨.ms l s k' w' e', ho, ms_keeps a F n hm mk⟩
  case dump =>
    intro m hm hd
    match m, hm, hd with
    | .const l c, hm, _ => exact ⟨.const l c, rfl, Keeps.refl _ _ hm⟩
    | .kvp l k v, hm, hd =>
      have hk : (G a F n).I k := ⟨hm.1.1, (height_kvp.mp hm.2).1⟩
      have hv : (G a F n).I v := ⟨hm.1.2, (height_kvp.mp hm.2).2⟩
      have wk := P.wf k hk; have wv := P.wf v hv
      simp only [G_view, viewG, Iv.add, G_fin] at hd wk wv
      have dk : ((G a F n).view k).lo = ((G a F n).view k).hi := by simp only [G_view]; omega
      have dv : ((G a F n).view v).lo = ((G a F n).view v).hi := by simp only [G_view]; omega
      obtain ⟨k1, ek, pk⟩ := P.dump k hk dk
      obtain ⟨v1, ev, pv⟩ := P.dump v hv dv
      obtain ⟨k2, v2, eb, pk2, _, pv2, _⟩ := kvpBounds_ok P l k1 v1 pk.inv pv.inv
      have kk := pk.trans pk2.keeps
      have kv := pv.trans pv2.keeps
      have e1 := keeps_def_view P pk dk; have e2 := keeps_def_view P pv dv
      have fk := kk.fin; have fv := kv.fin; have sk := kk.scr; have sv := kv.scr
      have mk := kk.mu; have mv := kv.mu; have bk := kk.sub; have bv := kv.sub
      simp only [G_fin, G_script, G_mu, G_view] at fk fv sk sv mk mv bk bv e1 e2
      refine ⟨.kvp l k2 v2, ?_, ⟨⟨⟨kk.inv.1, kv.inv.1⟩, height_kvp.mpr ⟨kk.inv.2, kv.inv.2⟩⟩, ?_, ?_, ?_, ?_⟩⟩
      · show dumpB (fun x => boundsB (mkOps q F n) F x) (mkOps q F n) q F (.kvp l k v) = _
        have eb' : boundsB (mkOps q F n) F (.kvp l k1 v1) = _ := eb
        simp only [dumpB, ek, ev, bind, Except.bind, eb', pure, Except.pure, G_script, G_view, scriptG, e1, e2,
          Iv.add, Iv.point]
        have h1 : (viewG a k).lo + (viewG a v).lo = finG a k + finG a v := by omega
        have h2 : (viewG a k).hi + (viewG a v).hi = finG a k + finG a v := by omega
        rw [h1, h2]
      · simp only [G_fin, finG, fk, fv]
      · simp only [G_view, viewG, Iv.add]; omega
      · simp only [G_mu, muG]; omega
      · simp only [G_script, scriptG, fk, fv, sk, sv]
    | .str l e, hm, hd =>
      have he : (G a F n).I e := ⟨hm.1, height_str.mp hm.2⟩
      have we := P.wf e he
      simp only [G_view, viewG, G_fin] at hd we
      have de : ((G a F n).view e).lo = ((G a F n).view e).hi := by simp only [G_view]; exact hd
      obtain ⟨e1, ee, pe⟩ := P.dump e he de
      obtain ⟨e2, eb, pe2, _⟩ := P.bounds e1 pe.inv
      have ke := pe.trans pe2.keeps
      have e1v := keeps_def_view P pe de
      have fe := ke.fin; have se := ke.scr; have me := ke.mu; have be := ke.sub
      simp only [G_fin, G_script, G_mu, G_view] at fe se me be e1v
      refine ⟨.str l e2, ?_, ⟨⟨ke.inv.1, height_str.mpr ke.inv.2⟩, ?_, ?_, ?_, ?_⟩⟩
      · show dumpB (fun x => boundsB (mkOps q F n) F x) (mkOps q F n) q F (.str l e) = _
        have hb : boundsB (mkOps q F n) F (.str l e1) = .ok (.str l e2, viewG a e) := by
          simp [boundsB, eb, bind, Except.bind, pure, Except.pure, e1v]
        simp only [dumpB, ee, bind, Except.bind, hb, pure, Except.pure, G_script, scriptG, Iv.point]
        have hv : viewG a e = ⟨finG a e, finG a e⟩ := by
          cases hvv : viewG a e with
          | mk lo hi => rw [hvv] at hd we; simp only at hd we; simp only [Iv.mk.injEq]; omega
        cases hsc : scriptG a e with
        | mk kk ff tt cc ss =>
          simp only [DScript.subs, hv]
      · simp only [G_fin, finG, fe]
      · simp only [G_view, viewG]; exact be
      · simp only [G_mu, muG]; exact me
      · simp only [G_script, scriptG, fe, se]
    | .fixed l subs tail, hm, hd =>
      have hs : ∀ x ∈ subs, (G a F n).I x := (inv_G a F n subs).mpr ⟨hm.1, height_fixed.mp hm.2⟩
      have wfs := sum_wf P subs hs
      simp only [G_view, viewG] at hd
      have hsum : sumLo (G a F n) subs = sumHi (G a F n) subs := by rw [sumLo_G, sumHi_G]; omega
      obtain ⟨ms1, e1, ag1, elo1, ehi1⟩ := dumpList_ok P subs hs (all_definitive P subs hs hsum)
      obtain ⟨ms2, e2, ag2, elo2, ehi2, _⟩ := fixedBounds_ok P l ms1 tail ag1.inv
      have ag := ag1.trans ag2
      have hi' := (inv_G a F n ms2).mp ag.inv
      have hfin := ag.fin; have hmu := ag.mu; have hscr := ag.scr
      have elo := elo2.trans elo1; have ehi := ehi2.trans ehi1
      simp only [sumFin_G, sumMu_G, sumLo_G, sumHi_G] at hfin hmu elo ehi elo1 ehi1 wfs
      rw [script_G, script_G] at hscr
      rw [script_G] at e1
      rw [sumLo_G, sumHi_G] at e2
      refine ⟨.fixed l ms2 tail, ?_, ⟨⟨hi'.1, height_fixed.mpr hi'.2⟩, ?_, ?_, ?_, ?_⟩⟩
      · show dumpB (fun x => boundsB (mkOps q F n) F x) (mkOps q F n) q F (.fixed l subs tail) = _
        have eb : boundsB (mkOps q F n) F (.fixed l ms1 tail) = _ := e2
        simp only [dumpB, e1, bind, Except.bind, eb, pure, Except.pure, G_script, scriptG, Iv.point, elo1, ehi1]
        have h1 : (viewL a subs).lo + tailCost tail = finL a subs + tailCost tail := by omega
        have h2 : (viewL a subs).hi + tailCost tail = finL a subs + tailCost tail := by omega
        rw [h1, h2]
      · simp only [G_fin, finG, hfin]
      · simp only [G_view, viewG, elo, ehi]; omega
      · simp only [G_mu, muG, elo, ehi]; omega
      · simp only [G_script, scriptG, hfin, hscr]
    | .ed l s c, hm, _ =>
      obtain ⟨inv, hmu⟩ := (ed_I a F n l s c).mp hm
      obtain ⟨s1, c1, e1, ek1, hsome⟩ := edEnsure_ok P q F inv hmu
      obtain ⟨tr, htr⟩ := Option.isSome_iff_exists.mp hsome
      have inv1 := ek1.inv
      have hcv := inv1.cv tr htr
      have hval : TrValid s1 tr.reverse := by
        intro x hx
        rw [hcv] at hx
        exact ptrace_valid s1 _ _ _ _ (Nat.le_refl _) (Nat.le_refl _) x (List.mem_reverse.mp hx)
      have hpc := inv1.jc hsome
      have hall : DefAll (G a F n) s1 c1 := by
        intro r cc m hr hc hd hm'
        have hk := inv1.k_le hpc.1
        exact inv1.defs r cc m hr hc ⟨hd.1, hd.2, hpc.1, by omega, Or.inr hsome⟩ hm'
      obtain ⟨c2, e2, K2⟩ := dumpPath_ok P s1 tr.reverse c1 inv1.cellsI inv1.shape hval hall
      have ek2 := ek1.trans (EdKeeps.ofCells P inv1 K2)
      have hmu2 : muLLg (G a F n) c2 < F := by have := ek2.mu0; omega
      obtain ⟨s3, c3, e3, ek3, _, _, _, _, _⟩ := edBounds_keeps P F ek2.inv hmu2
      have kp := ed_keeps a F n hm (ek2.trans ek3)
      have hc1 : edComplete s1 = true := inv1.complete_iff.mpr hpc
      have core := ek1.core
      have hfm1 : finLL a c1 = finLL a c := by rw [← finM_G a F n, ← finM_G a F n]; exact ek1.kl.finM
      have hfm2 : finM (G a F n) c2 = finLL a c := by rw [K2.finM, finM_G, hfm1]
      have hscr1 : scrM (G a F n) c1 = scriptLL a c := by
        rw [← scrM_G a F n c]; exact ek1.kl.scripts
      refine ⟨.ed l s3 c3, ?_, kp⟩
      show dumpB (fun x => boundsB (mkOps q F n) F x) (mkOps q F n) q F (.ed l s c) = _
      have eb : boundsB (mkOps q F n) F (.ed l s1 c2) = .ok (.ed l s3 c3, edViewOf s1 (finM (G a F n) c2)) := by
        simp [boundsB, e3, bind, Except.bind, pure, Except.pure]
      simp only [dumpB, e1, htr, Option.getD_some, e2, bind, Except.bind, eb, pure, Except.pure, G_script, scriptG]
      rw [edView_complete _ hc1, hfm2, edFin_core core, hcv, finM_G, hfm1, hscr1, edPathScripts_core core,
        ptrace_congr (core.edT (finLL a c)), core.pre, core.suf, core.flen, core.tlen, core.nt, core.nf]
    | .coll l s p r, hm, hd =>
      obtain ⟨inv, _⟩ := (coll_I a F n l s p r).mp hm
      obtain ⟨ck1, hd1⟩ := collExpandAll_ok P s p r inv
      -- the interval was a single value, so it still is, and every sub-edit is definitive
      have wf1 := collView_wf P ck1.inv
      have hsub1 := ck1.sub
      rw [collView_G a F n l s p r] at hsub1
      simp only [G_view] at hd
      have hdef1 : (collView (G a F n) (collExpandAll s p r).1 (collExpandAll s p r).2).lo
          = (collView (G a F n) (collExpandAll s p r).1 (collExpandAll s p r).2).hi := by omega
      have hall := coll_all_def P ck1.inv hd1 hdef1
      obtain ⟨q2, e2, k2⟩ := dumpList_keeps P (collExpandAll s p r).2 ck1.inv.iq hall
      have ck2 := collKeeps_children P ck1.inv k2 false
      simp only [Bool.false_eq_true, if_false] at ck2
      obtain ⟨s3, q3, e3, ck3, hv3, _, _, _⟩ := collBounds_keeps P l (collExpandAll s p r).1 [] q2 ck2.inv
      have ck := (ck1.trans ck2).trans ck3
      have kp := coll_keeps a F n P hm ck
      -- the printed cost is the final cost
      have wf2 := collView_wf P ck2.inv
      have hsub2 := ck2.sub
      have hfin2 := (ck1.trans ck2).fin
      have hscr1 := ck1.scr
      simp only [List.append_nil, List.map_append, script_G] at hscr1
      simp only [sumFin_G] at hfin2 wf2
      have hb : collView (G a F n) (collExpandAll s p r).1 q2 = Iv.point (finL a r + finL a p) := by
        have h0 : finL a ([] : List M) = 0 := rfl
        cases hcv : collView (G a F n) (collExpandAll s p r).1 q2 with
        | mk lo hi =>
          rw [hcv] at wf2 hsub2
          simp only [Iv.point, Iv.mk.injEq]
          simp only at wf2 hsub2
          omega
      refine ⟨.coll l s3 [] q3, ?_, kp⟩
      show dumpB (fun x => boundsB (mkOps q F n) F x) (mkOps q F n) q F (.coll l s p r) = _
      have eb : boundsB (mkOps q F n) F (.coll l (collExpandAll s p r).1 [] q2) = _ := e3
      simp only [dumpB, e2, bind, Except.bind, eb, pure, Except.pure, G_script, scriptG, hb]
      have hsl : List.map (scriptG a) (collExpandAll s p r).2 = scriptL a (collExpandAll s p r).2 :=
        script_G a F n _
      rw [hsl, hscr1]
    | .ms l s k w e, hm, hd =>
      obtain ⟨inv, _⟩ := (ms_I a F n l s k w e).mp hm
      simp only [G_view] at hd
      rw [← msView_G a F n l] at hd
      obtain ⟨k', w', e', hdu, mk⟩ := msDump_ok P q F l inv hd
      rw [msScript_G a F n l] at hdu
      exact ⟨.ms l s k' w' e', hdu, ms_keeps a F n hm mk⟩

/-- `engine_protocol` modulo the atoms: every machine of every nesting depth obeys the protocol -/
theorem engine_protocol_of_atoms (q : Bool) (F : Nat) (hF : 0 < F) (a : Ghost) (hA : AtomHyp q F a) :
    ∀ n, Protocol (mkOps q F n) (G a F n)
  | 0 => by
    refine ⟨?_, ?_, ?_, ?_, ?_, ?_⟩ <;> intro m hm <;> exact absurd hm.2 (by have := height_pos m; omega)
  | n + 1 => engine_step q F hF a hA n (engine_protocol_of_atoms q F hF a hA n)

end GtModel.Lazy

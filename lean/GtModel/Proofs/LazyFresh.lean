/-
  The invariant of a FRESH EditDistance (`edInit`): static facts only.
-/
import GtModel.Proofs.LazySort
import GtModel.Proofs.LazyEdA

namespace GtModel.Lazy
open GtModel.EditMatrix (Cell Move step spec goLeft goUp goDiag cellAt origin middle)

theorem sum_map_add (l : List Nat) (pen : Nat) : (l.map (· + pen)).sum = l.sum + pen * l.length := by
  induction l with
  | nil => simp
  | cons x xs ih => simp [ih, Nat.mul_add]; omega

theorem sum_pos_of_mem {l : List Nat} {x : Nat} (h : x ∈ l) (hx : 0 < x) : 0 < l.sum := by
  induction l with
  | nil => simp at h
  | cons y ys ih =>
    rcases List.mem_cons.mp h with rfl | h
    · simp; omega
    · have := ih h; simp; omega

theorem drop_sum_le (l : List Nat) (k : Nat) : (l.drop k).sum ≤ l.sum := by
  induction l generalizing k with
  | nil => simp
  | cons x xs ih => cases k with
    | zero => simp
    | succ k => simp only [List.drop_succ_cons, List.sum_cons]; have := ih k; omega

theorem middle_sum_le (l : List Nat) (ps : Nat × Nat) : (middle l ps).sum ≤ l.sum :=
  Nat.le_trans (take_sum_le_sum _ _) (drop_sum_le _ _)

theorem middle_sublist {α : Type} (l : List α) (ps : Nat × Nat) : (middle l ps).Sublist l :=
  (List.take_sublist _ _).trans (List.drop_sublist _ _)

theorem middle_map {α β : Type} (f : α → β) (l : List α) (ps : Nat × Nat) :
    middle (l.map f) ps = (middle l ps).map f := by
  simp [middle, List.map_take, List.map_drop]

theorem middle_len {α : Type} (l : List α) (ps : Nat × Nat) : (middle l ps).length = l.length - ps.1 - ps.2 := by
  simp [middle]

section
variable (ps : Nat × Nat) (fs ts : List Nat) (pen : Nat)

theorem edInit_nf : (edInit ps fs ts pen).nf = fs.length - ps.1 - ps.2 := by
  simp [edInit, EdSt.nf, middle_len]

theorem edInit_nt : (edInit ps fs ts pen).nt = ts.length - ps.1 - ps.2 := by
  simp [edInit, EdSt.nt, middle_len]

theorem edInit_rem : (edInit ps fs ts pen).rem = (middle fs ps).map (· + pen) := rfl
theorem edInit_ins : (edInit ps fs ts pen).ins = (middle ts ps).map (· + pen) := rfl
theorem edInit_ub0 : (edInit ps fs ts pen).ub0 = (fs.map (· + pen)).sum + (ts.map (· + pen)).sum := rfl

/-- the k smallest of `l`, with the penalty, cost at most any `k` entries of a sublist with the penalty -/
theorem lb_le_sub (l : List Nat) (sub s : List Nat) (hsub : sub.Sublist l) (hs : s.Sublist (sub.map (· + pen)))
    (k : Nat) (hk : s.length = k) :
    (((sortNat l).take k).map (· + pen)).sum ≤ s.sum := by
  obtain ⟨s0, hs0, rfl⟩ := List.sublist_map_iff.mp hs
  have h1 := ksm_le_sublist l s0 (hs0.trans hsub)
  have hl : ((sortNat l).take k).length = k := by
    have := (hs0.trans hsub).length_le
    simp only [List.length_map] at hk
    simp [sortNat_length]; omega
  rw [sum_map_add, sum_map_add, hl]
  simp only [List.length_map] at hk
  rw [hk] at h1 ⊢
  simp only [ksm] at h1
  omega

theorem edInit_stat (fm : List (List Nat)) (hf : ps.1 + ps.2 ≤ fs.length) (ht : ps.1 + ps.2 ≤ ts.length)
    (hpf : ∀ x ∈ fs, 0 < x + pen) (hpt : ∀ x ∈ ts, 0 < x + pen) : EdStat (edInit ps fs ts pen) fm := by
  have hnf := edInit_nf ps fs ts pen
  have hnt := edInit_nt ps fs ts pen
  refine ⟨?_, ?_, ?_, ?_, ?_⟩
  · intro x hx
    rw [edInit_rem] at hx
    obtain ⟨y, hy, rfl⟩ := List.mem_map.mp hx
    exact hpf y ((middle_sublist fs ps).subset hy)
  · intro x hx
    rw [edInit_ins] at hx
    obtain ⟨y, hy, rfl⟩ := List.mem_map.mp hx
    exact hpt y ((middle_sublist ts ps).subset hy)
  · rw [edInit_rem, edInit_ins, edInit_ub0, ← middle_map, ← middle_map]
    have := middle_sum_le (fs.map (· + pen)) ps
    have := middle_sum_le (ts.map (· + pen)) ps
    omega
  · -- the lower bound
    have low := spec_lower (edInit ps fs ts pen).rem (edInit ps fs ts pen).ins fm
      (edInit ps fs ts pen).nt (edInit ps fs ts pen).nf (Nat.le_refl _) (Nat.le_refl _)
    obtain ⟨⟨s1, h1, l1, c1⟩, ⟨s2, h2, l2, c2⟩⟩ := low
    show (edInit ps fs ts pen).lb0 ≤ (spec _ _ fm _ _).cost
    by_cases hlt : fs.length < ts.length
    · have : (edInit ps fs ts pen).lb0 = (((sortNat ts).take (ts.length - fs.length)).map (· + pen)).sum := by
        simp [edInit, hlt]
      rw [this]
      refine Nat.le_trans (lb_le_sub pen ts (middle ts ps) s2 (middle_sublist ts ps) ?_ _ (by rw [l2, hnt, hnf]; omega)) c2
      have : (edInit ps fs ts pen).ins.take (edInit ps fs ts pen).nt = (edInit ps fs ts pen).ins := by
        simp [EdSt.nt]
      rw [this, edInit_ins] at h2
      exact h2
    · have : (edInit ps fs ts pen).lb0 = (((sortNat fs).take (fs.length - ts.length)).map (· + pen)).sum := by
        simp [edInit, hlt]
      rw [this]
      refine Nat.le_trans (lb_le_sub pen fs (middle fs ps) s1 (middle_sublist fs ps) ?_ _ (by rw [l1, hnt, hnf]; omega)) c1
      have : (edInit ps fs ts pen).rem.take (edInit ps fs ts pen).nf = (edInit ps fs ts pen).rem := by
        simp [EdSt.nf]
      rw [this, edInit_rem] at h1
      exact h1
  · intro h1 h2
    rw [hnf] at h1
    rw [hnt] at h2
    have bound : ∀ (l : List Nat) (k : Nat), (((sortNat l).take k).map (· + pen)).sum ≤ (l.map (· + pen)).sum := by
      intro l k
      have := take_sum_le_sum ((sortNat l).map (· + pen)) k
      rw [← List.map_take, sum_map_add (sortNat l), sortNat_sum, sortNat_length, ← sum_map_add] at this
      exact this
    have posf : 0 < (fs.map (· + pen)).sum := by
      cases fs with
      | nil => simp at h1
      | cons x xs => exact sum_pos_of_mem (x := x + pen) (by simp) (hpf x (by simp))
    have post : 0 < (ts.map (· + pen)).sum := by
      cases ts with
      | nil => simp at h2
      | cons x xs => exact sum_pos_of_mem (x := x + pen) (by simp) (hpt x (by simp))
    rw [edInit_ub0]
    by_cases hlt : fs.length < ts.length
    · have : (edInit ps fs ts pen).lb0 = (((sortNat ts).take (ts.length - fs.length)).map (· + pen)).sum := by
        simp [edInit, hlt]
      rw [this]; have := bound ts (ts.length - fs.length); omega
    · have : (edInit ps fs ts pen).lb0 = (((sortNat fs).take (fs.length - ts.length)).map (· + pen)).sum := by
        simp [edInit, hlt]
      rw [this]; have := bound fs (fs.length - ts.length); omega

/-- a fresh EditDistance satisfies the invariant -/
theorem edInit_inv (g : Ghost) (cells : List (List M)) (hf : ps.1 + ps.2 ≤ fs.length) (ht : ps.1 + ps.2 ≤ ts.length)
    (hpf : ∀ x ∈ fs, 0 < x + pen) (hpt : ∀ x ∈ ts, 0 < x + pen)
    (hnz : 0 < (ts.length - ps.1 - ps.2) + (fs.length - ps.1 - ps.2))
    (hsh : MShape cells (ts.length - ps.1 - ps.2) (fs.length - ps.1 - ps.2))
    (hI : ∀ row ∈ cells, ∀ m ∈ row, g.I m) : EdInv g (edInit ps fs ts pen) cells := by
  have hnf := edInit_nf ps fs ts pen
  have hnt := edInit_nt ps fs ts pen
  have hfr : (edInit ps fs ts pen).fr = -1 := rfl
  have hca : (edInit ps fs ts pen).cache = none := rfl
  refine ⟨by rw [hnf, hnt]; exact hnz, ⟨by rw [hfr]; omega, by rw [hfr]; omega, by simp [edInit], fun _ => rfl⟩,
    by rw [hnf, hnt]; exact hsh, hI, ?_, ?_, by rw [hfr]; omega, ?_, ?_, ?_,
    edInit_stat ps fs ts pen _ hf ht hpf hpt⟩
  · have hc : (edInit ps fs ts pen).costs = zeroTable ((edInit ps fs ts pen).nt + 1) ((edInit ps fs ts pen).nf + 1) := rfl
    have hp : (edInit ps fs ts pen).paths = zeroTable ((edInit ps fs ts pen).nt + 1) ((edInit ps fs ts pen).nf + 1) := rfl
    refine ⟨by rw [hc]; exact zeroTable_shape _ _, by rw [hp]; exact zeroTable_shape _ _, ?_⟩
    intro r c _ _ hF
    rcases hF with ⟨rfl, rfl⟩ | ⟨h, _⟩
    · constructor
      · rw [hc]; simp [tget, zeroTable, edT, spec, origin, pure, Except.pure]
      · rw [hp]; simp [tget, zeroTable, edT, spec, origin, pure, Except.pure]
    · rw [hfr] at h; omega
  · intro r c m _ _ hD
    have := hD.2.2.1
    rw [hfr] at this; omega
  · simp [edInit]
  · intro h; rw [hca] at h; simp at h
  · intro tr h; rw [hca] at h; cases h

end

end GtModel.Lazy

/-
  Proof infrastructure for the L3 model: the `Protocol` every machine obeys, stated for an arbitrary record of
  methods `ops`, and the compositional lemmas for the classes const / kvp / str / fixed.
-/
import GtModel.Model.Lazy

namespace GtModel.Lazy

/-- strict containment is not needed as a separate notion: `sub ⊆ self ∧ sub ≠ self` -/
def Iv.width (a : Iv) : Nat := a.hi - a.lo

theorem Iv.contains_iff (a b : Iv) : a.contains b = true ↔ a.lo ≤ b.lo ∧ b.hi ≤ a.hi := by
  simp [Iv.contains]

theorem Iv.definitive_iff (a : Iv) : a.definitive = true ↔ a.lo = a.hi := by
  simp [Iv.definitive]

/-- Ghost data of a family of machines: invariant, settledness (the state right after a `bounds()` call), the
    interval `bounds()` would return, the final cost and a termination measure. -/
structure Ghost where
  I : M → Prop
  Q : M → Prop
  view : M → Iv
  fin : M → Nat
  μ : M → Nat
  script : M → DScript

/-- `m'` is `m` after an operation that does not refine: invariant kept, same interval, same final cost -/
structure Pres (g : Ghost) (m m' : M) : Prop where
  inv : g.I m'
  view : g.view m' = g.view m
  fin : g.fin m' = g.fin m
  mu : g.μ m' ≤ g.μ m
  scr : g.script m' = g.script m

/-- `m'` is `m` after a `tighten_bounds()` that returned `r` -/
structure Step (g : Ghost) (m m' : M) (r : Bool) : Prop where
  inv : g.I m'
  fin : g.fin m' = g.fin m
  sub : (g.view m).lo ≤ (g.view m').lo ∧ (g.view m').hi ≤ (g.view m).hi
  mu : g.μ m' ≤ g.μ m
  dec : r = true → g.μ m' < g.μ m
  stop : r = false → (g.view m').lo = (g.view m').hi
  strict : g.Q m → r = true → g.view m' ≠ g.view m
  scr : g.script m' = g.script m

/-- `m'` is `m` after any public operation: like `Pres`, but the interval may have shrunk -/
structure Keeps (g : Ghost) (m m' : M) : Prop where
  inv : g.I m'
  fin : g.fin m' = g.fin m
  sub : (g.view m).lo ≤ (g.view m').lo ∧ (g.view m').hi ≤ (g.view m).hi
  mu : g.μ m' ≤ g.μ m
  scr : g.script m' = g.script m

theorem Keeps.refl (g : Ghost) (m : M) (h : g.I m) : Keeps g m m :=
  ⟨h, rfl, ⟨Nat.le_refl _, Nat.le_refl _⟩, Nat.le_refl _, rfl⟩

theorem Keeps.trans {g : Ghost} {a b c : M} (h1 : Keeps g a b) (h2 : Keeps g b c) : Keeps g a c :=
  ⟨h2.inv, h2.fin.trans h1.fin, ⟨Nat.le_trans h1.sub.1 h2.sub.1, Nat.le_trans h2.sub.2 h1.sub.2⟩,
    Nat.le_trans h2.mu h1.mu, h2.scr.trans h1.scr⟩

/-- The protocol of one record of methods on the machines satisfying `g.I`. -/
structure Protocol (ops : Ops) (g : Ghost) : Prop where
  wf : ∀ m, g.I m → (g.view m).lo ≤ g.fin m ∧ g.fin m ≤ (g.view m).hi
  bounds : ∀ m, g.I m → ∃ m', ops.bounds m = .ok (m', g.view m) ∧ Pres g m m' ∧ g.Q m'
  tighten : ∀ m, g.I m → ∃ m' r, ops.tighten m = .ok (m', r) ∧ Step g m m' r
  complete : ∀ m, g.I m → ∃ m' c, ops.complete m = .ok (m', c) ∧ Pres g m m' ∧ (g.Q m → g.Q m')
  onDiff : ∀ m, g.I m → ∃ m', ops.onDiff m = .ok m' ∧ Keeps g m m'
  dump : ∀ m, g.I m → (g.view m).lo = (g.view m).hi → ∃ m', ops.dump m = .ok (m', g.script m) ∧ Keeps g m m'

theorem Pres.refl (g : Ghost) (m : M) (h : g.I m) : Pres g m m := ⟨h, rfl, rfl, Nat.le_refl _, rfl⟩

theorem Pres.trans {g : Ghost} {a b c : M} (h1 : Pres g a b) (h2 : Pres g b c) : Pres g a c :=
  ⟨h2.inv, h2.view.trans h1.view, h2.fin.trans h1.fin, Nat.le_trans h2.mu h1.mu, h2.scr.trans h1.scr⟩

theorem Pres.keeps {g : Ghost} {m m' : M} (h : Pres g m m') : Keeps g m m' :=
  ⟨h.inv, h.fin, ⟨by rw [h.view]; exact Nat.le_refl _, by rw [h.view]; exact Nat.le_refl _⟩, h.mu, h.scr⟩

theorem Step.keeps {g : Ghost} {m m' : M} {r : Bool} (h : Step g m m' r) : Keeps g m m' :=
  ⟨h.inv, h.fin, h.sub, h.mu, h.scr⟩

end GtModel.Lazy

namespace GtModel.Lazy

end GtModel.Lazy

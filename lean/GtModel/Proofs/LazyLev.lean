/-
  `levenshtein_distance(s, t) ≤ max(len s, len t)` for the table model `lev`.
-/
import GtModel.Proofs.ZeroLev

namespace GtModel

theorem levRow_go_bound (x : Nat) : ∀ (ups : List Nat) (ys : Str) (left diag j v : Nat),
    (levRow.go x left diag ups ys)[j]? = some v → ∃ d, (diag :: ups)[j]? = some d ∧ v ≤ d + 1 := by
  intro ups
  induction ups with
  | nil => intro ys left diag j v h; cases ys <;> simp [levRow.go] at h
  | cons up ups ih =>
    intro ys left diag j v h
    cases ys with
    | nil => simp [levRow.go] at h
    | cons y ys =>
      cases j with
      | zero =>
        simp only [levRow.go, List.getElem?_cons_zero, Option.some.injEq] at h
        refine ⟨diag, by simp, ?_⟩
        have : Nat.min (Nat.min (up + 1) (left + 1)) (diag + if (x == y) = true then 0 else 1) ≤ diag + 1 := by
          show min (min (up + 1) (left + 1)) (diag + if (x == y) = true then 0 else 1) ≤ diag + 1
          split <;> omega
        omega
      | succ j =>
        simp only [levRow.go, List.getElem?_cons_succ] at h
        obtain ⟨d, hd, hv⟩ := ih ys _ up j v h
        exact ⟨d, by simpa using hd, hv⟩

theorem levRow_bound (prev : List Nat) (x : Nat) (t : Str) (i j v : Nat)
    (h : (levRow prev x t (i + 1))[j]? = some v) :
    (j = 0 ∧ v = i + 1) ∨ ∃ j' d, j = j' + 1 ∧ prev[j']? = some d ∧ v ≤ d + 1 := by
  cases prev with
  | nil => simp [levRow] at h
  | cons d0 rest =>
    cases j with
    | zero => simp [levRow] at h; exact Or.inl ⟨rfl, h.symm⟩
    | succ j =>
      simp only [levRow, List.getElem?_cons_succ] at h
      obtain ⟨d, hd, hv⟩ := levRow_go_bound x rest t _ d0 j v h
      exact Or.inr ⟨j, d, rfl, hd, hv⟩

theorem levRows_bound (t : Str) : ∀ (xs : Str) (prev : List Nat) (i : Nat),
    prev.length = t.length + 1 → (∀ j v, prev[j]? = some v → v ≤ max i j) →
    (levRows t prev i xs).length = t.length + 1 ∧
    ∀ j v, (levRows t prev i xs)[j]? = some v → v ≤ max (i + xs.length) j := by
  intro xs
  induction xs with
  | nil => intro prev i hl hb; exact ⟨by simpa [levRows] using hl, by simpa [levRows] using hb⟩
  | cons x xs ih =>
    intro prev i hl hb
    simp only [levRows]
    have := ih (levRow prev x t (i + 1)) (i + 1) (levRow_length _ _ _ _ hl) ?_
    · refine ⟨this.1, fun j v h => ?_⟩
      have := this.2 j v h
      simp only [List.length_cons]; omega
    · intro j v h
      rcases levRow_bound prev x t i j v h with ⟨rfl, rfl⟩ | ⟨j', d, rfl, hd, hv⟩
      · omega
      · have := hb j' d hd; omega

theorem lev_le_max (s t : Str) : lev s t ≤ max s.length t.length := by
  obtain ⟨hl, hb⟩ := levRows_bound t s (List.range (t.length + 1)) 0 (by simp) (by
    intro j v h
    by_cases hj : j < t.length + 1
    · simp [List.getElem?_range hj] at h; omega
    · simp [List.getElem?_eq_none (l := List.range (t.length + 1)) (by simpa using hj)] at h)
  unfold lev
  have hlast : (levRows t (List.range (t.length + 1)) 0 s).getLast?
      = (levRows t (List.range (t.length + 1)) 0 s)[t.length]? := by
    rw [List.getLast?_eq_getElem?, hl]; simp
  rw [hlast]
  have hsome : t.length < (levRows t (List.range (t.length + 1)) 0 s).length := by omega
  have := hb t.length _ (List.getElem?_eq_getElem hsome)
  rw [List.getElem?_eq_getElem hsome]
  simp only [Option.getD_some]
  omega

end GtModel

/-
  `mkEdit` (the fresh machine of `from.edits(to)`): attach-free unfolding equations and positional forms of the
  sub-machine lists.
-/
import GtModel.Proofs.LazyFresh
import GtModel.Proofs.EditsBasic
import GtModel.Proofs.ZeroBasic

namespace GtModel.Lazy
open GtModel.EditMatrix (middle trimLens)

theorem attach_zipIdx_filterMap {α β : Type} (l : List α) (g : α → Nat → Option β) (k : Nat) :
    (l.attach.zipIdx k).filterMap (fun p => g p.1.1 p.2) = (l.zipIdx k).filterMap (fun p => g p.1 p.2) := by
  have h : l.zipIdx k = (l.attach.zipIdx k).map (Prod.map Subtype.val id) := by
    rw [← List.zipIdx_map, List.attach_map_subtype_val]
  rw [h, List.filterMap_map]; rfl

/-- sub-edits of the positional list edit -/
def fixedPairs (o : Opts) (orc : Orc) (fp tp : List Nat) (fcs tcs : List Tree) : List M :=
  fcs.zipIdx.filterMap fun p =>
    (tcs[p.2]?).map fun tc => (mkEdit o orc (fp ++ [p.2]) (tp ++ [p.2]) p.1 tc).relabel (.at p.2) (.at p.2)

def fixedTail (fcs tcs : List Tree) : List Script :=
  let n := Nat.min fcs.length tcs.length
  (List.range (fcs.length - n)).map (fun k => GtModel.mkRemove (n + k) ((fcs.getD (n + k) (.leaf .null)).size) 1)
    ++ (List.range (tcs.length - n)).map (fun k => GtModel.mkInsert (n + k) ((tcs.getD (n + k) (.leaf .null)).size) 1)

def edPen (fcs tcs : List Tree) : Nat :=
  if allLeaves fcs && allLeaves tcs && allPositive fcs && allPositive tcs then 0 else 1

/-- the cell matrix of the list alignment -/
def edCells (o : Opts) (orc : Orc) (fp tp : List Nat) (fcs tcs : List Tree) : List (List M) :=
  let ps := trimLens fcs tcs
  let mt := middle tcs ps
  let cols : List (List M) := fcs.zipIdx.filterMap fun p =>
    if ps.1 ≤ p.2 && p.2 < fcs.length - ps.2 then
      some (mt.zipIdx.map fun q =>
        (mkEdit o orc (fp ++ [p.2]) (tp ++ [q.2 + ps.1]) p.1 q.1).relabel (.at p.2) (.at (q.2 + ps.1)))
    else none
  (List.range mt.length).map fun r => cols.filterMap fun col => col[r]?

def kvTblM (o : Opts) (orc : Orc) (fp tp : List Nat) (fkv tkv : List (Str × Tree)) : List (List M) :=
  fkv.zipIdx.map fun p => tkv.zipIdx.map fun q => mkEdit o orc (fp ++ [p.2, 1]) (tp ++ [q.2, 1]) p.1.2 q.1.2

theorem mkEdit_leaf (o : Opts) (orc : Orc) (fp tp : List Nat) (a : Scalar) (t : Tree) :
    mkEdit o orc fp tp (.leaf a) t = mkLeaf a t := by rw [mkEdit]

theorem mkEdit_list_list (o : Opts) (orc : Orc) (fp tp : List Nat) (fcs tcs : List Tree) :
    mkEdit o orc fp tp (.list fcs) (.list tcs) =
      if eqL fcs tcs then mkConst .match_ 0
      else if !o.ale || (fcs.length == tcs.length && (!o.alesl || fcs.length == 1)) then
        .fixed { kind := .fixed } (fixedPairs o orc fp tp fcs tcs) (fixedTail fcs tcs)
      else
        .ed { kind := .ed } (edInit (trimLens fcs tcs) (fcs.map Tree.size) (tcs.map Tree.size) (edPen fcs tcs))
          (edCells o orc fp tp fcs tcs) := by
  rw [mkEdit]
  have h1 := attach_zipIdx_filterMap fcs (fun fc i =>
    (tcs[i]?).map fun tc => (mkEdit o orc (fp ++ [i]) (tp ++ [i]) fc tc).relabel (.at i) (.at i)) 0
  have h2 := attach_zipIdx_filterMap fcs (fun fc ci =>
    if (trimLens fcs tcs).1 ≤ ci && ci < fcs.length - (trimLens fcs tcs).2 then
      some ((middle tcs (trimLens fcs tcs)).zipIdx.map fun q =>
        (mkEdit o orc (fp ++ [ci]) (tp ++ [q.2 + (trimLens fcs tcs).1]) fc q.1).relabel (.at ci)
          (.at (q.2 + (trimLens fcs tcs).1)))
    else none) 0
  simp only [fixedPairs, fixedTail, edCells, edPen, ← h1, h2]
  split
  · rfl
  · split
    · congr 1
      congr 1
      funext x
      cases tcs[x.2]? <;> rfl
    · rfl

theorem mkEdit_list_other (o : Opts) (orc : Orc) (fp tp : List Nat) (fcs : List Tree) (t : Tree)
    (h : ∀ tcs, t ≠ .list tcs) : mkEdit o orc fp tp (.list fcs) t = ofLeafScript (mkReplace (sizeL fcs) t.size) := by
  cases t with
  | list tcs => exact absurd rfl (h tcs)
  | _ => rw [mkEdit]; simp

theorem mkEdit_fdict_fdict (o : Opts) (orc : Orc) (fp tp : List Nat) (fkv tkv : List (Str × Tree)) :
    mkEdit o orc fp tp (.fdict fkv) (.fdict tkv) =
      if (fkv.length == tkv.length && subKV fkv tkv) then mkConst .match_ 0
      else
        .coll { kind := .fk }
          { ub0 := sizeKV fkv + 1 + sizeKV tkv, inits := [],
            pinits := (fkPending fkv tkv (kvTblM o orc fp tp fkv tkv)).map fun m => (initIv m).hi }
          (fkPending fkv tkv (kvTblM o orc fp tp fkv tkv)) [] := by
  rw [mkEdit]
  have := GtModel.attach_zipIdx_map fkv (fun kv c => tkv.zipIdx.map fun q => mkEdit o orc (fp ++ [c, 1]) (tp ++ [q.2, 1]) kv.2 q.1.2) 0
  simp only [kvTblM, this]

theorem mkEdit_fdict_other (o : Opts) (orc : Orc) (fp tp : List Nat) (fkv : List (Str × Tree)) (t : Tree)
    (h : ∀ tkv, t ≠ .fdict tkv) : mkEdit o orc fp tp (.fdict fkv) t = ofLeafScript (mkReplace (sizeKV fkv) t.size) := by
  cases t with
  | fdict tkv => exact absurd rfl (h tkv)
  | _ => rw [mkEdit]; simp


/-! ### positional forms -/

theorem filterMap_none {α β : Type} {f : α → Option β} {l : List α} (h : ∀ x ∈ l, f x = none) : l.filterMap f = [] := by
  induction l with
  | nil => rfl
  | cons x xs ih => simp [List.filterMap_cons, h x (by simp), ih (fun y hy => h y (by simp [hy]))]

theorem filterMap_some {α β : Type} {f : α → Option β} {g : α → β} {l : List α} (h : ∀ x ∈ l, f x = some (g x)) :
    l.filterMap f = l.map g := by
  induction l with
  | nil => rfl
  | cons x xs ih => simp [List.filterMap_cons, h x (by simp), ih (fun y hy => h y (by simp [hy]))]

theorem filterMap_range_interval {β : Type} (n a b : Nat) (hab : a ≤ b) (hb : b ≤ n) (f : Nat → Option β) (g : Nat → β)
    (hin : ∀ i, a ≤ i → i < b → f i = some (g i)) (hout : ∀ i, i < n → (i < a ∨ b ≤ i) → f i = none) :
    (List.range n).filterMap f = (List.range (b - a)).map (fun c => g (c + a)) := by
  have hsplit : List.range n = List.range' 0 a ++ (List.range' a (b - a) ++ List.range' b (n - b)) := by
    rw [List.range_eq_range']
    have h1 : List.range' a (b - a) ++ List.range' b (n - b) = List.range' a (n - a) := by
      have := @List.range'_append a (b - a) (n - b) 1
      rw [show a + 1 * (b - a) = b by omega, show b - a + (n - b) = n - a by omega] at this
      exact this
    rw [h1]
    have := @List.range'_append 0 a (n - a) 1
    rw [show 0 + 1 * a = a by omega, show a + (n - a) = n by omega] at this
    exact this.symm
  rw [hsplit, List.filterMap_append, List.filterMap_append]
  rw [filterMap_none (l := List.range' 0 a), filterMap_none (l := List.range' b (n - b)),
    filterMap_some (g := g) (l := List.range' a (b - a))]
  · rw [List.range'_eq_map_range, List.map_map]
    simp only [List.nil_append, List.append_nil]
    apply List.map_congr_left
    intro c _
    simp [Nat.add_comm]
  · intro x hx
    obtain ⟨i, hi, rfl⟩ := List.mem_range'.mp hx
    exact hin _ (by omega) (by omega)
  · intro x hx
    obtain ⟨i, hi, rfl⟩ := List.mem_range'.mp hx
    exact hout _ (by omega) (Or.inr (by omega))
  · intro x hx
    obtain ⟨i, hi, rfl⟩ := List.mem_range'.mp hx
    exact hout _ (by omega) (Or.inl (by omega))

theorem zipIdx_eq_map_range {α : Type} (l : List α) (d : α) :
    l.zipIdx = (List.range l.length).map fun i => (l.getD i d, i) := by
  apply List.ext_getElem?
  intro i
  simp only [List.getElem?_zipIdx, List.getElem?_map, List.getElem?_range, Nat.zero_add]
  by_cases h : i < l.length
  · simp [List.getElem?_range, h, List.getD_eq_getElem?_getD]
  · have h1 : l[i]? = none := by simp; omega
    have h2 : (List.range l.length)[i]? = none := by simp; omega
    simp [h1, h2]


theorem fixedPairs_eq (o : Opts) (orc : Orc) (fp tp : List Nat) (fcs tcs : List Tree) :
    fixedPairs o orc fp tp fcs tcs = (List.range (Nat.min fcs.length tcs.length)).map fun i =>
      (mkEdit o orc (fp ++ [i]) (tp ++ [i]) (fcs.getD i dT) (tcs.getD i dT)).relabel (.at i) (.at i) := by
  rw [fixedPairs, zipIdx_eq_map_range fcs dT, List.filterMap_map]
  have nmin : Nat.min fcs.length tcs.length = min fcs.length tcs.length := rfl
  rw [filterMap_range_interval fcs.length 0 (Nat.min fcs.length tcs.length) (Nat.zero_le _) (by rw [nmin]; omega) _
    (fun i => (mkEdit o orc (fp ++ [i]) (tp ++ [i]) (fcs.getD i dT) (tcs.getD i dT)).relabel (.at i) (.at i))]
  · simp
  · intro i _ hi
    rw [nmin] at hi
    have : i < tcs.length := by omega
    simp [List.getD_eq_getElem?_getD, this]
  · intro i hi h
    rw [nmin] at h
    have : tcs.length ≤ i := by omega
    simp [this]


/-- cell (r, c) of the alignment matrix: `from_seq[c].edits(to_seq[r])` on the middle parts -/
def edCell (o : Opts) (orc : Orc) (fp tp : List Nat) (fcs tcs : List Tree) (r c : Nat) : M :=
  let ps := trimLens fcs tcs
  (mkEdit o orc (fp ++ [c + ps.1]) (tp ++ [r + ps.1]) (fcs.getD (c + ps.1) dT) ((middle tcs ps).getD r dT)).relabel
    (.at (c + ps.1)) (.at (r + ps.1))

theorem edCells_eq (o : Opts) (orc : Orc) (fp tp : List Nat) (fcs tcs : List Tree) :
    edCells o orc fp tp fcs tcs =
      (List.range (middle tcs (trimLens fcs tcs)).length).map fun r =>
        (List.range (middle fcs (trimLens fcs tcs)).length).map fun c => edCell o orc fp tp fcs tcs r c := by
  have hle := trim_le_left fcs tcs
  simp only [edCells]
  apply List.map_congr_left
  intro r hr
  have hr' : r < (middle tcs (trimLens fcs tcs)).length := List.mem_range.mp hr
  rw [zipIdx_eq_map_range fcs dT, List.filterMap_map, List.filterMap_filterMap]
  rw [filterMap_range_interval fcs.length (trimLens fcs tcs).1 (fcs.length - (trimLens fcs tcs).2) (by omega) (by omega) _
    (fun ci => (mkEdit o orc (fp ++ [ci]) (tp ++ [r + (trimLens fcs tcs).1]) (fcs.getD ci dT)
      ((middle tcs (trimLens fcs tcs)).getD r dT)).relabel (.at ci) (.at (r + (trimLens fcs tcs).1)))]
  · rw [middle_len, show fcs.length - (trimLens fcs tcs).2 - (trimLens fcs tcs).1
      = fcs.length - (trimLens fcs tcs).1 - (trimLens fcs tcs).2 by omega]
    rfl
  · intro i h1 h2
    simp only [Function.comp, h1, h2, decide_true, Bool.and_self, if_true, Option.bind_some]
    simp [List.getElem?_zipIdx, List.getD_eq_getElem?_getD, hr']
  · intro i _ h
    have : (decide ((trimLens fcs tcs).1 ≤ i) && decide (i < fcs.length - (trimLens fcs tcs).2)) = false := by
      rcases h with h | h
      · simp; omega
      · simp; omega
    simp [Function.comp, this]

theorem edCells_shape (o : Opts) (orc : Orc) (fp tp : List Nat) (fcs tcs : List Tree) :
    MShape (edCells o orc fp tp fcs tcs) (middle tcs (trimLens fcs tcs)).length
      (middle fcs (trimLens fcs tcs)).length := by
  rw [edCells_eq]
  refine ⟨by simp, ?_⟩
  intro row hrow
  obtain ⟨r, _, rfl⟩ := List.mem_map.mp hrow
  simp

end GtModel.Lazy

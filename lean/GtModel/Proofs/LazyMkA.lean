/-
  Fresh machines: the domain predicates, `FreshP` (a fresh machine exposes its initial interval and satisfies the
  structural invariant), and the per-class building blocks (const, kvp, str, fixed, ed; strings; leaves).
-/
import GtModel.Proofs.LazyMk
import GtModel.Proofs.LazyLev
import GtModel.Proofs.LazyEngine
import GtModel.Proofs.EditsWalk
import GtModel.Proofs.EditsOptions

namespace GtModel

/-! ### domain predicates -/

mutual
/-- number of `null` leaves reachable through lists only -/
def Tree.nw : Tree → Nat
  | .leaf .null => 1
  | .leaf _ => 0
  | .list cs => nwL cs
  | .dict _ => 0
  | .fdict _ => 0
def nwL : List Tree → Nat
  | [] => 0
  | c :: cs => c.nw + nwL cs
end

mutual
/-- the domain on which `FixedKeyDictNodeEdit`'s static upper bound is one: every value `v` under key `k` of a
    fixed-key dictionary has `3 * nw v ≤ 2 * len k + 5` -/
def Tree.fkOK : Tree → Bool
  | .leaf _ => true
  | .list cs => fkL cs
  | .dict kvs => fkD kvs
  | .fdict kvs => fkKV kvs
def fkL : List Tree → Bool
  | [] => true
  | c :: cs => c.fkOK && fkL cs
def fkD : List (Str × Tree) → Bool
  | [] => true
  | (_, v) :: rest => v.fkOK && fkD rest
def fkKV : List (Str × Tree) → Bool
  | [] => true
  | (k, v) :: rest => decide (3 * v.nw ≤ 2 * k.length + 5) && v.fkOK && fkKV rest
end

theorem fkL_iff (cs : List Tree) : fkL cs = true ↔ ∀ c ∈ cs, c.fkOK = true := by
  induction cs with
  | nil => simp [fkL]
  | cons c cs ih => simp [fkL, ih]

theorem fkKV_iff (kvs : List (Str × Tree)) :
    fkKV kvs = true ↔ ∀ kv ∈ kvs, 3 * kv.2.nw ≤ 2 * kv.1.length + 5 ∧ kv.2.fkOK = true := by
  induction kvs with
  | nil => simp [fkKV]
  | cons kv kvs ih => obtain ⟨k, v⟩ := kv; simp [fkKV, ih, and_assoc]

theorem nwL_mem (cs : List Tree) (c : Tree) (h : c ∈ cs) : c.nw ≤ nwL cs := by
  induction cs with
  | nil => simp at h
  | cons x xs ih =>
    rcases List.mem_cons.mp h with rfl | h
    · simp [nwL]
    · have := ih h; simp [nwL]; omega

end GtModel

namespace GtModel.Lazy
open GtModel.EditMatrix (middle trimLens)

/-! ### relabelling changes labels only -/

theorem viewG_relabel (a : Ghost) (m : M) (f t : Ix) (h : isAtom m = false) : viewG a (m.relabel f t) = viewG a m := by
  cases m <;> simp [M.relabel, viewG] <;> simp [isAtom] at h
@[simp] theorem initIv_relabel (m : M) (f t : Ix) : initIv (m.relabel f t) = initIv m := by
  cases m <;> simp [M.relabel, initIv]
theorem finG_relabel (a : Ghost) (m : M) (f t : Ix) (h : isAtom m = false) : finG a (m.relabel f t) = finG a m := by
  cases m <;> simp [M.relabel, finG] <;> simp [isAtom] at h
theorem muG_relabel (a : Ghost) (m : M) (f t : Ix) (h : isAtom m = false) : muG a (m.relabel f t) = muG a m := by
  cases m <;> simp [M.relabel, muG, viewG] <;> simp [isAtom] at h
theorem invG_relabel (a : Ghost) (F : Nat) (m : M) (f t : Ix) (h : isAtom m = false) :
    invG a F (m.relabel f t) ↔ invG a F m := by
  cases m <;> simp [M.relabel, invG] <;> simp [isAtom] at h
@[simp] theorem height_relabel (m : M) (f t : Ix) : height (m.relabel f t) = height m := by
  cases m <;> simp [M.relabel, height]
@[simp] theorem isAtom_relabel (m : M) (f t : Ix) : isAtom (m.relabel f t) = isAtom m := by
  cases m <;> simp [M.relabel, isAtom]

/-- a fresh machine: exposes its initial interval, satisfies the invariant for every sufficient loop bound -/
structure FreshP (a : Ghost) (m : M) : Prop where
  na : isAtom m = false
  view : viewG a m = initIv m
  inv : ∀ F, muG a m < F → invG a F m


theorem FreshP.relabel {a : Ghost} {m : M} (h : FreshP a m) (f t : Ix) : FreshP a (m.relabel f t) :=
  ⟨by rw [isAtom_relabel]; exact h.na, by rw [viewG_relabel a m f t h.na, initIv_relabel]; exact h.view,
    fun F hF => (invG_relabel a F m f t h.na).mpr (h.inv F (by rw [muG_relabel a m f t h.na] at hF; exact hF))⟩

theorem FreshP.const (a : Ghost) (l : Lbl) (c : Nat) : FreshP a (.const l c) :=
  ⟨rfl, rfl, fun _ _ => trivial⟩

theorem FreshP.kvp {a : Ghost} {k v : M} (hk : FreshP a k) (hv : FreshP a v) (l : Lbl) : FreshP a (.kvp l k v) := by
  refine ⟨rfl, ?_, ?_⟩
  · simp only [viewG, initIv, hk.view, hv.view]
  · intro F hF
    simp only [muG] at hF
    exact ⟨hk.inv F (by omega), hv.inv F (by omega)⟩

theorem FreshP.str {a : Ghost} {e : M} (he : FreshP a e) (l : Lbl) : FreshP a (.str l e) :=
  ⟨rfl, by simp only [viewG, initIv, he.view], fun F hF => he.inv F (by simpa [muG] using hF)⟩

/-! ### lists of machines -/

theorem viewL_eq_initIvL (a : Ghost) (ms : List M) (h : ∀ m ∈ ms, viewG a m = initIv m) : viewL a ms = initIvL ms := by
  induction ms with
  | nil => rfl
  | cons m ms ih => simp only [viewL, initIvL, h m (by simp), ih (fun x hx => h x (by simp [hx]))]

theorem invL_of_mem (a : Ghost) (F : Nat) (ms : List M) (h : ∀ m ∈ ms, invG a F m) : invL a F ms := by
  induction ms with
  | nil => trivial
  | cons m ms ih => exact ⟨h m (by simp), ih (fun x hx => h x (by simp [hx]))⟩

theorem muG_le_muL (a : Ghost) (ms : List M) (m : M) (h : m ∈ ms) : muG a m ≤ muL a ms := by
  induction ms with
  | nil => simp at h
  | cons x xs ih =>
    rcases List.mem_cons.mp h with rfl | h
    · simp [muL]
    · have := ih h; simp [muL]; omega

theorem invLL2_of_mem (a : Ghost) (F : Nat) (cells : List (List M)) (h : ∀ row ∈ cells, ∀ m ∈ row, invG a F m) :
    invLL2 a F cells := by
  induction cells with
  | nil => trivial
  | cons r rs ih => exact ⟨invL_of_mem a F r (h r (by simp)), ih (fun x hx => h x (by simp [hx]))⟩

theorem muL_le_muLL2 (a : Ghost) (cells : List (List M)) (row : List M) (h : row ∈ cells) :
    muL a row ≤ muLL2 a cells := by
  induction cells with
  | nil => simp at h
  | cons x xs ih =>
    rcases List.mem_cons.mp h with rfl | h
    · simp [muLL2]
    · have := ih h; simp [muLL2]; omega

theorem FreshP.fixed {a : Ghost} {subs : List M} (h : ∀ m ∈ subs, FreshP a m) (l : Lbl) (tail : List Script) :
    FreshP a (.fixed l subs tail) := by
  refine ⟨rfl, ?_, ?_⟩
  · simp only [viewG, initIv, viewL_eq_initIvL a subs (fun m hm => (h m hm).view)]
  · intro F hF
    simp only [muG] at hF
    exact invL_of_mem a F subs (fun m hm => (h m hm).inv F (by have := muG_le_muL a subs m hm; omega))

theorem edView_fresh (ps : Nat × Nat) (fs ts : List Nat) (pen : Nat) (fm : List (List Nat)) :
    edViewOf (edInit ps fs ts pen) fm = ⟨(edInit ps fs ts pen).lb0, (edInit ps fs ts pen).ub0⟩ := by
  simp [edViewOf, edComplete, edInit]

theorem FreshP.ed {a : Ghost} {cells : List (List M)} (h : ∀ row ∈ cells, ∀ m ∈ row, FreshP a m) (l : Lbl)
    (ps : Nat × Nat) (fs ts : List Nat) (pen : Nat) (inv : EdInv (ghostOf a) (edInit ps fs ts pen) cells) :
    FreshP a (.ed l (edInit ps fs ts pen) cells) := by
  refine ⟨rfl, ?_, ?_⟩
  · simp only [viewG, initIv, edView_fresh]
  · intro F hF
    simp only [muG] at hF
    refine ⟨hF, invLL2_of_mem a F cells ?_, inv⟩
    intro row hrow m hm
    have h1 := muL_le_muLL2 a cells row hrow
    have h2 := muG_le_muL a row m hm
    exact (h row hrow m hm).inv F (by omega)


/-! ### strings -/

theorem trim_nz {α : Type} [BEq α] (d : α) (x y : List α)
    (hne : ¬ (x.length = y.length ∧ ∀ i, i < x.length → (x.getD i d == y.getD i d) = true)) :
    0 < (y.length - (trimLens x y).1 - (trimLens x y).2) + (x.length - (trimLens x y).1 - (trimLens x y).2) := by
  apply Nat.pos_of_ne_zero
  intro h0
  apply hne
  apply trim_all d x y
  · rw [middle_lengthZ, middle_lengthZ]; omega
  · intro i hi
    rw [middle_lengthZ] at hi; omega

theorem sum_map_const_one {α : Type} (l : List α) : (l.map fun _ => 1).sum = l.length := by
  induction l with
  | nil => rfl
  | cons x xs ih => simp [ih]; omega

theorem mkStr_fresh (a : Ghost) (x y : Str) :
    FreshP a (mkStr x y) ∧ (initIv (mkStr x y)).hi ≤ x.length + y.length + 1 := by
  unfold mkStr
  split
  · exact ⟨FreshP.const a _ 0, by simp [mkConst, initIv, Iv.point]⟩
  · rename_i hxy
    split
    · exact ⟨FreshP.const a _ 1, by simp [mkConst, initIv, Iv.point]⟩
    · have hne : x ≠ y := by simpa using hxy
      have hf := trim_le_left x y
      have ht := trim_le_right x y
      refine ⟨FreshP.str (FreshP.ed ?_ _ _ _ _ _ (edInit_inv _ _ _ _ (ghostOf a) _ (by simpa using hf) (by simpa using ht)
        ?_ ?_ ?_ ?_ (fun _ _ _ _ => trivial))) _, ?_⟩
      · intro row hrow m hm
        obtain ⟨⟨yv, r⟩, _, rfl⟩ := List.mem_map.mp hrow
        obtain ⟨⟨xv, c⟩, _, rfl⟩ := List.mem_map.mp hm
        exact FreshP.const a _ _
      · intro v hv; obtain ⟨_, _, rfl⟩ := List.mem_map.mp hv; omega
      · intro v hv; obtain ⟨_, _, rfl⟩ := List.mem_map.mp hv; omega
      · simp only [List.length_map]
        apply trim_nz 0 x y
        rintro ⟨hl, hi⟩
        exact hne (list_eq_of_getD 0 x y hl (fun i h => by simpa using hi i h))
      · refine ⟨by simp [middle_len], ?_⟩
        intro row hrow
        obtain ⟨⟨yv, r⟩, _, rfl⟩ := List.mem_map.mp hrow
        simp [middle_len]
      · simp only [initIv, edInit_ub0, Nat.add_zero]
        rw [List.map_map, List.map_map]
        have h1 : (List.map ((fun x => x) ∘ fun _ => 1) x).sum = x.length := sum_map_const_one x
        have h2 : (List.map ((fun x => x) ∘ fun _ => 1) y).sum = y.length := sum_map_const_one y
        show (List.map ((fun x => x + 0) ∘ fun _ => 1) x).sum + (List.map ((fun x => x + 0) ∘ fun _ => 1) y).sum ≤ _
        simp only [Nat.add_zero]
        omega


/-! ### leaves -/

theorem leafLeaf_cost (x y : Scalar) : (leafLeaf x y).cost ≤ max (max x.pyStr.length y.pyStr.length) 1 := by
  have := lev_le_max x.pyStr y.pyStr
  simp only [leafLeaf, mkMatch_cost]
  split <;> omega

theorem leafEdits_cost (x : Scalar) (t : Tree) (hs : ¬ ∃ u v, x = .str u ∧ t = .leaf (.str v)) :
    (leafEdits x t).cost ≤ (Tree.leaf x).size + t.size + 1 + 3 * t.nw := by
  have nmax : ∀ p q : Nat, Nat.max p q = max p q := fun _ _ => rfl
  cases x with
  | null =>
    cases t with
    | leaf y => cases y <;> simp [leafEdits, Tree.size, mkReplace, nmax]
    | _ => simp [leafEdits, Tree.size, mkReplace, nmax]
  | str u =>
    cases t with
    | leaf y =>
      cases y with
      | str v => exact absurd ⟨u, v, rfl, rfl⟩ hs
      | null =>
        have := leafLeaf_cost (.str u) .null
        have e : (Scalar.null).pyStr.length = 4 := by decide
        simp only [leafEdits, Tree.size, Tree.nw]; rw [e] at this; omega
      | _ =>
        rename_i w
        first
          | (have := leafLeaf_cost (.str u) (.bool w); simp only [leafEdits, Tree.size, Tree.nw]; omega)
          | (have := leafLeaf_cost (.str u) (.int w); simp only [leafEdits, Tree.size, Tree.nw]; omega)
          | (have := leafLeaf_cost (.str u) (.float w); simp only [leafEdits, Tree.size, Tree.nw]; omega)
    | _ => simp only [leafEdits, scalarSize, mkReplace, Script.cost_mk, nmax]; omega
  | bool w =>
    cases t with
    | leaf y =>
      cases y with
      | null =>
        have := leafLeaf_cost (.bool w) .null
        have e : (Scalar.null).pyStr.length = 4 := by decide
        simp only [leafEdits, Tree.size, Tree.nw]; rw [e] at this; omega
      | bool v => have := leafLeaf_cost (.bool w) (.bool v); simp only [leafEdits, Tree.size, Tree.nw]; omega
      | int v => have := leafLeaf_cost (.bool w) (.int v); simp only [leafEdits, Tree.size, Tree.nw]; omega
      | float v => have := leafLeaf_cost (.bool w) (.float v); simp only [leafEdits, Tree.size, Tree.nw]; omega
      | str v => have := leafLeaf_cost (.bool w) (.str v); simp only [leafEdits, Tree.size, Tree.nw]; omega
    | _ => simp only [leafEdits, scalarSize, mkReplace, Script.cost_mk, nmax]; omega
  | int w =>
    cases t with
    | leaf y =>
      cases y with
      | null =>
        have := leafLeaf_cost (.int w) .null
        have e : (Scalar.null).pyStr.length = 4 := by decide
        simp only [leafEdits, Tree.size, Tree.nw]; rw [e] at this; omega
      | bool v => have := leafLeaf_cost (.int w) (.bool v); simp only [leafEdits, Tree.size, Tree.nw]; omega
      | int v => have := leafLeaf_cost (.int w) (.int v); simp only [leafEdits, Tree.size, Tree.nw]; omega
      | float v => have := leafLeaf_cost (.int w) (.float v); simp only [leafEdits, Tree.size, Tree.nw]; omega
      | str v => have := leafLeaf_cost (.int w) (.str v); simp only [leafEdits, Tree.size, Tree.nw]; omega
    | _ => simp only [leafEdits, scalarSize, mkReplace, Script.cost_mk, nmax]; omega
  | float w =>
    cases t with
    | leaf y =>
      cases y with
      | null =>
        have := leafLeaf_cost (.float w) .null
        have e : (Scalar.null).pyStr.length = 4 := by decide
        simp only [leafEdits, Tree.size, Tree.nw]; rw [e] at this; omega
      | bool v => have := leafLeaf_cost (.float w) (.bool v); simp only [leafEdits, Tree.size, Tree.nw]; omega
      | int v => have := leafLeaf_cost (.float w) (.int v); simp only [leafEdits, Tree.size, Tree.nw]; omega
      | float v => have := leafLeaf_cost (.float w) (.float v); simp only [leafEdits, Tree.size, Tree.nw]; omega
      | str v => have := leafLeaf_cost (.float w) (.str v); simp only [leafEdits, Tree.size, Tree.nw]; omega
    | _ => simp only [leafEdits, scalarSize, mkReplace, Script.cost_mk, nmax]; omega

theorem mkLeaf_fresh (a : Ghost) (x : Scalar) (t : Tree) :
    FreshP a (mkLeaf x t) ∧ (initIv (mkLeaf x t)).hi ≤ (Tree.leaf x).size + t.size + 1 + 3 * t.nw := by
  by_cases hs : ∃ u v, x = .str u ∧ t = .leaf (.str v)
  · obtain ⟨u, v, rfl, rfl⟩ := hs
    have := mkStr_fresh a u v
    refine ⟨this.1, ?_⟩
    have h2 := this.2
    simp only [mkLeaf, Tree.size, Scalar.pyStr] at h2 ⊢
    omega
  · have e : mkLeaf x t = ofLeafScript (leafEdits x t) := by
      unfold mkLeaf
      split
      · exact absurd ⟨_, _, rfl, rfl⟩ hs
      · rfl
    rw [e]
    exact ⟨FreshP.const _ _ _, by simpa [ofLeafScript, initIv, Iv.point] using leafEdits_cost x t hs⟩

end GtModel.Lazy

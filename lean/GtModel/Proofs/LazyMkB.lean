/-
  Fresh machines, fixed-key dictionaries: the pending sub-edits of a FixedKeyDictNodeEdit and the static bound
  "Σ initial upper bounds ≤ from.total_size + to.total_size + 1" on its domain.
-/
import GtModel.Proofs.LazyMkA

namespace GtModel.Lazy
open GtModel.EditMatrix (middle trimLens)

attribute [-simp] List.getD_eq_getElem?_getD

theorem sum_map_le {α : Type} (l : List α) (g h : α → Nat) (hle : ∀ x ∈ l, g x ≤ h x) :
    (l.map g).sum ≤ (l.map h).sum := by
  induction l with
  | nil => simp
  | cons x xs ih =>
    have := hle x (by simp)
    have := ih (fun y hy => hle y (by simp [hy]))
    simp; omega

theorem sum_map_add2 {α : Type} (l : List α) (g h : α → Nat) :
    (l.map fun x => g x + h x).sum = (l.map g).sum + (l.map h).sum := by
  induction l with
  | nil => simp
  | cons x xs ih => simp [ih]; omega

theorem sizeKV_eq_sum (l : List (Str × Tree)) :
    sizeKV l = ((List.range l.length).map fun i => kvSize (l.getD i dkv) + 1).sum := by
  have h1 : sizeKV l = (l.map fun kv => kvSize kv + 1).sum := by
    induction l with
    | nil => simp [sizeKV]
    | cons kv l ih => obtain ⟨k, v⟩ := kv; simp [sizeKV, kvSize, ih]
  have h2 : (List.range l.length).map (fun i => kvSize (l.getD i dkv) + 1)
      = ((List.range l.length).map (fun i => l.getD i dkv)).map (fun kv => kvSize kv + 1) := by
    rw [List.map_map]; rfl
  rw [h1, h2, map_getD_range]

/-! ### KeyValuePairEdit -/

theorem mkKvp_fresh (a : Ghost) (fk tk : Str) (veq : Bool) (ve : M) (hve : FreshP a ve) :
    FreshP a (mkKvp fk tk veq ve) := by
  unfold mkKvp
  refine FreshP.kvp (FreshP.relabel ?_ _ _) (FreshP.relabel ?_ _ _) _
  · split
    · exact FreshP.const a _ _
    · exact (mkStr_fresh a fk tk).1
  · split
    · exact FreshP.const a _ _
    · exact hve

theorem mkKvp_hi (fk tk : Str) (veq : Bool) (ve : M) :
    (initIv (mkKvp fk tk veq ve)).hi
      = (if fk == tk then 0 else (initIv (mkStr fk tk)).hi) + (if veq then 0 else (initIv ve).hi) := by
  unfold mkKvp
  simp only [initIv, initIv_relabel, Iv.add]
  cases (fk == tk) <;> cases veq <;> simp [mkConst, initIv, Iv.point]

/-! ### the pending sub-edits -/

/-- the sub-edit of the from-pair `i` whose key also occurs in `to` -/
def sharedM (fkv tkv : List (Str × Tree)) (vtbl : List (List M)) (i : Nat) : M :=
  let j := (findKey (fkv.getD i dkv).1 tkv 0).getD 0
  if kvEq (fkv.getD i dkv) (tkv.getD j dkv) then (mkConst .match_ 0).relabel (.at i) (.at j)
  else (mkKvp (fkv.getD i dkv).1 (tkv.getD j dkv).1 ((fkv.getD i dkv).2.eq (tkv.getD j dkv).2)
    ((vtbl.getD i []).getD j (mkConst .match_ 0))).relabel (.at i) (.at j)

theorem fkPending_eq (fkv tkv : List (Str × Tree)) (vtbl : List (List M)) :
    fkPending fkv tkv vtbl =
      ((List.range fkv.length).filter fun i => (findKey (fkv.getD i dkv).1 tkv 0).isSome).map (sharedM fkv tkv vtbl)
      ++ ((List.range fkv.length).filter fun i => !(findKey (fkv.getD i dkv).1 tkv 0).isSome).map (fun i =>
        mkRemove i (kvSize (fkv.getD i dkv)) 1)
      ++ ((List.range tkv.length).filter fun j => !(findKey (tkv.getD j dkv).1 fkv 0).isSome).map (fun j =>
        mkInsert j (kvSize (tkv.getD j dkv)) 1) := by
  simp only [fkPending]
  congr 1
  · congr 1
    · rw [filterMap_eq_map_filter _ (mkConst .match_ 0)]
      apply map_filter_congr
      intro i _
      refine ⟨by simp, fun hi => ?_⟩
      simp only [Option.isSome_map] at hi
      obtain ⟨j, hj⟩ := Option.isSome_iff_exists.1 hi
      simp [hj, sharedM]
    · rw [filterMap_eq_map_filter _ (mkConst .match_ 0)]
      apply map_filter_congr
      intro i _
      cases findKey (fkv.getD i dkv).1 tkv 0 <;> simp
  · rw [filterMap_eq_map_filter _ (mkConst .match_ 0)]
    apply map_filter_congr
    intro i _
    cases findKey (tkv.getD i dkv).1 fkv 0 <;> simp

section
variable (a : Ghost) (fkv tkv : List (Str × Tree)) (vtbl : List (List M))

theorem sharedM_fresh (hv : ∀ i j, FreshP a ((vtbl.getD i []).getD j (mkConst .match_ 0))) (i : Nat) :
    FreshP a (sharedM fkv tkv vtbl i) := by
  simp only [sharedM]
  split
  · exact (FreshP.const a _ _).relabel _ _
  · exact (mkKvp_fresh a _ _ _ _ (hv _ _)).relabel _ _

theorem fkPending_fresh (hv : ∀ i j, FreshP a ((vtbl.getD i []).getD j (mkConst .match_ 0))) :
    ∀ m ∈ fkPending fkv tkv vtbl, FreshP a m := by
  intro m hm
  rw [fkPending_eq] at hm
  simp only [List.mem_append, List.mem_map] at hm
  rcases hm with (⟨i, _, rfl⟩ | ⟨i, _, rfl⟩) | ⟨j, _, rfl⟩
  · exact sharedM_fresh a fkv tkv vtbl hv i
  · exact FreshP.const a _ _
  · exact FreshP.const a _ _

theorem fkPending_ne (h : (fkv.length == tkv.length && subKV fkv tkv) = false) : fkPending fkv tkv vtbl ≠ [] := by
  rw [fkPending_eq]
  intro h0
  simp only [List.append_eq_nil_iff, List.map_eq_nil_iff] at h0
  obtain ⟨⟨h1, h2⟩, h3⟩ := h0
  have hf : fkv.length = 0 := by
    apply Nat.eq_zero_of_not_pos
    intro hpos
    have hm : 0 ∈ List.range fkv.length := List.mem_range.mpr hpos
    cases hk : (findKey (fkv.getD 0 dkv).1 tkv 0).isSome with
    | true =>
      have : 0 ∈ (List.range fkv.length).filter fun i => (findKey (fkv.getD i dkv).1 tkv 0).isSome :=
        List.mem_filter.mpr ⟨hm, hk⟩
      rw [h1] at this; simp at this
    | false =>
      have : 0 ∈ (List.range fkv.length).filter fun i => !(findKey (fkv.getD i dkv).1 tkv 0).isSome :=
        List.mem_filter.mpr ⟨hm, by simp [hk]⟩
      rw [h2] at this; simp at this
  have hfk : fkv = [] := List.length_eq_zero_iff.mp hf
  subst hfk
  have ht : tkv.length = 0 := by
    apply Nat.eq_zero_of_not_pos
    intro hpos
    have : 0 ∈ (List.range tkv.length).filter fun j => !(findKey (tkv.getD j dkv).1 [] 0).isSome :=
      List.mem_filter.mpr ⟨List.mem_range.mpr hpos, by simp [findKey]⟩
    rw [h3] at this; simp at this
  have htk : tkv = [] := List.length_eq_zero_iff.mp ht
  subst htk
  simp [subKV] at h

/-- the static bound of the collection, on its domain -/
theorem fkPending_sum (hdf : (keys fkv).Nodup) (hdt : (keys tkv).Nodup)
    (hB : ∀ i j, i < fkv.length → j < tkv.length →
      (initIv ((vtbl.getD i []).getD j (mkConst .match_ 0))).hi
        ≤ (fkv.getD i dkv).2.size + (tkv.getD j dkv).2.size + 1 + 3 * (tkv.getD j dkv).2.nw)
    (hdom : ∀ j, j < tkv.length → 3 * (tkv.getD j dkv).2.nw ≤ 2 * (tkv.getD j dkv).1.length + 5) :
    ((fkPending fkv tkv vtbl).map fun m => (initIv m).hi).sum ≤ sizeKV fkv + sizeKV tkv := by
  let wf : Nat → Nat := fun i => kvSize (fkv.getD i dkv) + 1
  let wt : Nat → Nat := fun j => kvSize (tkv.getD j dkv) + 1
  let jOf : Nat → Nat := fun i => (findKey (fkv.getD i dkv).1 tkv 0).getD 0
  let S := (List.range fkv.length).filter fun i => (findKey (fkv.getD i dkv).1 tkv 0).isSome
  let R := (List.range fkv.length).filter fun i => !(findKey (fkv.getD i dkv).1 tkv 0).isSome
  let I := (List.range tkv.length).filter fun j => !(findKey (tkv.getD j dkv).1 fkv 0).isSome
  have hS : ∀ i ∈ S, (initIv (sharedM fkv tkv vtbl i)).hi ≤ wf i + wt (jOf i) := by
    intro i hi
    obtain ⟨hi1, hi2⟩ := List.mem_filter.mp hi
    have hi1 := List.mem_range.mp hi1
    obtain ⟨j, hj⟩ := Option.isSome_iff_exists.1 hi2
    have hjlt := findKey_lt hj
    have hkey := findKey_key hj
    have hjo : jOf i = j := by simp [jOf, hj]
    simp only [sharedM]
    split
    · simp [mkConst, initIv, Iv.point]
    · rw [initIv_relabel, mkKvp_hi]
      have hk : ((fkv.getD i dkv).1 == (tkv.getD ((findKey (fkv.getD i dkv).1 tkv 0).getD 0) dkv).1) = true := by
        simp only [hj, Option.getD_some]
        rw [hkey]; simp
      rw [if_pos hk]
      have hb := hB i j hi1 hjlt
      have hd := hdom j hjlt
      simp only [hj, Option.getD_some, wf, wt, hjo, kvSize]
      rw [hkey] at hd ⊢
      split
      · omega
      · omega
  rw [fkPending_eq, List.map_append, List.map_append, List.sum_append, List.sum_append, List.map_map, List.map_map,
    List.map_map]
  have e1 : (S.map ((fun m => (initIv m).hi) ∘ sharedM fkv tkv vtbl)).sum ≤ (S.map wf).sum + ((S.map jOf).map wt).sum := by
    rw [List.map_map, ← sum_map_add2]
    exact sum_map_le S _ _ hS
  have e2 : (R.map ((fun m => (initIv m).hi) ∘ fun i => mkRemove i (kvSize (fkv.getD i dkv)) 1)).sum = (R.map wf).sum := by
    congr 1
  have e3 : (I.map ((fun m => (initIv m).hi) ∘ fun j => mkInsert j (kvSize (tkv.getD j dkv)) 1)).sum = (I.map wt).sum := by
    congr 1
  have pf : ((S ++ R).map wf).sum = ((List.range fkv.length).map wf).sum :=
    ((List.filter_append_perm _ _).map wf).sum_nat
  have hh : S.map jOf = fkHits fkv tkv := by
    rw [fkHits, filterMap_eq_map_filter _ 0]
  have pt : ((fkHits fkv tkv ++ I).map wt).sum = ((List.range tkv.length).map wt).sum := by
    refine ((perm_compl _ _ _ (fkHits_nodup fkv tkv hdf) ?_ ?_).map wt).sum_nat
    · intro j hj
      simp only [fkHits, List.mem_filterMap] at hj
      obtain ⟨i, _, h⟩ := hj
      exact findKey_lt h
    · intro j hj
      rw [mem_fkHits fkv tkv hdt j hj, ← findKey_none (s := 0), getD_key hj]
      cases findKey tkv[j].1 fkv 0 <;> simp
  rw [List.map_append, List.sum_append] at pf pt
  rw [sizeKV_eq_sum fkv, sizeKV_eq_sum tkv]
  rw [hh] at e1
  show (S.map ((fun m => (initIv m).hi) ∘ sharedM fkv tkv vtbl)).sum
      + (R.map ((fun m => (initIv m).hi) ∘ fun i => mkRemove i (kvSize (fkv.getD i dkv)) 1)).sum
      + (I.map ((fun m => (initIv m).hi) ∘ fun j => mkInsert j (kvSize (tkv.getD j dkv)) 1)).sum
    ≤ ((List.range fkv.length).map wf).sum + ((List.range tkv.length).map wt).sum
  omega

end

end GtModel.Lazy

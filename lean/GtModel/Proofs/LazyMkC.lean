/-
  `mkEdit_fresh`: on the fragment without MultiSetEdit (no `DictNode` on the from-side), the fresh machine of
  `from.edits(to)` exposes its initial interval, satisfies the structural invariant for every sufficient loop bound,
  and its initial upper bound is at most `size from + size to + 1 + 3 * nw to`.
-/
import GtModel.Proofs.LazyMkB

namespace GtModel.Lazy
open GtModel.EditMatrix (middle trimLens)

attribute [-simp] List.getD_eq_getElem?_getD

theorem size_list (cs : List Tree) : (Tree.list cs).size = sizeL cs := by simp [Tree.size]
theorem size_fdict (kvs : List (Str × Tree)) : (Tree.fdict kvs).size = sizeKV kvs := by simp [Tree.size]
theorem nw_list (cs : List Tree) : (Tree.list cs).nw = nwL cs := by simp [Tree.nw]

theorem getD_mem {α : Type} (l : List α) (d : α) (i : Nat) (h : i < l.length) : l.getD i d ∈ l := by
  simp [List.getD_eq_getElem?_getD, h]

theorem initIvL_hi (ms : List M) : (initIvL ms).hi = (ms.map fun m => (initIv m).hi).sum := by
  induction ms with
  | nil => rfl
  | cons m ms ih => simp [initIvL, Iv.add, ih]

theorem HiLe_map (a : Ghost) (p : List M) (h : ∀ m ∈ p, viewG a m = initIv m) :
    HiLe (viewOnly (viewG a)) p (p.map fun m => (initIv m).hi) := by
  induction p with
  | nil => trivial
  | cons m ms ih =>
    refine ⟨?_, ih (fun x hx => h x (by simp [hx]))⟩
    show (viewG a m).hi ≤ _
    rw [h m (by simp)]; exact Nat.le_refl _

theorem sizeL_eq_sum (l : List Tree) :
    sizeL l = ((List.range l.length).map fun i => (l.getD i dT).size + 1).sum := by
  have h1 : sizeL l = (l.map fun c => c.size + 1).sum := by
    induction l with
    | nil => simp [sizeL]
    | cons c l ih => simp [sizeL, ih]
  have h2 : (List.range l.length).map (fun i => (l.getD i dT).size + 1)
      = ((List.range l.length).map (fun i => l.getD i dT)).map (fun c => c.size + 1) := by
    rw [List.map_map]; rfl
  rw [h1, h2, map_getD_range]

theorem nwL_eq_sum (l : List Tree) : nwL l = ((List.range l.length).map fun i => (l.getD i dT).nw).sum := by
  have h1 : nwL l = (l.map fun c => c.nw).sum := by
    induction l with
    | nil => simp [nwL]
    | cons c l ih => simp [nwL, ih]
  have h2 : (List.range l.length).map (fun i => (l.getD i dT).nw)
      = ((List.range l.length).map (fun i => l.getD i dT)).map (fun c => c.nw) := by
    rw [List.map_map]; rfl
  rw [h1, h2, map_getD_range]

theorem range_split (L n : Nat) (h : n ≤ L) : List.range L = List.range n ++ (List.range (L - n)).map (n + ·) := by
  have := @List.range'_append 0 n (L - n) 1
  rw [show 0 + 1 * n = n by omega, show n + (L - n) = L by omega] at this
  rw [List.range_eq_range', List.range_eq_range', ← this, List.range'_eq_map_range (s := n)]

theorem sum_range_split (L n : Nat) (h : n ≤ L) (g : Nat → Nat) :
    ((List.range L).map g).sum = ((List.range n).map g).sum + ((List.range (L - n)).map fun k => g (n + k)).sum := by
  rw [range_split L n h, List.map_append, List.sum_append, List.map_map]; rfl

theorem sum_sizes_le (l : List Tree) (pen : Nat) (hp : pen ≤ 1) :
    ((l.map Tree.size).map (· + pen)).sum ≤ sizeL l := by
  induction l with
  | nil => simp [sizeL]
  | cons c l ih => simp only [sizeL, List.map_cons, List.sum_cons] at ih ⊢; omega

/-- the arithmetic of the positional list edit -/
theorem fixed_sum (fcs tcs : List Tree) (B : Nat → Nat)
    (hB : ∀ i, i < fcs.length → i < tcs.length →
      B i ≤ (fcs.getD i dT).size + (tcs.getD i dT).size + 1 + 3 * (tcs.getD i dT).nw) :
    ((List.range (Nat.min fcs.length tcs.length)).map B).sum + tailCost (fixedTail fcs tcs)
      ≤ sizeL fcs + sizeL tcs + 3 * nwL tcs := by
  have nmin : Nat.min fcs.length tcs.length = min fcs.length tcs.length := rfl
  have hn1 : Nat.min fcs.length tcs.length ≤ fcs.length := by rw [nmin]; omega
  have hn2 : Nat.min fcs.length tcs.length ≤ tcs.length := by rw [nmin]; omega
  rw [sizeL_eq_sum fcs, sizeL_eq_sum tcs, nwL_eq_sum tcs,
    sum_range_split fcs.length _ hn1, sum_range_split tcs.length _ hn2 (fun i => (tcs.getD i dT).size + 1),
    sum_range_split tcs.length _ hn2 (fun i => (tcs.getD i dT).nw)]
  have e1 : ((List.range (Nat.min fcs.length tcs.length)).map B).sum ≤
      ((List.range (Nat.min fcs.length tcs.length)).map fun i => (fcs.getD i dT).size + 1).sum
      + (((List.range (Nat.min fcs.length tcs.length)).map fun i => (tcs.getD i dT).size + 1).sum
        + ((List.range (Nat.min fcs.length tcs.length)).map fun i => 3 * (tcs.getD i dT).nw).sum) := by
    rw [← sum_map_add2 _ (fun i => (tcs.getD i dT).size + 1) (fun i => 3 * (tcs.getD i dT).nw),
      ← sum_map_add2 _ (fun i => (fcs.getD i dT).size + 1)]
    apply sum_map_le
    intro i hi
    have hi := List.mem_range.mp hi
    rw [nmin] at hi
    have := hB i (by omega) (by omega)
    omega
  have e2 : ((List.range (Nat.min fcs.length tcs.length)).map fun i => 3 * (tcs.getD i dT).nw).sum
      = 3 * ((List.range (Nat.min fcs.length tcs.length)).map fun i => (tcs.getD i dT).nw).sum := by
    generalize List.range (Nat.min fcs.length tcs.length) = l
    induction l with
    | nil => rfl
    | cons x xs ih => simp [ih]; omega
  have e3 : tailCost (fixedTail fcs tcs) =
      ((List.range (fcs.length - Nat.min fcs.length tcs.length)).map fun k =>
        (fcs.getD (Nat.min fcs.length tcs.length + k) dT).size + 1).sum
      + ((List.range (tcs.length - Nat.min fcs.length tcs.length)).map fun k =>
        (tcs.getD (Nat.min fcs.length tcs.length + k) dT).size + 1).sum := by
    simp only [tailCost, fixedTail, List.map_append, List.sum_append, List.map_map]
    rfl
  omega

theorem kvTblM_getD (o : Opts) (orc : Orc) (fp tp : List Nat) (fkv tkv : List (Str × Tree)) (i j : Nat) (d : M) :
    ((kvTblM o orc fp tp fkv tkv).getD i []).getD j d =
      if i < fkv.length ∧ j < tkv.length then
        mkEdit o orc (fp ++ [i, 1]) (tp ++ [j, 1]) (fkv.getD i dkv).2 (tkv.getD j dkv).2
      else d := by
  by_cases hi : i < fkv.length
  · by_cases hj : j < tkv.length
    · simp [kvTblM, List.getD_eq_getElem?_getD, hi, hj]
    · have : tkv.length ≤ j := by omega
      simp [kvTblM, List.getD_eq_getElem?_getD, hi, hj, this]
  · have : fkv.length ≤ i := by omega
    simp [kvTblM, List.getD_eq_getElem?_getD, hi, this]

/-- the main induction -/
theorem mkEdit_fresh (a : Ghost) (o : Opts) (orc : Orc) :
    ∀ f : Tree, f.noDict = true → f.KeysDistinct → ∀ t : Tree, t.KeysDistinct → t.fkOK = true → ∀ fp tp,
      FreshP a (mkEdit o orc fp tp f t) ∧
        (initIv (mkEdit o orc fp tp f t)).hi ≤ f.size + t.size + 1 + 3 * t.nw := by
  have nmax : ∀ p q : Nat, Nat.max p q = max p q := fun _ _ => rfl
  intro f
  induction f using Tree.ind with
  | leaf x =>
    intro _ _ t _ _ fp tp
    rw [mkEdit_leaf]
    exact mkLeaf_fresh a x t
  | list fcs ih =>
    intro hnd hkd t hkt hft fp tp
    have hnd' := (noDictL_iff fcs).mp (by simpa [Tree.noDict] using hnd)
    have hkd' := (kd_list fcs).mp hkd
    cases t with
    | list tcs =>
      have hkt' := (kd_list tcs).mp hkt
      have hft' := (fkL_iff tcs).mp (by simpa [Tree.fkOK] using hft)
      rw [mkEdit_list_list]
      split
      · exact ⟨FreshP.const a _ 0, by simp [mkConst, initIv, Iv.point]⟩
      · rename_i hne
        split
        · -- FixedLengthSequenceEdit
          rw [fixedPairs_eq]
          have nmin : Nat.min fcs.length tcs.length = min fcs.length tcs.length := rfl
          have key : ∀ i, i < fcs.length → i < tcs.length →
              FreshP a (mkEdit o orc (fp ++ [i]) (tp ++ [i]) (fcs.getD i dT) (tcs.getD i dT)) ∧
              (initIv (mkEdit o orc (fp ++ [i]) (tp ++ [i]) (fcs.getD i dT) (tcs.getD i dT))).hi ≤
                (fcs.getD i dT).size + (tcs.getD i dT).size + 1 + 3 * (tcs.getD i dT).nw := by
            intro i h1 h2
            have m1 := getD_mem fcs dT i h1
            have m2 := getD_mem tcs dT i h2
            exact ih _ m1 (hnd' _ m1) (hkd' _ m1) _ (hkt' _ m2) (hft' _ m2) _ _
          refine ⟨FreshP.fixed ?_ _ _, ?_⟩
          · intro m hm
            obtain ⟨i, hi, rfl⟩ := List.mem_map.mp hm
            have hi := List.mem_range.mp hi
            rw [nmin] at hi
            exact (key i (by omega) (by omega)).1.relabel _ _
          · simp only [initIv, initIvL_hi, List.map_map]
            have := fixed_sum fcs tcs (fun i =>
              (initIv (mkEdit o orc (fp ++ [i]) (tp ++ [i]) (fcs.getD i dT) (tcs.getD i dT))).hi)
              (fun i h1 h2 => (key i h1 h2).2)
            simp only [size_list, nw_list]
            have e : (List.map ((fun m => (initIv m).hi) ∘ fun i =>
                (mkEdit o orc (fp ++ [i]) (tp ++ [i]) (fcs.getD i dT) (tcs.getD i dT)).relabel (Ix.at i) (Ix.at i))
                (List.range (Nat.min fcs.length tcs.length)))
              = (List.range (Nat.min fcs.length tcs.length)).map (fun i =>
                (initIv (mkEdit o orc (fp ++ [i]) (tp ++ [i]) (fcs.getD i dT) (tcs.getD i dT))).hi) := by
              apply List.map_congr_left
              intro i _
              simp
            rw [e]
            omega
        · -- EditDistance
          have hf := trim_le_left fcs tcs
          have ht := trim_le_right fcs tcs
          have cellsF : ∀ row ∈ edCells o orc fp tp fcs tcs, ∀ m ∈ row, FreshP a m := by
            intro row hrow m hm
            rw [edCells_eq] at hrow
            obtain ⟨r, hr, rfl⟩ := List.mem_map.mp hrow
            obtain ⟨c, hc, rfl⟩ := List.mem_map.mp hm
            have hr := List.mem_range.mp hr
            have hc := List.mem_range.mp hc
            rw [middle_len] at hr hc
            have m1 := getD_mem fcs dT (c + (trimLens fcs tcs).1) (by omega)
            have m2 : (middle tcs (trimLens fcs tcs)).getD r dT ∈ tcs :=
              mem_middle (getD_mem _ dT r (by rw [middle_len]; exact hr))
            exact (ih _ m1 (hnd' _ m1) (hkd' _ m1) _ (hkt' _ m2) (hft' _ m2) _ _).1.relabel _ _
          refine ⟨FreshP.ed cellsF _ _ _ _ _ (edInit_inv _ _ _ _ (ghostOf a) _ (by simpa using hf) (by simpa using ht)
            ?_ ?_ ?_ ?_ (fun _ _ _ _ => trivial)), ?_⟩
          · intro x hx
            obtain ⟨c, hc, rfl⟩ := List.mem_map.mp hx
            unfold edPen
            split
            · rename_i hp
              simp only [Bool.and_eq_true, allPositive, List.all_eq_true, decide_eq_true_eq] at hp
              have := hp.1.2 c hc
              omega
            · omega
          · intro x hx
            obtain ⟨c, hc, rfl⟩ := List.mem_map.mp hx
            unfold edPen
            split
            · rename_i hp
              simp only [Bool.and_eq_true, allPositive, List.all_eq_true, decide_eq_true_eq] at hp
              have := hp.2 c hc
              omega
            · omega
          · simp only [List.length_map]
            apply trim_nz dT fcs tcs
            intro hh
            exact hne ((eqL_iff fcs tcs).mpr hh)
          · have := edCells_shape o orc fp tp fcs tcs
            simpa [middle_len] using this
          · simp only [initIv, edInit_ub0, size_list]
            have h1 := sum_sizes_le fcs (edPen fcs tcs) (by unfold edPen; split <;> omega)
            have h2 := sum_sizes_le tcs (edPen fcs tcs) (by unfold edPen; split <;> omega)
            omega
    | leaf y =>
      rw [mkEdit_list_other _ _ _ _ _ _ (by intro _ h; cases h)]
      exact ⟨FreshP.const a _ _, by simp only [ofLeafScript, initIv, Iv.point, mkReplace, Script.cost_mk, size_list, size_fdict, nmax]; omega⟩
    | dict kvs =>
      rw [mkEdit_list_other _ _ _ _ _ _ (by intro _ h; cases h)]
      exact ⟨FreshP.const a _ _, by simp only [ofLeafScript, initIv, Iv.point, mkReplace, Script.cost_mk, size_list, size_fdict, nmax]; omega⟩
    | fdict kvs =>
      rw [mkEdit_list_other _ _ _ _ _ _ (by intro _ h; cases h)]
      exact ⟨FreshP.const a _ _, by simp only [ofLeafScript, initIv, Iv.point, mkReplace, Script.cost_mk, size_list, size_fdict, nmax]; omega⟩
  | dict kvs _ =>
    intro hnd
    simp [Tree.noDict] at hnd
  | fdict fkv ih =>
    intro hnd hkd t hkt hft fp tp
    have hnd' := (noDictKV_iff fkv).mp (by simpa [Tree.noDict] using hnd)
    have hkd' := (kd_fdict fkv).mp hkd
    cases t with
    | fdict tkv =>
      have hkt' := (kd_fdict tkv).mp hkt
      have hft' := (fkKV_iff tkv).mp (by simpa [Tree.fkOK] using hft)
      rw [mkEdit_fdict_fdict]
      split
      · exact ⟨FreshP.const a _ 0, by simp [mkConst, initIv, Iv.point]⟩
      · rename_i hne
        have key : ∀ i j, i < fkv.length → j < tkv.length →
            FreshP a (mkEdit o orc (fp ++ [i, 1]) (tp ++ [j, 1]) (fkv.getD i dkv).2 (tkv.getD j dkv).2) ∧
            (initIv (mkEdit o orc (fp ++ [i, 1]) (tp ++ [j, 1]) (fkv.getD i dkv).2 (tkv.getD j dkv).2)).hi ≤
              (fkv.getD i dkv).2.size + (tkv.getD j dkv).2.size + 1 + 3 * (tkv.getD j dkv).2.nw := by
          intro i j h1 h2
          have m1 := getD_mem fkv dkv i h1
          have m2 := getD_mem tkv dkv j h2
          exact ih _ m1 (hnd' _ m1) (hkd'.2 _ m1) _ (hkt'.2 _ m2) (hft' _ m2).2 _ _
        have hv : ∀ i j, FreshP a (((kvTblM o orc fp tp fkv tkv).getD i []).getD j (mkConst .match_ 0)) := by
          intro i j
          rw [kvTblM_getD]
          split
          · rename_i h; exact (key i j h.1 h.2).1
          · exact FreshP.const a _ _
        have hP := fkPending_fresh a fkv tkv _ hv
        have hsum := fkPending_sum fkv tkv (kvTblM o orc fp tp fkv tkv) hkd'.1 hkt'.1
          (by
            intro i j h1 h2
            rw [kvTblM_getD, if_pos ⟨h1, h2⟩]
            exact (key i j h1 h2).2)
          (fun j hj => (hft' _ (getD_mem tkv dkv j hj)).1)
        refine ⟨⟨rfl, ?_, ?_⟩, ?_⟩
        · simp [viewG, initIv, viewL, decL]
        · intro F hF
          simp only [muG, muL, Nat.zero_add] at hF
          refine ⟨by simp only [muL, Nat.zero_add]; simp at hF ⊢; omega, trivial, ?_, trivial,
            HiLe_map a _ (fun m hm => (hP m hm).view), ?_, by simp, by simp,
            Or.inl (fkPending_ne fkv tkv _ (by simpa using hne))⟩
          · apply invL_of_mem
            intro m hm
            have := muG_le_muL a _ m hm
            exact (hP m hm).inv F (by simp at hF; omega)
          · simp only [List.sum_nil, Nat.zero_add]
            omega
        · simp only [initIv, size_fdict]
          omega
    | leaf y =>
      rw [mkEdit_fdict_other _ _ _ _ _ _ (by intro _ h; cases h)]
      exact ⟨FreshP.const a _ _, by simp only [ofLeafScript, initIv, Iv.point, mkReplace, Script.cost_mk, size_list, size_fdict, nmax]; omega⟩
    | dict kvs =>
      rw [mkEdit_fdict_other _ _ _ _ _ _ (by intro _ h; cases h)]
      exact ⟨FreshP.const a _ _, by simp only [ofLeafScript, initIv, Iv.point, mkReplace, Script.cost_mk, size_list, size_fdict, nmax]; omega⟩
    | list cs =>
      rw [mkEdit_fdict_other _ _ _ _ _ _ (by intro _ h; cases h)]
      exact ⟨FreshP.const a _ _, by simp only [ofLeafScript, initIv, Iv.point, mkReplace, Script.cost_mk, size_list, size_fdict, nmax]; omega⟩

end GtModel.Lazy

/-
  Fresh machines with MultiSetEdit: on trees without fixed-key dictionaries (`DictNode` documents: the default dict
  strategy) the machine `mkEdit o orc fp tp f t` satisfies the structural invariant, provided the recorded answers
  of the assignment solver have full size (`OrcFull`).
-/
import GtModel.Proofs.LazyMkC

namespace GtModel

mutual
/-- no `FixedKeyDictNode` on the from-side: `mkEdit` never builds an EditCollection -/
def Tree.noFdict : Tree → Bool
  | .leaf _ => true
  | .list cs => nfL cs
  | .dict kvs => nfKV kvs
  | .fdict _ => false
def nfL : List Tree → Bool
  | [] => true
  | c :: cs => c.noFdict && nfL cs
def nfKV : List (Str × Tree) → Bool
  | [] => true
  | (_, v) :: rest => v.noFdict && nfKV rest
end

theorem nfL_iff (cs : List Tree) : nfL cs = true ↔ ∀ c ∈ cs, c.noFdict = true := by
  induction cs with
  | nil => simp [nfL]
  | cons c cs ih => simp [nfL, ih]

theorem nfKV_iff (kvs : List (Str × Tree)) : nfKV kvs = true ↔ ∀ kv ∈ kvs, kv.2.noFdict = true := by
  induction kvs with
  | nil => simp [nfKV]
  | cons kv kvs ih => obtain ⟨k, v⟩ := kv; simp [nfKV, ih]

mutual
theorem build_noFdict (o : Opts) (h : o.ake = true) : ∀ d : Doc, (build o d).noFdict = true
  | .scalar _ => rfl
  | .list cs => by simp only [build, Tree.noFdict]; exact buildL_noFdict o h cs
  | .obj kvs => by
    simp only [build, h, if_true, Tree.noFdict]
    rw [nfKV_iff]
    intro kv hkv
    exact (nfKV_iff _).mp (buildKV_noFdict o h kvs) kv ((sortKV_perm _).mem_iff.mp hkv)
theorem buildL_noFdict (o : Opts) (h : o.ake = true) : ∀ cs : List Doc, nfL (build.buildL o cs) = true
  | [] => rfl
  | c :: cs => by simp only [build.buildL, nfL, Bool.and_eq_true]; exact ⟨build_noFdict o h c, buildL_noFdict o h cs⟩
theorem buildKV_noFdict (o : Opts) (h : o.ake = true) : ∀ kvs : List (Str × Doc), nfKV (build.buildKV o kvs) = true
  | [] => rfl
  | (k, v) :: rest => by
    simp only [build.buildKV, nfKV, Bool.and_eq_true]; exact ⟨build_noFdict o h v, buildKV_noFdict o h rest⟩
end

/-- every answer of the assignment solver pairs as many nodes as possible (what a min-weight perfect matching on the
    smaller side does); an unrecorded matcher gets the identity pairs -/
def OrcFull (orc : Oracle) : Prop :=
  ∀ fps tps : List (List Nat), (orc.lookup fps tps).length = Nat.min fps.length tps.length

end GtModel

namespace GtModel.Lazy
open GtModel.EditMatrix (middle trimLens)

attribute [-simp] List.getD_eq_getElem?_getD

/-- satisfies the invariant for every sufficient loop bound -/
structure InvP (a : Ghost) (m : M) : Prop where
  inv : ∀ F, muG a m < F → invG a F m

theorem FreshP.invP {a : Ghost} {m : M} (h : FreshP a m) : InvP a m := ⟨h.inv⟩

theorem InvP.relabel {a : Ghost} {m : M} (h : InvP a m) (f t : Ix) : InvP a (m.relabel f t) :=
  ⟨fun F hF => (invG_relabel a F m f t rfl).mpr (h.inv F (by rw [muG_relabel a m f t rfl] at hF; exact hF))⟩

theorem InvP.const (a : Ghost) (l : Lbl) (c : Nat) : InvP a (.const l c) := ⟨fun _ _ => trivial⟩

theorem InvP.kvp {a : Ghost} {k v : M} (hk : InvP a k) (hv : InvP a v) (l : Lbl) : InvP a (.kvp l k v) :=
  ⟨fun F hF => by
    simp only [muG] at hF
    exact ⟨hk.inv F (by omega), hv.inv F (by omega)⟩⟩

theorem InvP.fixed {a : Ghost} {subs : List M} (h : ∀ m ∈ subs, InvP a m) (l : Lbl) (tail : List Script) :
    InvP a (.fixed l subs tail) :=
  ⟨fun F hF => by
    simp only [muG] at hF
    exact invL_of_mem a F subs (fun m hm => (h m hm).inv F (by have := muG_le_muL a subs m hm; omega))⟩

theorem InvP.ed {a : Ghost} {cells : List (List M)} (h : ∀ row ∈ cells, ∀ m ∈ row, InvP a m) (l : Lbl)
    (ps : Nat × Nat) (fs ts : List Nat) (pen : Nat) (inv : EdInv (ghostOf a) (edInit ps fs ts pen) cells) :
    InvP a (.ed l (edInit ps fs ts pen) cells) :=
  ⟨fun F hF => by
    simp only [muG] at hF
    refine ⟨hF, invLL2_of_mem a F cells ?_, inv⟩
    intro row hrow m hm
    have h1 := muL_le_muLL2 a cells row hrow
    have h2 := muG_le_muL a row m hm
    exact (h row hrow m hm).inv F (by omega)⟩

theorem mkKvp_invP (a : Ghost) (fk tk : Str) (veq : Bool) (ve : M) (hve : InvP a ve) : InvP a (mkKvp fk tk veq ve) := by
  unfold mkKvp
  refine InvP.kvp (InvP.relabel ?_ _ _) (InvP.relabel ?_ _ _) _
  · split
    · exact InvP.const a _ _
    · exact (mkStr_fresh a fk tk).1.invP
  · split
    · exact InvP.const a _ _
    · exact hve

/-! ### the recorded assignment, sorted -/

theorem insertPair_sorted (p : Nat × Nat) (l : List (Nat × Nat)) (h : (l.map (·.1)).Pairwise (· ≤ ·)) :
    ((insertPair p l).map (·.1)).Pairwise (· ≤ ·) := by
  induction l with
  | nil => simp [insertPair]
  | cons q l ih =>
    simp only [List.map_cons] at h
    have hq := List.pairwise_cons.mp h
    simp only [insertPair]
    split
    · rename_i hle
      simp only [List.map_cons]
      refine List.pairwise_cons.mpr ⟨?_, h⟩
      intro x hx
      rcases List.mem_cons.mp hx with rfl | hx
      · exact hle
      · exact Nat.le_trans hle (hq.1 x hx)
    · rename_i hle
      simp only [List.map_cons]
      refine List.pairwise_cons.mpr ⟨?_, ih hq.2⟩
      intro x hx
      obtain ⟨r, hr, rfl⟩ := List.mem_map.mp hx
      rcases List.mem_cons.mp ((insertPair_perm p l).mem_iff.mp hr) with rfl | hr
      · omega
      · exact hq.1 r.1 (List.mem_map_of_mem hr)

theorem sortPairs_sorted (l : List (Nat × Nat)) : ((sortPairs l).map (·.1)).Pairwise (· ≤ ·) := by
  induction l with
  | nil => simp [sortPairs]
  | cons p l ih => exact insertPair_sorted p _ ih

theorem pairwise_lt_of_le_nodup : ∀ {l : List Nat}, l.Pairwise (· ≤ ·) → l.Nodup → l.Pairwise (· < ·)
  | [], _, _ => List.Pairwise.nil
  | x :: xs, h, hn => by
      have h1 := List.pairwise_cons.mp h
      have h2 := List.nodup_cons.mp hn
      refine List.pairwise_cons.mpr ⟨?_, pairwise_lt_of_le_nodup h1.2 h2.2⟩
      intro y hy
      have := h1.1 y hy
      have : x ≠ y := fun e => h2.1 (e ▸ hy)
      omega

/-- the matcher built from an oracle with full-size answers has an admissible assignment -/
theorem assignOK_of_orc (orc : Oracle) (hfull : OrcFull orc) (fps tps : List (List Nat)) (w : WmSt)
    (h1 : w.nf = fps.length) (h2 : w.nt = tps.length) (h3 : w.assign = sortPairs (orc.lookup fps tps)) : AssignOK w := by
  have pinj := sorted_lookup_pinj orc fps tps
  refine ⟨?_, ?_, ?_, ?_⟩
  · rw [h3, h1, h2]; exact pinj.2.2
  · rw [h3]; exact pairwise_lt_of_le_nodup (sortPairs_sorted _) pinj.1
  · rw [h3]; exact pinj.2.1
  · rw [h3, h1, h2, (sortPairs_perm _).length_eq]; exact hfull fps tps


/-! ### the fresh MultiSetEdit -/

theorem mkMs_invP (a : Ghost) (amk : Bool) (orc : Orc) (hfull : OrcFull orc.assign) (fp tp : List Nat)
    (fkv tkv : List (Str × Tree)) (vtbl : List (List M))
    (hv : ∀ i j, InvP a ((vtbl.getD i []).getD j (mkConst .match_ 0))) :
    InvP a (mkMs amk orc fp tp fkv tkv vtbl) := by
  constructor
  intro F hF
  have kvE : ∀ i j, InvP a ((mkKvp (fkv.getD i ([], .leaf .null)).1 (tkv.getD j ([], .leaf .null)).1
      ((fkv.getD i ([], .leaf .null)).2.eq (tkv.getD j ([], .leaf .null)).2)
      ((vtbl.getD i []).getD j (mkConst .match_ 0))).relabel (.at i) (.at j)) :=
    fun i j => (mkKvp_invP a _ _ _ _ (hv i j)).relabel _ _
  simp only [mkMs] at hF ⊢
  simp only [muG] at hF
  refine ⟨by omega, ?_, ?_, ?_, ?_, ?_, ?_, by simp, by simp⟩
  · apply invL_of_mem
    intro m hm
    have hmu := muG_le_muL a _ m hm
    obtain ⟨⟨i, j⟩, _, he⟩ := List.mem_map.mp hm
    have hk : InvP a m := by rw [← he]; exact kvE i j
    exact hk.inv F (by omega)
  · apply invLL2_of_mem
    intro row hrow m hm
    have h1 := muL_le_muLL2 a _ row hrow
    have h2 := muG_le_muL a row m hm
    obtain ⟨i, _, hei⟩ := List.mem_map.mp hrow
    rw [← hei] at hm
    obtain ⟨j, _, hej⟩ := List.mem_map.mp hm
    have hk : InvP a m := by rw [← hej]; exact kvE i j
    exact hk.inv F (by omega)
  · refine ⟨by simp, ?_⟩
    intro row hrow
    obtain ⟨i, _, rfl⟩ := List.mem_map.mp hrow
    simp
  · exact assignOK_of_orc orc.assign hfull _ _ _ (by simp) (by simp) rfl
  · intro pairs hp; simp at hp
  · intro b hb; simp at hb

theorem mkEdit_dict_dict (o : Opts) (orc : Orc) (fp tp : List Nat) (fkv tkv : List (Str × Tree)) :
    mkEdit o orc fp tp (.dict fkv) (.dict tkv) =
      if (fkv.length == tkv.length && subKV fkv tkv) then mkConst .match_ 0
      else mkMs o.amk orc fp tp fkv tkv (kvTblM o orc fp tp fkv tkv) := by
  rw [mkEdit]
  have := GtModel.attach_zipIdx_map fkv (fun kv c => tkv.zipIdx.map fun q => mkEdit o orc (fp ++ [c, 1]) (tp ++ [q.2, 1]) kv.2 q.1.2) 0
  simp only [kvTblM, this]

theorem mkEdit_dict_other (o : Opts) (orc : Orc) (fp tp : List Nat) (fkv : List (Str × Tree)) (t : Tree)
    (h : ∀ tkv, t ≠ .dict tkv) : mkEdit o orc fp tp (.dict fkv) t = ofLeafScript (mkReplace (sizeKV fkv) t.size) := by
  cases t with
  | dict tkv => exact absurd rfl (h tkv)
  | _ => rw [mkEdit]; simp

/-- on trees without fixed-key dictionaries the fresh machine satisfies the structural invariant -/
theorem mkEdit_invP (a : Ghost) (o : Opts) (orc : Orc) (hfull : OrcFull orc.assign) :
    ∀ f : Tree, f.noFdict = true → ∀ (t : Tree) (fp tp : List Nat), InvP a (mkEdit o orc fp tp f t) := by
  intro f
  induction f using Tree.ind with
  | leaf x =>
    intro _ t fp tp
    rw [mkEdit_leaf]
    exact (mkLeaf_fresh a x t).1.invP
  | list fcs ih =>
    intro hnf t fp tp
    have hnf' := (nfL_iff fcs).mp (by simpa [Tree.noFdict] using hnf)
    cases t with
    | list tcs =>
      rw [mkEdit_list_list]
      split
      · exact InvP.const a _ 0
      · rename_i hne
        split
        · rw [fixedPairs_eq]
          have nmin : Nat.min fcs.length tcs.length = min fcs.length tcs.length := rfl
          apply InvP.fixed
          intro m hm
          obtain ⟨i, hi, rfl⟩ := List.mem_map.mp hm
          have hi := List.mem_range.mp hi
          rw [nmin] at hi
          have m1 := getD_mem fcs dT i (by omega)
          exact (ih _ m1 (hnf' _ m1) _ _ _).relabel _ _
        · have hf := trim_le_left fcs tcs
          have ht := trim_le_right fcs tcs
          have cellsF : ∀ row ∈ edCells o orc fp tp fcs tcs, ∀ m ∈ row, InvP a m := by
            intro row hrow m hm
            rw [edCells_eq] at hrow
            obtain ⟨r, hr, rfl⟩ := List.mem_map.mp hrow
            obtain ⟨c, hc, rfl⟩ := List.mem_map.mp hm
            have hc := List.mem_range.mp hc
            rw [middle_len] at hc
            have m1 := getD_mem fcs dT (c + (trimLens fcs tcs).1) (by omega)
            exact (ih _ m1 (hnf' _ m1) _ _ _).relabel _ _
          refine InvP.ed cellsF _ _ _ _ _ (edInit_inv _ _ _ _ (ghostOf a) _ (by simpa using hf) (by simpa using ht)
            ?_ ?_ ?_ ?_ (fun _ _ _ _ => trivial))
          · intro x hx
            obtain ⟨c, hc, rfl⟩ := List.mem_map.mp hx
            unfold edPen
            split
            · rename_i hp
              simp only [Bool.and_eq_true, allPositive, List.all_eq_true, decide_eq_true_eq] at hp
              have := hp.1.2 c hc
              omega
            · omega
          · intro x hx
            obtain ⟨c, hc, rfl⟩ := List.mem_map.mp hx
            unfold edPen
            split
            · rename_i hp
              simp only [Bool.and_eq_true, allPositive, List.all_eq_true, decide_eq_true_eq] at hp
              have := hp.2 c hc
              omega
            · omega
          · simp only [List.length_map]
            apply trim_nz dT fcs tcs
            intro hh
            exact hne ((eqL_iff fcs tcs).mpr hh)
          · have := edCells_shape o orc fp tp fcs tcs
            simpa [middle_len] using this
    | leaf y =>
      rw [mkEdit_list_other _ _ _ _ _ _ (by intro _ h; cases h)]
      exact InvP.const a _ _
    | dict kvs =>
      rw [mkEdit_list_other _ _ _ _ _ _ (by intro _ h; cases h)]
      exact InvP.const a _ _
    | fdict kvs =>
      rw [mkEdit_list_other _ _ _ _ _ _ (by intro _ h; cases h)]
      exact InvP.const a _ _
  | fdict kvs _ =>
    intro hnf
    simp [Tree.noFdict] at hnf
  | dict fkv ih =>
    intro hnf t fp tp
    have hnf' := (nfKV_iff fkv).mp (by simpa [Tree.noFdict] using hnf)
    cases t with
    | dict tkv =>
      rw [mkEdit_dict_dict]
      split
      · exact InvP.const a _ 0
      · apply mkMs_invP a o.amk orc hfull
        intro i j
        rw [kvTblM_getD]
        split
        · rename_i h
          have m1 := getD_mem fkv dkv i h.1
          exact ih _ m1 (hnf' _ m1) _ _ _
        · exact InvP.const a _ _
    | leaf y =>
      rw [mkEdit_dict_other _ _ _ _ _ _ (by intro _ h; cases h)]
      exact InvP.const a _ _
    | list cs =>
      rw [mkEdit_dict_other _ _ _ _ _ _ (by intro _ h; cases h)]
      exact InvP.const a _ _
    | fdict kvs =>
      rw [mkEdit_dict_other _ _ _ _ _ _ (by intro _ h; cases h)]
      exact InvP.const a _ _

end GtModel.Lazy

/-
  MultiSetEdit, part A: the left-over removals / insertions of a matching (static facts).
-/
import GtModel.Proofs.LazyWmD
import GtModel.Proofs.EditsPerm

namespace GtModel.Lazy

attribute [-simp] List.getD_eq_getElem?_getD

/-! ### the indices a matching leaves over -/

theorem unmatched_sorted (n : Nat) (used : List Nat) : (unmatched n used).Pairwise (· < ·) :=
  List.Pairwise.filter _ List.pairwise_lt_range

theorem unmatched_lt (n : Nat) (used : List Nat) : ∀ a ∈ unmatched n used, a < n := by
  intro a ha
  simp only [unmatched, List.mem_filter, List.mem_range] at ha
  exact ha.1

theorem unmatched_length (n : Nat) (used : List Nat) (hnd : used.Nodup) (hlt : ∀ x ∈ used, x < n) :
    (unmatched n used).length + used.length = n := by
  have := (perm_compl used n (fun a => !(used.contains a)) hnd hlt (by
    intro j _
    simp)).length_eq
  simp only [List.length_append, List.length_range] at this
  simp only [unmatched]
  omega

theorem unmatched_nil (n : Nat) (used : List Nat) (hnd : used.Nodup) (hlt : ∀ x ∈ used, x < n)
    (hl : used.length = n) : unmatched n used = [] := by
  have := unmatched_length n used hnd hlt
  exact List.eq_nil_of_length_eq_zero (by omega)

theorem nodup_of_sorted {l : List Nat} (h : l.Pairwise (· < ·)) : l.Nodup :=
  List.Pairwise.imp (fun hab => Nat.ne_of_lt hab) h

section
variable (s : MsSt) (w : WmSt)

theorem sel_bounds (costs : List Nat) (idx : List Nat) (hp : idx.Pairwise (· < ·)) (hr : ∀ a ∈ idx, a < costs.length) :
    ksm idx.length costs ≤ (idx.map fun a => costs.getD a 0).sum ∧
      (idx.map fun a => costs.getD a 0).sum ≤ klg idx.length costs := by
  have hs := idx_sublist0 0 costs idx hp hr
  have h1 := ksm_le_sublist costs _ hs
  have h2 := sublist_le_klg costs _ hs
  simp only [List.length_map] at h1 h2
  exact ⟨h1, h2⟩

/-- the left-over costs of the final matching lie in the interval used before the matching is known -/
theorem extra_in (ok : AssignOK w) (hrem : s.remCosts.length = w.nf) (hins : s.insCosts.length = w.nt) :
    (w.nf > w.nt → ksm (w.nf - w.nt) s.remCosts ≤ extraOf s w w.assign ∧
      extraOf s w w.assign ≤ klg (w.nf - w.nt) s.remCosts) ∧
    (w.nf < w.nt → ksm (w.nt - w.nf) s.insCosts ≤ extraOf s w w.assign ∧
      extraOf s w w.assign ≤ klg (w.nt - w.nf) s.insCosts) ∧
    (w.nf = w.nt → extraOf s w w.assign = 0) := by
  have nmin : Nat.min w.nf w.nt = min w.nf w.nt := rfl
  have ndF : (w.assign.map (·.1)).Nodup := nodup_of_sorted ok.sortedF
  have ltF : ∀ x ∈ w.assign.map (·.1), x < w.nf := by
    intro x hx; obtain ⟨p, hp, rfl⟩ := List.mem_map.mp hx; exact (ok.inRange p hp).1
  have ltT : ∀ x ∈ w.assign.map (·.2), x < w.nt := by
    intro x hx; obtain ⟨p, hp, rfl⟩ := List.mem_map.mp hx; exact (ok.inRange p hp).2
  have lenF := unmatched_length w.nf _ ndF ltF
  have lenT := unmatched_length w.nt _ ok.nodupT ltT
  have hfull := ok.full
  rw [nmin] at hfull
  simp only [List.length_map] at lenF lenT
  have selF := sel_bounds s.remCosts (unmatched w.nf (w.assign.map (·.1))) (unmatched_sorted _ _)
    (by intro a ha; rw [hrem]; exact unmatched_lt _ _ a ha)
  have selT := sel_bounds s.insCosts (unmatched w.nt (w.assign.map (·.2))) (unmatched_sorted _ _)
    (by intro a ha; rw [hins]; exact unmatched_lt _ _ a ha)
  refine ⟨?_, ?_, ?_⟩
  · intro hgt
    have eT : unmatched w.nt (w.assign.map (·.2)) = [] :=
      unmatched_nil _ _ ok.nodupT ltT (by simp; omega)
    have eL : (unmatched w.nf (w.assign.map (·.1))).length = w.nf - w.nt := by omega
    rw [eL] at selF
    simp only [extraOf, eT, List.map_nil, List.sum_nil, Nat.add_zero]
    exact selF
  · intro hlt
    have eF : unmatched w.nf (w.assign.map (·.1)) = [] :=
      unmatched_nil _ _ ndF ltF (by simp; omega)
    have eL : (unmatched w.nt (w.assign.map (·.2))).length = w.nt - w.nf := by omega
    rw [eL] at selT
    simp only [extraOf, eF, List.map_nil, List.sum_nil, Nat.zero_add]
    exact selT
  · intro heq
    have eF : unmatched w.nf (w.assign.map (·.1)) = [] :=
      unmatched_nil _ _ ndF ltF (by simp; omega)
    have eT : unmatched w.nt (w.assign.map (·.2)) = [] :=
      unmatched_nil _ _ ok.nodupT ltT (by simp; omega)
    simp [extraOf, eF, eT]

/-- `leftIv` is a well-formed interval around the left-over costs of the final matching -/
theorem leftIv_wf (ok : AssignOK w) (hrem : s.remCosts.length = w.nf) (hins : s.insCosts.length = w.nt)
    (hmt : ∀ pairs, w.mtch = some pairs → pairs = w.assign) :
    (leftIvD s w).lo ≤ extraOf s w w.assign ∧ extraOf s w w.assign ≤ (leftIvD s w).hi := by
  obtain ⟨h1, h2, h3⟩ := extra_in s w ok hrem hins
  unfold leftIvD leftIv
  cases hm : w.mtch with
  | some pairs =>
    have := hmt pairs hm
    subst this
    simp [Iv.point]
  | none =>
    simp only
    split
    · rename_i hgt
      have := h1 hgt
      have e := klg_eq_drop (w.nf - w.nt) s.remCosts
      simp only [Option.getD_some, ksm, sortNat_length] at this e ⊢
      omega
    · split
      · rename_i hlt
        have := h2 hlt
        have e := klg_eq_drop (w.nt - w.nf) s.insCosts
        simp only [Option.getD_some, ksm, sortNat_length] at this e ⊢
        omega
      · have := h3 (by omega)
        simp [this]

end

end GtModel.Lazy

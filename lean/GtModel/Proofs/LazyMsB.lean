/-
  MultiSetEdit, part B: the exposed interval, the invariant, `bounds()`.
-/
import GtModel.Proofs.LazyMsA

namespace GtModel.Lazy

attribute [-simp] List.getD_eq_getElem?_getD

section
variable {rec : Ops} {g : Ghost}

/-- `MultiSetEdit.bounds()` as a function of the ghost data -/
def msViewOf (g : Ghost) (s : MsSt) (kvps : List M) (w : WmSt) (edges : List (List M)) : Iv :=
  let b1 : Iv := ⟨(wmViewV w (viewM g edges)).lo + sumLo g kvps, (wmViewV w (viewM g edges)).hi + sumHi g kvps⟩
  match leftIv s w with
  | some r => b1.add r
  | none => b1

def msFinOf (g : Ghost) (s : MsSt) (kvps : List M) (w : WmSt) (edges : List (List M)) : Nat :=
  wmFin g w edges + sumFin g kvps + extraOf s w w.assign

structure MsInv (g : Ghost) (s : MsSt) (kvps : List M) (w : WmSt) (edges : List (List M)) : Prop where
  wm : WmInv g w edges
  kI : ∀ m ∈ kvps, g.I m
  rem : s.remCosts.length = w.nf
  ins : s.insCosts.length = w.nt

theorem msView_eq (s : MsSt) (kvps : List M) (w : WmSt) (edges : List (List M)) :
    msViewOf g s kvps w edges =
      ⟨(wmViewV w (viewM g edges)).lo + sumLo g kvps + (leftIvD s w).lo,
        (wmViewV w (viewM g edges)).hi + sumHi g kvps + (leftIvD s w).hi⟩ := by
  simp only [msViewOf, leftIvD]
  cases leftIv s w with
  | some r => simp [Iv.add]
  | none => simp

theorem msView_wf (h : Protocol rec g) {s : MsSt} {kvps : List M} {w : WmSt} {edges : List (List M)}
    (inv : MsInv g s kvps w edges) :
    (msViewOf g s kvps w edges).lo ≤ msFinOf g s kvps w edges ∧
      msFinOf g s kvps w edges ≤ (msViewOf g s kvps w edges).hi := by
  have h1 := wmView_wf h inv.wm
  have h2 := sum_wf h kvps inv.kI
  have h3 := leftIv_wf s w inv.wm.ok inv.rem inv.ins inv.wm.mt
  rw [msView_eq]
  simp only [msFinOf]
  omega

/-- `b` is `a` after reads -/
def PresL (g : Ghost) (a b : List M) : Prop := KeepsL g a b ∧ b.map g.view = a.map g.view

theorem sumLo_map (l : List M) : sumLo g l = ((l.map g.view).map (·.lo)).sum := by
  induction l with
  | nil => rfl
  | cons m ms ih => simp [sumLo, ih]

theorem sumHi_map (l : List M) : sumHi g l = ((l.map g.view).map (·.hi)).sum := by
  induction l with
  | nil => rfl
  | cons m ms ih => simp [sumHi, ih]

theorem PresL.sums {a b : List M} (p : PresL g a b) : sumLo g b = sumLo g a ∧ sumHi g b = sumHi g a := by
  rw [sumLo_map, sumLo_map, sumHi_map, sumHi_map, p.2]
  exact ⟨rfl, rfl⟩

theorem sumBounds_ok (h : Protocol rec g) : ∀ (ms : List M) (acc : Iv), (∀ m ∈ ms, g.I m) →
    ∃ ms', sumBounds rec ms acc = .ok (ms', ⟨acc.lo + sumLo g ms, acc.hi + sumHi g ms⟩) ∧ PresL g ms ms' ∧
      ∀ m ∈ ms', g.Q m
  | [], acc, _ => ⟨[], by simp [sumBounds, sumLo, sumHi, pure, Except.pure], ⟨trivial, rfl⟩, by simp⟩
  | m :: ms, acc, hI => by
      obtain ⟨m', hm, pm, qm⟩ := h.bounds m (hI m (by simp))
      obtain ⟨ms', hms, pp, qq⟩ := sumBounds_ok h ms (acc.add (g.view m)) (fun x hx => hI x (by simp [hx]))
      refine ⟨m' :: ms', ?_, ⟨⟨pm.keeps, pp.1⟩, by simp [pm.view, pp.2]⟩, ?_⟩
      · simp only [Iv.add] at hms
        simp only [sumBounds, hm, bind, Except.bind, pure, Except.pure, Iv.add, hms, sumLo, sumHi, Nat.add_assoc]
      · intro x hx
        rcases List.mem_cons.mp hx with rfl | hx
        · exact qm
        · exact qq x hx

theorem leftIv_same {w w' : WmSt} (s : MsSt) (hs : SameW w w') : leftIv s w' = leftIv s w := by
  simp [leftIv, extraOf, hs.1, hs.2.1, hs.2.2.2.1]

theorem MsInv.wm' {s : MsSt} {kvps kvps' : List M} {w w' : WmSt} {e e' : List (List M)} (inv : MsInv g s kvps w e)
    (hw : WmInv g w' e') (hk : ∀ m ∈ kvps', g.I m) (h1 : w'.nf = w.nf) (h2 : w'.nt = w.nt) :
    MsInv g s kvps' w' e' :=
  ⟨hw, hk, by rw [h1]; exact inv.rem, by rw [h2]; exact inv.ins⟩

/-- `MultiSetEdit.bounds()` -/
theorem msBounds_ok (h : Protocol rec g) (l : Lbl) {s : MsSt} {kvps : List M} {w : WmSt} {edges : List (List M)}
    (inv : MsInv g s kvps w edges) :
    ∃ kvps' w' e', msBounds rec l s kvps w edges = .ok (.ms l s kvps' w' e', msViewOf g s kvps w edges) ∧
      PresL g kvps kvps' ∧ PresLL g edges e' ∧ MsInv g s kvps' w' e' ∧ SameW w w' ∧
      msViewOf g s kvps' w' e' = msViewOf g s kvps w edges ∧ (∀ m ∈ kvps', g.Q m) ∧
      wmViewV w' (viewM g e') = wmViewV w (viewM g edges) := by
  obtain ⟨w1, e1, hb, pp, inv1, sw, hv⟩ := wmBounds_ok h inv.wm
  obtain ⟨kvps1, hk, pk, qk⟩ := sumBounds_ok h kvps (wmViewV w (viewM g edges)) inv.kI
  have hl := leftIv_same s sw
  have inv' : MsInv g s kvps1 w1 e1 := inv.wm' inv1 pk.1.inv sw.1 sw.2.1
  have hview : msViewOf g s kvps1 w1 e1 = msViewOf g s kvps w edges := by
    simp only [msViewOf, hv, pk.sums.1, pk.sums.2, hl]
  refine ⟨kvps1, w1, e1, ?_, pk, pp, inv', sw, hview, qk, hv⟩
  -- the computation
  have hwf := leftIv_wf s w inv.wm.ok inv.rem inv.ins inv.wm.mt
  simp only [msBounds, hb, hk, bind, Except.bind]
  cases hm : w.mtch with
  | some pairs =>
    have hm1 : w1.mtch = some pairs := by rw [sw.2.2.2.1, hm]
    simp only [hm1, pure, Except.pure, msViewOf, leftIv, hm, sw.1, sw.2.1, extraOf]
  | none =>
    have hm1 : w1.mtch = none := by rw [sw.2.2.2.1, hm]
    simp only [hm1, sw.1, sw.2.1]
    by_cases hgt : w.nf > w.nt
    · have hle : ((sortNat s.remCosts).take (w.nf - w.nt)).sum ≤
          ((sortNat s.remCosts).drop ((sortNat s.remCosts).length - (w.nf - w.nt))).sum := by
        simp only [leftIvD, leftIv, hm, hgt, if_true, Option.getD_some] at hwf
        omega
      simp only [hgt, if_true, mk?_ok _ _ hle, pure, Except.pure, msViewOf, leftIv, hm]
    · by_cases hlt : w.nf < w.nt
      · have hle : ((sortNat s.insCosts).take (w.nt - w.nf)).sum ≤
            ((sortNat s.insCosts).drop ((sortNat s.insCosts).length - (w.nt - w.nf))).sum := by
          simp only [leftIvD, leftIv, hm, hgt, hlt, if_true, if_false, Option.getD_some] at hwf
          omega
        simp only [hgt, hlt, if_true, if_false, mk?_ok _ _ hle, pure, Except.pure, msViewOf, leftIv, hm]
      · simp only [hgt, hlt, if_false, pure, Except.pure, msViewOf, leftIv, hm]

end

end GtModel.Lazy

/-
  MultiSetEdit, part C: `tighten_bounds()`.
-/
import GtModel.Proofs.LazyMsB

namespace GtModel.Lazy

attribute [-simp] List.getD_eq_getElem?_getD

section
variable {rec : Ops} {g : Ghost}

/-- once the matching is known the left-over interval is the exact value, inside the earlier interval -/
theorem leftIv_shrink (s : MsSt) {w w' : WmSt} (ok : AssignOK w) (hrem : s.remCosts.length = w.nf)
    (hins : s.insCosts.length = w.nt) (hmt : ∀ pairs, w.mtch = some pairs → pairs = w.assign)
    (hmt' : ∀ pairs, w'.mtch = some pairs → pairs = w'.assign) (h1 : w'.nf = w.nf) (h2 : w'.nt = w.nt)
    (h3 : w'.assign = w.assign) (hmono : ∀ pairs, w.mtch = some pairs → w'.mtch = some pairs) :
    (leftIvD s w).lo ≤ (leftIvD s w').lo ∧ (leftIvD s w').hi ≤ (leftIvD s w).hi := by
  have hwf := leftIv_wf s w ok hrem hins hmt
  cases hm' : w'.mtch with
  | some pairs =>
    have hp := hmt' pairs hm'
    have e : leftIvD s w' = Iv.point (extraOf s w w.assign) := by
      simp [leftIvD, leftIv, hm', hp, h3, extraOf, h1, h2]
    rw [e]
    simpa [Iv.point] using hwf
  | none =>
    have hm : w.mtch = none := by
      cases hmm : w.mtch with
      | none => rfl
      | some pairs => have := hmono pairs hmm; rw [hm'] at this; cases this
    have e : leftIvD s w' = leftIvD s w := by simp [leftIvD, leftIv, hm, hm', h1, h2]
    rw [e]
    exact ⟨Nat.le_refl _, Nat.le_refl _⟩

theorem firstTighten_ok (h : Protocol rec g) : ∀ (kvps : List M), (∀ m ∈ kvps, g.I m) →
    ∃ kvps' r, firstTighten rec kvps = .ok (kvps', r) ∧ KeepsL g kvps kvps' ∧
      (r = true → sumMu g kvps' < sumMu g kvps) ∧
      (r = false → ∀ m ∈ kvps', (g.view m).lo = (g.view m).hi) ∧
      ((∀ m ∈ kvps, g.Q m) → r = true → sumLo g kvps < sumLo g kvps' ∨ sumHi g kvps' < sumHi g kvps)
  | [], _ => ⟨[], false, rfl, trivial, by simp, by simp, by simp⟩
  | m :: ms, hI => by
      obtain ⟨m', r, ht, st⟩ := h.tighten m (hI m (by simp))
      have hIms : ∀ x ∈ ms, g.I x := fun x hx => hI x (by simp [hx])
      cases r with
      | true =>
        refine ⟨m' :: ms, true, by simp [firstTighten, ht, bind, Except.bind, pure, Except.pure],
          ⟨st.keeps, KeepsL.refl ms hIms⟩, ?_, by simp, ?_⟩
        · intro _; have := st.dec rfl; simp only [sumMu]; omega
        · intro hQ _
          have hne := st.strict (hQ m (by simp)) rfl
          have := iv_ne_of_sub st.sub hne
          simp only [sumLo, sumHi]; omega
      | false =>
        obtain ⟨ms', r', hms, kk, hdec, hdef, hstr⟩ := firstTighten_ok h ms hIms
        have hs := KeepsL.sums kk
        refine ⟨m' :: ms', r', by simp [firstTighten, ht, hms, bind, Except.bind, pure, Except.pure], ⟨st.keeps, kk⟩,
          ?_, ?_, ?_⟩
        · intro hr; have := hdec hr; have := st.mu; simp only [sumMu]; omega
        · intro hr x hx
          rcases List.mem_cons.mp hx with rfl | hx
          · exact st.stop rfl
          · exact hdef hr x hx
        · intro hQ hr
          have := hstr (fun x hx => hQ x (by simp [hx])) hr
          have := st.sub
          simp only [sumLo, sumHi]; omega

/-- what can still change below a MultiSetEdit -/
def msBase (g : Ghost) (kvps : List M) (w : WmSt) (edges : List (List M)) : Nat :=
  sumMu g kvps + muLLg g edges + wmFlags w

theorem sums_def {l : List M} (hI : ∀ m ∈ l, (g.view m).lo ≤ (g.view m).hi)
    (hd : ∀ m ∈ l, (g.view m).lo = (g.view m).hi) : sumLo g l = sumHi g l := by
  induction l with
  | nil => rfl
  | cons m ms ih =>
    simp only [sumLo, sumHi, hd m (by simp), ih (fun x hx => hI x (by simp [hx])) (fun x hx => hd x (by simp [hx]))]

/-- `MultiSetEdit.tighten_bounds()` -/
theorem msTighten_ok (h : Protocol rec g) (n : Nat) (l : Lbl) {s : MsSt} {kvps : List M} {w : WmSt}
    {edges : List (List M)} (inv : MsInv g s kvps w edges) (hn : wmFlags w + muLLg g edges < n) :
    ∃ kvps' w' e' r, msTighten rec n l s kvps w edges = .ok (.ms l s kvps' w' e', r) ∧ KeepsL g kvps kvps' ∧
      KeepsLL g edges e' ∧ MsInv g s kvps' w' e' ∧ w'.nf = w.nf ∧ w'.nt = w.nt ∧ w'.assign = w.assign ∧
      (msViewOf g s kvps w edges).lo ≤ (msViewOf g s kvps' w' e').lo ∧
      (msViewOf g s kvps' w' e').hi ≤ (msViewOf g s kvps w edges).hi ∧
      msBase g kvps' w' e' ≤ msBase g kvps w edges ∧
      wmFlags w' + muLLg g e' ≤ wmFlags w + muLLg g edges ∧
      (r = true → msBase g kvps' w' e' < msBase g kvps w edges ∨
        (msViewOf g s kvps w edges).lo < (msViewOf g s kvps' w' e').lo ∨
        (msViewOf g s kvps' w' e').hi < (msViewOf g s kvps w edges).hi) ∧
      (r = false → (msViewOf g s kvps' w' e').lo = (msViewOf g s kvps' w' e').hi) ∧
      ((∀ m ∈ kvps, g.Q m) → r = true → msViewOf g s kvps' w' e' ≠ msViewOf g s kvps w edges) := by
  obtain ⟨kvps1, r, hft, kk, hdec, hdef, hstr⟩ := firstTighten_ok h kvps inv.kI
  have hs := KeepsL.sums kk
  have hI1 : ∀ m ∈ kvps1, g.I m := KeepsL.inv kk
  cases r with
  | true =>
    have inv1 : MsInv g s kvps1 w edges := inv.wm' inv.wm hI1 rfl rfl
    refine ⟨kvps1, w, edges, true, by simp [msTighten, hft, bind, Except.bind, pure, Except.pure], kk,
      KeepsLL.refl edges inv.wm.edgesI, inv1, rfl, rfl, rfl, ?_, ?_, ?_, Nat.le_refl _, ?_, by simp, ?_⟩
    · rw [msView_eq, msView_eq]; simp only; omega
    · rw [msView_eq, msView_eq]; simp only; omega
    · have := hdec rfl; simp only [msBase]; omega
    · intro _; left; have := hdec rfl; simp only [msBase]; omega
    · intro hQ _ he
      have := hstr hQ rfl
      rw [msView_eq, msView_eq] at he
      simp only [Iv.mk.injEq] at he
      omega
  | false =>
    have hkdef := hdef rfl
    have hkwf : ∀ m ∈ kvps1, (g.view m).lo ≤ (g.view m).hi := by
      intro m hm; have := h.wf m (hI1 m hm); omega
    have hksum : sumLo g kvps1 = sumHi g kvps1 := sums_def hkwf hkdef
    obtain ⟨w1, e1, r1, hwt, k1, inv1, a1, a2, a3, v1, v2, fl, hr1, hr0, hmono⟩ := wmTighten_ok h n inv.wm hn
    have hleft := leftIv_shrink s inv.wm.ok inv.rem inv.ins inv.wm.mt inv1.mt a1 a2 a3 hmono
    have invm1 : MsInv g s kvps1 w1 e1 := inv.wm' inv1 hI1 a1 a2
    have hmu1 := k1.mu
    cases r1 with
    | true =>
      have hne := hr1 rfl
      have hstrict := iv_ne_of_sub ⟨v1, v2⟩ hne
      refine ⟨kvps1, w1, e1, true, by simp [msTighten, hft, hwt, bind, Except.bind, pure, Except.pure], kk, k1, invm1,
        a1, a2, a3, ?_, ?_, ?_, fl, ?_, by simp, ?_⟩
      · rw [msView_eq, msView_eq]; simp only; omega
      · rw [msView_eq, msView_eq]; simp only; omega
      · simp only [msBase]; omega
      · intro _; right; rw [msView_eq, msView_eq]; simp only; omega
      · intro _ _ he
        rw [msView_eq, msView_eq] at he
        simp only [Iv.mk.injEq] at he
        omega
    | false =>
      obtain ⟨hwd, pp, sw, hv⟩ := hr0 rfl
      by_cases hsome : w1.mtch.isSome = true
      · -- the matching is known and everything below is definitive
        obtain ⟨pairs, hp⟩ := Option.isSome_iff_exists.mp hsome
        have hl : (leftIvD s w1).lo = (leftIvD s w1).hi := by simp [leftIvD, leftIv, hp, Iv.point]
        refine ⟨kvps1, w1, e1, false, by simp [msTighten, hft, hwt, hsome, bind, Except.bind, pure, Except.pure], kk, k1,
          invm1, a1, a2, a3, ?_, ?_, ?_, fl, by simp, ?_, by simp⟩
        · rw [msView_eq, msView_eq]; simp only; omega
        · rw [msView_eq, msView_eq]; simp only; omega
        · simp only [msBase]; omega
        · intro _; rw [msView_eq]; simp only; rw [hv]; omega
      · -- force the matching
        have hnone : w1.mtch = none := by
          cases hm : w1.mtch with
          | none => rfl
          | some _ => simp [hm] at hsome
        obtain ⟨kvps2, w2, e2, hb1, pk2, pp2, invm2, sw2, hview2, _, hwv2⟩ := msBounds_ok h l invm1
        obtain ⟨w3, e3, hma, k3, inv3, c1, c2, c3, c4, c5, u1, u2, fl3, fl3'⟩ := wmMatching_ok h invm2.wm
        have invm3 : MsInv g s kvps2 w3 e3 := invm2.wm' inv3 invm2.kI c1 c2
        obtain ⟨kvps4, w4, e4, hb2, pk4, pp4, invm4, sw4, hview4, _, _⟩ := msBounds_ok h l invm3
        have hnone2 : w2.mtch = none := by rw [sw2.2.2.2.1]; exact hnone
        have hleft3 := leftIv_shrink s invm2.wm.ok invm2.rem invm2.ins invm2.wm.mt inv3.mt c1 c2 c3
          (by intro pairs hp; rw [hnone2] at hp; cases hp)
        have hsk2 := pk2.sums
        have hsk4 := pk4.sums
        have hmk2 := (KeepsL.sums pk2.1).2.2.2.1
        have hmk4 := (KeepsL.sums pk4.1).2.2.2.1
        have hfl2 := wmFlags_same sw2
        have hfl4 := wmFlags_same sw4
        have hflt := fl3' hnone2
        have hm2 := pp2.1.mu
        have hm3 := k3.mu
        have hm4 := pp4.1.mu
        -- the chain of intervals
        have hV3 : (msViewOf g s kvps2 w2 e2).lo ≤ (msViewOf g s kvps2 w3 e3).lo ∧
            (msViewOf g s kvps2 w3 e3).hi ≤ (msViewOf g s kvps2 w2 e2).hi := by
          rw [msView_eq, msView_eq]; simp only; omega
        have hV1 : (msViewOf g s kvps w edges).lo ≤ (msViewOf g s kvps1 w1 e1).lo ∧
            (msViewOf g s kvps1 w1 e1).hi ≤ (msViewOf g s kvps w edges).hi := by
          rw [msView_eq, msView_eq]; simp only; omega
        -- the final interval is a single value
        have hdef3 : (msViewOf g s kvps2 w3 e3).lo = (msViewOf g s kvps2 w3 e3).hi := by
          rw [msView_eq]
          simp only
          have hl3 : (leftIvD s w3).lo = (leftIvD s w3).hi := by simp [leftIvD, leftIv, c4, Iv.point]
          have hwm3 := wmView_wf h inv3
          rw [hwv2, hv] at u1 u2
          omega
        have hres : msTighten rec n l s kvps w edges
            = .ok (.ms l s kvps4 w4 e4, !(msViewOf g s kvps2 w3 e3 == msViewOf g s kvps1 w1 e1)) := by
          have hs' : w1.mtch.isSome = false := by simp [hnone]
          simp only [msTighten, hft, hwt, hs', hb1, asMs, hma, hb2, bind, Except.bind, pure, Except.pure]
          simp
        refine ⟨kvps4, w4, e4, _, hres, (kk.trans pk2.1).trans pk4.1, ((k1.trans pp2.1).trans k3).trans pp4.1, invm4,
          by rw [sw4.1, c1, sw2.1, a1], by rw [sw4.2.1, c2, sw2.2.1, a2], by rw [sw4.2.2.2.2.1, c3, sw2.2.2.2.2.1, a3],
          ?_, ?_, ?_, by omega, ?_, ?_, ?_⟩
        · rw [hview4]; rw [hview2] at hV3; omega
        · rw [hview4]; rw [hview2] at hV3; omega
        · simp only [msBase]; omega
        · intro _; left; simp only [msBase]; omega
        · intro _; rw [hview4]; exact hdef3
        · intro _ hr he
          rw [hview4] at he
          have hne : msViewOf g s kvps2 w3 e3 ≠ msViewOf g s kvps1 w1 e1 := by
            intro hh
            rw [hh] at hr
            simp at hr
          apply hne
          rw [hview2] at hV3
          rw [he] at hV3
          have e1' : (msViewOf g s kvps1 w1 e1).lo = (msViewOf g s kvps w edges).lo := by omega
          have e2' : (msViewOf g s kvps1 w1 e1).hi = (msViewOf g s kvps w edges).hi := by omega
          rw [he]
          cases hA : msViewOf g s kvps1 w1 e1
          cases hB : msViewOf g s kvps w edges
          rw [hA, hB] at e1' e2'
          simp only at e1' e2'
          rw [e1', e2']

end

end GtModel.Lazy

/-
  MultiSetEdit, part D: `edits()` / `on_diff` / the script dump.
-/
import GtModel.Proofs.LazyMsC
import GtModel.Proofs.LazyEdF

namespace GtModel.Lazy

attribute [-simp] List.getD_eq_getElem?_getD

section
variable {rec : Ops} {g : Ghost}

theorem scrAt_get {t : List (List M)} {p : Nat × Nat} {m : M} (h : mget t p.1 p.2 = .ok m) :
    scrAt (scrM g t) p = g.script m := scrM_get h

/-- `on_diff` on the matched edges -/
theorem onPairs_ok (h : Protocol rec g) {nf nt : Nat} : ∀ (pairs : List (Nat × Nat)) (edges : List (List M)),
    MShape edges nf nt → (∀ row ∈ edges, ∀ m ∈ row, g.I m) → (∀ p ∈ pairs, p.1 < nf ∧ p.2 < nt) →
    ∃ e', onPairs rec.onDiff edges pairs = .ok e' ∧ KeepsLL g edges e'
  | [], edges, _, hI, _ => ⟨edges, by simp [onPairs, pure, Except.pure], KeepsLL.refl edges hI⟩
  | (i, j) :: rest, edges, sh, hI, hr => by
      have hij := hr (i, j) (by simp)
      obtain ⟨m, hm⟩ := mget_ok sh hij.1 hij.2
      obtain ⟨m1, ho, k1⟩ := h.onDiff m (mget_inv hI hm)
      obtain ⟨t', hs, kk, _, _⟩ := mset_keeps hI hm k1
      obtain ⟨e', he, kk'⟩ := onPairs_ok h rest t' (kk.shape sh) kk.inv (fun p hp => hr p (by simp [hp]))
      exact ⟨e', by simp [onPairs, hm, ho, hs, he, bind, Except.bind], kk.trans kk'⟩

/-- the dump of the matched edges, in dict order -/
theorem dumpPairs_ok (h : Protocol rec g) {nf nt : Nat} : ∀ (pairs : List (Nat × Nat)) (edges : List (List M)),
    MShape edges nf nt → (∀ row ∈ edges, ∀ m ∈ row, g.I m) → (∀ p ∈ pairs, p.1 < nf ∧ p.2 < nt) →
    (∀ p ∈ pairs, (ivAt (viewM g edges) p).lo = (ivAt (viewM g edges) p).hi) →
    ∃ e', dumpPairs rec edges pairs = .ok (e', pairs.map (scrAt (scrM g edges))) ∧ KeepsLL g edges e'
  | [], edges, _, hI, _, _ => ⟨edges, by simp [dumpPairs, pure, Except.pure], KeepsLL.refl edges hI⟩
  | (i, j) :: rest, edges, sh, hI, hr, hd => by
      have hij := hr (i, j) (by simp)
      obtain ⟨m, hm, e1, _⟩ := mget_at' (g := g) (p := (i, j)) sh hij.1 hij.2
      have hdm : (g.view m).lo = (g.view m).hi := by rw [← e1]; exact hd (i, j) (by simp)
      obtain ⟨m1, hdu, k1⟩ := h.dump m (mget_inv hI hm) hdm
      obtain ⟨t', hs, kk, _, _⟩ := mset_keeps hI hm k1
      have hd' : ∀ p ∈ rest, (ivAt (viewM g t') p).lo = (ivAt (viewM g t') p).hi := by
        intro p hp
        have hp' := hr p (by simp [hp])
        obtain ⟨y, hy, ey, _⟩ := mget_at' (g := g) (p := p) (kk.shape sh) hp'.1 hp'.2
        obtain ⟨x, hx, kx⟩ := kk.get hy
        obtain ⟨x', hx', ex, _⟩ := mget_at' (g := g) (p := p) sh hp'.1 hp'.2
        rw [hx] at hx'; cases hx'
        have hdx := hd p (by simp [hp])
        rw [ex] at hdx
        rw [ey, keeps_def_view h kx hdx]
        exact hdx
      obtain ⟨e', he, kk'⟩ := dumpPairs_ok h rest t' (kk.shape sh) kk.inv (fun p hp => hr p (by simp [hp])) hd'
      refine ⟨e', ?_, kk.trans kk'⟩
      have hscr : scrM g t' = scrM g edges := kk.scripts
      simp only [dumpPairs, hm, hdu, hs, he, bind, Except.bind, pure, Except.pure, List.map_cons, hscr]
      rw [scrAt_get (p := (i, j)) hm]

/-- Σ of three well-formed intervals is a single value only if each is -/
theorem three_def {a b c a' b' c' : Nat} (h1 : a ≤ a') (h2 : b ≤ b') (h3 : c ≤ c') (h : a + b + c = a' + b' + c') :
    a = a' ∧ b = b' ∧ c = c' := by omega

/-- when the MultiSetEdit's interval is a single value, so are its parts -/
theorem msView_def_parts (h : Protocol rec g) {s : MsSt} {kvps : List M} {w : WmSt} {edges : List (List M)}
    (inv : MsInv g s kvps w edges) (hd : (msViewOf g s kvps w edges).lo = (msViewOf g s kvps w edges).hi) :
    (wmViewV w (viewM g edges)).lo = (wmViewV w (viewM g edges)).hi ∧ sumLo g kvps = sumHi g kvps := by
  have h1 := wmView_wf h inv.wm
  have h2 := sum_wf h kvps inv.kI
  have h3 := leftIv_wf s w inv.wm.ok inv.rem inv.ins inv.wm.mt
  rw [msView_eq] at hd
  simp only at hd
  have := three_def (by omega : (wmViewV w (viewM g edges)).lo ≤ (wmViewV w (viewM g edges)).hi)
    (by omega : sumLo g kvps ≤ sumHi g kvps) (by omega : (leftIvD s w).lo ≤ (leftIvD s w).hi) hd
  exact ⟨this.1, this.2.1⟩

/-- a matcher whose interval is a single value and whose matching is known has definitive matched edges -/
theorem wm_def_edges (h : Protocol rec g) {w : WmSt} {edges : List (List M)} (inv : WmInv g w edges)
    (hm : w.mtch = some w.assign) (hd : (wmViewV w (viewM g edges)).lo = (wmViewV w (viewM g edges)).hi) :
    ∀ p ∈ w.assign, (ivAt (viewM g edges) p).lo = (ivAt (viewM g edges) p).hi := by
  cases hmemo : w.memo with
  | some b => exact (inv.memo b hmemo).2
  | none =>
    apply wmForm_def_edges h inv
    simpa [wmViewV, hmemo] using hd

/-! ### ghost script / measure, and what every operation keeps -/

def msScriptOf (g : Ghost) (l : Lbl) (s : MsSt) (kvps : List M) (w : WmSt) (edges : List (List M)) : DScript :=
  .mk l.kind l.fi l.ti (Iv.point (msFinOf g s kvps w edges))
    (s.nMatch.map DScript.ofScript ++ kvps.map g.script ++ w.assign.map (scrAt (scrM g edges))
      ++ ((unmatched w.nf (w.assign.map (·.1))).map fun a =>
          DScript.mk .remove (.at (s.remIdx.getD a 0)) .none (Iv.point (s.remCosts.getD a 0)) [])
      ++ ((unmatched w.nt (w.assign.map (·.2))).map fun a =>
          DScript.mk .insert (.at (s.insIdx.getD a 0)) .none (Iv.point (s.insCosts.getD a 0)) []))

def msMuOf (g : Ghost) (s : MsSt) (kvps : List M) (w : WmSt) (edges : List (List M)) : Nat :=
  msBase g kvps w edges + ((msViewOf g s kvps w edges).hi - (msViewOf g s kvps w edges).lo)

structure MsKeeps (g : Ghost) (s : MsSt) (kvps : List M) (w : WmSt) (edges : List (List M)) (kvps' : List M)
    (w' : WmSt) (e' : List (List M)) : Prop where
  agg : Agg g kvps kvps'
  kl : KeepsLL g edges e'
  inv : MsInv g s kvps' w' e'
  nf : w'.nf = w.nf
  nt : w'.nt = w.nt
  assign : w'.assign = w.assign
  sub : (msViewOf g s kvps w edges).lo ≤ (msViewOf g s kvps' w' e').lo ∧
    (msViewOf g s kvps' w' e').hi ≤ (msViewOf g s kvps w edges).hi
  base : msBase g kvps' w' e' ≤ msBase g kvps w edges
  fuel : wmFlags w' + muLLg g e' ≤ wmFlags w + muLLg g edges

theorem agg_of_keepsL {a b : List M} (k : KeepsL g a b) : Agg g a b :=
  ⟨KeepsL.inv k, (KeepsL.sums k).2.2.1, (KeepsL.sums k).1, (KeepsL.sums k).2.1, (KeepsL.sums k).2.2.2.1,
    (KeepsL.sums k).2.2.2.2⟩

theorem MsKeeps.fin {s : MsSt} {kvps kvps' : List M} {w w' : WmSt} {e e' : List (List M)}
    (k : MsKeeps g s kvps w e kvps' w' e') : msFinOf g s kvps' w' e' = msFinOf g s kvps w e := by
  simp only [msFinOf, wmFin, k.assign, k.kl.finM, k.agg.fin, extraOf, k.nf, k.nt]

theorem MsKeeps.scr {s : MsSt} {kvps kvps' : List M} {w w' : WmSt} {e e' : List (List M)} (l : Lbl)
    (k : MsKeeps g s kvps w e kvps' w' e') : msScriptOf g l s kvps' w' e' = msScriptOf g l s kvps w e := by
  have hs : scrM g e' = scrM g e := k.kl.scripts
  simp only [msScriptOf, k.fin, k.assign, k.agg.scr, hs, k.nf, k.nt]

theorem MsKeeps.mu {s : MsSt} {kvps kvps' : List M} {w w' : WmSt} {e e' : List (List M)}
    (k : MsKeeps g s kvps w e kvps' w' e') : msMuOf g s kvps' w' e' ≤ msMuOf g s kvps w e := by
  have := k.base; have := k.sub
  simp only [msMuOf]; omega

/-- forcing the matching (as `edits()` does) -/
theorem msForce_ok (h : Protocol rec g) {s : MsSt} {kvps : List M} {w : WmSt} {edges : List (List M)}
    (inv : MsInv g s kvps w edges) :
    ∃ w' e', msForce rec w edges = .ok (w', e', w.assign) ∧ MsKeeps g s kvps w edges kvps w' e' ∧
      w'.mtch = some w.assign ∧
      (wmViewV w (viewM g edges)).lo ≤ (wmViewV w' (viewM g e')).lo ∧
      (wmViewV w' (viewM g e')).hi ≤ (wmViewV w (viewM g edges)).hi := by
  obtain ⟨w1, e1, hma, k1, inv1, c1, c2, c3, c4, c5, u1, u2, fl, _⟩ := wmMatching_ok h inv.wm
  have hleft := leftIv_shrink s inv.wm.ok inv.rem inv.ins inv.wm.mt inv1.mt c1 c2 c3
    (by intro pairs hp; rw [c4, inv.wm.mt pairs hp])
  have hmu := k1.mu
  refine ⟨w1, e1, by simp [msForce, hma, c4, bind, Except.bind, pure, Except.pure],
    ⟨Agg.refl kvps inv.kI, k1, inv.wm' inv1 inv.kI c1 c2, c1, c2, c3, ?_, ?_, by omega⟩, c4, u1, u2⟩
  · rw [msView_eq, msView_eq]; simp only; omega
  · simp only [msBase]; omega

theorem MsKeeps.trans {s : MsSt} {k1 k2 k3 : List M} {w1 w2 w3 : WmSt} {e1 e2 e3 : List (List M)}
    (a : MsKeeps g s k1 w1 e1 k2 w2 e2) (b : MsKeeps g s k2 w2 e2 k3 w3 e3) : MsKeeps g s k1 w1 e1 k3 w3 e3 :=
  ⟨a.agg.trans b.agg, a.kl.trans b.kl, b.inv, b.nf.trans a.nf, b.nt.trans a.nt, b.assign.trans a.assign,
    ⟨Nat.le_trans a.sub.1 b.sub.1, Nat.le_trans b.sub.2 a.sub.2⟩, Nat.le_trans b.base a.base,
    Nat.le_trans b.fuel a.fuel⟩

/-- refinements of the key/value edits and the edges with the same control state -/
theorem MsKeeps.ofParts (h : Protocol rec g) {s : MsSt} {kvps kvps' : List M} {w : WmSt} {e e' : List (List M)}
    (inv : MsInv g s kvps w e) (ag : Agg g kvps kvps') (kl : KeepsLL g e e') : MsKeeps g s kvps w e kvps' w e' := by
  have hv := wmView_mono inv.wm kl
  have hmu := kl.mu
  refine ⟨ag, kl, inv.wm' (inv.wm.keeps h kl) ag.inv rfl rfl, rfl, rfl, rfl, ?_, ?_, by omega⟩
  · rw [msView_eq, msView_eq]; simp only; have := ag.lo; have := ag.hi; omega
  · simp only [msBase]; have := ag.mu; omega

/-- `on_diff` of a MultiSetEdit -/
theorem msOnDiff_ok (h : Protocol rec g) (q : Bool) (n : Nat) (l : Lbl) {s : MsSt} {kvps : List M} {w : WmSt}
    {edges : List (List M)} (inv : MsInv g s kvps w edges) :
    ∃ kvps' w' e', onDiffB rec q n (.ms l s kvps w edges) = .ok (.ms l s kvps' w' e') ∧
      MsKeeps g s kvps w edges kvps' w' e' := by
  obtain ⟨k1, hk, ag⟩ := mapOnDiff_ok h kvps inv.kI
  obtain ⟨w1, e1, hf, mk1, _, _, _⟩ := msForce_ok h inv
  have hin : ∀ p ∈ w.assign, p.1 < w1.nf ∧ p.2 < w1.nt := by
    intro p hp; rw [mk1.nf, mk1.nt]; exact inv.wm.ok.inRange p hp
  obtain ⟨e2, ho, k2⟩ := onPairs_ok h w.assign e1 mk1.inv.wm.shape mk1.inv.wm.edgesI hin
  refine ⟨k1, w1, e2, by simp [onDiffB, hk, hf, ho, bind, Except.bind, pure, Except.pure], ?_⟩
  exact mk1.trans (MsKeeps.ofParts h mk1.inv ag k2)

theorem iv_point_of {v : Iv} {f : Nat} (h1 : v.lo ≤ f) (h2 : f ≤ v.hi) (hd : v.lo = v.hi) : v = Iv.point f := by
  cases v
  simp only [Iv.point, Iv.mk.injEq] at *
  omega

/-- the script dump of a MultiSetEdit whose interval is a single value -/
theorem msDump_ok (h : Protocol rec g) (q : Bool) (n : Nat) (l : Lbl) {s : MsSt} {kvps : List M} {w : WmSt}
    {edges : List (List M)} (inv : MsInv g s kvps w edges)
    (hd : (msViewOf g s kvps w edges).lo = (msViewOf g s kvps w edges).hi) :
    ∃ kvps' w' e', dumpB (fun x => boundsB rec n x) rec q n (.ms l s kvps w edges)
        = .ok (.ms l s kvps' w' e', msScriptOf g l s kvps w edges) ∧ MsKeeps g s kvps w edges kvps' w' e' := by
  obtain ⟨hwd, hkd⟩ := msView_def_parts h inv hd
  have hkdef := all_definitive h kvps inv.kI hkd
  obtain ⟨k1, hk, ag, _, _⟩ := dumpList_ok h kvps inv.kI hkdef
  obtain ⟨w1, e1, hf, mk1, hmt1, u1, u2⟩ := msForce_ok h inv
  have hwf1 := wmView_wf h mk1.inv.wm
  have hwd1 : (wmViewV w1 (viewM g e1)).lo = (wmViewV w1 (viewM g e1)).hi := by omega
  have hmt1' : w1.mtch = some w1.assign := by rw [hmt1, mk1.assign]
  have hedef := wm_def_edges h mk1.inv.wm hmt1' hwd1
  rw [mk1.assign] at hedef
  have hin : ∀ p ∈ w.assign, p.1 < w1.nf ∧ p.2 < w1.nt := by
    intro p hp; rw [mk1.nf, mk1.nt]; exact inv.wm.ok.inRange p hp
  obtain ⟨e2, hdp, k2⟩ := dumpPairs_ok h w.assign e1 mk1.inv.wm.shape mk1.inv.wm.edgesI hin hedef
  have mk2 : MsKeeps g s kvps w edges k1 w1 e2 := mk1.trans (MsKeeps.ofParts h mk1.inv ag k2)
  obtain ⟨k3, w3, e3, hb, pk3, pp3, inv3, sw3, hv3, _, _⟩ := msBounds_ok h l mk2.inv
  have mk3 : MsKeeps g s kvps w edges k3 w3 e3 := by
    have h1 := (KeepsL.sums pk3.1).2.2.2.1
    have h2 := pp3.1.mu
    have h3 := wmFlags_same sw3
    exact mk2.trans ⟨agg_of_keepsL pk3.1, pp3.1, inv3, sw3.1, sw3.2.1, sw3.2.2.2.2.1,
      by rw [hv3]; exact ⟨Nat.le_refl _, Nat.le_refl _⟩, by simp only [msBase]; omega, by omega⟩
  refine ⟨k3, w3, e3, ?_, mk3⟩
  -- the dumped interval is the final cost
  have hwf2 := msView_wf h mk2.inv
  have hfin2 := mk2.fin
  have hsub2 := mk2.sub
  have hpt : msViewOf g s k1 w1 e2 = Iv.point (msFinOf g s kvps w edges) := by
    apply iv_point_of <;> omega
  have hscr1 : scrM g e1 = scrM g edges := mk1.kl.scripts
  simp only [dumpB, hk, hf, hdp, bind, Except.bind, pure, Except.pure, boundsB, hb, hpt, msScriptOf, mk1.nf, mk1.nt, hscr1]

/-- `edits()` at the root: the class names of the sub-edits -/
theorem msEdits_ok (h : Protocol rec g) (q : Bool) (n : Nat) (l : Lbl) {s : MsSt} {kvps : List M} {w : WmSt}
    {edges : List (List M)} (inv : MsInv g s kvps w edges) :
    ∃ w' e' names, editsOp rec q n (.ms l s kvps w edges) = .ok (.ms l s kvps w' e', names) ∧
      MsKeeps g s kvps w edges kvps w' e' := by
  obtain ⟨w1, e1, hf, mk1, _, _, _⟩ := msForce_ok h inv
  have key : ∀ (pairs : List (Nat × Nat)), (∀ p ∈ pairs, p.1 < w1.nf ∧ p.2 < w1.nt) →
      ∃ ns, pairs.mapM (edgeName e1) = (.ok ns : R (List String)) := by
    intro pairs
    induction pairs with
    | nil => intro _; exact ⟨[], rfl⟩
    | cons p ps ih =>
      intro hr
      have hij := hr p (by simp)
      obtain ⟨m, hm⟩ := mget_ok mk1.inv.wm.shape hij.1 hij.2
      obtain ⟨ns, hns⟩ := ih (fun p hp => hr p (by simp [hp]))
      have h1 : edgeName e1 p = .ok (className m) := by simp [edgeName, hm, bind, Except.bind, pure, Except.pure]
      exact ⟨className m :: ns, by simp only [List.mapM_cons, h1, hns, bind, Except.bind, pure, Except.pure]⟩
  obtain ⟨ns, hns⟩ := key w.assign (by
    intro p hp; rw [mk1.nf, mk1.nt]; exact inv.wm.ok.inRange p hp)
  refine ⟨w1, e1, some (s.nMatch.map scriptClass ++ kvps.map className ++ ns
      ++ (unmatched w1.nf (w.assign.map (·.1))).map (fun _ => "Remove")
      ++ (unmatched w1.nt (w.assign.map (·.2))).map (fun _ => "Insert")), ?_, mk1⟩
  simp only [editsOp, hf, hns, bind, Except.bind, pure, Except.pure]

end

end GtModel.Lazy

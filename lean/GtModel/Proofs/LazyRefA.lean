/-
  L3 → L2, the EditDistance part: the back-trace `ptrace` of the lazy machine is the located script of L2's
  `EditMatrix.solve` (positions shifted from "before the move" to "after the move").
-/
import GtModel.Proofs.LazyMkC

namespace GtModel.Lazy
open GtModel.EditMatrix (Cell Move step spec goLeft goUp goDiag cellAt origin located positionsFrom endPos solve
  step_cases)

/-- `(move, position before)` ↦ `(move, position after)` -/
def afterMv (x : Move × Nat × Nat) : Move × Nat × Nat :=
  (x.1, (Move.next x.2.1 x.2.2 x.1).1, (Move.next x.2.1 x.2.2 x.1).2)

theorem positionsFrom_append (r c : Nat) (ms : List Move) (mv : Move) :
    positionsFrom r c (ms ++ [mv]) = positionsFrom r c ms ++ [endPos r c ms] := by
  induction ms generalizing r c with
  | nil => rfl
  | cons m ms ih => simp [positionsFrom, endPos, ih]

theorem located_append (ms : List Move) (mv : Move) :
    located (ms ++ [mv]) = located ms ++ [(mv, endPos 0 0 ms)] := by
  simp only [located, positionsFrom_append]
  rw [List.zip_append (by simp [EditMatrix.positionsFrom_length])]
  rfl

section
variable (s : EdSt) (fm : List (List Nat))

theorem ptrace_located : ∀ (n r c : Nat), r + c = n → ∀ k, n ≤ k →
    (ptrace s fm k r c).reverse = (located (edT s fm r c).script.reverse).map afterMv := by
  intro n
  induction n using Nat.strongRecOn with
  | _ n ih =>
    intro r c hn k hk
    match r, c, hn with
    | 0, 0, _ =>
      cases k <;> simp [ptrace, edT, spec, located, positionsFrom]
    | 0, c + 1, hn =>
      cases k with
      | zero => omega
      | succ k =>
        have e : (edT s fm 0 (c + 1)).script = .left :: (edT s fm 0 c).script := by
          simp only [edT]; rw [spec.eq_2]; rfl
        have hm : moveAt s fm 0 (c + 1) = .left := by simp [moveAt]
        have := ih c (by omega) 0 c (by omega) k (by omega)
        simp only [ptrace, hm, predOf, Nat.add_sub_cancel]
        simp only [beq_self_eq_true, Nat.add_eq_zero_iff, Nat.succ_ne_zero, and_false, decide_false, Bool.and_false,
          Bool.false_eq_true, if_false, List.reverse_cons, this, e, located_append, List.map_append, List.map_cons,
          List.map_nil]
        have hp := EditMatrix.spec_endPos s.rem s.ins fm 0 c
        simp only [edT] at hp ⊢
        rw [hp]
        simp [afterMv, Move.next] <;> exact this
    | r + 1, 0, hn =>
      cases k with
      | zero => omega
      | succ k =>
        have e : (edT s fm (r + 1) 0).script = .up :: (edT s fm r 0).script := by
          simp only [edT]; rw [spec.eq_3]; rfl
        have hm : moveAt s fm (r + 1) 0 = .up := by simp [moveAt]
        have := ih r (by omega) r 0 (by omega) k (by omega)
        simp only [ptrace, hm, predOf, Nat.add_sub_cancel]
        simp only [Nat.add_eq_zero_iff, Nat.succ_ne_zero, and_false, beq_iff_eq, decide_false, Bool.false_and,
          Bool.false_eq_true, if_false, List.reverse_cons, this, e, located_append, List.map_append, List.map_cons,
          List.map_nil]
        have hp := EditMatrix.spec_endPos s.rem s.ins fm r 0
        simp only [edT] at hp ⊢
        rw [hp]
        simp [afterMv, Move.next] <;> exact this
    | r + 1, c + 1, hn =>
      cases k with
      | zero => omega
      | succ k =>
        have hm0 : moveAt s fm (r + 1) (c + 1) = (edT s fm (r + 1) (c + 1)).script.headD .left := by simp [moveAt]
        have hspec : edT s fm (r + 1) (c + 1) = step (s.ins.getD r 0) (s.rem.getD c 0) (cellAt fm r c)
            (edT s fm r c) (edT s fm (r + 1) c) (edT s fm r (c + 1)) := by
          simp only [edT]; rw [spec.eq_4]
        rcases step_cases (s.ins.getD r 0) (s.rem.getD c 0) (cellAt fm r c) (edT s fm r c) (edT s fm (r + 1) c)
          (edT s fm r (c + 1)) with ⟨h, _, _⟩ | h | h
        · have e : (edT s fm (r + 1) (c + 1)).script = .diag :: (edT s fm r c).script := by rw [hspec, h]; rfl
          have hm : moveAt s fm (r + 1) (c + 1) = .diag := by rw [hm0, e]; rfl
          have := ih (r + c) (by omega) r c rfl k (by omega)
          have hp := EditMatrix.spec_endPos s.rem s.ins fm r c
          simp only [ptrace, hm, predOf, Nat.add_sub_cancel]
          simp only [Nat.add_eq_zero_iff, Nat.succ_ne_zero, and_false, beq_iff_eq, decide_false, Bool.false_and,
            Bool.false_eq_true, if_false, List.reverse_cons, this, e, located_append, List.map_append, List.map_cons,
            List.map_nil]
          simp only [edT] at hp ⊢
          rw [hp]
          simp [afterMv, Move.next] <;> exact this
        · have e : (edT s fm (r + 1) (c + 1)).script = .up :: (edT s fm r (c + 1)).script := by rw [hspec, h]; rfl
          have hm : moveAt s fm (r + 1) (c + 1) = .up := by rw [hm0, e]; rfl
          have := ih (r + (c + 1)) (by omega) r (c + 1) rfl k (by omega)
          have hp := EditMatrix.spec_endPos s.rem s.ins fm r (c + 1)
          simp only [ptrace, hm, predOf, Nat.add_sub_cancel]
          simp only [Nat.add_eq_zero_iff, Nat.succ_ne_zero, and_false, beq_iff_eq, decide_false, Bool.false_and,
            Bool.false_eq_true, if_false, List.reverse_cons, this, e, located_append, List.map_append, List.map_cons,
            List.map_nil]
          simp only [edT] at hp ⊢
          rw [hp]
          simp [afterMv, Move.next] <;> exact this
        · have e : (edT s fm (r + 1) (c + 1)).script = .left :: (edT s fm (r + 1) c).script := by rw [hspec, h]; rfl
          have hm : moveAt s fm (r + 1) (c + 1) = .left := by rw [hm0, e]; rfl
          have := ih (r + 1 + c) (by omega) (r + 1) c rfl k (by omega)
          have hp := EditMatrix.spec_endPos s.rem s.ins fm (r + 1) c
          simp only [ptrace, hm, predOf, Nat.add_sub_cancel]
          simp only [Nat.add_eq_zero_iff, Nat.succ_ne_zero, and_false, beq_iff_eq, decide_false, Bool.false_and,
            Bool.false_eq_true, if_false, List.reverse_cons, this, e, located_append, List.map_append, List.map_cons,
            List.map_nil]
          simp only [edT] at hp ⊢
          rw [hp]
          simp [afterMv, Move.next] <;> exact this
  
/-- the cached back-trace, reversed, is L2's located script -/
theorem ptrace_solve :
    (ptrace s fm (s.nt + s.nf + 1) s.nt s.nf).reverse = (located (solve s.rem s.ins fm).2).map afterMv := by
  rw [ptrace_located s fm (s.nt + s.nf) s.nt s.nf rfl _ (Nat.le_succ _)]
  simp only [solve, EditMatrix.corner_eq_spec, edT, EdSt.nt, EdSt.nf]

/-- the dump of one located move `(move, position before)` -/
def edItem (scr : List (List DScript)) (x : Move × Nat × Nat) : DScript :=
  match x.1 with
  | .diag => (scr.getD x.2.1 []).getD x.2.2 default
  | .up => .mk .insert (.at (x.2.1 + s.pre)) .none (Iv.point (s.ins.getD x.2.1 0)) []
  | .left => .mk .remove (.at (x.2.2 + s.pre)) .none (Iv.point (s.rem.getD x.2.2 0)) []

/-- the sub-edit scripts along L2's located script -/
theorem edPathScripts_after (scr : List (List DScript)) (l : List (Move × Nat × Nat)) :
    edPathScripts s scr (l.map afterMv) = l.map (edItem s scr) := by
  induction l with
  | nil => rfl
  | cons x xs ih =>
    obtain ⟨mv, r, c⟩ := x
    cases mv <;> simp [edPathScripts, afterMv, Move.next, ih, edItem]

end

end GtModel.Lazy

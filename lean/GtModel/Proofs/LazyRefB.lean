/-
  L3 → L2: the ghost script / final cost of the fresh machine `mkEdit` are the script / cost of L2's `edits`
  (building blocks: conversion of scripts, EditDistance, strings, key/value pairs).
-/
import GtModel.Proofs.LazyRefA

namespace GtModel.Lazy
open GtModel.EditMatrix (Cell Move middle trimLens located solve)

attribute [-simp] List.getD_eq_getElem?_getD

/-! ### L2 scripts as dump scripts -/

mutual
/-- an L2 script as the harness' dump prints it (every cost a single value) -/
def toD : Script → DScript
  | .mk k f t c subs => .mk k f t (Iv.point c) (toDL subs)
def toDL : List Script → List DScript
  | [] => []
  | s :: rest => toD s :: toDL rest
end

theorem toDL_eq_map (l : List Script) : toDL l = l.map toD := by
  induction l with
  | nil => rfl
  | cons s r ih => simp [toDL, ih]

def DScript.relabel : DScript → Ix → Ix → DScript
  | .mk k _ _ c subs, f, t => .mk k f t c subs

theorem toD_relabel (s : Script) (f t : Ix) : toD (s.relabel f t) = (toD s).relabel f t := by
  cases s; simp [Script.relabel, toD, DScript.relabel, Script.kind, Script.cost, Script.subs]

theorem scriptG_relabel (a : Ghost) (m : M) (f t : Ix) (h : isAtom m = false) :
    scriptG a (m.relabel f t) = (scriptG a m).relabel f t := by
  cases m <;> simp [M.relabel, scriptG, DScript.relabel] <;> simp [isAtom] at h

theorem ofScript_eq_toD (s : Script) (h : s.subs = []) : DScript.ofScript s = toD s := by
  cases s; simp [Script.subs] at h; subst h; simp [DScript.ofScript, toD, toDL]

theorem scriptL_eq_map (a : Ghost) (ms : List M) : scriptL a ms = ms.map (scriptG a) := by
  induction ms with
  | nil => rfl
  | cons m ms ih => simp [scriptL, ih]

theorem finL_eq_sum (a : Ghost) (ms : List M) : finL a ms = (ms.map (finG a)).sum := by
  induction ms with
  | nil => rfl
  | cons m ms ih => simp [finL, ih]

theorem finRow_eq_map (a : Ghost) (ms : List M) : finRow a ms = ms.map (finG a) := by
  induction ms with
  | nil => rfl
  | cons m ms ih => simp [finRow, ih]

theorem finLL_eq_map (a : Ghost) (cells : List (List M)) : finLL a cells = cells.map (·.map (finG a)) := by
  induction cells with
  | nil => rfl
  | cons r rs ih => simp [finLL, ih, finRow_eq_map]

theorem scriptLL_eq_map (a : Ghost) (cells : List (List M)) : scriptLL a cells = cells.map (·.map (scriptG a)) := by
  induction cells with
  | nil => rfl
  | cons r rs ih => simp [scriptLL, ih, scriptL_eq_map]

/-- the machine refines the L2 script -/
structure RefP (a : Ghost) (m : M) (sc : Script) : Prop where
  na : isAtom m = false
  scr : scriptG a m = toD sc
  fin : finG a m = sc.cost

theorem RefP.relabel {a : Ghost} {m : M} {sc : Script} (h : RefP a m sc) (f t : Ix) :
    RefP a (m.relabel f t) (sc.relabel f t) :=
  ⟨by rw [isAtom_relabel]; exact h.na, by rw [scriptG_relabel a m f t h.na, toD_relabel, h.scr],
    by rw [finG_relabel a m f t h.na, h.fin]; rfl⟩

theorem RefP.ofLeaf (a : Ghost) (s : Script) (h : s.subs = []) : RefP a (ofLeafScript s) s := by
  refine ⟨rfl, ?_, rfl⟩
  cases s
  simp [Script.subs] at h; subst h
  simp [ofLeafScript, scriptG, toD, toDL, Script.kind, Script.fi, Script.ti, Script.cost]

theorem RefP.const (a : Ghost) (c : Nat) : RefP a (mkConst .match_ c) (mkMatch c) :=
  ⟨rfl, by simp [mkConst, scriptG, mkMatch, toD, toDL], rfl⟩

/-! ### EditDistance -/

section
variable (a : Ghost) (s : EdSt) (cells : List (List M))

theorem located_in_range (fm : List (List Nat)) : ∀ x ∈ located (solve s.rem s.ins fm).2,
    (x.1 = .diag → x.2.1 < s.nt ∧ x.2.2 < s.nf) ∧ (x.1 = .up → x.2.1 < s.nt) ∧ (x.1 = .left → x.2.2 < s.nf) := by
  intro x hx
  have hv := ptrace_valid s fm (s.nt + s.nf + 1) s.nt s.nf (Nat.le_refl _) (Nat.le_refl _)
  have hm : afterMv x ∈ (ptrace s fm (s.nt + s.nf + 1) s.nt s.nf) := by
    rw [← List.mem_reverse, ptrace_solve]
    exact List.mem_map_of_mem hx
  have := hv _ hm
  obtain ⟨mv, r, c⟩ := x
  cases mv <;> simp [afterMv, Move.next] at this ⊢ <;> omega

/-- the ghost script of an EditDistance in terms of L2's `solve` -/
theorem ed_script (l : Lbl) :
    scriptG a (.ed l s cells) =
      .mk l.kind l.fi l.ti (Iv.point (solve s.rem s.ins (finLL a cells)).1)
        (matchesFrom 0 0 s.pre
          ++ (located (solve s.rem s.ins (finLL a cells)).2).map (edItem s (scriptLL a cells))
          ++ matchesFrom (s.flen - s.suf) (s.tlen - s.suf) s.suf) := by
  simp only [scriptG]
  rw [ptrace_solve, edPathScripts_after, edFin_eq_solve]

/-- L2's script of one located move -/
def l2Item (D : Nat → Nat → Script) (szT szF : Nat → Nat) (pre pen : Nat) (x : Move × Nat × Nat) : Script :=
  match x.1 with
  | .diag => D x.2.1 x.2.2
  | .up => GtModel.mkInsert (x.2.1 + pre) (szT x.2.1) pen
  | .left => GtModel.mkRemove (x.2.2 + pre) (szF x.2.2) pen

/-- the ghost script of an EditDistance is the dump of L2's `pre ++ mid ++ suf` -/
theorem ed_toD (l : Lbl) (D : Nat → Nat → Script) (szT szF : Nat → Nat) (pen : Nat)
    (hD : ∀ r c, r < s.nt → c < s.nf → ((scriptLL a cells).getD r []).getD c default = toD (D r c))
    (hins : ∀ r, r < s.nt → s.ins.getD r 0 = szT r + pen)
    (hrem : ∀ c, c < s.nf → s.rem.getD c 0 = szF c + pen) :
    scriptG a (.ed l s cells) =
      .mk l.kind l.fi l.ti (Iv.point (solve s.rem s.ins (finLL a cells)).1)
        (toDL ((List.range s.pre).map (fun k => (mkMatch 0).relabel (.at k) (.at k))
          ++ (located (solve s.rem s.ins (finLL a cells)).2).map (l2Item D szT szF s.pre pen)
          ++ (List.range s.suf).map (fun k =>
              (mkMatch 0).relabel (.at (s.flen - s.suf + k)) (.at (s.tlen - s.suf + k))))) := by
  rw [ed_script, toDL_eq_map, List.map_append, List.map_append, List.map_map, List.map_map, List.map_map]
  have e1 : matchesFrom 0 0 s.pre = List.map (toD ∘ fun k => (mkMatch 0).relabel (.at k) (.at k)) (List.range s.pre) := by
    simp only [matchesFrom]
    apply List.map_congr_left
    intro k _
    simp [Function.comp, mkMatch, Script.relabel, toD, toDL, Script.kind, Script.cost, Script.subs]
  have e2 : matchesFrom (s.flen - s.suf) (s.tlen - s.suf) s.suf = List.map (toD ∘ fun k =>
      (mkMatch 0).relabel (.at (s.flen - s.suf + k)) (.at (s.tlen - s.suf + k))) (List.range s.suf) := by
    simp only [matchesFrom]
    apply List.map_congr_left
    intro k _
    simp [Function.comp, mkMatch, Script.relabel, toD, toDL, Script.kind, Script.cost, Script.subs]
  have e3 : (located (solve s.rem s.ins (finLL a cells)).2).map (edItem s (scriptLL a cells))
      = (located (solve s.rem s.ins (finLL a cells)).2).map (toD ∘ l2Item D szT szF s.pre pen) := by
    apply List.map_congr_left
    intro x hx
    obtain ⟨h1, h2, h3⟩ := located_in_range s (finLL a cells) x hx
    obtain ⟨mv, r, c⟩ := x
    cases mv
    · obtain ⟨hr, hc⟩ := h1 rfl
      simp only [edItem, Function.comp, l2Item]
      exact hD r c hr hc
    · have hr := h2 rfl
      simp only [edItem, Function.comp, l2Item, GtModel.mkInsert, toD, toDL, hins r hr]
    · have hc := h3 rfl
      simp only [edItem, Function.comp, l2Item, GtModel.mkRemove, toD, toDL, hrem c hc]
  rw [e1, e2, e3]

end


/-! ### strings -/

theorem zipIdx_map_fst {α β : Type} (l : List α) (g : α → β) (k : Nat) :
    (l.zipIdx k).map (fun p => g p.1) = l.map g := by
  induction l generalizing k with
  | nil => rfl
  | cons x xs ih => simp [List.zipIdx_cons, ih]

theorem getD_map_range {β : Type} (n : Nat) (g : Nat → β) (d : β) (i : Nat) (h : i < n) :
    ((List.range n).map g).getD i d = g i := by
  simp [List.getD_eq_getElem?_getD, h]

/-- the character cells of a string edit, positionally -/
def strCells (u v : Str) : List (List M) :=
  let ps := trimLens u v
  (List.range (middle v ps).length).map fun r => (List.range (middle u ps).length).map fun c =>
    M.const { kind := .match_, fi := .at (c + ps.1), ti := .at (r + ps.1) }
      (if (middle u ps).getD c 0 == (middle v ps).getD r 0 then 0 else 1)

theorem strCells_eq (u v : Str) :
    ((middle v (trimLens u v)).zipIdx.map fun (y, r) => (middle u (trimLens u v)).zipIdx.map fun (x, c) =>
      M.const { kind := .match_, fi := .at (c + (trimLens u v).1), ti := .at (r + (trimLens u v).1) }
        (if x == y then 0 else 1)) = strCells u v := by
  simp only [strCells]
  rw [zipIdx_eq_map_range (middle v (trimLens u v)) 0, List.map_map]
  apply List.map_congr_left
  intro r _
  simp only [Function.comp]
  rw [zipIdx_eq_map_range (middle u (trimLens u v)) 0, List.map_map]
  rfl

theorem ones_eq (u : Str) (ps : Nat × Nat) :
    (middle (u.map fun _ => 1) ps).map (· + 0) = EditMatrix.ones (middle u ps) := by
  rw [middle_map, List.map_map]
  rfl

theorem scriptG_str (a : Ghost) (l : Lbl) (e : M) :
    scriptG a (.str l e) = .mk l.kind l.fi l.ti (Iv.point (finG a e)) (scriptG a e).subs := by
  simp [scriptG]

theorem mkStr_refines (a : Ghost) (u v : Str) : RefP a (mkStr u v) (strEdits u v) := by
  by_cases h1 : (u == v) = true
  · simp only [mkStr, strEdits, h1, if_true]
    exact RefP.const a 0
  · by_cases h2 : (u.length == 1 && v.length == 1) = true
    · simp only [mkStr, strEdits, h1, h2, if_true, if_false]
      exact RefP.const a 1
    · simp only [mkStr, strEdits, h1, h2, if_false]
      rw [strCells_eq]
      have hs : ∀ (s : EdSt), s = edInit (trimLens u v) (u.map fun _ => 1) (v.map fun _ => 1) 0 →
          RefP a (.str { kind := .str } (.ed { kind := .ed } s (strCells u v)))
            (.mk .str .none .none (strSubs u v).2 (strSubs u v).1) := by
        intro s hs
        have hrem : s.rem = EditMatrix.ones (middle u (trimLens u v)) := by rw [hs, edInit_rem, ones_eq]
        have hins : s.ins = EditMatrix.ones (middle v (trimLens u v)) := by rw [hs, edInit_ins, ones_eq]
        have hnf : s.nf = (middle u (trimLens u v)).length := by simp [EdSt.nf, hrem, EditMatrix.ones]
        have hnt : s.nt = (middle v (trimLens u v)).length := by simp [EdSt.nt, hins, EditMatrix.ones]
        have hfm : finLL a (strCells u v) = EditMatrix.charCells (middle u (trimLens u v)) (middle v (trimLens u v)) := by
          rw [finLL_eq_map]
          simp only [strCells, List.map_map, EditMatrix.charCells]
          have e1 := map_getD_range (middle v (trimLens u v)) 0
          have e2 := map_getD_range (middle u (trimLens u v)) 0
          conv => rhs; rw [← e1]
          rw [List.map_map]
          apply List.map_congr_left
          intro r _
          simp only [Function.comp]
          conv => rhs; rw [← e2]
          simp only [List.map_map]
          apply List.map_congr_left
          intro c _
          simp [Function.comp, finG]
        have hed := ed_toD a s (strCells u v) { kind := .ed }
          (fun r c => (mkMatch (if (middle u (trimLens u v)).getD c 0 == (middle v (trimLens u v)).getD r 0 then 0 else 1)).relabel
            (.at (c + (trimLens u v).1)) (.at (r + (trimLens u v).1)))
          (fun _ => 1) (fun _ => 1) 0
          (by
            intro r c hr hc
            rw [hnt] at hr; rw [hnf] at hc
            rw [scriptLL_eq_map]
            simp only [strCells, List.map_map]
            rw [getD_map_range _ _ _ _ hr, Function.comp, List.map_map, getD_map_range _ _ _ _ hc]
            simp [Function.comp, scriptG, mkMatch, Script.relabel, toD, toDL, Script.kind, Script.cost, Script.subs])
          (by
            intro r hr
            rw [hnt] at hr
            rw [hins]
            simp [EditMatrix.ones, List.getD_eq_getElem?_getD, hr])
          (by
            intro c hc
            rw [hnf] at hc
            rw [hrem]
            simp [EditMatrix.ones, List.getD_eq_getElem?_getD, hc])
        refine ⟨rfl, ?_, ?_⟩
        · rw [scriptG_str, hed]
          simp only [DScript.subs, finG, edFin_eq_solve, toD]
          rw [hrem, hins, hfm]
          have hpre : s.pre = (trimLens u v).1 := by rw [hs]; rfl
          have hsuf : s.suf = (trimLens u v).2 := by rw [hs]; rfl
          have hfl : s.flen = u.length := by rw [hs]; simp [edInit]
          have htl : s.tlen = v.length := by rw [hs]; simp [edInit]
          rw [hpre, hsuf, hfl, htl]
          simp only [strSubs]
          congr 3
        · simp only [finG, edFin_eq_solve, Script.cost_mk]
          rw [hrem, hins, hfm]
          rfl
      exact hs _ rfl

/-- lists of machines against lists of scripts, element-wise -/
theorem refL {ι : Type} (a : Ghost) (l : List ι) (Mf : ι → M) (Sf : ι → Script) (h : ∀ x ∈ l, RefP a (Mf x) (Sf x)) :
    scriptL a (l.map Mf) = toDL (l.map Sf) ∧ finL a (l.map Mf) = sumCosts (l.map Sf) := by
  induction l with
  | nil => exact ⟨rfl, rfl⟩
  | cons x xs ih =>
    have hx := h x (by simp)
    obtain ⟨i1, i2⟩ := ih (fun y hy => h y (by simp [hy]))
    exact ⟨by simp only [List.map_cons, scriptL, toDL, hx.scr, i1],
      by simp only [List.map_cons, finL, sumCosts_cons, hx.fin, i2]⟩

theorem tail_toD (l : List Script) (h : ∀ s ∈ l, s.subs = []) : l.map DScript.ofScript = toDL l := by
  rw [toDL_eq_map]
  apply List.map_congr_left
  intro s hs
  exact ofScript_eq_toD s (h s hs)

theorem mkKvp_refines (a : Ghost) (fk tk : Str) (veq : Bool) (ve : M) (sc : Script) (h : RefP a ve sc) :
    RefP a (mkKvp fk tk veq ve) (kvpScript fk tk veq sc) := by
  have hk : RefP a (if fk == tk then mkConst .match_ 0 else mkStr fk tk) (if fk == tk then mkMatch 0 else strEdits fk tk) := by
    split
    · exact RefP.const a 0
    · exact mkStr_refines a fk tk
  have hv : RefP a (if veq then mkConst .match_ 0 else ve) (if veq then mkMatch 0 else sc) := by
    split
    · exact RefP.const a 0
    · exact h
  have hk' := hk.relabel (.at 0) (.at 0)
  have hv' := hv.relabel (.at 1) (.at 1)
  refine ⟨rfl, ?_, ?_⟩
  · simp only [mkKvp, kvpScript, scriptG, mkCompound, toD, toDL, hk'.scr, hv'.scr, hk'.fin, hv'.fin, sumCosts_cons,
      sumCosts_nil, Nat.add_zero]
  · simp only [mkKvp, kvpScript, finG, mkCompound, Script.cost_mk, hk'.fin, hv'.fin, sumCosts_cons, sumCosts_nil,
      Nat.add_zero]

end GtModel.Lazy

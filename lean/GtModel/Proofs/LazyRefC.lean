/-
  L3 → L2: `mkEdit_refines` — on the fragment without MultiSetEdit the ghost script and the final cost of the fresh
  machine `mkEdit o orc fp tp f t` are the script and the cost of L2's `edits o orc.assign fp tp f t`.
-/
import GtModel.Proofs.LazyRefD

namespace GtModel.Lazy
open GtModel.EditMatrix (Cell Move middle trimLens located solve)

attribute [-simp] List.getD_eq_getElem?_getD

theorem leafEdits_subs (x : Scalar) (t : Tree) (hs : ¬ ∃ u v, x = .str u ∧ t = .leaf (.str v)) :
    (leafEdits x t).subs = [] := by
  cases x with
  | str u =>
    cases t with
    | leaf y =>
      cases y with
      | str v => exact absurd ⟨u, v, rfl, rfl⟩ hs
      | _ => simp [leafEdits, leafLeaf]
    | _ => simp [leafEdits]
  | null =>
    cases t with
    | leaf y => cases y <;> simp [leafEdits]
    | _ => simp [leafEdits]
  | _ =>
    cases t with
    | leaf y => cases y <;> simp [leafEdits, leafLeaf]
    | _ => simp [leafEdits]

theorem mkLeaf_refines (a : Ghost) (x : Scalar) (t : Tree) : RefP a (mkLeaf x t) (leafEdits x t) := by
  by_cases hs : ∃ u v, x = .str u ∧ t = .leaf (.str v)
  · obtain ⟨u, v, rfl, rfl⟩ := hs
    simpa [mkLeaf, leafEdits] using mkStr_refines a u v
  · have e : mkLeaf x t = ofLeafScript (leafEdits x t) := by
      unfold mkLeaf
      split
      · exact absurd ⟨_, _, rfl, rfl⟩ hs
      · rfl
    rw [e]
    exact RefP.ofLeaf a _ (leafEdits_subs x t hs)

theorem getD_eq_getElem' {α : Type} (l : List α) (d : α) (i : Nat) (h : i < l.length) : l.getD i d = l[i] := by
  simp [List.getD_eq_getElem?_getD, h]

theorem kvTbl_getD' (o : Opts) (orc : Oracle) (fp tp : List Nat) (fkv tkv : List (Str × Tree)) (i j : Nat) (d : Script) :
    ((kvTbl o orc fp tp fkv tkv).getD i []).getD j d =
      if i < fkv.length ∧ j < tkv.length then
        edits o orc (fp ++ [i, 1]) (tp ++ [j, 1]) (fkv.getD i dkv).2 (tkv.getD j dkv).2
      else d := by
  by_cases hi : i < fkv.length
  · by_cases hj : j < tkv.length
    · simp [kvTbl, List.getD_eq_getElem?_getD, hi, hj]
    · have : tkv.length ≤ j := by omega
      simp [kvTbl, List.getD_eq_getElem?_getD, hi, hj, this]
  · have : fkv.length ≤ i := by omega
    simp [kvTbl, List.getD_eq_getElem?_getD, hi, this]

/-- the main refinement: for EVERY pair of trees the fresh machine refines L2's `edits` -/
theorem mkEdit_refines (a : Ghost) (o : Opts) (orc : Orc) :
    ∀ (f t : Tree) (fp tp : List Nat),
      RefP a (mkEdit o orc fp tp f t) (edits o orc.assign fp tp f t) := by
  intro f
  induction f using Tree.ind with
  | leaf x =>
    intro t fp tp
    rw [mkEdit_leaf, edits_leaf]
    exact mkLeaf_refines a x t
  | list fcs ih =>
    intro t fp tp
    cases t with
    | list tcs =>
      rw [mkEdit_list_list, edits_list_list]
      split
      · exact RefP.const a 0
      · split
        · -- FixedLengthSequenceEdit
          rw [fixedPairs_eq]
          have nmin : Nat.min fcs.length tcs.length = min fcs.length tcs.length := rfl
          have key := refL a (List.range (Nat.min fcs.length tcs.length))
            (fun i => (mkEdit o orc (fp ++ [i]) (tp ++ [i]) (fcs.getD i dT) (tcs.getD i dT)).relabel (.at i) (.at i))
            (fun i => (((listTbl o orc.assign fp tp fcs tcs).getD i []).getD i (mkMatch 0)).relabel (.at i) (.at i))
            (by
              intro i hi
              have hi := List.mem_range.mp hi
              rw [nmin] at hi
              have h1 : i < fcs.length := by omega
              have h2 : i < tcs.length := by omega
              rw [listTbl_getD _ _ _ _ _ _ _ _ _ h1 h2, ← getD_eq_getElem' fcs dT i h1, ← getD_eq_getElem' tcs dT i h2]
              have m1 := getD_mem fcs dT i h1
              exact (ih _ m1 _ _ _).relabel _ _)
          have htail : (fixedTail fcs tcs).map DScript.ofScript = toDL (fixedTail fcs tcs) := by
            apply tail_toD
            intro s hs
            simp only [fixedTail, List.mem_append, List.mem_map] at hs
            rcases hs with ⟨k, _, rfl⟩ | ⟨k, _, rfl⟩ <;> rfl
          refine ⟨rfl, ?_, ?_⟩
          · simp only [scriptG, fixedScript, mkCompound, toD, key.1, key.2, htail]
            simp only [toDL_eq_map, fixedTail, tailCost, sumCosts, List.map_append, List.sum_append, List.append_assoc]
          · simp only [finG, fixedScript, mkCompound, Script.cost_mk, key.2]
            simp only [fixedTail, tailCost, sumCosts, List.map_append, List.sum_append, Nat.add_assoc]
        · -- EditDistance
          have hf := trim_le_left fcs tcs
          have ht := trim_le_right fcs tcs
          have hs : ∀ (s : EdSt),
              s = edInit (trimLens fcs tcs) (fcs.map Tree.size) (tcs.map Tree.size) (edPen fcs tcs) →
              RefP a (.ed { kind := .ed } s (edCells o orc fp tp fcs tcs))
                (edScript fcs tcs (edPen fcs tcs) (listTbl o orc.assign fp tp fcs tcs)) := by
            intro s hs
            have hrem : s.rem = (middle fcs (trimLens fcs tcs)).map (fun c => c.size + edPen fcs tcs) := by
              rw [hs, edInit_rem, middle_map, List.map_map]; rfl
            have hins : s.ins = (middle tcs (trimLens fcs tcs)).map (fun c => c.size + edPen fcs tcs) := by
              rw [hs, edInit_ins, middle_map, List.map_map]; rfl
            have hnf : s.nf = (middle fcs (trimLens fcs tcs)).length := by simp [EdSt.nf, hrem]
            have hnt : s.nt = (middle tcs (trimLens fcs tcs)).length := by simp [EdSt.nt, hins]
            have hnf' : s.nf = fcs.length - (trimLens fcs tcs).1 - (trimLens fcs tcs).2 := by rw [hnf, middle_len]
            have hnt' : s.nt = tcs.length - (trimLens fcs tcs).1 - (trimLens fcs tcs).2 := by rw [hnt, middle_len]
            -- every cell refines the L2 table entry
            have hcell : ∀ r c, r < s.nt → c < s.nf →
                RefP a (edCell o orc fp tp fcs tcs r c)
                  ((((listTbl o orc.assign fp tp fcs tcs).getD (c + (trimLens fcs tcs).1) []).getD
                    (r + (trimLens fcs tcs).1) (mkMatch 0)).relabel (.at (c + (trimLens fcs tcs).1))
                      (.at (r + (trimLens fcs tcs).1))) := by
              intro r c hr hc
              have h1 : c + (trimLens fcs tcs).1 < fcs.length := by omega
              have h2 : r + (trimLens fcs tcs).1 < tcs.length := by omega
              rw [listTbl_getD _ _ _ _ _ _ _ _ _ h1 h2, ← getD_eq_getElem' fcs dT _ h1, ← getD_eq_getElem' tcs dT _ h2]
              have m1 := getD_mem fcs dT _ h1
              simp only [edCell]
              rw [middle_getD dT tcs _ r (by omega)]
              exact (ih _ m1 _ _ _).relabel _ _
            have hfm : finLL a (edCells o orc fp tp fcs tcs) =
                (List.range (middle tcs (trimLens fcs tcs)).length).map fun r =>
                  (List.range (middle fcs (trimLens fcs tcs)).length).map fun c =>
                    (((listTbl o orc.assign fp tp fcs tcs).getD (c + (trimLens fcs tcs).1) []).getD
                      (r + (trimLens fcs tcs).1) (mkMatch 0)).cost := by
              rw [finLL_eq_map, edCells_eq, List.map_map]
              apply List.map_congr_left
              intro r hr
              simp only [Function.comp, List.map_map]
              apply List.map_congr_left
              intro c hc
              have := (hcell r c (by rw [hnt]; exact List.mem_range.mp hr) (by rw [hnf]; exact List.mem_range.mp hc)).fin
              simpa using this
            have hed := ed_toD a s (edCells o orc fp tp fcs tcs) { kind := .ed }
              (fun r c => (((listTbl o orc.assign fp tp fcs tcs).getD (c + (trimLens fcs tcs).1) []).getD
                (r + (trimLens fcs tcs).1) (mkMatch 0)).relabel (.at (c + (trimLens fcs tcs).1))
                  (.at (r + (trimLens fcs tcs).1)))
              (fun r => ((middle tcs (trimLens fcs tcs)).getD r (.leaf .null)).size)
              (fun c => ((middle fcs (trimLens fcs tcs)).getD c (.leaf .null)).size) (edPen fcs tcs)
              (by
                intro r c hr hc
                rw [scriptLL_eq_map, edCells_eq, List.map_map,
                  getD_map_range _ _ _ _ (by rw [← hnt]; exact hr), Function.comp, List.map_map,
                  getD_map_range _ _ _ _ (by rw [← hnf]; exact hc)]
                exact (hcell r c hr hc).scr)
              (by
                intro r hr
                rw [hins]
                rw [hnt] at hr
                simp [List.getD_eq_getElem?_getD, hr])
              (by
                intro c hc
                rw [hrem]
                rw [hnf] at hc
                simp [List.getD_eq_getElem?_getD, hc])
            have hpre : s.pre = (trimLens fcs tcs).1 := by rw [hs]; rfl
            have hsuf : s.suf = (trimLens fcs tcs).2 := by rw [hs]; rfl
            have hfl : s.flen = fcs.length := by rw [hs]; simp [edInit]
            have htl : s.tlen = tcs.length := by rw [hs]; simp [edInit]
            refine ⟨rfl, ?_, ?_⟩
            · rw [hed, hrem, hins, hfm, hpre, hsuf, hfl, htl]
              simp only [edScript, toD]
              congr 3
            · simp only [finG, edFin_eq_solve]
              rw [hrem, hins, hfm]
              rfl
          exact hs _ rfl
    | leaf y =>
      rw [mkEdit_list_other _ _ _ _ _ _ (by intro _ h; cases h), edits_list_other _ _ _ _ _ _ (by intro _ h; cases h)]
      exact RefP.ofLeaf a _ rfl
    | dict kvs =>
      rw [mkEdit_list_other _ _ _ _ _ _ (by intro _ h; cases h), edits_list_other _ _ _ _ _ _ (by intro _ h; cases h)]
      exact RefP.ofLeaf a _ rfl
    | fdict kvs =>
      rw [mkEdit_list_other _ _ _ _ _ _ (by intro _ h; cases h), edits_list_other _ _ _ _ _ _ (by intro _ h; cases h)]
      exact RefP.ofLeaf a _ rfl
  | dict fkv ih =>
    intro t fp tp
    cases t with
    | dict tkv =>
      rw [mkEdit_dict_dict, edits_dict_dict]
      split
      · exact RefP.const a 0
      · apply mkMs_refines
        intro i j
        rw [kvTblM_getD, kvTbl_getD']
        split
        · rename_i h
          have m1 := getD_mem fkv dkv i h.1
          exact ih _ m1 _ _ _
        · exact RefP.const a 0
    | leaf y =>
      rw [mkEdit_dict_other _ _ _ _ _ _ (by intro _ h; cases h), edits_dict_other _ _ _ _ _ _ (by intro _ h; cases h)]
      exact RefP.ofLeaf a _ rfl
    | list cs =>
      rw [mkEdit_dict_other _ _ _ _ _ _ (by intro _ h; cases h), edits_dict_other _ _ _ _ _ _ (by intro _ h; cases h)]
      exact RefP.ofLeaf a _ rfl
    | fdict kvs =>
      rw [mkEdit_dict_other _ _ _ _ _ _ (by intro _ h; cases h), edits_dict_other _ _ _ _ _ _ (by intro _ h; cases h)]
      exact RefP.ofLeaf a _ rfl
  | fdict fkv ih =>
    intro t fp tp
    cases t with
    | fdict tkv =>
      rw [mkEdit_fdict_fdict, edits_fdict_fdict]
      split
      · exact RefP.const a 0
      · -- FixedKeyDictNodeEdit
        have hv : ∀ i j, i < fkv.length → j < tkv.length →
            RefP a (((kvTblM o orc fp tp fkv tkv).getD i []).getD j (mkConst .match_ 0))
              (((kvTbl o orc.assign fp tp fkv tkv).getD i []).getD j (mkMatch 0)) := by
          intro i j h1 h2
          rw [kvTblM_getD, if_pos ⟨h1, h2⟩, kvTbl_getD _ _ _ _ _ _ _ _ _ h1 h2,
            ← getD_eq_getElem' fkv dkv i h1, ← getD_eq_getElem' tkv dkv j h2]
          have m1 := getD_mem fkv dkv i h1
          exact ih _ m1 _ _ _
        have k1 := refL a ((List.range fkv.length).filter fun i => (findKey (fkv.getD i dkv).1 tkv 0).isSome)
          (sharedM fkv tkv (kvTblM o orc fp tp fkv tkv))
          (fun i =>
            let j := (findKey (fkv.getD i dkv).1 tkv 0).getD 0
            if kvEq (fkv.getD i dkv) (tkv.getD j dkv) then (mkMatch 0).relabel (.at i) (.at j)
            else (kvpScript (fkv.getD i dkv).1 (tkv.getD j dkv).1 ((fkv.getD i dkv).2.eq (tkv.getD j dkv).2)
              (((kvTbl o orc.assign fp tp fkv tkv).getD i []).getD j (mkMatch 0))).relabel (.at i) (.at j))
          (by
            intro i hi
            obtain ⟨hi1, hi2⟩ := List.mem_filter.mp hi
            have hi1 := List.mem_range.mp hi1
            obtain ⟨j, hj⟩ := Option.isSome_iff_exists.1 hi2
            have hjlt := findKey_lt hj
            simp only [sharedM, hj, Option.getD_some]
            split
            · exact (RefP.const a 0).relabel _ _
            · exact (mkKvp_refines a _ _ _ _ _ (hv i j hi1 hjlt)).relabel _ _)
        have k2 := refL a ((List.range fkv.length).filter fun i => !(findKey (fkv.getD i dkv).1 tkv 0).isSome)
          (fun i => mkRemove i (kvSize (fkv.getD i dkv)) 1) (fun i => GtModel.mkRemove i (kvSize (fkv.getD i dkv)) 1)
          (fun i _ => ⟨rfl, by simp [mkRemove, GtModel.mkRemove, scriptG, toD, toDL], rfl⟩)
        have k3 := refL a ((List.range tkv.length).filter fun j => !(findKey (tkv.getD j dkv).1 fkv 0).isSome)
          (fun j => mkInsert j (kvSize (tkv.getD j dkv)) 1) (fun j => GtModel.mkInsert j (kvSize (tkv.getD j dkv)) 1)
          (fun i _ => ⟨rfl, by simp [mkInsert, GtModel.mkInsert, scriptG, toD, toDL], rfl⟩)
        have hsub := fkScript_subs fkv tkv (kvTbl o orc.assign fp tp fkv tkv)
        have hcost : (fkScript fkv tkv (kvTbl o orc.assign fp tp fkv tkv)).cost
            = sumCosts (fkScript fkv tkv (kvTbl o orc.assign fp tp fkv tkv)).subs := rfl
        have heta := Script.eta (fkScript fkv tkv (kvTbl o orc.assign fp tp fkv tkv))
        have hkind : (fkScript fkv tkv (kvTbl o orc.assign fp tp fkv tkv)).kind = .fk := rfl
        have hfi : (fkScript fkv tkv (kvTbl o orc.assign fp tp fkv tkv)).fi = .none := rfl
        have hti : (fkScript fkv tkv (kvTbl o orc.assign fp tp fkv tkv)).ti = .none := rfl
        have scrAll : scriptL a (fkPending fkv tkv (kvTblM o orc fp tp fkv tkv))
            = toDL (fkScript fkv tkv (kvTbl o orc.assign fp tp fkv tkv)).subs := by
          rw [fkPending_eq, hsub, scriptL_eq_map, List.map_append, List.map_append, toDL_eq_map, List.map_append,
            List.map_append, ← scriptL_eq_map, ← scriptL_eq_map, ← scriptL_eq_map, ← toDL_eq_map, ← toDL_eq_map,
            ← toDL_eq_map, k1.1, k2.1, k3.1]
        have finAll : finL a (fkPending fkv tkv (kvTblM o orc fp tp fkv tkv))
            = sumCosts (fkScript fkv tkv (kvTbl o orc.assign fp tp fkv tkv)).subs := by
          rw [fkPending_eq, hsub, finL_eq_sum, List.map_append, List.map_append, List.sum_append, List.sum_append,
            ← finL_eq_sum, ← finL_eq_sum, ← finL_eq_sum, k1.2, k2.2, k3.2, sumCosts_append, sumCosts_append]
        refine ⟨rfl, ?_, ?_⟩
        · rw [heta, hkind, hfi, hti, hcost]
          simp only [scriptG, toD, finL, scriptL, List.nil_append, Nat.zero_add, scrAll, finAll]
        · simp only [finG, finL, Nat.zero_add, finAll, hcost]
    | leaf y =>
      rw [mkEdit_fdict_other _ _ _ _ _ _ (by intro _ h; cases h), edits_fdict_other _ _ _ _ _ _ (by intro _ h; cases h)]
      exact RefP.ofLeaf a _ rfl
    | dict kvs =>
      rw [mkEdit_fdict_other _ _ _ _ _ _ (by intro _ h; cases h), edits_fdict_other _ _ _ _ _ _ (by intro _ h; cases h)]
      exact RefP.ofLeaf a _ rfl
    | list cs =>
      rw [mkEdit_fdict_other _ _ _ _ _ _ (by intro _ h; cases h), edits_fdict_other _ _ _ _ _ _ (by intro _ h; cases h)]
      exact RefP.ofLeaf a _ rfl

end GtModel.Lazy

/-
  L3 → L2 for MultiSetEdit: the ghost script / final cost of the fresh `mkMs` machine are L2's `msScript`, and hence
  `mkEdit_refines_all`: for EVERY pair of trees the fresh machine refines L2's `edits`.
-/
import GtModel.Proofs.LazyRefB
import GtModel.Proofs.LazyMkD

namespace GtModel.Lazy
open GtModel.EditMatrix (middle trimLens)

attribute [-simp] List.getD_eq_getElem?_getD

theorem contains_eq_any (l : List (Nat × Nat)) (a : Nat) :
    (l.map (·.1)).contains a = l.any (·.1 == a) := by
  induction l with
  | nil => rfl
  | cons p ps ih =>
    have e : (a == p.1) = (p.1 == a) := by
      rw [Bool.eq_iff_iff]; simp only [beq_iff_eq]; exact eq_comm
    simp only [List.map_cons, List.contains_cons, List.any_cons, ih, e]

theorem contains_eq_any2 (l : List (Nat × Nat)) (a : Nat) :
    (l.map (·.2)).contains a = l.any (·.2 == a) := by
  induction l with
  | nil => rfl
  | cons p ps ih =>
    have e : (a == p.2) = (p.2 == a) := by
      rw [Bool.eq_iff_iff]; simp only [beq_iff_eq]; exact eq_comm
    simp only [List.map_cons, List.contains_cons, List.any_cons, ih, e]

theorem unmatched_eq1 (n : Nat) (pairs : List (Nat × Nat)) :
    unmatched n (pairs.map (·.1)) = (List.range n).filter fun a => !(pairs.any (·.1 == a)) := by
  simp only [unmatched, contains_eq_any]

theorem unmatched_eq2 (n : Nat) (pairs : List (Nat × Nat)) :
    unmatched n (pairs.map (·.2)) = (List.range n).filter fun a => !(pairs.any (·.2 == a)) := by
  simp only [unmatched, contains_eq_any2]

theorem sumCosts_matches (l : List Nat) : sumCosts (l.map fun i => (mkMatch 0).relabel (.at i) .same) = 0 := by
  induction l with
  | nil => rfl
  | cons i is ih => rw [List.map_cons, sumCosts_cons, ih]; rfl

section
variable (a : Ghost) (toMatch toRemove toInsert : List Nat) (auto pairs : List (Nat × Nat))
  (kM : Nat → Nat → M) (kS : Nat → Nat → Script) (szF szT : Nat → Nat) (mdc : List (List Nat))

/-- the machine `mkMs` builds, over abstract index lists -/
def msCoreM : M :=
  .ms { kind := .ms }
    { remCosts := toRemove.map fun i => szF i + 1, insCosts := toInsert.map fun j => szT j + 1,
      remIdx := toRemove, insIdx := toInsert, nMatch := toMatch.map fun i => (mkMatch 0).relabel (.at i) .same }
    (auto.map fun p => kM p.1 p.2)
    { nf := toRemove.length, nt := toInsert.length, assign := pairs, mdCounts := mdc }
    (toRemove.map fun i => toInsert.map fun j => kM i j)

/-- the script `msScript` builds, over the same lists -/
def msCoreS : Script :=
  mkCompound .ms
    ((toMatch.map fun i => (mkMatch 0).relabel (.at i) .same)
      ++ (auto.map fun p => kS p.1 p.2)
      ++ (pairs.map fun p => kS (toRemove.getD p.1 0) (toInsert.getD p.2 0))
      ++ (((List.range toRemove.length).filter fun x => !(pairs.any (·.1 == x))).map fun x =>
            GtModel.mkRemove (toRemove.getD x 0) (szF (toRemove.getD x 0)) 1)
      ++ (((List.range toInsert.length).filter fun x => !(pairs.any (·.2 == x))).map fun x =>
            GtModel.mkInsert (toInsert.getD x 0) (szT (toInsert.getD x 0)) 1))

theorem msCore_refines (hk : ∀ i j, RefP a (kM i j) (kS i j))
    (hp : ∀ p ∈ pairs, p.1 < toRemove.length ∧ p.2 < toInsert.length) :
    RefP a (msCoreM toMatch toRemove toInsert auto pairs kM szF szT mdc)
      (msCoreS toMatch toRemove toInsert auto pairs kS szF szT) := by
  -- the five segments
  have s1 : (toMatch.map fun i => (mkMatch 0).relabel (.at i) .same).map DScript.ofScript
      = toDL (toMatch.map fun i => (mkMatch 0).relabel (.at i) .same) := by
    apply tail_toD
    intro s hs
    obtain ⟨i, _, rfl⟩ := List.mem_map.mp hs
    rfl
  have s2 := refL a auto (fun p => kM p.1 p.2) (fun p => kS p.1 p.2) (fun p _ => hk p.1 p.2)
  have hcell : ∀ p ∈ pairs,
      scrAt (scriptLL a (toRemove.map fun i => toInsert.map fun j => kM i j)) p
        = scriptG a (kM (toRemove.getD p.1 0) (toInsert.getD p.2 0)) ∧
      finAt (finLL a (toRemove.map fun i => toInsert.map fun j => kM i j)) p
        = finG a (kM (toRemove.getD p.1 0) (toInsert.getD p.2 0)) := by
    intro p hpp
    obtain ⟨h1, h2⟩ := hp p hpp
    constructor
    · rw [scriptLL_eq_map, List.map_map, scrAt,
        getD_map' toRemove _ 0 [] p.1 h1, Function.comp, List.map_map, getD_map' toInsert _ 0 default p.2 h2]
      rfl
    · rw [finLL_eq_map, List.map_map, finAt,
        getD_map' toRemove _ 0 [] p.1 h1, Function.comp, List.map_map, getD_map' toInsert _ 0 0 p.2 h2]
      rfl
  have s3 : pairs.map (scrAt (scriptLL a (toRemove.map fun i => toInsert.map fun j => kM i j)))
      = toDL (pairs.map fun p => kS (toRemove.getD p.1 0) (toInsert.getD p.2 0)) := by
    rw [toDL_eq_map, List.map_map]
    apply List.map_congr_left
    intro p hpp
    rw [(hcell p hpp).1]
    exact (hk _ _).scr
  have f3 : (pairs.map (finAt (finLL a (toRemove.map fun i => toInsert.map fun j => kM i j)))).sum
      = sumCosts (pairs.map fun p => kS (toRemove.getD p.1 0) (toInsert.getD p.2 0)) := by
    simp only [sumCosts, List.map_map]
    congr 1
    apply List.map_congr_left
    intro p hpp
    rw [(hcell p hpp).2]
    exact (hk _ _).fin
  -- left-over removals / insertions
  have hr : ∀ x ∈ (List.range toRemove.length).filter (fun x => !(pairs.any (·.1 == x))),
      (toRemove.map fun i => szF i + 1).getD x 0 = szF (toRemove.getD x 0) + 1 := by
    intro x hx
    have := (List.mem_range.mp (List.mem_filter.mp hx).1)
    rw [getD_map' toRemove _ 0 0 x this]
  have hi : ∀ x ∈ (List.range toInsert.length).filter (fun x => !(pairs.any (·.2 == x))),
      (toInsert.map fun j => szT j + 1).getD x 0 = szT (toInsert.getD x 0) + 1 := by
    intro x hx
    have := (List.mem_range.mp (List.mem_filter.mp hx).1)
    rw [getD_map' toInsert _ 0 0 x this]
  have s4 : ((List.range toRemove.length).filter fun x => !(pairs.any (·.1 == x))).map (fun x =>
        DScript.mk .remove (.at (toRemove.getD x 0)) .none (Iv.point ((toRemove.map fun i => szF i + 1).getD x 0)) [])
      = toDL (((List.range toRemove.length).filter fun x => !(pairs.any (·.1 == x))).map fun x =>
          GtModel.mkRemove (toRemove.getD x 0) (szF (toRemove.getD x 0)) 1) := by
    rw [toDL_eq_map, List.map_map]
    apply List.map_congr_left
    intro x hx
    simp [hr x hx, GtModel.mkRemove, toD, toDL]
  have s5 : ((List.range toInsert.length).filter fun x => !(pairs.any (·.2 == x))).map (fun x =>
        DScript.mk .insert (.at (toInsert.getD x 0)) .none (Iv.point ((toInsert.map fun j => szT j + 1).getD x 0)) [])
      = toDL (((List.range toInsert.length).filter fun x => !(pairs.any (·.2 == x))).map fun x =>
          GtModel.mkInsert (toInsert.getD x 0) (szT (toInsert.getD x 0)) 1) := by
    rw [toDL_eq_map, List.map_map]
    apply List.map_congr_left
    intro x hx
    simp [hi x hx, GtModel.mkInsert, toD, toDL]
  have f4 : (((List.range toRemove.length).filter fun x => !(pairs.any (·.1 == x))).map fun x =>
        (toRemove.map fun i => szF i + 1).getD x 0).sum
      = sumCosts (((List.range toRemove.length).filter fun x => !(pairs.any (·.1 == x))).map fun x =>
          GtModel.mkRemove (toRemove.getD x 0) (szF (toRemove.getD x 0)) 1) := by
    simp only [sumCosts, List.map_map]
    congr 1
    apply List.map_congr_left
    intro x hx
    simp [hr x hx, GtModel.mkRemove]
  have f5 : (((List.range toInsert.length).filter fun x => !(pairs.any (·.2 == x))).map fun x =>
        (toInsert.map fun j => szT j + 1).getD x 0).sum
      = sumCosts (((List.range toInsert.length).filter fun x => !(pairs.any (·.2 == x))).map fun x =>
          GtModel.mkInsert (toInsert.getD x 0) (szT (toInsert.getD x 0)) 1) := by
    simp only [sumCosts, List.map_map]
    congr 1
    apply List.map_congr_left
    intro x hx
    simp [hi x hx, GtModel.mkInsert]
  have f1 := sumCosts_matches toMatch
  have hfin : finG a (msCoreM toMatch toRemove toInsert auto pairs kM szF szT mdc)
      = (msCoreS toMatch toRemove toInsert auto pairs kS szF szT).cost := by
    simp only [msCoreM, msCoreS, finG, extraOf, unmatched_eq1, unmatched_eq2, mkCompound_cost, sumCosts_append,
      f1, f3, s2.2, f4, f5]
    omega
  refine ⟨rfl, ?_, hfin⟩
  have hfin' := hfin
  simp only [msCoreM, finG] at hfin'
  simp only [msCoreM, msCoreS, scriptG, mkCompound, toD, hfin', unmatched_eq1, unmatched_eq2, s1, s2.1, s3, s4, s5]
  simp only [toDL_eq_map, List.map_append, List.append_assoc, msCoreS, mkCompound, Script.cost_mk]

end


/-- the fresh MultiSetEdit refines L2's `msScript` -/
theorem mkMs_refines (a : Ghost) (amk : Bool) (orc : Orc) (fp tp : List Nat) (fkv tkv : List (Str × Tree))
    (vM : List (List M)) (vS : List (List Script))
    (hv : ∀ i j, RefP a ((vM.getD i []).getD j (mkConst .match_ 0)) ((vS.getD i []).getD j (mkMatch 0))) :
    RefP a (mkMs amk orc fp tp fkv tkv vM) (msScript amk orc.assign fp tp fkv tkv vS) := by
  have h1 : mkMs amk orc fp tp fkv tkv vM =
      msCoreM (msToMatch amk fkv tkv) (msToRemove amk fkv tkv) (msToInsert amk fkv tkv) (msAuto amk fkv tkv)
        (msPairs amk orc.assign fp tp fkv tkv)
        (fun i j => (mkKvp (fkv.getD i dkv).1 (tkv.getD j dkv).1 ((fkv.getD i dkv).2.eq (tkv.getD j dkv).2)
          ((vM.getD i []).getD j (mkConst .match_ 0))).relabel (.at i) (.at j))
        (fun i => kvSize (fkv.getD i dkv)) (fun j => kvSize (tkv.getD j dkv))
        (orc.mdLookup ((msToRemove amk fkv tkv).map fun i => fp ++ [i]) ((msToInsert amk fkv tkv).map fun j => tp ++ [j])) :=
    rfl
  have h2 : msScript amk orc.assign fp tp fkv tkv vS =
      msCoreS (msToMatch amk fkv tkv) (msToRemove amk fkv tkv) (msToInsert amk fkv tkv) (msAuto amk fkv tkv)
        (msPairs amk orc.assign fp tp fkv tkv) (msKvE fkv tkv vS)
        (fun i => kvSize (fkv.getD i dkv)) (fun j => kvSize (tkv.getD j dkv)) := rfl
  rw [h1, h2]
  apply msCore_refines
  · intro i j
    exact (mkKvp_refines a _ _ _ _ _ (hv i j)).relabel _ _
  · intro p hp
    have := (sorted_lookup_pinj orc.assign ((msToRemove amk fkv tkv).map fun i => fp ++ [i])
      ((msToInsert amk fkv tkv).map fun j => tp ++ [j])).2.2 p hp
    simpa using this

end GtModel.Lazy

/-
  Consequences of `Protocol` for the public operations on the root edit: every operation succeeds and keeps the
  invariant (C05 `no_internal_error`), the final cost and script do not depend on the history (C05
  `history_independent`), refinement converges (C04 `converges`).
-/
import GtModel.Proofs.LazyEngine

namespace GtModel.Lazy

section
variable {ops : Ops} {g : Ghost}

/-- `while e.tighten_bounds(): pass` converges within `μ m + 1` steps to the final cost -/
theorem full_ok (P : Protocol ops g) : ∀ (k : Nat) (m : M), g.I m → g.μ m < k →
    ∃ m', full ops k m = .ok m' ∧ Keeps g m m' ∧ g.view m' = Iv.point (g.fin m)
  | 0, _, _, h => absurd h (Nat.not_lt_zero _)
  | k + 1, m, hI, hμ => by
    obtain ⟨m1, r, e, st⟩ := P.tighten m hI
    cases r with
    | true =>
      have := st.dec rfl
      obtain ⟨m2, e2, kp, hv⟩ := full_ok P k m1 st.inv (by omega)
      refine ⟨m2, ?_, st.keeps.trans kp, ?_⟩
      · simp [full, e, bind, Except.bind, e2]
      · rw [hv, st.fin]
    | false =>
      refine ⟨m1, ?_, st.keeps, ?_⟩
      · simp [full, e, bind, Except.bind, pure, Except.pure]
      · have hd := st.stop rfl
        have wf := P.wf m1 st.inv
        rw [st.fin] at wf
        cases hv : g.view m1 with
        | mk lo hi => rw [hv] at hd wf; simp only at hd wf; simp only [Iv.point, Iv.mk.injEq]; omega

/-- `Edit.has_non_zero_cost` terminates and keeps the invariant -/
theorem nonzero_ok (P : Protocol ops g) : ∀ (k : Nat) (m : M), g.I m → g.μ m < k →
    ∃ m' r, nonzeroLoop ops k m = .ok (m', r) ∧ Keeps g m m'
  | 0, _, _, h => absurd h (Nat.not_lt_zero _)
  | k + 1, m, hI, hμ => by
    obtain ⟨m1, e1, p1, _⟩ := P.bounds m hI
    obtain ⟨m2, e2, p2, _⟩ := P.bounds m1 p1.inv
    obtain ⟨m3, e3, p3, _⟩ := P.bounds m2 p2.inv
    by_cases hd : (g.view m).definitive = true
    · exact ⟨m2, decide ((g.view m1).lo > 0), by simp [nonzeroLoop, e1, bind, Except.bind, hd, e2, pure, Except.pure], (p1.trans p2).keeps⟩
    · by_cases hl : (g.view m1).lo > 0
      · exact ⟨m3, decide ((g.view m2).lo > 0), by simp [nonzeroLoop, e1, bind, Except.bind, hd, e2, hl, e3, pure, Except.pure],
          ((p1.trans p2).trans p3).keeps⟩
      · obtain ⟨m4, r, e4, st⟩ := P.tighten m2 p2.inv
        cases r with
        | true =>
          have := st.dec rfl
          have := p1.mu; have := p2.mu
          obtain ⟨m5, r5, e5, kp⟩ := nonzero_ok P k m4 st.inv (by omega)
          exact ⟨m5, r5, by simp [nonzeroLoop, e1, bind, Except.bind, hd, e2, hl, e4, e5],
            ((p1.trans p2).keeps.trans st.keeps).trans kp⟩
        | false =>
          obtain ⟨m5, e5, p5, _⟩ := P.bounds m4 st.inv
          exact ⟨m5, decide ((g.view m4).lo > 0), by simp [nonzeroLoop, e1, bind, Except.bind, hd, e2, hl, e4, e5, pure, Except.pure],
            ((p1.trans p2).keeps.trans st.keeps).trans p5.keeps⟩

end

/-- what is assumed about `edits()` on an atom at the root -/
def EditsHyp (q : Bool) (F : Nat) (a : Ghost) : Prop :=
  ∀ n, Protocol (mkOps q F n) (G a F n) → ∀ m, (G a F (n + 1)).I m → isAtom m = true →
    ∃ m' r, editsOp (mkOps q F n) q F m = .ok (m', r) ∧ Keeps (G a F (n + 1)) m m'

theorem editsOp_ok (q : Bool) (F : Nat) (a : Ghost) (hE : EditsHyp q F a) (n : Nat)
    (P : Protocol (mkOps q F n) (G a F n)) (m : M) (hI : (G a F (n + 1)).I m) :
    ∃ m' r, editsOp (mkOps q F n) q F m = .ok (m', r) ∧ Keeps (G a F (n + 1)) m m' := by
  match m, hI with
  | .const l c, hI => exact ⟨_, _, rfl, Keeps.refl _ _ hI⟩
  | .str l e, hI => exact ⟨_, _, rfl, Keeps.refl _ _ hI⟩
  | .kvp l k v, hI => exact ⟨_, _, rfl, Keeps.refl _ _ hI⟩
  | .fixed l s t, hI => exact ⟨_, _, rfl, Keeps.refl _ _ hI⟩
  | .ed l s c, hI =>
    obtain ⟨inv, hmu⟩ := (ed_I a F n l s c).mp hI
    obtain ⟨s1, c1, e1, ek1, hsome⟩ := edEnsure_ok P q F inv hmu
    obtain ⟨tr, htr⟩ := Option.isSome_iff_exists.mp hsome
    have hcv := ek1.inv.cv tr htr
    have hval : TrValid s1 tr.reverse := by
      intro x hx
      rw [hcv] at hx
      exact ptrace_valid s1 _ _ _ _ (Nat.le_refl _) (Nat.le_refl _) x (List.mem_reverse.mp hx)
    obtain ⟨names, en⟩ := pathNames_ok s1 tr.reverse c1 ek1.inv.shape hval
    exact ⟨.ed l s1 c1, some (List.replicate s1.pre "Match" ++ names ++ List.replicate s1.suf "Match"),
      (by simp [editsOp, e1, htr, en, bind, Except.bind, pure, Except.pure]), ed_keeps (n := n) (a := a) (F := F) hI ek1⟩
  | .coll l s p r, hI =>
    obtain ⟨inv, _⟩ := (coll_I a F n l s p r).mp hI
    obtain ⟨ck1, _⟩ := collExpandAll_ok P s p r inv
    exact ⟨_, _, rfl, coll_keeps a F n P hI ck1⟩
  | .ms l s k w e, hI =>
    obtain ⟨inv, _⟩ := (ms_I a F n l s k w e).mp hI
    obtain ⟨w', e', names, he, mk⟩ := msEdits_ok P q F l inv
    exact ⟨.ms l s k w' e', names, he, ms_keeps a F n hI mk⟩

/-- every public operation succeeds on a machine satisfying the invariant, and keeps it -/
theorem applyOp_ok (q : Bool) (F : Nat) (hF : 0 < F) (a : Ghost) (hA : AtomHyp q F a) (hE : EditsHyp q F a)
    (n : Nat) (op : Op) (m : M) (hI : (G a F (n + 1)).I m) (hμ : muG a m < F) :
    ∃ m' r, applyOp q F n op m = .ok (m', r) ∧ Keeps (G a F (n + 1)) m m' ∧
      (∀ b, r = .iv b → b = viewG a m) := by
  have P := engine_protocol_of_atoms q F hF a hA (n + 1)
  have P0 := engine_protocol_of_atoms q F hF a hA n
  cases op with
  | bounds =>
    obtain ⟨m', e, p, _⟩ := P.bounds m hI
    exact ⟨m', .iv (viewG a m), by simp [applyOp, e, bind, Except.bind, pure, Except.pure], p.keeps, by intro b hb; cases hb; rfl⟩
  | tighten =>
    obtain ⟨m', r, e, st⟩ := P.tighten m hI
    exact ⟨m', .bool r, by simp [applyOp, e, bind, Except.bind, pure, Except.pure], st.keeps, by intro b hb; cases hb⟩
  | complete =>
    obtain ⟨m', c, e, p, _⟩ := P.complete m hI
    exact ⟨m', .bool c, by simp [applyOp, e, bind, Except.bind, pure, Except.pure], p.keeps, by intro b hb; cases hb⟩
  | valid => exact ⟨m, .bool true, rfl, Keeps.refl _ _ hI, by intro b hb; cases hb⟩
  | edits =>
    obtain ⟨m', r, e, p⟩ := editsOp_ok q F a hE n P0 m hI
    exact ⟨m', .names r, by simp [applyOp, e, bind, Except.bind, pure, Except.pure], p, by intro b hb; cases hb⟩
  | nonzero =>
    obtain ⟨m', r, e, kp⟩ := nonzero_ok P F m hI (by simp only [G_mu]; exact hμ)
    exact ⟨m', .bool r, by simp [applyOp, e, bind, Except.bind, pure, Except.pure], kp, by intro b hb; cases hb⟩
  | onDiff =>
    obtain ⟨m', e, p⟩ := P.onDiff m hI
    exact ⟨m', .unit, by simp [applyOp, e, bind, Except.bind, pure, Except.pure], p, by intro b hb; cases hb⟩

/-- every observed interval of a run lies in the previous one and contains the final cost -/
def Nested (fin : Nat) : Iv → List Res → Prop
  | _, [] => True
  | cur, .iv b :: rest => cur.lo ≤ b.lo ∧ b.hi ≤ cur.hi ∧ b.lo ≤ fin ∧ fin ≤ b.hi ∧ Nested fin b rest
  | cur, _ :: rest => Nested fin cur rest

theorem Nested.mono {fin : Nat} {a b : Iv} (h : a.lo ≤ b.lo ∧ b.hi ≤ a.hi) :
    ∀ rs, Nested fin b rs → Nested fin a rs
  | [], _ => trivial
  | .iv c :: rest, hn => by
      obtain ⟨h1, h2, h3, h4, h5⟩ := hn
      exact ⟨by omega, by omega, h3, h4, h5⟩
  | .bool _ :: rest, hn => Nested.mono h rest hn
  | .names _ :: rest, hn => Nested.mono h rest hn
  | .unit :: rest, hn => Nested.mono h rest hn

/-- any sequence of public operations: no internal error, invariant kept, observations nested and sound -/
theorem run_ok (q : Bool) (F : Nat) (hF : 0 < F) (a : Ghost) (hA : AtomHyp q F a) (hE : EditsHyp q F a) (n : Nat) :
    ∀ (ops : List Op) (m : M), (G a F (n + 1)).I m → muG a m < F →
      ∃ m' rs, run q F n m ops = .ok (m', rs) ∧ Keeps (G a F (n + 1)) m m' ∧ Nested (finG a m) (viewG a m) rs
  | [], m, hI, _ => ⟨m, [], rfl, Keeps.refl _ _ hI, trivial⟩
  | op :: rest, m, hI, hμ => by
    obtain ⟨m1, r, e1, k1, hr⟩ := applyOp_ok q F hF a hA hE n op m hI hμ
    have hμ1 : muG a m1 < F := by have := k1.mu; simp only [G_mu] at this; omega
    obtain ⟨m2, rs, e2, k2, hn⟩ := run_ok q F hF a hA hE n rest m1 k1.inv hμ1
    refine ⟨m2, r :: rs, by simp [run, e1, bind, Except.bind, e2, pure, Except.pure], k1.trans k2, ?_⟩
    have hf : finG a m1 = finG a m := k1.fin
    have hs := k1.sub
    simp only [G_view] at hs
    rw [hf] at hn
    have hn' := Nested.mono hs rs hn
    cases r with
    | iv b =>
      have hb := hr b rfl
      subst hb
      have wf := (engine_protocol_of_atoms q F hF a hA (n + 1)).wf m hI
      simp only [G_view, G_fin] at wf
      exact ⟨Nat.le_refl _, Nat.le_refl _, wf.1, wf.2, hn'⟩
    | bool _ => exact hn'
    | names _ => exact hn'
    | unit => exact hn'

/-- tighten to exhaustion and dump: the script is the machine's ghost script, whatever happened before -/
theorem finish_ok (q : Bool) (F : Nat) (hF : 0 < F) (a : Ghost) (hA : AtomHyp q F a) (n : Nat) (m : M)
    (hI : (G a F (n + 1)).I m) (hμ : muG a m < F) :
    ∃ m', finish q F n m = .ok (m', scriptG a m) := by
  have P := engine_protocol_of_atoms q F hF a hA (n + 1)
  obtain ⟨m1, e1, k1, hv⟩ := full_ok P F m hI (by simp only [G_mu]; exact hμ)
  obtain ⟨m2, e2, _⟩ := P.dump m1 k1.inv (by rw [hv]; rfl)
  have hs : scriptG a m1 = scriptG a m := k1.scr
  refine ⟨m2, ?_⟩
  simp only [finish, e1, bind, Except.bind]
  rw [e2]
  simp only [G_script, hs]

end GtModel.Lazy

/-
  Static facts for the fresh EditDistance: the sum of the k smallest entries of a list is at most the sum of any
  k of its entries; the greedy matrix' corner is at least the sum of |nf - nt| entries of the longer side.
-/
import GtModel.Proofs.LazyDefsMs

namespace GtModel.Lazy
open GtModel.EditMatrix (Cell Move step spec goLeft goUp goDiag cellAt origin spec_induction)

/-! ### insertion sort -/

def SortedN (l : List Nat) : Prop := l.Pairwise (· ≤ ·)

theorem mem_insertNat (x y : Nat) (l : List Nat) : y ∈ insertNat x l ↔ y = x ∨ y ∈ l := by
  induction l with
  | nil => simp [insertNat]
  | cons z zs ih =>
    simp only [insertNat]
    split
    · simp
    · simp [ih]; constructor
      · rintro (h | h | h) <;> simp [h]
      · rintro (h | h | h) <;> simp [h]

theorem insertNat_sorted (x : Nat) (l : List Nat) (h : SortedN l) : SortedN (insertNat x l) := by
  induction l with
  | nil => simp [insertNat, SortedN]
  | cons z zs ih =>
    simp only [insertNat]
    have hz := List.pairwise_cons.mp h
    split
    · rename_i hx
      refine List.pairwise_cons.mpr ⟨?_, h⟩
      intro a ha
      rcases List.mem_cons.mp ha with rfl | ha
      · exact hx
      · exact Nat.le_trans hx (hz.1 a ha)
    · rename_i hx
      refine List.pairwise_cons.mpr ⟨?_, ih hz.2⟩
      intro a ha
      rcases (mem_insertNat x a zs).mp ha with rfl | ha
      · omega
      · exact hz.1 a ha

theorem sortNat_sorted (l : List Nat) : SortedN (sortNat l) := by
  induction l with
  | nil => simp [sortNat, SortedN]
  | cons x xs ih => exact insertNat_sorted x _ ih

theorem insertNat_length (x : Nat) (l : List Nat) : (insertNat x l).length = l.length + 1 := by
  induction l with
  | nil => simp [insertNat]
  | cons z zs ih => simp only [insertNat]; split <;> simp [ih]

theorem sortNat_length (l : List Nat) : (sortNat l).length = l.length := by
  induction l with
  | nil => simp [sortNat]
  | cons x xs ih => simp [sortNat, insertNat_length, ih]

theorem insertNat_sum (x : Nat) (l : List Nat) : (insertNat x l).sum = l.sum + x := by
  induction l with
  | nil => simp [insertNat]
  | cons z zs ih => simp only [insertNat]; split <;> simp [ih] <;> omega

theorem sortNat_sum (l : List Nat) : (sortNat l).sum = l.sum := by
  induction l with
  | nil => simp [sortNat]
  | cons x xs ih => simp [sortNat, insertNat_sum, ih]; omega

theorem take_sum_le_sum (l : List Nat) (k : Nat) : (l.take k).sum ≤ l.sum := by
  induction l generalizing k with
  | nil => simp
  | cons x xs ih => cases k with
    | zero => simp
    | succ k => simp only [List.take_succ_cons, List.sum_cons]; have := ih k; omega

theorem ksm_le_sum (k : Nat) (l : List Nat) : ksm k l ≤ l.sum := by
  have := take_sum_le_sum (sortNat l) k
  rw [sortNat_sum] at this; exact this

/-- taking one more of a sorted list that got a new head -/
theorem sorted_shift (y : Nat) (ys : List Nat) (h : SortedN (y :: ys)) (k : Nat) (hk : k ≤ ys.length) :
    ((y :: ys).take k).sum ≤ (ys.take k).sum := by
  induction ys generalizing y k with
  | nil => cases k with
    | zero => simp
    | succ k => simp at hk
  | cons z zs ih =>
    cases k with
    | zero => simp
    | succ k =>
      have hy := List.pairwise_cons.mp h
      have := ih z hy.2 k (by simpa using hk)
      have hyz : y ≤ z := hy.1 z (by simp)
      simp only [List.take_succ_cons, List.sum_cons] at this ⊢
      omega

theorem insertNat_take_le (x : Nat) (l : List Nat) (h : SortedN l) (k : Nat) (hk : k ≤ l.length) :
    ((insertNat x l).take k).sum ≤ (l.take k).sum := by
  induction l generalizing k with
  | nil => cases k with
    | zero => simp
    | succ k => simp at hk
  | cons y ys ih =>
    have hy := List.pairwise_cons.mp h
    simp only [insertNat]
    split
    · rename_i hx
      cases k with
      | zero => simp
      | succ k =>
        have := sorted_shift y ys h k (by simpa using hk)
        simp only [List.take_succ_cons, List.sum_cons]
        omega
    · cases k with
      | zero => simp
      | succ k =>
        have := ih hy.2 k (by simpa using hk)
        simp only [List.take_succ_cons, List.sum_cons]
        omega

theorem insertNat_take_succ (x : Nat) (l : List Nat) (k : Nat) :
    ((insertNat x l).take (k + 1)).sum ≤ (l.take k).sum + x := by
  induction l generalizing k with
  | nil => simp [insertNat]
  | cons y ys ih =>
    simp only [insertNat]
    split
    · simp only [List.take_succ_cons, List.sum_cons]; omega
    · rename_i hx
      cases k with
      | zero => simp; omega
      | succ k =>
        have := ih k
        simp only [List.take_succ_cons, List.sum_cons] at this ⊢
        omega

/-- the k smallest sum to at most any k entries -/
theorem ksm_le_sublist (l s : List Nat) (h : s.Sublist l) : ksm s.length l ≤ s.sum := by
  induction h with
  | slnil => simp [ksm, sortNat]
  | @cons s l x hs ih =>
    have := insertNat_take_le x (sortNat l) (sortNat_sorted l) s.length (by rw [sortNat_length]; exact hs.length_le)
    simp only [ksm, sortNat] at ih ⊢
    omega
  | @cons_cons s l x hs ih =>
    have := insertNat_take_succ x (sortNat l) s.length
    simp only [ksm, sortNat, List.length_cons, List.sum_cons] at ih ⊢
    omega

/-! ### the greedy matrix' corner -/

theorem take_succ_getD (l : List Nat) (c : Nat) (h : c < l.length) : l.take (c + 1) = l.take c ++ [l.getD c 0] := by
  rw [List.take_add_one]
  simp [List.getD, List.getElem?_eq_getElem h]

theorem sublist_take_sum (s : List Nat) (k : Nat) : (s.take k).Sublist s ∧ (s.take k).sum ≤ s.sum :=
  ⟨List.take_sublist k s, take_sum_le_sum s k⟩

/-- cell (r, c) of the greedy matrix costs at least `c - r` of the first `c` removals and `r - c` of the first `r`
    insertions -/
theorem spec_lower (rem ins : List Nat) (cells : List (List Nat)) (r c : Nat) (hr : r ≤ ins.length)
    (hc : c ≤ rem.length) :
    (∃ s : List Nat, s.Sublist (rem.take c) ∧ s.length = c - r ∧ s.sum ≤ (spec rem ins cells r c).cost) ∧
    (∃ s : List Nat, s.Sublist (ins.take r) ∧ s.length = r - c ∧ s.sum ≤ (spec rem ins cells r c).cost) := by
  have key := spec_induction rem ins cells
    (fun r c p => r ≤ ins.length → c ≤ rem.length →
      (∃ s : List Nat, s.Sublist (rem.take c) ∧ s.length = c - r ∧ s.sum ≤ p.cost) ∧
      (∃ s : List Nat, s.Sublist (ins.take r) ∧ s.length = r - c ∧ s.sum ≤ p.cost))
    (by intro _ _; exact ⟨⟨[], by simp⟩, ⟨[], by simp⟩⟩)
    (by
      intro r c p ih hr hc
      obtain ⟨⟨s1, h1, l1, c1⟩, ⟨s2, h2, l2, c2⟩⟩ := ih hr (by omega)
      refine ⟨?_, ?_⟩
      · rw [take_succ_getD rem c (by omega)]
        by_cases hrc : r ≤ c
        · refine ⟨s1 ++ [rem.getD c 0], List.Sublist.append h1 (List.Sublist.refl _), by simp; omega, ?_⟩
          simp [goLeft]; omega
        · exact ⟨[], by simp, by simp; omega, by simp⟩
      · refine ⟨s2.take (r - (c + 1)), (List.take_sublist _ _).trans h2, by simp; omega, ?_⟩
        have := take_sum_le_sum s2 (r - (c + 1))
        simp [goLeft]; omega)
    (by
      intro r c p ih hr hc
      obtain ⟨⟨s1, h1, l1, c1⟩, ⟨s2, h2, l2, c2⟩⟩ := ih (by omega) hc
      refine ⟨?_, ?_⟩
      · refine ⟨s1.take (c - (r + 1)), (List.take_sublist _ _).trans h1, by simp; omega, ?_⟩
        have := take_sum_le_sum s1 (c - (r + 1))
        simp [goUp]; omega
      · rw [take_succ_getD ins r (by omega)]
        by_cases hrc : c ≤ r
        · refine ⟨s2 ++ [ins.getD r 0], List.Sublist.append h2 (List.Sublist.refl _), by simp; omega, ?_⟩
          simp [goUp]; omega
        · exact ⟨[], by simp, by simp; omega, by simp⟩)
    (by
      intro r c p ih _ _ hr hc
      obtain ⟨⟨s1, h1, l1, c1⟩, ⟨s2, h2, l2, c2⟩⟩ := ih (by omega) (by omega)
      refine ⟨⟨s1, h1.trans ?_, by omega, by simp [goDiag]; omega⟩, ⟨s2, h2.trans ?_, by omega, by simp [goDiag]; omega⟩⟩
      · exact List.take_sublist_take_left (by omega)
      · exact List.take_sublist_take_left (by omega))
    r c
  exact key hr hc

end GtModel.Lazy

/-
  More about "the k smallest / k largest entries" (`ksm`, `klg`): attained by a sublist, monotone under pointwise
  comparison, bounds for sums over sublists and over strictly increasing index lists.
-/
import GtModel.Proofs.LazySort

namespace GtModel.Lazy

theorem take_add_drop_sum (l : List Nat) (k : Nat) : (l.take k).sum + (l.drop k).sum = l.sum := by
  induction l generalizing k with
  | nil => simp
  | cons x xs ih =>
    cases k with
    | zero => simp
    | succ k => simp only [List.take_succ_cons, List.drop_succ_cons, List.sum_cons]; have := ih k; omega

theorem klg_eq_drop (k : Nat) (l : List Nat) : klg k l = ((sortNat l).drop (l.length - k)).sum := by
  simp only [klg, List.take_reverse, List.sum_reverse, sortNat_length]

/-- the k largest and the n-k smallest make up the whole -/
theorem klg_add_ksm (k : Nat) (l : List Nat) (h : k ≤ l.length) : klg k l + ksm (l.length - k) l = l.sum := by
  rw [klg_eq_drop, ksm]
  have := take_add_drop_sum (sortNat l) (l.length - k)
  rw [sortNat_sum] at this
  omega

/-! ### attainment -/

theorem take_insertNat_cases (x : Nat) (S : List Nat) (k : Nat) :
    ((insertNat x S).take k).sum = (S.take k).sum ∨
      (1 ≤ k ∧ ((insertNat x S).take k).sum = x + (S.take (k - 1)).sum) := by
  induction S generalizing k with
  | nil =>
    cases k with
    | zero => left; simp [insertNat]
    | succ k => right; simp [insertNat]
  | cons y ys ih =>
    simp only [insertNat]
    split
    · cases k with
      | zero => left; simp
      | succ k => right; simp
    · cases k with
      | zero => left; simp
      | succ k =>
        rcases ih k with h | ⟨h1, h2⟩
        · left; simp only [List.take_succ_cons, List.sum_cons, h]
        · right
          refine ⟨by omega, ?_⟩
          have : k = (k - 1) + 1 := by omega
          simp only [List.take_succ_cons, List.sum_cons, h2, Nat.add_sub_cancel]
          rw [this, List.take_succ_cons, List.sum_cons]
          simp only [Nat.add_sub_cancel]
          omega

/-- the k smallest are attained by a sublist -/
theorem ksm_attained (l : List Nat) (k : Nat) (h : k ≤ l.length) :
    ∃ s : List Nat, s.Sublist l ∧ s.length = k ∧ s.sum ≤ ksm k l := by
  induction l generalizing k with
  | nil => exact ⟨[], List.Sublist.refl _, by simp at h; simp [h], by simp [ksm, sortNat]⟩
  | cons x xs ih =>
    by_cases hk : k = xs.length + 1
    · refine ⟨x :: xs, List.Sublist.refl _, by simp [hk], ?_⟩
      have : ksm k (x :: xs) = (x :: xs).sum := by
        have h1 : (sortNat (x :: xs)).length = k := by rw [sortNat_length]; simp [hk]
        simp only [ksm]
        rw [← h1, List.take_length, sortNat_sum]
      omega
    · have hk' : k ≤ xs.length := by simp at h; omega
      rcases take_insertNat_cases x (sortNat xs) k with hc | ⟨h1, hc⟩
      · obtain ⟨s, hs, hl, hsum⟩ := ih k hk'
        exact ⟨s, hs.cons x, hl, by simp only [ksm, sortNat] at hsum ⊢; omega⟩
      · obtain ⟨s, hs, hl, hsum⟩ := ih (k - 1) (by omega)
        exact ⟨x :: s, hs.cons_cons x, by simp [hl]; omega, by simp only [ksm, sortNat, List.sum_cons] at hsum ⊢; omega⟩

/-! ### pointwise comparison -/

/-- same length, entry-wise `≤` -/
def PW : List Nat → List Nat → Prop
  | [], [] => True
  | x :: xs, y :: ys => x ≤ y ∧ PW xs ys
  | _, _ => False

theorem PW.length : ∀ {a b : List Nat}, PW a b → a.length = b.length
  | [], [], _ => rfl
  | _ :: _, _ :: _, h => by simp [PW.length h.2]
  | [], _ :: _, h => h.elim
  | _ :: _, [], h => h.elim

theorem PW.refl : ∀ (a : List Nat), PW a a
  | [] => trivial
  | _ :: xs => ⟨Nat.le_refl _, PW.refl xs⟩

theorem PW.sum_le : ∀ {a b : List Nat}, PW a b → a.sum ≤ b.sum
  | [], [], _ => Nat.le_refl _
  | _ :: _, _ :: _, h => by have := PW.sum_le h.2; have := h.1; simp; omega
  | [], _ :: _, h => h.elim
  | _ :: _, [], h => h.elim

/-- a sublist of the larger list has a smaller counterpart in the smaller list -/
theorem PW.sublist_down {a b : List Nat} (h : PW a b) {s : List Nat} (hs : s.Sublist b) :
    ∃ s' : List Nat, s'.Sublist a ∧ s'.length = s.length ∧ s'.sum ≤ s.sum := by
  induction hs generalizing a with
  | slnil => cases a with
    | nil => exact ⟨[], List.Sublist.refl _, rfl, Nat.le_refl _⟩
    | cons _ _ => exact h.elim
  | @cons s b y _ ih =>
    cases a with
    | nil => exact h.elim
    | cons x xs =>
      obtain ⟨s', h1, h2, h3⟩ := ih h.2
      exact ⟨s', h1.cons x, h2, h3⟩
  | @cons_cons s b y _ ih =>
    cases a with
    | nil => exact h.elim
    | cons x xs =>
      obtain ⟨s', h1, h2, h3⟩ := ih h.2
      exact ⟨x :: s', h1.cons_cons x, by simp [h2], by have := h.1; simp; omega⟩

/-- a sublist of the smaller list has a larger counterpart in the larger list -/
theorem PW.sublist_up {a b : List Nat} (h : PW a b) {s : List Nat} (hs : s.Sublist a) :
    ∃ s' : List Nat, s'.Sublist b ∧ s'.length = s.length ∧ s.sum ≤ s'.sum := by
  induction hs generalizing b with
  | slnil => cases b with
    | nil => exact ⟨[], List.Sublist.refl _, rfl, Nat.le_refl _⟩
    | cons _ _ => exact h.elim
  | @cons s a x _ ih =>
    cases b with
    | nil => exact h.elim
    | cons y ys =>
      obtain ⟨s', h1, h2, h3⟩ := ih h.2
      exact ⟨s', h1.cons y, h2, h3⟩
  | @cons_cons s a x _ ih =>
    cases b with
    | nil => exact h.elim
    | cons y ys =>
      obtain ⟨s', h1, h2, h3⟩ := ih h.2
      exact ⟨y :: s', h1.cons_cons y, by simp [h2], by have := h.1; simp; omega⟩

theorem ksm_mono {a b : List Nat} (h : PW a b) (k : Nat) (hk : k ≤ a.length) : ksm k a ≤ ksm k b := by
  obtain ⟨s, hs, hl, hsum⟩ := ksm_attained b k (by rw [← h.length]; exact hk)
  obtain ⟨s', h1, h2, h3⟩ := h.sublist_down hs
  have := ksm_le_sublist a s' h1
  rw [h2, hl] at this
  omega

/-! ### upper bounds -/

/-- any sublist and the smallest entries of the rest fit into the whole -/
theorem sublist_add_ksm_le (l s : List Nat) (h : s.Sublist l) : s.sum + ksm (l.length - s.length) l ≤ l.sum := by
  induction h with
  | slnil => simp [ksm, sortNat]
  | @cons s l x hs ih =>
    have hle := hs.length_le
    have := insertNat_take_succ x (sortNat l) (l.length - s.length)
    have e : (x :: l).length - s.length = (l.length - s.length) + 1 := by simp; omega
    simp only [ksm, sortNat, List.sum_cons] at ih ⊢
    rw [e]
    omega
  | @cons_cons s l x hs ih =>
    have hle := hs.length_le
    have := insertNat_take_le x (sortNat l) (sortNat_sorted l) (l.length - s.length) (by rw [sortNat_length]; omega)
    have e : (x :: l).length - (x :: s).length = l.length - s.length := by simp
    simp only [ksm, sortNat, List.sum_cons] at ih ⊢
    rw [e]
    omega

/-- the k largest sum to at least any k entries -/
theorem sublist_le_klg (l s : List Nat) (h : s.Sublist l) : s.sum ≤ klg s.length l := by
  have h1 := sublist_add_ksm_le l s h
  have h2 := klg_add_ksm s.length l h.length_le
  omega

theorem ksm_le_klg (k : Nat) (l : List Nat) (h : k ≤ l.length) : ksm k l ≤ klg k l := by
  have h1 := ksm_le_sublist l (l.take k) (List.take_sublist k l)
  have h2 := sublist_le_klg l (l.take k) (List.take_sublist k l)
  have e : (l.take k).length = k := by simp; omega
  rw [e] at h1 h2
  omega

/-- complement of a sublist -/
theorem sublist_compl {l s : List Nat} (h : s.Sublist l) :
    ∃ c : List Nat, c.Sublist l ∧ c.length + s.length = l.length ∧ c.sum + s.sum = l.sum := by
  induction h with
  | slnil => exact ⟨[], List.Sublist.refl _, rfl, rfl⟩
  | @cons s l x _ ih =>
    obtain ⟨c, h1, h2, h3⟩ := ih
    exact ⟨x :: c, h1.cons_cons x, by simp; omega, by simp; omega⟩
  | @cons_cons s l x _ ih =>
    obtain ⟨c, h1, h2, h3⟩ := ih
    exact ⟨c, h1.cons x, by simp; omega, by simp; omega⟩

theorem klg_attained (l : List Nat) (k : Nat) (h : k ≤ l.length) :
    ∃ s : List Nat, s.Sublist l ∧ s.length = k ∧ klg k l ≤ s.sum := by
  obtain ⟨s0, hs0, hl0, hsum0⟩ := ksm_attained l (l.length - k) (by omega)
  obtain ⟨c, hc, hcl, hcs⟩ := sublist_compl hs0
  have := klg_add_ksm k l h
  exact ⟨c, hc, by omega, by omega⟩

/-- `klg` is monotone too -/
theorem klg_mono {a b : List Nat} (h : PW a b) (k : Nat) (hk : k ≤ a.length) : klg k a ≤ klg k b := by
  obtain ⟨s, hs, hl, hsum⟩ := klg_attained a k hk
  obtain ⟨s', h1, h2, h3⟩ := h.sublist_up hs
  have := sublist_le_klg b s' h1
  rw [h2, hl] at this
  omega

/-! ### strictly increasing index lists select sublists -/

theorem idx_sublist {α : Type} (d : α) : ∀ (l : List α) (idx : List Nat) (off : Nat), idx.Pairwise (· < ·) →
    (∀ i ∈ idx, off ≤ i ∧ i < off + l.length) → (idx.map fun i => l.getD (i - off) d).Sublist l := by
  intro l
  induction l with
  | nil =>
    intro idx off _ hr
    cases idx with
    | nil => exact List.Sublist.refl _
    | cons i _ => have := hr i (by simp); simp at this; omega
  | cons x xs ih =>
    intro idx off hp hr
    cases idx with
    | nil => exact List.nil_sublist _
    | cons i rest =>
      have hp' := List.pairwise_cons.mp hp
      have hi := hr i (by simp)
      have hrest : ∀ j ∈ rest, off + 1 ≤ j ∧ j < off + 1 + xs.length := by
        intro j hj
        have := hr j (by simp [hj])
        have := hp'.1 j hj
        simp at *
        omega
      have e : ∀ j, off + 1 ≤ j → (x :: xs).getD (j - off) d = xs.getD (j - (off + 1)) d := by
        intro j hj
        have : j - off = (j - (off + 1)) + 1 := by omega
        rw [this]; rfl
      by_cases hio : i = off
      · subst hio
        have h1 := ih rest (i + 1) hp'.2 hrest
        simp only [List.map_cons, Nat.sub_self]
        have e2 : rest.map (fun j => (x :: xs).getD (j - i) d) = rest.map (fun j => xs.getD (j - (i + 1)) d) := by
          apply List.map_congr_left
          intro j hj
          exact e j (hrest j hj).1
        rw [e2]
        exact h1.cons_cons x
      · have hall : ∀ j ∈ i :: rest, off + 1 ≤ j ∧ j < off + 1 + xs.length := by
          intro j hj
          rcases List.mem_cons.mp hj with rfl | hj
          · simp at hi; omega
          · exact hrest j hj
        have h1 := ih (i :: rest) (off + 1) hp hall
        have e2 : (i :: rest).map (fun j => (x :: xs).getD (j - off) d)
            = (i :: rest).map (fun j => xs.getD (j - (off + 1)) d) := by
          apply List.map_congr_left
          intro j hj
          exact e j (hall j hj).1
        rw [e2]
        exact h1.cons x

theorem idx_sublist0 {α : Type} (d : α) (l : List α) (idx : List Nat) (hp : idx.Pairwise (· < ·))
    (hr : ∀ i ∈ idx, i < l.length) : (idx.map fun i => l.getD i d).Sublist l := by
  have := idx_sublist d l idx 0 hp (fun i hi => ⟨Nat.zero_le _, by simpa using hr i hi⟩)
  simpa using this

end GtModel.Lazy

/-
  WeightedBipartiteMatcher, part A: matrices of intervals, the exposed interval of the matcher as a function of the
  edges' intervals (`wmForm`), its monotonicity, and the chain
      k smallest row minima ≤ Σ matched lo ≤ Σ matched final ≤ Σ matched hi ≤ k largest row maxima.
-/
import GtModel.Proofs.LazySort2
import GtModel.Proofs.LazyEdD

namespace GtModel.Lazy

/-! ### maximum of a list -/

theorem nmax (a b : Nat) : Nat.max a b = max a b := rfl

theorem foldl_max_ge_acc : ∀ (l : List Nat) (a : Nat), a ≤ l.foldl Nat.max a
  | [], _ => Nat.le_refl _
  | x :: xs, a => by
      have := foldl_max_ge_acc xs (Nat.max a x)
      simp only [List.foldl, nmax] at this ⊢
      omega

theorem foldl_max_ge_mem : ∀ (l : List Nat) (a x : Nat), x ∈ l → x ≤ l.foldl Nat.max a
  | [], _, _, h => by simp at h
  | y :: ys, a, x, h => by
      simp only [List.foldl]
      rcases List.mem_cons.mp h with rfl | h
      · have := foldl_max_ge_acc ys (Nat.max a x)
        simp only [nmax] at this ⊢; omega
      · exact foldl_max_ge_mem ys _ x h

theorem foldl_max_mem : ∀ (l : List Nat) (a : Nat), l.foldl Nat.max a = a ∨ l.foldl Nat.max a ∈ l
  | [], _ => Or.inl rfl
  | y :: ys, a => by
      simp only [List.foldl]
      rcases foldl_max_mem ys (Nat.max a y) with h | h
      · rw [h]
        simp only [nmax]
        by_cases hh : y ≤ a
        · left; omega
        · right; simp; left; omega
      · right; simp [h]

theorem maxD_ge {l : List Nat} {x : Nat} (h : x ∈ l) : x ≤ maxD l := by
  cases l with
  | nil => simp at h
  | cons y ys =>
    simp only [maxD]
    rcases List.mem_cons.mp h with rfl | h
    · exact foldl_max_ge_acc ys x
    · exact foldl_max_ge_mem ys y x h

theorem maxD_mem {l : List Nat} (h : l ≠ []) : maxD l ∈ l := by
  cases l with
  | nil => exact absurd rfl h
  | cons y ys =>
    simp only [maxD]
    rcases foldl_max_mem ys y with h | h
    · rw [h]; simp
    · simp [h]

theorem maxList_eq {l : List Nat} (h : l ≠ []) : maxList l = .ok (maxD l) := by
  cases l with
  | nil => exact absurd rfl h
  | cons y ys => simp [maxList, maxD, pure, Except.pure]

/-! ### matrices of intervals -/

/-- `b` lies inside `a`, entry by entry (same shape) -/
def SubL : List Iv → List Iv → Prop
  | [], [] => True
  | x :: xs, y :: ys => (x.lo ≤ y.lo ∧ y.hi ≤ x.hi) ∧ SubL xs ys
  | _, _ => False

def SubLL : List (List Iv) → List (List Iv) → Prop
  | [], [] => True
  | r :: rs, r' :: rs' => SubL r r' ∧ SubLL rs rs'
  | _, _ => False

theorem SubL.refl : ∀ (a : List Iv), SubL a a
  | [] => trivial
  | _ :: xs => ⟨⟨Nat.le_refl _, Nat.le_refl _⟩, SubL.refl xs⟩

theorem SubLL.refl : ∀ (a : List (List Iv)), SubLL a a
  | [] => trivial
  | r :: rs => ⟨SubL.refl r, SubLL.refl rs⟩

theorem SubL.pwLo : ∀ {a b : List Iv}, SubL a b → PW (a.map (·.lo)) (b.map (·.lo))
  | [], [], _ => trivial
  | _ :: _, _ :: _, h => ⟨h.1.1, SubL.pwLo h.2⟩
  | [], _ :: _, h => h.elim
  | _ :: _, [], h => h.elim

theorem SubL.pwHi : ∀ {a b : List Iv}, SubL a b → PW (b.map (·.hi)) (a.map (·.hi))
  | [], [], _ => trivial
  | _ :: _, _ :: _, h => ⟨h.1.2, SubL.pwHi h.2⟩
  | [], _ :: _, h => h.elim
  | _ :: _, [], h => h.elim

theorem SubL.get : ∀ {a b : List Iv} (j : Nat), SubL a b →
    (a.getD j ⟨0, 0⟩).lo ≤ (b.getD j ⟨0, 0⟩).lo ∧ (b.getD j ⟨0, 0⟩).hi ≤ (a.getD j ⟨0, 0⟩).hi
  | [], [], _, _ => by simp
  | _ :: _, _ :: _, 0, h => by simpa using h.1
  | _ :: _, _ :: _, j + 1, h => by simpa using SubL.get j h.2
  | [], _ :: _, _, h => h.elim
  | _ :: _, [], _, h => h.elim

theorem SubLL.row : ∀ {a b : List (List Iv)} (i : Nat), SubLL a b → SubL (a.getD i []) (b.getD i [])
  | [], [], _, _ => by simp [SubL]
  | _ :: _, _ :: _, 0, h => by simpa using h.1
  | _ :: _, _ :: _, i + 1, h => by simpa using SubLL.row i h.2
  | [], _ :: _, _, h => h.elim
  | _ :: _, [], _, h => h.elim

theorem SubLL.at {a b : List (List Iv)} (h : SubLL a b) (p : Nat × Nat) :
    (ivAt a p).lo ≤ (ivAt b p).lo ∧ (ivAt b p).hi ≤ (ivAt a p).hi :=
  SubL.get p.2 (SubLL.row p.1 h)

/-! ### row minima / maxima -/

theorem PW.exists_le : ∀ {a b : List Nat}, PW a b → ∀ y ∈ b, ∃ x ∈ a, x ≤ y
  | [], [], _ => by simp
  | x :: _, y :: _, h => by
      intro z hz
      rcases List.mem_cons.mp hz with rfl | hz
      · exact ⟨x, by simp, h.1⟩
      · obtain ⟨w, hw, hle⟩ := PW.exists_le h.2 z hz
        exact ⟨w, by simp [hw], hle⟩
  | [], _ :: _, h => h.elim
  | _ :: _, [], h => h.elim

theorem PW.exists_ge : ∀ {a b : List Nat}, PW a b → ∀ x ∈ a, ∃ y ∈ b, x ≤ y
  | [], [], _ => by simp
  | x :: _, y :: _, h => by
      intro z hz
      rcases List.mem_cons.mp hz with rfl | hz
      · exact ⟨y, by simp, h.1⟩
      · obtain ⟨w, hw, hle⟩ := PW.exists_ge h.2 z hz
        exact ⟨w, by simp [hw], hle⟩
  | [], _ :: _, h => h.elim
  | _ :: _, [], h => h.elim

theorem minD_mono {a b : List Nat} (h : PW a b) : minD a ≤ minD b := by
  by_cases hb : b = []
  · subst hb
    cases a with
    | nil => exact Nat.le_refl _
    | cons _ _ => exact h.elim
  · obtain ⟨x, hx, hle⟩ := h.exists_le _ (minD_mem hb)
    exact Nat.le_trans (minD_le hx) hle

theorem maxD_mono {a b : List Nat} (h : PW a b) : maxD a ≤ maxD b := by
  by_cases ha : a = []
  · subst ha
    cases b with
    | nil => exact Nat.le_refl _
    | cons _ _ => exact h.elim
  · obtain ⟨y, hy, hle⟩ := h.exists_ge _ (maxD_mem ha)
    exact Nat.le_trans hle (maxD_ge hy)

theorem SubLL.pwMin : ∀ {a b : List (List Iv)}, SubLL a b → PW (a.map rowMinV) (b.map rowMinV)
  | [], [], _ => trivial
  | _ :: _, _ :: _, h => ⟨minD_mono (SubL.pwLo h.1), SubLL.pwMin h.2⟩
  | [], _ :: _, h => h.elim
  | _ :: _, [], h => h.elim

theorem SubLL.pwMax : ∀ {a b : List (List Iv)}, SubLL a b → PW (b.map rowMaxV) (a.map rowMaxV)
  | [], [], _ => trivial
  | _ :: _, _ :: _, h => ⟨maxD_mono (SubL.pwHi h.1), SubLL.pwMax h.2⟩
  | [], _ :: _, h => h.elim
  | _ :: _, [], h => h.elim

/-! ### the matcher's interval as a function of the edges' intervals -/

theorem sum_map_le' {α : Type} (l : List α) (f h : α → Nat) (hle : ∀ x ∈ l, f x ≤ h x) :
    (l.map f).sum ≤ (l.map h).sum := by
  induction l with
  | nil => simp
  | cons x xs ih =>
    have := hle x (by simp)
    have := ih (fun y hy => hle y (by simp [hy]))
    simp; omega

/-- the formula only shrinks when the edges' intervals shrink -/
theorem wmForm_mono (w : WmSt) {a b : List (List Iv)} (h : SubLL a b) (hk : Nat.min w.nf w.nt ≤ a.length) :
    (wmForm w a).lo ≤ (wmForm w b).lo ∧ (wmForm w b).hi ≤ (wmForm w a).hi := by
  unfold wmForm
  split
  · exact ⟨Nat.le_refl _, Nat.le_refl _⟩
  · split
    · have h1 := h.pwMin
      have h2 := h.pwMax
      exact ⟨ksm_mono h1 _ (by simpa using hk),
        klg_mono h2 _ (by rw [h2.length]; simpa using hk)⟩
    · exact ⟨sum_map_le' _ _ _ (fun p _ => (h.at p).1), sum_map_le' _ _ _ (fun p _ => (h.at p).2)⟩

end GtModel.Lazy

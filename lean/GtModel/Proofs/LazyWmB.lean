/-
  WeightedBipartiteMatcher, part B: the static facts about the assignment, the chain of inequalities, the invariant.
-/
import GtModel.Proofs.LazyWmA

namespace GtModel.Lazy

attribute [-simp] List.getD_eq_getElem?_getD

theorem getD_mem_of_lt {α : Type} (l : List α) (d : α) (i : Nat) (h : i < l.length) : l.getD i d ∈ l := by
  simp [List.getD_eq_getElem?_getD, h]

theorem getD_map' {α β : Type} (l : List α) (f : α → β) (d : α) (d' : β) (i : Nat) (h : i < l.length) :
    (l.map f).getD i d' = f (l.getD i d) := by
  simp [List.getD_eq_getElem?_getD, h]

section
variable (w : WmSt) (vm : List (List Iv)) (fm : List (List Nat))

/-- k smallest row minima ≤ Σ matched lo, Σ matched hi ≤ k largest row maxima -/
theorem wm_chain_outer (ok : AssignOK w) (hl : vm.length = w.nf) (hr : ∀ row ∈ vm, row.length = w.nt) :
    ksm (Nat.min w.nf w.nt) (vm.map rowMinV) ≤ (w.assign.map fun p => (ivAt vm p).lo).sum ∧
    (w.assign.map fun p => (ivAt vm p).hi).sum ≤ klg (Nat.min w.nf w.nt) (vm.map rowMaxV) := by
  have hidx : ∀ i ∈ w.assign.map (·.1), i < vm.length := by
    intro i hi
    obtain ⟨p, hp, rfl⟩ := List.mem_map.mp hi
    rw [hl]; exact (ok.inRange p hp).1
  have hrow : ∀ p ∈ w.assign, (ivAt vm p) ∈ vm.getD p.1 [] := by
    intro p hp
    have h1 := (ok.inRange p hp)
    have hm := getD_mem_of_lt vm [] p.1 (by rw [hl]; exact h1.1)
    exact getD_mem_of_lt _ _ p.2 (by rw [hr _ hm]; exact h1.2)
  constructor
  · -- lower end
    have s1 := idx_sublist0 0 (vm.map rowMinV) (w.assign.map (·.1)) ok.sortedF (by simpa using hidx)
    have s2 := ksm_le_sublist _ _ s1
    simp only [List.length_map, ok.full] at s2
    refine Nat.le_trans s2 ?_
    rw [List.map_map]
    apply sum_map_le'
    intro p hp
    simp only [Function.comp]
    rw [getD_map' vm rowMinV [] 0 p.1 (by rw [hl]; exact (ok.inRange p hp).1)]
    exact minD_le (List.mem_map_of_mem (hrow p hp))
  · -- upper end
    have s1 := idx_sublist0 0 (vm.map rowMaxV) (w.assign.map (·.1)) ok.sortedF (by simpa using hidx)
    have s2 := sublist_le_klg _ _ s1
    simp only [List.length_map, ok.full] at s2
    refine Nat.le_trans ?_ s2
    rw [List.map_map]
    apply sum_map_le'
    intro p hp
    simp only [Function.comp]
    rw [getD_map' vm rowMaxV [] 0 p.1 (by rw [hl]; exact (ok.inRange p hp).1)]
    exact maxD_ge (List.mem_map_of_mem (hrow p hp))

end

/-! ### the invariant of a matcher over machines -/

/-- the matrix of the edges' intervals -/
def viewM (g : Ghost) (edges : List (List M)) : List (List Iv) := edges.map (·.map g.view)

def wmFin (g : Ghost) (w : WmSt) (edges : List (List M)) : Nat := (w.assign.map (finAt (finM g edges))).sum

structure WmInv (g : Ghost) (w : WmSt) (edges : List (List M)) : Prop where
  shape : MShape edges w.nf w.nt
  edgesI : ∀ row ∈ edges, ∀ m ∈ row, g.I m
  ok : AssignOK w
  mt : ∀ pairs, w.mtch = some pairs → pairs = w.assign
  memo : ∀ b, w.memo = some b →
    b = Iv.point (wmFin g w edges) ∧ ∀ p ∈ w.assign, (ivAt (viewM g edges) p).lo = (ivAt (viewM g edges) p).hi

section
variable {g : Ghost} {w : WmSt} {edges : List (List M)}

theorem viewM_length : (viewM g edges).length = edges.length := by simp [viewM]

theorem viewM_row (inv : WmInv g w edges) : ∀ row ∈ viewM g edges, row.length = w.nt := by
  intro row hrow
  obtain ⟨r, hr, rfl⟩ := List.mem_map.mp hrow
  simp [inv.shape.2 r hr]

theorem mget_at' {nf nt : Nat} (sh : MShape edges nf nt) {p : Nat × Nat} (h1 : p.1 < nf) (h2 : p.2 < nt) :
    ∃ m, mget edges p.1 p.2 = .ok m ∧ ivAt (viewM g edges) p = g.view m ∧ finAt (finM g edges) p = g.fin m := by
  obtain ⟨m, hm⟩ := mget_ok sh h1 h2
  obtain ⟨row, hr1, hr2⟩ := mget_some hm
  refine ⟨m, hm, ?_, ?_⟩
  · simp [ivAt, viewM, List.getD_eq_getElem?_getD, hr1, hr2]
  · simp [finAt, finM, List.getD_eq_getElem?_getD, hr1, hr2]

theorem mget_at (inv : WmInv g w edges) {p : Nat × Nat} (h1 : p.1 < w.nf) (h2 : p.2 < w.nt) :
    ∃ m, mget edges p.1 p.2 = .ok m ∧ ivAt (viewM g edges) p = g.view m ∧ finAt (finM g edges) p = g.fin m := by
  obtain ⟨m, hm⟩ := mget_ok inv.shape h1 h2
  obtain ⟨row, hr1, hr2⟩ := mget_some hm
  refine ⟨m, hm, ?_, ?_⟩
  · simp [ivAt, viewM, List.getD_eq_getElem?_getD, hr1, hr2]
  · simp [finAt, finM, List.getD_eq_getElem?_getD, hr1, hr2]

/-- the middle of the chain: lo ≤ fin ≤ hi at every matched edge -/
theorem wm_chain_mid {rec : Ops} (h : Protocol rec g) (inv : WmInv g w edges) :
    (w.assign.map fun p => (ivAt (viewM g edges) p).lo).sum ≤ wmFin g w edges ∧
    wmFin g w edges ≤ (w.assign.map fun p => (ivAt (viewM g edges) p).hi).sum := by
  constructor
  · apply sum_map_le'
    intro p hp
    obtain ⟨m, hm, e1, e2⟩ := mget_at inv (inv.ok.inRange p hp).1 (inv.ok.inRange p hp).2
    rw [e1, e2]
    exact (h.wf m (mget_inv inv.edgesI hm)).1
  · apply sum_map_le'
    intro p hp
    obtain ⟨m, hm, e1, e2⟩ := mget_at inv (inv.ok.inRange p hp).1 (inv.ok.inRange p hp).2
    rw [e1, e2]
    exact (h.wf m (mget_inv inv.edgesI hm)).2

/-- the formula contains the matcher's final value -/
theorem wmForm_wf {rec : Ops} (h : Protocol rec g) (inv : WmInv g w edges) :
    (wmForm w (viewM g edges)).lo ≤ wmFin g w edges ∧ wmFin g w edges ≤ (wmForm w (viewM g edges)).hi := by
  have mid := wm_chain_mid h inv
  have outer := wm_chain_outer w (viewM g edges) inv.ok (by rw [viewM_length, inv.shape.1]) (viewM_row inv)
  unfold wmForm
  split
  · rename_i hz
    -- no from-nodes or no to-nodes: the assignment is empty
    have hfull := inv.ok.full
    have : w.assign = [] := by
      apply List.eq_nil_of_length_eq_zero
      rw [hfull]
      simp only [Bool.or_eq_true, beq_iff_eq] at hz
      show min w.nf w.nt = 0
      omega
    simp [wmFin, this, Iv.point]
  · cases hm : w.mtch with
    | none => simp only; omega
    | some pairs =>
      have := inv.mt pairs hm
      subst this
      simp only; omega

theorem wmView_wf {rec : Ops} (h : Protocol rec g) (inv : WmInv g w edges) :
    (wmViewV w (viewM g edges)).lo ≤ wmFin g w edges ∧ wmFin g w edges ≤ (wmViewV w (viewM g edges)).hi := by
  unfold wmViewV
  cases hm : w.memo with
  | none => exact wmForm_wf h inv
  | some b =>
    have := (inv.memo b hm).1
    subst this
    simp [Iv.point]

end

end GtModel.Lazy

/-
  WeightedBipartiteMatcher, part C: reading the edges (`wmPass`), `bounds()`.
-/
import GtModel.Proofs.LazyWmB

namespace GtModel.Lazy

attribute [-simp] List.getD_eq_getElem?_getD

section
variable {rec : Ops} {g : Ghost}

/-! ### matrices after reads / refinements -/

/-- `b` is `a` after operations that do not refine -/
def PresLL (g : Ghost) (a b : List (List M)) : Prop := KeepsLL g a b ∧ viewM g b = viewM g a

theorem PresLL.refl (t : List (List M)) (h : ∀ row ∈ t, ∀ m ∈ row, g.I m) : PresLL g t t :=
  ⟨KeepsLL.refl t h, rfl⟩

theorem PresLL.trans {a b c : List (List M)} (h1 : PresLL g a b) (h2 : PresLL g b c) : PresLL g a c :=
  ⟨h1.1.trans h2.1, h2.2.trans h1.2⟩

theorem KeepsL.subV : ∀ {a b : List M}, KeepsL g a b → SubL (a.map g.view) (b.map g.view)
  | [], [], _ => trivial
  | _ :: _, _ :: _, h => ⟨h.1.sub, KeepsL.subV h.2⟩
  | [], _ :: _, h => h.elim
  | _ :: _, [], h => h.elim

theorem KeepsLL.subV : ∀ {a b : List (List M)}, KeepsLL g a b → SubLL (viewM g a) (viewM g b)
  | [], [], _ => trivial
  | _ :: _, _ :: _, h => ⟨KeepsL.subV h.1, KeepsLL.subV h.2⟩
  | [], _ :: _, h => h.elim
  | _ :: _, [], h => h.elim

theorem KeepsLL.length : ∀ {a b : List (List M)}, KeepsLL g a b → b.length = a.length
  | [], [], _ => rfl
  | _ :: _, _ :: _, h => by simp [KeepsLL.length h.2]
  | [], _ :: _, h => h.elim
  | _ :: _, [], h => h.elim

/-- the invariant survives refinements of the edges -/
theorem WmInv.keeps (h : Protocol rec g) {w : WmSt} {a b : List (List M)} (inv : WmInv g w a) (k : KeepsLL g a b) :
    WmInv g w b := by
  refine ⟨k.shape inv.shape, k.inv, inv.ok, inv.mt, ?_⟩
  intro bb hb
  obtain ⟨e1, e2⟩ := inv.memo bb hb
  have hf : wmFin g w b = wmFin g w a := by simp only [wmFin, k.finM]
  refine ⟨by rw [hf]; exact e1, ?_⟩
  intro p hp
  have hs := (k.subV).at p
  have hd := e2 p hp
  obtain ⟨m, hm, e3, _⟩ := mget_at' (g := g) (k.shape inv.shape) (inv.ok.inRange p hp).1 (inv.ok.inRange p hp).2
  have hw := h.wf m (mget_inv k.inv hm)
  rw [e3] at hs ⊢
  omega

/-! ### reading every edge -/

theorem wmRowPass_ok (h : Protocol rec g) : ∀ (row : List M), (∀ m ∈ row, g.I m) →
    ∃ row', wmRowPass rec row = .ok (row', row.map g.view) ∧ KeepsL g row row' ∧ row'.map g.view = row.map g.view
  | [], _ => ⟨[], rfl, trivial, rfl⟩
  | e :: es, hI => by
      obtain ⟨e', he, pe, _⟩ := h.bounds e (hI e (by simp))
      obtain ⟨es', hes, k, hv⟩ := wmRowPass_ok h es (fun m hm => hI m (by simp [hm]))
      exact ⟨e' :: es', by simp [wmRowPass, he, hes, bind, Except.bind, pure, Except.pure], ⟨pe.keeps, k⟩,
        by simp [pe.view, hv]⟩

theorem wmPass_ok (h : Protocol rec g) : ∀ (edges : List (List M)), (∀ row ∈ edges, ∀ m ∈ row, g.I m) →
    ∃ e', wmPass rec edges = .ok (e', viewM g edges) ∧ PresLL g edges e'
  | [], _ => ⟨[], rfl, trivial, rfl⟩
  | row :: rows, hI => by
      obtain ⟨row', hr, k, hv⟩ := wmRowPass_ok h row (hI row (by simp))
      obtain ⟨rows', hrs, kk, hvv⟩ := wmPass_ok h rows (fun r hr m hm => hI r (by simp [hr]) m hm)
      refine ⟨row' :: rows', by simp [wmPass, hr, hrs, bind, Except.bind, pure, Except.pure, viewM], ⟨k, kk⟩, ?_⟩
      simp only [viewM, List.map_cons] at hvv ⊢
      rw [hv, hvv]

theorem mapM_minList : ∀ (vm : List (List Iv)), (∀ row ∈ vm, row ≠ []) →
    vm.mapM (fun row => minList (row.map (·.lo))) = .ok (vm.map rowMinV)
  | [], _ => rfl
  | row :: rows, hne => by
      have h1 : minList (row.map (·.lo)) = .ok (rowMinV row) :=
        minList_eq (by simpa using hne row (by simp))
      have h2 := mapM_minList rows (fun r hr => hne r (by simp [hr]))
      simp only [List.mapM_cons, bind, Except.bind, h1, h2, List.map, pure, Except.pure]

theorem mapM_maxList : ∀ (vm : List (List Iv)), (∀ row ∈ vm, row ≠ []) →
    vm.mapM (fun row => maxList (row.map (·.hi))) = .ok (vm.map rowMaxV)
  | [], _ => rfl
  | row :: rows, hne => by
      have h1 : maxList (row.map (·.hi)) = .ok (rowMaxV row) :=
        maxList_eq (by simpa using hne row (by simp))
      have h2 := mapM_maxList rows (fun r hr => hne r (by simp [hr]))
      simp only [List.mapM_cons, bind, Except.bind, h1, h2, List.map, pure, Except.pure]

theorem sum_eq_pointwise {α : Type} (l : List α) (f h : α → Nat) (hle : ∀ x ∈ l, f x ≤ h x)
    (hs : (l.map h).sum ≤ (l.map f).sum) : ∀ x ∈ l, f x = h x := by
  induction l with
  | nil => simp
  | cons y ys ih =>
    have h1 := hle y (by simp)
    have h2 := sum_map_le' ys f h (fun x hx => hle x (by simp [hx]))
    simp only [List.map_cons, List.sum_cons] at hs
    intro x hx
    rcases List.mem_cons.mp hx with rfl | hx
    · omega
    · exact ih (fun z hz => hle z (by simp [hz])) (by omega) x hx

/-- same control state apart from the memo -/
def SameW (w w' : WmSt) : Prop :=
  w'.nf = w.nf ∧ w'.nt = w.nt ∧ w'.distinct = w.distinct ∧ w'.mtch = w.mtch ∧ w'.assign = w.assign ∧
    w'.mdCounts = w.mdCounts

theorem set_same {α : Type} {l : List α} {i : Nat} {x : α} (h : l[i]? = some x) : l.set i x = l := by
  obtain ⟨hi, rfl⟩ := List.getElem?_eq_some_iff.mp h
  exact List.set_getElem_self hi

/-- replacing an edge by one with the same interval does not change the matrix of intervals -/
theorem viewM_set {edges : List (List M)} {i j : Nat} {row : List M} {x y : M} (h1 : edges[i]? = some row)
    (h2 : row[j]? = some x) (hv : g.view y = g.view x) : viewM g (edges.set i (row.set j y)) = viewM g edges := by
  simp only [viewM, List.map_set, hv]
  have e1 : (row.map g.view).set j (g.view x) = row.map g.view := set_same (by simp [h2])
  rw [e1]
  exact set_same (by simp [h1])

/-- the loop of `bounds()` over the matched edges -/
theorem wmBounds_go_ok (h : Protocol rec g) {nf nt : Nat} : ∀ (pairs : List (Nat × Nat)) (edges : List (List M))
    (lb ub : Nat), MShape edges nf nt → (∀ row ∈ edges, ∀ m ∈ row, g.I m) → (∀ p ∈ pairs, p.1 < nf ∧ p.2 < nt) →
    ∃ e', wmBounds.go rec edges lb ub pairs = .ok (e', lb + (pairs.map fun p => (ivAt (viewM g edges) p).lo).sum,
        ub + (pairs.map fun p => (ivAt (viewM g edges) p).hi).sum) ∧ PresLL g edges e'
  | [], edges, lb, ub, _, hI, _ => ⟨edges, by simp [wmBounds.go, pure, Except.pure], PresLL.refl edges hI⟩
  | (i, j) :: rest, edges, lb, ub, sh, hI, hr => by
      have hij := hr (i, j) (by simp)
      obtain ⟨m, hm, e1, _⟩ := mget_at' (g := g) (p := (i, j)) sh hij.1 hij.2
      obtain ⟨m1, hb1, p1, _⟩ := h.bounds m (mget_inv hI hm)
      obtain ⟨m2, hb2, p2, _⟩ := h.bounds m1 p1.inv
      obtain ⟨t', hs, kk, hg, hother⟩ := mset_keeps hI hm ((p1.trans p2).keeps)
      have hv : viewM g t' = viewM g edges := by
        obtain ⟨row, h1, h2⟩ := mget_some hm
        have hc : j < row.length := (List.getElem?_eq_some_iff.mp h2).1
        simp only [mset, h1, hc, if_true, pure, Except.pure, Except.ok.injEq] at hs
        subst hs
        exact viewM_set h1 h2 (p1.trans p2).view
      obtain ⟨e', hgo, pp⟩ := wmBounds_go_ok h rest t' (lb + (g.view m).lo) (ub + (g.view m1).hi) (kk.shape sh) kk.inv
        (fun p hp => hr p (by simp [hp]))
      refine ⟨e', ?_, PresLL.trans ⟨kk, hv⟩ pp⟩
      simp only [wmBounds.go, hm, hb1, hb2, hs, bind, Except.bind, List.map_cons, List.sum_cons, e1, p1.view]
      rw [hv, p1.view] at hgo
      rw [hgo, Nat.add_assoc, Nat.add_assoc]

/-- the formula lies around the sums over the matched edges -/
theorem wmForm_outer {w : WmSt} {edges : List (List M)} (inv : WmInv g w edges) :
    (wmForm w (viewM g edges)).lo ≤ (w.assign.map fun p => (ivAt (viewM g edges) p).lo).sum ∧
    (w.assign.map fun p => (ivAt (viewM g edges) p).hi).sum ≤ (wmForm w (viewM g edges)).hi := by
  have outer := wm_chain_outer w (viewM g edges) inv.ok (by rw [viewM_length, inv.shape.1]) (viewM_row inv)
  unfold wmForm
  split
  · rename_i hz
    have hfull := inv.ok.full
    have : w.assign = [] := by
      apply List.eq_nil_of_length_eq_zero
      rw [hfull]
      simp only [Bool.or_eq_true, beq_iff_eq] at hz
      show min w.nf w.nt = 0
      omega
    simp [this, Iv.point]
  · cases hm : w.mtch with
    | none => exact outer
    | some pairs =>
      have := inv.mt pairs hm
      subst this
      exact ⟨Nat.le_refl _, Nat.le_refl _⟩

/-- a definitive formula means definitive matched edges -/
theorem wmForm_def_edges (h : Protocol rec g) {w : WmSt} {edges : List (List M)} (inv : WmInv g w edges)
    (hd : (wmForm w (viewM g edges)).lo = (wmForm w (viewM g edges)).hi) :
    ∀ p ∈ w.assign, (ivAt (viewM g edges) p).lo = (ivAt (viewM g edges) p).hi := by
  have outer := wmForm_outer inv
  apply sum_eq_pointwise
  · intro p hp
    obtain ⟨m, hm, e1, _⟩ := mget_at inv (inv.ok.inRange p hp).1 (inv.ok.inRange p hp).2
    rw [e1]
    have := h.wf m (mget_inv inv.edgesI hm)
    omega
  · omega

/-- installing the memo -/
theorem WmInv.setMemo (h : Protocol rec g) {w : WmSt} {edges : List (List M)} (inv : WmInv g w edges)
    (hm : w.memo = none) :
    WmInv g { w with memo := if (wmForm w (viewM g edges)).definitive then some (wmForm w (viewM g edges)) else none }
      edges ∧
    wmViewV { w with memo := if (wmForm w (viewM g edges)).definitive then some (wmForm w (viewM g edges)) else none }
      (viewM g edges) = wmForm w (viewM g edges) := by
  constructor
  · refine ⟨inv.shape, inv.edgesI, ⟨inv.ok.inRange, inv.ok.sortedF, inv.ok.nodupT, inv.ok.full⟩, inv.mt, ?_⟩
    intro b hb
    simp only at hb
    split at hb
    · rename_i hd
      cases hb
      have hd' := (Iv.definitive_iff _).mp hd
      have wf := wmForm_wf h inv
      refine ⟨?_, fun p hp => wmForm_def_edges h inv hd' p hp⟩
      have e : wmFin g { w with memo := some (wmForm w (viewM g edges)) } edges = wmFin g w edges := rfl
      cases hf : wmForm w (viewM g edges) with
      | mk lo hi =>
        rw [hf] at hd' wf
        simp only [Iv.point, wmFin] at *
        congr 1 <;> omega
    · cases hb
  · simp only [wmViewV]
    split
    · rename_i b hb
      split at hb
      · cases hb; rfl
      · cases hb
    · rfl

theorem mk?_ok (lo hi : Nat) (h : lo ≤ hi) : Iv.mk? lo hi = .ok ⟨lo, hi⟩ := by
  have : ¬ hi < lo := by omega
  simp [Iv.mk?, this, pure, Except.pure]

theorem SameW.refl (w : WmSt) : SameW w w := ⟨rfl, rfl, rfl, rfl, rfl, rfl⟩

/-- `WeightedBipartiteMatcher.bounds()` -/
theorem wmBounds_ok (h : Protocol rec g) {w : WmSt} {edges : List (List M)} (inv : WmInv g w edges) :
    ∃ w' e', wmBounds rec w edges = .ok (w', e', wmViewV w (viewM g edges)) ∧ PresLL g edges e' ∧ WmInv g w' e' ∧
      SameW w w' ∧ wmViewV w' (viewM g e') = wmViewV w (viewM g edges) := by
  cases hm : w.memo with
  | some b =>
    exact ⟨w, edges, by simp [wmBounds, hm, wmViewV, pure, Except.pure], PresLL.refl edges inv.edgesI, inv,
      SameW.refl w, rfl⟩
  | none =>
    have hview : wmViewV w (viewM g edges) = wmForm w (viewM g edges) := by simp [wmViewV, hm]
    by_cases hz : (w.nf == 0 || w.nt == 0) = true
    · have hform : wmForm w (viewM g edges) = Iv.point 0 := by simp [wmForm, hz]
      obtain ⟨i1, i2⟩ := WmInv.setMemo h inv hm
      rw [hform] at i1 i2
      have hd : (Iv.point 0).definitive = true := rfl
      simp only [hd, if_true] at i1 i2
      refine ⟨_, edges, ?_, PresLL.refl edges inv.edgesI, i1, ⟨rfl, rfl, rfl, rfl, rfl, rfl⟩, ?_⟩
      · simp [wmBounds, hm, hz, hview, hform, pure, Except.pure]
      · rw [i2, hview, hform]
    · have hnz : 0 < w.nf ∧ 0 < w.nt := by
        simp only [Bool.or_eq_true, beq_iff_eq, not_or] at hz
        omega
      cases hmt : w.mtch with
      | none =>
        obtain ⟨e1, hp1, pp1⟩ := wmPass_ok h edges inv.edgesI
        obtain ⟨e2, hp2, pp2⟩ := wmPass_ok h e1 pp1.1.inv
        have hne : ∀ row ∈ viewM g edges, row ≠ [] := by
          intro row hrow hnil
          have := viewM_row inv row hrow
          rw [hnil] at this; simp at this; omega
        have hform : wmForm w (viewM g edges) = ⟨ksm (Nat.min w.nf w.nt) ((viewM g edges).map rowMinV),
            klg (Nat.min w.nf w.nt) ((viewM g edges).map rowMaxV)⟩ := by simp [wmForm, hz, hmt]
        have wf := wmForm_wf h inv
        rw [hform] at wf
        have inv2 : WmInv g w e2 := inv.keeps h (pp1.trans pp2).1
        have hv2 : viewM g e2 = viewM g edges := (pp1.trans pp2).2
        obtain ⟨i1, i2⟩ := WmInv.setMemo h inv2 hm
        rw [hv2] at i1 i2
        refine ⟨_, e2, ?_, pp1.trans pp2, i1, ⟨rfl, rfl, rfl, rfl, rfl, rfl⟩, ?_⟩
        · have hle : ((sortNat ((viewM g edges).map rowMinV)).take (Nat.min w.nf w.nt)).sum ≤
              ((sortNat ((viewM g edges).map rowMaxV)).reverse.take (Nat.min w.nf w.nt)).sum := by
            simp only at wf
            exact Nat.le_trans wf.1 wf.2
          simp only [wmBounds, hm, hz, hmt, hp1, hp2, bind, Except.bind, mapM_minList _ hne, pp1.2,
            mapM_maxList _ hne, mk?_ok _ _ hle, pure, Except.pure, hview, hform]
          rfl
        · rw [hv2, i2, hview]
      | some pairs =>
        have hpa := inv.mt pairs hmt
        subst hpa
        obtain ⟨e1, hgo, pp⟩ := wmBounds_go_ok h w.assign edges 0 0 inv.shape inv.edgesI inv.ok.inRange
        have hform : wmForm w (viewM g edges) = ⟨(w.assign.map fun p => (ivAt (viewM g edges) p).lo).sum,
            (w.assign.map fun p => (ivAt (viewM g edges) p).hi).sum⟩ := by simp [wmForm, hz, hmt]
        have wf := wmForm_wf h inv
        rw [hform] at wf
        have inv2 : WmInv g w e1 := inv.keeps h pp.1
        obtain ⟨i1, i2⟩ := WmInv.setMemo h inv2 hm
        rw [pp.2] at i1 i2
        refine ⟨_, e1, ?_, pp, i1, ⟨rfl, rfl, rfl, rfl, rfl, rfl⟩, ?_⟩
        · have hle : (w.assign.map fun p => (ivAt (viewM g edges) p).lo).sum ≤
              (w.assign.map fun p => (ivAt (viewM g edges) p).hi).sum := by
            simp only at wf
            exact Nat.le_trans wf.1 wf.2
          simp only [Nat.zero_add] at hgo
          simp only [wmBounds, hm, hz, hmt, hgo, bind, Except.bind, mk?_ok _ _ hle, pure, Except.pure, hview, hform]
          rfl
        · rw [pp.2, i2, hview]

end

end GtModel.Lazy

/-
  WeightedBipartiteMatcher, part D: `make_distinct` replay, forcing the matching, `tighten_bounds()`.
-/
import GtModel.Proofs.LazyWmC

namespace GtModel.Lazy

attribute [-simp] List.getD_eq_getElem?_getD

section
variable {rec : Ops} {g : Ghost}

/-! ### make_distinct -/

theorem mdArg_ok (h : Protocol rec g) : ∀ (k : Nat) (e : M), g.I e → ∃ e' b, mdArg rec k e = .ok (e', b) ∧ Keeps g e e'
  | 0, e, hI => by
      obtain ⟨e', he, p, _⟩ := h.bounds e hI
      exact ⟨e', g.view e, by simp [mdArg, he], p.keeps⟩
  | k + 1, e, hI => by
      obtain ⟨e1, he1, p1, _⟩ := h.bounds e hI
      obtain ⟨e2, r, he2, st⟩ := h.tighten e1 p1.inv
      obtain ⟨e3, b, he3, k3⟩ := mdArg_ok h k e2 st.inv
      exact ⟨e3, b, by simp [mdArg, he1, he2, he3, bind, Except.bind], (p1.keeps.trans st.keeps).trans k3⟩

theorem mdRow_ok (h : Protocol rec g) : ∀ (row : List M) (cs : List Nat), (∀ m ∈ row, g.I m) →
    ∃ row' bs, mdRow rec row cs = .ok (row', bs) ∧ KeepsL g row row'
  | [], _, _ => ⟨[], [], rfl, trivial⟩
  | e :: es, cs, hI => by
      obtain ⟨e', b, he, k⟩ := mdArg_ok h (cs.headD 0) e (hI e (by simp))
      obtain ⟨es', bs, hes, ks⟩ := mdRow_ok h es cs.tail (fun m hm => hI m (by simp [hm]))
      exact ⟨e' :: es', b :: bs, by simp only [mdRow, he, hes, bind, Except.bind, pure, Except.pure], ⟨k, ks⟩⟩

theorem mdAll_ok (h : Protocol rec g) : ∀ (edges : List (List M)) (cs : List (List Nat)),
    (∀ row ∈ edges, ∀ m ∈ row, g.I m) → ∃ e' bs, mdAll rec edges cs = .ok (e', bs) ∧ KeepsLL g edges e'
  | [], _, _ => ⟨[], [], rfl, trivial⟩
  | row :: rows, cs, hI => by
      obtain ⟨row', bs, hr, k⟩ := mdRow_ok h row (cs.headD []) (hI row (by simp))
      obtain ⟨rows', bss, hrs, ks⟩ := mdAll_ok h rows cs.tail (fun r hr m hm => hI r (by simp [hr]) m hm)
      exact ⟨row' :: rows', bs ++ bss, by simp only [mdAll, hr, hrs, bind, Except.bind, pure, Except.pure], ⟨k, ks⟩⟩

/-- the exposed interval only shrinks when the edges are refined -/
theorem wmView_mono {w : WmSt} {a b : List (List M)} (inv : WmInv g w a) (k : KeepsLL g a b) :
    (wmViewV w (viewM g a)).lo ≤ (wmViewV w (viewM g b)).lo ∧ (wmViewV w (viewM g b)).hi ≤ (wmViewV w (viewM g a)).hi := by
  unfold wmViewV
  cases w.memo with
  | some b => exact ⟨Nat.le_refl _, Nat.le_refl _⟩
  | none =>
    apply wmForm_mono w k.subV
    rw [viewM_length, inv.shape.1]
    show min w.nf w.nt ≤ w.nf
    omega

theorem WmInv.congr {w w' : WmSt} {edges : List (List M)} (inv : WmInv g w edges) (h1 : w'.nf = w.nf)
    (h2 : w'.nt = w.nt) (h3 : w'.assign = w.assign) (h4 : w'.mtch = w.mtch) (h5 : w'.memo = w.memo) :
    WmInv g w' edges := by
  refine ⟨by rw [h1, h2]; exact inv.shape, inv.edgesI, ⟨?_, ?_, ?_, ?_⟩, ?_, ?_⟩
  · rw [h3, h1, h2]; exact inv.ok.inRange
  · rw [h3]; exact inv.ok.sortedF
  · rw [h3]; exact inv.ok.nodupT
  · rw [h3, h1, h2]; exact inv.ok.full
  · rw [h3, h4]; exact inv.mt
  · rw [h5, h3]
    intro b hb
    have := inv.memo b hb
    simpa [wmFin, h3] using this

theorem wmMakeDistinct_ok (h : Protocol rec g) {w : WmSt} {edges : List (List M)} (inv : WmInv g w edges) :
    ∃ w' e' r, wmMakeDistinct rec w edges = .ok (w', e', r) ∧ KeepsLL g edges e' ∧ WmInv g w' e' ∧
      w'.nf = w.nf ∧ w'.nt = w.nt ∧ w'.assign = w.assign ∧ w'.mtch = w.mtch ∧ w'.memo = w.memo ∧
      w'.mdCounts = w.mdCounts ∧ w'.distinct = true ∧
      (r = true → w.distinct = false) ∧ (r = false → w' = w ∧ e' = edges) := by
  by_cases hd : w.distinct = true
  · exact ⟨w, edges, false, by simp [wmMakeDistinct, hd, pure, Except.pure], KeepsLL.refl edges inv.edgesI, inv,
      rfl, rfl, rfl, rfl, rfl, rfl, hd, by simp, fun _ => ⟨rfl, rfl⟩⟩
  · obtain ⟨e', bs, he, k⟩ := mdAll_ok h edges w.mdCounts inv.edgesI
    refine ⟨{ w with distinct := true }, e', true, by simp [wmMakeDistinct, hd, he, bind, Except.bind, pure, Except.pure],
      k, (inv.keeps h k).congr rfl rfl rfl rfl rfl, rfl, rfl, rfl, rfl, rfl, rfl, rfl, fun _ => by simpa using hd,
      by simp⟩

/-! ### forcing the matching -/

theorem wmMatching_ok (h : Protocol rec g) {w : WmSt} {edges : List (List M)} (inv : WmInv g w edges) :
    ∃ w' e', wmMatching rec w edges = .ok (w', e') ∧ KeepsLL g edges e' ∧ WmInv g w' e' ∧
      w'.nf = w.nf ∧ w'.nt = w.nt ∧ w'.assign = w.assign ∧ w'.mtch = some w.assign ∧ w'.memo = w.memo ∧
      (wmViewV w (viewM g edges)).lo ≤ (wmViewV w' (viewM g e')).lo ∧
      (wmViewV w' (viewM g e')).hi ≤ (wmViewV w (viewM g edges)).hi ∧
      wmFlags w' ≤ wmFlags w ∧ (w.mtch = none → wmFlags w' < wmFlags w) := by
  cases hmt : w.mtch with
  | some pairs =>
    have hp := inv.mt pairs hmt
    exact ⟨w, edges, by simp [wmMatching, hmt, pure, Except.pure], KeepsLL.refl edges inv.edgesI, inv, rfl, rfl, rfl,
      by rw [hmt, hp], rfl, Nat.le_refl _, Nat.le_refl _, Nat.le_refl _, by intro hh; cases hh⟩
  | none =>
    by_cases hz : (w.nf == 0 || w.nt == 0) = true
    · have hempty : w.assign = [] := by
        apply List.eq_nil_of_length_eq_zero
        rw [inv.ok.full]
        simp only [Bool.or_eq_true, beq_iff_eq] at hz
        show min w.nf w.nt = 0
        omega
      have inv' : WmInv g { w with mtch := some [] } edges := by
        refine ⟨inv.shape, inv.edgesI, ⟨inv.ok.inRange, inv.ok.sortedF, inv.ok.nodupT, inv.ok.full⟩, ?_, inv.memo⟩
        intro pairs hp
        simp only [Option.some.injEq] at hp
        rw [← hp]; exact hempty.symm
      refine ⟨{ w with mtch := some [] }, edges, by simp [wmMatching, hmt, hz, pure, Except.pure],
        KeepsLL.refl edges inv.edgesI, inv', rfl, rfl, rfl, by simp [hempty], rfl, ?_, ?_, ?_, ?_⟩
      · simp [wmViewV, wmForm, hz]
      · simp [wmViewV, wmForm, hz]
      · simp [wmFlags, hmt]
      · intro _; simp [wmFlags, hmt]
    · obtain ⟨w1, e1, r, hmd, k1, inv1, f1, f2, f3, f4, f5, f6, f7, _, _⟩ := wmMakeDistinct_ok h inv
      obtain ⟨e2, hp, pp⟩ := wmPass_ok h e1 inv1.edgesI
      have inv2 : WmInv g w1 e2 := inv1.keeps h pp.1
      have hlen : (w1.assign.length != Nat.min w1.nf w1.nt) = false := by
        rw [f3, f1, f2]; simp [inv.ok.full]
      have hany : (w1.assign.any fun p => decide (p.1 ≥ w1.nf) || decide (p.2 ≥ w1.nt)) = false := by
        rw [List.any_eq_false]
        intro p hp
        rw [f3] at hp
        have := inv.ok.inRange p hp
        rw [f1, f2]
        simp; omega
      have inv3 : WmInv g { w1 with mtch := some w1.assign } e2 := by
        refine ⟨inv2.shape, inv2.edgesI, ⟨inv2.ok.inRange, inv2.ok.sortedF, inv2.ok.nodupT, inv2.ok.full⟩, ?_, inv2.memo⟩
        intro pairs hp
        simp only [Option.some.injEq] at hp
        exact hp.symm
      have kk : KeepsLL g edges e2 := k1.trans pp.1
      refine ⟨{ w1 with mtch := some w1.assign }, e2, ?_, kk, inv3, f1, f2, f3, by simp [f3], f5, ?_, ?_, ?_, ?_⟩
      · simp only [wmMatching, hmt, hz, hmd, hp, bind, Except.bind, hlen, hany, pure, Except.pure]
        simp
      · -- lower end
        simp only [wmViewV, f5]
        cases hmemo : w.memo with
        | some b => exact Nat.le_refl _
        | none =>
          have invk : WmInv g w e2 := inv.keeps h kk
          have o := (wmForm_outer invk).1
          have m := (wmForm_mono w kk.subV (by rw [viewM_length, inv.shape.1]; show min w.nf w.nt ≤ w.nf; omega)).1
          have e : ∀ mm, (wmForm { w1 with mtch := some w1.assign, memo := mm } (viewM g e2)).lo
              = (w.assign.map fun p => (ivAt (viewM g e2) p).lo).sum := by
            intro mm
            have hz1 : (w1.nf == 0 || w1.nt == 0) = false := by rw [f1, f2]; simpa using hz
            simp [wmForm, hz1, f3]
          simp only
          rw [e]
          omega
      · simp only [wmViewV, f5]
        cases hmemo : w.memo with
        | some b => exact Nat.le_refl _
        | none =>
          have invk : WmInv g w e2 := inv.keeps h kk
          have o := (wmForm_outer invk).2
          have m := (wmForm_mono w kk.subV (by rw [viewM_length, inv.shape.1]; show min w.nf w.nt ≤ w.nf; omega)).2
          have e : ∀ mm, (wmForm { w1 with mtch := some w1.assign, memo := mm } (viewM g e2)).hi
              = (w.assign.map fun p => (ivAt (viewM g e2) p).hi).sum := by
            intro mm
            have hz1 : (w1.nf == 0 || w1.nt == 0) = false := by rw [f1, f2]; simpa using hz
            simp [wmForm, hz1, f3]
          simp only
          rw [e]
          omega
      · simp only [wmFlags, f7, hmt]
        cases w.distinct <;> simp
      · intro _
        simp only [wmFlags, f7, hmt]
        cases w.distinct <;> simp

/-! ### one undecorated step -/

theorem wmRaw_go_ok (h : Protocol rec g) {nf nt : Nat} : ∀ (pairs : List (Nat × Nat)) (edges : List (List M)),
    MShape edges nf nt → (∀ row ∈ edges, ∀ m ∈ row, g.I m) → (∀ p ∈ pairs, p.1 < nf ∧ p.2 < nt) →
    ∃ e' r, wmRaw.go rec edges pairs = .ok (e', r) ∧ KeepsLL g edges e' ∧
      (r = true → muLLg g e' < muLLg g edges) ∧
      (r = false → ∀ p ∈ pairs, (ivAt (viewM g e') p).lo = (ivAt (viewM g e') p).hi)
  | [], edges, _, hI, _ =>
      ⟨edges, false, by simp [wmRaw.go, pure, Except.pure], KeepsLL.refl edges hI, by simp, by simp⟩
  | (i, j) :: rest, edges, sh, hI, hr => by
      have hij := hr (i, j) (by simp)
      obtain ⟨m, hm⟩ := mget_ok sh hij.1 hij.2
      obtain ⟨m1, r, ht, st⟩ := h.tighten m (mget_inv hI hm)
      obtain ⟨t', hs, kk, hg, hother⟩ := mset_keeps hI hm st.keeps
      have hmu := mset_mu (g := g) hm hs
      cases r with
      | true =>
        refine ⟨t', true, by simp [wmRaw.go, hm, ht, hs, bind, Except.bind, pure, Except.pure], kk, ?_, by simp⟩
        intro _
        have := st.dec rfl
        omega
      | false =>
        obtain ⟨e', r', hgo, kk', hdec, hdef⟩ := wmRaw_go_ok h rest t' (kk.shape sh) kk.inv
          (fun p hp => hr p (by simp [hp]))
        refine ⟨e', r', by simp [wmRaw.go, hm, ht, hs, bind, Except.bind, hgo], kk.trans kk', ?_, ?_⟩
        · intro hr'
          have := hdec hr'
          have := st.mu
          omega
        · intro hr' p hp
          rcases List.mem_cons.mp hp with rfl | hp
          · obtain ⟨y, hy, ky⟩ := kk'.get' hg
            obtain ⟨y', hy', e1, _⟩ := mget_at' (g := g) (p := (i, j)) ((kk.trans kk').shape sh) hij.1 hij.2
            rw [hy] at hy'
            cases hy'
            rw [e1]
            have hw := h.wf y ky.inv
            have hs1 := st.stop rfl
            have := ky.sub
            omega
          · exact hdef hr' p hp

theorem wmRaw_ok (h : Protocol rec g) {w : WmSt} {edges : List (List M)} (inv : WmInv g w edges) :
    ∃ w' e' r, wmRaw rec w edges = .ok (w', e', r) ∧ KeepsLL g edges e' ∧ WmInv g w' e' ∧
      w'.nf = w.nf ∧ w'.nt = w.nt ∧ w'.assign = w.assign ∧ w'.memo = w.memo ∧
      (wmViewV w (viewM g edges)).lo ≤ (wmViewV w' (viewM g e')).lo ∧
      (wmViewV w' (viewM g e')).hi ≤ (wmViewV w (viewM g edges)).hi ∧
      wmFlags w' + muLLg g e' ≤ wmFlags w + muLLg g edges ∧
      (r = true → wmFlags w' + muLLg g e' < wmFlags w + muLLg g edges) ∧
      (r = false → (wmViewV w' (viewM g e')).lo = (wmViewV w' (viewM g e')).hi) ∧
      (∀ pairs, w.mtch = some pairs → w'.mtch = some pairs) := by
  cases hmt : w.mtch with
  | none =>
    obtain ⟨w1, e1, r, hmd, k1, inv1, f1, f2, f3, f4, f5, f6, f7, hr1, hr0⟩ := wmMakeDistinct_ok h inv
    cases r with
    | true =>
      have hd := hr1 rfl
      have hv := wmView_mono inv k1
      have hview : ∀ vm, wmViewV w1 vm = wmViewV w vm := by
        intro vm; simp [wmViewV, wmForm, f1, f2, f4, f5]
      refine ⟨w1, e1, true, by simp [wmRaw, hmt, hmd, bind, Except.bind, pure, Except.pure], k1, inv1, f1, f2, f3, f5,
        by rw [hview]; exact hv.1, by rw [hview]; exact hv.2, ?_, ?_, by simp, by intro _ hh; cases hh⟩
      · have := k1.mu; simp only [wmFlags, f7, f4, hd]; simp; omega
      · intro _; have := k1.mu; simp only [wmFlags, f7, f4, hd]; simp; omega
    | false =>
      obtain ⟨rfl, rfl⟩ := hr0 rfl
      obtain ⟨w2, e2, hma, k2, inv2, g1, g2, g3, g4, g5, v1, v2, fl1, fl2⟩ := wmMatching_ok h inv
      refine ⟨w2, e2, true, by simp [wmRaw, hmt, hmd, hma, bind, Except.bind, pure, Except.pure], k2, inv2, g1, g2, g3, g5,
        v1, v2, ?_, ?_, by simp, by intro _ hh; cases hh⟩
      · have := k2.mu; omega
      · intro _; have := k2.mu; have := fl2 hmt; omega
  | some pairs =>
    have hp := inv.mt pairs hmt
    subst hp
    obtain ⟨e', r, hgo, kk, hdec, hdef⟩ := wmRaw_go_ok h w.assign edges inv.shape inv.edgesI inv.ok.inRange
    have hv := wmView_mono inv kk
    have inv' := inv.keeps h kk
    refine ⟨w, e', r, by simp [wmRaw, hmt, hgo, bind, Except.bind, pure, Except.pure], kk, inv', rfl, rfl, rfl, rfl,
      hv.1, hv.2, ?_, ?_, ?_, fun _ hh => by rw [hmt]; exact hh⟩
    · have := kk.mu; omega
    · intro hr; have := hdec hr; omega
    · intro hr
      have hd := hdef hr
      unfold wmViewV
      cases hmemo : w.memo with
      | some b =>
        have := (inv'.memo b hmemo).1
        rw [this]; rfl
      | none =>
        simp only [wmForm, hmt]
        split
        · rfl
        · simp only
          congr 1
          apply List.map_congr_left
          intro p hp
          exact hd p hp

/-! ### `tighten_bounds()` with `repeat_until_tightened` -/

theorem wmFlags_same {w w' : WmSt} (hs : SameW w w') : wmFlags w' = wmFlags w := by
  simp [wmFlags, hs.2.2.1, hs.2.2.2.1]

theorem wmLoop_ok (h : Protocol rec g) (start : Iv) (hnd : start.lo ≠ start.hi) : ∀ (n : Nat) (w : WmSt)
    (edges : List (List M)), WmInv g w edges → wmFlags w + muLLg g edges < n →
    (start.lo ≤ (wmViewV w (viewM g edges)).lo ∧ (wmViewV w (viewM g edges)).hi ≤ start.hi) →
    ∃ w' e', wmLoop rec start n w edges = .ok (w', e', true) ∧ KeepsLL g edges e' ∧ WmInv g w' e' ∧
      w'.nf = w.nf ∧ w'.nt = w.nt ∧ w'.assign = w.assign ∧
      start.lo ≤ (wmViewV w' (viewM g e')).lo ∧ (wmViewV w' (viewM g e')).hi ≤ start.hi ∧
      wmViewV w' (viewM g e') ≠ start ∧ wmFlags w' + muLLg g e' ≤ wmFlags w + muLLg g edges ∧
      (∀ pairs, w.mtch = some pairs → w'.mtch = some pairs)
  | 0, _, _, _, hn, _ => by omega
  | n + 1, w, edges, inv, hn, hsub => by
      obtain ⟨w1, e1, r, hraw, k1, inv1, a1, a2, a3, a4, v1, v2, m1, m2, m3, m4⟩ := wmRaw_ok h inv
      obtain ⟨w2, e2, hb, pp, inv2, sw, hv⟩ := wmBounds_ok h inv1
      have hmono2 : ∀ pairs, w.mtch = some pairs → w2.mtch = some pairs := fun pairs hp => by rw [sw.2.2.2.1]; exact m4 pairs hp
      have hfl := wmFlags_same sw
      have hmu := pp.1.mu
      have c1 : ¬ ((wmViewV w1 (viewM g e1)).lo < start.lo ∨ (wmViewV w1 (viewM g e1)).hi > start.hi) := by omega
      have c1' : (decide ((wmViewV w1 (viewM g e1)).lo < start.lo) || decide ((wmViewV w1 (viewM g e1)).hi > start.hi))
          = false := by
        simp only [Bool.or_eq_false_iff, decide_eq_false_iff_not]
        omega
      by_cases c2 : ((wmViewV w1 (viewM g e1)).definitive || decide ((wmViewV w1 (viewM g e1)).lo > start.lo) ||
          decide ((wmViewV w1 (viewM g e1)).hi < start.hi)) = true
      · refine ⟨w2, e2, ?_, k1.trans pp.1, inv2, by rw [sw.1, a1], by rw [sw.2.1, a2], by rw [sw.2.2.2.2.1, a3], ?_, ?_,
          ?_, by omega, hmono2⟩
        · simp only [wmLoop, hraw, hb, bind, Except.bind, c1', c2, if_true, pure, Except.pure]
          simp
        · rw [hv]; omega
        · rw [hv]; omega
        · rw [hv]
          intro he
          simp only [Bool.or_eq_true, decide_eq_true_eq, Iv.definitive_iff] at c2
          rw [he] at c2
          omega
      · -- no visible progress yet: the raw step made internal progress
        have c2' : ((wmViewV w1 (viewM g e1)).definitive || decide ((wmViewV w1 (viewM g e1)).lo > start.lo) ||
            decide ((wmViewV w1 (viewM g e1)).hi < start.hi)) = false := by simpa using c2
        have hr : r = true := by
          cases r with
          | true => rfl
          | false =>
            have := m3 rfl
            simp only [Bool.or_eq_false_iff] at c2'
            have hdf := (Iv.definitive_iff _).mpr this
            rw [c2'.1.1] at hdf
            cases hdf
        have hdec := m2 hr
        obtain ⟨w3, e3, hl, k3, inv3, b1, b2, b3, s1, s2, s3, s4, s5⟩ := wmLoop_ok h start hnd n w2 e2 inv2 (by omega)
          (by rw [hv]; omega)
        refine ⟨w3, e3, ?_, (k1.trans pp.1).trans k3, inv3, by rw [b1, sw.1, a1], by rw [b2, sw.2.1, a2],
          by rw [b3, sw.2.2.2.2.1, a3], s1, s2, s3, by omega, fun pairs hp => s5 pairs (hmono2 pairs hp)⟩
        simp only [wmLoop, hraw, hb, bind, Except.bind, c1', c2', hl]
        simp

/-- `WeightedBipartiteMatcher.tighten_bounds()` -/
theorem wmTighten_ok (h : Protocol rec g) (n : Nat) {w : WmSt} {edges : List (List M)} (inv : WmInv g w edges)
    (hn : wmFlags w + muLLg g edges < n) :
    ∃ w' e' r, wmTighten rec n w edges = .ok (w', e', r) ∧ KeepsLL g edges e' ∧ WmInv g w' e' ∧
      w'.nf = w.nf ∧ w'.nt = w.nt ∧ w'.assign = w.assign ∧
      (wmViewV w (viewM g edges)).lo ≤ (wmViewV w' (viewM g e')).lo ∧
      (wmViewV w' (viewM g e')).hi ≤ (wmViewV w (viewM g edges)).hi ∧
      wmFlags w' + muLLg g e' ≤ wmFlags w + muLLg g edges ∧
      (r = true → wmViewV w' (viewM g e') ≠ wmViewV w (viewM g edges)) ∧
      (r = false → (wmViewV w (viewM g edges)).lo = (wmViewV w (viewM g edges)).hi ∧ PresLL g edges e' ∧
        SameW w w' ∧ wmViewV w' (viewM g e') = wmViewV w (viewM g edges)) ∧
      (∀ pairs, w.mtch = some pairs → w'.mtch = some pairs) := by
  obtain ⟨w1, e1, hb, pp, inv1, sw, hv⟩ := wmBounds_ok h inv
  have hfl := wmFlags_same sw
  have hmu := pp.1.mu
  by_cases hd : (wmViewV w (viewM g edges)).definitive = true
  · refine ⟨w1, e1, false, by simp [wmTighten, hb, hd, bind, Except.bind, pure, Except.pure], pp.1, inv1, sw.1, sw.2.1,
      sw.2.2.2.2.1, by rw [hv]; exact Nat.le_refl _, by rw [hv]; exact Nat.le_refl _, by omega, by simp, ?_,
      fun pairs hp => by rw [sw.2.2.2.1]; exact hp⟩
    intro _
    exact ⟨(Iv.definitive_iff _).mp hd, pp, sw, hv⟩
  · have hnd : (wmViewV w (viewM g edges)).lo ≠ (wmViewV w (viewM g edges)).hi := by
      intro he; exact hd ((Iv.definitive_iff _).mpr he)
    obtain ⟨w2, e2, hl, k2, inv2, b1, b2, b3, s1, s2, s3, s4, s5⟩ := wmLoop_ok h _ hnd n w1 e1 inv1 (by omega)
      (by rw [hv]; exact ⟨Nat.le_refl _, Nat.le_refl _⟩)
    have hd' : (wmViewV w (viewM g edges)).definitive = false := by simpa using hd
    refine ⟨w2, e2, true, by simp [wmTighten, hb, hd', bind, Except.bind, hl], pp.1.trans k2, inv2, by rw [b1, sw.1],
      by rw [b2, sw.2.1], by rw [b3, sw.2.2.2.2.1], s1, s2, by omega, fun _ => s3, by simp,
      fun pairs hp => s5 pairs (by rw [sw.2.2.2.1]; exact hp)⟩

end

end GtModel.Lazy

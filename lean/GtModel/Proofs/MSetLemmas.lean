/-
  General multisets (`GtModel.MSet.msGeneral`): counter arithmetic and the accounting of a `MultiSetEdit` BY
  MULTIPLICITY — for every oracle answer, including the answers on which the node-keyed matching dict collides (D21).
-/
import GtModel.Model.MSetEdits
import GtModel.Proofs.EditsPerm
namespace GtModel.MSet
open List GtModel

/-! ### `firstOcc`, `elementsOf` -/

theorem mem_firstOcc (l : List Nat) (x : Nat) : x ∈ firstOcc l ↔ x ∈ l := by
  induction l with
  | nil => simp [firstOcc]
  | cons y ys ih =>
    simp only [firstOcc, List.mem_cons, List.mem_filter, ih, bne_iff_ne, ne_eq]
    constructor
    · rintro (h | ⟨h, _⟩)
      · exact Or.inl h
      · exact Or.inr h
    · rintro (h | h)
      · exact Or.inl h
      · by_cases e : x = y
        · exact Or.inl e
        · exact Or.inr ⟨h, e⟩

theorem firstOcc_nodup (l : List Nat) : (firstOcc l).Nodup := by
  induction l with
  | nil => simp [firstOcc]
  | cons y ys ih =>
    simp only [firstOcc, List.nodup_cons, List.mem_filter, bne_self_eq_false, Bool.false_eq_true, and_false,
      not_false_eq_true, true_and]
    exact ih.filter _

theorem count_replicate_flatMap (keys : List Nat) (cnt : Nat → Nat) (k : Nat) (h : k ∉ keys) :
    (keys.flatMap fun x => List.replicate (cnt x) x).count k = 0 := by
  induction keys with
  | nil => rfl
  | cons y ys ih =>
    simp only [List.mem_cons, not_or] at h
    simp only [List.flatMap_cons, List.count_append, ih h.2, Nat.add_zero]
    rw [List.count_replicate]
    simp [Ne.symm h.1]

/-- `Counter.elements()` holds every key `count` times -/
theorem count_elementsOf (keys : List Nat) (hnd : keys.Nodup) (cnt : Nat → Nat) (k : Nat) :
    (elementsOf keys cnt).count k = if k ∈ keys then cnt k else 0 := by
  unfold elementsOf
  induction keys with
  | nil => rfl
  | cons y ys ih =>
    rw [List.nodup_cons] at hnd
    simp only [List.flatMap_cons, List.count_append, ih hnd.2, List.count_replicate, List.mem_cons]
    by_cases e : y = k
    · subst e
      simp [hnd.1]
    · have e' : ¬ k = y := fun h => e h.symm
      simp [e, e']

theorem count_elementsOf_firstOcc (l : List Nat) (g : Nat → Nat) (k : Nat) (h0 : k ∉ l → g k = 0) :
    (elementsOf (firstOcc l) g).count k = g k := by
  rw [count_elementsOf _ (firstOcc_nodup l)]
  split
  · rfl
  · rename_i h; rw [mem_firstOcc] at h; exact (h0 h).symm

/-! ### the matching dict -/

theorem collide_keys (remE : List Nat) (pairs : List (Nat × Nat)) :
    (collide remE pairs).map Prod.fst = firstOcc (pairs.map fun p => remE.getD p.1 0) := by
  simp [collide, Function.comp_def]

theorem collide_keys_nodup (remE : List Nat) (pairs : List (Nat × Nat)) : ((collide remE pairs).map Prod.fst).Nodup := by
  rw [collide_keys]; exact firstOcc_nodup _

/-- every key of the dict is an element of `to_remove` (for in-range pairs) -/
theorem collide_key_mem (remE : List Nat) (pairs : List (Nat × Nat)) (hr : ∀ p ∈ pairs, p.1 < remE.length)
    (k : Nat) (hk : k ∈ (collide remE pairs).map Prod.fst) : k ∈ remE := by
  rw [collide_keys, mem_firstOcc] at hk
  simp only [List.mem_map] at hk
  obtain ⟨p, hp, rfl⟩ := hk
  have := hr p hp
  simp [List.getD_eq_getElem?_getD, this]

theorem count_le_one_of_nodup {l : List Nat} (h : l.Nodup) (k : Nat) : l.count k = if k ∈ l then 1 else 0 := by
  split
  · rename_i hm
    have h1 := List.count_pos_iff.2 hm
    have h2 := List.nodup_iff_count.1 h k
    omega
  · rename_i hm; exact List.count_eq_zero.2 hm

/-! ### accounting by multiplicity, from side -/

/-- the from-classes a `MultiSetEdit` accounts for: identity matches, keys of the matching dict, removals -/
def fromClasses (p : Parts) (entries : List (Nat × Nat)) : List Nat :=
  p.matE ++ entries.map Prod.fst
    ++ elementsOf (firstOcc p.remE) fun k => p.remE.count k - (if entries.any (·.1 == k) then 1 else 0)

theorem any_fst_iff (entries : List (Nat × Nat)) (k : Nat) :
    entries.any (·.1 == k) = true ↔ k ∈ entries.map Prod.fst := by
  simp only [List.any_eq_true, beq_iff_eq, List.mem_map]

/-- every from-element is accounted exactly as often as it occurs: the classes named by the identity matches, the
    matched pairs and the removals are a permutation of `children()` — whatever the solver answered, collisions of
    equal nodes in the matching dict included -/
theorem fromClasses_perm (fs ts : List Tree) (pairs : List (Nat × Nat))
    (hr : ∀ p ∈ pairs, p.1 < (parts fs ts).remE.length) :
    (fromClasses (parts fs ts) (collide (parts fs ts).remE pairs)).Perm (parts fs ts).chF := by
  rw [List.perm_iff_count]
  intro k
  generalize hent : collide (parts fs ts).remE pairs = entries
  have hnd : (entries.map Prod.fst).Nodup := by rw [← hent]; exact collide_keys_nodup _ _
  have hmem : k ∈ entries.map Prod.fst → k ∈ (parts fs ts).remE := by
    rw [← hent]; exact collide_key_mem _ _ hr k
  simp only [fromClasses, List.count_append]
  have hrem : (parts fs ts).remE.count k = (classesFrom [] fs).count k - (classesFrom fs ts).count k := by
    simp only [parts]
    exact count_elementsOf_firstOcc _ _ k (fun h => by simp [List.count_eq_zero.2 h])
  have hmat : (parts fs ts).matE.count k = Nat.min ((classesFrom [] fs).count k) ((classesFrom fs ts).count k) := by
    simp only [parts]
    exact count_elementsOf_firstOcc _ _ k (fun h => by simp [List.count_eq_zero.2 h])
  have hch : (parts fs ts).chF.count k = (classesFrom [] fs).count k := by
    simp only [parts]
    exact count_elementsOf_firstOcc _ _ k (fun h => List.count_eq_zero.2 h)
  rw [count_elementsOf_firstOcc _ _ k (fun h => by simp [List.count_eq_zero.2 h]), hmat, hch,
    count_le_one_of_nodup hnd k]
  have hany : (entries.any (·.1 == k)) = decide (k ∈ entries.map Prod.fst) := by
    rw [Bool.eq_iff_iff]; simp only [any_fst_iff, decide_eq_true_eq]
  rw [hany, hrem]
  by_cases hk : k ∈ entries.map Prod.fst
  · have h1 := List.count_pos_iff.2 (hmem hk)
    rw [hrem] at h1
    simp only [hk, if_true, decide_true]
    have : ∀ a b : Nat, 0 < a - b → Nat.min a b + 1 + (a - b - 1) = a := by
      intro a b h; have : Nat.min a b = b := by simp [Nat.min_def]; omega
      omega
    exact this _ _ h1
  · simp only [hk, if_false, decide_false, Bool.false_eq_true]
    have : ∀ a b : Nat, Nat.min a b + 0 + (a - b - 0) = a := by
      intro a b; simp only [Nat.min_def]; split <;> omega
    exact this _ _

/-! ### the script of `msGenScript` -/

/-- the pairs the model continues from: the recorded solver answer, sanitised and sorted by from-index -/
def msPairs (orc : Oracle) (fp tp : List Nat) (p : Parts) : List (Nat × Nat) :=
  sortPairs (orc.lookup (p.remE.map fun k => fp ++ [p.chF.idxOf k]) (p.insE.map fun k => tp ++ [p.chT.idxOf k]))

theorem msPairs_pinj (orc : Oracle) (fp tp : List Nat) (p : Parts) :
    PInj p.remE.length p.insE.length (msPairs orc fp tp p) := by
  have := sorted_lookup_pinj orc (p.remE.map fun k => fp ++ [p.chF.idxOf k]) (p.insE.map fun k => tp ++ [p.chT.idxOf k])
  simpa [msPairs] using this

/-- the from-indices of the sub-edits are the first-occurrence indices of `fromClasses` -/
theorem msGenScript_fromIdx (orc : Oracle) (fp tp : List Nat) (fs ts : List Tree) (p : Parts)
    (etbl : Nat → Nat → Script) (hT : ∀ a b, (etbl a b).kind.isTop = true) :
    fromIdx (msGenScript orc fp tp fs ts p etbl).subs =
      (fromClasses p (collide p.remE (msPairs orc fp tp p))).map fun k => Ix.at (p.chF.idxOf k) := by
  simp only [msGenScript, Script.subs_mk, fromIdx_append, fromClasses, List.map_append, msPairs]
  rw [fromIdx_map _ _ (fun k => Ix.at (p.chF.idxOf k)) (fun k _ => ⟨by simp, rfl⟩),
    fromIdx_map _ _ (fun e => Ix.at (p.chF.idxOf e.1)) (fun e _ => ⟨by
      have := Kind.isTop_ne (hT (p.remE.idxOf e.1) e.2); simpa using this.1, rfl⟩),
    fromIdx_map _ _ (fun k => Ix.at (p.chF.idxOf k)) (fun k _ => ⟨by simp, rfl⟩),
    fromIdx_map_insert _ _ (fun k _ => rfl)]
  simp only [List.map_map, Function.comp_def, List.append_nil]
  rfl

/-- C01 by multiplicity, from side: the from-indices of the sub-edits of `MultiSetEdit(from, to)` are a permutation
    of `children()` with every child replaced by the first occurrence of its (shared) node object -/
theorem msGenScript_accounts_from (orc : Oracle) (fp tp : List Nat) (fs ts : List Tree)
    (etbl : Nat → Nat → Script) (hT : ∀ a b, (etbl a b).kind.isTop = true) :
    (fromIdx (msGenScript orc fp tp fs ts (parts fs ts) etbl).subs).Perm
      ((parts fs ts).chF.map fun k => Ix.at ((parts fs ts).chF.idxOf k)) := by
  rw [msGenScript_fromIdx orc fp tp fs ts _ etbl hT]
  apply List.Perm.map
  exact fromClasses_perm fs ts _ (fun q hq => ((msPairs_pinj orc fp tp (parts fs ts)).2.2 q hq).1)

/-! ### accounting by multiplicity, to side -/

theorem nodup_map_on {α β : Type} {f : α → β} {l : List α} (hinj : ∀ a ∈ l, ∀ b ∈ l, f a = f b → a = b)
    (h : l.Nodup) : (l.map f).Nodup := by
  rw [List.nodup_iff_pairwise_ne] at h ⊢
  rw [List.pairwise_map]
  exact h.imp_of_mem (fun ha hb hne e => hne (hinj _ ha _ hb e))

theorem count_map_getD_le (k : Nat) : ∀ (l bs : List Nat), bs.Nodup → (∀ b ∈ bs, b < l.length) →
    (bs.map (l.getD · 0)).count k ≤ l.count k := by
  intro l
  induction l with
  | nil =>
    intro bs _ hr
    cases bs with
    | nil => simp
    | cons b _ => have := hr b (by simp); simp at this
  | cons x xs ih =>
    intro bs hnd hr
    have hperm : (bs.filter (· == 0) ++ bs.filter (fun b => !(b == 0))).Perm bs := List.filter_append_perm _ _
    have hc := (hperm.map (fun b => (x :: xs).getD b 0)).count_eq k
    rw [← hc, List.map_append, List.count_append]
    have hA : ((bs.filter (· == 0)).map (fun b => (x :: xs).getD b 0)).count k ≤ if x == k then 1 else 0 := by
      have hndA : (bs.filter (· == 0)).Nodup := hnd.filter _
      cases hf : bs.filter (· == 0) with
      | nil => simp
      | cons a as =>
        have ha : a = 0 := by
          have : a ∈ bs.filter (· == 0) := by rw [hf]; simp
          simpa using (List.mem_filter.1 this).2
        have has : as = [] := by
          cases as with
          | nil => rfl
          | cons a' as' =>
            have : a' ∈ bs.filter (· == 0) := by rw [hf]; simp
            have ha' : a' = 0 := by simpa using (List.mem_filter.1 this).2
            rw [hf, ha, ha'] at hndA
            simp at hndA
        subst ha has
        simp [List.count_cons]
    have hB : ((bs.filter (fun b => !(b == 0))).map (fun b => (x :: xs).getD b 0)).count k ≤ xs.count k := by
      have e : (bs.filter (fun b => !(b == 0))).map (fun b => (x :: xs).getD b 0)
          = ((bs.filter (fun b => !(b == 0))).map (· - 1)).map (xs.getD · 0) := by
        rw [List.map_map]
        apply List.map_congr_left
        intro b hb
        have hb0 : b ≠ 0 := by simpa using (List.mem_filter.1 hb).2
        obtain ⟨c, rfl⟩ := Nat.exists_eq_succ_of_ne_zero hb0
        simp
      rw [e]
      apply ih
      · apply nodup_map_on _ (hnd.filter _)
        intro a ha b hb hab
        have ha0 : a ≠ 0 := by simpa using (List.mem_filter.1 ha).2
        have hb0 : b ≠ 0 := by simpa using (List.mem_filter.1 hb).2
        omega
      · intro c hc
        simp only [List.mem_map] at hc
        obtain ⟨b, hb, rfl⟩ := hc
        have hb0 : b ≠ 0 := by simpa using (List.mem_filter.1 hb).2
        have := hr b (List.mem_filter.1 hb).1
        simp only [List.length_cons] at this
        omega
    rw [List.count_cons]
    omega

/-- every dict entry comes from a pair of the solver's answer with that key -/
theorem collide_entry (remE : List Nat) (pairs : List (Nat × Nat)) (e : Nat × Nat) (he : e ∈ collide remE pairs) :
    ∃ q ∈ pairs, remE.getD q.1 0 = e.1 ∧ q.2 = e.2 := by
  simp only [collide, List.mem_map] at he
  obtain ⟨k, hk, rfl⟩ := he
  rw [mem_firstOcc] at hk
  simp only [List.mem_map] at hk
  obtain ⟨q0, hq0, hkey⟩ := hk
  have hne : (pairs.filter fun q => remE.getD q.1 0 == k) ≠ [] := by
    intro h
    have : q0 ∈ pairs.filter fun q => remE.getD q.1 0 == k := List.mem_filter.2 ⟨hq0, by simpa using hkey⟩
    rw [h] at this; simp at this
  obtain ⟨q, hq⟩ : ∃ q, (pairs.filter fun q => remE.getD q.1 0 == k).getLast? = some q := by
    cases hl : (pairs.filter fun q => remE.getD q.1 0 == k).getLast? with
    | none => exact absurd (List.getLast?_eq_none_iff.1 hl) hne
    | some q => exact ⟨q, rfl⟩
  have hmem := List.mem_of_getLast? hq
  rw [List.mem_filter] at hmem
  exact ⟨q, hmem.1, by simpa using hmem.2, by rw [hq]; rfl⟩

/-- the to-indices the dict keeps are distinct and in range -/
theorem collide_snd (remE : List Nat) (pairs : List (Nat × Nat)) (nt : Nat)
    (hnd : (pairs.map Prod.snd).Nodup) (hr : ∀ q ∈ pairs, q.2 < nt) :
    ((collide remE pairs).map Prod.snd).Nodup ∧ ∀ b ∈ (collide remE pairs).map Prod.snd, b < nt := by
  constructor
  · have hk := collide_keys_nodup remE pairs
    have hinj : ∀ a ∈ collide remE pairs, ∀ b ∈ collide remE pairs, a.2 = b.2 → a = b := by
      intro a ha b hb hab
      obtain ⟨qa, hqa, ka, sa⟩ := collide_entry remE pairs a ha
      obtain ⟨qb, hqb, kb, sb⟩ := collide_entry remE pairs b hb
      have hq : qa = qb := by
        rw [List.nodup_iff_pairwise_ne, List.pairwise_map] at hnd
        apply Classical.byContradiction
        intro hne
        obtain ⟨i, hi, rfl⟩ := List.getElem_of_mem hqa
        obtain ⟨j, hj, rfl⟩ := List.getElem_of_mem hqb
        have hij : i ≠ j := fun e => hne (by subst e; rfl)
        rcases Nat.lt_or_gt_of_ne hij with h | h
        · exact (List.pairwise_iff_getElem.1 hnd i j hi hj h) (by rw [sa, sb, hab])
        · exact (List.pairwise_iff_getElem.1 hnd j i hj hi h) (by rw [sa, sb, hab])
      subst hq
      exact Prod.ext (ka.symm.trans kb) hab
    have : (collide remE pairs).Nodup := by
      have := hk
      rw [List.nodup_iff_pairwise_ne, List.pairwise_map] at this
      rw [List.nodup_iff_pairwise_ne]
      exact this.imp (fun hne e => hne (by rw [e]))
    exact nodup_map_on hinj this
  · intro b hb
    simp only [List.mem_map] at hb
    obtain ⟨e, he, rfl⟩ := hb
    obtain ⟨q, hq, _, sq⟩ := collide_entry remE pairs e he
    rw [← sq]; exact hr q hq

/-- the to-classes a `MultiSetEdit` accounts for: identity matches (the equal element of the second multiset),
    the to-nodes of the matching dict, insertions -/
def toClasses (p : Parts) (entries : List (Nat × Nat)) : List Nat :=
  p.matE ++ entries.map (fun e => p.insE.getD e.2 0)
    ++ elementsOf (firstOcc p.insE) fun k => p.insE.count k - (entries.map fun e => p.insE.getD e.2 0).count k

/-- every to-element is accounted exactly as often as it occurs, whatever the solver answered -/
theorem toClasses_perm (fs ts : List Tree) (pairs : List (Nat × Nat))
    (hp : PInj (parts fs ts).remE.length (parts fs ts).insE.length pairs) :
    (toClasses (parts fs ts) (collide (parts fs ts).remE pairs)).Perm (parts fs ts).chT := by
  rw [List.perm_iff_count]
  intro k
  have hs := collide_snd (parts fs ts).remE pairs (parts fs ts).insE.length hp.2.1 (fun q hq => (hp.2.2 q hq).2)
  generalize collide (parts fs ts).remE pairs = entries at hs
  have hle : (entries.map fun e => (parts fs ts).insE.getD e.2 0).count k ≤ (parts fs ts).insE.count k := by
    have := count_map_getD_le k (parts fs ts).insE (entries.map Prod.snd) hs.1 hs.2
    simpa [List.map_map, Function.comp_def] using this
  simp only [toClasses, List.count_append]
  have hins : (parts fs ts).insE.count k = (classesFrom fs ts).count k - (classesFrom [] fs).count k := by
    simp only [parts]
    exact count_elementsOf_firstOcc _ _ k (fun h => by simp [List.count_eq_zero.2 h])
  have hmat : (parts fs ts).matE.count k = Nat.min ((classesFrom [] fs).count k) ((classesFrom fs ts).count k) := by
    simp only [parts]
    exact count_elementsOf_firstOcc _ _ k (fun h => by simp [List.count_eq_zero.2 h])
  have hch : (parts fs ts).chT.count k = (classesFrom fs ts).count k := by
    simp only [parts]
    exact count_elementsOf_firstOcc _ _ k (fun h => List.count_eq_zero.2 h)
  rw [count_elementsOf_firstOcc _ _ k (fun h => by simp [List.count_eq_zero.2 h]), hmat, hch]
  rw [hins] at hle ⊢
  generalize (entries.map fun e => (parts fs ts).insE.getD e.2 0).count k = m at hle ⊢
  simp only [Nat.min_def]
  split <;> omega

/-- resolution of the identity matches `Match(n, n, 0)` (`ti = same`): the to-index of the element of the second
    multiset that is equal to the from-child at that index -/
def msResolve (p : Parts) : Ix → Ix
  | .at i => .at (p.chT.idxOf (p.chF.getD i 0))
  | x => x

theorem mem_chF_of_mem_matE (fs ts : List Tree) (k : Nat) (h : k ∈ (parts fs ts).matE) : k ∈ (parts fs ts).chF := by
  have h1 := List.count_pos_iff.2 h
  have hmat : (parts fs ts).matE.count k = Nat.min ((classesFrom [] fs).count k) ((classesFrom fs ts).count k) := by
    simp only [parts]
    exact count_elementsOf_firstOcc _ _ k (fun h => by simp [List.count_eq_zero.2 h])
  have hch : (parts fs ts).chF.count k = (classesFrom [] fs).count k := by
    simp only [parts]
    exact count_elementsOf_firstOcc _ _ k (fun h => List.count_eq_zero.2 h)
  apply List.count_pos_iff.1
  rw [hch]; rw [hmat] at h1
  have : Nat.min ((classesFrom [] fs).count k) ((classesFrom fs ts).count k) ≤ (classesFrom [] fs).count k :=
    Nat.min_le_left _ _
  omega

theorem getD_idxOf {l : List Nat} {k : Nat} (h : k ∈ l) : l.getD (l.idxOf k) 0 = k := by
  have := List.idxOf_lt_length_of_mem h
  simp [List.getD_eq_getElem?_getD, this]

theorem toIxOf_same (p : Parts) (k : Nat) (hk : k ∈ p.chF) :
    toIxOf (msResolve p) ((mkMatch 0).relabel (.at (p.chF.idxOf k)) .same) = .at (p.chT.idxOf k) := by
  have e := getD_idxOf hk
  simp [toIxOf, msResolve, -List.getD_eq_getElem?_getD, e]

/-- the to-indices of the sub-edits are the first-occurrence indices of `toClasses` -/
theorem msGenScript_toIdx (orc : Oracle) (fp tp : List Nat) (fs ts : List Tree)
    (etbl : Nat → Nat → Script) (hT : ∀ a b, (etbl a b).kind.isTop = true) :
    toIdx (msResolve (parts fs ts)) (msGenScript orc fp tp fs ts (parts fs ts) etbl).subs =
      (toClasses (parts fs ts) (collide (parts fs ts).remE (msPairs orc fp tp (parts fs ts)))).map
        fun k => Ix.at ((parts fs ts).chT.idxOf k) := by
  generalize hp : parts fs ts = p
  have hmat : ∀ k ∈ p.matE, k ∈ p.chF := by subst hp; exact mem_chF_of_mem_matE fs ts
  simp only [msGenScript, Script.subs_mk, toIdx_append, toClasses, List.map_append, msPairs]
  have h1 := toIdx_map (msResolve p) p.matE (fun k => (mkMatch 0).relabel (.at (p.chF.idxOf k)) .same)
    (fun k => Ix.at (p.chT.idxOf k)) (fun k hk => ⟨by simp, toIxOf_same p k (hmat k hk)⟩)
  have h2 := fun (l : List (Nat × Nat)) => toIdx_map (msResolve p) l
    (fun x => (etbl (p.remE.idxOf x.1) x.2).relabel (.at (p.chF.idxOf x.1)) (.at (p.chT.idxOf (p.insE.getD x.2 0))))
    (fun e => Ix.at (p.chT.idxOf (p.insE.getD e.2 0))) (fun e _ => ⟨by
      have := Kind.isTop_ne (hT (p.remE.idxOf e.1) e.2); simpa using this.2.1,
      toIxOf_relabel_at _ _ _ _ (Kind.isTop_ne (hT (p.remE.idxOf e.1) e.2)).1⟩)
  have h3 := fun (l : List Nat) => toIdx_map_remove (msResolve p) l
    (fun k => mkRemove (p.chF.idxOf k) ((fs.getD (p.fcls.idxOf k) (.leaf .null)).size) 1) (fun k _ => rfl)
  have h4 := fun (l : List Nat) => toIdx_map (msResolve p) l
    (fun k => mkInsert (p.chT.idxOf k) ((ts.getD (p.tcls.idxOf k) (.leaf .null)).size) 1)
    (fun k => Ix.at (p.chT.idxOf k)) (fun k _ => ⟨by simp, by simp [toIxOf]⟩)
  rw [h1, h2, h3, h4]
  simp only [List.map_map, Function.comp_def, List.append_nil]

/-- C01 by multiplicity, to side -/
theorem msGenScript_accounts_to (orc : Oracle) (fp tp : List Nat) (fs ts : List Tree)
    (etbl : Nat → Nat → Script) (hT : ∀ a b, (etbl a b).kind.isTop = true) :
    (toIdx (msResolve (parts fs ts)) (msGenScript orc fp tp fs ts (parts fs ts) etbl).subs).Perm
      ((parts fs ts).chT.map fun k => Ix.at ((parts fs ts).chT.idxOf k)) := by
  rw [msGenScript_toIdx orc fp tp fs ts etbl hT]
  apply List.Perm.map
  exact toClasses_perm fs ts _ (msPairs_pinj orc fp tp (parts fs ts))

end GtModel.MSet

/-
  C08 (3): on trees without `DictNode`s (what `build` makes with `allow_key_edits = False`) the cost of
  `from.edits(to)` is invariant under re-ordering the pairs of any mapping at any depth of either operand,
  and does not depend on the node paths or the oracle.
-/
import GtModel.Proofs.PermFk
import GtModel.Proofs.ZeroPerm

namespace GtModel

section EditsEqs
variable (o : Opts) (orc : Oracle) (fp tp : List Nat)

theorem edits_list_leaf (fcs : List Tree) (b : Scalar) :
    edits o orc fp tp (.list fcs) (.leaf b) = mkReplace (sizeL fcs) (Tree.leaf b).size := by
  rw [edits]; intro _ h; cases h
theorem edits_list_fdict (fcs : List Tree) (kvs : List (Str × Tree)) :
    edits o orc fp tp (.list fcs) (.fdict kvs) = mkReplace (sizeL fcs) (Tree.fdict kvs).size := by
  rw [edits]; intro _ h; cases h
theorem edits_fdict_leaf (fkv : List (Str × Tree)) (b : Scalar) :
    edits o orc fp tp (.fdict fkv) (.leaf b) = mkReplace (sizeKV fkv) (Tree.leaf b).size := by
  rw [edits]; intro _ h; cases h
theorem edits_fdict_list (fkv : List (Str × Tree)) (cs : List Tree) :
    edits o orc fp tp (.fdict fkv) (.list cs) = mkReplace (sizeKV fkv) (Tree.list cs).size := by
  rw [edits]; intro _ h; cases h

end EditsEqs

/-- the cost of a value edit, with canonical paths and no oracle -/
def cost0 (o : Opts) (v w : Tree) : Nat := (edits o [] [] [] v w).cost

theorem cost_perm_aux (o : Opts) : ∀ (n : Nat) (f f' : Tree), sizeOf f ≤ n → sizeOf f' ≤ n →
    ∀ (t t' : Tree) (orc orc' : Oracle) (fp tp fp' tp' : List Nat), TPerm f f' → TPerm t t' →
      f.WF = true → f'.WF = true → t.WF = true → t'.WF = true →
      (edits o orc fp tp f t).cost = (edits o orc' fp' tp' f' t').cost := by
  intro n
  induction n with
  | zero => intro f f' h; cases f <;> simp at h
  | succ n ih =>
    intro f f' hn hn' t t' orc orc' fp tp fp' tp' hf ht wf wf' wt wt'
    cases hf with
    | leaf s => rw [edits, edits]; exact leafEdits_cost_congr s ht
    | list hL =>
      rename_i as as'
      have hsz : sizeL as = sizeL as' := by simpa [Tree.size] using (TPerm.list hL).size_eq
      cases ht with
      | leaf b => rw [edits_list_leaf, edits_list_leaf, hsz]
      | fdict h1 h2 =>
        rw [edits_list_fdict, edits_list_fdict, hsz, (TPerm.fdict h1 h2).size_eq]
      | list hL' =>
        rename_i bs bs'
        have heq : eqL as bs = eqL as' bs' := by
          simpa [Tree.eq] using (TPerm.list hL).eq_congr (TPerm.list hL')
        rw [edits, edits, ← heq]
        split
        · rfl
        · extract_lets tbl pen tbl' pen'
          simp only [Tree.WF, wfL_iff] at wf wf' wt wt'
          simp only [Tree.list.sizeOf_spec] at hn hn'
          have la := hL.length_eq
          have lb := hL'.length_eq
          obtain ⟨-, hra⟩ := (TPermL_iff _ _).1 hL
          obtain ⟨-, hrb⟩ := (TPermL_iff _ _).1 hL'
          have H : ∀ i j, i < as.length → j < bs.length →
              ((tbl.getD i []).getD j (mkMatch 0)).cost = ((tbl'.getD i []).getD j (mkMatch 0)).cost := by
            intro i j hi hj
            have hi' : i < as'.length := by omega
            have hj' : j < bs'.length := by omega
            simp only [tbl, tbl']
            rw [getD_map_attach_zipIdx _ _ _ _ hi, getD_map_attach_zipIdx _ _ _ _ hi']
            dsimp only
            rw [getD_map_zipIdx _ _ _ _ hj, getD_map_zipIdx _ _ _ _ hj']
            dsimp only
            have s1 := List.sizeOf_lt_of_mem (List.getElem_mem hi)
            have s2 := List.sizeOf_lt_of_mem (List.getElem_mem hi')
            exact ih _ _ (by omega) (by omega) _ _ _ _ _ _ _ _ (hra i hi hi') (hrb j hj hj')
              (wf _ (List.getElem_mem hi)) (wf' _ (List.getElem_mem hi'))
              (wt _ (List.getElem_mem hj)) (wt' _ (List.getElem_mem hj'))
          have hpen : pen = pen' := by
            simp only [pen, pen', allLeaves_congr hL, allLeaves_congr hL', allPositive_congr hL,
              allPositive_congr hL']
          rw [← la, ← lb, ← hpen]
          split
          · exact fixedScript_cost_congr tbl tbl' hL hL' (fun i hi hj => H i i hi hj)
          · exact edScript_cost_congr pen tbl tbl' hL hL' H
    | fdict hKV hperm =>
      rename_i fkv cs fkv'
      have kf : KVP fkv fkv' := ⟨cs, hKV, hperm⟩
      have hsz : sizeKV fkv = sizeKV fkv' := by simpa [Tree.size] using (TPerm.fdict hKV hperm).size_eq
      cases ht with
      | leaf b => rw [edits_fdict_leaf, edits_fdict_leaf, hsz]
      | list hL => rw [edits_fdict_list, edits_fdict_list, hsz, (TPerm.list hL).size_eq]
      | fdict hKV' hperm' =>
        rename_i tkv ds tkv'
        have kt : KVP tkv tkv' := ⟨ds, hKV', hperm'⟩
        have heq : (fkv.length == tkv.length && subKV fkv tkv) = (fkv'.length == tkv'.length && subKV fkv' tkv') := by
          simpa [Tree.eq] using (TPerm.fdict hKV hperm).eq_congr (TPerm.fdict hKV' hperm')
        rw [edits, edits, ← heq]
        split
        · rfl
        · extract_lets vtbl vtbl'
          simp only [Tree.WF, Bool.and_eq_true, decide_eq_true_eq, wfKV_iff] at wf wf' wt wt'
          simp only [Tree.fdict.sizeOf_spec] at hn hn'
          -- value edits cost `cost0` whatever the paths and the oracle are
          have hcell : ∀ i j (hi : i < fkv.length) (hj : j < tkv.length),
              ((vtbl.getD i []).getD j (mkMatch 0)).cost = cost0 o (fkv.getD i dKV).2 (tkv.getD j dKV).2 := by
            intro i j hi hj
            simp only [vtbl]
            rw [getD_map_attach_zipIdx _ _ _ _ hi]
            dsimp only
            rw [getD_map_zipIdx _ _ _ _ hj]
            dsimp only
            rw [getD_eq_getElem' _ _ hi, getD_eq_getElem' _ _ hj]
            have hm := List.getElem_mem hi
            have hm' := List.getElem_mem hj
            have s1 := List.sizeOf_lt_of_mem hm
            have s2 := sizeOf_snd_lt fkv[i]
            obtain ⟨_, _, hp⟩ := kf.left _ hm
            obtain ⟨_, _, hq⟩ := kt.left _ hm'
            exact ih _ _ (by omega) (by omega) _ _ _ _ _ _ _ _ hp.2.refl_left hq.2.refl_left
              (wf.2 _ hm) (wf.2 _ hm) (wt.2 _ hm') (wt.2 _ hm')
          have hcell' : ∀ i j (hi : i < fkv'.length) (hj : j < tkv'.length),
              ((vtbl'.getD i []).getD j (mkMatch 0)).cost = cost0 o (fkv'.getD i dKV).2 (tkv'.getD j dKV).2 := by
            intro i j hi hj
            simp only [vtbl']
            rw [getD_map_attach_zipIdx _ _ _ _ hi]
            dsimp only
            rw [getD_map_zipIdx _ _ _ _ hj]
            dsimp only
            rw [getD_eq_getElem' _ _ hi, getD_eq_getElem' _ _ hj]
            have hm := List.getElem_mem hi
            have hm' := List.getElem_mem hj
            have s1 := List.sizeOf_lt_of_mem hm
            have s2 := sizeOf_snd_lt fkv'[i]
            obtain ⟨_, _, hp⟩ := kf.right _ hm
            obtain ⟨_, _, hq⟩ := kt.right _ hm'
            exact ih _ _ (by omega) (by omega) _ _ _ _ _ _ _ _ hp.2.refl_right hq.2.refl_right
              (wf'.2 _ hm) (wf'.2 _ hm) (wt'.2 _ hm') (wt'.2 _ hm')
          rw [fkScript_cost_eq (cost0 o) fkv tkv vtbl hcell, fkScript_cost_eq (cost0 o) fkv' tkv' vtbl' hcell']
          apply fk_sum_congr (cost0 o) kf kt wf.1 wt.1
          intro p hp q hq p' hp' q' hq' hpp hqq
          have s1 := List.sizeOf_lt_of_mem hp
          have s2 := sizeOf_snd_lt p
          have s3 := List.sizeOf_lt_of_mem hp'
          have s4 := sizeOf_snd_lt p'
          exact ih _ _ (by omega) (by omega) _ _ _ _ _ _ _ _ hpp.2 hqq.2
            (wf.2 _ hp) (wf'.2 _ hp') (wt.2 _ hq) (wt'.2 _ hq')

/-- with `allow_key_edits = False`-style trees (no `DictNode`), re-ordering the pairs of any mapping at any depth
    of either operand leaves the cost unchanged; node paths and oracle are irrelevant -/
theorem cost_perm (o : Opts) (orc orc' : Oracle) (fp tp fp' tp' : List Nat) {f f' t t' : Tree}
    (hf : TPerm f f') (ht : TPerm t t')
    (wf : f.WF = true) (wf' : f'.WF = true) (wt : t.WF = true) (wt' : t'.WF = true) :
    (edits o orc fp tp f t).cost = (edits o orc' fp' tp' f' t').cost :=
  cost_perm_aux o (max (sizeOf f) (sizeOf f')) f f' (Nat.le_max_left _ _) (Nat.le_max_right _ _)
    t t' orc orc' fp tp fp' tp' hf ht wf wf' wt wt'

/-! ### from documents to trees -/

theorem permEqL_TPermL (g : Doc → Tree) : ∀ (as bs : List Doc), PermEqL as bs →
    (∀ a ∈ as, ∀ b, Doc.PermEq a b → TPerm (g a) (g b)) → TPermL (as.map g) (bs.map g) := by
  intro as
  induction as with
  | nil => intro bs h _; cases h; exact .nil
  | cons a as ih =>
    intro bs h hg
    cases h with
    | cons h1 h2 =>
      exact .cons (hg a List.mem_cons_self _ h1) (ih _ h2 (fun a ha b hb => hg a (List.mem_cons_of_mem _ ha) b hb))

theorem permEqKV_TPermKV (g : Doc → Tree) : ∀ (as cs : List (Str × Doc)), PermEqKV as cs →
    (∀ p ∈ as, ∀ b, Doc.PermEq p.2 b → TPerm (g p.2) (g b)) →
    TPermKV (as.map fun p => (p.1, g p.2)) (cs.map fun p => (p.1, g p.2)) := by
  intro as
  induction as with
  | nil => intro cs h _; cases h; exact .nil
  | cons a as ih =>
    intro cs h hg
    cases h with
    | cons h1 h2 =>
      exact .cons (hg _ List.mem_cons_self _ h1) (ih _ h2 (fun a ha b hb => hg a (List.mem_cons_of_mem _ ha) b hb))

theorem build_TPerm_aux (o : Opts) (hake : o.ake = false) : ∀ (n : Nat) (a : Doc), sizeOf a ≤ n → ∀ (b : Doc),
    Doc.PermEq a b → TPerm (build o a) (build o b) := by
  intro n
  induction n with
  | zero => intro a h; cases a <;> simp at h
  | succ n ih =>
    intro a hn b h
    cases h with
    | scalar s => exact .leaf s
    | list hL =>
      rename_i as bs
      simp only [build, buildL_eq_map]
      exact .list (permEqL_TPermL (build o) as bs hL (fun a ha b hb => by
        have := sizeOf_lt_list ha
        exact ih a (by omega) b hb))
    | obj hKV hperm =>
      rename_i as cs bs
      simp only [build, hake, Bool.false_eq_true, if_false, buildKV_eq_map]
      exact .fdict (permEqKV_TPermKV (build o) as cs hKV (fun p hp b hb => by
        have := sizeOf_val_lt_obj hp
        exact ih p.2 (by omega) b hb)) (hperm.map _)

theorem build_TPerm (o : Opts) (hake : o.ake = false) {a b : Doc} (h : Doc.PermEq a b) :
    TPerm (build o a) (build o b) := build_TPerm_aux o hake _ a (Nat.le_refl _) b h

end GtModel

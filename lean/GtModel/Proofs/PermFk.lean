/-
  `FixedKeyDictNodeEdit`: its cost as a sum over the pairs of the two mappings (no indices), and the invariance of
  that sum under re-ordering of either mapping.
-/
import GtModel.Proofs.PermSeq
import GtModel.Proofs.ZeroDict

namespace GtModel

/-- the first pair with key `k` -/
def lookupKV (k : Str) (l : List (Str × Tree)) : Option (Str × Tree) := l.find? (fun p => k == p.1)

theorem findKey_lookup : ∀ (l : List (Str × Tree)) (k : Str) (i : Nat),
    (findKey k l i).map (fun j => l.getD (j - i) dKV) = lookupKV k l := by
  intro l
  induction l with
  | nil => intro k i; simp [findKey, lookupKV]
  | cons p l ih =>
    intro k i
    obtain ⟨k', v'⟩ := p
    simp only [findKey, lookupKV, List.find?_cons]
    by_cases hk : (k == k') = true
    · simp [hk]
    · simp only [hk, Bool.false_eq_true, if_false]
      have := ih k (i + 1)
      simp only [lookupKV] at this
      rw [← this]
      cases hf : findKey k l (i + 1) with
      | none => simp
      | some j =>
        have := (findKey_someZ l k (i + 1) j hf).1
        simp only [Option.map_some, Option.some.injEq]
        have e : j - i = (j - (i + 1)) + 1 := by omega
        rw [e]; simp

theorem findKey_zero_lookup (l : List (Str × Tree)) (k : Str) :
    (findKey k l 0).map (fun j => l.getD j dKV) = lookupKV k l := by
  simpa using findKey_lookup l k 0

theorem lookupKV_some {k : Str} {l : List (Str × Tree)} {q : Str × Tree} (h : lookupKV k l = some q) :
    q ∈ l ∧ q.1 = k := by
  simp only [lookupKV] at h
  exact ⟨List.mem_of_find?_eq_some h, by have := List.find?_some h; simp at this; exact this.symm⟩

theorem lookupKV_none {k : Str} {l : List (Str × Tree)} (h : lookupKV k l = none) : k ∉ l.map Prod.fst := by
  simp only [lookupKV, List.find?_eq_none] at h
  intro hk
  obtain ⟨q, hq, rfl⟩ := List.mem_map.1 hk
  exact h q hq (by simp)

theorem lookupKV_isSome_of_mem {k : Str} {l : List (Str × Tree)} (h : k ∈ l.map Prod.fst) :
    ∃ q, lookupKV k l = some q := by
  cases hq : lookupKV k l with
  | some q => exact ⟨q, rfl⟩
  | none => exact absurd h (lookupKV_none hq)

/-- looking a key up in two related mappings gives related pairs -/
theorem lookupKV_congr {tkv tkv' : List (Str × Tree)} (ht : KVP tkv tkv') (hn : (tkv.map Prod.fst).Nodup) (k : Str) :
    (∀ q, lookupKV k tkv = some q → ∃ q', lookupKV k tkv' = some q' ∧ PR q q') ∧
    (lookupKV k tkv = none → lookupKV k tkv' = none) := by
  have hn' : (tkv'.map Prod.fst).Nodup := ht.keys_perm.nodup hn
  constructor
  · intro q hq
    obtain ⟨hm, hk⟩ := lookupKV_some hq
    obtain ⟨q', hm', hpr⟩ := ht.left q hm
    obtain ⟨q'', hq''⟩ := lookupKV_isSome_of_mem (k := k) (l := tkv')
      (List.mem_map.2 ⟨q', hm', by rw [← hpr.1, hk]⟩)
    obtain ⟨hm'', hk''⟩ := lookupKV_some hq''
    have : q'' = q' := eq_of_mem_of_key_eq hn' hm'' hm' (by rw [hk'', ← hpr.1, hk])
    subst this
    exact ⟨q'', hq'', hpr⟩
  · intro hnone
    cases hq : lookupKV k tkv' with
    | none => rfl
    | some q' =>
      exfalso
      obtain ⟨hm', hk'⟩ := lookupKV_some hq
      exact lookupKV_none hnone (ht.keys_perm.symm.subset (List.mem_map.2 ⟨q', hm', hk'⟩))

/-! ### the cost as a sum over pairs -/

/-- cost of `KeyValuePairEdit(p, q)` when the value edit costs `C p.2 q.2` -/
def kvpCost (C : Tree → Tree → Nat) (p q : Str × Tree) : Nat :=
  (if p.1 == q.1 then 0 else (strEdits p.1 q.1).cost) + (if p.2.eq q.2 then 0 else C p.2 q.2)

/-- what a from-pair contributes: the edit against the to-pair with the same key, or its removal -/
def fkFrom (C : Tree → Tree → Nat) (tkv : List (Str × Tree)) (p : Str × Tree) : Nat :=
  match lookupKV p.1 tkv with
  | some q => if kvEq p q then 0 else kvpCost C p q
  | none => kvSize p + 1

/-- what a to-pair contributes: its insertion if the key does not occur in the from-mapping -/
def fkTo (fkv : List (Str × Tree)) (q : Str × Tree) : Nat :=
  match lookupKV q.1 fkv with
  | some _ => 0
  | none => kvSize q + 1

theorem kvpScript_cost (C : Tree → Tree → Nat) (p q : Str × Tree) (cell : Script) (h : cell.cost = C p.2 q.2) :
    (kvpScript p.1 q.1 (p.2.eq q.2) cell).cost = kvpCost C p q := by
  simp only [kvpScript, mkCompound_costZ, sumCosts_consZ, sumCosts_nilZ, relabel_cost, kvpCost, Nat.add_zero]
  congr 1
  · split <;> rfl
  · split
    · rfl
    · exact h

theorem sumCosts_filterMap {α : Type} (g : α → Option Script) : ∀ (l : List α),
    sumCosts (l.filterMap g) = (l.map fun i => ((g i).map Script.cost).getD 0).sum := by
  intro l
  induction l with
  | nil => simp
  | cons a l ih =>
    simp only [List.filterMap_cons, List.map_cons, List.sum_cons]
    cases hg : g a with
    | none => simp [ih]
    | some s => simp [ih]

theorem sum_map_add {α : Type} (f g : α → Nat) : ∀ (l : List α),
    (l.map f).sum + (l.map g).sum = (l.map fun i => f i + g i).sum := by
  intro l
  induction l with
  | nil => simp
  | cons a l ih => simp only [List.map_cons, List.sum_cons, ← ih]; omega

theorem map_range_getD {α β : Type} (l : List α) (d : α) (F : α → β) :
    (List.range l.length).map (fun i => F (l.getD i d)) = l.map F := by
  apply List.ext_getElem (by simp)
  intro i hi hi'
  simp only [List.length_map, List.length_range] at hi
  simp [List.getD_eq_getElem?_getD, hi]

theorem fkScript_cost_eq (C : Tree → Tree → Nat) (fkv tkv : List (Str × Tree)) (vtbl : List (List Script))
    (hC : ∀ i j, i < fkv.length → j < tkv.length →
      ((vtbl.getD i []).getD j (mkMatch 0)).cost = C (fkv.getD i dKV).2 (tkv.getD j dKV).2) :
    (fkScript fkv tkv vtbl).cost = (fkv.map (fkFrom C tkv)).sum + (tkv.map (fkTo fkv)).sum := by
  simp only [fkScript, mkCompound_costZ, sumCosts_appendZ, sumCosts_filterMap, sum_map_add]
  congr 1
  · rw [← map_range_getD fkv dKV (fkFrom C tkv)]
    congr 1
    apply List.map_congr_left
    intro i hi
    simp only [List.mem_range] at hi
    have hl := findKey_zero_lookup tkv (fkv.getD i dKV).1
    simp only [fkFrom, ← hl]
    cases hf : findKey (fkv.getD i dKV).1 tkv 0 with
    | none => simp
    | some j =>
      obtain ⟨hj, -⟩ := findKey_zero_some hf
      simp only [Option.map_some, Option.getD_some]
      split
      · simp
      · simp only [relabel_cost]
        exact kvpScript_cost C _ _ _ (hC i j hi hj)
  · rw [← map_range_getD tkv dKV (fkTo fkv)]
    congr 1
    apply List.map_congr_left
    intro j hj
    have hl := findKey_zero_lookup fkv (tkv.getD j dKV).1
    simp only [fkTo, ← hl]
    cases hf : findKey (tkv.getD j dKV).1 fkv 0 with
    | none => simp
    | some i => simp

/-- the pair sums do not depend on the order of either mapping -/
theorem fk_sum_congr (C : Tree → Tree → Nat) {fkv fkv' tkv tkv' : List (Str × Tree)}
    (hf : KVP fkv fkv') (ht : KVP tkv tkv')
    (hnf : (fkv.map Prod.fst).Nodup) (hnt : (tkv.map Prod.fst).Nodup)
    (hC : ∀ p ∈ fkv, ∀ q ∈ tkv, ∀ p' ∈ fkv', ∀ q' ∈ tkv', PR p p' → PR q q' → C p.2 q.2 = C p'.2 q'.2) :
    (fkv.map (fkFrom C tkv)).sum + (tkv.map (fkTo fkv)).sum =
      (fkv'.map (fkFrom C tkv')).sum + (tkv'.map (fkTo fkv')).sum := by
  congr 1
  · apply hf.sum_eq
    intro p hp p' hp' hpp
    obtain ⟨h1, h2⟩ := lookupKV_congr ht hnt p.1
    simp only [fkFrom, ← hpp.1]
    cases hq : lookupKV p.1 tkv with
    | none => rw [h2 hq]; simp only [hpp.kvSize_eq]
    | some q =>
      obtain ⟨q', hq', hqq⟩ := h1 q hq
      rw [hq']
      simp only [hpp.kvEq_congr hqq, kvpCost, hpp.1, hqq.1, hpp.2.eq_congr hqq.2,
        hC p hp q (lookupKV_some hq).1 p' hp' q' (lookupKV_some hq').1 hpp hqq]
  · apply ht.sum_eq
    intro q hq q' hq' hqq
    obtain ⟨h1, h2⟩ := lookupKV_congr hf hnf q.1
    simp only [fkTo, ← hqq.1]
    cases hp : lookupKV q.1 fkv with
    | none => rw [h2 hp]; simp only [hqq.kvSize_eq]
    | some p =>
      obtain ⟨p', hp', -⟩ := h1 p hp
      rw [hp']

end GtModel

/-
  C08 (3), pairing: the sub-edits of a `FixedKeyDictNodeEdit`, read as (from-key, to-key, kind, cost), form the same
  multiset whatever the order of the pairs in either mapping.
-/
import GtModel.Proofs.PermCost

namespace GtModel

/-- (from-key, to-key, kind of edit, cost) -/
abbrev PairT := Option Str × Option Str × Kind × Nat

/-- read a sub-edit of an `fk` script back through its child indices -/
def subTuple (fkv tkv : List (Str × Tree)) (s : Script) : PairT :=
  match s.kind, s.fi, s.ti with
  | .insert, .at j, _ => (none, some (tkv.getD j dKV).1, .insert, s.cost)
  | .remove, .at i, _ => (some (fkv.getD i dKV).1, none, .remove, s.cost)
  | k, .at i, .at j => (some (fkv.getD i dKV).1, some (tkv.getD j dKV).1, k, s.cost)
  | k, _, _ => (none, none, k, s.cost)

def fromTuple (C : Tree → Tree → Nat) (tkv : List (Str × Tree)) (p : Str × Tree) : PairT :=
  match lookupKV p.1 tkv with
  | some q => (some p.1, some q.1, if kvEq p q then .match_ else .kvp, if kvEq p q then 0 else kvpCost C p q)
  | none => (some p.1, none, .remove, kvSize p + 1)

def toTuple (fkv : List (Str × Tree)) (q : Str × Tree) : Option PairT :=
  match lookupKV q.1 fkv with
  | some _ => none
  | none => some (none, some q.1, .insert, kvSize q + 1)

theorem perm_filterMap_split {α β : Type} (g1 g2 : α → Option β) (h : α → β) : ∀ (l : List α),
    (∀ i ∈ l, (g1 i = some (h i) ∧ g2 i = none) ∨ (g1 i = none ∧ g2 i = some (h i))) →
    (l.filterMap g1 ++ l.filterMap g2).Perm (l.map h) := by
  intro l
  induction l with
  | nil => intro _; simp
  | cons a l ih =>
    intro hl
    have ih' := ih (fun i hi => hl i (List.mem_cons_of_mem _ hi))
    rcases hl a List.mem_cons_self with ⟨h1, h2⟩ | ⟨h1, h2⟩
    · simp only [List.filterMap_cons, h1, h2, List.map_cons, List.cons_append]
      exact List.Perm.cons _ ih'
    · simp only [List.filterMap_cons, h1, h2, List.map_cons]
      exact List.perm_middle.trans (List.Perm.cons _ ih')

theorem filterMap_eq_map_filterMap {α β : Type} (g : α → Option β) (l : List α) :
    l.filterMap g = (l.map g).filterMap id := by
  simp [List.filterMap_map]

theorem filterMap_congr' {α β : Type} (g g' : α → Option β) : ∀ (l : List α), (∀ a ∈ l, g a = g' a) →
    l.filterMap g = l.filterMap g' := by
  intro l h
  rw [filterMap_eq_map_filterMap g, filterMap_eq_map_filterMap g', List.map_congr_left h]

theorem filterMap_range_getD {α β : Type} (l : List α) (d : α) (F : α → Option β) :
    (List.range l.length).filterMap (fun i => F (l.getD i d)) = l.filterMap F := by
  rw [filterMap_eq_map_filterMap, map_range_getD l d F, ← filterMap_eq_map_filterMap]

theorem fkScript_subs_perm (C : Tree → Tree → Nat) (fkv tkv : List (Str × Tree)) (vtbl : List (List Script))
    (hC : ∀ i j, i < fkv.length → j < tkv.length →
      ((vtbl.getD i []).getD j (mkMatch 0)).cost = C (fkv.getD i dKV).2 (tkv.getD j dKV).2) :
    ((fkScript fkv tkv vtbl).subs.map (subTuple fkv tkv)).Perm
      (fkv.map (fromTuple C tkv) ++ tkv.filterMap (toTuple fkv)) := by
  simp only [fkScript, mkCompound, Script.subs, List.map_append, List.map_filterMap]
  apply List.Perm.append
  · rw [← map_range_getD fkv dKV (fromTuple C tkv)]
    apply perm_filterMap_split
    intro i hi
    simp only [List.mem_range] at hi
    have hl := findKey_zero_lookup tkv (fkv.getD i dKV).1
    simp only [fromTuple, ← hl]
    cases hf : findKey (fkv.getD i dKV).1 tkv 0 with
    | none => right; simp [subTuple, mkRemove, Script.kind, Script.fi, Script.ti, Script.cost]
    | some j =>
      obtain ⟨hj, -⟩ := findKey_zero_some hf
      left
      simp only [Option.map_some, Option.some.injEq]
      split
      · simp [subTuple, mkMatch, Script.relabel, Script.kind, Script.fi, Script.ti, Script.cost]
      · have := kvpScript_cost C _ _ _ (hC i j hi hj)
        simp only [subTuple, Script.relabel, Script.kind, Script.fi, Script.ti, Script.cost]
        simp only [kvpScript, mkCompound] at this ⊢
        simp only [Script.cost] at this ⊢
        rw [this]
        exact ⟨rfl, rfl⟩
  · rw [← filterMap_range_getD tkv dKV (toTuple fkv)]
    apply List.Perm.of_eq
    apply filterMap_congr'
    intro j hj
    have hl := findKey_zero_lookup fkv (tkv.getD j dKV).1
    simp only [toTuple, ← hl]
    cases hf : findKey (tkv.getD j dKV).1 fkv 0 with
    | none => simp [subTuple, mkInsert, Script.kind, Script.fi, Script.ti, Script.cost]
    | some i => simp

theorem KVP.map_perm {β : Type} {as bs : List (Str × Tree)} (h : KVP as bs) (g g' : Str × Tree → β)
    (hg : ∀ p ∈ as, ∀ q ∈ bs, PR p q → g p = g' q) : (as.map g).Perm (bs.map g') := by
  obtain ⟨cs, h1, h2⟩ := h
  obtain ⟨hl, hr⟩ := (TPermKV_iff _ _).1 h1
  have : as.map g = cs.map g' := by
    apply List.ext_getElem (by simp [hl])
    intro i hi hi'
    simp only [List.getElem_map]
    simp only [List.length_map] at hi hi'
    exact hg _ (List.getElem_mem _) _ (h2.subset (List.getElem_mem _)) (hr i hi hi')
  rw [this]; exact h2.map g'

theorem fk_tuples_congr (C : Tree → Tree → Nat) {fkv fkv' tkv tkv' : List (Str × Tree)}
    (hf : KVP fkv fkv') (ht : KVP tkv tkv')
    (hnf : (fkv.map Prod.fst).Nodup) (hnt : (tkv.map Prod.fst).Nodup)
    (hC : ∀ p ∈ fkv, ∀ q ∈ tkv, ∀ p' ∈ fkv', ∀ q' ∈ tkv', PR p p' → PR q q' → C p.2 q.2 = C p'.2 q'.2) :
    (fkv.map (fromTuple C tkv) ++ tkv.filterMap (toTuple fkv)).Perm
      (fkv'.map (fromTuple C tkv') ++ tkv'.filterMap (toTuple fkv')) := by
  apply List.Perm.append
  · apply hf.map_perm
    intro p hp p' hp' hpp
    obtain ⟨h1, h2⟩ := lookupKV_congr ht hnt p.1
    simp only [fromTuple, ← hpp.1]
    cases hq : lookupKV p.1 tkv with
    | none => rw [h2 hq]; simp only [hpp.kvSize_eq]
    | some q =>
      obtain ⟨q', hq', hqq⟩ := h1 q hq
      rw [hq']
      simp only [hpp.kvEq_congr hqq, kvpCost, hpp.1, hqq.1, hpp.2.eq_congr hqq.2,
        hC p hp q (lookupKV_some hq).1 p' hp' q' (lookupKV_some hq').1 hpp hqq]
  · rw [filterMap_eq_map_filterMap, filterMap_eq_map_filterMap (toTuple fkv')]
    apply List.Perm.filterMap
    apply ht.map_perm
    intro q hq q' hq' hqq
    obtain ⟨h1, h2⟩ := lookupKV_congr hf hnf q.1
    simp only [toTuple, ← hqq.1]
    cases hp : lookupKV q.1 fkv with
    | none => rw [h2 hp]; simp only [hqq.kvSize_eq]
    | some p =>
      obtain ⟨p', hp', -⟩ := h1 p hp
      rw [hp']

/-- the pairing of a `FixedKeyDictNodeEdit` does not depend on the order of the pairs of either mapping -/
theorem fdict_subs_perm (o : Opts) (orc orc' : Oracle) (fp tp fp' tp' : List Nat)
    {fkv fkv' tkv tkv' : List (Str × Tree)}
    (hf : TPerm (.fdict fkv) (.fdict fkv')) (ht : TPerm (.fdict tkv) (.fdict tkv'))
    (wf : (Tree.fdict fkv).WF = true) (wf' : (Tree.fdict fkv').WF = true)
    (wt : (Tree.fdict tkv).WF = true) (wt' : (Tree.fdict tkv').WF = true) :
    ((edits o orc fp tp (.fdict fkv) (.fdict tkv)).subs.map (subTuple fkv tkv)).Perm
      ((edits o orc' fp' tp' (.fdict fkv') (.fdict tkv')).subs.map (subTuple fkv' tkv')) := by
  have kf := (TPerm_fdict_iff _ _).1 hf
  have kt := (TPerm_fdict_iff _ _).1 ht
  have heq : (fkv.length == tkv.length && subKV fkv tkv) = (fkv'.length == tkv'.length && subKV fkv' tkv') := by
    simpa [Tree.eq] using hf.eq_congr ht
  rw [edits, edits, ← heq]
  split
  · exact List.Perm.refl _
  · extract_lets vtbl vtbl'
    simp only [Tree.WF, Bool.and_eq_true, decide_eq_true_eq, wfKV_iff] at wf wf' wt wt'
    have hcell : ∀ i j (hi : i < fkv.length) (hj : j < tkv.length),
        ((vtbl.getD i []).getD j (mkMatch 0)).cost = cost0 o (fkv.getD i dKV).2 (tkv.getD j dKV).2 := by
      intro i j hi hj
      simp only [vtbl]
      rw [getD_map_attach_zipIdx _ _ _ _ hi]
      dsimp only
      rw [getD_map_zipIdx _ _ _ _ hj]
      dsimp only
      rw [getD_eq_getElem' _ _ hi, getD_eq_getElem' _ _ hj]
      have hm := List.getElem_mem hi
      have hm' := List.getElem_mem hj
      obtain ⟨_, _, hp⟩ := kf.left _ hm
      obtain ⟨_, _, hq⟩ := kt.left _ hm'
      exact cost_perm o _ _ _ _ _ _ hp.2.refl_left hq.2.refl_left
        (wf.2 _ hm) (wf.2 _ hm) (wt.2 _ hm') (wt.2 _ hm')
    have hcell' : ∀ i j (hi : i < fkv'.length) (hj : j < tkv'.length),
        ((vtbl'.getD i []).getD j (mkMatch 0)).cost = cost0 o (fkv'.getD i dKV).2 (tkv'.getD j dKV).2 := by
      intro i j hi hj
      simp only [vtbl']
      rw [getD_map_attach_zipIdx _ _ _ _ hi]
      dsimp only
      rw [getD_map_zipIdx _ _ _ _ hj]
      dsimp only
      rw [getD_eq_getElem' _ _ hi, getD_eq_getElem' _ _ hj]
      have hm := List.getElem_mem hi
      have hm' := List.getElem_mem hj
      obtain ⟨_, _, hp⟩ := kf.right _ hm
      obtain ⟨_, _, hq⟩ := kt.right _ hm'
      exact cost_perm o _ _ _ _ _ _ hp.2.refl_right hq.2.refl_right
        (wf'.2 _ hm) (wf'.2 _ hm) (wt'.2 _ hm') (wt'.2 _ hm')
    refine (fkScript_subs_perm (cost0 o) fkv tkv vtbl hcell).trans
      (List.Perm.trans ?_ (fkScript_subs_perm (cost0 o) fkv' tkv' vtbl' hcell').symm)
    apply fk_tuples_congr (cost0 o) kf kt wf.1 wt.1
    intro p hp q hq p' hp' q' hq' hpp hqq
    exact cost_perm o _ _ _ _ _ _ hpp.2 hqq.2 (wf.2 _ hp) (wf'.2 _ hp') (wt.2 _ hq) (wt'.2 _ hq')

end GtModel

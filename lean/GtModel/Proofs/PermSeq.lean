/-
  Sequences under `TPermL`: trimming, penalties, and the costs of `fixedScript` / `edScript` / `leafEdits`.
-/
import GtModel.Proofs.PermTree

namespace GtModel
open GtModel.EditMatrix (sharedPrefixLen trimLens middle solve)

theorem TPermL.length_eq {as bs : List Tree} (h : TPermL as bs) : as.length = bs.length := ((TPermL_iff _ _).1 h).1

theorem TPermL.getD {as bs : List Tree} (h : TPermL as bs) (i : Nat) (hi : i < as.length) :
    TPerm (as.getD i dT) (bs.getD i dT) := by
  obtain ⟨hl, hr⟩ := (TPermL_iff _ _).1 h
  rw [getD_eq_getElem' _ _ hi, getD_eq_getElem' _ _ (by omega : i < bs.length)]
  exact hr i hi (by omega)

theorem TPermL.all_congr (g : Tree → Bool) (hg : ∀ c c', TPerm c c' → g c = g c') :
    ∀ {as bs : List Tree}, TPermL as bs → as.all g = bs.all g := by
  intro as
  induction as with
  | nil => intro bs h; cases h; rfl
  | cons a as ih =>
    intro bs h
    cases h with
    | cons h1 h2 => simp only [List.all_cons, hg _ _ h1, ih h2]

theorem TPermL.map_congr {β : Type} (g : Tree → β) (hg : ∀ c c', TPerm c c' → g c = g c') :
    ∀ {as bs : List Tree}, TPermL as bs → as.map g = bs.map g := by
  intro as
  induction as with
  | nil => intro bs h; cases h; rfl
  | cons a as ih =>
    intro bs h
    cases h with
    | cons h1 h2 => simp only [List.map_cons, hg _ _ h1, ih h2]

theorem TPermL.append : ∀ {as bs as' bs' : List Tree}, TPermL as bs → TPermL as' bs' → TPermL (as ++ as') (bs ++ bs') := by
  intro as
  induction as with
  | nil => intro bs as' bs' h h'; cases h; exact h'
  | cons a as ih =>
    intro bs as' bs' h h'
    cases h with
    | cons h1 h2 => exact .cons h1 (ih h2 h')

theorem TPermL.reverse : ∀ {as bs : List Tree}, TPermL as bs → TPermL as.reverse bs.reverse := by
  intro as
  induction as with
  | nil => intro bs h; cases h; exact .nil
  | cons a as ih =>
    intro bs h
    cases h with
    | cons h1 h2 =>
      simp only [List.reverse_cons]
      exact (ih h2).append (.cons h1 .nil)

theorem TPermL.drop : ∀ (k : Nat) {as bs : List Tree}, TPermL as bs → TPermL (as.drop k) (bs.drop k) := by
  intro k
  induction k with
  | zero => intro as bs h; exact h
  | succ k ih =>
    intro as bs h
    cases h with
    | nil => exact .nil
    | cons h1 h2 => simpa using ih h2

theorem TPermL.take : ∀ (k : Nat) {as bs : List Tree}, TPermL as bs → TPermL (as.take k) (bs.take k) := by
  intro k
  induction k with
  | zero => intro as bs h; exact .nil
  | succ k ih =>
    intro as bs h
    cases h with
    | nil => exact .nil
    | cons h1 h2 => simpa using .cons h1 (ih h2)

theorem spl_congr : ∀ {as as' bs bs' : List Tree}, TPermL as as' → TPermL bs bs' →
    sharedPrefixLen as bs = sharedPrefixLen as' bs' := by
  intro as
  induction as with
  | nil => intro as' bs bs' h h'; cases h; simp [sharedPrefixLen]
  | cons a as ih =>
    intro as' bs bs' h h'
    cases h with
    | cons h1 h2 =>
      cases h' with
      | nil => simp [sharedPrefixLen]
      | cons h1' h2' =>
        simp only [sharedPrefixLen]
        have e : ∀ x y : Tree, (x == y) = x.eq y := fun _ _ => rfl
        rw [e, e, h1.eq_congr h1', ih h2 h2']

theorem trimLens_congr {as as' bs bs' : List Tree} (h : TPermL as as') (h' : TPermL bs bs') :
    trimLens as bs = trimLens as' bs' := by
  simp only [trimLens]
  rw [spl_congr h h', spl_congr ((h.drop _).reverse) ((h'.drop _).reverse)]

theorem middle_congr {as as' : List Tree} (h : TPermL as as') (ps : Nat × Nat) :
    TPermL (middle as ps) (middle as' ps) := by
  simp only [middle, h.length_eq]
  exact (h.drop _).take _

theorem allLeaves_congr {as bs : List Tree} (h : TPermL as bs) : allLeaves as = allLeaves bs :=
  h.all_congr _ (fun _ _ hc => hc.isLeaf_eq)

theorem allPositive_congr {as bs : List Tree} (h : TPermL as bs) : allPositive as = allPositive bs :=
  h.all_congr _ (fun _ _ hc => by rw [hc.size_eq])

theorem sumCosts_eq (l : List Script) : sumCosts l = (l.map Script.cost).sum := rfl

/-- `FixedLengthSequenceEdit`: the cost depends on the operands only through sizes and the cell costs -/
theorem fixedScript_cost_congr {fcs fcs' tcs tcs' : List Tree} (tbl tbl' : List (List Script))
    (hf : TPermL fcs fcs') (ht : TPermL tcs tcs')
    (H : ∀ i, i < fcs.length → i < tcs.length →
      ((tbl.getD i []).getD i (mkMatch 0)).cost = ((tbl'.getD i []).getD i (mkMatch 0)).cost) :
    (fixedScript fcs tcs tbl).cost = (fixedScript fcs' tcs' tbl').cost := by
  have hmin : ∀ a b : Nat, Nat.min a b = min a b := fun _ _ => rfl
  simp only [fixedScript, mkCompound_costZ, sumCosts_eq, List.map_append, List.map_map, ← hf.length_eq,
    ← ht.length_eq, hmin]
  congr 2
  · congr 1
    · apply List.map_congr_left
      intro i hi
      simp only [List.mem_range] at hi
      simp only [Function.comp_apply, relabel_cost]
      exact H i (by omega) (by omega)
    · apply List.map_congr_left
      intro k hk
      simp only [List.mem_range] at hk
      simp only [Function.comp_apply, mkRemove_costZ]
      rw [(hf.getD _ (by omega)).size_eq]
  · apply List.map_congr_left
    intro k hk
    simp only [List.mem_range] at hk
    simp only [Function.comp_apply, mkInsert_costZ]
    rw [(ht.getD _ (by omega)).size_eq]

/-- `EditDistance`: the cost depends on the operands only through sizes, pairwise equality and the cell costs -/
theorem edScript_cost_congr {fcs fcs' tcs tcs' : List Tree} (pen : Nat) (tbl tbl' : List (List Script))
    (hf : TPermL fcs fcs') (ht : TPermL tcs tcs')
    (H : ∀ i j, i < fcs.length → j < tcs.length →
      ((tbl.getD i []).getD j (mkMatch 0)).cost = ((tbl'.getD i []).getD j (mkMatch 0)).cost) :
    (edScript fcs tcs pen tbl).cost = (edScript fcs' tcs' pen tbl').cost := by
  simp only [edScript, mk_cost, ← trimLens_congr hf ht]
  have hmf := middle_congr hf (trimLens fcs tcs)
  have hmt := middle_congr ht (trimLens fcs tcs)
  rw [← hmf.map_congr (fun c => c.size + pen) (fun c c' h => by rw [h.size_eq]),
    ← hmt.map_congr (fun c => c.size + pen) (fun c c' h => by rw [h.size_eq]),
    ← hmf.length_eq, ← hmt.length_eq]
  congr 2
  apply List.map_congr_left
  intro r hr
  apply List.map_congr_left
  intro c hc
  simp only [List.mem_range, middle_lengthZ] at hr hc
  have la := trim_le_left fcs tcs
  have lb := trim_le_right fcs tcs
  exact H _ _ (by omega) (by omega)

/-- leaves against related trees -/
theorem leafEdits_cost_congr (a : Scalar) {t t' : Tree} (h : TPerm t t') :
    (leafEdits a t).cost = (leafEdits a t').cost := by
  cases h with
  | leaf s => rfl
  | list hL =>
    have := (TPerm.list hL).size_eq
    cases a <;> simp [leafEdits, this]
  | fdict h1 h2 =>
    have := (TPerm.fdict h1 h2).size_eq
    cases a <;> simp [leafEdits, this]

end GtModel

/-
  Trees up to re-ordering of `FixedKeyDictNode` pairs (`TPerm`), and what is invariant under it:
  sizes, node equality, leaf-ness.  Used for C08 (3): with `allow_key_edits = False` the cost of a comparison does
  not depend on the key order of either document.
-/
import GtModel.Proofs.ZeroBuild

namespace GtModel

mutual
/-- `TPerm f f'`: `f'` is `f` with the pairs of any `fdict` node, at any depth, re-ordered.  (No `dict` nodes:
    `build` with `ake = false` creates none.) -/
inductive TPerm : Tree → Tree → Prop
  | leaf (s : Scalar) : TPerm (.leaf s) (.leaf s)
  | list {as bs : List Tree} : TPermL as bs → TPerm (.list as) (.list bs)
  | fdict {as cs bs : List (Str × Tree)} : TPermKV as cs → List.Perm cs bs → TPerm (.fdict as) (.fdict bs)
inductive TPermL : List Tree → List Tree → Prop
  | nil : TPermL [] []
  | cons {a b : Tree} {as bs : List Tree} : TPerm a b → TPermL as bs → TPermL (a :: as) (b :: bs)
inductive TPermKV : List (Str × Tree) → List (Str × Tree) → Prop
  | nil : TPermKV [] []
  | cons {k : Str} {v w : Tree} {as bs : List (Str × Tree)} :
      TPerm v w → TPermKV as bs → TPermKV ((k, v) :: as) ((k, w) :: bs)
end

/-- same key, values related -/
def PR (p q : Str × Tree) : Prop := p.1 = q.1 ∧ TPerm p.2 q.2

/-- what `TPerm` says about the pair lists of two `fdict` nodes -/
def KVP (as bs : List (Str × Tree)) : Prop := ∃ cs, TPermKV as cs ∧ cs.Perm bs

theorem TPerm_fdict_iff (as bs : List (Str × Tree)) : TPerm (.fdict as) (.fdict bs) ↔ KVP as bs := by
  constructor
  · intro h; cases h with | fdict h1 h2 => exact ⟨_, h1, h2⟩
  · rintro ⟨cs, h1, h2⟩; exact .fdict h1 h2

theorem TPerm_list_iff (as bs : List Tree) : TPerm (.list as) (.list bs) ↔ TPermL as bs := by
  constructor
  · intro h; cases h with | list h1 => exact h1
  · intro h; exact .list h

theorem TPermL_iff : ∀ (as bs : List Tree), TPermL as bs ↔
    as.length = bs.length ∧ ∀ i (h1 : i < as.length) (h2 : i < bs.length), TPerm as[i] bs[i] := by
  intro as
  induction as with
  | nil =>
    intro bs
    constructor
    · intro h; cases h; simp
    · rintro ⟨h, -⟩
      have : bs = [] := List.eq_nil_of_length_eq_zero (by simpa using h.symm)
      subst this; exact .nil
  | cons a as ih =>
    intro bs
    constructor
    · intro h
      cases h with
      | cons h1 h2 =>
        obtain ⟨hl, hr⟩ := (ih _).1 h2
        refine ⟨by simp [hl], fun i hi hi' => ?_⟩
        cases i with
        | zero => exact h1
        | succ i => exact hr i (by simpa using hi) (by simpa using hi')
    · rintro ⟨hl, hr⟩
      cases bs with
      | nil => simp at hl
      | cons b bs =>
        refine .cons (hr 0 (by simp) (by simp)) ((ih bs).2 ⟨by simpa using hl, fun i hi hi' => ?_⟩)
        exact hr (i + 1) (by simp; omega) (by simp; omega)

theorem TPermKV_iff : ∀ (as bs : List (Str × Tree)), TPermKV as bs ↔
    as.length = bs.length ∧ ∀ i (h1 : i < as.length) (h2 : i < bs.length), PR as[i] bs[i] := by
  intro as
  induction as with
  | nil =>
    intro bs
    constructor
    · intro h; cases h; simp
    · rintro ⟨h, -⟩
      have : bs = [] := List.eq_nil_of_length_eq_zero (by simpa using h.symm)
      subst this; exact .nil
  | cons a as ih =>
    intro bs
    constructor
    · intro h
      cases h with
      | cons h1 h2 =>
        obtain ⟨hl, hr⟩ := (ih _).1 h2
        refine ⟨by simp [hl], fun i hi hi' => ?_⟩
        cases i with
        | zero => exact ⟨rfl, h1⟩
        | succ i => exact hr i (by simpa using hi) (by simpa using hi')
    · rintro ⟨hl, hr⟩
      cases bs with
      | nil => simp at hl
      | cons b bs =>
        obtain ⟨k, v⟩ := a
        obtain ⟨k', w⟩ := b
        have h0 := hr 0 (by simp) (by simp)
        simp only [PR, List.getElem_cons_zero] at h0
        obtain ⟨rfl, h0'⟩ := h0
        refine .cons h0' ((ih bs).2 ⟨by simpa using hl, fun i hi hi' => ?_⟩)
        exact hr (i + 1) (by simp; omega) (by simp; omega)

/-! ### consequences of `KVP` -/

theorem KVP.length_eq {as bs : List (Str × Tree)} (h : KVP as bs) : as.length = bs.length := by
  obtain ⟨cs, h1, h2⟩ := h
  rw [((TPermKV_iff _ _).1 h1).1, h2.length_eq]

theorem KVP.left {as bs : List (Str × Tree)} (h : KVP as bs) : ∀ p ∈ as, ∃ q ∈ bs, PR p q := by
  obtain ⟨cs, h1, h2⟩ := h
  obtain ⟨hl, hr⟩ := (TPermKV_iff _ _).1 h1
  intro p hp
  obtain ⟨i, hi, rfl⟩ := List.getElem_of_mem hp
  exact ⟨cs[i]'(by omega), h2.subset (List.getElem_mem _), hr i hi (by omega)⟩

theorem KVP.right {as bs : List (Str × Tree)} (h : KVP as bs) : ∀ q ∈ bs, ∃ p ∈ as, PR p q := by
  obtain ⟨cs, h1, h2⟩ := h
  obtain ⟨hl, hr⟩ := (TPermKV_iff _ _).1 h1
  intro q hq
  obtain ⟨i, hi, rfl⟩ := List.getElem_of_mem (h2.symm.subset hq)
  exact ⟨as[i]'(by omega), List.getElem_mem _, hr i (by omega) hi⟩

theorem KVP.keys_perm {as bs : List (Str × Tree)} (h : KVP as bs) : (as.map Prod.fst).Perm (bs.map Prod.fst) := by
  obtain ⟨cs, h1, h2⟩ := h
  obtain ⟨hl, hr⟩ := (TPermKV_iff _ _).1 h1
  have : as.map Prod.fst = cs.map Prod.fst := by
    apply List.ext_getElem (by simp [hl])
    intro i hi hi'
    simp only [List.getElem_map]
    exact (hr i (by simpa using hi) (by simpa using hi')).1
  rw [this]; exact h2.map _

/-- sums over related pair lists agree when the summands agree on related pairs -/
theorem KVP.sum_eq {as bs : List (Str × Tree)} (h : KVP as bs) (g g' : Str × Tree → Nat)
    (hg : ∀ p ∈ as, ∀ q ∈ bs, PR p q → g p = g' q) : (as.map g).sum = (bs.map g').sum := by
  obtain ⟨cs, h1, h2⟩ := h
  obtain ⟨hl, hr⟩ := (TPermKV_iff _ _).1 h1
  have : as.map g = cs.map g' := by
    apply List.ext_getElem (by simp [hl])
    intro i hi hi'
    simp only [List.getElem_map]
    simp only [List.length_map] at hi hi'
    exact hg _ (List.getElem_mem _) _ (h2.subset (List.getElem_mem _)) (hr i hi hi')
  rw [this]; exact (h2.map g').sum_nat

/-! ### left reflexivity -/

theorem TPerm_refl_left_aux : ∀ (n : Nat) (f : Tree), sizeOf f ≤ n → ∀ f', TPerm f f' → TPerm f f := by
  intro n
  induction n with
  | zero => intro f h; cases f <;> simp at h
  | succ n ih =>
    intro f hn f' h
    cases h with
    | leaf s => exact .leaf s
    | list hL =>
      rename_i as bs
      obtain ⟨hl, hr⟩ := (TPermL_iff _ _).1 hL
      refine .list ((TPermL_iff _ _).2 ⟨rfl, fun i hi _ => ?_⟩)
      have := List.sizeOf_lt_of_mem (List.getElem_mem hi)
      simp only [Tree.list.sizeOf_spec] at hn
      exact ih _ (by omega) _ (hr i hi (by omega))
    | fdict hKV hperm =>
      rename_i as cs bs
      obtain ⟨hl, hr⟩ := (TPermKV_iff _ _).1 hKV
      refine .fdict ((TPermKV_iff _ _).2 ⟨rfl, fun i hi _ => ⟨rfl, ?_⟩⟩) (List.Perm.refl _)
      have h1 := List.sizeOf_lt_of_mem (List.getElem_mem hi)
      have h2 := sizeOf_snd_lt as[i]
      simp only [Tree.fdict.sizeOf_spec] at hn
      exact ih _ (by omega) _ (hr i hi (by omega)).2

theorem TPerm.refl_left {f f' : Tree} (h : TPerm f f') : TPerm f f := TPerm_refl_left_aux _ f (Nat.le_refl _) f' h

theorem TPerm_refl_right_aux : ∀ (n : Nat) (f : Tree), sizeOf f ≤ n → ∀ f', TPerm f f' → TPerm f' f' := by
  intro n
  induction n with
  | zero => intro f h; cases f <;> simp at h
  | succ n ih =>
    intro f hn f' h
    cases h with
    | leaf s => exact .leaf s
    | list hL =>
      rename_i as bs
      obtain ⟨hl, hr⟩ := (TPermL_iff _ _).1 hL
      refine .list ((TPermL_iff _ _).2 ⟨rfl, fun i hi _ => ?_⟩)
      have := List.sizeOf_lt_of_mem (List.getElem_mem (show i < as.length by omega))
      simp only [Tree.list.sizeOf_spec] at hn
      exact ih _ (by omega) _ (hr i (by omega) hi)
    | fdict hKV hperm =>
      rename_i as cs bs
      refine .fdict ((TPermKV_iff _ _).2 ⟨rfl, fun i hi _ => ⟨rfl, ?_⟩⟩) (List.Perm.refl _)
      obtain ⟨p, hp, hpq⟩ := (KVP.right ⟨cs, hKV, hperm⟩) bs[i] (List.getElem_mem hi)
      have h1 := List.sizeOf_lt_of_mem hp
      have h2 := sizeOf_snd_lt p
      simp only [Tree.fdict.sizeOf_spec] at hn
      exact ih _ (by omega) _ hpq.2

theorem TPerm.refl_right {f f' : Tree} (h : TPerm f f') : TPerm f' f' :=
  TPerm_refl_right_aux _ f (Nat.le_refl _) f' h

/-! ### sizes -/

theorem sizeL_eq_sum : ∀ (cs : List Tree), sizeL cs = (cs.map fun c => c.size + 1).sum := by
  intro cs; induction cs with
  | nil => simp [sizeL]
  | cons c cs ih => simp [sizeL, ih]

theorem sizeKV_eq_sum : ∀ (kvs : List (Str × Tree)), sizeKV kvs = (kvs.map fun p => kvSize p + 1).sum := by
  intro kvs; induction kvs with
  | nil => simp [sizeKV]
  | cons p kvs ih => obtain ⟨k, v⟩ := p; simp [sizeKV, ih, kvSize]

theorem TPerm_size_aux : ∀ (n : Nat) (f : Tree), sizeOf f ≤ n → ∀ f', TPerm f f' → f.size = f'.size := by
  intro n
  induction n with
  | zero => intro f h; cases f <;> simp at h
  | succ n ih =>
    intro f hn f' h
    cases h with
    | leaf s => rfl
    | list hL =>
      rename_i as bs
      obtain ⟨hl, hr⟩ := (TPermL_iff _ _).1 hL
      simp only [Tree.size, sizeL_eq_sum]
      congr 1
      apply List.ext_getElem (by simp [hl])
      intro i hi hi'
      simp only [List.length_map] at hi hi'
      simp only [List.getElem_map]
      have := List.sizeOf_lt_of_mem (List.getElem_mem hi)
      simp only [Tree.list.sizeOf_spec] at hn
      rw [ih _ (by omega) _ (hr i hi hi')]
    | fdict hKV hperm =>
      rename_i as cs bs
      simp only [Tree.size, sizeKV_eq_sum]
      apply KVP.sum_eq ⟨cs, hKV, hperm⟩
      intro p hp q hq hpq
      have h1 := List.sizeOf_lt_of_mem hp
      have h2 := sizeOf_snd_lt p
      simp only [Tree.fdict.sizeOf_spec] at hn
      simp only [kvSize, hpq.1, ih _ (by omega) _ hpq.2]

theorem TPerm.size_eq {f f' : Tree} (h : TPerm f f') : f.size = f'.size := TPerm_size_aux _ f (Nat.le_refl _) f' h

theorem PR.kvSize_eq {p q : Str × Tree} (h : PR p q) : kvSize p = kvSize q := by
  simp only [kvSize, h.1, h.2.size_eq]

theorem TPerm.isLeaf_eq {f f' : Tree} (h : TPerm f f') : f.isLeaf = f'.isLeaf := by
  cases h <;> rfl

/-! ### node equality -/

theorem TPerm_eq_aux : ∀ (n : Nat) (f : Tree), sizeOf f ≤ n → ∀ f' t t', TPerm f f' → TPerm t t' →
    f.eq t = f'.eq t' := by
  intro n
  induction n with
  | zero => intro f h; cases f <;> simp at h
  | succ n ih =>
    intro f hn f' t t' hf ht
    cases hf with
    | leaf s => cases ht <;> simp [Tree.eq]
    | list hL =>
      rename_i as as'
      cases ht with
      | leaf s => simp [Tree.eq]
      | fdict _ _ => simp [Tree.eq]
      | list hL' =>
        rename_i bs bs'
        obtain ⟨hl, hr⟩ := (TPermL_iff _ _).1 hL
        obtain ⟨hl', hr'⟩ := (TPermL_iff _ _).1 hL'
        simp only [Tree.eq]
        rw [Bool.eq_iff_iff, eqL_iff', eqL_iff']
        simp only [Tree.list.sizeOf_spec] at hn
        constructor
        · rintro ⟨h1, h2⟩
          refine ⟨by omega, fun i hi hi' => ?_⟩
          have := List.sizeOf_lt_of_mem (List.getElem_mem (show i < as.length by omega))
          rw [← ih as[i] (by omega) _ _ _ (hr i (by omega) hi) (hr' i (by omega) hi')]
          exact h2 i (by omega) (by omega)
        · rintro ⟨h1, h2⟩
          refine ⟨by omega, fun i hi hi' => ?_⟩
          have := List.sizeOf_lt_of_mem (List.getElem_mem hi)
          rw [ih as[i] (by omega) _ _ _ (hr i hi (by omega)) (hr' i hi' (by omega))]
          exact h2 i (by omega) (by omega)
    | fdict hKV hperm =>
      rename_i as cs as'
      cases ht with
      | leaf s => simp [Tree.eq]
      | list _ => simp [Tree.eq]
      | fdict hKV' hperm' =>
        rename_i bs ds bs'
        have ka : KVP as as' := ⟨cs, hKV, hperm⟩
        have kb : KVP bs bs' := ⟨ds, hKV', hperm'⟩
        simp only [Tree.fdict.sizeOf_spec] at hn
        have hih : ∀ p ∈ as, ∀ p' q q', PR p p' → PR q q' → p.2.eq q.2 = p'.2.eq q'.2 := by
          intro p hp p' q q' h1 h2
          have s1 := List.sizeOf_lt_of_mem hp
          have s2 := sizeOf_snd_lt p
          exact ih p.2 (by omega) _ _ _ h1.2 h2.2
        rw [Bool.eq_iff_iff, fdict_eq_iff, fdict_eq_iff]
        unfold kvRel
        constructor
        · rintro ⟨h1, h2⟩
          refine ⟨by rw [← ka.length_eq, ← kb.length_eq]; exact h1, fun p' hp' => ?_⟩
          obtain ⟨p, hp, hpp⟩ := ka.right p' hp'
          obtain ⟨q, hq, e, he⟩ := h2 p hp
          obtain ⟨q', hq', hqq⟩ := kb.left q hq
          refine ⟨q', hq', by rw [← hpp.1, e, hqq.1], ?_⟩
          rw [← hih p hp p' q q' hpp hqq]; exact he
        · rintro ⟨h1, h2⟩
          refine ⟨by rw [ka.length_eq, kb.length_eq]; exact h1, fun p hp => ?_⟩
          obtain ⟨p', hp', hpp⟩ := ka.left p hp
          obtain ⟨q', hq', e, he⟩ := h2 p' hp'
          obtain ⟨q, hq, hqq⟩ := kb.right q' hq'
          refine ⟨q, hq, by rw [hpp.1, e, hqq.1], ?_⟩
          rw [hih p hp p' q q' hpp hqq]; exact he

theorem TPerm.eq_congr {f f' t t' : Tree} (hf : TPerm f f') (ht : TPerm t t') : f.eq t = f'.eq t' :=
  TPerm_eq_aux _ f (Nat.le_refl _) f' t t' hf ht

theorem PR.kvEq_congr {p p' q q' : Str × Tree} (hp : PR p p') (hq : PR q q') : kvEq p q = kvEq p' q' := by
  simp only [kvEq, hp.1, hq.1, hp.2.eq_congr hq.2]

end GtModel

/-
  An executable check `wfB` that a script is a well-formed edit (`Render.WF` + the root gate), and its soundness for
  trees with distinct keys (`scriptOKB_sound`).  The driver evaluates it on every case of the `render` stream: an
  executable cross-check of `Render.script_wellformed` (which proves the same for every engine script).
-/
import GtModel.Proofs.RenderEdits

namespace GtModel.Render
open GtModel

/-- node equality of two items (graphtage's `==`) -/
def itemEqB : Item → Item → Bool
  | .tree a, .tree b => a.eq b
  | .kv k v, .kv k' v' => k == k' && v.eq v'
  | _, _ => false

/-- every mapping inside the item has distinct keys -/
def Item.kd : Item → Bool
  | .tree t => t.keysDistinct
  | .kv _ v => v.keysDistinct

theorem children_kd (x : Item) (h : x.kd = true) : ∀ c ∈ x.children, c.kd = true := by
  intro c hc
  match x, h with
  | .tree (.leaf _), _ => simp [Item.children] at hc
  | .tree (.list cs), h =>
    simp only [Item.children, List.mem_map] at hc
    obtain ⟨a, ha, rfl⟩ := hc
    exact (kd_list cs).1 h a ha
  | .tree (.dict kvs), h =>
    simp only [Item.children, List.mem_map] at hc
    obtain ⟨a, ha, rfl⟩ := hc
    exact ((kd_dict kvs).1 h).2 a ha
  | .tree (.fdict kvs), h =>
    simp only [Item.children, List.mem_map] at hc
    obtain ⟨a, ha, rfl⟩ := hc
    exact ((kd_fdict kvs).1 h).2 a ha
  | .kv k v, h =>
    simp only [Item.children, List.mem_cons, List.mem_nil_iff, or_false] at hc
    rcases hc with rfl | rfl
    · rfl
    · exact h

theorem itemEqB_sound {a b : Item} (ha : a.kd = true) (hb : b.kd = true) (h : itemEqB a b = true) :
    ValPerm a.val b.val := by
  match a, b, ha, hb, h with
  | .tree a, .tree b, ha, hb, h => exact eq_valPerm a b ha hb h
  | .kv k v, .kv k' v', ha, hb, h =>
    simp only [itemEqB, Bool.and_eq_true, beq_iff_eq] at h
    obtain ⟨rfl, hv⟩ := h
    exact .pair (eq_valPerm v v' ha hb hv)

def listEqB : List Item → List Item → Bool
  | [], [] => true
  | a :: as, b :: bs => itemEqB a b && listEqB as bs
  | _, _ => false

theorem listEqB_sound : ∀ {as bs : List Item}, (∀ a ∈ as, a.kd = true) → (∀ b ∈ bs, b.kd = true) →
    listEqB as bs = true → ValPermL (as.map Item.val) (bs.map Item.val)
  | [], [], _, _, _ => .nil
  | a :: as, b :: bs, ha, hb, h => by
    simp only [listEqB, Bool.and_eq_true] at h
    exact .cons (itemEqB_sound (ha a (by simp)) (hb b (by simp)) h.1)
      (listEqB_sound (fun x hx => ha x (by simp [hx])) (fun x hx => hb x (by simp [hx])) h.2)
  | [], _ :: _, _, _, h => by simp [listEqB] at h
  | _ :: _, [], _, _, h => by simp [listEqB] at h

def removeFirst (p : Item → Bool) : List Item → Option (List Item)
  | [] => none
  | b :: bs => if p b then some bs else (removeFirst p bs).map (b :: ·)

theorem removeFirst_some (p : Item → Bool) : ∀ (bs bs' : List Item), removeFirst p bs = some bs' →
    ∃ b, p b = true ∧ bs.Perm (b :: bs')
  | [], _, h => by simp [removeFirst] at h
  | b :: bs, bs', h => by
    simp only [removeFirst] at h
    split at h
    · rename_i hp
      simp only [Option.some.injEq] at h
      subst h
      exact ⟨b, hp, List.Perm.refl _⟩
    · obtain ⟨r, hr, rfl⟩ := Option.map_eq_some_iff.1 h
      obtain ⟨c, hc, hperm⟩ := removeFirst_some p bs r hr
      exact ⟨c, hc, (List.Perm.cons b hperm).trans (List.Perm.swap c b r)⟩

def permB : List Item → List Item → Bool
  | [], bs => bs.isEmpty
  | a :: as, bs =>
      match removeFirst (itemEqB a) bs with
      | some bs' => permB as bs'
      | none => false

theorem permB_sound : ∀ (as bs : List Item), (∀ a ∈ as, a.kd = true) → (∀ b ∈ bs, b.kd = true) →
    permB as bs = true → ValPermP (as.map Item.val) (bs.map Item.val)
  | [], bs, _, _, h => by
    have : bs = [] := by simpa [permB] using h
    subst this; exact .nil
  | a :: as, bs, ha, hbs, h => by
    simp only [permB] at h
    split at h
    · rename_i bs' hr
      obtain ⟨b, hb, hperm⟩ := removeFirst_some _ _ _ hr
      have hmem : ∀ x ∈ b :: bs', x.kd = true := fun x hx => hbs x (hperm.mem_iff.2 hx)
      have ih := permB_sound as bs' (fun x hx => ha x (by simp [hx])) (fun x hx => hmem x (by simp [hx])) h
      have h1 : ValPermP ((a :: as).map Item.val) ((b :: bs').map Item.val) := by
        simpa using ValPermP.cons (itemEqB_sound (ha a (by simp)) (hmem b (by simp)) hb) ih
      exact .permR h1 (hperm.symm.map Item.val)
    · cases h

def strOKB (a b : Str) (subs : List Script) : Bool :=
  subs.all (fun s => (classifyChar a b s).isSome) && sideChars true a b subs == a && sideChars false a b subs == b
    && a != b

theorem strOKB_sound {a b : Str} {subs : List Script} (h : strOKB a b subs = true) : StrOK a b subs := by
  simp only [strOKB, Bool.and_eq_true, List.all_eq_true, beq_iff_eq, bne_iff_ne, ne_eq] at h
  refine ⟨?_, h.1.1.2, h.1.2, h.2⟩
  intro s hs
  exact Option.isSome_iff_exists.1 (h.1.1.1 s hs)

def keyOKB (fk tk : Str) (ke : Script) : Bool :=
  (ke.kind == .match_ || ke.kind == .str) && (ke.cost != 0 || fk == tk) &&
  (ke.kind != .str || strOKB fk tk ke.subs)

theorem keyOKB_sound {fk tk : Str} {ke : Script} (h : keyOKB fk tk ke = true) : KeyOK fk tk ke := by
  simp only [keyOKB, Bool.and_eq_true, Bool.or_eq_true, beq_iff_eq, bne_iff_ne, ne_eq] at h
  obtain ⟨⟨hk, h0⟩, hs⟩ := h
  refine ⟨hk, ?_, ?_⟩
  · intro hc
    rcases h0 with h0 | h0
    · exact absurd hc h0
    · exact h0
  · intro hstr
    rcases hs with hs | hs
    · exact absurd hstr hs
    · exact strOKB_sound hs

def gateB (x y : Item) (s : Script) : Bool :=
  s.kind != .remove && s.kind != .insert && (s.cost != 0 || isCompound s.kind || itemEqB x y)

theorem gateB_sound {x y : Item} {s : Script} (hx : x.kd = true) (hy : y.kd = true) (h : gateB x y s = true) :
    Gate x y s := by
  simp only [gateB, Bool.and_eq_true, Bool.or_eq_true, bne_iff_ne, ne_eq] at h
  obtain ⟨⟨h1, h2⟩, h3⟩ := h
  refine ⟨h1, h2, ?_⟩
  intro hc
  rcases h3 with (h3 | h3) | h3
  · exact absurd hc h3
  · exact Or.inl h3
  · exact Or.inr (itemEqB_sound hx hy h3)

def coverB (x y : Item) (subs : List Script) : Bool :=
  match x.brackets, y.brackets with
  | some (o, c), some (o', c') =>
      o == o' && c == c' &&
      (if o == 91 then
        listEqB (sideItems true x.children y.children subs) x.children &&
        listEqB (sideItems false x.children y.children subs) y.children
      else
        permB (sideItems true x.children y.children subs) x.children &&
        permB (sideItems false x.children y.children subs) y.children)
  | _, _ => false

theorem sideItems_kd (side : Bool) (fcs tcs : List Item) (subs : List Script) (hf : ∀ a ∈ fcs, a.kd = true)
    (ht : ∀ b ∈ tcs, b.kd = true) : ∀ z ∈ sideItems side fcs tcs subs, z.kd = true := by
  intro z hz
  simp only [sideItems, List.mem_filterMap] at hz
  obtain ⟨s, _, hs⟩ := hz
  split at hs
  · cases hs
  · obtain ⟨p, hp, rfl⟩ := Option.map_eq_some_iff.1 hs
    obtain ⟨a, b⟩ := p
    have hm := resolve_mem _ _ _ _ _ hp
    cases side
    · simp only [sideItem, Bool.false_eq_true, if_false]
      rcases hm.2 with h | h
      · exact hf _ h
      · exact ht _ h
    · simp only [sideItem, if_true]
      rcases hm.1 with h | h
      · exact hf _ h
      · exact ht _ h

theorem coverB_sound {x y : Item} {subs : List Script} (hx : x.kd = true) (hy : y.kd = true)
    (h : coverB x y subs = true) : Cover x y subs := by
  have hcx := children_kd x hx
  have hcy := children_kd y hy
  unfold coverB at h
  split at h
  · rename_i o c o' c' hx hy
    simp only [Bool.and_eq_true, beq_iff_eq] at h
    obtain ⟨⟨rfl, rfl⟩, h3⟩ := h
    refine ⟨o, c, hx, hy, ?_⟩
    by_cases ho : o = 91
    · simp only [ho, beq_self_eq_true, if_true, Bool.and_eq_true] at h3 ⊢
      exact ⟨listEqB_sound (sideItems_kd _ _ _ _ hcx hcy) hcx h3.1, listEqB_sound (sideItems_kd _ _ _ _ hcx hcy) hcy h3.2⟩
    · have : (o == 91) = false := by simpa using ho
      simp only [this, Bool.false_eq_true, if_false, Bool.and_eq_true, ho] at h3 ⊢
      exact ⟨permB_sound _ _ (sideItems_kd _ _ _ _ hcx hcy) hcx h3.1,
        permB_sound _ _ (sideItems_kd _ _ _ _ hcx hcy) hcy h3.2⟩
  · cases h

mutual
def wfB : Item → Item → Script → Bool
  | x, y, .mk .match_ _ _ c _ => decide (c > 0) || itemEqB y x
  | _, _, .mk .replace _ _ c _ => decide (c > 0)
  | _, _, .mk .remove _ _ _ _ => true
  | _, _, .mk .insert _ _ _ _ => false      -- an Insert only occurs as a sub-edit; see `wfSubsB`
  | x, y, .mk .str _ _ _ subs =>
      match x, y with
      | .tree (.leaf (.str a)), .tree (.leaf (.str b)) => strOKB a b subs
      | _, _ => false
  | x, y, .mk .kvp _ _ _ subs =>
      match x, y, subs with
      | .kv fk fv, .kv tk tv, [ke, ve] =>
          keyOKB fk tk ke && wfB (.tree fv) (.tree tv) ve && gateB (.tree fv) (.tree tv) ve
      | _, _, _ => false
  | x, y, .mk .ed _ _ _ subs => coverB x y subs && wfSubsB x.children y.children subs
  | x, y, .mk .fixed _ _ _ subs => coverB x y subs && wfSubsB x.children y.children subs
  | x, y, .mk .ms _ _ _ subs => coverB x y subs && wfSubsB x.children y.children subs
  | x, y, .mk .fk _ _ _ subs => coverB x y subs && wfSubsB x.children y.children subs
def wfSubsB (fcs tcs : List Item) : List Script → Bool
  | [] => true
  | s :: rest =>
      (match resolve fcs tcs s with
        | some (x, y) => s.kind == .insert || wfB x y s
        | none => false) && wfSubsB fcs tcs rest
end

theorem resolve_insert (fcs tcs : List Item) (k : Kind) (fi ti : Ix) (c : Nat) (subs : List Script) (x y : Item)
    (hk : k = .insert) (h : resolve fcs tcs (.mk k fi ti c subs) = some (x, y)) : x = y := by
  subst hk
  cases fi <;> simp [resolve, Script.kind, Script.fi, Script.ti] at h
  obtain ⟨a, _, rfl, rfl⟩ := h
  rfl

def Sound (s : Script) : Prop := ∀ x y : Item, x.kd = true → y.kd = true → wfB x y s = true → WF x y s

theorem wfSubsB_sound (fcs tcs : List Item) (hf : ∀ a ∈ fcs, a.kd = true) (ht : ∀ b ∈ tcs, b.kd = true)
    (subs : List Script) (ih : ∀ s ∈ subs, Sound s)
    (h : wfSubsB fcs tcs subs = true) : WFSubs fcs tcs subs := by
  induction subs with
  | nil => simp [WFSubs]
  | cons s rest ihr =>
    simp only [wfSubsB, Bool.and_eq_true] at h
    obtain ⟨h1, h2⟩ := h
    refine ⟨?_, ihr (fun s hs => ih s (by simp [hs])) h2⟩
    split at h1
    · rename_i x y hres
      refine ⟨x, y, hres, ?_⟩
      simp only [Bool.or_eq_true, beq_iff_eq] at h1
      rcases h1 with hk | hw
      · cases s with
        | mk k fi ti c sb =>
          simp only [Script.kind] at hk
          have := resolve_insert fcs tcs k fi ti c sb x y hk hres
          subst hk
          simpa [WF] using this
      · have hm := resolve_mem _ _ _ _ _ hres
        have hxk : x.kd = true := by rcases hm.1 with h | h; exact hf _ h; exact ht _ h
        have hyk : y.kd = true := by rcases hm.2 with h | h; exact hf _ h; exact ht _ h
        exact ih s (by simp) x y hxk hyk hw
    · cases h1

theorem wfB_sound : ∀ s, Sound s := by
  apply scriptInd
  intro k fi ti c subs ih x y hx hy h
  have hcx := children_kd x hx
  have hcy := children_kd y hy
  cases k with
  | match_ =>
    simp only [wfB, Bool.or_eq_true, decide_eq_true_eq] at h
    simp only [WF]
    rcases h with h | h
    · exact Or.inl h
    · exact Or.inr (itemEqB_sound hy hx h)
  | replace => simpa [wfB, WF] using h
  | remove => simp [WF]
  | insert => simp [wfB] at h
  | str =>
    match x, y, h with
    | .tree (.leaf (.str a)), .tree (.leaf (.str b)), h =>
      simp only [wfB] at h
      simp only [WF]
      exact ⟨a, b, rfl, rfl, strOKB_sound h⟩
  | kvp =>
    match x, y, subs, h, ih, hx, hy with
    | .kv fk fv, .kv tk tv, [ke, ve], h, ih, hx, hy =>
      simp only [wfB, Bool.and_eq_true] at h
      simp only [WF]
      exact ⟨keyOKB_sound h.1.1, ih ve (by simp) (.tree fv) (.tree tv) hx hy h.1.2,
        gateB_sound (x := .tree fv) (y := .tree tv) hx hy h.2⟩
  | ed =>
    simp only [wfB, Bool.and_eq_true] at h
    simp only [WF]
    exact ⟨coverB_sound hx hy h.1, wfSubsB_sound _ _ hcx hcy _ ih h.2⟩
  | fixed =>
    simp only [wfB, Bool.and_eq_true] at h
    simp only [WF]
    exact ⟨coverB_sound hx hy h.1, wfSubsB_sound _ _ hcx hcy _ ih h.2⟩
  | ms =>
    simp only [wfB, Bool.and_eq_true] at h
    simp only [WF]
    exact ⟨coverB_sound hx hy h.1, wfSubsB_sound _ _ hcx hcy _ ih h.2⟩
  | fk =>
    simp only [wfB, Bool.and_eq_true] at h
    simp only [WF]
    exact ⟨coverB_sound hx hy h.1, wfSubsB_sound _ _ hcx hcy _ ih h.2⟩

/-- the executable form of `C06.ScriptWellFormed` -/
def scriptOKB (f t : Tree) (s : Script) : Bool :=
  wfB (.tree f) (.tree t) s && gateB (.tree f) (.tree t) s

theorem scriptOKB_sound (f t : Tree) (s : Script) (hf : f.KeysDistinct) (ht : t.KeysDistinct)
    (h : scriptOKB f t s = true) : WF (.tree f) (.tree t) s ∧ Gate (.tree f) (.tree t) s := by
  simp only [scriptOKB, Bool.and_eq_true] at h
  exact ⟨wfB_sound s (.tree f) (.tree t) hf ht h.1, gateB_sound (x := .tree f) (y := .tree t) hf ht h.2⟩

end GtModel.Render

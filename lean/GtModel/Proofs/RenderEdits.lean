/-
  The script the engine computes is a well-formed edit in the sense of `Render.WF`:
  `wf_edits : f.KeysDistinct → t.KeysDistinct → WF (.tree f) (.tree t) (edits o orc fp tp f t)` and the root gate.
  Uses C01 (index accounting of every compound edit), C02 (`zero_cost_iff_eq`) and the unfolding lemmas of `edits`.
-/
import GtModel.Proofs.RenderMain
import GtModel.Props.C01
import GtModel.Props.C02
import GtModel.Props.C03

namespace GtModel.Render
open GtModel
open GtModel.EditMatrix (Move solve located trimLens middle)

attribute [-simp] List.getD_eq_getElem?_getD

/-! ### `Tree.WF` (C02) and `Tree.KeysDistinct` (C01) are the same predicate -/

theorem wf_eq_kd : ∀ t : Tree, t.WF = t.keysDistinct := by
  apply treeInd
  · intro s; rfl
  · intro cs ih
    simp only [Tree.WF, Tree.keysDistinct]
    rw [Bool.eq_iff_iff, wfL_iff, kdL_iff]
    constructor
    · intro h c hc; rw [Tree.KeysDistinct, ← ih c hc]; exact h c hc
    · intro h c hc; rw [ih c hc]; exact h c hc
  · intro kvs ih
    simp only [Tree.WF, Tree.keysDistinct]
    congr 1
    rw [Bool.eq_iff_iff, wfKV_iff, kdKV_iff]
    constructor
    · intro h c hc; rw [Tree.KeysDistinct, ← ih c hc]; exact h c hc
    · intro h c hc; rw [ih c hc]; exact h c hc
  · intro kvs ih
    simp only [Tree.WF, Tree.keysDistinct]
    congr 1
    rw [Bool.eq_iff_iff, wfKV_iff, kdKV_iff]
    constructor
    · intro h c hc; rw [Tree.KeysDistinct, ← ih c hc]; exact h c hc
    · intro h c hc; rw [ih c hc]; exact h c hc

theorem wf_of_kd {t : Tree} (h : t.KeysDistinct) : t.WF = true := by rw [wf_eq_kd]; exact h

/-! ### `WF` does not look at the labels of the root -/

theorem wf_relabel (x y : Item) (s : Script) (f t : Ix) : WF x y (s.relabel f t) ↔ WF x y s := by
  cases s with
  | mk k fi ti c subs =>
    cases k <;> simp only [Script.relabel, Script.kind, Script.cost, Script.subs] <;>
      first | (simp only [WF]) | (rw [WF.eq_def]; conv => rhs; rw [WF.eq_def])

theorem gate_relabel (x y : Item) (s : Script) (f t : Ix) : Gate x y (s.relabel f t) ↔ Gate x y s := by
  cases s; simp [Gate, Script.relabel, Script.kind, Script.cost]

/-! ### `resolve` -/

theorem resolve_remove (fcs tcs : List Item) (s : Script) (i : Nat) (a : Item)
    (hk : s.kind = .remove) (hf : s.fi = .at i) (ha : fcs[i]? = some a) : resolve fcs tcs s = some (a, a) := by
  simp [resolve, hk, hf, ha]

theorem resolve_insert_at (fcs tcs : List Item) (s : Script) (j : Nat) (b : Item)
    (hk : s.kind = .insert) (hf : s.fi = .at j) (hb : tcs[j]? = some b) : resolve fcs tcs s = some (b, b) := by
  simp [resolve, hk, hf, hb]

theorem resolve_pair (fcs tcs : List Item) (s : Script) (i j : Nat) (a b : Item)
    (hr : s.kind ≠ .remove) (hi : s.kind ≠ .insert) (hf : s.fi = .at i) (ht : s.ti = .at j)
    (ha : fcs[i]? = some a) (hb : tcs[j]? = some b) : resolve fcs tcs s = some (a, b) := by
  unfold resolve
  rw [hf, ht]
  cases hk : s.kind <;> simp_all

theorem resolve_same (fcs tcs : List Item) (s : Script) (i : Nat) (a : Item)
    (hr : s.kind ≠ .remove) (hi : s.kind ≠ .insert) (hf : s.fi = .at i) (ht : s.ti = .same)
    (ha : fcs[i]? = some a) : resolve fcs tcs s = some (a, a) := by
  unfold resolve
  rw [hf, ht]
  cases hk : s.kind <;> simp_all

/-- what a successful `resolve` says about the sub-edit -/
theorem resolve_spec (fcs tcs : List Item) (s : Script) (a b : Item) (h : resolve fcs tcs s = some (a, b)) :
    (s.kind = .remove → ∃ i, s.fi = .at i ∧ fcs[i]? = some a ∧ b = a) ∧
    (s.kind = .insert → ∃ j, s.fi = .at j ∧ tcs[j]? = some a ∧ b = a) ∧
    (s.kind ≠ .remove → s.kind ≠ .insert → ∃ i, s.fi = .at i ∧ fcs[i]? = some a ∧
      ((∃ j, s.ti = .at j ∧ tcs[j]? = some b) ∨ (s.ti = .same ∧ b = a))) := by
  cases s with
  | mk k fi ti c subs =>
    simp only [Script.kind, Script.fi, Script.ti]
    cases k <;> cases fi <;> cases ti <;>
      simp [resolve, Script.kind, Script.fi, Script.ti] at h ⊢ <;>
      first
      | (obtain ⟨z, hz, rfl, rfl⟩ := h; exact ⟨hz, rfl⟩)
      | (obtain ⟨z, hz, rfl, rfl⟩ := h; exact hz)
      | (obtain ⟨h1, rfl⟩ := h; exact ⟨h1, rfl⟩)
      | (split at h <;> simp at h; obtain ⟨rfl, rfl⟩ := h; simp_all)
      | skip

/-! ### surviving children in terms of C01's index lists -/

open GtModel.C01 (pick pick_ixRange)

theorem fromIdx_cons (s : Script) (rest : List Script) :
    fromIdx (s :: rest) = if s.kind = .insert then fromIdx rest else s.fi :: fromIdx rest := by
  by_cases h : s.kind = .insert <;> simp [fromIdx, List.filter_cons, h]

theorem toIdx_cons (r : Ix → Ix) (s : Script) (rest : List Script) :
    toIdx r (s :: rest) = if s.kind = .remove then toIdx r rest else toIxOf r s :: toIdx r rest := by
  by_cases h : s.kind = .remove <;> simp [toIdx, List.filter_cons, h]

theorem pick_cons_at {α : Type} (l : List α) (i : Nat) (ixs : List Ix) :
    pick l (.at i :: ixs) = (l[i]?).toList ++ pick l ixs := by
  cases h : l[i]? <;> simp [pick, List.filterMap_cons, h]

theorem filterMap_from {α : Type} (subs : List Script) (l : List α) (F : Script → Option α)
    (h : ∀ s ∈ subs, (s.kind = .insert → F s = none) ∧ (s.kind ≠ .insert → ∃ i, s.fi = .at i ∧ F s = l[i]?)) :
    subs.filterMap F = pick l (fromIdx subs) := by
  induction subs with
  | nil => rfl
  | cons s rest ih =>
    have ih := ih (fun s hs => h s (by simp [hs]))
    obtain ⟨h1, h2⟩ := h s (by simp)
    rw [fromIdx_cons]
    by_cases hk : s.kind = .insert
    · simp [hk, List.filterMap_cons, h1 hk, ih]
    · obtain ⟨i, hi, hF⟩ := h2 hk
      simp only [hk, if_false, hi, pick_cons_at, ← ih, List.filterMap_cons, hF]
      cases l[i]? <;> simp

theorem filterMap_to {α : Type} (r : Ix → Ix) (subs : List Script) (l : List α) (F : Script → Option α)
    (h : ∀ s ∈ subs, (s.kind = .remove → F s = none) ∧
      (s.kind ≠ .remove → ∃ j, toIxOf r s = .at j ∧ F s = l[j]?)) :
    subs.filterMap F = pick l (toIdx r subs) := by
  induction subs with
  | nil => rfl
  | cons s rest ih =>
    have ih := ih (fun s hs => h s (by simp [hs]))
    obtain ⟨h1, h2⟩ := h s (by simp)
    rw [toIdx_cons]
    by_cases hk : s.kind = .remove
    · simp [hk, List.filterMap_cons, h1 hk, ih]
    · obtain ⟨j, hj, hF⟩ := h2 hk
      simp only [hk, if_false, hj, pick_cons_at, ← ih, List.filterMap_cons, hF]
      cases l[j]? <;> simp

theorem filterMap_to_sim (r : Ix → Ix) (subs : List Script) (l : List Item) (F : Script → Option Item)
    (h : ∀ s ∈ subs, (s.kind = .remove → F s = none) ∧
      (s.kind ≠ .remove → ∃ z j z', F s = some z ∧ toIxOf r s = .at j ∧ l[j]? = some z' ∧ ValPerm z.val z'.val)) :
    ValPermL ((subs.filterMap F).map Item.val) ((pick l (toIdx r subs)).map Item.val) := by
  induction subs with
  | nil => exact .nil
  | cons s rest ih =>
    have ih := ih (fun s hs => h s (by simp [hs]))
    obtain ⟨h1, h2⟩ := h s (by simp)
    rw [toIdx_cons]
    by_cases hk : s.kind = .remove
    · simpa [hk, List.filterMap_cons, h1 hk] using ih
    · obtain ⟨z, j, z', hF, hj, hz', hsim⟩ := h2 hk
      simp only [hk, if_false, hj, pick_cons_at, hz', List.filterMap_cons, hF, Option.toList_some,
        List.singleton_append, List.map_cons]
      exact .cons hsim ih

theorem mem_ixRange {i n : Nat} : Ix.at i ∈ ixRange n ↔ i < n := by
  simp [ixRange]

theorem fi_mem_fromIdx {s : Script} {subs : List Script} (hs : s ∈ subs) (hk : s.kind ≠ .insert) :
    s.fi ∈ fromIdx subs := by
  simp only [fromIdx, List.mem_map, List.mem_filter]
  exact ⟨s, ⟨hs, by simpa using hk⟩, rfl⟩

theorem toIx_mem_toIdx (r : Ix → Ix) {s : Script} {subs : List Script} (hs : s ∈ subs) (hk : s.kind ≠ .remove) :
    toIxOf r s ∈ toIdx r subs := by
  simp only [toIdx, List.mem_map, List.mem_filter]
  exact ⟨s, ⟨hs, by simpa using hk⟩, rfl⟩

/-! ### strings -/

/-- the shape of the sub-edits of a string's edit distance -/
def CharForm (s : Script) : Prop :=
  (s.kind = .match_ ∧ ∃ i j, s.fi = .at i ∧ s.ti = .at j) ∨ (s.kind = .remove ∧ ∃ i, s.fi = .at i) ∨
  (s.kind = .insert ∧ ∃ j, s.fi = .at j)

theorem char_side (r : Ix → Ix) (a b : Str) (s : Script) (e : CharEd) (hform : CharForm s)
    (he : classifyChar a b s = some e) :
    (s.kind = .insert → e.side true = none) ∧ (s.kind ≠ .insert → ∃ i, s.fi = .at i ∧ e.side true = a[i]?) ∧
    (s.kind = .remove → e.side false = none) ∧
    (s.kind ≠ .remove → ∃ j, toIxOf r s = .at j ∧ e.side false = b[j]?) := by
  cases s with
  | mk k fi ti c subs =>
    simp only [CharForm, Script.kind, Script.fi, Script.ti] at hform
    rcases hform with ⟨rfl, i, j, rfl, rfl⟩ | ⟨rfl, i, rfl⟩ | ⟨rfl, j, rfl⟩
    · simp only [classifyChar] at he
      split at he
      · rename_i x y hx hy
        split at he
        · rename_i hxy
          simp only [Option.some.injEq] at he; subst he
          have : x = y := by simpa using hxy
          subst this
          simp [Script.kind, Script.fi, toIxOf, Script.ti, CharEd.side, hx, hy]
        · simp only [Option.some.injEq] at he; subst he
          simp [Script.kind, Script.fi, toIxOf, Script.ti, CharEd.side, hx, hy]
      · cases he
    · simp only [classifyChar] at he
      obtain ⟨x, hx, rfl⟩ := Option.map_eq_some_iff.1 he
      simp [Script.kind, Script.fi, CharEd.side, hx]
    · simp only [classifyChar] at he
      obtain ⟨x, hx, rfl⟩ := Option.map_eq_some_iff.1 he
      simp [Script.kind, Script.fi, toIxOf, CharEd.side, hx]

theorem strOK_of_idx (r : Ix → Ix) (a b : Str) (subs : List Script) (hform : ∀ s ∈ subs, CharForm s)
    (hf : fromIdx subs = ixRange a.length) (ht : toIdx r subs = ixRange b.length) (hne : a ≠ b) :
    StrOK a b subs := by
  have hres : StrResolved a b subs := by
    intro s hs
    have hform := hform s hs
    cases s with
    | mk k fi ti c sb =>
      simp only [CharForm, Script.kind, Script.fi, Script.ti] at hform
      rcases hform with ⟨rfl, i, j, rfl, rfl⟩ | ⟨rfl, i, rfl⟩ | ⟨rfl, j, rfl⟩
      · have h1 : i < a.length := by
          have := fi_mem_fromIdx hs (by simp [Script.kind])
          rw [hf] at this; exact mem_ixRange.1 this
        have h2 : j < b.length := by
          have := toIx_mem_toIdx r hs (by simp [Script.kind])
          rw [ht] at this
          simp only [toIxOf, Script.kind, Script.ti] at this
          exact mem_ixRange.1 (by simpa using this)
        simp only [classifyChar, List.getElem?_eq_getElem h1, List.getElem?_eq_getElem h2]
        split <;> exact ⟨_, rfl⟩
      · have h1 : i < a.length := by
          have := fi_mem_fromIdx hs (by simp [Script.kind])
          rw [hf] at this; exact mem_ixRange.1 this
        exact ⟨.rem a[i], by simp [classifyChar, List.getElem?_eq_getElem h1]⟩
      · have h2 : j < b.length := by
          have := toIx_mem_toIdx r hs (by simp [Script.kind])
          rw [ht] at this
          simp only [toIxOf, Script.kind, Script.fi] at this
          exact mem_ixRange.1 (by simpa using this)
        exact ⟨.ins b[j], by simp [classifyChar, List.getElem?_eq_getElem h2]⟩
  refine ⟨hres, ?_, ?_, hne⟩
  · rw [sideChars, filterMap_from subs a, hf, pick_ixRange]
    intro s hs
    obtain ⟨e, he⟩ := hres s hs
    have := char_side r a b s e (hform s hs) he
    simp only [he, Option.bind_some]
    exact ⟨this.1, this.2.1⟩
  · rw [sideChars, filterMap_to r subs b, ht, pick_ixRange]
    intro s hs
    obtain ⟨e, he⟩ := hres s hs
    have := char_side r a b s e (hform s hs) he
    simp only [he, Option.bind_some]
    exact ⟨this.2.2.1, this.2.2.2⟩

theorem strSubs_charForm (a b : Str) : ∀ s ∈ (strSubs a b).1, CharForm s := by
  intro s hs
  simp only [strSubs, List.mem_append, List.mem_map] at hs
  rcases hs with (⟨k, _, rfl⟩ | ⟨⟨m, r, c⟩, _, rfl⟩) | ⟨k, _, rfl⟩
  · exact Or.inl ⟨rfl, _, _, rfl, rfl⟩
  · cases m
    · exact Or.inl ⟨rfl, _, _, rfl, rfl⟩
    · exact Or.inr (Or.inr ⟨rfl, _, rfl⟩)
    · exact Or.inr (Or.inl ⟨rfl, _, rfl⟩)
  · exact Or.inl ⟨rfl, _, _, rfl, rfl⟩

theorem strOK_strSubs (a b : Str) (hne : a ≠ b) : StrOK a b (strSubs a b).1 :=
  strOK_of_idx id a b _ (strSubs_charForm a b) (strSubs_idx id a b).1 (strSubs_idx id a b).2 hne

/-! ### leaves -/

/-! ### node equality of trees with distinct keys is equality up to the order of object members -/

theorem valKV_perm_of_sub : ∀ (as bs : List (Str × Tree)), (keys as).Nodup → as.length = bs.length →
    (∀ p ∈ as, ∃ q ∈ bs, p.1 = q.1 ∧ ValPerm (treeVal p.2) (treeVal q.2)) → ValPermP (valKV as) (valKV bs) := by
  intro as
  induction as with
  | nil =>
    intro bs _ hl _
    have : bs = [] := by cases bs <;> simp_all
    subst this; exact .nil
  | cons p rest ih =>
    intro bs hnd hl hsub
    obtain ⟨q, hq, hk, hv⟩ := hsub p (by simp)
    obtain ⟨s, t, rfl⟩ := List.append_of_mem hq
    simp only [keys, List.map_cons, List.nodup_cons, List.mem_map, not_exists, not_and] at hnd
    have ih' := ih (s ++ t) (by simpa [keys] using hnd.2) (by simp at hl ⊢; omega) (by
      intro p' hp'
      obtain ⟨q', hq', hk', hv'⟩ := hsub p' (by simp [hp'])
      refine ⟨q', ?_, hk', hv'⟩
      simp only [List.mem_append, List.mem_cons] at hq' ⊢
      rcases hq' with h | rfl | h
      · exact Or.inl h
      · exact absurd (hk'.trans hk.symm) (hnd.1 p' hp')
      · exact Or.inr h)
    have hpq : ValPerm (Val.pair p.1 (treeVal p.2)) (Val.pair q.1 (treeVal q.2)) := by
      rw [hk]; exact .pair hv
    have h1 : ValPermP (valKV (p :: rest)) (Val.pair q.1 (treeVal q.2) :: valKV (s ++ t)) := by
      obtain ⟨pk, pv⟩ := p
      simpa [valKV] using ValPermP.cons hpq ih'
    refine .permR h1 ?_
    simp only [valKV_eq, List.map_append, List.map_cons]
    exact List.perm_middle.symm

theorem eq_valPerm : ∀ a b : Tree, a.KeysDistinct → b.KeysDistinct → a.eq b = true →
    ValPerm (treeVal a) (treeVal b) := by
  intro a
  induction a using Tree.ind with
  | leaf s =>
    intro b _ _ h
    cases b with
    | leaf s' =>
      have : s = s' := (Scalar.eq_iff s s').1 (by simpa [Tree.eq] using h)
      subst this; exact .refl _
    | _ => simp [Tree.eq] at h
  | list as ih =>
    intro b ha hb h
    cases b with
    | list bs =>
      have ha' := (kd_list as).1 ha
      have hb' := (kd_list bs).1 hb
      have hl : eqL as bs = true := by simpa [Tree.eq] using h
      simp only [treeVal]
      apply ValPerm.list
      clear h ha hb
      induction as generalizing bs with
      | nil => cases bs with
        | nil => exact .nil
        | cons _ _ => simp [eqL] at hl
      | cons c cs ihc =>
        cases bs with
        | nil => simp [eqL] at hl
        | cons d ds =>
          simp only [eqL, Bool.and_eq_true] at hl
          simp only [valL]
          exact .cons (ih c (by simp) d (ha' c (by simp)) (hb' d (by simp)) hl.1)
            (ihc (fun x hx => ih x (by simp [hx])) ds (fun x hx => ha' x (by simp [hx]))
              (fun x hx => hb' x (by simp [hx])) hl.2)
    | _ => simp [Tree.eq] at h
  | dict as ih =>
    intro b ha hb h
    cases b with
    | dict bs =>
      rw [kd_dict] at ha hb
      simp only [Tree.eq, Bool.and_eq_true, beq_iff_eq] at h
      simp only [treeVal]
      apply ValPerm.map
      apply valKV_perm_of_sub as bs ha.1 h.1
      intro p hp
      obtain ⟨q, hq, hk, hv⟩ := (subKV_iff as bs).1 h.2 p hp
      exact ⟨q, hq, hk, ih p hp q.2 (ha.2 p hp) (hb.2 q hq) hv⟩
    | _ => simp [Tree.eq] at h
  | fdict as ih =>
    intro b ha hb h
    cases b with
    | fdict bs =>
      rw [kd_fdict] at ha hb
      simp only [Tree.eq, Bool.and_eq_true, beq_iff_eq] at h
      simp only [treeVal]
      apply ValPerm.map
      apply valKV_perm_of_sub as bs ha.1 h.1
      intro p hp
      obtain ⟨q, hq, hk, hv⟩ := (subKV_iff as bs).1 h.2 p hp
      exact ⟨q, hq, hk, ih p hp q.2 (ha.2 p hp) (hb.2 q hq) hv⟩
    | _ => simp [Tree.eq] at h

theorem valPerm_of_eq {a b : Tree} (ha : a.KeysDistinct) (hb : b.KeysDistinct) (h : a.eq b = true) :
    ValPerm (treeVal b) (treeVal a) := .symm (eq_valPerm a b ha hb h)

theorem wf_mkMatch0 (x y : Item) (h : ValPerm y.val x.val) : WF x y (mkMatch 0) := by
  simp only [mkMatch, WF]; exact Or.inr h

theorem wf_mkMatch_pos (x y : Item) (c : Nat) (h : c > 0) : WF x y (mkMatch c) := by
  simp only [mkMatch, WF]; exact Or.inl h

theorem wf_mkReplace (x y : Item) (a b : Nat) : WF x y (mkReplace a b) := by
  simp only [mkReplace, WF]; omega

theorem wf_strEdits (a b : Str) : WF (.tree (.leaf (.str a))) (.tree (.leaf (.str b))) (strEdits a b) := by
  unfold strEdits
  split
  · rename_i h
    have : a = b := by simpa using h
    subst this
    exact wf_mkMatch0 _ _ (.refl _)
  · split
    · exact wf_mkMatch_pos _ _ 1 (by decide)
    · rename_i h _
      simp only [WF]
      exact ⟨a, b, rfl, rfl, strOK_strSubs a b (by simpa using h)⟩

theorem wf_leafEdits (a : Scalar) (t : Tree) : WF (.tree (.leaf a)) (.tree t) (leafEdits a t) := by
  unfold leafEdits
  split
  · exact wf_mkMatch0 _ _ (.refl _)
  · exact wf_mkReplace _ _ _ _
  · exact wf_strEdits _ _
  · rename_i b _ _ _
    simp only [leafLeaf]
    by_cases hc : lev a.pyStr b.pyStr = 0
    · by_cases he : a.eq b = true
      · simp only [hc, beq_self_eq_true, he, Bool.not_true, Bool.and_false, Bool.false_eq_true, if_false]
        exact wf_mkMatch0 _ _ (valPerm_of_eq (a := .leaf a) (b := .leaf b) rfl rfl (by simpa [Tree.eq] using he))
      · have he' : a.eq b = false := by simpa using he
        simp only [hc, beq_self_eq_true, he', Bool.not_false, Bool.and_true, if_true]
        exact wf_mkMatch_pos _ _ 1 (by decide)
    · have : (lev a.pyStr b.pyStr == 0) = false := by simpa using hc
      simp only [this, Bool.false_and, Bool.false_eq_true, if_false]
      exact wf_mkMatch_pos _ _ _ (by omega)
  · exact wf_mkReplace _ _ _ _

/-! ### the cover condition from C01's index accounting -/

theorem pick_perm {α : Type} (l : List α) {ixs : List Ix} (h : ixs.Perm (ixRange l.length)) : (pick l ixs).Perm l := by
  have h1 : (pick l ixs).Perm (pick l (ixRange l.length)) := by unfold pick; exact h.filterMap _
  rw [pick_ixRange] at h1
  exact h1

theorem cover_of (x y : Item) (o c : Nat) (hbx : x.brackets = some (o, c)) (hby : y.brackets = some (o, c))
    (subs : List Script) (r : Ix → Ix)
    (hres : ∀ s ∈ subs, ∃ a b, resolve x.children y.children s = some (a, b))
    (hsame : ∀ s ∈ subs, s.ti = .same → ∀ i a, s.fi = .at i → x.children[i]? = some a →
      ∃ j b', r (.at i) = .at j ∧ y.children[j]? = some b' ∧ ValPerm a.val b'.val)
    (hidx : if o = 91 then
        fromIdx subs = ixRange x.children.length ∧ toIdx r subs = ixRange y.children.length
      else (fromIdx subs).Perm (ixRange x.children.length) ∧ (toIdx r subs).Perm (ixRange y.children.length)) :
    Cover x y subs := by
  have hfrom : sideItems true x.children y.children subs = pick x.children (fromIdx subs) := by
    apply filterMap_from
    intro s hs
    obtain ⟨a, b, hab⟩ := hres s hs
    have hsp := resolve_spec _ _ _ _ _ hab
    constructor
    · intro hk; simp [absent, hk]
    · intro hk
      have habs : absent true s.kind = false := by simpa [absent] using hk
      simp only [habs, Bool.false_eq_true, if_false, hab, Option.map_some, sideItem, if_true]
      by_cases hr : s.kind = .remove
      · obtain ⟨i, hi, ha, _⟩ := hsp.1 hr
        exact ⟨i, hi, ha.symm⟩
      · obtain ⟨i, hi, ha, _⟩ := hsp.2.2 hr hk
        exact ⟨i, hi, ha.symm⟩
  have hto : ValPermL ((sideItems false x.children y.children subs).map Item.val)
      ((pick y.children (toIdx r subs)).map Item.val) := by
    apply filterMap_to_sim
    intro s hs
    obtain ⟨a, b, hab⟩ := hres s hs
    have hsp := resolve_spec _ _ _ _ _ hab
    constructor
    · intro hk; simp [absent, hk]
    · intro hk
      have habs : absent false s.kind = false := by simpa [absent] using hk
      simp only [habs, Bool.false_eq_true, if_false, hab, Option.map_some, sideItem]
      by_cases hi : s.kind = .insert
      · obtain ⟨j, hj, ha, hba⟩ := hsp.2.1 hi
        exact ⟨b, j, a, rfl, by simp [toIxOf, hi, hj], ha, by rw [hba]; exact .refl _⟩
      · obtain ⟨i, hfi, ha, h3⟩ := hsp.2.2 hk hi
        have hki : (s.kind == Kind.insert) = false := by simpa using hi
        rcases h3 with ⟨j, hj, hb⟩ | ⟨hsm, hba⟩
        · exact ⟨b, j, b, rfl, by simp [toIxOf, hki, hj], hb, .refl _⟩
        · obtain ⟨j, b', hr, hb', hsim⟩ := hsame s hs hsm i a hfi ha
          exact ⟨b, j, b', rfl, by simp [toIxOf, hki, hsm, hfi, hr], hb', by rw [hba]; exact hsim⟩
  refine ⟨o, c, hbx, hby, ?_⟩
  by_cases ho : o = 91
  · simp only [ho, if_true] at hidx ⊢
    rw [hfrom, hidx.1, pick_ixRange]
    rw [hidx.2, pick_ixRange] at hto
    exact ⟨ValPermL.refl' _, hto⟩
  · simp only [ho, if_false] at hidx ⊢
    rw [hfrom]
    exact ⟨.permR (ValPermP.ofL (ValPermL.refl' _)) ((pick_perm _ hidx.1).map Item.val),
      .permR (ValPermP.ofL hto) ((pick_perm _ hidx.2).map Item.val)⟩

/-! ### key/value pairs -/

theorem strEdits_str (a b : Str) (h : (strEdits a b).kind = .str) :
    (strEdits a b).subs = (strSubs a b).1 ∧ a ≠ b := by
  unfold strEdits at h ⊢
  split at h
  · simp at h
  · split at h
    · simp at h
    · rename_i h1 h2
      simp only [h1, h2, Bool.false_eq_true, if_false]
      exact ⟨rfl, by simpa using h1⟩

theorem gate_edits (o : Opts) (orc : Oracle) (fp tp : List Nat) (v v' : Tree) (hv : v.KeysDistinct)
    (hv' : v'.KeysDistinct) : Gate (.tree v) (.tree v') (edits o orc fp tp v v') := by
  have htop := Kind.isTop_ne (edits_kind_top o orc fp tp v v')
  refine ⟨htop.2.1, htop.1, ?_⟩
  intro hc
  have := (C02.zero_cost_iff_eq o orc fp tp v v' (wf_of_kd hv) (wf_of_kd hv')).1 hc
  exact Or.inr (eq_valPerm v v' hv hv' this)

theorem wf_kvpScript (o : Opts) (orc : Oracle) (fp tp : List Nat) (k k' : Str) (v v' : Tree)
    (hv : v.KeysDistinct) (hv' : v'.KeysDistinct) (ih : WF (.tree v) (.tree v') (edits o orc fp tp v v')) :
    WF (.kv k v) (.kv k' v') (kvpScript k k' (v.eq v') (edits o orc fp tp v v')) := by
  simp only [kvpScript, mkCompound, WF]
  refine ⟨⟨?_, ?_, ?_⟩, ?_, ?_⟩
  · simp only [Script.relabel_kind]
    split
    · exact Or.inl rfl
    · exact strEdits_kind k k'
  · simp only [Script.relabel_cost]
    split
    · rename_i h; intro _; simpa using h
    · intro hc; exact (strEdits_cost_zero_iff k k').1 hc
  · simp only [Script.relabel_kind, Script.relabel_subs]
    split
    · intro h; simp at h
    · intro h
      obtain ⟨h1, h2⟩ := strEdits_str k k' h
      rw [h1]; exact strOK_strSubs k k' h2
  · rw [wf_relabel]
    split
    · rename_i h; exact wf_mkMatch0 _ _ (valPerm_of_eq hv hv' h)
    · exact ih
  · rw [gate_relabel]
    split
    · rename_i h
      exact ⟨by simp, by simp, fun _ => Or.inr (eq_valPerm v v' hv hv' h)⟩
    · exact gate_edits o orc fp tp v v' hv hv'

/-! ### assembling a sequence node -/

/-- the sub-edit resolves to children of the two containers and is a well-formed edit of them -/
def SubOK (fcs tcs : List Item) (s : Script) : Prop := ∃ a b, resolve fcs tcs s = some (a, b) ∧ WF a b s

theorem wf_of_seq (x y : Item) (s : Script) (hk : isSeqKind s.kind = true)
    (h : Cover x y s.subs ∧ WFSubs x.children y.children s.subs) : WF x y s := by
  cases s with
  | mk k fi ti c subs =>
    cases k <;> simp [isSeqKind, Script.kind] at hk <;> simpa [WF, Script.subs] using h

theorem wf_seq_assemble (x y : Item) (o c : Nat) (hbx : x.brackets = some (o, c)) (hby : y.brackets = some (o, c))
    (s : Script) (hk : isSeqKind s.kind = true) (r : Ix → Ix)
    (hall : ∀ s' ∈ s.subs, SubOK x.children y.children s')
    (hsame : ∀ s' ∈ s.subs, s'.ti = .same → ∀ i a, s'.fi = .at i → x.children[i]? = some a →
      ∃ j b', r (.at i) = .at j ∧ y.children[j]? = some b' ∧ ValPerm a.val b'.val)
    (hidx : if o = 91 then
        fromIdx s.subs = ixRange x.children.length ∧ toIdx r s.subs = ixRange y.children.length
      else (fromIdx s.subs).Perm (ixRange x.children.length) ∧ (toIdx r s.subs).Perm (ixRange y.children.length)) :
    WF x y s :=
  wf_of_seq x y s hk
    ⟨cover_of x y o c hbx hby s.subs r (fun s' hs' => let ⟨a, b, h, _⟩ := hall s' hs'; ⟨a, b, h⟩) hsame hidx,
     (wfSubs_iff _ _ _).2 hall⟩

theorem subOK_remove (fcs tcs : List Item) (i sz p : Nat) (hi : i < fcs.length) : SubOK fcs tcs (mkRemove i sz p) :=
  ⟨fcs[i], fcs[i], resolve_remove _ _ _ i _ rfl rfl (List.getElem?_eq_getElem hi), by simp [mkRemove, WF]⟩

theorem subOK_insert (fcs tcs : List Item) (j sz p : Nat) (hj : j < tcs.length) : SubOK fcs tcs (mkInsert j sz p) :=
  ⟨tcs[j], tcs[j], resolve_insert_at _ _ _ j _ rfl rfl (List.getElem?_eq_getElem hj), by simp [mkInsert, WF]⟩

theorem subOK_match0 (fcs tcs : List Item) (i j : Nat) (hi : i < fcs.length) (hj : j < tcs.length)
    (h : ValPerm tcs[j].val fcs[i].val) : SubOK fcs tcs ((mkMatch 0).relabel (.at i) (.at j)) :=
  ⟨fcs[i], tcs[j], resolve_pair _ _ _ i j _ _ (by simp) (by simp) rfl rfl (List.getElem?_eq_getElem hi)
    (List.getElem?_eq_getElem hj), by rw [wf_relabel]; exact wf_mkMatch0 _ _ h⟩

theorem subOK_top (fcs tcs : List Item) (s : Script) (i j : Nat) (hi : i < fcs.length) (hj : j < tcs.length)
    (hr : s.kind ≠ .remove) (hins : s.kind ≠ .insert) (h : WF fcs[i] tcs[j] s) :
    SubOK fcs tcs (s.relabel (.at i) (.at j)) :=
  ⟨fcs[i], tcs[j], resolve_pair _ _ _ i j _ _ (by simpa using hr) (by simpa using hins) rfl rfl
    (List.getElem?_eq_getElem hi) (List.getElem?_eq_getElem hj), by rw [wf_relabel]; exact h⟩

/-! ### lists -/

theorem beq_tree (a b : Tree) : (a == b) = a.eq b := rfl

theorem wf_list (o : Opts) (orc : Oracle) (fp tp : List Nat) (fcs tcs : List Tree)
    (hf : ∀ c ∈ fcs, c.KeysDistinct) (ht : ∀ c ∈ tcs, c.KeysDistinct)
    (ih : ∀ c ∈ fcs, ∀ (fp tp : List Nat) (t : Tree), c.KeysDistinct → t.KeysDistinct →
      WF (.tree c) (.tree t) (edits o orc fp tp c t)) :
    WF (.tree (.list fcs)) (.tree (.list tcs)) (edits o orc fp tp (.list fcs) (.list tcs)) := by
  have hT := listTbl_top o orc fp tp fcs tcs
  have hcell : ∀ i j (hi : i < fcs.length) (hj : j < tcs.length),
      SubOK (Item.tree (.list fcs)).children (Item.tree (.list tcs)).children
        ((((listTbl o orc fp tp fcs tcs).getD i []).getD j (mkMatch 0)).relabel (.at i) (.at j)) := by
    intro i j hi hj
    have htop := Kind.isTop_ne (hT i j)
    have := subOK_top (Item.tree (.list fcs)).children (Item.tree (.list tcs)).children
      (((listTbl o orc fp tp fcs tcs).getD i []).getD j (mkMatch 0)) i j
      (by simpa [Item.children] using hi) (by simpa [Item.children] using hj) htop.2.1 htop.1
    apply this
    simp only [Item.children, List.getElem_map]
    rw [listTbl_getD _ _ _ _ _ _ _ _ _ hi hj]
    exact ih _ (List.getElem_mem hi) _ _ _ (hf _ (List.getElem_mem hi)) (ht _ (List.getElem_mem hj))
  rw [edits_list_list]
  split
  · rename_i h
    exact wf_mkMatch0 _ _ (valPerm_of_eq (a := .list fcs) (b := .list tcs) ((kd_list fcs).2 hf) ((kd_list tcs).2 ht)
      (by simpa [Tree.eq] using h))
  · split
    · -- FixedLengthSequenceEdit
      have hall : ∀ s' ∈ (fixedScript fcs tcs (listTbl o orc fp tp fcs tcs)).subs,
          SubOK (Item.tree (.list fcs)).children (Item.tree (.list tcs)).children s' ∧ s'.ti ≠ .same := by
        intro s' hs
        simp only [fixedScript, mkCompound_subs, List.mem_append, List.mem_map, List.mem_range] at hs
        have h1 : fcs.length.min tcs.length ≤ fcs.length := Nat.min_le_left _ _
        have h2 : fcs.length.min tcs.length ≤ tcs.length := Nat.min_le_right _ _
        rcases hs with (⟨k, hk, rfl⟩ | ⟨k, hk, rfl⟩) | ⟨k, hk, rfl⟩
        · exact ⟨hcell k k (by omega) (by omega), by simp⟩
        · exact ⟨subOK_remove _ _ _ _ _ (by simp [Item.children]; omega), by simp⟩
        · exact ⟨subOK_insert _ _ _ _ _ (by simp [Item.children]; omega), by simp⟩
      apply wf_seq_assemble _ _ 91 93 rfl rfl _ rfl id (fun s' hs' => (hall s' hs').1)
        (fun s' hs' h => absurd h (hall s' hs').2)
      simp only [if_true, Item.children, List.length_map]
      exact fixedScript_idx id fcs tcs _ hT
    · -- EditDistance
      rename_i hne _
      have hall : ∀ pen, ∀ s' ∈ (edScript fcs tcs pen (listTbl o orc fp tp fcs tcs)).subs,
          SubOK (Item.tree (.list fcs)).children (Item.tree (.list tcs)).children s' ∧ s'.ti ≠ .same := by
        intro pen s' hs
        have hl := trimLens_le fcs tcs
        have hl1 := trim_le_left fcs tcs
        have hl2 := trim_le_right fcs tcs
        simp only [edScript, Script.subs_mk, List.mem_append, List.mem_map, List.mem_range] at hs
        rcases hs with (⟨k, hk, rfl⟩ | ⟨⟨m, r, c⟩, hm, rfl⟩) | ⟨k, hk, rfl⟩
        · have hkf : k < fcs.length := by omega
          have hkt : k < tcs.length := by omega
          refine ⟨subOK_match0 _ _ k k (by simpa [Item.children] using hkf) (by simpa [Item.children] using hkt) ?_,
            by simp⟩
          have := trim_prefix (Tree.leaf .null) fcs tcs k hk
          rw [beq_tree, getD_eq_getElem' _ _ hkf, getD_eq_getElem' _ _ hkt] at this
          simpa [Item.children, Item.val] using
            valPerm_of_eq (hf _ (List.getElem_mem hkf)) (ht _ (List.getElem_mem hkt)) this
        · have hr := solve_located_inRange _ _ _ _ hm
          simp only [List.length_map, middle_length] at hr
          cases m
          · have h1 := hr.1 (by simp)
            have h2 := hr.2 (by simp)
            dsimp only at h1 h2 ⊢
            exact ⟨hcell _ _ (by omega) (by omega), by simp⟩
          · have h1 := hr.1 (by simp)
            dsimp only at h1 ⊢
            exact ⟨subOK_insert _ _ _ _ _ (by simp [Item.children]; omega), by simp⟩
          · have h2 := hr.2 (by simp)
            dsimp only at h2 ⊢
            exact ⟨subOK_remove _ _ _ _ _ (by simp [Item.children]; omega), by simp⟩
        · have hkf : fcs.length - (trimLens fcs tcs).2 + k < fcs.length := by omega
          have hkt : tcs.length - (trimLens fcs tcs).2 + k < tcs.length := by omega
          refine ⟨subOK_match0 _ _ _ _ (by simpa [Item.children] using hkf) (by simpa [Item.children] using hkt) ?_,
            by simp⟩
          have := trim_suffix (Tree.leaf .null) fcs tcs ((trimLens fcs tcs).2 - 1 - k) (by omega)
          have e1 : fcs.length - 1 - ((trimLens fcs tcs).2 - 1 - k) = fcs.length - (trimLens fcs tcs).2 + k := by omega
          have e2 : tcs.length - 1 - ((trimLens fcs tcs).2 - 1 - k) = tcs.length - (trimLens fcs tcs).2 + k := by omega
          rw [beq_tree, e1, e2, getD_eq_getElem' _ _ hkf, getD_eq_getElem' _ _ hkt] at this
          simpa [Item.children, Item.val] using
            valPerm_of_eq (hf _ (List.getElem_mem hkf)) (ht _ (List.getElem_mem hkt)) this
      apply wf_seq_assemble _ _ 91 93 rfl rfl _ rfl id (fun s' hs' => (hall _ s' hs').1)
        (fun s' hs' h => absurd h (hall _ s' hs').2)
      simp only [if_true, Item.children, List.length_map]
      exact edScript_idx id fcs tcs _ _ hT

/-! ### mappings -/

def kvItems (kvs : List (Str × Tree)) : List Item := kvs.map fun kv => Item.kv kv.1 kv.2

theorem kvItems_get (kvs : List (Str × Tree)) (i : Nat) (hi : i < (kvItems kvs).length) :
    (kvItems kvs)[i] = Item.kv (kvs[i]'(by simpa [kvItems] using hi)).1 (kvs[i]'(by simpa [kvItems] using hi)).2 := by
  simp [kvItems]

theorem valPerm_kv_of_kvEq {f t : Str × Tree} (hf : f.2.KeysDistinct) (ht : t.2.KeysDistinct)
    (h : kvEq f t = true) : ValPerm (Item.kv f.1 f.2).val (Item.kv t.1 t.2).val := by
  simp only [kvEq, Bool.and_eq_true, beq_iff_eq] at h
  obtain ⟨hk, hv⟩ := h
  simp only [Item.val]
  rw [hk]
  exact .pair (eq_valPerm _ _ hf ht hv)

/-- a key/value pair edit between the i-th pair of the first and the j-th pair of the second mapping -/
theorem subOK_msKvE (o : Opts) (orc : Oracle) (fp tp : List Nat) (fkv tkv : List (Str × Tree)) (i j : Nat)
    (hi : i < fkv.length) (hj : j < tkv.length) (hv : fkv[i].2.KeysDistinct) (hv' : tkv[j].2.KeysDistinct)
    (ih : WF (.tree fkv[i].2) (.tree tkv[j].2) (edits o orc (fp ++ [i, 1]) (tp ++ [j, 1]) fkv[i].2 tkv[j].2)) :
    SubOK (kvItems fkv) (kvItems tkv) (msKvE fkv tkv (kvTbl o orc fp tp fkv tkv) i j) := by
  have hi' : i < (kvItems fkv).length := by simpa [kvItems] using hi
  have hj' : j < (kvItems tkv).length := by simpa [kvItems] using hj
  have := subOK_top (kvItems fkv) (kvItems tkv)
    (kvpScript (fkv.getD i dkv).1 (tkv.getD j dkv).1 ((fkv.getD i dkv).2.eq (tkv.getD j dkv).2)
      (((kvTbl o orc fp tp fkv tkv).getD i []).getD j (mkMatch 0))) i j hi' hj'
    (by simp [kvpScript]) (by simp [kvpScript])
  apply this
  rw [kvItems_get, kvItems_get, kvTbl_getD _ _ _ _ _ _ _ _ _ hi hj, getD_eq_getElem' _ _ hi, getD_eq_getElem' _ _ hj]
  exact wf_kvpScript o orc _ _ _ _ _ _ hv hv' ih

theorem subOK_kvMatch0 (fkv tkv : List (Str × Tree)) (i j : Nat) (hi : i < fkv.length) (hj : j < tkv.length)
    (hv : fkv[i].2.KeysDistinct) (hv' : tkv[j].2.KeysDistinct) (h : kvEq fkv[i] tkv[j] = true) :
    SubOK (kvItems fkv) (kvItems tkv) ((mkMatch 0).relabel (.at i) (.at j)) := by
  have hi' : i < (kvItems fkv).length := by simpa [kvItems] using hi
  have hj' : j < (kvItems tkv).length := by simpa [kvItems] using hj
  apply subOK_match0 _ _ i j hi' hj'
  rw [kvItems_get, kvItems_get]
  exact .symm (valPerm_kv_of_kvEq hv hv' h)

theorem wf_fdict (o : Opts) (orc : Oracle) (fp tp : List Nat) (fkv tkv : List (Str × Tree))
    (hf : (Tree.fdict fkv).KeysDistinct) (ht : (Tree.fdict tkv).KeysDistinct)
    (ih : ∀ kv ∈ fkv, ∀ (fp tp : List Nat) (t : Tree), kv.2.KeysDistinct → t.KeysDistinct →
      WF (.tree kv.2) (.tree t) (edits o orc fp tp kv.2 t)) :
    WF (.tree (.fdict fkv)) (.tree (.fdict tkv)) (edits o orc fp tp (.fdict fkv) (.fdict tkv)) := by
  have hf0 := hf
  have ht0 := ht
  rw [kd_fdict] at hf ht
  rw [edits_fdict_fdict]
  split
  · rename_i h
    exact wf_mkMatch0 _ _ (valPerm_of_eq (a := .fdict fkv) (b := .fdict tkv) hf0 ht0 (by simpa [Tree.eq] using h))
  · have hcell : ∀ i j (hi : i < fkv.length) (hj : j < tkv.length), _ := fun i j hi hj =>
      subOK_msKvE o orc fp tp fkv tkv i j hi hj (hf.2 _ (List.getElem_mem hi)) (ht.2 _ (List.getElem_mem hj))
        (ih _ (List.getElem_mem hi) _ _ _ (hf.2 _ (List.getElem_mem hi)) (ht.2 _ (List.getElem_mem hj)))
    have hall : ∀ s' ∈ (fkScript fkv tkv (kvTbl o orc fp tp fkv tkv)).subs,
        SubOK (kvItems fkv) (kvItems tkv) s' ∧ s'.ti ≠ .same := by
      intro s' hs
      rw [fkScript_subs] at hs
      simp only [List.mem_append, List.mem_map, List.mem_filter, List.mem_range] at hs
      rcases hs with (⟨i, ⟨hi, hsome⟩, rfl⟩ | ⟨i, ⟨hi, _⟩, rfl⟩) | ⟨j, ⟨hj, _⟩, rfl⟩
      · obtain ⟨j, hj⟩ := Option.isSome_iff_exists.1 hsome
        have hjl := findKey_lt hj
        simp only [hj, Option.getD_some]
        split
        · rename_i hkv
          rw [getD_eq_getElem' _ _ hi, getD_eq_getElem' _ _ hjl] at hkv
          exact ⟨subOK_kvMatch0 fkv tkv i j hi hjl (hf.2 _ (List.getElem_mem hi)) (ht.2 _ (List.getElem_mem hjl)) hkv,
            by simp⟩
        · exact ⟨hcell i j hi hjl, by simp⟩
      · exact ⟨subOK_remove _ _ _ _ _ (by simpa [kvItems] using hi), by simp⟩
      · exact ⟨subOK_insert _ _ _ _ _ (by simpa [kvItems] using hj), by simp⟩
    apply wf_seq_assemble (.tree (.fdict fkv)) (.tree (.fdict tkv)) 123 125 rfl rfl _ rfl id
      (fun s' hs' => (hall s' hs').1) (fun s' hs' h => absurd h (hall s' hs').2)
    simp only [show (123 : Nat) ≠ 91 by decide, if_false, Item.children, List.length_map]
    exact ⟨fkScript_fromIdx fkv tkv _, fkScript_toIdx id fkv tkv _ hf.1 ht.1⟩

theorem wf_dict (o : Opts) (orc : Oracle) (fp tp : List Nat) (fkv tkv : List (Str × Tree))
    (hf : (Tree.dict fkv).KeysDistinct) (ht : (Tree.dict tkv).KeysDistinct)
    (ih : ∀ kv ∈ fkv, ∀ (fp tp : List Nat) (t : Tree), kv.2.KeysDistinct → t.KeysDistinct →
      WF (.tree kv.2) (.tree t) (edits o orc fp tp kv.2 t)) :
    WF (.tree (.dict fkv)) (.tree (.dict tkv)) (edits o orc fp tp (.dict fkv) (.dict tkv)) := by
  have hf0 := hf
  have ht0 := ht
  rw [kd_dict] at hf ht
  rw [edits_dict_dict]
  split
  · rename_i h
    exact wf_mkMatch0 _ _ (valPerm_of_eq (a := .dict fkv) (b := .dict tkv) hf0 ht0 (by simpa [Tree.eq] using h))
  · have hcell : ∀ i j (hi : i < fkv.length) (hj : j < tkv.length), _ := fun i j hi hj =>
      subOK_msKvE o orc fp tp fkv tkv i j hi hj (hf.2 _ (List.getElem_mem hi)) (ht.2 _ (List.getElem_mem hj))
        (ih _ (List.getElem_mem hi) _ _ _ (hf.2 _ (List.getElem_mem hi)) (ht.2 _ (List.getElem_mem hj)))
    have hmatch : ∀ i ∈ msToMatch o.amk fkv tkv, ∃ (hi : i < fkv.length) (j : Nat) (hj : j < tkv.length),
        keyResolve fkv tkv (.at i) = .at j ∧ kvEq fkv[i] tkv[j] = true := by
      intro i hi
      simp only [msToMatch, List.mem_filter] at hi
      obtain ⟨hfl, heq⟩ := hi
      have hil := (fLeft_mem hfl).1
      obtain ⟨j, hjt, hkv⟩ := (hasEqIn_iff _ _ _).1 heq
      have hjl := tLeft_mem hjt
      rw [getD_eq_getElem' _ _ hil, getD_eq_getElem' _ _ hjl] at hkv
      refine ⟨hil, j, hjl, ?_, hkv⟩
      have hkey := kvEq_key hkv
      have hfind : findKey fkv[i].1 tkv 0 = some j := (findKey_iff ht.1).2 ⟨hjl, hkey.symm⟩
      simp [keyResolve, List.getElem?_eq_getElem hil, hfind]
    have hall : ∀ s' ∈ (msScript o.amk orc fp tp fkv tkv (kvTbl o orc fp tp fkv tkv)).subs,
        SubOK (kvItems fkv) (kvItems tkv) s' ∧
        (s'.ti = .same → ∃ i ∈ msToMatch o.amk fkv tkv, s'.fi = .at i) := by
      intro s' hs
      rw [msScript_subs] at hs
      simp only [List.mem_append, List.mem_map] at hs
      rcases hs with (((⟨i, hi, rfl⟩ | ⟨p, hp, rfl⟩) | ⟨p, hp, rfl⟩) | ⟨a, ha, rfl⟩) | ⟨b, hb, rfl⟩
      · obtain ⟨hil, _⟩ := hmatch i hi
        have hi' : i < (kvItems fkv).length := by simpa [kvItems] using hil
        refine ⟨⟨_, _, resolve_same _ _ _ i _ (by simp) (by simp) rfl rfl (List.getElem?_eq_getElem hi'), ?_⟩,
          fun _ => ⟨i, hi, rfl⟩⟩
        rw [wf_relabel]; exact wf_mkMatch0 _ _ (.refl _)
      · have := msAuto_mem hp
        exact ⟨hcell _ _ this.2.1 (findKey_lt this.2.2), by simp [msKvE]⟩
      · have hP := sorted_lookup_pinj orc ((msToRemove o.amk fkv tkv).map fun i => fp ++ [i])
          ((msToInsert o.amk fkv tkv).map fun j => tp ++ [j])
        simp only [List.length_map] at hP
        have := hP.2.2 p hp
        exact ⟨hcell _ _ (toRemove_lt this.1) (toInsert_lt this.2), by simp [msKvE]⟩
      · simp only [List.mem_filter, List.mem_range] at ha
        exact ⟨subOK_remove _ _ _ _ _ (by simpa [kvItems] using toRemove_lt ha.1), by simp⟩
      · simp only [List.mem_filter, List.mem_range] at hb
        exact ⟨subOK_insert _ _ _ _ _ (by simpa [kvItems] using toInsert_lt hb.1), by simp⟩
    apply wf_seq_assemble (.tree (.dict fkv)) (.tree (.dict tkv)) 123 125 rfl rfl _ rfl (keyResolve fkv tkv)
      (fun s' hs' => (hall s' hs').1)
    · intro s' hs' hsame i a hfi ha
      obtain ⟨i', hi', hfi'⟩ := (hall s' hs').2 hsame
      rw [hfi] at hfi'
      cases hfi'
      obtain ⟨hil, j, hjl, hres, hkv⟩ := hmatch i hi'
      have hi'' : i < (kvItems fkv).length := by simpa [kvItems] using hil
      have hj'' : j < (kvItems tkv).length := by simpa [kvItems] using hjl
      refine ⟨j, (kvItems tkv)[j], hres, List.getElem?_eq_getElem hj'', ?_⟩
      have ha' : a = (kvItems fkv)[i] := by
        have : (Item.tree (.dict fkv)).children[i]? = some (kvItems fkv)[i] := List.getElem?_eq_getElem hi''
        rw [this] at ha; exact (Option.some.inj ha).symm
      rw [ha', kvItems_get, kvItems_get]
      exact valPerm_kv_of_kvEq (hf.2 _ (List.getElem_mem hil)) (ht.2 _ (List.getElem_mem hjl)) hkv
    · simp only [show (123 : Nat) ≠ 91 by decide, if_false, Item.children, List.length_map]
      have hs : KvSymm fkv tkv :=
        kvSymm_of_eqSymm _ _ (fun x hx y hy => Tree.eq_symm _ _ (hf.2 x hx) (ht.2 y hy))
      exact ⟨msScript_fromIdx o.amk orc fp tp fkv tkv _, msScript_toIdx o.amk orc fp tp fkv tkv _ hf.1 ht.1 hs⟩

/-! ### every script the engine computes is well formed -/

theorem wf_edits (o : Opts) (orc : Oracle) : ∀ (f : Tree) (fp tp : List Nat) (t : Tree),
    f.KeysDistinct → t.KeysDistinct → WF (.tree f) (.tree t) (edits o orc fp tp f t) := by
  intro f
  induction f using Tree.ind with
  | leaf a => intro fp tp t _ _; rw [edits_leaf]; exact wf_leafEdits a t
  | list fcs ih =>
    intro fp tp t hf ht
    by_cases htl : ∃ tcs, t = .list tcs
    · obtain ⟨tcs, rfl⟩ := htl
      exact wf_list o orc fp tp fcs tcs ((kd_list fcs).1 hf) ((kd_list tcs).1 ht) ih
    · rw [edits_list_other _ _ _ _ _ _ (fun tcs h => htl ⟨tcs, h⟩)]; exact wf_mkReplace _ _ _ _
  | dict fkv ih =>
    intro fp tp t hf ht
    by_cases htl : ∃ tkv, t = .dict tkv
    · obtain ⟨tkv, rfl⟩ := htl
      exact wf_dict o orc fp tp fkv tkv hf ht ih
    · rw [edits_dict_other _ _ _ _ _ _ (fun tkv h => htl ⟨tkv, h⟩)]; exact wf_mkReplace _ _ _ _
  | fdict fkv ih =>
    intro fp tp t hf ht
    by_cases htl : ∃ tkv, t = .fdict tkv
    · obtain ⟨tkv, rfl⟩ := htl
      exact wf_fdict o orc fp tp fkv tkv hf ht ih
    · rw [edits_fdict_other _ _ _ _ _ _ (fun tkv h => htl ⟨tkv, h⟩)]; exact wf_mkReplace _ _ _ _

/-- the hypothesis of the C06 projection theorems, for every pair of trees with distinct keys -/
theorem script_wellformed (o : Opts) (orc : Oracle) (fp tp : List Nat) (f t : Tree)
    (hf : f.KeysDistinct) (ht : t.KeysDistinct) :
    WF (.tree f) (.tree t) (edits o orc fp tp f t) ∧ Gate (.tree f) (.tree t) (edits o orc fp tp f t) :=
  ⟨wf_edits o orc f fp tp t hf ht, gate_edits o orc fp tp f t hf ht⟩

end GtModel.Render

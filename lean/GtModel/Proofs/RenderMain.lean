/-
  Well-formed scripts (`WF`) and the projection theorem for them: whatever well-formed script is rendered, deleting
  the inserted text leaves a complete JSON value whose tokens (commas ignored) are those of a value `ValPerm`-equal
  to the first node, deleting the removed text one `ValPerm`-equal to the second node.
-/
import GtModel.Proofs.RenderSeq

namespace GtModel.Render
open GtModel

def isCompound : Kind → Bool
  | .kvp | .ed | .fixed | .ms | .fk => true
  | _ => false

/-- a string edit names existing characters and keeps exactly the characters of either string, in order; the two
    strings differ (`StringNode.edits` returns a Match for equal strings) -/
def StrOK (a b : Str) (subs : List Script) : Prop :=
  StrResolved a b subs ∧ sideChars true a b subs = a ∧ sideChars false a b subs = b ∧ a ≠ b

/-- the key edit of a KeyValuePairEdit: `Match(k, k', 0)` for equal keys, otherwise `StringNode.edits` -/
def KeyOK (fk tk : Str) (ke : Script) : Prop :=
  (ke.kind = .match_ ∨ ke.kind = .str) ∧ (ke.cost = 0 → fk = tk) ∧ (ke.kind = .str → StrOK fk tk ke.subs)

/-- an edit printed behind the `has_non_zero_cost()` gate: with cost 0 the node's own formatter prints the FROM node
    (compound edits still show their sub-edits), so it must be equal to the to node -/
def Gate (x y : Item) (s : Script) : Prop :=
  s.kind ≠ .remove ∧ s.kind ≠ .insert ∧ (s.cost = 0 → isCompound s.kind = true ∨ ValPerm x.val y.val)

/-- the sub-edits of a sequence edit keep every child of either container (element-wise in order for lists,
    up to a permutation for mappings) -/
def Cover (x y : Item) (subs : List Script) : Prop :=
  ∃ o c, x.brackets = some (o, c) ∧ y.brackets = some (o, c) ∧
    (if o = 91 then
      ValPermL ((sideItems true x.children y.children subs).map Item.val) (x.children.map Item.val) ∧
      ValPermL ((sideItems false x.children y.children subs).map Item.val) (y.children.map Item.val)
    else
      ValPermP ((sideItems true x.children y.children subs).map Item.val) (x.children.map Item.val) ∧
      ValPermP ((sideItems false x.children y.children subs).map Item.val) (y.children.map Item.val))

mutual
/-- the script `s` is a well-formed edit of the node `x` into the node `y` -/
def WF : Item → Item → Script → Prop
  | x, y, .mk .match_ _ _ c _ => c > 0 ∨ ValPerm y.val x.val
  | _, _, .mk .replace _ _ c _ => c > 0
  | _, _, .mk .remove _ _ _ _ => True
  | x, y, .mk .insert _ _ _ _ => x = y
  | x, y, .mk .str _ _ _ subs =>
      ∃ a b, x = .tree (.leaf (.str a)) ∧ y = .tree (.leaf (.str b)) ∧ StrOK a b subs
  | x, y, .mk .kvp _ _ _ subs =>
      match x, y, subs with
      | .kv fk fv, .kv tk tv, [ke, ve] => KeyOK fk tk ke ∧ WF (.tree fv) (.tree tv) ve ∧ Gate (.tree fv) (.tree tv) ve
      | _, _, _ => False
  | x, y, .mk .ed _ _ _ subs => Cover x y subs ∧ WFSubs x.children y.children subs
  | x, y, .mk .fixed _ _ _ subs => Cover x y subs ∧ WFSubs x.children y.children subs
  | x, y, .mk .ms _ _ _ subs => Cover x y subs ∧ WFSubs x.children y.children subs
  | x, y, .mk .fk _ _ _ subs => Cover x y subs ∧ WFSubs x.children y.children subs
def WFSubs (fcs tcs : List Item) : List Script → Prop
  | [] => True
  | s :: rest => (∃ x y, resolve fcs tcs s = some (x, y) ∧ WF x y s) ∧ WFSubs fcs tcs rest
end

theorem wfSubs_iff (fcs tcs : List Item) (subs : List Script) :
    WFSubs fcs tcs subs ↔ ∀ s ∈ subs, ∃ x y, resolve fcs tcs s = some (x, y) ∧ WF x y s := by
  induction subs with
  | nil => simp [WFSubs]
  | cons s rest ih => simp [WFSubs, ih]

/-! ### induction over scripts -/

theorem scriptInd {P : Script → Prop}
    (h : ∀ k fi ti c subs, (∀ s ∈ subs, P s) → P (.mk k fi ti c subs)) : ∀ s, P s := by
  intro s
  induction hn : sizeOf s using Nat.strongRecOn generalizing s with
  | _ n ih =>
    subst hn
    cases s with
    | mk k fi ti c subs =>
      apply h; intro s hs
      have := List.sizeOf_lt_of_mem hs
      exact ih _ (by simp; omega) s rfl

/-! ### what the projection of a rendered edit must satisfy -/

/-- a complete JSON value whose tokens are those of a value equal (up to member order) to the node of that side -/
def ValueSpec (z : Item) (V : Str) : Prop := ClosedT V ∧ ∃ v', ValPerm v' z.val ∧ T V = v'.toks

def EditSpec (side : Bool) (x y : Item) (s : Script) : Prop :=
  if absent side s.kind then proj (keepS side) (renderEdit true x y s) = []
  else ValueSpec (sideItem side (x, y)) (proj (keepS side) (renderEdit true x y s))

theorem valueSpec_text (z : Item) (hz : z.litOK = true) : ValueSpec z z.text :=
  ⟨closedT_text z hz, z.val, .refl _, T_text z hz⟩

theorem valueSpec_text_sim (z w : Item) (hw : w.litOK = true) (h : ValPerm w.val z.val) : ValueSpec z w.text :=
  ⟨closedT_text w hw, w.val, h, T_text w hw⟩

theorem keepS_plain (side : Bool) : keepS side .plain = true := by cases side <;> rfl
theorem keepS_arrow (side : Bool) : keepS side .arrow = false := by cases side <;> rfl
theorem keepS_removed (side : Bool) : keepS side .removed = side := by cases side <;> rfl
theorem keepS_inserted (side : Bool) : keepS side .inserted = !side := by cases side <;> rfl

theorem proj_plain (side : Bool) (m : Mark) (z : Item) :
    proj (keepS side) (z.plain m) = if keepS side m then z.text else [] := proj_mk _ _ _

theorem proj_arrow (side : Bool) : proj (keepS side) arrowOut = [] := by
  simp [arrowOut, proj_mk, keepS_arrow]

/-- `from struck -> to under-plussed` -/
theorem proj_change (side : Bool) (x y : Item) :
    proj (keepS side) (x.plain .removed ++ arrowOut ++ y.plain .inserted) = (sideItem side (x, y)).text := by
  cases side <;> simp [proj_append, proj_plain, proj_arrow, keepS_removed, keepS_inserted, sideItem]

theorem brackets_cases (x : Item) (o c : Nat) (h : x.brackets = some (o, c)) :
    (o = 91 ∧ c = 93) ∨ (o = 123 ∧ c = 125) := by
  match x, h with
  | .tree (.list _), h =>
    simp only [Item.brackets, Option.some.injEq, Prod.mk.injEq] at h; exact Or.inl ⟨h.1.symm, h.2.symm⟩
  | .tree (.dict _), h | .tree (.fdict _), h =>
    simp only [Item.brackets, Option.some.injEq, Prod.mk.injEq] at h; exact Or.inr ⟨h.1.symm, h.2.symm⟩

theorem resolve_mem (fcs tcs : List Item) (s : Script) (x y : Item) (h : resolve fcs tcs s = some (x, y)) :
    (x ∈ fcs ∨ x ∈ tcs) ∧ (y ∈ fcs ∨ y ∈ tcs) := by
  unfold resolve at h
  split at h
  · obtain ⟨a, ha, he⟩ := Option.map_eq_some_iff.1 h
    simp only [Prod.mk.injEq] at he
    obtain ⟨rfl, rfl⟩ := he
    have := List.mem_of_getElem? ha
    exact ⟨Or.inl this, Or.inl this⟩
  · obtain ⟨a, ha, he⟩ := Option.map_eq_some_iff.1 h
    simp only [Prod.mk.injEq] at he
    obtain ⟨rfl, rfl⟩ := he
    have := List.mem_of_getElem? ha
    exact ⟨Or.inr this, Or.inr this⟩
  · split at h
    · simp only [Option.some.injEq, Prod.mk.injEq] at h
      obtain ⟨rfl, rfl⟩ := h
      exact ⟨Or.inl (List.mem_of_getElem? (by assumption)), Or.inr (List.mem_of_getElem? (by assumption))⟩
    · cases h
  · obtain ⟨a, ha, he⟩ := Option.map_eq_some_iff.1 h
    simp only [Prod.mk.injEq] at he
    obtain ⟨rfl, rfl⟩ := he
    have := List.mem_of_getElem? ha
    exact ⟨Or.inl this, Or.inl this⟩
  · cases h

/-- the key of a key/value pair edit projects to exactly the key of that side -/
theorem key_proj (side : Bool) (fk tk : Str) (ke : Script) (h : KeyOK fk tk ke) :
    proj (keepS side) (renderEdit (decide (ke.cost > 0)) (.tree (.leaf (.str fk))) (.tree (.leaf (.str tk))) ke) =
      quote (if side then fk else tk) := by
  obtain ⟨hk, h0, hs⟩ := h
  cases ke with
  | mk k fi ti c subs =>
    simp only [Script.kind, Script.cost, Script.subs] at hk h0 hs ⊢
    by_cases hc : c > 0
    · rcases hk with rfl | rfl
      · simp only [hc, decide_true, renderEdit, if_true, proj_change]
        cases side <;> simp [sideItem, Item.text, jsonText, scalarText]
      · obtain ⟨hr, hf, ht, _⟩ := hs rfl
        simp only [hc, decide_true, renderEdit, if_true, proj_strOut side fk tk subs hr]
        cases side <;> simp [hf, ht]
    · have hc0 : c = 0 := by omega
      have hkeys := h0 hc0
      subst hkeys
      have : decide (c > 0) = false := by simp [hc0]
      rcases hk with rfl | rfl <;>
        simp [this, renderEdit, proj_plain, keepS_plain, Item.text, jsonText, scalarText]

theorem compound_render (x y : Item) (k : Kind) (fi ti : Ix) (c : Nat) (subs : List Script)
    (hk : isCompound k = true) (b : Bool) :
    renderEdit b x y (.mk k fi ti c subs) = renderEdit true x y (.mk k fi ti c subs) := by
  cases k <;> first | (simp [isCompound] at hk; done) | (rw [renderEdit.eq_def, renderEdit.eq_def])

theorem leafkind_render_false (x y : Item) (k : Kind) (fi ti : Ix) (c : Nat) (subs : List Script)
    (hk : isCompound k = false) : renderEdit false x y (.mk k fi ti c subs) = x.plain .plain := by
  cases k <;> first | rfl | (simp [isCompound] at hk)

/-- the statement proved by induction over the script -/
def Main (s : Script) : Prop :=
  ∀ x y : Item, x.litOK = true → y.litOK = true → WF x y s → ∀ side, EditSpec side x y s

/-- an edit behind the cost gate -/
theorem gated (s : Script) (hm : Main s) (x y : Item) (hx : x.litOK = true) (hy : y.litOK = true)
    (hwf : WF x y s) (hg : Gate x y s) (side : Bool) :
    ValueSpec (sideItem side (x, y)) (proj (keepS side) (renderEdit (decide (s.cost > 0)) x y s)) := by
  obtain ⟨hnr, hni, h0⟩ := hg
  have hnabs : absent side s.kind = false := by
    cases side <;> simp [absent, hnr, hni]
  have hmain := hm x y hx hy hwf side
  simp only [EditSpec, hnabs, Bool.false_eq_true, if_false] at hmain
  by_cases hc : s.cost > 0
  · simpa [hc] using hmain
  · have hc0 : s.cost = 0 := by omega
    have hd : decide (s.cost > 0) = false := by simp [hc0]
    rw [hd]
    cases s with
    | mk k fi ti c subs =>
      simp only [Script.cost, Script.kind] at h0 hc0 hmain ⊢
      by_cases hk : isCompound k = true
      · rw [compound_render x y k fi ti c subs hk]; exact hmain
      · have hk' : isCompound k = false := by simpa using hk
        rw [leafkind_render_false x y k fi ti c subs hk', proj_plain, keepS_plain]
        simp only [if_true]
        rcases h0 hc0 with h | h
        · rw [hk'] at h; cases h
        · cases side
          · exact valueSpec_text_sim y x hx h
          · exact valueSpec_text x hx

theorem seq_case (side : Bool) (x y : Item) (hx : x.litOK = true) (hy : y.litOK = true) (subs : List Script)
    (ih : ∀ s ∈ subs, Main s) (hcov : Cover x y subs) (hsubs : WFSubs x.children y.children subs) :
    ValueSpec (sideItem side (x, y))
      (proj (keepS side) (seqWrap x (renderSubs x.children y.children 0 0 true subs))) := by
  obtain ⟨o, c, hbx, hby, hcover⟩ := hcov
  have hitems : ∀ s ∈ subs, ItemSpec side x.children y.children s := by
    intro s hs
    obtain ⟨a, b, hres, hwf⟩ := (wfSubs_iff _ _ _).1 hsubs s hs
    have hm := resolve_mem _ _ _ _ _ hres
    have ha : a.litOK = true := by
      rcases hm.1 with h | h
      · exact children_litOK x hx a h
      · exact children_litOK y hy a h
    have hb : b.litOK = true := by
      rcases hm.2 with h | h
      · exact children_litOK x hx b h
      · exact children_litOK y hy b h
    exact ⟨a, b, hres, ih s hs a b ha hb hwf side⟩
  obtain ⟨hclosed, vs, hvs, hT⟩ := seq_node side x y o c hbx subs hitems
  refine ⟨hclosed, .seq o c vs, ?_, hT⟩
  have hval : (sideItem side (x, y)).val = .seq o c ((sideItem side (x, y)).children.map Item.val) := by
    cases side
    · exact val_of_brackets y o c hby
    · exact val_of_brackets x o c hbx
  rw [hval]
  rcases brackets_cases x o c hbx with ⟨rfl, rfl⟩ | ⟨rfl, rfl⟩
  · simp only [if_true] at hcover
    apply ValPerm.list
    cases side
    · exact ValPermL.trans' hvs hcover.2
    · exact ValPermL.trans' hvs hcover.1
  · simp only [show (123 : Nat) ≠ 91 by decide, if_false] at hcover
    apply ValPerm.map
    cases side
    · exact ValPermP.trans (ValPermP.ofL hvs) hcover.2
    · exact ValPermP.trans (ValPermP.ofL hvs) hcover.1

theorem main : ∀ s, Main s := by
  apply scriptInd
  intro k fi ti c subs ih x y hx hy hwf side
  cases k with
  | match_ =>
    simp only [EditSpec, absent, Script.kind]
    have hn : (if side = true then Kind.match_ == Kind.insert else Kind.match_ == Kind.remove) = false := by
      cases side <;> rfl
    simp only [hn, Bool.false_eq_true, if_false, renderEdit, if_true]
    by_cases hc : c > 0
    · simp only [hc, if_true, proj_change]
      cases side
      · exact valueSpec_text y hy
      · exact valueSpec_text x hx
    · simp only [hc, if_false, proj_plain, keepS_plain, if_true]
      have hsim : ValPerm y.val x.val := by
        simp only [WF] at hwf
        rcases hwf with h | h
        · exact absurd h hc
        · exact h
      cases side
      · exact valueSpec_text y hy
      · exact valueSpec_text_sim x y hy hsim
  | replace =>
    simp only [EditSpec, absent, Script.kind]
    have hn : (if side = true then Kind.replace == Kind.insert else Kind.replace == Kind.remove) = false := by
      cases side <;> rfl
    have hc : c > 0 := by simpa [WF] using hwf
    simp only [hn, Bool.false_eq_true, if_false, renderEdit, if_true, hc, proj_change]
    cases side
    · exact valueSpec_text y hy
    · exact valueSpec_text x hx
  | remove =>
    cases side
    · simp [EditSpec, absent, Script.kind, renderEdit, proj_plain, keepS_removed]
    · simp only [EditSpec, absent, Script.kind, renderEdit, proj_plain, keepS_removed, if_true]
      simpa [sideItem] using valueSpec_text x hx
  | insert =>
    have hxy : x = y := by simpa [WF] using hwf
    subst hxy
    cases side
    · simp only [EditSpec, absent, Script.kind, renderEdit, proj_plain, keepS_inserted, if_true]
      simpa [sideItem] using valueSpec_text x hx
    · simp [EditSpec, absent, Script.kind, renderEdit, proj_plain, keepS_inserted]
  | str =>
    simp only [WF] at hwf
    obtain ⟨a, b, rfl, rfl, hr, hf, ht, _⟩ := hwf
    simp only [EditSpec, absent, Script.kind]
    have hn : (if side = true then Kind.str == Kind.insert else Kind.str == Kind.remove) = false := by
      cases side <;> rfl
    simp only [hn, Bool.false_eq_true, if_false, renderEdit, if_true, proj_strOut side a b subs hr]
    cases side
    · simpa [sideItem, ht, Item.text, jsonText, scalarText] using
        valueSpec_text (.tree (.leaf (.str b))) rfl
    · simpa [sideItem, hf, Item.text, jsonText, scalarText] using
        valueSpec_text (.tree (.leaf (.str a))) rfl
  | kvp =>
    simp only [EditSpec, absent, Script.kind]
    have hn : (if side = true then Kind.kvp == Kind.insert else Kind.kvp == Kind.remove) = false := by
      cases side <;> rfl
    simp only [hn, Bool.false_eq_true, if_false]
    match x, y, subs, hwf, ih, hx, hy with
    | .kv fk fv, .kv tk tv, [ke, ve], hwf, ih, hx, hy =>
      simp only [WF] at hwf
      obtain ⟨hkey, hwv, hgv⟩ := hwf
      have hv := gated ve (ih ve (by simp)) (.tree fv) (.tree tv) hx hy hwv hgv side
      simp only [renderEdit, proj_append, proj_cons, keepS_plain, if_true, key_proj side fk tk ke hkey]
      obtain ⟨hcl, v', hv', hT⟩ := hv
      generalize proj (keepS side) (renderEdit (decide (ve.cost > 0)) (.tree fv) (.tree tv) ve) = V at hcl hT
      refine ⟨by simpa using closedT_kv _ V hcl, .pair (if side then fk else tk) v', ?_, ?_⟩
      · cases side
        · simpa [sideItem, Item.val] using ValPerm.pair (k := tk) hv'
        · simpa [sideItem, Item.val] using ValPerm.pair (k := fk) hv'
      · have := T_kv (if side then fk else tk) V
        simp only [List.singleton_append] at this ⊢
        rw [this, hT, Val.toks]
    | .tree _, _, _, hwf, _, _, _ => simp [WF] at hwf
    | .kv _ _, .tree _, _, hwf, _, _, _ => simp [WF] at hwf
    | .kv _ _, .kv _ _, [], hwf, _, _, _ => simp [WF] at hwf
    | .kv _ _, .kv _ _, [_], hwf, _, _, _ => simp [WF] at hwf
    | .kv _ _, .kv _ _, _ :: _ :: _ :: _, hwf, _, _, _ => simp [WF] at hwf
  | ed =>
    simp only [WF] at hwf
    simp only [EditSpec, absent, Script.kind]
    have hn : (if side = true then Kind.ed == Kind.insert else Kind.ed == Kind.remove) = false := by
      cases side <;> rfl
    simp only [hn, Bool.false_eq_true, if_false, renderEdit]
    exact seq_case side x y hx hy subs ih hwf.1 hwf.2
  | fixed =>
    simp only [WF] at hwf
    simp only [EditSpec, absent, Script.kind]
    have hn : (if side = true then Kind.fixed == Kind.insert else Kind.fixed == Kind.remove) = false := by
      cases side <;> rfl
    simp only [hn, Bool.false_eq_true, if_false, renderEdit]
    exact seq_case side x y hx hy subs ih hwf.1 hwf.2
  | ms =>
    simp only [WF] at hwf
    simp only [EditSpec, absent, Script.kind]
    have hn : (if side = true then Kind.ms == Kind.insert else Kind.ms == Kind.remove) = false := by
      cases side <;> rfl
    simp only [hn, Bool.false_eq_true, if_false, renderEdit]
    exact seq_case side x y hx hy subs ih hwf.1 hwf.2
  | fk =>
    simp only [WF] at hwf
    simp only [EditSpec, absent, Script.kind]
    have hn : (if side = true then Kind.fk == Kind.insert else Kind.fk == Kind.remove) = false := by
      cases side <;> rfl
    simp only [hn, Bool.false_eq_true, if_false, renderEdit]
    exact seq_case side x y hx hy subs ih hwf.1 hwf.2

/-- the root: `render` prints the root edit behind the cost gate -/
theorem render_spec (f t : Tree) (s : Script) (hf : litOK f = true) (ht : litOK t = true)
    (hwf : WF (.tree f) (.tree t) s) (hg : Gate (.tree f) (.tree t) s) (side : Bool) :
    ValueSpec (sideItem side (.tree f, .tree t)) (proj (keepS side) (render f t s)) :=
  gated s (main s) (.tree f) (.tree t) hf ht hwf hg side

end GtModel.Render

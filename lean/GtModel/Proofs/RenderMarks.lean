/-
  Change marks: an edit of positive cost renders at least one marked character (`positive_cost_shows`), an edit
  of cost 0 computed by the engine is a plain Match (`zero_cost_is_match`).
-/
import GtModel.Proofs.RenderEdits

namespace GtModel.Render
open GtModel

/-- the rendering carries a change mark -/
def hasMark (r : Out) : Bool := r.any fun p => p.2 != .plain

theorem hasMark_append (a b : Out) : hasMark (a ++ b) = (hasMark a || hasMark b) := by simp [hasMark]
theorem hasMark_cons (p : Nat × Mark) (r : Out) : hasMark (p :: r) = (p.2 != .plain || hasMark r) := by
  simp [hasMark]
theorem hasMark_nil : hasMark [] = false := rfl

theorem hasMark_mk (m : Mark) (s : Str) : hasMark (mk m s) = (m != .plain && !s.isEmpty) := by
  cases s with
  | nil => simp [hasMark, mk]
  | cons c s =>
    by_cases h : m = .plain
    · subst h; simp [hasMark, mk]
    · simp [hasMark, mk, h]

theorem hasMark_plain (x : Item) : hasMark (x.plain .plain) = false := by
  simp [Item.plain, hasMark_mk]

theorem hasMark_arrow : hasMark arrowOut = true := by decide

/-! ### every node prints at least one character -/

theorem natDigits_ne_nil (n : Nat) : natDigits n ≠ [] := by
  simp only [natDigits, strOfString, ne_eq, List.map_eq_nil_iff]
  have : (toString n).toList = Nat.toDigits 10 n := by simp [toString, instToStringNat, Nat.repr]
  rw [this]
  exact Nat.toDigits_ne_nil

theorem scalarText_ne_nil (s : Scalar) (h : Scalar.litOK s = true) : scalarText s ≠ [] := by
  cases s with
  | null => decide
  | bool b => cases b <;> decide
  | int i =>
    simp only [scalarText, intStr]
    split
    · simp
    · exact natDigits_ne_nil _
  | float r =>
    simp only [Scalar.litOK, Bool.and_eq_true, Bool.not_eq_true', List.isEmpty_eq_false_iff] at h
    simpa [scalarText] using h.2
  | str s => simp [scalarText, quote]

theorem text_ne_nil (x : Item) (h : x.litOK = true) : x.text ≠ [] := by
  cases x with
  | tree t =>
    cases t with
    | leaf s => exact scalarText_ne_nil s (by simpa [Item.litOK, litOK] using h)
    | list cs => simp [Item.text, jsonText]
    | dict kvs => simp [Item.text, jsonText]
    | fdict kvs => simp [Item.text, jsonText]
  | kv k v => simp [Item.text, quote]

theorem hasMark_plain_marked (x : Item) (h : x.litOK = true) (m : Mark) (hm : m ≠ .plain) :
    hasMark (x.plain m) = true := by
  have := text_ne_nil x h
  simp [Item.plain, hasMark_mk, hm, this]

/-! ### string edits -/

theorem escChar_ne_nil (c : Nat) : escChar c ≠ [] := by
  unfold escChar
  repeat' split
  all_goals simp [hex4]

theorem escStr_ne_nil {s : Str} (h : s ≠ []) : escStr s ≠ [] := by
  cases s with
  | nil => exact absurd rfl h
  | cons c s =>
    have := escChar_ne_nil c
    simp only [escStr, List.flatMap_cons, ne_eq, List.append_eq_nil_iff, not_and]
    intro h1; exact absurd h1 this

/-- something removed or inserted is buffered or already written -/
def stMarked (st : StrSt) : Bool := hasMark st.out || !st.remSeq.isEmpty || !st.addSeq.isEmpty

theorem hasMark_flushSt (st : StrSt) : hasMark (flushSt st) = stMarked st := by
  have h1 : ∀ s : Str, (escStr s).isEmpty = s.isEmpty := by
    intro s
    cases s with
    | nil => rfl
    | cons c s =>
      have := escStr_ne_nil (s := c :: s) (by simp)
      simp [this]
  have e1 : (Mark.removed != Mark.plain) = true := by decide
  have e2 : (Mark.inserted != Mark.plain) = true := by decide
  simp [flushSt, hasMark_append, hasMark_mk, stMarked, h1, e1, e2, Bool.or_assoc]

def CharEd.isKeep : CharEd → Bool
  | .keep _ => true
  | _ => false

theorem stMarked_step (st : StrSt) (e : CharEd) :
    (stMarked st = true → stMarked (strStepC st e) = true) ∧ (e.isKeep = false → stMarked (strStepC st e) = true) := by
  cases e with
  | keep c =>
    constructor
    · intro h
      have : stMarked (strStepC st (.keep c)) = (stMarked st || hasMark (mk .plain (escChar c))) := by
        simp [strStepC, stMarked, hasMark_append, hasMark_flushSt]
      rw [this, h]; rfl
    · simp [CharEd.isKeep]
  | sub r d => simp [strStepC, stMarked]
  | rem r => simp [strStepC, stMarked]
  | ins d => simp [strStepC, stMarked]

theorem foldl_marked (a b : Str) (subs : List Script) (h : StrResolved a b subs) (st : StrSt) :
    ∃ st', subs.foldl (strStep a b) (some st) = some st' ∧ (stMarked st = true → stMarked st' = true) ∧
      ((∃ s ∈ subs, ∃ e, classifyChar a b s = some e ∧ e.isKeep = false) → stMarked st' = true) := by
  induction subs generalizing st with
  | nil => exact ⟨st, rfl, id, by simp⟩
  | cons s rest ih =>
    obtain ⟨e, he⟩ := h s (by simp)
    obtain ⟨st', h1, h2, h3⟩ := ih (fun s hs => h s (by simp [hs])) (strStepC st e)
    have hstep := stMarked_step st e
    refine ⟨st', by simp [List.foldl, strStep, he, h1], fun hm => h2 (hstep.1 hm), ?_⟩
    rintro ⟨s', hs', e', he', hk⟩
    simp only [List.mem_cons] at hs'
    rcases hs' with rfl | hs'
    · rw [he] at he'; cases he'
      exact h2 (hstep.2 hk)
    · exact h3 ⟨s', hs', e', he', hk⟩

theorem side_of_keep (e : CharEd) (h : e.isKeep = true) : e.side true = e.side false := by
  cases e <;> simp [CharEd.isKeep] at h <;> rfl

theorem filterMap_congr'' {α β : Type} (l : List α) (f g : α → Option β) (h : ∀ x ∈ l, f x = g x) :
    l.filterMap f = l.filterMap g := by
  induction l with
  | nil => rfl
  | cons a l ih =>
    simp only [List.filterMap_cons, h a (by simp), ih (fun x hx => h x (by simp [hx]))]

/-- the rendering of a string edit between two different strings carries a mark -/
theorem hasMark_strOut (a b : Str) (subs : List Script) (h : StrOK a b subs) : hasMark (strOut a b subs) = true := by
  obtain ⟨hres, hf, ht, hne⟩ := h
  have hex : ∃ s ∈ subs, ∃ e, classifyChar a b s = some e ∧ e.isKeep = false := by
    apply Classical.byContradiction
    intro hno
    apply hne
    have hsame : sideChars true a b subs = sideChars false a b subs := by
      simp only [sideChars]
      apply filterMap_congr''
      intro s hs
      obtain ⟨e, he⟩ := hres s hs
      have hk : e.isKeep = true := by
        cases hke : e.isKeep with
        | true => rfl
        | false => exact absurd ⟨s, hs, e, he, hke⟩ hno
      simp [he, side_of_keep e hk]
    exact hf.symm.trans (hsame.trans ht)
  obtain ⟨st', h1, _, h3⟩ := foldl_marked a b subs hres {}
  simp only [strOut, hasMark_cons, hasMark_append, strBody, h1, hasMark_flushSt, h3 hex]
  simp

/-! ### sequences -/

theorem hasMark_renderSubs (fcs tcs : List Item) (subs : List Script) (s : Script) (hs : s ∈ subs) (x y : Item)
    (hres : resolve fcs tcs s = some (x, y)) (hm : hasMark (renderEdit true x y s) = true) :
    ∀ (tr ti : Nat) (first : Bool), hasMark (renderSubs fcs tcs tr ti first subs) = true := by
  induction subs with
  | nil => simp at hs
  | cons s' rest ih =>
    intro tr ti first
    rw [renderSubs_cons]
    simp only [List.mem_cons] at hs
    rcases hs with rfl | hs
    · simp [hasMark_append, hres, hm]
    · simp [hasMark_append, ih hs]

theorem hasMark_seqWrap (x : Item) (o c : Nat) (hb : x.brackets = some (o, c)) (body : Out)
    (h : hasMark body = true) : hasMark (seqWrap x body) = true := by
  simp [seqWrap, hb, hasMark_cons, hasMark_append, h]

theorem sumCosts_pos {subs : List Script} (h : sumCosts subs > 0) : ∃ s ∈ subs, s.cost > 0 := by
  induction subs with
  | nil => simp at h
  | cons s rest ih =>
    simp only [sumCosts_cons] at h
    by_cases hs : s.cost > 0
    · exact ⟨s, by simp, hs⟩
    · obtain ⟨s', hs', hc⟩ := ih (by omega)
      exact ⟨s', by simp [hs'], hc⟩

/-! ### an edit of positive cost shows -/

def Shows (s : Script) : Prop :=
  ∀ x y : Item, x.litOK = true → y.litOK = true → WF x y s → s.CostOK → s.cost > 0 →
    hasMark (renderEdit true x y s) = true

theorem shows_seq (k : Kind) (hk : isSeqKind k = true) (fi ti : Ix) (c : Nat) (subs : List Script)
    (ih : ∀ s ∈ subs, Shows s) (x y : Item) (hx : x.litOK = true) (hy : y.litOK = true)
    (hcov : Cover x y subs) (hsubs : WFSubs x.children y.children subs)
    (hcost : (Script.mk k fi ti c subs).CostOK) (hc : c > 0) :
    hasMark (seqWrap x (renderSubs x.children y.children 0 0 true subs)) = true := by
  obtain ⟨o, cl, hbx, _, _⟩ := hcov
  have hco := (Script.costOK_iff _).1 hcost
  have hsub : Kind.hasSubs k = true := by cases k <;> simp [isSeqKind] at hk <;> rfl
  simp only [Script.kind_mk, hsub, if_true, Script.cost_mk, Script.subs_mk] at hco
  obtain ⟨s, hs, hsc⟩ := sumCosts_pos (by rw [← hco.1]; exact hc)
  obtain ⟨a, b, hres, hwf⟩ := (wfSubs_iff _ _ _).1 hsubs s hs
  have hm := resolve_mem _ _ _ _ _ hres
  have ha : a.litOK = true := by
    rcases hm.1 with h | h
    · exact children_litOK x hx a h
    · exact children_litOK y hy a h
  have hb : b.litOK = true := by
    rcases hm.2 with h | h
    · exact children_litOK x hx b h
    · exact children_litOK y hy b h
  have := ih s hs a b ha hb hwf (hco.2 s hs) hsc
  exact hasMark_seqWrap x o cl hbx _ (hasMark_renderSubs _ _ subs s hs a b hres this 0 0 true)

theorem shows : ∀ s, Shows s := by
  apply scriptInd
  intro k fi ti c subs ih x y hx hy hwf hcost hc
  simp only [Script.cost] at hc
  cases k with
  | match_ => simp [renderEdit, hc, hasMark_append, hasMark_arrow]
  | replace => simp [renderEdit, hc, hasMark_append, hasMark_arrow]
  | remove => simpa [renderEdit] using hasMark_plain_marked x hx .removed (by decide)
  | insert => simpa [renderEdit] using hasMark_plain_marked x hx .inserted (by decide)
  | str =>
    simp only [WF] at hwf
    obtain ⟨a, b, rfl, rfl, hok⟩ := hwf
    simpa [renderEdit] using hasMark_strOut a b subs hok
  | kvp =>
    match x, y, subs, hwf, ih, hx, hy, hcost with
    | .kv fk fv, .kv tk tv, [ke, ve], hwf, ih, hx, hy, hcost =>
      simp only [WF] at hwf
      obtain ⟨hkey, hwv, _⟩ := hwf
      have hco := (Script.costOK_iff _).1 hcost
      simp only [Script.kind_mk, Kind.hasSubs, if_true, Script.cost_mk, Script.subs_mk, sumCosts_cons,
        sumCosts_nil, Nat.add_zero] at hco
      simp only [renderEdit, hasMark_append, hasMark_cons, Bool.or_eq_true]
      by_cases hke : ke.cost > 0
      · left
        obtain ⟨hkind, _, hstr⟩ := hkey
        cases ke with
        | mk kk kfi kti kc ksubs =>
          simp only [Script.kind, Script.cost, Script.subs] at hkind hke hstr ⊢
          rcases hkind with rfl | rfl
          · simp [hke, renderEdit, hasMark_append, hasMark_arrow]
          · simpa [hke, renderEdit] using hasMark_strOut fk tk ksubs (hstr rfl)
      · right; right
        have hve : ve.cost > 0 := by omega
        have := ih ve (by simp) (.tree fv) (.tree tv) hx hy hwv (hco.2 ve (by simp)) hve
        simpa [hve] using this
    | .tree _, _, _, hwf, _, _, _, _ => simp [WF] at hwf
    | .kv _ _, .tree _, _, hwf, _, _, _, _ => simp [WF] at hwf
    | .kv _ _, .kv _ _, [], hwf, _, _, _, _ => simp [WF] at hwf
    | .kv _ _, .kv _ _, [_], hwf, _, _, _, _ => simp [WF] at hwf
    | .kv _ _, .kv _ _, _ :: _ :: _ :: _, hwf, _, _, _, _ => simp [WF] at hwf
  | ed =>
    simp only [WF] at hwf
    simpa [renderEdit] using shows_seq .ed rfl fi ti c subs ih x y hx hy hwf.1 hwf.2 hcost hc
  | fixed =>
    simp only [WF] at hwf
    simpa [renderEdit] using shows_seq .fixed rfl fi ti c subs ih x y hx hy hwf.1 hwf.2 hcost hc
  | ms =>
    simp only [WF] at hwf
    simpa [renderEdit] using shows_seq .ms rfl fi ti c subs ih x y hx hy hwf.1 hwf.2 hcost hc
  | fk =>
    simp only [WF] at hwf
    simpa [renderEdit] using shows_seq .fk rfl fi ti c subs ih x y hx hy hwf.1 hwf.2 hcost hc

/-- an edit of positive cost computed by the engine renders at least one marked character -/
theorem positive_cost_shows (o : Opts) (orc : Oracle) (fp tp : List Nat) (f t : Tree)
    (hf : f.KeysDistinct) (ht : t.KeysDistinct) (hlf : litOK f = true) (hlt : litOK t = true)
    (hc : (edits o orc fp tp f t).cost > 0) :
    hasMark (renderEdit true (.tree f) (.tree t) (edits o orc fp tp f t)) = true :=
  shows _ (.tree f) (.tree t) hlf hlt (wf_edits o orc f fp tp t hf ht) (C03.reported_eq_sum o orc fp tp f t) hc

/-! ### a zero-cost edit computed by the engine is a plain edit -/

theorem leafEdits_not_compound (a : Scalar) (t : Tree) : isCompound (leafEdits a t).kind = false := by
  have : ∀ a b : Str, isCompound (strEdits a b).kind = false := by
    intro a b; rcases strEdits_kind a b with h | h <;> simp [h, isCompound]
  unfold leafEdits
  split <;> first | exact this _ _ | simp [leafLeaf, isCompound]

theorem zero_cost_is_match (o : Opts) (orc : Oracle) (fp tp : List Nat) (f t : Tree)
    (hf : f.KeysDistinct) (ht : t.KeysDistinct) (h0 : (edits o orc fp tp f t).cost = 0) :
    isCompound (edits o orc fp tp f t).kind = false := by
  have heq := (C02.zero_cost_iff_eq o orc fp tp f t (wf_of_kd hf) (wf_of_kd ht)).1 h0
  cases f with
  | leaf a => rw [edits_leaf]; exact leafEdits_not_compound a t
  | list fcs =>
    cases t with
    | list tcs =>
      rw [edits_list_list]
      have : eqL fcs tcs = true := by simpa [Tree.eq] using heq
      simp [this, isCompound]
    | _ => simp [Tree.eq] at heq
  | dict fkv =>
    cases t with
    | dict tkv =>
      rw [edits_dict_dict]
      have : (fkv.length == tkv.length && subKV fkv tkv) = true := by simpa [Tree.eq] using heq
      simp only [this, if_true]; rfl
    | _ => simp [Tree.eq] at heq
  | fdict fkv =>
    cases t with
    | fdict tkv =>
      rw [edits_fdict_fdict]
      have : (fkv.length == tkv.length && subKV fkv tkv) = true := by simpa [Tree.eq] using heq
      simp only [this, if_true]; rfl
    | _ => simp [Tree.eq] at heq

end GtModel.Render

/-! ### documents: float reprs survive `build` -/

namespace GtModel

mutual
/-- every float of the document has a non-empty repr made of literal characters (true of every finite Python float) -/
def Doc.floatsOK : Doc → Bool
  | .scalar s => Render.Scalar.litOK s
  | .list cs => floatsOKL cs
  | .obj kvs => floatsOKKV kvs
def floatsOKL : List Doc → Bool
  | [] => true
  | c :: cs => c.floatsOK && floatsOKL cs
def floatsOKKV : List (Str × Doc) → Bool
  | [] => true
  | (_, v) :: rest => v.floatsOK && floatsOKKV rest
end

mutual
theorem build_litOK (o : Opts) : ∀ d : Doc, d.floatsOK = true → Render.litOK (build o d) = true
  | .scalar _, h => by simpa [build, Render.litOK, Doc.floatsOK] using h
  | .list cs, h => by
    simp only [Doc.floatsOK] at h
    simp only [build, Render.litOK]
    exact buildL_litOK o cs h
  | .obj kvs, h => by
    simp only [Doc.floatsOK] at h
    have h2 := buildKV_litOK o kvs h
    simp only [build]
    split
    · simp only [Render.litOK]
      rw [Render.litOKKV_iff] at h2 ⊢
      intro kv hkv
      exact h2 kv ((sortKV_perm _).mem_iff.1 hkv)
    · simpa [Render.litOK] using h2
theorem buildL_litOK (o : Opts) : ∀ cs : List Doc, floatsOKL cs = true → Render.litOKL (build.buildL o cs) = true
  | [], _ => rfl
  | c :: cs, h => by
    simp only [floatsOKL, Bool.and_eq_true] at h
    simp only [build.buildL, Render.litOKL, Bool.and_eq_true]
    exact ⟨build_litOK o c h.1, buildL_litOK o cs h.2⟩
theorem buildKV_litOK (o : Opts) : ∀ kvs : List (Str × Doc), floatsOKKV kvs = true →
    Render.litOKKV (build.buildKV o kvs) = true
  | [], _ => rfl
  | (k, v) :: rest, h => by
    simp only [floatsOKKV, Bool.and_eq_true] at h
    simp only [build.buildKV, Render.litOKKV, Bool.and_eq_true]
    exact ⟨build_litOK o v h.1, buildKV_litOK o rest h.2⟩
end

end GtModel

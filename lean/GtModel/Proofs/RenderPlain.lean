/-
  Projections of a marked output, and the token structure of a node printed without edits.
-/
import GtModel.Proofs.RenderTokens

namespace GtModel.Render
open GtModel

/-! ### projections -/

/-- what survives when everything inserted (and the arrows) is deleted -/
def keepFrom : Mark → Bool
  | .inserted => false
  | .arrow => false
  | _ => true

/-- what survives when everything removed (and the arrows) is deleted -/
def keepTo : Mark → Bool
  | .removed => false
  | .arrow => false
  | _ => true

def proj (keep : Mark → Bool) (r : Out) : Str := (r.filter fun p => keep p.2).map (·.1)

def projFrom (r : Out) : Str := proj keepFrom r
def projTo (r : Out) : Str := proj keepTo r

/-- side `true` = the first document, `false` = the second -/
def keepS (side : Bool) : Mark → Bool := if side then keepFrom else keepTo

theorem proj_append (k : Mark → Bool) (a b : Out) : proj k (a ++ b) = proj k a ++ proj k b := by simp [proj]

theorem proj_cons (k : Mark → Bool) (c : Nat) (m : Mark) (r : Out) :
    proj k ((c, m) :: r) = (if k m then [c] else []) ++ proj k r := by
  by_cases h : k m <;> simp [proj, h]

theorem proj_nil (k : Mark → Bool) : proj k [] = [] := rfl

theorem proj_mk (k : Mark → Bool) (m : Mark) (s : Str) : proj k (mk m s) = if k m then s else [] := by
  by_cases h : k m
  · simp only [h, if_true, proj, mk, List.filter_map, List.map_map]
    rw [List.filter_eq_self.2 (by intro a _; simpa using h)]
    simp [Function.comp_def]
  · simp only [h, proj, mk, List.filter_map, List.map_map]
    rw [List.filter_eq_nil_iff.2 (by intro a _; simpa using h)]
    simp

/-! ### literal characters of numbers -/

theorem litChar_of_digit (c : Char) (h : c.isDigit = true) : litChar c.toNat = true := by
  simp only [Char.isDigit, Bool.and_eq_true, decide_eq_true_eq] at h
  have h1 : 48 ≤ c.toNat := by
    have a := UInt32.le_iff_toNat_le.1 h.1
    have e0 : ('0' : Char).val.toNat = 48 := by decide
    rw [e0] at a; exact a
  have h2 : c.toNat ≤ 57 := by
    have b := UInt32.le_iff_toNat_le.1 h.2
    have e9 : ('9' : Char).val.toNat = 57 := by decide
    rw [e9] at b; exact b
  simp only [litChar, isPunct, Bool.and_eq_true, Bool.not_eq_true', Bool.or_eq_false_iff, beq_eq_false_iff_ne,
    bne_iff_ne, ne_eq]
  omega

theorem natDigits_lit (n : Nat) : (natDigits n).all litChar = true := by
  simp only [natDigits, strOfString, List.all_map, List.all_eq_true, Function.comp_apply]
  intro c hc
  apply litChar_of_digit
  have : c ∈ Nat.toDigits 10 n := by simpa [toString, instToStringNat, Nat.repr] using hc
  exact Nat.isDigit_of_mem_toDigits (by decide) (by decide) this

theorem intStr_lit (i : Int) : (intStr i).all litChar = true := by
  unfold intStr
  split
  · simp only [List.all_cons, natDigits_lit, Bool.and_true]; decide
  · exact natDigits_lit _

/-! ### `litOK`: float leaves carry an opaque repr; it must be non-empty and consist of literal characters (true of
    every Python float repr: digits, `.`, `e`, `+`, `-`, `inf`, `nan`) -/

def Scalar.litOK : Scalar → Bool
  | .float r => r.all litChar && !r.isEmpty
  | _ => true

mutual
def litOK : Tree → Bool
  | .leaf s => Scalar.litOK s
  | .list cs => litOKL cs
  | .dict kvs => litOKKV kvs
  | .fdict kvs => litOKKV kvs
def litOKL : List Tree → Bool
  | [] => true
  | c :: cs => litOK c && litOKL cs
def litOKKV : List (Str × Tree) → Bool
  | [] => true
  | (_, v) :: rest => litOK v && litOKKV rest
end

theorem litOKL_iff (cs : List Tree) : litOKL cs = true ↔ ∀ c ∈ cs, litOK c = true := by
  induction cs with
  | nil => simp [litOKL]
  | cons c cs ih => simp [litOKL, ih]

theorem litOKKV_iff (kvs : List (Str × Tree)) : litOKKV kvs = true ↔ ∀ kv ∈ kvs, litOK kv.2 = true := by
  induction kvs with
  | nil => simp [litOKKV]
  | cons kv kvs ih => obtain ⟨k, v⟩ := kv; simp [litOKKV, ih]

def Item.litOK : Item → Bool
  | .tree t => Render.litOK t
  | .kv _ v => Render.litOK v

theorem children_litOK (x : Item) (h : x.litOK = true) : ∀ c ∈ x.children, c.litOK = true := by
  intro c hc
  match x, h with
  | .tree (.leaf _), _ => simp [Item.children] at hc
  | .tree (.list cs), h =>
    simp only [Item.children, List.mem_map] at hc
    obtain ⟨a, ha, rfl⟩ := hc
    exact (litOKL_iff cs).1 (by simpa [Item.litOK, litOK] using h) a ha
  | .tree (.dict kvs), h =>
    simp only [Item.children, List.mem_map] at hc
    obtain ⟨a, ha, rfl⟩ := hc
    exact (litOKKV_iff kvs).1 (by simpa [Item.litOK, litOK] using h) a ha
  | .tree (.fdict kvs), h =>
    simp only [Item.children, List.mem_map] at hc
    obtain ⟨a, ha, rfl⟩ := hc
    exact (litOKKV_iff kvs).1 (by simpa [Item.litOK, litOK] using h) a ha
  | .kv k v, h =>
    simp only [Item.children, List.mem_cons, List.mem_nil_iff, or_false] at hc
    rcases hc with rfl | rfl
    · rfl
    · exact h

/-! ### induction over trees -/

theorem sizeOf_snd_lt' (p : Str × Tree) : sizeOf p.2 < sizeOf p := by
  cases p; simp; omega

theorem treeInd {P : Tree → Prop} (leaf : ∀ s, P (.leaf s))
    (list : ∀ cs, (∀ c ∈ cs, P c) → P (.list cs))
    (dict : ∀ kvs, (∀ kv ∈ kvs, P kv.2) → P (.dict kvs))
    (fdict : ∀ kvs, (∀ kv ∈ kvs, P kv.2) → P (.fdict kvs)) : ∀ t, P t := by
  intro t
  induction h : sizeOf t using Nat.strongRecOn generalizing t with
  | _ n ih =>
    subst h
    cases t with
    | leaf s => exact leaf s
    | list cs =>
      apply list; intro c hc
      have := List.sizeOf_lt_of_mem hc
      exact ih _ (by simp; omega) c rfl
    | dict kvs =>
      apply dict; intro kv hkv
      have := List.sizeOf_lt_of_mem hkv
      have := sizeOf_snd_lt' kv
      exact ih _ (by simp; omega) kv.2 rfl
    | fdict kvs =>
      apply fdict; intro kv hkv
      have := List.sizeOf_lt_of_mem hkv
      have := sizeOf_snd_lt' kv
      exact ih _ (by simp; omega) kv.2 rfl

/-! ### the tokens of a sequence printed without edits -/

/-- `first`-separated concatenation, the shape of `jsonList` / `jsonKVs` -/
def joinTexts (first : Bool) : List Str → Str
  | [] => []
  | v :: vs => (if first then [] else [44]) ++ (v ++ joinTexts false vs)

theorem jsonList_join (first : Bool) (cs : List Tree) : jsonList first cs = joinTexts first (cs.map jsonText) := by
  induction cs generalizing first with
  | nil => rfl
  | cons c cs ih => simp [jsonList, joinTexts, ih]

theorem jsonKVs_join (first : Bool) (kvs : List (Str × Tree)) :
    jsonKVs first kvs = joinTexts first (kvs.map fun kv => (Item.kv kv.1 kv.2).text) := by
  induction kvs generalizing first with
  | nil => rfl
  | cons kv kvs ih => obtain ⟨k, v⟩ := kv; simp [jsonKVs, joinTexts, ih, Item.text]

/-- complete values joined by commas and followed by punctuation: the tokens are those of the values -/
theorem T_join (vs : List Str) (hv : ∀ v ∈ vs, ClosedT v) (first : Bool) (post : Str) (hp : StartsPunct post) :
    T (joinTexts first vs ++ post) = vs.flatMap T ++ T post := by
  induction vs generalizing first with
  | nil => simp [joinTexts]
  | cons v vs ih =>
    have hv1 := hv v (by simp)
    have hrest : StartsPunct (joinTexts false vs ++ post) := by
      cases vs with
      | nil => simpa [joinTexts] using hp
      | cons w ws => exact ⟨44, w ++ (joinTexts false ws ++ post), by simp [joinTexts], by decide⟩
    have key : T (v ++ (joinTexts false vs ++ post)) = T v ++ (vs.flatMap T ++ T post) := by
      rw [hv1 _ (Or.inr hrest), ih (fun w hw => hv w (by simp [hw])) false]
    cases first
    · simp only [joinTexts, Bool.false_eq_true, if_false, List.cons_append, List.nil_append, List.append_assoc,
        List.flatMap_cons]
      rw [T_comma, key]
    · simp only [joinTexts, if_true, List.nil_append, List.append_assoc, List.flatMap_cons]
      exact key

/-- a bracketed, comma-joined sequence of complete values is a complete value, with the expected tokens -/
theorem T_bracket (o c : Nat) (ho : isPunct o = true) (hc : isPunct c = true) (ho' : o ≠ 44) (hc' : c ≠ 44)
    (vs : List Str) (hv : ∀ v ∈ vs, ClosedT v) (w : Str) :
    T (o :: (joinTexts true vs ++ [c]) ++ w) = .punct o :: (vs.flatMap T ++ .punct c :: T w) := by
  have : o :: (joinTexts true vs ++ [c]) ++ w = o :: (joinTexts true vs ++ (c :: w)) := by simp
  rw [this, T_punct o _ ho ho', T_join vs hv true (c :: w) ⟨c, w, rfl, hc⟩, T_punct c _ hc hc']

theorem closedT_bracket (o c : Nat) (ho : isPunct o = true) (hc : isPunct c = true) (ho' : o ≠ 44) (hc' : c ≠ 44)
    (vs : List Str) (hv : ∀ v ∈ vs, ClosedT v) : ClosedT (o :: (joinTexts true vs ++ [c])) := by
  intro b _
  have h1 := T_bracket o c ho hc ho' hc' vs hv b
  have h2 := T_bracket o c ho hc ho' hc' vs hv []
  simp only [List.append_nil, T_nil] at h2
  rw [h1, h2]; simp

theorem closedT_kv (k : Str) (v : Str) (hv : ClosedT v) : ClosedT (quote k ++ (58 :: v)) := by
  intro b hb
  rw [List.append_assoc, T_quote, T_quote, List.cons_append, T_punct 58 _ (by decide) (by decide),
    T_punct 58 _ (by decide) (by decide), hv b hb]
  simp

theorem T_kv (k : Str) (v : Str) : T (quote k ++ (58 :: v)) = .str (escStr k) :: .punct 58 :: T v := by
  rw [T_quote, T_punct 58 _ (by decide) (by decide)]

theorem closedT_scalar (s : Scalar) (h : Scalar.litOK s = true) : ClosedT (scalarText s) := by
  cases s with
  | null => exact closedT_lit _ (by decide)
  | bool b => cases b <;> exact closedT_lit _ (by decide)
  | int i => exact closedT_lit _ (intStr_lit i)
  | float r =>
    simp only [Scalar.litOK, Bool.and_eq_true] at h
    exact closedT_lit _ (by simpa [scalarText] using h.1)
  | str s => exact closedT_quote s

/-- every tree (with well-formed float reprs) prints as a complete value -/
theorem closedT_jsonText : ∀ t, litOK t = true → ClosedT (jsonText t) := by
  apply treeInd
  · intro s h; simpa [jsonText] using closedT_scalar s (by simpa [litOK] using h)
  · intro cs ih h
    rw [jsonText, jsonList_join]
    apply closedT_bracket 91 93 (by decide) (by decide) (by decide) (by decide)
    intro v hv
    simp only [List.mem_map] at hv
    obtain ⟨c, hc, rfl⟩ := hv
    exact ih c hc ((litOKL_iff cs).1 (by simpa [litOK] using h) c hc)
  · intro kvs ih h
    rw [jsonText, jsonKVs_join]
    apply closedT_bracket 123 125 (by decide) (by decide) (by decide) (by decide)
    intro v hv
    simp only [List.mem_map] at hv
    obtain ⟨kv, hkv, rfl⟩ := hv
    exact closedT_kv _ _ (ih kv hkv ((litOKKV_iff kvs).1 (by simpa [litOK] using h) kv hkv))
  · intro kvs ih h
    rw [jsonText, jsonKVs_join]
    apply closedT_bracket 123 125 (by decide) (by decide) (by decide) (by decide)
    intro v hv
    simp only [List.mem_map] at hv
    obtain ⟨kv, hkv, rfl⟩ := hv
    exact closedT_kv _ _ (ih kv hkv ((litOKKV_iff kvs).1 (by simpa [litOK] using h) kv hkv))

theorem closedT_text (x : Item) (h : x.litOK = true) : ClosedT x.text := by
  cases x with
  | tree t => exact closedT_jsonText t h
  | kv k v => exact closedT_kv k _ (closedT_jsonText v h)

/-- the text of a sequence node in terms of its children's texts -/
theorem text_of_brackets (x : Item) (o c : Nat) (h : x.brackets = some (o, c)) :
    x.text = o :: (joinTexts true (x.children.map Item.text) ++ [c]) := by
  match x, h with
  | .tree (.list cs), h =>
    simp only [Item.brackets, Option.some.injEq, Prod.mk.injEq] at h
    obtain ⟨rfl, rfl⟩ := h
    simp [Item.text, jsonText, jsonList_join, Item.children, Function.comp_def]
  | .tree (.dict kvs), h =>
    simp only [Item.brackets, Option.some.injEq, Prod.mk.injEq] at h
    obtain ⟨rfl, rfl⟩ := h
    simp [Item.text, jsonText, jsonKVs_join, Item.children, Function.comp_def]
  | .tree (.fdict kvs), h =>
    simp only [Item.brackets, Option.some.injEq, Prod.mk.injEq] at h
    obtain ⟨rfl, rfl⟩ := h
    simp [Item.text, jsonText, jsonKVs_join, Item.children, Function.comp_def]

theorem brackets_punct (x : Item) (o c : Nat) (h : x.brackets = some (o, c)) :
    isPunct o = true ∧ isPunct c = true ∧ o ≠ 44 ∧ c ≠ 44 := by
  match x, h with
  | .tree (.list _), h | .tree (.dict _), h | .tree (.fdict _), h =>
    simp only [Item.brackets, Option.some.injEq, Prod.mk.injEq] at h
    obtain ⟨rfl, rfl⟩ := h
    decide

end GtModel.Render

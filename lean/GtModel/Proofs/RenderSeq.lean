/-
  The loop of `print_SequenceNode` with the to_remove / to_insert delimiter counters: whichever side is projected,
  two items that survive are always separated by a surviving comma (or the start symbol), so the tokens of the
  projection are the tokens of the surviving items, in script order.
-/
import GtModel.Proofs.RenderVal

namespace GtModel.Render
open GtModel

/-- the sub-edit does not show on this side at all (an insertion on the first side, a removal on the second) -/
def absent (side : Bool) (k : Kind) : Bool := if side then k == .insert else k == .remove

/-- the delimiter written before the item (`none` for the first item) -/
def delimM (k : Kind) (tr ti : Nat) (first : Bool) : Option Mark :=
  if first then none else some (delim (bump k tr ti).1 (bump k tr ti).2).1

/-- the counters after the item -/
def nextSt (k : Kind) (tr ti : Nat) (first : Bool) : Nat × Nat :=
  if first then bump k tr ti
  else ((delim (bump k tr ti).1 (bump k tr ti).2).2.1, (delim (bump k tr ti).1 (bump k tr ti).2).2.2)

def commaOut : Option Mark → Out
  | none => []
  | some m => [(44, m)]

theorem renderSubs_cons (fcs tcs : List Item) (tr ti : Nat) (first : Bool) (s : Script) (rest : List Script) :
    renderSubs fcs tcs tr ti first (s :: rest) =
      commaOut (delimM s.kind tr ti first) ++
      ((match resolve fcs tcs s with
        | some (x, y) => renderEdit true x y s
        | none => bad) ++
      renderSubs fcs tcs (nextSt s.kind tr ti first).1 (nextSt s.kind tr ti first).2 false rest) := by
  cases first <;> simp [renderSubs, delimM, nextSt, commaOut] <;> rfl

/-- does the delimiter survive on this side? -/
def commaKept (side : Bool) : Option Mark → Bool
  | none => false
  | some m => keepS side m

theorem proj_commaOut (side : Bool) (d : Option Mark) :
    proj (keepS side) (commaOut d) = if commaKept side d then [44] else [] := by
  cases d with
  | none => simp [commaOut, commaKept, proj_nil]
  | some m => by_cases h : keepS side m <;> simp [commaOut, commaKept, proj_cons, proj_nil, h]

/-- the invariant of the counters.  `fresh`: nothing has survived on this side since the start symbol.
    The counter of the OTHER side can only be non-zero while nothing of this side has been printed. -/
def Inv (side : Bool) (tr ti : Nat) (first fresh : Bool) : Prop :=
  tr ≤ 1 ∧ ti ≤ 1 ∧ (tr = 0 ∨ ti = 0) ∧ (first = true → fresh = true ∧ tr = 0 ∧ ti = 0) ∧
  ((if side then ti else tr) = 1 → fresh = true)

theorem step_facts (side : Bool) (k : Kind) (tr ti : Nat) (first fresh : Bool) (h : Inv side tr ti first fresh) :
    Inv side (nextSt k tr ti first).1 (nextSt k tr ti first).2 false (fresh && absent side k) ∧
    (absent side k = false → commaKept side (delimM k tr ti first) = false → fresh = true) := by
  obtain ⟨h1, h2, h3, h4, h5⟩ := h
  have htr : tr = 0 ∨ tr = 1 := by omega
  have hti : ti = 0 ∨ ti = 1 := by omega
  by_cases hr : k = .remove
  · subst hr
    rcases htr with rfl | rfl <;> rcases hti with rfl | rfl <;> cases side <;> cases first <;> cases fresh <;>
      simp_all [Inv, nextSt, delimM, bump, delim, commaKept, keepS, keepFrom, keepTo, absent, Nat.min_def]
  · by_cases hi : k = .insert
    · subst hi
      rcases htr with rfl | rfl <;> rcases hti with rfl | rfl <;> cases side <;> cases first <;> cases fresh <;>
        simp_all [Inv, nextSt, delimM, bump, delim, commaKept, keepS, keepFrom, keepTo, absent, Nat.min_def]
    · have e1 : (k == Kind.remove) = false := by simpa using hr
      have e2 : (k == Kind.insert) = false := by simpa using hi
      rcases htr with rfl | rfl <;> rcases hti with rfl | rfl <;> cases side <;> cases first <;> cases fresh <;>
        simp_all [Inv, nextSt, delimM, bump, delim, commaKept, keepS, keepFrom, keepTo, absent, Nat.min_def]

/-- the item of the chosen side that a sub-edit is about -/
def sideItem (side : Bool) (p : Item × Item) : Item := if side then p.1 else p.2

/-- the items that survive on this side, in script order -/
def sideItems (side : Bool) (fcs tcs : List Item) (subs : List Script) : List Item :=
  subs.filterMap fun s => if absent side s.kind then none else (resolve fcs tcs s).map (sideItem side)

/-- what the projection of one rendered item must satisfy -/
def ItemSpec (side : Bool) (fcs tcs : List Item) (s : Script) : Prop :=
  ∃ x y, resolve fcs tcs s = some (x, y) ∧
    (if absent side s.kind then proj (keepS side) (renderEdit true x y s) = []
     else ClosedT (proj (keepS side) (renderEdit true x y s)) ∧
       ∃ v', ValPerm v' (sideItem side (x, y)).val ∧ T (proj (keepS side) (renderEdit true x y s)) = v'.toks)

theorem startsPunct_comma (w : Str) : StartsPunct (44 :: w) := ⟨44, w, rfl, by decide⟩

theorem seq_lemma (side : Bool) (fcs tcs : List Item) (subs : List Script)
    (h : ∀ s ∈ subs, ItemSpec side fcs tcs s) :
    ∀ (tr ti : Nat) (first fresh : Bool), Inv side tr ti first fresh →
      ∃ vs, ValPermL vs ((sideItems side fcs tcs subs).map Item.val) ∧
        ∀ post : Str, StartsPunct post →
          (fresh = false → StartsPunct (proj (keepS side) (renderSubs fcs tcs tr ti first subs) ++ post)) ∧
          T (proj (keepS side) (renderSubs fcs tcs tr ti first subs) ++ post) = toksL vs ++ T post := by
  induction subs with
  | nil =>
    intro tr ti first fresh _
    refine ⟨[], by simpa [sideItems] using ValPermL.nil, ?_⟩
    intro post hpost
    simp only [renderSubs, proj_nil, List.nil_append]
    exact ⟨fun _ => hpost, by simp [toksL]⟩
  | cons s rest ih =>
    intro tr ti first fresh hinv
    obtain ⟨x, y, hres, hspec⟩ := h s (by simp)
    obtain ⟨hinv', hfresh⟩ := step_facts side s.kind tr ti first fresh hinv
    obtain ⟨vs, hvs, ihP⟩ := ih (fun s hs => h s (by simp [hs])) _ _ false _ hinv'
    rw [renderSubs_cons, hres]
    simp only [proj_append, proj_commaOut, List.append_assoc]
    generalize hR : proj (keepS side) (renderSubs fcs tcs (nextSt s.kind tr ti first).1
      (nextSt s.kind tr ti first).2 false rest) = R at ihP
    generalize hV : proj (keepS side) (renderEdit true x y s) = V at hspec
    by_cases habs : absent side s.kind = true
    · -- nothing of the item survives
      simp only [habs, if_true] at hspec
      subst hspec
      have hitems : sideItems side fcs tcs (s :: rest) = sideItems side fcs tcs rest := by
        simp [sideItems, habs]
      rw [hitems]
      simp only [habs, Bool.and_true] at ihP
      refine ⟨vs, hvs, ?_⟩
      intro post hpost
      obtain ⟨ihS, ihT⟩ := ihP post hpost
      by_cases hk : commaKept side (delimM s.kind tr ti first) = true
      · simp only [hk, if_true, List.nil_append, List.cons_append]
        exact ⟨fun _ => startsPunct_comma _, by rw [T_comma]; exact ihT⟩
      · simp only [hk, Bool.false_eq_true, if_false, List.nil_append]
        exact ⟨ihS, ihT⟩
    · simp only [habs, Bool.false_eq_true, if_false] at hspec
      obtain ⟨hclosed, v', hv', hTV⟩ := hspec
      have habs' : absent side s.kind = false := by simpa using habs
      have hitems : sideItems side fcs tcs (s :: rest) = sideItem side (x, y) :: sideItems side fcs tcs rest := by
        simp [sideItems, habs', hres]
      rw [hitems]
      simp only [habs', Bool.and_false] at ihP
      have hsim : ValPermL (v' :: vs) ((sideItem side (x, y) :: sideItems side fcs tcs rest).map Item.val) := by
        simpa using ValPermL.cons hv' hvs
      refine ⟨v' :: vs, hsim, ?_⟩
      intro post hpost
      obtain ⟨ihS, ihT⟩ := ihP post hpost
      have hRp : StartsPunct (R ++ post) := by simpa using ihS
      have hsplit : T (V ++ (R ++ post)) = toksL (v' :: vs) ++ T post := by
        rw [hclosed _ (Or.inr hRp), ihT, hTV]; simp [toksL]
      by_cases hk : commaKept side (delimM s.kind tr ti first) = true
      · simp only [hk, if_true, List.cons_append, List.nil_append]
        exact ⟨fun _ => startsPunct_comma _, by rw [T_comma]; exact hsplit⟩
      · simp only [hk, Bool.false_eq_true, if_false, List.nil_append]
        have hf : fresh = true := hfresh habs' (by simpa using hk)
        exact ⟨fun hc => (by rw [hf] at hc; cases hc), hsplit⟩

/-- the whole `print_SequenceNode`: start symbol, loop, end symbol -/
theorem seq_node (side : Bool) (x y : Item) (o c : Nat) (hb : x.brackets = some (o, c)) (subs : List Script)
    (h : ∀ s ∈ subs, ItemSpec side x.children y.children s) :
    ClosedT (proj (keepS side) (seqWrap x (renderSubs x.children y.children 0 0 true subs))) ∧
    ∃ vs, ValPermL vs ((sideItems side x.children y.children subs).map Item.val) ∧
      T (proj (keepS side) (seqWrap x (renderSubs x.children y.children 0 0 true subs))) = (Val.seq o c vs).toks := by
  obtain ⟨ho, hc, ho', hc'⟩ := brackets_punct x o c hb
  have hk : keepS side .plain = true := by cases side <;> rfl
  have hinv : Inv side 0 0 true true := by simp [Inv]
  obtain ⟨vs, hvs, hP⟩ := seq_lemma side x.children y.children subs h 0 0 true true hinv
  have key : ∀ w, T (proj (keepS side) (seqWrap x (renderSubs x.children y.children 0 0 true subs)) ++ w) =
        .punct o :: (toksL vs ++ .punct c :: T w) := by
    intro w
    obtain ⟨_, hT⟩ := hP (c :: w) ⟨c, w, rfl, hc⟩
    simp only [seqWrap, hb, proj_cons, proj_append, hk, if_true, proj_nil, List.append_nil, List.cons_append,
      List.nil_append, List.append_assoc]
    rw [T_punct o _ ho ho', hT, T_punct c _ hc hc']
  have h0 := key []
  simp only [List.append_nil, T_nil] at h0
  constructor
  · intro b _
    rw [key b, h0]; simp
  · exact ⟨vs, hvs, by rw [h0]; simp [Val.toks]⟩

end GtModel.Render

/-
  A JSON tokenizer over code points (strings as single tokens, punctuation, maximal runs of other characters as
  literals), `dropCommas`, and the three facts about it that the projection proofs use:
    * `tokens_punct`   a punctuation character in front is its own token
    * `closedT_quote`  a quoted, `json.dumps`-escaped string is one token, whatever follows
    * `closedT_lit`    a run of literal characters is one token if punctuation (or nothing) follows
-/
import GtModel.Model.Render

namespace GtModel.Render
open GtModel

inductive Tok where
  | str (body : List Nat)     -- the escaped text between the quotes
  | punct (c : Nat)
  | lit (cs : List Nat)
deriving DecidableEq, Repr

/-- `[ ] { } : ,` -/
def isPunct (c : Nat) : Bool := c == 91 || c == 93 || c == 123 || c == 125 || c == 58 || c == 44

/-- a character that can be part of a literal (number, true, false, null) -/
def litChar (c : Nat) : Bool := !isPunct c && c != 34

inductive TS where
  | out
  | lit (acc : List Nat)
  | str (acc : List Nat) (esc : Bool)

def step : TS → Nat → List Tok × TS
  | .out, c =>
      if c == 34 then ([], .str [] false) else if isPunct c then ([.punct c], .out) else ([], .lit [c])
  | .lit acc, c =>
      if c == 34 then ([.lit acc], .str [] false)
      else if isPunct c then ([.lit acc, .punct c], .out) else ([], .lit (acc ++ [c]))
  | .str acc esc, c =>
      if esc then ([], .str (acc ++ [c]) false)
      else if c == 92 then ([], .str (acc ++ [c]) true)
      else if c == 34 then ([.str acc], .out)
      else ([], .str (acc ++ [c]) false)

/-- what is emitted at the end of the text (an unterminated string is emitted as it stands) -/
def flush : TS → List Tok
  | .out => []
  | .lit acc => [.lit acc]
  | .str acc _ => [.str acc]

def run : TS → List Nat → List Tok
  | st, [] => flush st
  | st, c :: cs => (step st c).1 ++ run (step st c).2 cs

def tokens (x : List Nat) : List Tok := run .out x

def dropCommas (l : List Tok) : List Tok := l.filter (fun t => t != .punct 44)

/-- tokens with the separators ignored -/
def T (x : List Nat) : List Tok := dropCommas (tokens x)

theorem dropCommas_append (a b : List Tok) : dropCommas (a ++ b) = dropCommas a ++ dropCommas b := by
  simp [dropCommas]

/-! ### punctuation -/

theorem tokens_punct (p : Nat) (w : List Nat) (hp : isPunct p = true) : tokens (p :: w) = .punct p :: tokens w := by
  have h34 : (p == 34) = false := by
    simp only [isPunct, Bool.or_eq_true, beq_iff_eq] at hp
    simp only [beq_eq_false_iff_ne]; omega
  simp [tokens, run, step, h34, hp]

theorem T_comma (w : List Nat) : T (44 :: w) = T w := by
  simp [T, tokens_punct 44 w (by decide), dropCommas]

theorem T_punct (p : Nat) (w : List Nat) (hp : isPunct p = true) (h : p ≠ 44) : T (p :: w) = .punct p :: T w := by
  simp [T, tokens_punct p w hp, dropCommas, h]

/-- `b` is empty or starts with a punctuation character -/
def StartsPunct (b : List Nat) : Prop := ∃ p rest, b = p :: rest ∧ isPunct p = true

/-- the text is a complete value: followed by punctuation or by nothing, its tokens do not depend on what follows -/
def ClosedT (v : List Nat) : Prop := ∀ b, (b = [] ∨ StartsPunct b) → T (v ++ b) = T v ++ T b

theorem T_nil : T [] = [] := rfl

theorem closedT_nil : ClosedT [] := by intro b _; simp [T_nil]

/-! ### literals -/

theorem run_lit (acc v : List Nat) (hv : v.all litChar = true) (p : Nat) (rest : List Nat) (hp : isPunct p = true) :
    run (.lit acc) (v ++ p :: rest) = .lit (acc ++ v) :: .punct p :: tokens rest := by
  induction v generalizing acc with
  | nil =>
    have h34 : (p == 34) = false := by
      simp only [isPunct, Bool.or_eq_true, beq_iff_eq] at hp
      simp only [beq_eq_false_iff_ne]; omega
    simp [run, step, h34, hp, tokens]
  | cons c v ih =>
    simp only [List.all_cons, Bool.and_eq_true, litChar, Bool.not_eq_true', bne_iff_ne, ne_eq] at hv
    have h34 : (c == 34) = false := by simp [hv.1.2]
    simp only [List.cons_append, run, step, h34, hv.1.1, Bool.false_eq_true, if_false, List.nil_append]
    rw [ih _ hv.2]; simp

theorem run_lit_end (acc v : List Nat) (hv : v.all litChar = true) : run (.lit acc) v = [.lit (acc ++ v)] := by
  induction v generalizing acc with
  | nil => simp [run, flush]
  | cons c v ih =>
    simp only [List.all_cons, Bool.and_eq_true, litChar, Bool.not_eq_true', bne_iff_ne, ne_eq] at hv
    have h34 : (c == 34) = false := by simp [hv.1.2]
    simp only [run, step, h34, hv.1.1, Bool.false_eq_true, if_false, List.nil_append]
    rw [ih _ hv.2]; simp

theorem tokens_lit (v : List Nat) (hv : v.all litChar = true) (hne : v ≠ []) : tokens v = [.lit v] := by
  cases v with
  | nil => exact absurd rfl hne
  | cons c v =>
    simp only [List.all_cons, Bool.and_eq_true, litChar, Bool.not_eq_true', bne_iff_ne, ne_eq] at hv
    have h34 : (c == 34) = false := by simp [hv.1.2]
    simp only [tokens, run, step, h34, hv.1.1, Bool.false_eq_true, if_false, List.nil_append]
    rw [run_lit_end _ _ hv.2]; simp

theorem tokens_lit_punct (v : List Nat) (hv : v.all litChar = true) (hne : v ≠ []) (p : Nat) (rest : List Nat)
    (hp : isPunct p = true) : tokens (v ++ p :: rest) = .lit v :: .punct p :: tokens rest := by
  cases v with
  | nil => exact absurd rfl hne
  | cons c v =>
    simp only [List.all_cons, Bool.and_eq_true, litChar, Bool.not_eq_true', bne_iff_ne, ne_eq] at hv
    have h34 : (c == 34) = false := by simp [hv.1.2]
    simp only [List.cons_append, tokens, run, step, h34, hv.1.1, Bool.false_eq_true, if_false, List.nil_append]
    rw [run_lit _ _ hv.2 _ _ hp]; simp [tokens]

/-- a run of literal characters is a complete value -/
theorem closedT_lit (v : List Nat) (hv : v.all litChar = true) : ClosedT v := by
  intro b hb
  by_cases hne : v = []
  · subst hne; simp [T_nil]
  rcases hb with rfl | ⟨p, rest, rfl, hp⟩
  · simp [T_nil]
  · simp only [T, tokens_lit_punct v hv hne p rest hp, tokens_lit v hv hne, tokens_punct p rest hp]
    simp [dropCommas]

/-! ### strings -/

theorem hexDigit_ok (n : Nat) : hexDigit (n % 16) ≠ 34 ∧ hexDigit (n % 16) ≠ 92 := by
  unfold hexDigit; split <;> omega

theorem run_str_plain (acc : List Nat) (c : Nat) (w : List Nat) (h1 : c ≠ 34) (h2 : c ≠ 92) :
    run (.str acc false) (c :: w) = run (.str (acc ++ [c]) false) w := by
  simp [run, step, h1, h2]

theorem run_str_esc (acc : List Nat) (c : Nat) (w : List Nat) :
    run (.str acc false) (92 :: c :: w) = run (.str (acc ++ [92, c]) false) w := by
  simp [run, step]

theorem run_hex4 (acc : List Nat) (n : Nat) (w : List Nat) :
    run (.str acc false) (hex4 n ++ w) = run (.str (acc ++ hex4 n) false) w := by
  have h1 := hexDigit_ok (n / 4096)
  have h2 := hexDigit_ok (n / 256)
  have h3 := hexDigit_ok (n / 16)
  have h4 := hexDigit_ok n
  simp only [hex4, List.cons_append, List.nil_append]
  rw [run_str_esc, run_str_plain _ _ _ h1.1 h1.2, run_str_plain _ _ _ h2.1 h2.2, run_str_plain _ _ _ h3.1 h3.2,
    run_str_plain _ _ _ h4.1 h4.2]
  simp

/-- one escaped character never closes the string and never leaves an escape pending -/
theorem run_escChar (acc : List Nat) (c : Nat) (w : List Nat) :
    run (.str acc false) (escChar c ++ w) = run (.str (acc ++ escChar c) false) w := by
  unfold escChar
  split
  · exact run_str_esc _ _ _
  split
  · exact run_str_esc _ _ _
  split
  · exact run_str_esc _ _ _
  split
  · exact run_str_esc _ _ _
  split
  · exact run_str_esc _ _ _
  split
  · exact run_str_esc _ _ _
  split
  · exact run_str_esc _ _ _
  split
  · rename_i h1 h2 _ _ _ _ _ _
    simp only [beq_iff_eq] at h1 h2
    exact run_str_plain _ _ _ h1 h2
  split
  · exact run_hex4 _ _ _
  · rw [List.append_assoc, run_hex4, run_hex4]; simp

theorem run_escStr (acc s w : List Nat) :
    run (.str acc false) (escStr s ++ w) = run (.str (acc ++ escStr s) false) w := by
  induction s generalizing acc with
  | nil => simp [escStr]
  | cons c s ih =>
    have : escStr (c :: s) = escChar c ++ escStr s := by simp [escStr]
    rw [this, List.append_assoc, run_escChar, ih]; simp

/-- a quoted escaped string is exactly one token, whatever follows -/
theorem tokens_quote (s w : List Nat) : tokens (quote s ++ w) = .str (escStr s) :: tokens w := by
  simp only [quote, tokens, List.cons_append, List.append_assoc, List.nil_append]
  rw [show run .out (34 :: (escStr s ++ (34 :: w))) = run (.str [] false) (escStr s ++ 34 :: w) by simp [run, step]]
  rw [run_escStr]
  simp [run, step]

theorem T_quote (s w : List Nat) : T (quote s ++ w) = .str (escStr s) :: T w := by
  simp [T, tokens_quote, dropCommas]

theorem closedT_quote (s : List Nat) : ClosedT (quote s) := by
  intro b _
  have := T_quote s []
  simp only [List.append_nil, T_nil] at this
  rw [T_quote, this]; rfl

/-- a complete value followed by a complete value that starts with punctuation -/
theorem ClosedT.append {a b : List Nat} (ha : ClosedT a) (hb : ClosedT b) (hs : b = [] ∨ StartsPunct b) :
    ClosedT (a ++ b) := by
  intro c hc
  rcases hs with rfl | hs
  · simpa using ha c hc
  · have hbc : StartsPunct (b ++ c) := by
      obtain ⟨p, rest, rfl, hp⟩ := hs
      exact ⟨p, rest ++ c, rfl, hp⟩
    rw [List.append_assoc, ha _ (Or.inr hbc), hb c hc, ha b (Or.inr hs), List.append_assoc]

end GtModel.Render

/-
  JSON values as token trees (`Val`), "equal up to the order of object members and node-equal subtrees" (`ValPerm`),
  and the projections of a rendered string edit.
-/
import GtModel.Proofs.RenderPlain

namespace GtModel.Render
open GtModel

/-! ### values -/

/-- a JSON value seen through its tokens: an atom (number, literal, string), a key/value member, or a bracketed
    sequence of values -/
inductive Val where
  | atom (toks : List Tok)
  | pair (k : Str) (v : Val)
  | seq (o c : Nat) (items : List Val)

mutual
/-- the comma-less token list of a value -/
def Val.toks : Val → List Tok
  | .atom ts => ts
  | .pair k v => .str (escStr k) :: .punct 58 :: v.toks
  | .seq o c items => .punct o :: (toksL items ++ [.punct c])
def toksL : List Val → List Tok
  | [] => []
  | v :: vs => v.toks ++ toksL vs
end

theorem toksL_eq (vs : List Val) : toksL vs = vs.flatMap Val.toks := by
  induction vs with
  | nil => rfl
  | cons v vs ih => simp [toksL, ih]

theorem toksL_append (a b : List Val) : toksL (a ++ b) = toksL a ++ toksL b := by
  simp [toksL_eq]

mutual
def treeVal : Tree → Val
  | .leaf s => .atom (T (scalarText s))
  | .list cs => .seq 91 93 (valL cs)
  | .dict kvs => .seq 123 125 (valKV kvs)
  | .fdict kvs => .seq 123 125 (valKV kvs)
def valL : List Tree → List Val
  | [] => []
  | c :: cs => treeVal c :: valL cs
def valKV : List (Str × Tree) → List Val
  | [] => []
  | (k, v) :: rest => .pair k (treeVal v) :: valKV rest
end

def Item.val : Item → Val
  | .tree t => treeVal t
  | .kv k v => .pair k (treeVal v)

theorem valL_eq (cs : List Tree) : valL cs = cs.map treeVal := by
  induction cs with
  | nil => rfl
  | cons c cs ih => simp [valL, ih]

theorem valKV_eq (kvs : List (Str × Tree)) : valKV kvs = kvs.map fun kv => Val.pair kv.1 (treeVal kv.2) := by
  induction kvs with
  | nil => rfl
  | cons kv kvs ih => obtain ⟨k, v⟩ := kv; simp [valKV, ih]

/-- the value of a sequence node in terms of its children -/
theorem val_of_brackets (x : Item) (o c : Nat) (h : x.brackets = some (o, c)) :
    x.val = .seq o c (x.children.map Item.val) := by
  match x, h with
  | .tree (.list cs), h =>
    simp only [Item.brackets, Option.some.injEq, Prod.mk.injEq] at h
    obtain ⟨rfl, rfl⟩ := h
    simp [Item.val, treeVal, valL_eq, Item.children, Function.comp_def]
  | .tree (.dict kvs), h =>
    simp only [Item.brackets, Option.some.injEq, Prod.mk.injEq] at h
    obtain ⟨rfl, rfl⟩ := h
    simp [Item.val, treeVal, valKV_eq, Item.children, Function.comp_def]
  | .tree (.fdict kvs), h =>
    simp only [Item.brackets, Option.some.injEq, Prod.mk.injEq] at h
    obtain ⟨rfl, rfl⟩ := h
    simp [Item.val, treeVal, valKV_eq, Item.children, Function.comp_def]

theorem flatMap_congr' {α β : Type} (l : List α) (f g : α → List β) (h : ∀ x ∈ l, f x = g x) :
    l.flatMap f = l.flatMap g := by
  induction l with
  | nil => rfl
  | cons a l ih => simp [List.flatMap_cons, h a (by simp), ih (fun x hx => h x (by simp [hx]))]

/-- the tokens of a printed tree are the tokens of its value -/
theorem T_jsonText : ∀ t, litOK t = true → T (jsonText t) = (treeVal t).toks := by
  apply treeInd
  · intro s _; simp [jsonText, treeVal, Val.toks]
  · intro cs ih h
    have hl := (litOKL_iff cs).1 (by simpa [litOK] using h)
    rw [jsonText, jsonList_join]
    have := T_bracket 91 93 (by decide) (by decide) (by decide) (by decide) (cs.map jsonText)
      (by intro v hv; simp only [List.mem_map] at hv; obtain ⟨c, hc, rfl⟩ := hv; exact closedT_jsonText c (hl c hc)) []
    simp only [List.append_nil, T_nil] at this
    rw [this, treeVal, Val.toks, toksL_eq, valL_eq]
    simp only [List.flatMap_map, List.cons.injEq, true_and, List.append_cancel_right_eq]
    apply flatMap_congr'
    intro c hc; exact ih c hc (hl c hc)
  · intro kvs ih h
    have hl := (litOKKV_iff kvs).1 (by simpa [litOK] using h)
    rw [jsonText, jsonKVs_join]
    have := T_bracket 123 125 (by decide) (by decide) (by decide) (by decide)
      (kvs.map fun kv => (Item.kv kv.1 kv.2).text)
      (by intro v hv; simp only [List.mem_map] at hv; obtain ⟨c, hc, rfl⟩ := hv
          exact closedT_kv _ _ (closedT_jsonText c.2 (hl c hc))) []
    simp only [List.append_nil, T_nil] at this
    rw [this, treeVal, Val.toks, toksL_eq, valKV_eq]
    simp only [List.flatMap_map, List.cons.injEq, true_and, List.append_cancel_right_eq]
    apply flatMap_congr'
    intro c hc
    simp only [Item.text, T_kv, Val.toks, ih c hc (hl c hc)]
  · intro kvs ih h
    have hl := (litOKKV_iff kvs).1 (by simpa [litOK] using h)
    rw [jsonText, jsonKVs_join]
    have := T_bracket 123 125 (by decide) (by decide) (by decide) (by decide)
      (kvs.map fun kv => (Item.kv kv.1 kv.2).text)
      (by intro v hv; simp only [List.mem_map] at hv; obtain ⟨c, hc, rfl⟩ := hv
          exact closedT_kv _ _ (closedT_jsonText c.2 (hl c hc))) []
    simp only [List.append_nil, T_nil] at this
    rw [this, treeVal, Val.toks, toksL_eq, valKV_eq]
    simp only [List.flatMap_map, List.cons.injEq, true_and, List.append_cancel_right_eq]
    apply flatMap_congr'
    intro c hc
    simp only [Item.text, T_kv, Val.toks, ih c hc (hl c hc)]

theorem T_text (x : Item) (h : x.litOK = true) : T x.text = x.val.toks := by
  cases x with
  | tree t => exact T_jsonText t h
  | kv k v => simp only [Item.text, T_kv, Item.val, Val.toks, T_jsonText v h]

/-! ### equality up to the order of object members -/

mutual
/-- `ValPerm v w`: the JSON values `v` and `w` are equal up to the ORDER of the members of objects, recursively:
    the least equivalence relation that is a congruence for key/value members (same key), for lists (element-wise,
    in order) and for objects (`{`…`}`: element-wise after a permutation of the members).  Nothing else is
    identified: atoms (numbers, literals, strings) are related only to themselves (`ValPerm.toks_perm`: related
    values have the same multiset of tokens; `ValPerm.atom_eq`). -/
inductive ValPerm : Val → Val → Prop
  | refl (v : Val) : ValPerm v v
  | symm {a b : Val} : ValPerm a b → ValPerm b a
  | trans {a b c : Val} : ValPerm a b → ValPerm b c → ValPerm a c
  | pair {k : Str} {v w : Val} : ValPerm v w → ValPerm (.pair k v) (.pair k w)
  | list {as bs : List Val} : ValPermL as bs → ValPerm (.seq 91 93 as) (.seq 91 93 bs)
  | map {as bs : List Val} : ValPermP as bs → ValPerm (.seq 123 125 as) (.seq 123 125 bs)
/-- element-wise -/
inductive ValPermL : List Val → List Val → Prop
  | nil : ValPermL [] []
  | cons {a b : Val} {as bs : List Val} : ValPerm a b → ValPermL as bs → ValPermL (a :: as) (b :: bs)
/-- element-wise after a permutation -/
inductive ValPermP : List Val → List Val → Prop
  | nil : ValPermP [] []
  | cons {a b : Val} {as bs : List Val} : ValPerm a b → ValPermP as bs → ValPermP (a :: as) (b :: bs)
  | permL {as cs bs : List Val} : as.Perm cs → ValPermP cs bs → ValPermP as bs
  | permR {as cs bs : List Val} : ValPermP as cs → cs.Perm bs → ValPermP as bs
  | trans {as bs cs : List Val} : ValPermP as bs → ValPermP bs cs → ValPermP as cs
end

theorem ValPermL.refl' : ∀ l : List Val, ValPermL l l
  | [] => .nil
  | v :: vs => .cons (.refl v) (ValPermL.refl' vs)

theorem ValPermP.ofL {as bs : List Val} (h : ValPermL as bs) : ValPermP as bs := by
  induction as generalizing bs with
  | nil => cases h; exact .nil
  | cons a as ih => cases h with | cons h1 h2 => exact .cons h1 (ih h2)

theorem ValPermL.append {a b c d : List Val} (h1 : ValPermL a b) (h2 : ValPermL c d) : ValPermL (a ++ c) (b ++ d) := by
  induction a generalizing b with
  | nil => cases h1; simpa using h2
  | cons x a ih => cases h1 with | cons hx ha => exact .cons hx (ih ha)

theorem ValPermL.trans' {a b c : List Val} (h1 : ValPermL a b) (h2 : ValPermL b c) : ValPermL a c := by
  induction a generalizing b c with
  | nil => cases h1; exact h2
  | cons x a ih =>
    cases h1 with
    | cons hx ha => cases h2 with | cons hy hb => exact .cons (.trans hx hy) (ih ha hb)

/-! ### what `ValPerm` cannot identify -/

mutual
/-- related values have the same multiset of tokens -/
theorem ValPerm.toks_perm : ∀ {v w : Val}, ValPerm v w → v.toks.Perm w.toks
  | _, _, .refl _ => List.Perm.refl _
  | _, _, .symm h => (ValPerm.toks_perm h).symm
  | _, _, .trans h1 h2 => (ValPerm.toks_perm h1).trans (ValPerm.toks_perm h2)
  | _, _, .pair h => by simp only [Val.toks]; exact ((ValPerm.toks_perm h).cons _).cons _
  | _, _, .list h => by simp only [Val.toks]; exact ((ValPermL.toks_perm h).append_right _).cons _
  | _, _, .map h => by simp only [Val.toks]; exact ((ValPermP.toks_perm h).append_right _).cons _
theorem ValPermL.toks_perm : ∀ {as bs : List Val}, ValPermL as bs → (toksL as).Perm (toksL bs)
  | _, _, .nil => List.Perm.refl _
  | _, _, .cons h hs => by simp only [toksL]; exact (ValPerm.toks_perm h).append (ValPermL.toks_perm hs)
theorem ValPermP.toks_perm : ∀ {as bs : List Val}, ValPermP as bs → (toksL as).Perm (toksL bs)
  | _, _, .nil => List.Perm.refl _
  | _, _, .cons h hs => by simp only [toksL]; exact (ValPerm.toks_perm h).append (ValPermP.toks_perm hs)
  | _, _, .permL p h => by
      have := ValPermP.toks_perm h
      rw [toksL_eq] at this ⊢
      exact (p.flatMap_right _).trans this
  | _, _, .permR h p => by
      have := ValPermP.toks_perm h
      rw [toksL_eq, toksL_eq] at this ⊢
      exact this.trans (p.flatMap_right _)
  | _, _, .trans h1 h2 => (ValPermP.toks_perm h1).trans (ValPermP.toks_perm h2)
end

/-- an atom (number, literal, string) is related to itself only -/
theorem ValPerm.atom_eq : ∀ {v w : Val}, ValPerm v w →
    (∀ ts, v = .atom ts → w = .atom ts) ∧ (∀ ts, w = .atom ts → v = .atom ts)
  | _, _, .refl _ => ⟨fun _ h => h, fun _ h => h⟩
  | _, _, .symm h => ⟨(ValPerm.atom_eq h).2, (ValPerm.atom_eq h).1⟩
  | _, _, .trans h1 h2 =>
      ⟨fun ts h => (ValPerm.atom_eq h2).1 ts ((ValPerm.atom_eq h1).1 ts h),
       fun ts h => (ValPerm.atom_eq h1).2 ts ((ValPerm.atom_eq h2).2 ts h)⟩
  | _, _, .pair _ => ⟨fun _ h => (by cases h), fun _ h => (by cases h)⟩
  | _, _, .list _ => ⟨fun _ h => (by cases h), fun _ h => (by cases h)⟩
  | _, _, .map _ => ⟨fun _ h => (by cases h), fun _ h => (by cases h)⟩

/-! ### strings -/

theorem escStr_append (a b : Str) : escStr (a ++ b) = escStr a ++ escStr b := by simp [escStr]
theorem escStr_single (c : Nat) : escStr [c] = escChar c := by simp [escStr]
theorem escStr_nil : escStr [] = [] := rfl

/-- the character a sub-edit contributes to the first (`side = true`) / second string -/
def CharEd.side (side : Bool) : CharEd → Option Nat
  | .keep c => some c
  | .sub r d => some (if side then r else d)
  | .rem r => if side then some r else none
  | .ins d => if side then none else some d

/-- the text of the chosen side after the buffers are flushed -/
def stVal (side : Bool) (st : StrSt) : Str :=
  proj (keepS side) st.out ++ escStr (if side then st.remSeq else st.addSeq)

theorem proj_flushSt (side : Bool) (st : StrSt) : proj (keepS side) (flushSt st) = stVal side st := by
  cases side <;> simp [flushSt, stVal, proj_append, proj_mk, keepS, keepFrom, keepTo]

theorem stVal_step (side : Bool) (st : StrSt) (e : CharEd) :
    stVal side (strStepC st e) = stVal side st ++ escStr (e.side side).toList := by
  cases e with
  | keep c =>
    have hk : keepS side .plain = true := by cases side <;> rfl
    simp only [strStepC, stVal, proj_append, proj_flushSt, proj_mk, hk, if_true, CharEd.side]
    cases side <;> simp [stVal, escStr_single, escStr_nil]
  | sub r d =>
    cases side <;> simp [strStepC, stVal, CharEd.side, escStr_append, escStr_single]
  | rem r =>
    cases side <;> simp [strStepC, stVal, proj_flushSt, CharEd.side, escStr_single, escStr_nil]
  | ins d =>
    cases side <;> simp [strStepC, stVal, proj_flushSt, CharEd.side, escStr_single, escStr_nil]

/-- every sub-edit of the string edit names existing characters -/
def StrResolved (a b : Str) (subs : List Script) : Prop := ∀ s ∈ subs, ∃ e, classifyChar a b s = some e

/-- the characters one side keeps, in script order -/
def sideChars (side : Bool) (a b : Str) (subs : List Script) : Str :=
  subs.filterMap fun s => (classifyChar a b s).bind (CharEd.side side)

theorem foldl_strStep (side : Bool) (a b : Str) (subs : List Script) (h : StrResolved a b subs) (st : StrSt) :
    ∃ st', subs.foldl (strStep a b) (some st) = some st' ∧
      stVal side st' = stVal side st ++ escStr (sideChars side a b subs) := by
  induction subs generalizing st with
  | nil => exact ⟨st, rfl, by simp [sideChars, escStr_nil]⟩
  | cons s rest ih =>
    obtain ⟨e, he⟩ := h s (by simp)
    obtain ⟨st', h1, h2⟩ := ih (fun s hs => h s (by simp [hs])) (strStepC st e)
    refine ⟨st', by simp [List.foldl, strStep, he, h1], ?_⟩
    rw [h2, stVal_step]
    cases hs : e.side side <;> simp [sideChars, he, hs, escStr_append, escStr_nil, escStr_single, escStr]

/-- deleting the inserted (removed) characters of a rendered string edit leaves the escaped text of the
    characters the script keeps on that side -/
theorem proj_strBody (side : Bool) (a b : Str) (subs : List Script) (h : StrResolved a b subs) :
    proj (keepS side) (strBody a b subs) = escStr (sideChars side a b subs) := by
  obtain ⟨st', h1, h2⟩ := foldl_strStep side a b subs h {}
  simp only [strBody, h1, proj_flushSt, h2]
  simp [stVal, proj_nil, escStr_nil]

theorem proj_strOut (side : Bool) (a b : Str) (subs : List Script) (h : StrResolved a b subs) :
    proj (keepS side) (strOut a b subs) = quote (sideChars side a b subs) := by
  have hk : keepS side .plain = true := by cases side <;> rfl
  simp [strOut, proj_cons, proj_append, hk, proj_strBody side a b subs h, quote, proj_nil]

end GtModel.Render

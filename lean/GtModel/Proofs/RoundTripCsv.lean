/-
  Lemmas for C12 (CSV): the `_csv.c` reader state machine applied to what the CSV formatter wrote.
-/
import GtModel.Model.RoundTrip

namespace GtModel.RoundTrip

/-- characters that do not force quoting -/
def plain (c : Nat) : Bool := !(c = 44 || c = 34 || c = 13 || c = 10)

theorem needsQuote_false (cell : Str) (h : needsQuote cell = false) :
    cell ≠ [] ∧ ∀ c ∈ cell, plain c = true := by
  simp [needsQuote] at h
  refine ⟨h.1, fun c hc => ?_⟩
  have := h.2 c hc
  simp [plain]; omega

/-- unquoted field: plain characters are appended -/
theorem plainRun (cs : Str) : ∀ (fld : Str) (flds : List Str) (rows : List (List Str)),
    (∀ c ∈ cs, plain c = true) →
    cs.foldl Csv.feed ⟨.inField, fld, flds, rows, false⟩ = ⟨.inField, cs.reverse ++ fld, flds, rows, false⟩ := by
  induction cs with
  | nil => intros; rfl
  | cons c t ih =>
    intro fld flds rows h
    have hc := h c (by simp)
    simp [plain] at hc
    have := ih (c :: fld) flds rows (fun x hx => h x (by simp [hx]))
    simp only [List.foldl_cons]
    have hstep : Csv.feed ⟨.inField, fld, flds, rows, false⟩ c = ⟨.inField, c :: fld, flds, rows, false⟩ := by
      simp [Csv.feed, Csv.step, Csv.addChar, hc]
    rw [hstep, this]; simp

/-- quoted field: everything is appended, a doubled quote gives one quote -/
theorem quotedRun (cell : Str) : ∀ (fld : Str) (flds : List Str) (rows : List (List Str)),
    (doubleQuotes cell).foldl Csv.feed ⟨.inQuoted, fld, flds, rows, false⟩
      = ⟨.inQuoted, cell.reverse ++ fld, flds, rows, false⟩ := by
  induction cell with
  | nil => intros; rfl
  | cons c t ih =>
    intro fld flds rows
    have := ih (c :: fld) flds rows
    by_cases hq : c = 34
    · subst hq
      simp only [doubleQuotes, if_true, List.foldl_cons]
      have h1 : Csv.feed ⟨.inQuoted, fld, flds, rows, false⟩ 34 = ⟨.quoteInQuoted, fld, flds, rows, false⟩ := by
        simp [Csv.feed, Csv.step]
      have h2 : Csv.feed ⟨.quoteInQuoted, fld, flds, rows, false⟩ 34 = ⟨.inQuoted, 34 :: fld, flds, rows, false⟩ := by
        simp [Csv.feed, Csv.step, Csv.addChar]
      rw [h1, h2, this]; simp
    · simp only [doubleQuotes, hq, if_false, List.foldl_cons]
      have h1 : Csv.feed ⟨.inQuoted, fld, flds, rows, false⟩ c = ⟨.inQuoted, c :: fld, flds, rows, false⟩ := by
        by_cases hn : c = 10
        · subst hn; simp [Csv.feed, Csv.step, Csv.addChar, Csv.eol]
        · simp [Csv.feed, Csv.step, Csv.addChar, hq, hn]
      rw [h1, this]; simp

/-- the two states in which a field may begin -/
def fieldStart (st : CsvState) : Prop := st = .startRecord ∨ st = .startField

/-- state after a whole printed cell -/
def afterCell (cell : Str) : CsvState := if needsQuote cell then .quoteInQuoted else .inField

theorem cellRun (cell : Str) (st : CsvState) (hst : fieldStart st) (flds : List Str) (rows : List (List Str)) :
    (printCell cell).foldl Csv.feed ⟨st, [], flds, rows, false⟩ = ⟨afterCell cell, cell.reverse, flds, rows, false⟩ := by
  by_cases hq : needsQuote cell = true
  · simp only [printCell, afterCell, hq, if_true, List.foldl_cons, List.foldl_append, List.foldl_nil]
    have h1 : Csv.feed ⟨st, [], flds, rows, false⟩ 34 = ⟨.inQuoted, [], flds, rows, false⟩ := by
      rcases hst with h | h <;> subst h <;> simp [Csv.feed, Csv.step]
    rw [h1, quotedRun]
    simp [Csv.feed, Csv.step]
  · have hq' : needsQuote cell = false := by simpa using hq
    obtain ⟨hne, hpl⟩ := needsQuote_false cell hq'
    cases cell with
    | nil => exact absurd rfl hne
    | cons c t =>
      have hc := hpl c (by simp)
      simp [plain] at hc
      simp only [printCell, afterCell, hq', Bool.false_eq_true, if_false, List.foldl_cons]
      have h1 : Csv.feed ⟨st, [], flds, rows, false⟩ c = ⟨.inField, [c], flds, rows, false⟩ := by
        rcases hst with h | h <;> subst h <;> simp [Csv.feed, Csv.step, Csv.addChar, hc]
      rw [h1, plainRun t [c] flds rows (fun x hx => hpl x (by simp [hx]))]
      simp

/-- a comma after a cell stores the field -/
theorem commaAfterCell (cell fld : Str) (flds : List Str) (rows : List (List Str)) :
    Csv.feed ⟨afterCell cell, fld, flds, rows, false⟩ 44 = ⟨.startField, [], fld.reverse :: flds, rows, false⟩ := by
  unfold afterCell
  split <;> simp [Csv.feed, Csv.step, Csv.saveField]

/-- a newline after a cell stores the field and completes the record -/
theorem newlineAfterCell (cell fld : Str) (flds : List Str) (rows : List (List Str)) :
    Csv.feed ⟨afterCell cell, fld, flds, rows, false⟩ 10
      = ⟨.startRecord, [], [], (fld.reverse :: flds).reverse :: rows, false⟩ := by
  unfold afterCell
  split <;> simp [Csv.feed, Csv.step, Csv.saveField, Csv.eol]

/-- a non-empty row followed by its newline -/
theorem rowRun (cs : List Str) : ∀ (c : Str) (st : CsvState), fieldStart st → ∀ (flds : List Str) (rows : List (List Str)),
    (printRow (c :: cs) ++ [10]).foldl Csv.feed ⟨st, [], flds, rows, false⟩
      = ⟨.startRecord, [], [], (flds.reverse ++ c :: cs) :: rows, false⟩ := by
  induction cs with
  | nil =>
    intro c st hst flds rows
    simp only [printRow, List.foldl_append, List.foldl_cons, List.foldl_nil]
    rw [cellRun c st hst, newlineAfterCell]
    simp
  | cons c' cs' ih =>
    intro c st hst flds rows
    simp only [printRow, List.append_assoc, List.cons_append, List.foldl_append, List.foldl_cons]
    rw [cellRun c st hst, commaAfterCell]
    have := ih c' .startField (Or.inr rfl) (c :: flds) rows
    simp only [List.foldl_append, List.foldl_cons, List.foldl_nil] at this
    simp only [List.reverse_reverse]
    rw [this]
    simp

/-- the whole table: every row is appended to the result -/
theorem tableRun (rows : List (List Str)) : ∀ (acc : List (List Str)),
    (printCsv rows).foldl Csv.feed ⟨.startRecord, [], [], acc, false⟩
      = ⟨.startRecord, [], [], rows.reverse ++ acc, false⟩ := by
  induction rows with
  | nil => intro acc; rfl
  | cons r rs ih =>
    intro acc
    cases r with
    | nil =>
      simp only [printCsv, printRow, List.nil_append, List.foldl_cons]
      have h1 : Csv.feed ⟨.startRecord, [], [], acc, false⟩ 10 = ⟨.startRecord, [], [], [] :: acc, false⟩ := by
        simp [Csv.feed, Csv.step, Csv.eol]
      rw [h1, ih]; simp
    | cons c cs =>
      have hrow := rowRun cs c .startRecord (Or.inl rfl) [] acc
      simp only [printCsv]
      have e : printRow (c :: cs) ++ 10 :: printCsv rs = (printRow (c :: cs) ++ [10]) ++ printCsv rs := by simp
      rw [e, List.foldl_append, hrow, ih]; simp

/-! ### universal newlines -/

theorem translateAux_id : ∀ (t : Str), 13 ∉ t → translateAux false t = t
  | [], _ => rfl
  | c :: t, h => by
    have hc : c ≠ 13 := fun e => h (by simp [e])
    have ht := translateAux_id t (fun e => h (by simp [e]))
    simp [translateAux, hc, ht]

theorem translate_id (t : Str) (h : 13 ∉ t) : translateNewlines t = t := translateAux_id t h

theorem mem_doubleQuotes (cell : Str) (x : Nat) (h : x ∈ doubleQuotes cell) : x = 34 ∨ x ∈ cell := by
  induction cell with
  | nil => simp [doubleQuotes] at h
  | cons c t ih =>
    by_cases hq : c = 34
    · subst hq; simp [doubleQuotes] at h
      rcases h with h | h
      · exact Or.inl h
      · rcases ih h with h | h
        · exact Or.inl h
        · exact Or.inr (by simp [h])
    · simp [doubleQuotes, hq] at h
      rcases h with h | h
      · exact Or.inr (by simp [h])
      · rcases ih h with h | h
        · exact Or.inl h
        · exact Or.inr (by simp [h])

theorem mem_printCell (cell : Str) (x : Nat) (h : x ∈ printCell cell) : x = 34 ∨ x ∈ cell := by
  unfold printCell at h
  split at h
  · simp at h
    rcases h with h | h | h
    · exact Or.inl h
    · exact mem_doubleQuotes cell x h
    · exact Or.inl h
  · exact Or.inr h

theorem mem_printRow : ∀ (r : List Str) (x : Nat), x ∈ printRow r → x = 34 ∨ x = 44 ∨ ∃ c ∈ r, x ∈ c
  | [], x, h => by simp [printRow] at h
  | [c], x, h => by
    rcases mem_printCell c x (by simpa [printRow] using h) with h | h
    · exact Or.inl h
    · exact Or.inr (Or.inr ⟨c, by simp, h⟩)
  | c :: c' :: t, x, h => by
    simp only [printRow, List.mem_append, List.mem_cons] at h
    rcases h with h | h | h
    · rcases mem_printCell c x h with h | h
      · exact Or.inl h
      · exact Or.inr (Or.inr ⟨c, by simp, h⟩)
    · exact Or.inr (Or.inl h)
    · rcases mem_printRow (c' :: t) x h with h | h | ⟨y, hy, hx⟩
      · exact Or.inl h
      · exact Or.inr (Or.inl h)
      · exact Or.inr (Or.inr ⟨y, by simp [hy], hx⟩)

theorem mem_printCsv : ∀ (rows : List (List Str)) (x : Nat), x ∈ printCsv rows →
    x = 34 ∨ x = 44 ∨ x = 10 ∨ ∃ r ∈ rows, ∃ c ∈ r, x ∈ c
  | [], x, h => by simp [printCsv] at h
  | r :: rs, x, h => by
    simp only [printCsv, List.mem_append, List.mem_cons] at h
    rcases h with h | h | h
    · rcases mem_printRow r x h with h | h | ⟨c, hc, hx⟩
      · exact Or.inl h
      · exact Or.inr (Or.inl h)
      · exact Or.inr (Or.inr (Or.inr ⟨r, by simp, c, hc, hx⟩))
    · exact Or.inr (Or.inr (Or.inl h))
    · rcases mem_printCsv rs x h with h | h | h | ⟨r', hr, c, hc, hx⟩
      · exact Or.inl h
      · exact Or.inr (Or.inl h)
      · exact Or.inr (Or.inr (Or.inl h))
      · exact Or.inr (Or.inr (Or.inr ⟨r', by simp [hr], c, hc, hx⟩))

theorem getLast_printCsv : ∀ (rows : List (List Str)),
    (printCsv rows).getLast? = none ∨ (printCsv rows).getLast? = some 10
  | [] => Or.inl rfl
  | r :: rs => by
    right
    simp only [printCsv, List.getLast?_append, List.getLast?_cons]
    rcases getLast_printCsv rs with h | h <;> simp [h]

theorem lastIsNl_printCsv (rows : List (List Str)) : lastIsNl (printCsv rows) = true := by
  unfold lastIsNl
  rcases getLast_printCsv rows with h | h <;> simp [h]

end GtModel.RoundTrip

/-
  Lemmas for C12 (JSON): reading back what `printJson` wrote.
-/
import GtModel.Model.RoundTrip

namespace GtModel.RoundTrip

/-- what may follow a printed value: end of text, ',' or a newline -/
def delimHead : Str → Bool
  | [] => true
  | c :: _ => c = 44 || c = 10

/-! ### digits -/

theorem natDigits_lt (n : Nat) (h : n < 10) : natDigits n = [48 + n] := by
  rw [natDigits]; simp [h]

theorem natDigits_ge (n : Nat) (h : ¬ n < 10) : natDigits n = natDigits (n / 10) ++ [48 + n % 10] := by
  rw [natDigits]; simp [h]

theorem natDigits_all (n : Nat) : ∀ c ∈ natDigits n, isDigit c = true := by
  induction n using Nat.strongRecOn with
  | _ n ih =>
    by_cases h : n < 10
    · rw [natDigits_lt n h]; intro c hc; simp at hc; subst hc; simp [isDigit]; omega
    · rw [natDigits_ge n h]; intro c hc
      rcases List.mem_append.mp hc with hc | hc
      · exact ih (n / 10) (by omega) c hc
      · simp at hc; subst hc; simp [isDigit]; omega

theorem digitsToNat_natDigits (n : Nat) : digitsToNat (natDigits n) = n := by
  induction n using Nat.strongRecOn with
  | _ n ih =>
    by_cases h : n < 10
    · rw [natDigits_lt n h]; simp [digitsToNat]
    · rw [natDigits_ge n h]
      have := ih (n / 10) (by omega)
      simp only [digitsToNat] at this ⊢
      rw [List.foldl_append, this]; simp; omega

/-- `natDigits n` starts with a digit, and not with '0' unless `n = 0` -/
theorem natDigits_head (n : Nat) : ∃ c t, natDigits n = c :: t ∧ isDigit c = true ∧ (c = 48 → t = []) := by
  induction n using Nat.strongRecOn with
  | _ n ih =>
    by_cases h : n < 10
    · exact ⟨48 + n, [], natDigits_lt n h, by simp [isDigit]; omega, fun _ => rfl⟩
    · rw [natDigits_ge n h]
      obtain ⟨c, t, e, hd, hz⟩ := ih (n / 10) (by omega)
      refine ⟨c, t ++ [48 + n % 10], by rw [e]; rfl, hd, ?_⟩
      intro hc
      -- c = '0' would mean n / 10 = 0
      exfalso
      have h0 := hz hc
      have hv := digitsToNat_natDigits (n / 10)
      rw [e, hc, h0] at hv
      simp [digitsToNat] at hv
      omega

theorem takeDigits_append (ds rest : Str) (hd : ∀ c ∈ ds, isDigit c = true)
    (hr : ∀ c t, rest = c :: t → isDigit c = false) : takeDigits (ds ++ rest) = (ds, rest) := by
  induction ds with
  | nil =>
    cases rest with
    | nil => rfl
    | cons c t => simp [takeDigits, hr c t rfl]
  | cons d ds ih =>
    have h1 : isDigit d = true := hd d (by simp)
    have h2 := ih (fun c hc => hd c (by simp [hc]))
    simp [takeDigits, h1, h2]

theorem delimHead_not_digit (rest : Str) (h : delimHead rest = true) : ∀ c t, rest = c :: t → isDigit c = false := by
  intro c t e; subst e
  simp [delimHead] at h
  rcases h with h | h <;> subst h <;> decide

/-! ### numbers and literals -/

theorem allDigits_iff (ds : Str) : allDigits ds = true ↔ ∀ c ∈ ds, isDigit c = true := by
  simp [allDigits, List.all_eq_true]

theorem lexIntPart_ok (ip more : Str) (hv : validIntPart ip = true)
    (hm : ∀ c t, more = c :: t → isDigit c = false) : lexIntPart (ip ++ more) = some (ip, more) := by
  match ip, hv with
  | [c], hv =>
    simp [validIntPart] at hv
    by_cases hc : c = 48
    · subst hc; simp [lexIntPart]
    · have := takeDigits_append [] more (by simp) hm
      simp at this
      simp [lexIntPart, hc, hv, this]
  | c :: d :: t, hv =>
    simp [validIntPart] at hv
    obtain ⟨⟨h1, h2⟩, h3⟩ := hv
    have := takeDigits_append (d :: t) more ((allDigits_iff _).mp h3) hm
    simp at this
    simp [lexIntPart, h1, h2, this]

theorem lexFrac_ok (frac more : Str) (hv : allDigits frac = true)
    (hm : ∀ c t, more = c :: t → isDigit c = false ∧ c ≠ 46) :
    lexFrac ((if frac = [] then [] else 46 :: frac) ++ more) = some (frac, more) := by
  by_cases hf : frac = []
  · subst hf
    cases more with
    | nil => simp [lexFrac]
    | cons c t =>
      have := (hm c t rfl).2
      simp only [if_true, List.nil_append]
      unfold lexFrac
      split
      · rename_i heq; simp at heq; omega
      · rfl
  · have := takeDigits_append frac more ((allDigits_iff _).mp hv) (fun c t e => (hm c t e).1)
    simp [hf, lexFrac, this]

theorem lexExp_ok (exp : Option (Option Nat × Str)) (rest : Str) (hv : validExp exp = true)
    (hr : delimHead rest = true) : lexExp (printExp exp ++ rest) = some (exp, rest) := by
  have hnd := delimHead_not_digit rest hr
  match exp, hv with
  | none, _ =>
    cases rest with
    | nil => simp [printExp, lexExp]
    | cons c t =>
      simp [delimHead] at hr
      rcases hr with h | h <;> subst h <;> simp [printExp, lexExp]
  | some (sg, ds), hv =>
    simp [validExp] at hv
    obtain ⟨⟨hsg, hne⟩, hd⟩ := hv
    have htd := takeDigits_append ds rest ((allDigits_iff _).mp hd) hnd
    cases ds with
    | nil => exact absurd rfl hne
    | cons d ds' =>
      have hdd : isDigit d = true := (allDigits_iff _).mp hd d (by simp)
      have hd1 : d ≠ 43 := by intro h; subst h; simp [isDigit] at hdd
      have hd2 : d ≠ 45 := by intro h; subst h; simp [isDigit] at hdd
      rcases hsg with (h | h) | h
      · subst h
        simp only [printExp, lexExp, List.cons_append]
        simp [hd1, hd2]
        simp at htd
        simp [htd]
      · subst h
        simp only [printExp, lexExp, List.cons_append]
        simp
        simp at htd
        simp [htd]
      · subst h
        simp only [printExp, lexExp, List.cons_append]
        simp
        simp at htd
        simp [htd]

theorem delimHead_frac (rest : Str) (h : delimHead rest = true) :
    ∀ c t, rest = c :: t → isDigit c = false ∧ c ≠ 46 := by
  intro c t e; subst e
  simp [delimHead] at h
  rcases h with h | h <;> subst h <;> decide

theorem validIntPart_natDigits (n : Nat) : validIntPart (natDigits n) = true := by
  obtain ⟨c, t, e, hd, hz⟩ := natDigits_head n
  have hall := natDigits_all n
  rw [e] at hall ⊢
  cases t with
  | nil => simpa [validIntPart] using hd
  | cons d t' =>
    have hc : c ≠ 48 := fun h => by simpa using hz h
    simp [validIntPart, hd, hc, allDigits_iff]
    exact ⟨hall d (by simp), fun x hx => hall x (by simp [hx])⟩

/-- a digit string followed by a delimiter lexes as an integer -/
theorem lexNumber_int (neg : Bool) (n : Nat) (rest : Str) (hr : delimHead rest = true) :
    lexNumber neg (natDigits n ++ rest)
      = some (.int (if neg then -(n : Int) else (n : Int)), rest) := by
  have h1 := lexIntPart_ok (natDigits n) rest (validIntPart_natDigits n) (delimHead_not_digit rest hr)
  have h2 := lexFrac_ok [] rest (by simp [allDigits]) (delimHead_frac rest hr)
  have h3 := lexExp_ok none rest (by simp [validExp]) hr
  simp [printExp] at h2 h3
  simp [lexNumber, h1, h2, h3, digitsToNat_natDigits]

theorem lexNumber_float (neg : Bool) (ip frac : Str) (exp : Option (Option Nat × Str)) (rest : Str)
    (hv : (FloatLit.num neg ip frac exp).valid = true) (hr : delimHead rest = true) :
    lexNumber neg (ip ++ ((if frac = [] then [] else 46 :: frac) ++ (printExp exp ++ rest)))
      = some (.float (.num neg ip frac exp), rest) := by
  simp [FloatLit.valid] at hv
  obtain ⟨⟨⟨hip, hfr⟩, hex⟩, hne⟩ := hv
  -- what follows the exponent part starts with a delimiter; what follows the fraction starts with 'e' or a delimiter
  have hE : ∀ c t, printExp exp ++ rest = c :: t → isDigit c = false ∧ c ≠ 46 := by
    intro c t e
    match exp, e with
    | none, e => exact delimHead_frac rest hr c t (by simpa [printExp] using e)
    | some (none, ds), e => simp [printExp] at e; obtain ⟨e1, _⟩ := e; subst e1; decide
    | some (some sg, ds), e => simp [printExp] at e; obtain ⟨e1, _⟩ := e; subst e1; decide
  have hF : ∀ c t, (if frac = [] then [] else 46 :: frac) ++ (printExp exp ++ rest) = c :: t → isDigit c = false := by
    intro c t e
    by_cases hf : frac = []
    · simp [hf] at e; exact (hE c t e).1
    · simp [hf] at e; obtain ⟨e1, _⟩ := e; subst e1; decide
  have h1 := lexIntPart_ok ip _ hip hF
  have h2 := lexFrac_ok frac _ hfr hE
  have h3 := lexExp_ok exp rest hex hr
  have hne' : ¬ (frac = [] ∧ exp = none) := by
    intro ⟨a, b⟩; rcases hne with h | h
    · exact h a
    · exact h b
  simp [lexNumber, h1, h2, h3, hne']

theorem digit_not_letter (c : Nat) (h : isDigit c = true) :
    c ≠ 110 ∧ c ≠ 116 ∧ c ≠ 102 ∧ c ≠ 78 ∧ c ≠ 73 ∧ c ≠ 45 := by
  simp [isDigit] at h; omega

theorem lexAtom_int (i : Int) (rest : Str) (hr : delimHead rest = true) :
    lexAtom (intStr i ++ rest) = some (.int i, rest) := by
  obtain ⟨c, t, e, hd, _⟩ := natDigits_head i.natAbs
  obtain ⟨a1, a2, a3, a4, a5, a6⟩ := digit_not_letter c hd
  have hnum := fun neg => lexNumber_int neg i.natAbs rest hr
  by_cases hi : i < 0
  · have h73 : c ≠ 73 := a5
    simp only [intStr, hi, if_true, List.cons_append]
    rw [e] at hnum ⊢
    have := hnum true
    simp only [List.cons_append] at this
    simp [lexAtom, h73, this]
    omega
  · simp only [intStr, hi, if_false]
    rw [e] at hnum ⊢
    have := hnum false
    simp only [List.cons_append] at this
    simp [lexAtom, a1, a2, a3, a4, a5, a6, this]
    omega

theorem validIntPart_head (ip : Str) (h : validIntPart ip = true) : ∃ c t, ip = c :: t ∧ isDigit c = true := by
  match ip, h with
  | [c], h => exact ⟨c, [], rfl, by simpa [validIntPart] using h⟩
  | c :: d :: t, h => simp [validIntPart] at h; exact ⟨c, d :: t, rfl, h.1.1⟩

theorem lexAtom_float (f : FloatLit) (rest : Str) (hv : f.valid = true) (hr : delimHead rest = true) :
    lexAtom (f.text ++ rest) = some (.float f, rest) := by
  match f, hv with
  | .nan, _ => simp [FloatLit.text, lexAtom, dropPrefix]
  | .inf false, _ => simp [FloatLit.text, lexAtom, dropPrefix]
  | .inf true, _ => simp [FloatLit.text, lexAtom, dropPrefix]
  | .num neg ip frac exp, hv =>
    have hnum := lexNumber_float neg ip frac exp rest hv hr
    have hip : validIntPart ip = true := by simp [FloatLit.valid] at hv; exact hv.1.1.1
    obtain ⟨c, t, e, hd⟩ := validIntPart_head ip hip
    obtain ⟨a1, a2, a3, a4, a5, a6⟩ := digit_not_letter c hd
    subst e
    cases neg with
    | true =>
      simp only [FloatLit.text, if_true, List.append_assoc, List.cons_append, List.nil_append] at hnum ⊢
      simp [lexAtom, a5, hnum]
    | false =>
      simp only [FloatLit.text, List.append_assoc, List.cons_append, List.nil_append] at hnum ⊢
      simp [lexAtom, a1, a2, a3, a4, a5, a6, hnum]

theorem lexAtom_null (rest : Str) : lexAtom ([110, 117, 108, 108] ++ rest) = some (.null, rest) := by
  simp [lexAtom, dropPrefix]
theorem lexAtom_true (rest : Str) : lexAtom ([116, 114, 117, 101] ++ rest) = some (.bool true, rest) := by
  simp [lexAtom, dropPrefix]
theorem lexAtom_false (rest : Str) : lexAtom ([102, 97, 108, 115, 101] ++ rest) = some (.bool false, rest) := by
  simp [lexAtom, dropPrefix]

/-! ### strings -/

theorem hexVal_hexDigit (n : Nat) (h : n < 16) : hexVal (hexDigit n) = some n := by
  unfold hexDigit hexVal
  by_cases h1 : n < 10
  · simp [h1]; omega
  · simp [h1]
    have a : ¬ (48 ≤ 87 + n ∧ 87 + n ≤ 57) := by omega
    have b : 97 ≤ 87 + n ∧ 87 + n ≤ 102 := by omega
    simp [a, b]

theorem readHex4_hex4 (u : Nat) (rest : Str) (h : u < 65536) : readHex4 (hex4 u ++ rest) = some (u, rest) := by
  simp only [hex4, List.cons_append, List.nil_append, readHex4]
  rw [hexVal_hexDigit _ (by omega), hexVal_hexDigit _ (by omega), hexVal_hexDigit _ (by omega), hexVal_hexDigit _ (by omega)]
  simp; omega

/-- the four shapes of `escapeChar c` -/
theorem escapeChar_cases (c : Nat) :
    (∃ x, escapeChar c = [92, x] ∧ simpleEscape x = some c ∧ x ≠ 117)
    ∨ (escapeChar c = [c] ∧ 32 ≤ c ∧ c ≠ 34 ∧ c ≠ 92)
    ∨ (escapeChar c = 92 :: 117 :: hex4 c ∧ c < 65536)
    ∨ (escapeChar c = 92 :: 117 :: hex4 (55296 + (c - 65536) / 1024) ++ 92 :: 117 :: hex4 (56320 + (c - 65536) % 1024)
        ∧ 65536 ≤ c) := by
  unfold escapeChar
  by_cases h1 : c = 34
  · left; exact ⟨34, by simp [h1], by simp [simpleEscape, h1], by decide⟩
  by_cases h2 : c = 92
  · left; exact ⟨92, by simp [h2], by simp [simpleEscape, h2], by decide⟩
  by_cases h3 : c = 10
  · left; exact ⟨110, by simp [h3], by simp [simpleEscape, h3], by decide⟩
  by_cases h4 : c = 13
  · left; exact ⟨114, by simp [h4], by simp [simpleEscape, h4], by decide⟩
  by_cases h5 : c = 9
  · left; exact ⟨116, by simp [h5], by simp [simpleEscape, h5], by decide⟩
  by_cases h6 : c = 8
  · left; exact ⟨98, by simp [h6], by simp [simpleEscape, h6], by decide⟩
  by_cases h7 : c = 12
  · left; exact ⟨102, by simp [h7], by simp [simpleEscape, h7], by decide⟩
  by_cases h8 : 32 ≤ c ∧ c < 127
  · right; left; simp [h1, h2, h3, h4, h5, h6, h7, h8]
  by_cases h9 : c < 65536
  · right; right; left; simp [h1, h2, h3, h4, h5, h6, h7, h8, h9]
  · right; right; right; simp [h1, h2, h3, h4, h5, h6, h7, h8, h9]; omega

theorem peekLow_cons_ne (c : Nat) (r : Str) (h : c ≠ 92) : peekLow (c :: r) = none := by
  unfold peekLow
  split
  · rename_i heq; simp at heq; omega
  · rfl

theorem peekLow_esc_ne (x : Nat) (r : Str) (h : x ≠ 117) : peekLow (92 :: x :: r) = none := by
  unfold peekLow
  split
  · rename_i heq; simp at heq; omega
  · rfl

theorem peekLow_u (r : Str) : peekLow (92 :: 117 :: r)
    = match readHex4 r with
      | some (l, r') => if isLow l then some (l, r') else none
      | none => none := by
  rfl

/-- the head of a string: in range and not a low surrogate -/
def headNotLow : Str → Bool
  | [] => true
  | c :: _ => decide (c < 1114112) && !isLow c

theorem peekLow_printStrBody (s rest : Str) (h : headNotLow s = true) :
    peekLow (printStrBody s ++ 34 :: rest) = none := by
  cases s with
  | nil => exact peekLow_cons_ne 34 rest (by decide)
  | cons c t =>
    simp [headNotLow] at h
    obtain ⟨hlt, hlow⟩ := h
    simp only [printStrBody, List.append_assoc]
    rcases escapeChar_cases c with ⟨x, e, _, hx⟩ | ⟨e, h32, h34, h92⟩ | ⟨e, hc⟩ | ⟨e, hc⟩
    · rw [e]; exact peekLow_esc_ne x _ hx
    · rw [e]; exact peekLow_cons_ne c _ h92
    · rw [e]; simp only [List.cons_append, List.append_assoc]
      rw [peekLow_u, readHex4_hex4 c _ hc]; simp [hlow]
    · rw [e]; simp only [List.cons_append, List.append_assoc]
      rw [peekLow_u, readHex4_hex4 _ _ (by omega)]
      have : isLow (55296 + (c - 65536) / 1024) = false := by simp [isLow]; omega
      simp [this]

/-- the strings for which printing and reading agree, per reader variant -/
def okStr (comb : Bool) (s : Str) : Bool := if comb then validStr s else bmpStr s

theorem okStr_tail (comb : Bool) (c : Nat) (s : Str) (h : okStr comb (c :: s) = true) : okStr comb s = true := by
  cases comb with
  | false => simp [okStr, bmpStr] at h ⊢; exact h.2
  | true =>
    cases s with
    | nil => simp [okStr, validStr]
    | cons b t => simp only [okStr, validStr, if_true, Bool.and_eq_true] at h ⊢; exact h.2

theorem okStr_head_f (c : Nat) (s : Str) (h : okStr false (c :: s) = true) : c < 65536 := by
  simp [okStr, bmpStr] at h; exact h.1

theorem okStr_head_t (c : Nat) (s : Str) (h : okStr true (c :: s) = true) :
    c < 1114112 ∧ (isHigh c = true → headNotLow s = true) := by
  cases s with
  | nil => simp [okStr, validStr] at h; simp [h, headNotLow]
  | cons b t =>
    simp only [okStr, validStr, if_true, Bool.and_eq_true, decide_eq_true_eq] at h
    obtain ⟨⟨h1, h2⟩, h3⟩ := h
    have hb : b < 1114112 := by
      cases t with
      | nil => simpa [validStr] using h3
      | cons b' t' => simp only [validStr, Bool.and_eq_true, decide_eq_true_eq] at h3; exact h3.1.1
    refine ⟨h1, fun hh => ?_⟩
    simp [hh] at h2
    simp [headNotLow, hb, h2]

theorem okStr_head (comb : Bool) (c : Nat) (s : Str) (h : okStr comb (c :: s) = true) :
    (comb = false → c < 65536) ∧ (comb = true → c < 1114112 ∧ (isHigh c = true → headNotLow s = true)) :=
  ⟨fun e => okStr_head_f c s (e ▸ h), fun e => okStr_head_t c s (e ▸ h)⟩

/-- one escaped surrogate pair is decoded to one character (reader variant of Python's `json`) -/
theorem pair_step (hi lo f : Nat) (R : Str) (h1 : isHigh hi = true) (h2 : isLow lo = true) :
    readStrBody true (f + 1) (92 :: 117 :: (hex4 hi ++ 92 :: 117 :: (hex4 lo ++ R)))
      = (readStrBody true f R).map (fun p => ((65536 + (hi - 55296) * 1024 + (lo - 56320)) :: p.1, p.2)) := by
  have a : hi < 65536 := by simp [isHigh] at h1; omega
  have b : lo < 65536 := by simp [isLow] at h2; omega
  simp only [readStrBody]
  simp only [readHex4_hex4 hi _ a]
  rw [peekLow_u, readHex4_hex4 lo _ b]
  simp [h1, h2]

theorem astral_arith (c : Nat) (h1 : 65536 ≤ c) (h2 : c < 1114112) :
    65536 + (55296 + (c - 65536) / 1024 - 55296) * 1024 + (56320 + (c - 65536) % 1024 - 56320) = c := by omega

/-- reading the body of a printed string literal gives the string back -/
theorem readStrBody_print (comb : Bool) (s : Str) :
    ∀ (f : Nat) (rest : Str), s.length < f → okStr comb s = true →
      readStrBody comb f (printStrBody s ++ 34 :: rest) = some (s, rest) := by
  induction s with
  | nil =>
    intro f rest hf _
    cases f with
    | zero => omega
    | succ f => simp [printStrBody, readStrBody]
  | cons c t ih =>
    intro f rest hf hok
    cases f with
    | zero => omega
    | succ f =>
      have iht := ih f rest (by simp at hf; omega) (okStr_tail comb c t hok)
      obtain ⟨hbmp, hval⟩ := okStr_head comb c t hok
      simp only [printStrBody, List.append_assoc]
      rcases escapeChar_cases c with ⟨x, e, hx, hxu⟩ | ⟨e, h32, h34, h92⟩ | ⟨e, hc⟩ | ⟨e, hc⟩
      · rw [e]
        simp only [List.cons_append, List.nil_append, readStrBody]
        simp [hxu, hx, iht]
      · rw [e]
        simp only [List.cons_append, List.nil_append, readStrBody]
        have : ¬ c < 32 := by omega
        simp [h34, h92, this, iht]
      · rw [e]
        simp only [List.cons_append, List.append_assoc, readStrBody]
        simp only [readHex4_hex4 c _ hc]
        cases comb with
        | false => simp [iht]
        | true =>
          by_cases hh : isHigh c = true
          · have := peekLow_printStrBody t rest ((hval rfl).2 hh)
            simp [hh, this, iht]
          · simp [hh, iht]
      · rw [e]
        cases comb with
        | false => have := hbmp rfl; omega
        | true =>
          have hlt := (hval rfl).1
          have h1 : isHigh (55296 + (c - 65536) / 1024) = true := by simp [isHigh]; omega
          have h2 : isLow (56320 + (c - 65536) % 1024) = true := by simp [isLow]; omega
          simp only [List.cons_append, List.append_assoc]
          rw [pair_step _ _ f _ h1 h2, iht, astral_arith c hc hlt]
          rfl

theorem printStrBody_length (s : Str) : s.length ≤ (printStrBody s).length := by
  induction s with
  | nil => simp [printStrBody]
  | cons c t ih =>
    simp only [printStrBody, List.length_append, List.length_cons]
    have : 1 ≤ (escapeChar c).length := by
      rcases escapeChar_cases c with ⟨x, e, _, _⟩ | ⟨e, _⟩ | ⟨e, _⟩ | ⟨e, _⟩ <;> rw [e] <;> simp
    omega

/-- a printed string literal (after its opening quote) reads back -/
theorem readStr_print (comb : Bool) (s rest : Str) (h : okStr comb s = true) :
    readStr comb (printStrBody s ++ 34 :: rest) = some (s, rest) := by
  unfold readStr
  apply readStrBody_print comb s _ rest _ h
  have := printStrBody_length s
  simp; omega

/-! ### whitespace and layout -/

theorem skipWs_cons_nonws (c : Nat) (t : Str) (h : isWs c = false) : skipWs (c :: t) = c :: t := by
  simp [skipWs, h]

theorem skipWs_ws_append (ws x : Str) (h : ws.all isWs = true) : skipWs (ws ++ x) = skipWs x := by
  induction ws with
  | nil => rfl
  | cons c t ih =>
    simp only [List.all_cons, Bool.and_eq_true] at h
    simp [skipWs, h.1, ih h.2]

theorem nl_all_ws (d : Nat) : (nl d).all isWs = true := by
  simp [nl, isWs, List.all_replicate]

theorem skipWs_nl (d : Nat) (x : Str) : skipWs (nl d ++ x) = skipWs x :=
  skipWs_ws_append _ _ (nl_all_ws d)

theorem nl_length (d : Nat) : (nl d).length = 4 * d + 1 := by simp [nl]

/-- first characters of printed scalars other than strings -/
def isAtomStart (c : Nat) : Bool :=
  isDigit c || c = 45 || c = 110 || c = 116 || c = 102 || c = 78 || c = 73

theorem atomStart_facts (c : Nat) (h : isAtomStart c = true) :
    isWs c = false ∧ c ≠ 91 ∧ c ≠ 123 ∧ c ≠ 34 ∧ c ≠ 93 ∧ c ≠ 125 := by
  simp [isAtomStart, isDigit] at h
  simp [isWs]
  omega

theorem intStr_head (i : Int) : ∃ c t, intStr i = c :: t ∧ isAtomStart c = true := by
  unfold intStr
  by_cases h : i < 0
  · exact ⟨45, natDigits i.natAbs, by simp [h], by decide⟩
  · obtain ⟨c, t, e, hd, _⟩ := natDigits_head i.natAbs
    exact ⟨c, t, by simp [h, e], by simp [isAtomStart, hd]⟩

theorem floatText_head (f : FloatLit) (hv : f.valid = true) : ∃ c t, f.text = c :: t ∧ isAtomStart c = true := by
  match f, hv with
  | .nan, _ => exact ⟨78, _, rfl, by decide⟩
  | .inf false, _ => exact ⟨73, _, rfl, by decide⟩
  | .inf true, _ => exact ⟨45, _, rfl, by decide⟩
  | .num neg ip frac exp, hv =>
    have hip : validIntPart ip = true := by simp [FloatLit.valid] at hv; exact hv.1.1.1
    obtain ⟨c, t, e, hd⟩ := validIntPart_head ip hip
    subst e
    cases neg with
    | true => exact ⟨45, _, by simp only [FloatLit.text, if_true, List.cons_append, List.nil_append]; rfl, by decide⟩
    | false => exact ⟨c, _, by simp only [FloatLit.text, List.cons_append, List.nil_append]; rfl, by simp [isAtomStart, hd]⟩

/-- a scalar that is not a string is read by `lexAtom` -/
theorem parseVal_atom (comb : Bool) (f : Nat) (ws X : Str) (v : JVal) (r : Str) (hws : ws.all isWs = true)
    (hX : ∃ c t, X = c :: t ∧ isAtomStart c = true) (hl : lexAtom X = some (v, r)) :
    parseVal comb (f + 1) (ws ++ X) = some (v, r) := by
  obtain ⟨c, t, e, hc⟩ := hX
  obtain ⟨a1, a2, a3, a4, _, _⟩ := atomStart_facts c hc
  subst e
  rw [parseVal, skipWs_ws_append _ _ hws, skipWs_cons_nonws c t a1]
  simp [a2, a3, a4, hl]

/-! ### the fuel a value needs -/

mutual
def need : JVal → Nat
  | .arr (.cons v t) => need v + needL t + 5
  | .obj (.cons _ v t) => need v + needO t + 5
  | _ => 0
def needL : JList → Nat
  | .nil => 0
  | .cons v t => need v + needL t + 2
def needO : JObj → Nat
  | .nil => 0
  | .cons _ v t => need v + needO t + 2
end

theorem printItems_delim (d d' : Nat) (t : JList) (c : Nat) (rest : Str) :
    delimHead (printItems d t ++ (nl d' ++ c :: rest)) = true := by
  cases t with
  | nil => simp [printItems, nl, delimHead]
  | cons v t => simp [printItems, delimHead]

theorem printMembers_delim (d d' : Nat) (t : JObj) (c : Nat) (rest : Str) :
    delimHead (printMembers d t ++ (nl d' ++ c :: rest)) = true := by
  cases t with
  | nil => simp [printMembers, nl, delimHead]
  | cons k v t => simp [printMembers, delimHead]

/-- a printed value starts with a character that is neither blank nor a closing bracket -/
theorem printVal_head (P : Str → Bool) (d : Nat) (v : JVal) (hv : v.validWith P = true) :
    ∃ c t, printVal d v = c :: t ∧ isWs c = false ∧ c ≠ 93 ∧ c ≠ 125 := by
  cases v with
  | null => exact ⟨110, [117, 108, 108], by simp [printVal], by decide, by decide, by decide⟩
  | bool b => cases b <;> simp [printVal, isWs]
  | int i =>
    obtain ⟨c, t, e, hc⟩ := intStr_head i
    obtain ⟨a1, _, _, _, a5, a6⟩ := atomStart_facts c hc
    exact ⟨c, t, by simp [printVal, e], a1, a5, a6⟩
  | float f =>
    obtain ⟨c, t, e, hc⟩ := floatText_head f (by simpa [JVal.validWith] using hv)
    obtain ⟨a1, _, _, _, a5, a6⟩ := atomStart_facts c hc
    exact ⟨c, t, by simp [printVal, e], a1, a5, a6⟩
  | str s => exact ⟨34, printStrBody s ++ [34], by simp [printVal, printStr], by decide, by decide, by decide⟩
  | arr xs => cases xs <;> simp [printVal, isWs]
  | obj kvs => cases kvs <;> simp [printVal, isWs]

/-! ### values -/

theorem need_arr (v : JVal) (t : JList) : need (.arr (.cons v t)) = need v + needL t + 5 := by
  simp [need]
theorem need_obj (k : Str) (v : JVal) (t : JObj) : need (.obj (.cons k v t)) = need v + needO t + 5 := by
  simp [need]
theorem needL_cons (v : JVal) (t : JList) : needL (.cons v t) = need v + needL t + 2 := by simp [needL]
theorem needO_cons (k : Str) (v : JVal) (t : JObj) : needO (.cons k v t) = need v + needO t + 2 := by simp [needO]

mutual
/-- the parser reads a printed value (preceded by blanks, followed by a delimiter) back -/
theorem parseVal_print (comb : Bool) : ∀ (v : JVal) (f d : Nat) (ws rest : Str),
    need v ≤ f → ws.all isWs = true → delimHead rest = true → v.validWith (okStr comb) = true →
    parseVal comb (f + 1) (ws ++ (printVal d v ++ rest)) = some (v, rest)
  | .null, f, d, ws, rest, _, hws, _, _ => by
    simp only [printVal]
    exact parseVal_atom comb f ws _ _ _ hws ⟨110, [117, 108, 108] ++ rest, rfl, by decide⟩ (lexAtom_null rest)
  | .bool true, f, d, ws, rest, _, hws, _, _ => by
    simp only [printVal]
    exact parseVal_atom comb f ws _ _ _ hws ⟨116, [114, 117, 101] ++ rest, rfl, by decide⟩ (lexAtom_true rest)
  | .bool false, f, d, ws, rest, _, hws, _, _ => by
    simp only [printVal]
    exact parseVal_atom comb f ws _ _ _ hws ⟨102, [97, 108, 115, 101] ++ rest, rfl, by decide⟩ (lexAtom_false rest)
  | .int i, f, d, ws, rest, _, hws, hr, _ => by
    simp only [printVal]
    obtain ⟨c, t, e, hc⟩ := intStr_head i
    exact parseVal_atom comb f ws _ _ _ hws ⟨c, t ++ rest, by rw [e]; rfl, hc⟩ (lexAtom_int i rest hr)
  | .float x, f, d, ws, rest, _, hws, hr, hv => by
    simp only [printVal]
    have hx : x.valid = true := by simpa [JVal.validWith] using hv
    obtain ⟨c, t, e, hc⟩ := floatText_head x hx
    exact parseVal_atom comb f ws _ _ _ hws ⟨c, t ++ rest, by rw [e]; rfl, hc⟩ (lexAtom_float x rest hx hr)
  | .str s, f, d, ws, rest, _, hws, _, hv => by
    have hs : okStr comb s = true := by simpa [JVal.validWith] using hv
    simp only [printVal, printStr, List.cons_append, List.append_assoc, List.nil_append]
    rw [parseVal, skipWs_ws_append _ _ hws, skipWs_cons_nonws 34 _ (by decide)]
    simp [readStr_print comb s rest hs]
  | .arr .nil, f, d, ws, rest, _, hws, _, _ => by
    simp only [printVal, List.cons_append, List.nil_append]
    rw [parseVal, skipWs_ws_append _ _ hws, skipWs_cons_nonws 91 _ (by decide)]
    simp [skipWs_cons_nonws 93 rest (by decide)]
  | .arr (.cons v t), f, d, ws, rest, hf, hws, _, hv => by
    rw [need_arr] at hf
    simp only [JVal.validWith, JList.validWith, Bool.and_eq_true] at hv
    obtain ⟨c, tl, e, c1, c2, _⟩ := printVal_head (okStr comb) (d + 1) v hv.1
    simp only [printVal, List.cons_append, List.append_assoc, List.nil_append]
    rw [parseVal, skipWs_ws_append _ _ hws, skipWs_cons_nonws 91 _ (by decide)]
    simp only [if_true, skipWs_nl]
    have hsk : skipWs (printVal (d + 1) v ++ (printItems (d + 1) t ++ (nl d ++ 93 :: rest)))
        = c :: (tl ++ (printItems (d + 1) t ++ (nl d ++ 93 :: rest))) := by
      rw [e]; exact skipWs_cons_nonws c _ c1
    rw [hsk]
    simp only [c2, if_false]
    obtain ⟨f1, rfl⟩ : ∃ f1, f = f1 + 1 := ⟨f - 1, by omega⟩
    obtain ⟨f2, rfl⟩ : ∃ f2, f1 = f2 + 1 := ⟨f1 - 1, by omega⟩
    have hval := parseVal_print comb v f2 (d + 1) [] (printItems (d + 1) t ++ (nl d ++ 93 :: rest)) (by omega) rfl
      (printItems_delim _ _ _ _ _) hv.1
    simp only [List.nil_append, e, List.cons_append] at hval
    have := parseElems_tail comb t (f2 + 1) (d + 1) d v _ rest (by omega) hv.2 hval
    simp [this]
  | .obj .nil, f, d, ws, rest, _, hws, _, _ => by
    simp only [printVal, List.cons_append, List.nil_append]
    rw [parseVal, skipWs_ws_append _ _ hws, skipWs_cons_nonws 123 _ (by decide)]
    simp [skipWs_cons_nonws 125 rest (by decide)]
  | .obj (.cons k v t), f, d, ws, rest, hf, hws, _, hv => by
    rw [need_obj] at hf
    simp only [JVal.validWith, JObj.validWith, Bool.and_eq_true] at hv
    simp only [printVal, List.cons_append, List.append_assoc, List.nil_append]
    rw [parseVal, skipWs_ws_append _ _ hws, skipWs_cons_nonws 123 _ (by decide)]
    simp only [skipWs_nl, printStr, List.cons_append, List.append_assoc, List.nil_append]
    rw [skipWs_cons_nonws 34 _ (by decide)]
    obtain ⟨f1, rfl⟩ : ∃ f1, f = f1 + 1 := ⟨f - 1, by omega⟩
    obtain ⟨f2, rfl⟩ : ∃ f2, f1 = f2 + 1 := ⟨f1 - 1, by omega⟩
    have hval := parseVal_print comb v f2 (d + 1) [32] (printMembers (d + 1) t ++ (nl d ++ 125 :: rest)) (by omega) rfl
      (printMembers_delim _ _ _ _ _) hv.1.2
    have := parseMembers_tail comb t (f2 + 1) (d + 1) d k v [] _ rest (by omega) hv.2 hv.1.1 rfl hval
    simp only [printStr, List.cons_append, List.append_assoc, List.nil_append] at this
    simp [this]
/-- after the first item has been read, the rest of a printed list is read back -/
theorem parseElems_tail (comb : Bool) : ∀ (t : JList) (f d d' : Nat) (v : JVal) (inp rest : Str),
    needL t ≤ f → t.validWith (okStr comb) = true →
    parseVal comb f inp = some (v, printItems d t ++ (nl d' ++ 93 :: rest)) →
    parseElems comb (f + 1) inp = some (.cons v t, rest)
  | .nil, f, d, d', v, inp, rest, _, _, hval => by
    rw [parseElems, hval]
    simp only [printItems, List.nil_append, skipWs_nl, skipWs_cons_nonws 93 rest (by decide)]
    simp
  | .cons v' t', f, d, d', v, inp, rest, hf, hv, hval => by
    rw [needL_cons] at hf
    simp only [JList.validWith, Bool.and_eq_true] at hv
    rw [parseElems, hval]
    simp only [printItems, List.cons_append, List.append_assoc, skipWs_cons_nonws 44 _ (by decide)]
    obtain ⟨f1, rfl⟩ : ∃ f1, f = f1 + 1 := ⟨f - 1, by omega⟩
    obtain ⟨f2, rfl⟩ : ∃ f2, f1 = f2 + 1 := ⟨f1 - 1, by omega⟩
    have hval' := parseVal_print comb v' f2 d (nl d) (printItems d t' ++ (nl d' ++ 93 :: rest)) (by omega) (nl_all_ws d)
      (printItems_delim _ _ _ _ _) hv.1
    have := parseElems_tail comb t' (f2 + 1) d d' v' _ rest (by omega) hv.2 hval'
    simp [this]
/-- after `"key": value` has been located, a printed mapping is read back -/
theorem parseMembers_tail (comb : Bool) : ∀ (t : JObj) (f d d' : Nat) (k : Str) (v : JVal) (ws X rest : Str),
    needO t ≤ f → t.validWith (okStr comb) = true → okStr comb k = true → ws.all isWs = true →
    parseVal comb f X = some (v, printMembers d t ++ (nl d' ++ 125 :: rest)) →
    parseMembers comb (f + 1) (ws ++ (printStr k ++ 58 :: X)) = some (.cons k v t, rest)
  | .nil, f, d, d', k, v, ws, X, rest, _, _, hk, hws, hval => by
    simp only [printStr, List.cons_append, List.append_assoc, List.nil_append]
    rw [parseMembers, skipWs_ws_append _ _ hws, skipWs_cons_nonws 34 _ (by decide)]
    simp only [if_true, readStr_print comb k _ hk, skipWs_cons_nonws 58 _ (by decide), hval]
    simp only [printMembers, List.nil_append, skipWs_nl, skipWs_cons_nonws 125 rest (by decide)]
    simp
  | .cons k' v' t', f, d, d', k, v, ws, X, rest, hf, hv, hk, hws, hval => by
    rw [needO_cons] at hf
    simp only [JObj.validWith, Bool.and_eq_true] at hv
    simp only [printStr, List.cons_append, List.append_assoc, List.nil_append]
    rw [parseMembers, skipWs_ws_append _ _ hws, skipWs_cons_nonws 34 _ (by decide)]
    simp only [if_true, readStr_print comb k _ hk, skipWs_cons_nonws 58 _ (by decide), hval]
    simp only [printMembers, List.cons_append, List.append_assoc, skipWs_cons_nonws 44 _ (by decide)]
    obtain ⟨f1, rfl⟩ : ∃ f1, f = f1 + 1 := ⟨f - 1, by omega⟩
    obtain ⟨f2, rfl⟩ : ∃ f2, f1 = f2 + 1 := ⟨f1 - 1, by omega⟩
    have hval' := parseVal_print comb v' f2 d [32] (printMembers d t' ++ (nl d' ++ 125 :: rest)) (by omega) rfl
      (printMembers_delim _ _ _ _ _) hv.1.2
    have := parseMembers_tail comb t' (f2 + 1) d d' k' v' (nl d) _ rest (by omega) hv.2 hv.1.1 (nl_all_ws d) hval'
    simp only [printStr, List.cons_append, List.append_assoc, List.nil_append] at this ⊢
    simp [this]
end

/-! ### the whole document -/

theorem printStr_length (k : Str) : 2 ≤ (printStr k).length := by simp [printStr]

mutual
theorem need_le : ∀ (v : JVal) (d : Nat), need v ≤ (printVal d v).length
  | .null, _ => by simp [need]
  | .bool _, _ => by simp [need]
  | .int _, _ => by simp [need]
  | .float _, _ => by simp [need]
  | .str _, _ => by simp [need]
  | .arr .nil, _ => by simp [need]
  | .arr (.cons v t), d => by
    have h1 := need_le v (d + 1)
    have h2 := needL_le t (d + 1)
    rw [need_arr]
    simp only [printVal, List.length_cons, List.length_append, nl_length, List.length_nil]
    omega
  | .obj .nil, _ => by simp [need]
  | .obj (.cons k v t), d => by
    have h1 := need_le v (d + 1)
    have h2 := needO_le t (d + 1)
    have h3 := printStr_length k
    rw [need_obj]
    simp only [printVal, List.length_cons, List.length_append, nl_length, List.length_nil]
    omega
theorem needL_le : ∀ (t : JList) (d : Nat), needL t ≤ (printItems d t).length
  | .nil, _ => by simp [needL]
  | .cons v t, d => by
    have h1 := need_le v d
    have h2 := needL_le t d
    rw [needL_cons]
    simp only [printItems, List.length_cons, List.length_append, nl_length]
    omega
theorem needO_le : ∀ (t : JObj) (d : Nat), needO t ≤ (printMembers d t).length
  | .nil, _ => by simp [needO]
  | .cons k v t, d => by
    have h1 := need_le v d
    have h2 := needO_le t d
    have h3 := printStr_length k
    rw [needO_cons]
    simp only [printMembers, List.length_cons, List.length_append, nl_length]
    omega
end

/-- reading the printed text of a document gives the document back, for both reader variants, on the strings
    for which the variant is faithful -/
theorem readDoc_printJson (comb : Bool) (v : JVal) (hv : v.validWith (okStr comb) = true) :
    readDoc comb (printJson v) = some v := by
  have h := parseVal_print comb v (printVal 0 v).length 0 [] [] (need_le v 0) rfl rfl hv
  simp only [List.nil_append, List.append_nil] at h
  simp [readDoc, printJson, h, skipWs]

end GtModel.RoundTrip

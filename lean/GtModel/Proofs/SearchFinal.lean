/- `IterativeTighteningSearch`: states reachable by `tighten_bounds()` calls; the three search theorems. -/
import GtModel.Proofs.SearchMono5

namespace GtModel.Bounded
open GtModel

/-- `s'` is reached from `s` by zero or more calls of `tighten_bounds()` -/
inductive SReach (sel : Sel) : SS → SS → Prop
  | refl (s : SS) : SReach sel s s
  | step {s s1 s' : SS} {b : Bool} : tightenBounds sel s = some (b, s1) → SReach sel s1 s' → SReach sel s s'

theorem SReach.inv {sel : Sel} {fs : List Int} {s s' : SS} (hr : SReach sel s s') (h : SInv fs s) : SInv fs s' := by
  induction hr with
  | refl => exact h
  | step ht _ ih => exact ih (tightenBounds_inv sel h ht).1

theorem SReach.mono {sel : Sel} {fs : List Int} {s s' : SS} (hr : SReach sel s s') (h : SInv fs s) : Mono s s' := by
  induction hr with
  | refl => exact Mono.refl _
  | step ht _ ih => exact (tightenBounds_mono sel h ht).trans (ih (tightenBounds_inv sel h ht).1)

/-- the final state of `search()` is reached by `tighten_bounds()` calls -/
theorem searchLoop_reach (sel : Sel) : ∀ (f : Nat) (s s' : SS), searchLoop sel f s = some s' → SReach sel s s' := by
  intro f
  induction f with
  | zero => intro s s' h; simp [searchLoop] at h
  | succ f ih =>
    intro s s' h
    unfold searchLoop at h
    cases ht : tightenBounds sel s with
    | none => rw [ht] at h; cases h
    | some p =>
      obtain ⟨b, s1⟩ := p
      rw [ht] at h
      cases b with
      | true => exact .step ht (ih s1 s' h)
      | false =>
        simp only [Option.some.injEq] at h; subst h
        exact .step ht (.refl _)

/-- nothing to search: no heap ever gets a node -/
theorem bestMatch_none_of_nil {fs : List Int} {s : SS} (h : SInv fs s) (hσ : s.σ = []) (hu : s.u.es = []) :
    bestMatch s = none := by
  have ht : s.t.es = [] := by
    cases hes : s.t.es with
    | nil => rfl
    | cons e _ =>
      obtain ⟨a, ha, _⟩ := h.1.tOK e (by rw [hes]; simp)
      rw [hσ] at ha; cases ha
  unfold bestMatch
  simp [Heap.isEmpty, hu, ht]

end GtModel.Bounded

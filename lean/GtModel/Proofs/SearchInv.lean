/- `IterativeTighteningSearch`: order lemmas on `Range.lt`, abstract-heap lemmas, the search invariant. -/
import GtModel.Proofs.SearchLemmas
import GtModel.Proofs.BoundedLemmas

namespace GtModel
namespace Range

theorem lt_iff (a b : Range) : Range.lt a b = true ↔
    Bound.lt a.hi b.hi = true ∨ (a.hi = b.hi ∧ Bound.lt a.lo b.lo = true) := by
  simp [Range.lt]

theorem not_lt_iff (a b : Range) : Range.lt a b = false ↔
    Bound.lt a.hi b.hi = false ∧ (a.hi = b.hi → Bound.lt a.lo b.lo = false) := by
  cases h : Range.lt a b
  · simp only [true_iff]
    constructor
    · cases h1 : Bound.lt a.hi b.hi
      · rfl
      · have := (lt_iff a b).mpr (.inl h1); rw [h] at this; cases this
    · intro he
      cases h2 : Bound.lt a.lo b.lo
      · rfl
      · have := (lt_iff a b).mpr (.inr ⟨he, h2⟩); rw [h] at this; cases this
  · simp only [Bool.true_eq_false, false_iff]
    rintro ⟨h1, h2⟩
    rcases (lt_iff a b).mp h with h' | ⟨he, h'⟩
    · rw [h1] at h'; cases h'
    · rw [h2 he] at h'; cases h'

theorem lt_irrefl (a : Range) : Range.lt a a = false := by
  rw [not_lt_iff]; exact ⟨Bound.lt_irrefl _, fun _ => Bound.lt_irrefl _⟩

theorem lt_trans {a b c : Range} (h1 : Range.lt a b = true) (h2 : Range.lt b c = true) : Range.lt a c = true := by
  rw [lt_iff] at *
  rcases h1 with h1 | ⟨e1, l1⟩ <;> rcases h2 with h2 | ⟨e2, l2⟩
  · exact .inl (Bound.lt_trans h1 h2)
  · exact .inl (by rw [← e2]; exact h1)
  · exact .inl (by rw [e1]; exact h2)
  · exact .inr ⟨e1.trans e2, Bound.lt_trans l1 l2⟩

theorem lt_asymm {a b : Range} (h : Range.lt a b = true) : Range.lt b a = false := by
  cases h' : Range.lt b a
  · rfl
  · have := lt_trans h h'; rw [lt_irrefl] at this; cases this

/-- `a ≥ b` and `b ≥ c` give `a ≥ c` -/
theorem not_lt_trans {a b c : Range} (h1 : Range.lt a b = false) (h2 : Range.lt b c = false) :
    Range.lt a c = false := by
  rw [not_lt_iff] at *
  obtain ⟨p1, q1⟩ := h1
  obtain ⟨p2, q2⟩ := h2
  have l1 := Bound.not_lt_iff_le.mp p1
  have l2 := Bound.not_lt_iff_le.mp p2
  refine ⟨Bound.not_lt_iff_le.mpr (Bound.le_trans l2 l1), ?_⟩
  intro he
  have e1 : a.hi = b.hi := Bound.le_antisymm (by rw [he]; exact l2) l1
  have e2 : b.hi = c.hi := by rw [← e1, he]
  have m1 := Bound.not_lt_iff_le.mp (q1 e1)
  have m2 := Bound.not_lt_iff_le.mp (q2 e2)
  exact Bound.not_lt_iff_le.mpr (Bound.le_trans m2 m1)

theorem hi_le_of_not_lt {x m : Range} (h : Range.lt x m = false) : Bound.le m.hi x.hi = true :=
  Bound.not_lt_iff_le.mp ((not_lt_iff x m).mp h).1

theorem hi_le_of_lt {a b : Range} (h : Range.lt a b = true) : Bound.le a.hi b.hi = true := by
  rcases (lt_iff a b).mp h with h | ⟨e, _⟩
  · exact Bound.le_of_lt h
  · rw [e]; exact Bound.le_refl _

end Range
end GtModel

namespace GtModel.Bounded
open GtModel

/-! ## abstract heaps -/

/-- `_min` is `None` only for an empty heap, otherwise a node of the heap with minimal (stale) key -/
def HeapOK (h : Heap) : Prop :=
  (h.min = none → h.es = []) ∧ ∀ m, h.min = some m → m ∈ h.es ∧ ∀ x ∈ h.es, Range.lt x.key m.key = false

theorem HeapOK.empty : HeapOK Heap.empty := ⟨fun _ => rfl, fun m h => by cases h⟩

theorem push_es (h : Heap) (nid item : Nat) (key : Range) : (h.push nid item key).es = h.es ++ [⟨nid, item, key⟩] := by
  unfold Heap.push; split <;> rfl

theorem HeapOK.push {h : Heap} (hk : HeapOK h) (nid item : Nat) (key : Range) : HeapOK (h.push nid item key) := by
  unfold Heap.push
  split
  · rename_i hm
    have := hk.1 hm
    refine ⟨fun h' => (by cases h'), ?_⟩
    intro m hm'
    cases hm'
    rw [this]
    refine ⟨by simp, ?_⟩
    intro x hx; simp at hx; subst hx; exact Range.lt_irrefl _
  · rename_i m hm
    obtain ⟨mem, mn⟩ := hk.2 m hm
    refine ⟨fun h' => (by split at h' <;> cases h'), ?_⟩
    intro m' hm'
    split at hm'
    · rename_i hlt
      cases hm'
      refine ⟨by simp, ?_⟩
      intro x hx
      simp at hx
      rcases hx with hx | rfl
      · cases hx' : Range.lt x.key key
        · rfl
        · have := Range.lt_trans hx' hlt; rw [mn x hx] at this; cases this
      · exact Range.lt_irrefl _
    · rename_i hlt
      cases hm'
      refine ⟨by simp [mem], ?_⟩
      intro x hx
      simp at hx
      rcases hx with hx | rfl
      · exact mn x hx
      · simpa using hlt

theorem isMinIn_spec {es : List HEntry} {e : HEntry} (h : Heap.isMinIn es e = true) :
    e ∈ es ∧ ∀ x ∈ es, Range.lt x.key e.key = false := by
  unfold Heap.isMinIn at h
  simp at h
  exact ⟨h.1, fun x hx => h.2 x hx⟩

theorem firstMin_spec : ∀ (es : List HEntry), (Heap.firstMin es = none → es = []) ∧
    ∀ m, Heap.firstMin es = some m → m ∈ es ∧ ∀ x ∈ es, Range.lt x.key m.key = false
  | [] => ⟨fun _ => rfl, fun m h => by simp [Heap.firstMin] at h⟩
  | e :: es => by
    obtain ⟨ih1, ih2⟩ := firstMin_spec es
    unfold Heap.firstMin
    cases hf : Heap.firstMin es with
    | none =>
      have := ih1 hf; subst this
      refine ⟨fun h => (by cases h), ?_⟩
      intro m hm; cases hm
      exact ⟨by simp, fun x hx => by simp at hx; subst hx; exact Range.lt_irrefl _⟩
    | some m0 =>
      obtain ⟨mem, mn⟩ := ih2 m0 hf
      simp only []
      refine ⟨fun h => (by split at h <;> cases h), ?_⟩
      intro m hm
      split at hm
      · rename_i hlt
        cases hm
        refine ⟨by simp [mem], ?_⟩
        intro x hx; simp at hx
        rcases hx with rfl | hx
        · exact Range.lt_asymm hlt
        · exact mn x hx
      · rename_i hlt
        cases hm
        refine ⟨by simp, ?_⟩
        intro x hx; simp at hx
        rcases hx with rfl | hx
        · exact Range.lt_irrefl _
        · exact Range.not_lt_trans (mn x hx) (by simpa using hlt)

theorem newMinOf_ok (es' : List HEntry) (ans : Option Nat) : HeapOK ⟨es', (newMinOf es' ans).1⟩ := by
  unfold newMinOf
  cases es' with
  | nil => exact ⟨fun _ => rfl, fun m h => by cases h⟩
  | cons e0 es0 =>
    simp only []
    have fm := firstMin_spec (e0 :: es0)
    have viaFirst : HeapOK ⟨e0 :: es0, Heap.firstMin (e0 :: es0)⟩ := ⟨fun h => fm.1 h, fun m h => fm.2 m h⟩
    split
    · rename_i e _
      split
      · rename_i hmin
        have := isMinIn_spec hmin
        exact ⟨fun h => (by cases h), fun m h => (by cases h; exact this)⟩
      · exact viaFirst
    · exact viaFirst

/-- the fields of the state after removing a node of `_untightened` -/
theorem popNode_u (sel : Sel) (s : SS) (node : HEntry) :
    (popNode sel s false node).u.es = s.u.es.erase node ∧ HeapOK (popNode sel s false node).u ∧
    (popNode sel s false node).t = s.t ∧ (popNode sel s false node).σ = s.σ ∧
    (popNode sel s false node).unproc = s.unproc ∧ (popNode sel s false node).ib = s.ib ∧
    (popNode sel s false node).unsupported = s.unsupported := by
  unfold popNode
  refine ⟨?_, ?_, ?_, ?_, ?_, ?_, ?_⟩ <;> first | rfl | exact newMinOf_ok _ _

/-! ## the minimum stale lower bound -/

theorem min'_le_left (a b : Bound) : Bound.le (Bound.min' a b) a = true := by
  unfold Bound.min'; split
  · rename_i h; exact Bound.le_of_lt h
  · exact Bound.le_refl _

theorem min'_le_right (a b : Bound) : Bound.le (Bound.min' a b) b = true := by
  unfold Bound.min'; split
  · exact Bound.le_refl _
  · rename_i h; exact Bound.not_lt_iff_le.mp (by simpa using h)

theorem min'_cases (a b : Bound) : Bound.min' a b = a ∨ Bound.min' a b = b := by
  unfold Bound.min'; split
  · exact .inr rfl
  · exact .inl rfl

theorem le_min' {c a b : Bound} (h1 : Bound.le c a = true) (h2 : Bound.le c b = true) :
    Bound.le c (Bound.min' a b) = true := by
  rcases min'_cases a b with h | h <;> rw [h] <;> assumption

def foldLb (es : List HEntry) (init : Bound) : Bound := es.foldl (fun lb e => Bound.min' e.key.lo lb) init

theorem foldLb_spec : ∀ (es : List HEntry) (init : Bound),
    Bound.le (foldLb es init) init = true ∧ (∀ e ∈ es, Bound.le (foldLb es init) e.key.lo = true) ∧
    (foldLb es init = init ∨ ∃ e ∈ es, foldLb es init = e.key.lo) ∧
    (∀ c, Bound.le c init = true → (∀ e ∈ es, Bound.le c e.key.lo = true) → Bound.le c (foldLb es init) = true)
  | [], init => ⟨Bound.le_refl _, fun e h => (by cases h), .inl rfl, fun c h _ => h⟩
  | e0 :: es, init => by
    obtain ⟨i1, i2, i3, i4⟩ := foldLb_spec es (Bound.min' e0.key.lo init)
    have e : foldLb (e0 :: es) init = foldLb es (Bound.min' e0.key.lo init) := rfl
    rw [e]
    refine ⟨Bound.le_trans i1 (min'_le_right _ _), ?_, ?_, ?_⟩
    · intro x hx; simp at hx
      rcases hx with rfl | hx
      · exact Bound.le_trans i1 (min'_le_left _ _)
      · exact i2 x hx
    · rcases i3 with h | ⟨x, hx, h⟩
      · rcases min'_cases e0.key.lo init with h' | h'
        · exact .inr ⟨e0, by simp, h.trans h'⟩
        · exact .inl (h.trans h')
      · exact .inr ⟨x, by simp [hx], h⟩
    · intro c hc hall
      exact i4 c (le_min' (hall e0 (by simp)) hc) (fun x hx => hall x (by simp [hx]))

theorem staleLb_eq (s : SS) : staleLb s = foldLb (s.u.es ++ s.t.es) .posInf := rfl

end GtModel.Bounded

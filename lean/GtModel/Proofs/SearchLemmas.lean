/- `IterativeTighteningSearch`: progress measure, termination of `tighten_bounds` and `search`. -/
import GtModel.Model.Search
import GtModel.Proofs.BoundLemmas

namespace GtModel.Bounded
open GtModel

def StepRes.st : StepRes → SS
  | .ret _ s => s
  | .cont s => s

/-- same items and same unprocessed input -/
def Same (s s' : SS) : Prop := s'.σ = s.σ ∧ s'.unproc = s.unproc

theorem Same.measure {s s' : SS} (h : Same s s') : s'.measure = s.measure := by
  unfold SS.measure; rw [h.1, h.2]

theorem Same.trans {a b c : SS} (h1 : Same a b) (h2 : Same b c) : Same a c :=
  ⟨h2.1.trans h1.1, h2.2.trans h1.2⟩

theorem popNode_same (sel : Sel) (s : SS) (isT : Bool) (node : HEntry) : Same s (popNode sel s isT node) := by
  unfold popNode
  simp only []
  split <;> exact ⟨rfl, rfl⟩

theorem pushU_same (s : SS) (i : Nat) : Same s (pushU s i) := by
  unfold pushU; split <;> exact ⟨rfl, rfl⟩

theorem pushT_same (s : SS) (i : Nat) : Same s (pushT s i) := by
  unfold pushT; split <;> exact ⟨rfl, rfl⟩

theorem pushByDef_same (s : SS) (i : Nat) : Same s (pushByDef s i) := by
  unfold pushByDef; split
  · exact ⟨rfl, rfl⟩
  · split
    · exact pushT_same s i
    · exact pushU_same s i

theorem updateBounds_same (sel : Sel) (s : SS) (node : HEntry) : Same s (updateBounds sel s node) := by
  unfold updateBounds
  repeat' split
  all_goals first
    | exact ⟨rfl, rfl⟩
    | exact popNode_same _ _ _ _
    | exact (popNode_same _ _ _ _).trans (pushT_same _ _)
    | exact (popNode_same _ _ _ _).trans (pushU_same _ _)

theorem measure_le {s s' : SS} (h1 : total s'.σ ≤ total s.σ) (h2 : s'.unproc = s.unproc) : s'.measure ≤ s.measure := by
  unfold SS.measure; rw [h2]; omega

theorem lenOne_le' (s : SS) : total (lenOne s).σ ≤ total s.σ ∧ (lenOne s).unproc = s.unproc := by
  unfold lenOne
  split
  · split
    · exact ⟨Nat.le_refl _, rfl⟩
    · rename_i x _
      have hle := total_tightenAt_le s.σ x
      simp only []
      split
      · exact ⟨hle, rfl⟩
      · split
        · have := pushT_same { s with σ := (tightenAt s.σ x).2, u := Heap.empty } x
          rw [this.1, this.2]; exact ⟨hle, rfl⟩
        · exact ⟨hle, rfl⟩
  · exact ⟨Nat.le_refl _, rfl⟩

theorem lenOne_le (s : SS) : (lenOne s).measure ≤ s.measure ∧ (lenOne s).unproc = s.unproc :=
  ⟨measure_le (lenOne_le' s).1 (lenOne_le' s).2, (lenOne_le' s).2⟩

theorem intake_spec (s : SS) :
    (intake s).2.measure ≤ s.measure ∧ (s.unproc.isSome = true → (intake s).2.measure < s.measure) ∧
    (s.unproc = none → intake s = (none, s)) ∧ ((intake s).2.unproc.isSome = true → s.unproc.isSome = true) := by
  unfold intake
  split
  · rename_i h
    refine ⟨Nat.le_refl _, ?_, fun _ => rfl, ?_⟩
    · intro h'; rw [h] at h'; cases h'
    · intro h'; exact h'
  · rename_i h
    refine ⟨?_, ?_, ?_, ?_⟩
    · simp [SS.measure, h]
    · intro _; simp [SS.measure, h]
    · intro h'; rw [h] at h'; cases h'
    · intro _; rw [h]; rfl
  · rename_i k ks h
    have hs : s.unproc.isSome = true := by rw [h]; rfl
    split
    · refine ⟨?_, ?_, ?_, fun _ => hs⟩
      · simp [SS.measure, h]
      · intro _; simp [SS.measure, h]
      · intro h'; rw [h] at h'; cases h'
    · split
      · have := pushByDef_same { s with unproc := none, u := Heap.empty, t := Heap.empty } k
        refine ⟨?_, ?_, ?_, fun _ => hs⟩
        · simp only []; rw [SS.measure, this.1, this.2]; simp [SS.measure, h] <;> omega
        · intro _; simp only []; rw [SS.measure, this.1, this.2]; simp [SS.measure, h] <;> omega
        · intro h'; rw [h] at h'; cases h'
      · have := pushByDef_same { s with unproc := some ks } k
        refine ⟨?_, ?_, ?_, fun _ => hs⟩
        · simp only []; rw [SS.measure, this.1, this.2]; simp [SS.measure, h]
        · intro _; simp only []; rw [SS.measure, this.1, this.2]; simp [SS.measure, h]
        · intro h'; rw [h] at h'; cases h'

theorem tbFin_spec (start : Range) (s : SS) (tg : Bool) :
    (tbFin start s tg).st = s ∧
    (∀ s', tbFin start s tg = .cont s' → boundsMoved start s = false ∧ (s.unproc.isSome = true ∨ tg = true)) ∧
    (∀ s', tbFin start s tg = .ret true s' → boundsMoved start s = true ∨ False) := by
  unfold tbFin
  split
  · rename_i h; exact ⟨rfl, (by intro s' h'; cases h'), (by intro s' _; exact .inl h)⟩
  · rename_i h
    split
    · exact ⟨rfl, (by intro s' h'; cases h'), (by intro s' h'; cases h')⟩
    · rename_i h2
      refine ⟨rfl, ?_, (by intro s' h'; cases h')⟩
      intro s' _
      refine ⟨by simpa using h, ?_⟩
      cases hu : s.unproc <;> cases tg <;> simp_all

/-- the body of an iteration never increases the measure, keeps `_unprocessed`, and:
`cont` means progress or pending input, with bounds unmoved; `ret true` means progress or bounds moved without any
change of state. -/
theorem tbBody_spec (sel : Sel) (start : Range) (s : SS) :
    (tbBody sel start s).st.measure ≤ s.measure ∧ (tbBody sel start s).st.unproc = s.unproc ∧
    (∀ s', tbBody sel start s = .cont s' →
      boundsMoved start s' = false ∧ (s'.measure < s.measure ∨ s.unproc.isSome = true)) ∧
    (∀ s', tbBody sel start s = .ret true s' → s'.measure < s.measure ∨ (s' = s ∧ boundsMoved start s = true)) := by
  unfold tbBody
  split
  · -- no untightened item
    obtain ⟨e, c, r⟩ := tbFin_spec start s false
    refine ⟨by rw [e]; exact Nat.le_refl _, by rw [e], ?_, ?_⟩
    · intro s' h
      have : s' = s := by rw [← e, h]; rfl
      subst this
      obtain ⟨m, p⟩ := c _ h
      exact ⟨m, .inr (by simpa using p)⟩
    · intro s' h
      have : s' = s := by rw [← e, h]; rfl
      subst this
      rcases r _ h with m | f
      · exact .inr ⟨rfl, m⟩
      · exact f.elim
  · simp only []
    generalize hs1 : (if s.unproc.isNone = true then lenOne s else s) = s1
    have h1 : s1.measure ≤ s.measure ∧ s1.unproc = s.unproc := by
      rw [← hs1]; split
      · exact lenOne_le s
      · exact ⟨Nat.le_refl _, rfl⟩
    split
    · -- goal reached
      split
      · refine ⟨by simp only [StepRes.st, SS.measure]; exact h1.1, h1.2, (by intro s' h; cases h), (by intro s' h; cases h)⟩
      · rename_i best _
        have sm := pushByDef_same { s1 with σ := (tightenAt s1.σ best).2, u := Heap.empty, t := Heap.empty } best
        have hle := total_tightenAt_le s1.σ best
        have m1 : (pushByDef { s1 with σ := (tightenAt s1.σ best).2, u := Heap.empty, t := Heap.empty } best).measure
            = total (tightenAt s1.σ best).2 + (s1.measure - total s1.σ) := by
          rw [SS.measure, sm.1, sm.2]; simp only [SS.measure]; omega
        have m0 : s1.measure = total s1.σ + (s1.measure - total s1.σ) := by simp only [SS.measure]; omega
        refine ⟨by simp only [StepRes.st]; omega, by simp only [StepRes.st]; rw [sm.2]; exact h1.2,
          (by intro s' h; cases h), ?_⟩
        intro s' h
        simp only [StepRes.ret.injEq] at h
        obtain ⟨ht, rfl⟩ := h
        left
        have := total_tightenAt_true ht
        omega
    · split
      · refine ⟨by simp only [StepRes.st, SS.measure]; exact h1.1, h1.2, (by intro s' h; cases h), (by intro s' h; cases h)⟩
      · rename_i node _
        have hle := total_tightenAt_le s1.σ node.item
        split
        · rename_i ht
          have sm := updateBounds_same sel { s1 with σ := (tightenAt s1.σ node.item).2 } node
          have hdec := total_tightenAt_true ht
          generalize updateBounds sel { s1 with σ := (tightenAt s1.σ node.item).2 } node = U at sm ⊢
          obtain ⟨e, c, r⟩ := tbFin_spec start U true
          have m1 : U.measure + 1 = s1.measure := by
            rw [SS.measure, sm.1, sm.2]; simp only [SS.measure]; omega
          refine ⟨by rw [e]; omega, by rw [e, sm.2]; exact h1.2, ?_, ?_⟩
          · intro s' h
            have : s' = U := by rw [← e, h]; rfl
            obtain ⟨m, _⟩ := c _ h
            subst this
            exact ⟨m, .inl (by omega)⟩
          · intro s' h
            have : s' = U := by rw [← e, h]; rfl
            subst this
            exact .inl (by omega)
        · refine ⟨?_, h1.2, (by intro s' h; cases h), (by intro s' h; cases h)⟩
          simp only [StepRes.st, SS.measure]
          have := h1.1
          simp only [SS.measure] at this
          rw [h1.2] at this ⊢
          omega

theorem tbIter_spec (sel : Sel) (start : Range) (s : SS) :
    (tbIter sel start s).st.measure ≤ s.measure ∧
    (∀ s', tbIter sel start s = .cont s' → boundsMoved start s' = false ∧ s'.measure < s.measure) ∧
    (∀ s', tbIter sel start s = .ret true s' → s'.measure < s.measure ∨ boundsMoved start s = true) := by
  obtain ⟨i1, i2, i3, i4⟩ := intake_spec s
  unfold tbIter
  split
  · rename_i b s1 hin
    have e : (intake s).2 = s1 := by rw [hin]
    rw [e] at i1 i2
    refine ⟨i1, (by intro s' h; cases h), ?_⟩
    intro s' h
    cases h
    left
    apply i2
    cases hu : s.unproc with
    | none => rw [i3 hu] at hin; cases hin
    | some l => rfl
  · rename_i s1 hin
    have e : (intake s).2 = s1 := by rw [hin]
    rw [e] at i1 i2 i4
    obtain ⟨b1, b2, b3, b4⟩ := tbBody_spec sel start s1
    refine ⟨Nat.le_trans b1 i1, ?_, ?_⟩
    · intro s' h
      obtain ⟨m, p⟩ := b3 s' h
      refine ⟨m, ?_⟩
      rcases p with p | p
      · omega
      · have := i2 (i4 p)
        have : s'.measure ≤ s1.measure := by
          have := b1; rw [h] at this; exact this
        omega
    · intro s' h
      rcases b4 s' h with p | ⟨rfl, p⟩
      · left; omega
      · cases hu : s.unproc with
        | none =>
          rw [i3 hu] at hin; cases hin
          exact .inr p
        | some l =>
          left; exact i2 (by simp [hu])

/-- `tighten_bounds()` returns with the fuel `measure + 1`; a `True` answer means the measure strictly decreased -/
theorem tbLoop_spec (sel : Sel) (start : Range) : ∀ (f : Nat) (s : SS), s.measure + 1 ≤ f →
    boundsMoved start s = false →
    ∃ b s', tbLoop sel start f s = some (b, s') ∧ s'.measure ≤ s.measure ∧ (b = true → s'.measure < s.measure) := by
  intro f
  induction f with
  | zero => intro s h; omega
  | succ f ih =>
    intro s hf hm
    obtain ⟨a1, a2, a3⟩ := tbIter_spec sel start s
    unfold tbLoop
    cases hres : tbIter sel start s with
    | ret b s' =>
      simp only []
      refine ⟨b, s', rfl, by rw [hres] at a1; exact a1, ?_⟩
      intro hb; subst hb
      rcases a3 s' hres with p | p
      · exact p
      · rw [hm] at p; cases p
    | cont s' =>
      simp only []
      obtain ⟨m, p⟩ := a2 s' hres
      obtain ⟨b, s'', e, l1, l2⟩ := ih s' (by omega) m
      exact ⟨b, s'', e, by omega, fun hb => by have := l2 hb; omega⟩

theorem boundsMoved_self (s : SS) : boundsMoved (boundsOf s) s = false := by
  simp [boundsMoved, Bound.lt_irrefl]

theorem tightenBounds_spec (sel : Sel) (s : SS) :
    ∃ b s', tightenBounds sel s = some (b, s') ∧ s'.measure ≤ s.measure ∧ (b = true → s'.measure < s.measure) :=
  tbLoop_spec sel (boundsOf s) _ s (Nat.le_refl _) (boundsMoved_self s)

theorem searchLoop_spec (sel : Sel) : ∀ (f : Nat) (s : SS), s.measure + 1 ≤ f →
    ∃ s', searchLoop sel f s = some s' ∧ s'.measure ≤ s.measure := by
  intro f
  induction f with
  | zero => intro s h; omega
  | succ f ih =>
    intro s hf
    obtain ⟨b, s', e, l1, l2⟩ := tightenBounds_spec sel s
    unfold searchLoop
    rw [e]
    cases b with
    | false => exact ⟨s', rfl, l1⟩
    | true =>
      simp only []
      have := l2 rfl
      obtain ⟨s'', e', l⟩ := ih s' (by omega)
      exact ⟨s'', e', by omega⟩

end GtModel.Bounded

/- `IterativeTighteningSearch`: `bounds()` always contains the minimum final cost; the result of `search()`. -/
import GtModel.Proofs.SearchStep5

namespace GtModel.Bounded
open GtModel

/-- under the invariant, `bounds()` contains the minimum final cost -/
theorem bounds_contains {fs : List Int} {s : SS} (h : SInv fs s) {j : Nat} {n : Int} (hj : fs[j]? = some n)
    (hmin : ∀ (k : Nat) (nk : Int), fs[k]? = some nk → n ≤ nk) :
    (boundsOf s).contains (Range.point n) = true := by
  obtain ⟨hc, ha⟩ := h
  cases hb : bestMatch s with
  | none => rw [boundsOf_none hb, hc.ib]; simp [Range.contains, Range.point, Bound.le, Bound.lt]
  | some b =>
    obtain ⟨hun, hcase⟩ := bestMatch_cases hb
    have hmem : ∃ m, (m ∈ s.u.es ∨ m ∈ s.t.es) ∧ m.item = b := by
      rcases hcase with ⟨m, hm, hmi⟩ | ⟨m, hm, hmi⟩
      · exact ⟨m, .inl (hc.uHeap.2 m hm).1, hmi⟩
      · exact ⟨m, .inr (hc.tHeap.2 m hm).1, hmi⟩
    obtain ⟨m, hm, hmi⟩ := hmem
    obtain ⟨a, nb, hab, hnb, va, _, _⟩ := hc.entry_final hm
    rw [hmi] at hab hnb
    have hne : s.σ ≠ [] := by intro h0; rw [h0] at hab; cases hab
    obtain ⟨i, ⟨ni, hni, hmini⟩, hal⟩ := ha hne
    have hin : ∃ e, (e ∈ s.u.es ∨ e ∈ s.t.es) ∧ e.item = i := by
      rcases hal with ⟨l, hl, _⟩ | ⟨e, he, hi⟩ | ⟨e, he, hi⟩
      · rw [hun] at hl; cases hl
      · exact ⟨e, .inl he, hi⟩
      · exact ⟨e, .inr he, hi⟩
    obtain ⟨e, he, hei⟩ := hin
    obtain ⟨_, ne, _, hne', _, lfin, _⟩ := hc.entry_final he
    rw [hei, hni] at hne'; cases hne'
    have e1 : ni ≤ n := hmini j n hj
    rw [boundsOf_some hb (curAt_of_get hab), hc.lb_eq he]
    simp only [Range.contains, Range.point, Bool.and_eq_true]
    constructor
    · exact Bound.le_trans (Bound.le_trans (Bound.le_trans (min'_le_left _ _) (staleLb_le he)) lfin)
        (Bound.fin_le_fin.mpr e1)
    · exact Bound.le_trans (Bound.fin_le_fin.mpr (hmin b nb hnb)) va.contains.2

/-- the result of `search()` from the initial state with the default `initial_bounds` -/
theorem search_result {σ : St} {fs : List Int} (hv : ValidSt σ fs) (sel : Sel) {s' : SS}
    (h : search sel (SS.init σ ⟨.negInf, .posInf⟩) = some s') :
    SInv fs s' ∧ s'.unproc = none ∧ s'.u.es = [] :=
  searchLoop_inv sel _ _ s' (SInv.init hv) h

end GtModel.Bounded

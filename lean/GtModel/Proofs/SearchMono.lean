/- `IterativeTighteningSearch`: `bounds()` never widens — generic part. -/
import GtModel.Proofs.SearchMain

namespace GtModel
namespace Range
theorem contains_refl (a : Range) : a.contains a = true := by simp [Range.contains, Bound.le_refl]
theorem contains_trans {a b c : Range} (h1 : a.contains b = true) (h2 : b.contains c = true) :
    a.contains c = true := by
  simp only [Range.contains, Bool.and_eq_true] at *
  exact ⟨Bound.le_trans h1.1 h2.1, Bound.le_trans h2.2 h1.2⟩
theorem top_contains (a : Range) : (⟨.negInf, .posInf⟩ : Range).contains a = true := by
  rcases a with ⟨l, u⟩
  cases l <;> cases u <;> simp [Range.contains, Bound.le, Bound.lt]
end Range
end GtModel

namespace GtModel.Bounded
open GtModel

/-- `bounds()` of `s'` lies inside `bounds()` of `s` -/
def Mono (s s' : SS) : Prop := (boundsOf s).contains (boundsOf s') = true

theorem Mono.refl (s : SS) : Mono s s := Range.contains_refl _
theorem Mono.trans {a b c : SS} (h1 : Mono a b) (h2 : Mono b c) : Mono a c := Range.contains_trans h1 h2

theorem mono_of_pending {fs : List Int} {s : SS} (hc : SCore fs s) (hb : bestMatch s = none) (s' : SS) : Mono s s' := by
  unfold Mono; rw [boundsOf_none hb, hc.ib]; exact Range.top_contains _

/-- every stale lower bound of `s'` is at least some stale lower bound of `s` -/
def LbUp (s s' : SS) : Prop :=
  ∀ e', (e' ∈ s'.u.es ∨ e' ∈ s'.t.es) → ∃ e, (e ∈ s.u.es ∨ e ∈ s.t.es) ∧ Bound.le e.key.lo e'.key.lo = true

/-- `m` is one of the (at most two) nodes `best_match` chooses from -/
def Cand (s : SS) (m : HEntry) : Prop := s.u.min = some m ∨ s.t.min = some m

/-- for every candidate of `s` there is a candidate of `s'` whose current upper bound is not larger -/
def HiDown (s s' : SS) : Prop :=
  ∀ m a, Cand s m → s.σ[m.item]? = some a →
    ∃ m' a', Cand s' m' ∧ s'.σ[m'.item]? = some a' ∧ Bound.le a'.cur.hi a.cur.hi = true

theorem HeapOK.min_none_of_nil {h : Heap} (hk : HeapOK h) (he : h.es = []) : h.min = none := by
  cases hm : h.min with
  | none => rfl
  | some m => have := (hk.2 m hm).1; rw [he] at this; cases this

theorem HeapOK.isEmpty_iff {h : Heap} (hk : HeapOK h) : h.isEmpty = true ↔ h.min = none := by
  unfold Heap.isEmpty
  constructor
  · intro he; exact hk.min_none_of_nil (by simpa using he)
  · intro hm; rw [hk.1 hm]; rfl

/-- `best_match` is the candidate with the smaller current upper bound -/
theorem best_hi {fs : List Int} {s : SS} (hc : SCore fs s) (hun : s.unproc = none) {m0 : HEntry} (h0 : Cand s m0) :
    ∃ mb ab, Cand s mb ∧ bestMatch s = some mb.item ∧ s.σ[mb.item]? = some ab ∧
      ∀ m a, Cand s m → s.σ[m.item]? = some a → Bound.le ab.cur.hi a.cur.hi = true := by
  have getU : ∀ m, s.u.min = some m → ∃ a, s.σ[m.item]? = some a := by
    intro m hm
    obtain ⟨a, ha, _⟩ := hc.uOK m (hc.uHeap.2 m hm).1
    exact ⟨a, ha⟩
  have getT : ∀ m, s.t.min = some m → ∃ a, s.σ[m.item]? = some a := by
    intro m hm
    obtain ⟨a, ha, _⟩ := hc.tOK m (hc.tHeap.2 m hm).1
    exact ⟨a, ha⟩
  cases hmu : s.u.min with
  | none =>
    cases hmt : s.t.min with
    | none => rcases h0 with h | h <;> simp [hmu, hmt] at h
    | some mt =>
      obtain ⟨at', hat⟩ := getT mt hmt
      refine ⟨mt, at', .inr hmt, ?_, hat, ?_⟩
      · unfold bestMatch
        have h1 : s.u.isEmpty = true := hc.uHeap.isEmpty_iff.mpr hmu
        have h2 : s.t.isEmpty = false := by
          cases h : s.t.isEmpty
          · rfl
          · have := hc.tHeap.isEmpty_iff.mp h; rw [hmt] at this; cases this
        simp [hun, h1, h2, peek_eq, hmt]
      · intro m a hm ha
        rcases hm with h | h
        · rw [hmu] at h; cases h
        · rw [hmt] at h; cases h
          rw [hat] at ha; cases ha; exact Bound.le_refl _
  | some mu =>
    obtain ⟨au, hau⟩ := getU mu hmu
    have h1 : s.u.isEmpty = false := by
      cases h : s.u.isEmpty
      · rfl
      · have := hc.uHeap.isEmpty_iff.mp h; rw [hmu] at this; cases this
    cases hmt : s.t.min with
    | none =>
      refine ⟨mu, au, .inl hmu, ?_, hau, ?_⟩
      · unfold bestMatch
        have h2 : s.t.isEmpty = true := hc.tHeap.isEmpty_iff.mpr hmt
        simp [hun, h1, h2, peek_eq, hmu]
      · intro m a hm ha
        rcases hm with h | h
        · rw [hmu] at h; cases h
          rw [hau] at ha; cases ha; exact Bound.le_refl _
        · rw [hmt] at h; cases h
    | some mt =>
      obtain ⟨at', hat⟩ := getT mt hmt
      have h2 : s.t.isEmpty = false := by
        cases h : s.t.isEmpty
        · rfl
        · have := hc.tHeap.isEmpty_iff.mp h; rw [hmt] at this; cases this
      cases hlt : Range.lt au.cur at'.cur with
      | true =>
        refine ⟨mu, au, .inl hmu, ?_, hau, ?_⟩
        · unfold bestMatch
          simp [hun, h1, h2, peek_eq, hmu, hmt, curAt_of_get hau, curAt_of_get hat, hlt]
        · intro m a hm ha
          rcases hm with h | h
          · rw [hmu] at h; cases h
            rw [hau] at ha; cases ha; exact Bound.le_refl _
          · rw [hmt] at h; cases h
            rw [hat] at ha; cases ha; exact Range.hi_le_of_lt hlt
      | false =>
        refine ⟨mt, at', .inr hmt, ?_, hat, ?_⟩
        · unfold bestMatch
          simp [hun, h1, h2, peek_eq, hmu, hmt, curAt_of_get hau, curAt_of_get hat, hlt]
        · intro m a hm ha
          rcases hm with h | h
          · rw [hmu] at h; cases h
            rw [hau] at ha; cases ha; exact Range.hi_le_of_not_lt hlt
          · rw [hmt] at h; cases h
            rw [hat] at ha; cases ha; exact Bound.le_refl _

/-- a node of `_tightened` bounds the current upper bound of `_tightened`'s minimum from above -/
theorem t_cand {fs : List Int} {s : SS} (hc : SCore fs s) {e : HEntry} (he : e ∈ s.t.es) :
    ∃ m a, s.t.min = some m ∧ s.σ[m.item]? = some a ∧ Bound.le a.cur.hi e.key.hi = true := by
  cases hm : s.t.min with
  | none => have := hc.tHeap.1 hm; rw [this] at he; cases he
  | some m =>
    obtain ⟨mem, mn⟩ := hc.tHeap.2 m hm
    obtain ⟨a, ha, _, hk⟩ := hc.tOK m mem
    exact ⟨m, a, rfl, ha, by rw [← hk]; exact Range.hi_le_of_not_lt (mn e he)⟩

theorem u_cand {fs : List Int} {s : SS} (hc : SCore fs s) {e : HEntry} (he : e ∈ s.u.es) :
    ∃ m a, s.u.min = some m ∧ s.σ[m.item]? = some a ∧ Bound.le a.cur.hi e.key.hi = true := by
  cases hm : s.u.min with
  | none => have := hc.uHeap.1 hm; rw [this] at he; cases he
  | some m =>
    obtain ⟨mem, mn⟩ := hc.uHeap.2 m hm
    obtain ⟨a, ha, _, _, l2⟩ := hc.uOK m mem
    exact ⟨m, a, rfl, ha, Bound.le_trans l2 (Range.hi_le_of_not_lt (mn e he))⟩

theorem Cand.mem {fs : List Int} {s : SS} (hc : SCore fs s) {m : HEntry} (h : Cand s m) : m ∈ s.u.es ∨ m ∈ s.t.es := by
  rcases h with h | h
  · exact .inl (hc.uHeap.2 m h).1
  · exact .inr (hc.tHeap.2 m h).1

theorem staleLb_mono {s s' : SS} (h : LbUp s s') : Bound.le (staleLb s) (staleLb s') = true := by
  rw [staleLb_eq s']
  refine (foldLb_spec _ _).2.2.2 (staleLb s) (by cases staleLb s <;> simp [Bound.le, Bound.lt]) ?_
  intro e' he'
  obtain ⟨e, he, hle⟩ := h e' (by simpa using he')
  exact Bound.le_trans (staleLb_le he) hle

/-- the generic argument: stale lower bounds only go up, candidates' upper bounds only go down, and both bounds
contain the optimum — so `bounds()` does not widen -/
theorem mono_of {fs : List Int} {s s' : SS} (h : SInv fs s) (h' : SInv fs s') (hun : s.unproc = none → s'.unproc = none)
    (hlb : LbUp s s') (hhi : HiDown s s') : Mono s s' := by
  cases hb : bestMatch s with
  | none => exact mono_of_pending h.1 hb s'
  | some b =>
    obtain ⟨hun0, hcase⟩ := bestMatch_cases hb
    have hc0 : ∃ m0, Cand s m0 := by
      rcases hcase with ⟨m, hm, _⟩ | ⟨m, hm, _⟩
      · exact ⟨m, .inl hm⟩
      · exact ⟨m, .inr hm⟩
    obtain ⟨m0, hm0⟩ := hc0
    obtain ⟨mb, ab, cmb, hbm, hab, hA⟩ := best_hi h.1 hun0 hm0
    obtain ⟨m', a', cm', ha', hle⟩ := hhi mb ab cmb hab
    obtain ⟨mb', ab', cmb', hbm', hab', hA'⟩ := best_hi h'.1 (hun hun0) cm'
    have hne : s.σ ≠ [] := by intro h0; rw [h0] at hab; cases hab
    have hfs : fs ≠ [] := by
      intro h0; apply hne
      have := h.1.valid.1; rw [h0] at this
      exact List.eq_nil_of_length_eq_zero (by simpa using this)
    obtain ⟨j, _, n, hj, hmin⟩ := exists_opt fs hfs
    have c1 := bounds_contains h hj hmin
    have c2 := bounds_contains h' hj hmin
    unfold Mono
    rw [boundsOf_some hbm (curAt_of_get hab), h.1.lb_eq (Cand.mem h.1 cmb)] at c1 ⊢
    rw [boundsOf_some hbm' (curAt_of_get hab'), h'.1.lb_eq (Cand.mem h'.1 cmb')] at c2 ⊢
    simp only [Range.contains, Range.point, Bool.and_eq_true] at c1 c2 ⊢
    have hhi' : Bound.le ab'.cur.hi ab.cur.hi = true := Bound.le_trans (hA' m' a' cm' ha') hle
    refine ⟨le_min' ?_ ?_, hhi'⟩
    · exact Bound.le_trans (min'_le_left _ _) (staleLb_mono hlb)
    · exact Bound.le_trans c1.1 c2.2

end GtModel.Bounded

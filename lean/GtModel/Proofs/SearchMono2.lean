/- `IterativeTighteningSearch`: `bounds()` never widens — the `len == 1` block and the goal branch. -/
import GtModel.Proofs.SearchMono

namespace GtModel.Bounded
open GtModel

theorem LbUp.refl (s : SS) : LbUp s s := fun e he => ⟨e, he, Bound.le_refl _⟩

/-- tightening the item of an untightened node, with the relation between old and new bounds -/
theorem UEntryOK.tightenAt_rel {σ : St} {fs : List Int} (hv : ValidSt σ fs) {e : HEntry} (h : UEntryOK σ e) :
    ∃ a a', σ[e.item]? = some a ∧ (tightenAt σ e.item).2[e.item]? = some a' ∧ (tightenAt σ e.item).1 = true ∧
      Bound.le a'.cur.hi a.cur.hi = true ∧ Bound.le a.cur.lo a'.cur.lo = true ∧
      Bound.le e.key.lo a'.cur.lo = true ∧ Bound.le a'.cur.hi e.key.hi = true := by
  obtain ⟨ht, a', ha', l1, l2⟩ := h.tightenAt_self hv
  obtain ⟨a, ha, _, _, _⟩ := h
  obtain ⟨g1, _⟩ := tightenAt_get_eq ha
  rw [ha'] at g1; cases g1
  obtain ⟨n, _, va⟩ := hv.get ha
  have hc := va.tighten_contains
  simp [Range.contains] at hc
  exact ⟨a, _, ha, ha', ht, hc.2, hc.1, l1, l2⟩

/-- what the `len == 1` block does -/
theorem lenOne_cases {fs : List Int} {s : SS} (h : SInv fs s) :
    lenOne s = s ∨
    ∃ m a a', s.u.es = [m] ∧ s.u.min = some m ∧ s.σ[m.item]? = some a ∧
      (tightenAt s.σ m.item).2[m.item]? = some a' ∧ Bound.le a'.cur.hi a.cur.hi = true ∧
      Bound.le m.key.lo a'.cur.lo = true ∧
      ((a'.cur.definitive = false ∧ lenOne s = { s with σ := (tightenAt s.σ m.item).2 }) ∨
       (a'.cur.definitive = true ∧ lenOne s = { s with σ := (tightenAt s.σ m.item).2, u := Heap.empty, t := s.t.push s.next m.item a'.cur, next := s.next + 1 })) := by
  obtain ⟨hc, _⟩ := h
  unfold lenOne
  split
  · rename_i hlen
    right
    have hlen' : s.u.es.length = 1 := by simpa using hlen
    obtain ⟨e0, he0⟩ := List.length_eq_one_iff.mp hlen'
    cases hmin : s.u.min with
    | none => have := hc.uHeap.1 hmin; rw [this] at hlen'; simp at hlen'
    | some m =>
      obtain ⟨mem, _⟩ := hc.uHeap.2 m hmin
      have hm : m = e0 := by rw [he0] at mem; simpa using mem
      subst hm
      obtain ⟨a, a', ha, ha', ht, r1, _, r3, _⟩ := (hc.uOK m mem).tightenAt_rel hc.valid
      refine ⟨m, a, a', he0, rfl, ha, ha', r1, r3, ?_⟩
      rw [peek_eq, hmin]
      simp only [Option.map_some]
      rw [curAt_of_get ha']
      simp only [ht, Bool.true_and]
      cases hdef : a'.cur.definitive
      · left; simp
      · right
        simp only [↓reduceIte, true_and]
        rw [pushT_eq (s := { s with σ := (tightenAt s.σ m.item).2, u := Heap.empty }) (curAt_of_get ha')]
  · exact .inl rfl

theorem HiDown.refl (s : SS) : HiDown s s := fun m a hm ha => ⟨m, a, hm, ha, Bound.le_refl _⟩

/-- a tightened node's item keeps its bounds when some item is tightened -/
theorem TEntryOK.cur_tightenAt {σ : St} {e : HEntry} (h : TEntryOK σ e) {a : Item} (ha : σ[e.item]? = some a) (x : Nat) :
    ∃ a', (Bounded.tightenAt σ x).2[e.item]? = some a' ∧ a'.cur = a.cur := by
  obtain ⟨a0, ha0, hr, _⟩ := h
  rw [ha] at ha0; cases ha0
  obtain ⟨a', ha', _, hc'⟩ := rest_nil_tightenAt x ha hr
  exact ⟨a', ha', hc'⟩

theorem lenOne_mono {fs : List Int} {s : SS} (h : SInv fs s) : LbUp s (lenOne s) ∧ HiDown s (lenOne s) := by
  have inv' := (lenOne_inv h).1
  rcases lenOne_cases h with he | ⟨m, a, a', hes, hmin, ha, ha', r1, r3, hcase⟩
  · rw [he]; exact ⟨LbUp.refl s, HiDown.refl s⟩
  · have mem : m ∈ s.u.es := by rw [hes]; simp
    rcases hcase with ⟨_, heq⟩ | ⟨_, heq⟩
    · rw [heq]
      refine ⟨fun e he => ⟨e, he, Bound.le_refl _⟩, ?_⟩
      intro m1 a1 hm1 ha1
      rcases hm1 with hm1 | hm1
      · rw [hmin] at hm1; cases hm1
        rw [ha] at ha1; cases ha1
        exact ⟨m, a', .inl hmin, ha', r1⟩
      · obtain ⟨memt, _⟩ := h.1.tHeap.2 m1 hm1
        obtain ⟨a1', ha1', hc1⟩ := (h.1.tOK m1 memt).cur_tightenAt ha1 m.item
        exact ⟨m1, a1', .inr hm1, ha1', by rw [hc1]; exact Bound.le_refl _⟩
    · rw [heq] at inv' ⊢
      have newmem : (⟨s.next, m.item, a'.cur⟩ : HEntry) ∈
          ({ s with σ := (tightenAt s.σ m.item).2, u := Heap.empty, t := s.t.push s.next m.item a'.cur, next := s.next + 1 } : SS).t.es := by simp [push_es]
      constructor
      · intro e' he'
        rcases he' with he' | he'
        · cases he'
        · simp only [push_es, List.mem_append, List.mem_singleton] at he'
          rcases he' with he' | rfl
          · exact ⟨e', .inr he', Bound.le_refl _⟩
          · exact ⟨m, .inl mem, r3⟩
      · intro m1 a1 hm1 ha1
        rcases hm1 with hm1 | hm1
        · rw [hmin] at hm1; cases hm1
          rw [ha] at ha1; cases ha1
          obtain ⟨m', a'', hm', ha'', hle⟩ := t_cand inv'.1 newmem
          exact ⟨m', a'', .inr hm', ha'', Bound.le_trans hle r1⟩
        · obtain ⟨memt, _⟩ := h.1.tHeap.2 m1 hm1
          obtain ⟨a0, ha0, _, hk⟩ := h.1.tOK m1 memt
          rw [ha1] at ha0; cases ha0
          have : m1 ∈ ({ s with σ := (tightenAt s.σ m.item).2, u := Heap.empty, t := s.t.push s.next m.item a'.cur, next := s.next + 1 } : SS).t.es := by simp [push_es, memt]
          obtain ⟨m', a'', hm', ha'', hle⟩ := t_cand inv'.1 this
          exact ⟨m', a'', .inr hm', ha'', by rw [← hk]; exact hle⟩

end GtModel.Bounded

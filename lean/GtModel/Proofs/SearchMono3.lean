/- `IterativeTighteningSearch`: `bounds()` never widens — the goal branch and the `min_node` iteration. -/
import GtModel.Proofs.SearchMono2

namespace GtModel.Bounded
open GtModel

theorem pushByDef_cases {s0 : SS} {k : Nat} {r : Range} (h : curAt s0.σ k = some r) :
    (r.definitive = true ∧ pushByDef s0 k = { s0 with t := s0.t.push s0.next k r, next := s0.next + 1 }) ∨
    (r.definitive = false ∧ pushByDef s0 k = { s0 with u := s0.u.push s0.next k r, next := s0.next + 1 }) := by
  unfold pushByDef; rw [h]; simp only []
  cases hd : r.definitive
  · right; simp [pushU_eq h]
  · left; simp [pushT_eq h]

/-- old and new bounds of an arbitrary valid item under `tightenAt` -/
theorem tightenAt_rel_any {σ : St} {fs : List Int} (hv : ValidSt σ fs) {k : Nat} {a : Item} (ha : σ[k]? = some a) :
    ∃ a', (tightenAt σ k).2[k]? = some a' ∧ Bound.le a'.cur.hi a.cur.hi = true ∧ Bound.le a.cur.lo a'.cur.lo = true := by
  obtain ⟨g1, _⟩ := tightenAt_get_eq ha
  obtain ⟨n, _, va⟩ := hv.get ha
  have hc := va.tighten_contains
  simp [Range.contains] at hc
  exact ⟨_, g1, hc.2, hc.1⟩

theorem goal_mono {fs : List Int} {s1 : SS} (h : SInv fs s1) (hg : goalTest s1 = true) {best : Nat}
    (hb : bestMatch s1 = some best) :
    LbUp s1 (pushByDef { s1 with σ := (tightenAt s1.σ best).2, u := Heap.empty, t := Heap.empty } best) ∧
    HiDown s1 (pushByDef { s1 with σ := (tightenAt s1.σ best).2, u := Heap.empty, t := Heap.empty } best) := by
  obtain ⟨inv', _, _⟩ := goal_inv h hg hb
  obtain ⟨hun, hcase⟩ := bestMatch_cases hb
  have hc0 : ∃ m0, Cand s1 m0 := by
    rcases hcase with ⟨m, hm, _⟩ | ⟨m, hm, _⟩
    · exact ⟨m, .inl hm⟩
    · exact ⟨m, .inr hm⟩
  obtain ⟨m0, hm0⟩ := hc0
  obtain ⟨mb, ab, cmb, hbm, hab, hA⟩ := best_hi h.1 hun hm0
  rw [hb] at hbm
  simp only [Option.some.injEq] at hbm
  subst hbm
  obtain ⟨a', ha', r1, r2⟩ := tightenAt_rel_any h.1.valid hab
  obtain ⟨_, _, hab2, _, _, _, klo⟩ := h.1.entry_final (Cand.mem h.1 cmb)
  rw [hab] at hab2; cases hab2
  have hcur : curAt ({ s1 with σ := (tightenAt s1.σ mb.item).2, u := Heap.empty, t := Heap.empty } : SS).σ mb.item
      = some a'.cur := curAt_of_get ha'
  rcases pushByDef_cases hcur with ⟨_, heq⟩ | ⟨_, heq⟩
  · rw [heq] at inv' ⊢
    have newmem : (⟨s1.next, mb.item, a'.cur⟩ : HEntry) ∈ ({ s1 with σ := (tightenAt s1.σ mb.item).2, u := Heap.empty, t := Heap.empty.push s1.next mb.item a'.cur, next := s1.next + 1 } : SS).t.es := by
      simp [push_es]
    constructor
    · intro e' he'
      rcases he' with he' | he'
      · cases he'
      · simp only [push_es, Heap.empty, List.nil_append, List.mem_singleton] at he'
        subst he'
        exact ⟨mb, Cand.mem h.1 cmb, Bound.le_trans klo r2⟩
    · intro m am hm ham
      obtain ⟨m', a'', hm', ha'', hle⟩ := t_cand inv'.1 newmem
      exact ⟨m', a'', .inr hm', ha'', Bound.le_trans (Bound.le_trans hle r1) (hA m am hm ham)⟩
  · rw [heq] at inv' ⊢
    have newmem : (⟨s1.next, mb.item, a'.cur⟩ : HEntry) ∈ ({ s1 with σ := (tightenAt s1.σ mb.item).2, t := Heap.empty, u := Heap.empty.push s1.next mb.item a'.cur, next := s1.next + 1 } : SS).u.es := by
      simp [push_es]
    constructor
    · intro e' he'
      rcases he' with he' | he'
      · simp only [push_es, Heap.empty, List.nil_append, List.mem_singleton] at he'
        subst he'
        exact ⟨mb, Cand.mem h.1 cmb, Bound.le_trans klo r2⟩
      · cases he'
    · intro m am hm ham
      obtain ⟨m', a'', hm', ha'', hle⟩ := u_cand inv'.1 newmem
      exact ⟨m', a'', .inl hm', ha'', Bound.le_trans (Bound.le_trans hle r1) (hA m am hm ham)⟩

end GtModel.Bounded

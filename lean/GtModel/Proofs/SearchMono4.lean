/- `IterativeTighteningSearch`: `bounds()` never widens — the `min_node` iteration with `_update_bounds`. -/
import GtModel.Proofs.SearchMono3

namespace GtModel.Bounded
open GtModel

theorem forloop_mono {fs : List Int} (sel : Sel) {s1 : SS} (h : SInv fs s1) {node : HEntry}
    (hm : s1.u.min = some node) :
    LbUp s1 (updateBounds sel { s1 with σ := (tightenAt s1.σ node.item).2 } node) ∧
    HiDown s1 (updateBounds sel { s1 with σ := (tightenAt s1.σ node.item).2 } node) := by
  obtain ⟨_, inv'⟩ := forloop_inv sel h hm
  obtain ⟨hc, _⟩ := h
  obtain ⟨mem, _⟩ := hc.uHeap.2 node hm
  obtain ⟨a, a', ha, ha', ht, r1, r2, r3, r4⟩ := (hc.uOK node mem).tightenAt_rel hc.valid
  have valid' := hc.valid.tightenAt node.item
  obtain ⟨n', hn', va'⟩ := valid'.get ha'
  have lohi : Bound.le a'.cur.lo a'.cur.hi = true := Bound.le_trans va'.contains.1 va'.contains.2
  -- a tightened candidate of `s1` is bounded by what is in `_tightened` afterwards
  have tcase : ∀ (s' : SS), SInv fs s' → (∀ e ∈ s1.t.es, e ∈ s'.t.es) → ∀ m am, s1.t.min = some m →
      s1.σ[m.item]? = some am → ∃ m' a'', Cand s' m' ∧ s'.σ[m'.item]? = some a'' ∧
        Bound.le a''.cur.hi am.cur.hi = true := by
    intro s' hs' hsub m am hmt ham
    obtain ⟨memt, _⟩ := hc.tHeap.2 m hmt
    obtain ⟨a0, ha0, _, hk⟩ := hc.tOK m memt
    rw [ham] at ha0; cases ha0
    obtain ⟨m', a'', hm', ha'', hle⟩ := t_cand hs'.1 (hsub m memt)
    exact ⟨m', a'', .inr hm', ha'', by rw [← hk]; exact hle⟩
  revert inv'
  unfold updateBounds
  rw [show curAt ({ s1 with σ := (tightenAt s1.σ node.item).2 } : SS).σ node.item = some a'.cur from curAt_of_get ha']
  simp only []
  obtain ⟨p1, p2, p3, p4, p5, p6, p7⟩ := popNode_u sel { s1 with σ := (tightenAt s1.σ node.item).2 } node
  dsimp only at p1 p3 p4 p5 p6 p7
  generalize popNode sel { s1 with σ := (tightenAt s1.σ node.item).2 } false node = s3 at *
  have hcur3 : curAt s3.σ node.item = some a'.cur := by rw [p4]; exact curAt_of_get ha'
  have sub3 : ∀ e ∈ s3.u.es, e ∈ s1.u.es := by rw [p1]; exact fun e he => List.mem_of_mem_erase he
  split
  · -- dominated: the node is deleted
    rename_i hdom
    intro inv'
    obtain ⟨bm, bb, hbm, hbne, hbb, hbd⟩ := dominatedByBest_facts hdom
    constructor
    · intro e' he'
      rcases he' with he' | he'
      · exact ⟨e', .inl (sub3 e' he'), Bound.le_refl _⟩
      · exact ⟨e', .inr (by rw [p3] at he'; exact he'), Bound.le_refl _⟩
    · intro m am hmc ham
      rcases hmc with hmu | hmt
      · rw [hm] at hmu; cases hmu
        rw [ha] at ham; cases ham
        obtain ⟨_, hcase⟩ := bestMatch_cases hbm
        rcases hcase with ⟨m2, hmu2, hmi⟩ | ⟨m2, hmt2, hmi⟩
        · have : s1.u.min = some m2 := hmu2
          rw [hm] at this; cases this
          exact absurd hmi.symm hbne
        · have hmt' : s1.t.min = some m2 := hmt2
          have hbb' : curAt (tightenAt s1.σ node.item).2 bm = some bb := hbb
          unfold curAt at hbb'
          cases hg : (tightenAt s1.σ node.item).2[bm]? with
          | none => rw [hg] at hbb'; cases hbb'
          | some abm =>
            rw [hg] at hbb'; simp at hbb'; subst hbb'
            refine ⟨m2, abm, .inr (by rw [p3]; exact hmt'), by rw [p4, hmi]; exact hg, ?_⟩
            unfold Range.dominates at hbd
            exact Bound.le_trans (Bound.le_trans hbd lohi) r1
      · exact tcase s3 inv' (by rw [p3]; exact fun e he => he) m am hmt ham
  · split
    · rename_i hib
      exfalso
      have hib' : (s1.ib).dominates a'.cur = true := hib
      rw [hc.ib] at hib'
      unfold Range.dominates at hib'
      simp only [] at hib'
      have := Bound.le_trans hib' va'.contains.1
      simp [Bound.le, Bound.lt] at this
    · split
      · -- definitive: moved to `_tightened`
        rw [pushT_eq hcur3]
        intro inv'
        constructor
        · intro e' he'
          rcases he' with he' | he'
          · exact ⟨e', .inl (sub3 e' he'), Bound.le_refl _⟩
          · simp only [push_es, List.mem_append, List.mem_singleton] at he'
            rcases he' with he' | rfl
            · exact ⟨e', .inr (by rw [p3] at he'; exact he'), Bound.le_refl _⟩
            · exact ⟨node, .inl mem, r3⟩
        · intro m am hmc ham
          rcases hmc with hmu | hmt
          · rw [hm] at hmu; cases hmu
            rw [ha] at ham; cases ham
            obtain ⟨m', a'', hm', ha'', hle⟩ := t_cand inv'.1
              (e := ⟨s3.next, node.item, a'.cur⟩) (by simp [push_es])
            exact ⟨m', a'', .inr hm', ha'', Bound.le_trans hle r1⟩
          · exact tcase _ inv' (by intro e he; simp [push_es, p3, he]) m am hmt ham
      · split
        · -- lower bound increased: re-pushed
          rw [pushU_eq hcur3]
          intro inv'
          constructor
          · intro e' he'
            rcases he' with he' | he'
            · simp only [push_es, List.mem_append, List.mem_singleton] at he'
              rcases he' with he' | rfl
              · exact ⟨e', .inl (sub3 e' he'), Bound.le_refl _⟩
              · exact ⟨node, .inl mem, r3⟩
            · exact ⟨e', .inr (by rw [p3] at he'; exact he'), Bound.le_refl _⟩
          · intro m am hmc ham
            rcases hmc with hmu | hmt
            · rw [hm] at hmu; cases hmu
              rw [ha] at ham; cases ham
              obtain ⟨m', a'', hm', ha'', hle⟩ := u_cand inv'.1
                (e := ⟨s3.next, node.item, a'.cur⟩) (by simp [push_es])
              exact ⟨m', a'', .inl hm', ha'', Bound.le_trans hle r1⟩
            · exact tcase _ inv' (by intro e he; show e ∈ s3.t.es; rw [p3]; exact he) m am hmt ham
        · -- unchanged heaps
          intro inv'
          constructor
          · exact fun e' he' => ⟨e', he', Bound.le_refl _⟩
          · intro m am hmc ham
            rcases hmc with hmu | hmt
            · rw [hm] at hmu; cases hmu
              rw [ha] at ham; cases ham
              exact ⟨node, a', .inl hm, ha', r1⟩
            · exact tcase _ inv' (fun e he => he) m am hmt ham

end GtModel.Bounded

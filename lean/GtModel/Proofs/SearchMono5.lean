/- `IterativeTighteningSearch`: `bounds()` never widens — through `tighten_bounds`. -/
import GtModel.Proofs.SearchMono4

namespace GtModel.Bounded
open GtModel

/-- after the `len == 1` block, with input exhausted and the goal test failing, `_untightened` has a minimum -/
theorem min_some_after_lenOne {fs : List Int} {s : SS} (h : SInv fs s) (hun : s.unproc = none)
    (hemp : ¬ s.u.isEmpty = true) (hgoal : ¬ goalTest (lenOne s) = true) : ∃ node, (lenOne s).u.min = some node := by
  obtain ⟨inv1, hun1⟩ := lenOne_inv h
  cases hm : (lenOne s).u.min with
  | some node => exact ⟨node, rfl⟩
  | none =>
    exfalso
    have hu1 : (lenOne s).u.es = [] := inv1.1.uHeap.1 hm
    have hne : (lenOne s).σ ≠ [] := by
      cases hes : s.u.es with
      | nil => rw [Heap.isEmpty, hes] at hemp; simp at hemp
      | cons e0 _ =>
        obtain ⟨a, ha, _⟩ := h.1.uOK e0 (by rw [hes]; simp)
        intro h0
        have hl := lenOne_length s
        rw [h0] at hl
        have : s.σ = [] := List.eq_nil_of_length_eq_zero hl.symm
        rw [this] at ha; cases ha
    obtain ⟨_, _, _, _, _, _, _, hg⟩ := final_facts inv1 (by rw [hun1]; exact hun) hu1 hne
    exact hgoal hg

theorem tbBody_mono {fs : List Int} (sel : Sel) (start : Range) {s : SS} (h : SInv fs s) (hun : s.unproc = none) :
    Mono s (tbBody sel start s).st := by
  unfold tbBody
  split
  · rw [tbFin_st]; exact Mono.refl s
  · rename_i hemp
    simp only [hun, Option.isNone_none, ↓reduceIte, Bool.true_and]
    obtain ⟨inv1, hun1⟩ := lenOne_inv h
    have hun1' : (lenOne s).unproc = none := by rw [hun1]; exact hun
    have m1 : Mono s (lenOne s) := mono_of h inv1 (fun _ => hun1') (lenOne_mono h).1 (lenOne_mono h).2
    split
    · rename_i hgoal
      obtain ⟨best', _, _, hb', _, _⟩ := goalTest_facts hgoal
      split
      · rename_i hnone; rw [hnone] at hb'; cases hb'
      · rename_i best hb
        obtain ⟨g1, g2, _⟩ := goal_inv inv1 hgoal hb
        obtain ⟨l, hh⟩ := goal_mono inv1 hgoal hb
        exact m1.trans (mono_of inv1 g1 (fun _ => g2) l hh)
    · rename_i hgoal
      obtain ⟨node, hm⟩ := min_some_after_lenOne h hun hemp hgoal
      have hmin : (lenOne s).u.minEntry = (lenOne s).u.min := rfl
      rw [hmin, hm]
      simp only []
      obtain ⟨ht, inv2⟩ := forloop_inv sel inv1 hm
      obtain ⟨l, hh⟩ := forloop_mono sel inv1 hm
      rw [ht]
      simp only [↓reduceIte]
      rw [tbFin_st]
      refine m1.trans (mono_of inv1 inv2 ?_ l hh)
      intro _
      rw [(updateBounds_same sel _ node).2]
      exact hun1'

theorem bestMatch_pending {s : SS} {l : List Nat} (h : s.unproc = some l) : bestMatch s = none := by
  unfold bestMatch; simp [h]

theorem tbIter_mono {fs : List Int} (sel : Sel) (start : Range) {s : SS} (h : SInv fs s) :
    Mono s (tbIter sel start s).st := by
  cases hu : s.unproc with
  | some l => exact mono_of_pending h.1 (bestMatch_pending hu) _
  | none =>
    have := (intake_spec s).2.2.1 hu
    unfold tbIter
    rw [this]
    exact tbBody_mono sel start h hu

theorem tbLoop_mono {fs : List Int} (sel : Sel) (start : Range) : ∀ (f : Nat) (s : SS) (b : Bool) (s' : SS),
    SInv fs s → tbLoop sel start f s = some (b, s') → Mono s s' := by
  intro f
  induction f with
  | zero => intro s b s' _ h; simp [tbLoop] at h
  | succ f ih =>
    intro s b s' inv h
    have m := tbIter_mono sel start inv
    obtain ⟨a1, _⟩ := tbIter_inv sel start inv
    unfold tbLoop at h
    cases hres : tbIter sel start s with
    | ret b1 s1 =>
      rw [hres] at h m
      simp only [Option.some.injEq, Prod.mk.injEq] at h
      obtain ⟨rfl, rfl⟩ := h
      exact m
    | cont s1 =>
      rw [hres] at h m a1
      exact Mono.trans m (ih s1 b s' a1 h)

/-- one call of `tighten_bounds()` never widens `bounds()` -/
theorem tightenBounds_mono {fs : List Int} (sel : Sel) {s : SS} {b : Bool} {s' : SS} (h : SInv fs s)
    (ht : tightenBounds sel s = some (b, s')) : Mono s s' :=
  tbLoop_mono sel _ _ s b s' h ht

end GtModel.Bounded

/- `IterativeTighteningSearch`: the invariant of the two heaps with stale keys, and basic preservation lemmas. -/
import GtModel.Proofs.SearchInv
import GtModel.Proofs.DistinctLemmas

namespace GtModel.Bounded
open GtModel

/-- item `i` has minimum final cost -/
def OptIdx (fs : List Int) (i : Nat) : Prop :=
  ∃ n, fs[i]? = some n ∧ ∀ (k : Nat) (nk : Int), fs[k]? = some nk → n ≤ nk

/-- a node of `_untightened`: its item can still tighten, and its STALE key is a super-range of the item's bounds -/
def UEntryOK (σ : St) (e : HEntry) : Prop :=
  ∃ a, σ[e.item]? = some a ∧ a.rest ≠ [] ∧ Bound.le e.key.lo a.cur.lo = true ∧ Bound.le a.cur.hi e.key.hi = true

/-- a node of `_tightened`: its item is fully tightened and the key is its final point -/
def TEntryOK (σ : St) (e : HEntry) : Prop := ∃ a, σ[e.item]? = some a ∧ a.rest = [] ∧ e.key = a.cur

/-- item `i` is still a candidate: not yet read from the input, or in one of the heaps -/
def AliveIdx (s : SS) (i : Nat) : Prop :=
  (∃ l, s.unproc = some l ∧ i ∈ l) ∨ (∃ e ∈ s.u.es, e.item = i) ∨ (∃ e ∈ s.t.es, e.item = i)

/-- the invariant of the two heaps with stale keys (everything except "an optimal item is alive") -/
structure SCore (fs : List Int) (s : SS) : Prop where
  valid : ValidSt s.σ fs
  ib : s.ib = ⟨.negInf, .posInf⟩
  uOK : ∀ e ∈ s.u.es, UEntryOK s.σ e
  tOK : ∀ e ∈ s.t.es, TEntryOK s.σ e
  uHeap : HeapOK s.u
  tHeap : HeapOK s.t
  uNodup : (s.u.es.map (·.item)).Nodup
  pend : ∀ l, s.unproc = some l → l.Nodup ∧ ∀ k ∈ l, k < s.σ.length ∧ ∀ e ∈ s.u.es, e.item ≠ k
  unsup : s.unsupported = false

/-- the full invariant: moreover some item of minimum final cost is still a candidate -/
def SInv (fs : List Int) (s : SS) : Prop := SCore fs s ∧ (s.σ ≠ [] → ∃ i, OptIdx fs i ∧ AliveIdx s i)

theorem exists_opt : ∀ (fs : List Int), fs ≠ [] → ∃ i, i < fs.length ∧ OptIdx fs i
  | [], h => absurd rfl h
  | [a], _ => ⟨0, by simp, a, rfl, fun k nk hk => by
      cases k with
      | zero => simp at hk; omega
      | succ k => simp at hk⟩
  | a :: b :: l, _ => by
    obtain ⟨j, hj, n, hn, hmin⟩ := exists_opt (b :: l) (by simp)
    by_cases hle : a ≤ n
    · refine ⟨0, by simp, a, rfl, ?_⟩
      intro k nk hk
      cases k with
      | zero => simp at hk; omega
      | succ k => have := hmin k nk (by simpa using hk); omega
    · refine ⟨j + 1, by simp at hj ⊢; omega, n, by simpa using hn, ?_⟩
      intro k nk hk
      cases k with
      | zero => simp at hk; omega
      | succ k => exact hmin k nk (by simpa using hk)

theorem SInv.init {σ : St} {fs : List Int} (hv : ValidSt σ fs) : SInv fs (SS.init σ ⟨.negInf, .posInf⟩) := by
  refine ⟨⟨hv, rfl, fun e h => (by cases h), fun e h => (by cases h), HeapOK.empty, HeapOK.empty, List.nodup_nil, ?_, rfl⟩, ?_⟩
  · intro l hl
    simp only [SS.init, Option.some.injEq] at hl
    subst hl
    exact ⟨List.nodup_range, fun k hk => ⟨(by simp only [SS.init]; simpa using hk), fun e he => (by cases he)⟩⟩
  · intro hne
    have : fs ≠ [] := by
      intro h; apply hne
      have := hv.1; rw [h] at this
      simp only [SS.init]
      exact List.eq_nil_of_length_eq_zero (by simpa using this)
    obtain ⟨i, hi, ho⟩ := exists_opt fs this
    refine ⟨i, ho, .inl ⟨_, rfl, ?_⟩⟩
    simp only [SS.init] at hne ⊢
    rw [← hv.1] at hi; simpa using hi

/-! ### lists with distinct items -/

theorem erase_item_ne {es : List HEntry} {x : HEntry} : (es.map (·.item)).Nodup → x ∈ es →
    ∀ e ∈ es.erase x, e.item ≠ x.item := by
  induction es with
  | nil => intro _ h; cases h
  | cons a l ih =>
    intro hn hx e he
    simp only [List.map_cons, List.nodup_cons] at hn
    rw [List.erase_cons] at he
    split at he
    · rename_i hax
      have : a = x := by simpa using hax
      subst this
      intro heq
      exact hn.1 (by rw [← heq]; exact List.mem_map_of_mem he)
    · rename_i hax
      have hxl : x ∈ l := by
        simp at hx; rcases hx with rfl | h
        · simp at hax
        · exact h
      simp at he
      rcases he with rfl | he
      · intro heq
        exact hn.1 (by rw [heq]; exact List.mem_map_of_mem hxl)
      · exact ih hn.2 hxl e he

theorem erase_map_nodup {es : List HEntry} (x : HEntry) (h : (es.map (·.item)).Nodup) :
    ((es.erase x).map (·.item)).Nodup :=
  h.sublist (List.Sublist.map _ List.erase_sublist)

/-! ### entries under tightening of some item -/

theorem UEntryOK.tightenAt_ne {σ : St} {e : HEntry} (h : UEntryOK σ e) {x : Nat} (hne : e.item ≠ x) :
    UEntryOK (tightenAt σ x).2 e := by
  obtain ⟨a, ha, r⟩ := h
  exact ⟨a, by rw [tightenAt_get_ne hne]; exact ha, r⟩

theorem TEntryOK.tightenAt {σ : St} {e : HEntry} (h : TEntryOK σ e) (x : Nat) : TEntryOK (tightenAt σ x).2 e := by
  obtain ⟨a, ha, hr, hk⟩ := h
  obtain ⟨a', ha', hr', hc'⟩ := rest_nil_tightenAt x ha hr
  exact ⟨a', ha', hr', by rw [hk, hc']⟩

/-- tightening the item of an untightened node: it succeeds, and the key still encloses the new bounds -/
theorem UEntryOK.tightenAt_self {σ : St} {fs : List Int} (hv : ValidSt σ fs) {e : HEntry} (h : UEntryOK σ e) :
    (tightenAt σ e.item).1 = true ∧ ∃ a', (tightenAt σ e.item).2[e.item]? = some a' ∧
      Bound.le e.key.lo a'.cur.lo = true ∧ Bound.le a'.cur.hi e.key.hi = true := by
  obtain ⟨a, ha, hr, l1, l2⟩ := h
  obtain ⟨g1, g2⟩ := tightenAt_get_eq ha
  obtain ⟨n, _, va⟩ := hv.get ha
  have hc := va.tighten_contains
  simp [Range.contains] at hc
  refine ⟨?_, _, g1, Bound.le_trans l1 hc.1, Bound.le_trans hc.2 l2⟩
  rw [g2]
  cases ht : (a.tighten).1
  · exact absurd (Item.tighten_fst_false.mp ht) hr
  · rfl

end GtModel.Bounded

/- `IterativeTighteningSearch`: preservation of the invariant by the pieces of `tighten_bounds`. -/
import GtModel.Proofs.SearchState

namespace GtModel.Bounded
open GtModel

theorem curAt_of_get {σ : St} {k : Nat} {a : Item} (h : σ[k]? = some a) : curAt σ k = some a.cur := by
  unfold curAt; rw [h]; rfl

theorem get_of_lt {σ : St} {k : Nat} (h : k < σ.length) : σ[k]? = some σ[k] := List.getElem?_eq_getElem h

theorem pushU_eq {s : SS} {k : Nat} {r : Range} (h : curAt s.σ k = some r) :
    pushU s k = { s with u := s.u.push s.next k r, next := s.next + 1 } := by
  unfold pushU; rw [h]

theorem pushT_eq {s : SS} {k : Nat} {r : Range} (h : curAt s.σ k = some r) :
    pushT s k = { s with t := s.t.push s.next k r, next := s.next + 1 } := by
  unfold pushT; rw [h]

theorem AliveIdx.mono {s s' : SS} (hu : s'.unproc = s.unproc) (h1 : ∀ e ∈ s.u.es, e ∈ s'.u.es)
    (h2 : ∀ e ∈ s.t.es, e ∈ s'.t.es) {i : Nat} (h : AliveIdx s i) : AliveIdx s' i := by
  rcases h with ⟨l, hl, hi⟩ | ⟨e, he, hi⟩ | ⟨e, he, hi⟩
  · exact .inl ⟨l, by rw [hu]; exact hl, hi⟩
  · exact .inr (.inl ⟨e, h1 e he, hi⟩)
  · exact .inr (.inr ⟨e, h2 e he, hi⟩)

/-- pushing a fresh item (by definitiveness) keeps the core invariant and makes the item alive -/
theorem pushByDef_core {fs : List Int} {s0 : SS} (h : SCore fs s0) {k : Nat} (hk : k < s0.σ.length)
    (hu : ∀ e ∈ s0.u.es, e.item ≠ k) (hp : ∀ l, s0.unproc = some l → k ∉ l) :
    SCore fs (pushByDef s0 k) ∧ (pushByDef s0 k).σ = s0.σ ∧ (pushByDef s0 k).unproc = s0.unproc ∧
    AliveIdx (pushByDef s0 k) k ∧ (∀ i, AliveIdx s0 i → AliveIdx (pushByDef s0 k) i) ∧
    (∀ a, s0.σ[k]? = some a → a.rest = [] → (pushByDef s0 k).u.es = s0.u.es) := by
  have gk := get_of_lt hk
  have hc := curAt_of_get gk
  obtain ⟨n, _, va⟩ := h.valid.get gk
  unfold pushByDef
  rw [hc]
  simp only []
  split
  · rename_i hdef
    have hrest := (va.definitive hdef).2
    rw [pushT_eq hc]
    refine ⟨⟨h.valid, h.ib, h.uOK, ?_, h.uHeap, h.tHeap.push _ _ _, h.uNodup, h.pend, h.unsup⟩, rfl, rfl, ?_, ?_, ?_⟩
    · intro e he
      simp only [push_es, List.mem_append, List.mem_singleton] at he
      rcases he with he | rfl
      · exact h.tOK e he
      · exact ⟨_, gk, hrest, rfl⟩
    · exact .inr (.inr ⟨⟨s0.next, k, s0.σ[k].cur⟩, by simp [push_es], rfl⟩)
    · intro i hi
      refine AliveIdx.mono (s := s0) ?_ (fun e he => ?_) (fun e he => ?_) hi
      · rfl
      · exact he
      · simp [push_es, he]
    · intro _ _ _; rfl
  · rename_i hdef
    have hrest : s0.σ[k].rest ≠ [] := fun hr => hdef (va.definitive_iff.mpr hr)
    rw [pushU_eq hc]
    refine ⟨⟨h.valid, h.ib, ?_, h.tOK, h.uHeap.push _ _ _, h.tHeap, ?_, ?_, h.unsup⟩, rfl, rfl, ?_, ?_, ?_⟩
    · intro e he
      simp only [push_es, List.mem_append, List.mem_singleton] at he
      rcases he with he | rfl
      · exact h.uOK e he
      · exact ⟨_, gk, hrest, Bound.le_refl _, Bound.le_refl _⟩
    · simp only [push_es, List.map_append, List.map_cons, List.map_nil]
      rw [List.nodup_append]
      refine ⟨h.uNodup, by simp, ?_⟩
      intro a ha b hb
      simp at hb; subst hb
      obtain ⟨e, he, rfl⟩ := List.mem_map.mp ha
      exact hu e he
    · intro l hl
      obtain ⟨nd, rest⟩ := h.pend l hl
      refine ⟨nd, ?_⟩
      intro k' hk'
      refine ⟨(rest k' hk').1, ?_⟩
      intro e he
      simp only [push_es, List.mem_append, List.mem_singleton] at he
      rcases he with he | rfl
      · exact (rest k' hk').2 e he
      · intro heq; simp only at heq; subst heq; exact hp l hl hk'
    · exact .inr (.inl ⟨⟨s0.next, k, s0.σ[k].cur⟩, by simp [push_es], rfl⟩)
    · intro i hi
      refine AliveIdx.mono (s := s0) ?_ (fun e he => ?_) (fun e he => ?_) hi
      · rfl
      · simp [push_es, he]
      · exact he
    · intro a ha hr
      rw [gk] at ha; cases ha
      exact absurd hr hrest

theorem lt_negInf (x : Bound) : Bound.lt x .negInf = false := by cases x <;> rfl

/-- the intake block: never the early return with the default `initial_bounds`; invariant kept -/
theorem intake_inv {fs : List Int} {s : SS} (h : SInv fs s) : (intake s).1 = none ∧ SInv fs (intake s).2 := by
  obtain ⟨hc, ha⟩ := h
  unfold intake
  split
  · exact ⟨rfl, hc, ha⟩
  · rename_i hun
    refine ⟨rfl, ⟨hc.valid, hc.ib, hc.uOK, hc.tOK, hc.uHeap, hc.tHeap, hc.uNodup, ?_, hc.unsup⟩, ?_⟩
    · intro l hl; cases hl
    · intro hne
      obtain ⟨i, ho, hal⟩ := ha hne
      refine ⟨i, ho, ?_⟩
      rcases hal with ⟨l, hl, hi⟩ | h' | h'
      · rw [hun] at hl; cases hl; cases hi
      · exact .inr (.inl h')
      · exact .inr (.inr h')
  · rename_i k ks hun
    obtain ⟨nd, rest⟩ := hc.pend _ hun
    have hk := (rest k (by simp)).1
    have hku := (rest k (by simp)).2
    rw [curAt_of_get (get_of_lt hk)]
    simp only []
    have hib : (Bound.lt .negInf s.ib.lo && Bound.le s.σ[k].cur.hi s.ib.lo) = false := by
      rw [hc.ib]; rfl
    rw [hib]
    simp only [Bool.false_eq_true, ↓reduceIte]
    have nd' := List.nodup_cons.mp nd
    have core0 : SCore fs { s with unproc := some ks } := by
      refine ⟨hc.valid, hc.ib, hc.uOK, hc.tOK, hc.uHeap, hc.tHeap, hc.uNodup, ?_, hc.unsup⟩
      intro l hl
      simp only [Option.some.injEq] at hl
      subst hl
      exact ⟨nd'.2, fun k' hk' => rest k' (by simp [hk'])⟩
    obtain ⟨c, hσ, hunp, ak, amono, _⟩ := pushByDef_core (s0 := { s with unproc := some ks }) core0 hk hku
      (by intro l hl; simp only [Option.some.injEq] at hl; subst hl; exact nd'.1)
    refine ⟨?_, c, ?_⟩
    · first | rfl | trivial
    intro hne
    rw [hσ] at hne
    obtain ⟨i, ho, hal⟩ := ha hne
    refine ⟨i, ho, ?_⟩
    rcases hal with ⟨l, hl, hi⟩ | h' | h'
    · rw [hun] at hl; cases hl
      simp at hi
      rcases hi with rfl | hi
      · exact ak
      · exact amono i (.inl ⟨ks, rfl, hi⟩)
    · exact amono i (.inr (.inl h'))
    · exact amono i (.inr (.inr h'))

end GtModel.Bounded

/- `IterativeTighteningSearch`: the `len == 1` block, facts about `best_match` / `bounds` / `goal_test`. -/
import GtModel.Proofs.SearchStep

namespace GtModel.Bounded
open GtModel

theorem peek_eq (h : Heap) : h.peek = h.min.map (·.item) := rfl

theorem lenOne_inv {fs : List Int} {s : SS} (h : SInv fs s) :
    SInv fs (lenOne s) ∧ (lenOne s).unproc = s.unproc := by
  obtain ⟨hc, ha⟩ := h
  unfold lenOne
  split
  · rename_i hlen
    have hlen' : s.u.es.length = 1 := by simpa using hlen
    obtain ⟨e0, he0⟩ := List.length_eq_one_iff.mp hlen'
    cases hmin : s.u.min with
    | none => have := hc.uHeap.1 hmin; rw [this] at hlen'; simp at hlen'
    | some m =>
      obtain ⟨mem, _⟩ := hc.uHeap.2 m hmin
      have hm : m = e0 := by rw [he0] at mem; simpa using mem
      subst hm
      rw [peek_eq, hmin]
      simp only [Option.map_some]
      obtain ⟨ht, a', ha', l1, l2⟩ := (hc.uOK m mem).tightenAt_self hc.valid
      rw [curAt_of_get ha']
      simp only [ht, Bool.true_and]
      have valid' := hc.valid.tightenAt m.item
      obtain ⟨n', _, va'⟩ := valid'.get ha'
      have hlen2 := tightenAt_length s.σ m.item
      split
      · rename_i hdef
        rw [pushT_eq (s := { s with σ := (tightenAt s.σ m.item).2, u := Heap.empty }) (curAt_of_get ha')]
        refine ⟨⟨⟨valid', hc.ib, fun e he => (by cases he), ?_, HeapOK.empty, hc.tHeap.push _ _ _, List.nodup_nil, ?_, hc.unsup⟩, ?_⟩, rfl⟩
        · intro e he
          simp only [push_es, List.mem_append, List.mem_singleton] at he
          rcases he with he | rfl
          · exact (hc.tOK e he).tightenAt _
          · exact ⟨a', ha', (va'.definitive hdef).2, rfl⟩
        · intro l hl
          obtain ⟨nd, rest⟩ := hc.pend l hl
          exact ⟨nd, fun k hk => ⟨by show k < (tightenAt s.σ m.item).2.length; rw [hlen2]; exact (rest k hk).1,
            fun e he => (by cases he)⟩⟩
        · intro hne
          have : s.σ ≠ [] := by
            intro h0; apply hne
            show (tightenAt s.σ m.item).2 = []
            exact List.eq_nil_of_length_eq_zero (by rw [hlen2, h0]; rfl)
          obtain ⟨i, ho, hal⟩ := ha this
          refine ⟨i, ho, ?_⟩
          rcases hal with h' | ⟨e, he, hi⟩ | ⟨e, he, hi⟩
          · exact .inl h'
          · rw [he0] at he; simp at he; subst he
            exact .inr (.inr ⟨⟨s.next, e.item, a'.cur⟩, by simp [push_es], hi⟩)
          · exact .inr (.inr ⟨e, by simp [push_es, he], hi⟩)
      · rename_i hdef
        refine ⟨⟨⟨valid', hc.ib, ?_, fun e he => (hc.tOK e he).tightenAt _, hc.uHeap, hc.tHeap, hc.uNodup, ?_, hc.unsup⟩, ?_⟩, rfl⟩
        · intro e he
          have he' : e ∈ s.u.es := he
          rw [he0] at he'; simp at he'; subst he'
          exact ⟨a', ha', fun hr => hdef (va'.definitive_iff.mpr hr), l1, l2⟩
        · intro l hl
          obtain ⟨nd, rest⟩ := hc.pend l hl
          exact ⟨nd, fun k hk => ⟨by show k < (tightenAt s.σ m.item).2.length; rw [hlen2]; exact (rest k hk).1,
            (rest k hk).2⟩⟩
        · intro hne
          have : s.σ ≠ [] := by
            intro h0; apply hne
            show (tightenAt s.σ m.item).2 = []
            exact List.eq_nil_of_length_eq_zero (by rw [hlen2, h0]; rfl)
          obtain ⟨i, ho, hal⟩ := ha this
          exact ⟨i, ho, hal⟩
  · exact ⟨⟨hc, ha⟩, rfl⟩

theorem bestMatch_cases {s : SS} {b : Nat} (h : bestMatch s = some b) :
    s.unproc = none ∧ ((∃ m, s.u.min = some m ∧ m.item = b) ∨ (∃ m, s.t.min = some m ∧ m.item = b)) := by
  unfold bestMatch at h
  simp only [peek_eq] at h
  split at h
  · cases h
  · rename_i hcond
    have hun : s.unproc = none := by
      cases hu : s.unproc with
      | none => rfl
      | some l => simp [hu] at hcond
    refine ⟨hun, ?_⟩
    split at h
    · split at h
      · rename_i x y hx hy
        split at h
        · split at h
          · cases h
            cases hmu : s.u.min with
            | none => simp [hmu] at hx
            | some m => simp [hmu] at hx; exact .inl ⟨m, rfl, hx⟩
          · cases h
            cases hmt : s.t.min with
            | none => simp [hmt] at hy
            | some m => simp [hmt] at hy; exact .inr ⟨m, rfl, hy⟩
        · cases h
      · cases h
    · split at h
      · cases hmt : s.t.min with
        | none => simp [hmt] at h
        | some m => simp [hmt] at h; exact .inr ⟨m, rfl, h⟩
      · cases hmu : s.u.min with
        | none => simp [hmu] at h
        | some m => simp [hmu] at h; exact .inl ⟨m, rfl, h⟩

end GtModel.Bounded

/- `IterativeTighteningSearch`: `bounds()` facts, the goal branch, the `min_node` iteration with `_update_bounds`. -/
import GtModel.Proofs.SearchStep2

namespace GtModel.Bounded
open GtModel

/-- the lower bound `bounds()` starts from: `lb` after the `initial_bounds` clamp -/
def lbOf (s : SS) : Bound :=
  if (staleLb s == .posInf || Bound.lt (staleLb s) s.ib.lo) = true then s.ib.lo else staleLb s

theorem boundsOf_some {s : SS} {b : Nat} {bb : Range} (h1 : bestMatch s = some b) (h2 : curAt s.σ b = some bb) :
    boundsOf s = ⟨Bound.min' (lbOf s) bb.hi, bb.hi⟩ := by
  unfold boundsOf lbOf; rw [h1]; simp only []; rw [h2]

theorem boundsOf_none {s : SS} (h1 : bestMatch s = none) : boundsOf s = s.ib := by
  unfold boundsOf; rw [h1]

theorem SCore.entry_final {fs : List Int} {s : SS} (hc : SCore fs s) {e : HEntry} (he : e ∈ s.u.es ∨ e ∈ s.t.es) :
    ∃ a n, s.σ[e.item]? = some a ∧ fs[e.item]? = some n ∧ a.Valid n ∧ Bound.le e.key.lo (.fin n) = true ∧
      Bound.le e.key.lo a.cur.lo = true := by
  rcases he with he | he
  · obtain ⟨a, ha, _, l1, _⟩ := hc.uOK e he
    obtain ⟨n, hn, va⟩ := hc.valid.get ha
    exact ⟨a, n, ha, hn, va, Bound.le_trans l1 va.contains.1, l1⟩
  · obtain ⟨a, ha, _, hk⟩ := hc.tOK e he
    obtain ⟨n, hn, va⟩ := hc.valid.get ha
    exact ⟨a, n, ha, hn, va, by rw [hk]; exact va.contains.1, by rw [hk]; exact Bound.le_refl _⟩

theorem staleLb_le {s : SS} {e : HEntry} (he : e ∈ s.u.es ∨ e ∈ s.t.es) : Bound.le (staleLb s) e.key.lo = true := by
  rw [staleLb_eq]
  exact (foldLb_spec _ _).2.1 e (by rcases he with h | h <;> simp [h])

theorem SCore.lb_eq {fs : List Int} {s : SS} (hc : SCore fs s) {e : HEntry} (he : e ∈ s.u.es ∨ e ∈ s.t.es) :
    lbOf s = staleLb s := by
  obtain ⟨a, n, _, _, _, l, _⟩ := hc.entry_final he
  have h1 := Bound.le_trans (staleLb_le he) l
  unfold lbOf
  rw [hc.ib, lt_negInf]
  cases hs : staleLb s <;> simp
  rw [hs] at h1; simp [Bound.le, Bound.lt] at h1

theorem goalTest_facts {s : SS} (hg : goalTest s = true) :
    ∃ best bb, s.unproc = none ∧ bestMatch s = some best ∧ curAt s.σ best = some bb ∧
      bb.dominates (boundsOf s) = true := by
  unfold goalTest at hg
  split at hg
  · cases hg
  · rename_i hun
    split at hg
    · cases hg
    · rename_i best hb
      split at hg
      · cases hg
      · rename_i bb hbb
        refine ⟨best, bb, ?_, hb, hbb, hg⟩
        cases hu : s.unproc with
        | none => rfl
        | some l => simp [hu] at hun

/-- when `goal_test()` holds, the best match has minimum final cost -/
theorem goal_opt {fs : List Int} {s : SS} (h : SInv fs s) {best : Nat} {bb : Range} (hun : s.unproc = none)
    (hb : bestMatch s = some best) (hbb : curAt s.σ best = some bb) (hd : bb.dominates (boundsOf s) = true) :
    OptIdx fs best ∧ best < s.σ.length := by
  obtain ⟨hc, ha⟩ := h
  unfold curAt at hbb
  cases hab : s.σ[best]? with
  | none => rw [hab] at hbb; cases hbb
  | some a =>
    rw [hab] at hbb; simp at hbb; subst hbb
    have hlt : best < s.σ.length := by
      rcases Nat.lt_or_ge best s.σ.length with h' | h'
      · exact h'
      · simp [List.getElem?_eq_none h'] at hab
    have hne : s.σ ≠ [] := by intro h0; rw [h0] at hlt; simp at hlt
    obtain ⟨i, ⟨ni, hni, hmin⟩, hal⟩ := ha hne
    obtain ⟨n, hn, va⟩ := hc.valid.get hab
    have hin : ∃ e, (e ∈ s.u.es ∨ e ∈ s.t.es) ∧ e.item = i := by
      rcases hal with ⟨l, hl, _⟩ | ⟨e, he, hi⟩ | ⟨e, he, hi⟩
      · rw [hun] at hl; cases hl
      · exact ⟨e, .inl he, hi⟩
      · exact ⟨e, .inr he, hi⟩
    obtain ⟨e, he, hei⟩ := hin
    obtain ⟨ae, ne, _, hne', _, lfin, _⟩ := hc.entry_final he
    rw [hei, hni] at hne'; cases hne'
    rw [boundsOf_some hb (curAt_of_get hab), hc.lb_eq he] at hd
    unfold Range.dominates at hd
    simp only [] at hd
    have c1 := Bound.le_trans hd (min'_le_left _ _)
    have c2 := Bound.le_trans (Bound.le_trans (Bound.le_trans va.contains.2 c1) (staleLb_le he)) lfin
    have : n ≤ ni := Bound.fin_le_fin.mp c2
    exact ⟨⟨n, hn, fun k nk hk => Int.le_trans this (hmin k nk hk)⟩, hlt⟩

/-- the goal branch: everything but the best match is dropped, the best match is tightened once and re-pushed -/
theorem goal_inv {fs : List Int} {s1 : SS} (h : SInv fs s1) (hg : goalTest s1 = true) {best : Nat}
    (hb : bestMatch s1 = some best) :
    SInv fs (pushByDef { s1 with σ := (tightenAt s1.σ best).2, u := Heap.empty, t := Heap.empty } best) ∧
    (pushByDef { s1 with σ := (tightenAt s1.σ best).2, u := Heap.empty, t := Heap.empty } best).unproc = none ∧
    ((tightenAt s1.σ best).1 = false →
      (pushByDef { s1 with σ := (tightenAt s1.σ best).2, u := Heap.empty, t := Heap.empty } best).u.es = []) := by
  obtain ⟨best', bb, hun, hb', hbb, hd⟩ := goalTest_facts hg
  rw [hb] at hb'; cases hb'
  obtain ⟨hopt, hlt⟩ := goal_opt h hun hb hbb hd
  obtain ⟨hc, ha⟩ := h
  have hlen := tightenAt_length s1.σ best
  have core0 : SCore fs { s1 with σ := (tightenAt s1.σ best).2, u := Heap.empty, t := Heap.empty } := by
    refine ⟨hc.valid.tightenAt best, hc.ib, fun e he => (by cases he), fun e he => (by cases he), HeapOK.empty,
      HeapOK.empty, List.nodup_nil, ?_, hc.unsup⟩
    intro l hl
    have hl' : s1.unproc = some l := hl
    rw [hun] at hl'; cases hl'
  obtain ⟨c, hσ, hunp, ak, _, hnil⟩ := pushByDef_core core0 (k := best)
    (by show best < (tightenAt s1.σ best).2.length; rw [hlen]; exact hlt)
    (fun e he => by cases he)
    (fun l hl => by have hl' : s1.unproc = some l := hl; rw [hun] at hl'; cases hl')
  refine ⟨⟨c, fun _ => ⟨best, hopt, ak⟩⟩, by rw [hunp]; exact hun, ?_⟩
  intro hf
  have g0 := get_of_lt hlt
  have r0 := tightenAt_false_rest g0 hf
  obtain ⟨a', ha', hr', _⟩ := rest_nil_tightenAt best g0 r0
  exact hnil a' ha' hr'

end GtModel.Bounded

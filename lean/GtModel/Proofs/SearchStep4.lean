/- `IterativeTighteningSearch`: the `min_node` iteration: tighten the minimum untightened node, `_update_bounds`. -/
import GtModel.Proofs.SearchStep3

namespace GtModel.Bounded
open GtModel

theorem dominatedByBest_facts {s : SS} {item : Nat} {b : Range} (h : dominatedByBest s item b = true) :
    ∃ bm bb, bestMatch s = some bm ∧ bm ≠ item ∧ curAt s.σ bm = some bb ∧ bb.dominates b = true := by
  unfold dominatedByBest at h
  split at h
  · cases h
  · rename_i bm hbm
    simp only [Bool.and_eq_true, bne_iff_ne, ne_eq] at h
    obtain ⟨hne, h2⟩ := h
    split at h2
    · rename_i bb hbb; exact ⟨bm, bb, hbm, hne, hbb, h2⟩
    · cases h2

theorem forloop_inv {fs : List Int} (sel : Sel) {s1 : SS} (h : SInv fs s1) {node : HEntry}
    (hm : s1.u.min = some node) :
    (tightenAt s1.σ node.item).1 = true ∧
    SInv fs (updateBounds sel { s1 with σ := (tightenAt s1.σ node.item).2 } node) := by
  obtain ⟨hc, ha⟩ := h
  obtain ⟨mem, _⟩ := hc.uHeap.2 node hm
  obtain ⟨ht, a', ha', l1, l2⟩ := (hc.uOK node mem).tightenAt_self hc.valid
  refine ⟨ht, ?_⟩
  have valid' := hc.valid.tightenAt node.item
  obtain ⟨n', hn', va'⟩ := valid'.get ha'
  have hlen := tightenAt_length s1.σ node.item
  have others : ∀ e ∈ s1.u.es.erase node, UEntryOK (tightenAt s1.σ node.item).2 e := by
    intro e he
    exact (hc.uOK e (List.mem_of_mem_erase he)).tightenAt_ne (erase_item_ne hc.uNodup mem e he)
  have tOK' : ∀ e ∈ s1.t.es, TEntryOK (tightenAt s1.σ node.item).2 e := fun e he => (hc.tOK e he).tightenAt _
  have pend' : ∀ l, s1.unproc = some l → l.Nodup ∧ ∀ k ∈ l, k < (tightenAt s1.σ node.item).2.length ∧
      ∀ e ∈ s1.u.es, e.item ≠ k := by
    intro l hl
    obtain ⟨nd, rest⟩ := hc.pend l hl
    exact ⟨nd, fun k hk => ⟨by rw [hlen]; exact (rest k hk).1, (rest k hk).2⟩⟩
  have hne' : (tightenAt s1.σ node.item).2 ≠ [] → s1.σ ≠ [] := by
    intro hne h0; apply hne
    exact List.eq_nil_of_length_eq_zero (by rw [hlen, h0]; rfl)
  -- candidates other than the node survive the removal of the node
  have keep : ∀ i, i ≠ node.item → AliveIdx s1 i →
      (∃ l, s1.unproc = some l ∧ i ∈ l) ∨ (∃ e ∈ s1.u.es.erase node, e.item = i) ∨ (∃ e ∈ s1.t.es, e.item = i) := by
    intro i hi hal
    rcases hal with h' | ⟨e, he, hei⟩ | h'
    · exact .inl h'
    · refine .inr (.inl ⟨e, ?_, hei⟩)
      exact (List.mem_erase_of_ne (by intro h0; subst h0; exact hi hei.symm)).mpr he
    · exact .inr (.inr h')
  unfold updateBounds
  rw [show curAt ({ s1 with σ := (tightenAt s1.σ node.item).2 } : SS).σ node.item = some a'.cur from curAt_of_get ha']
  simp only []
  obtain ⟨p1, p2, p3, p4, p5, p6, p7⟩ := popNode_u sel { s1 with σ := (tightenAt s1.σ node.item).2 } node
  dsimp only at p1 p3 p4 p5 p6 p7
  generalize popNode sel { s1 with σ := (tightenAt s1.σ node.item).2 } false node = s3 at *
  have core3 : SCore fs s3 := by
    refine ⟨by rw [p4]; exact valid', by rw [p6]; exact hc.ib, ?_, by rw [p3, p4]; exact tOK', p2,
      by rw [p3]; exact hc.tHeap, by rw [p1]; exact erase_map_nodup node hc.uNodup, ?_, by rw [p7]; exact hc.unsup⟩
    · rw [p1, p4]; exact others
    · rw [p1, p4, p5]
      intro l hl
      obtain ⟨nd, rest⟩ := pend' l hl
      exact ⟨nd, fun k hk => ⟨(rest k hk).1, fun e he => (rest k hk).2 e (List.mem_of_mem_erase he)⟩⟩
  have hcur3 : curAt s3.σ node.item = some a'.cur := by rw [p4]; exact curAt_of_get ha'
  have alive3 : ∀ i, i ≠ node.item → AliveIdx s1 i → AliveIdx s3 i := by
    intro i hi hal
    rcases keep i hi hal with h' | ⟨e, he, hei⟩ | h'
    · exact .inl (by rw [p5]; exact h')
    · exact .inr (.inl ⟨e, by rw [p1]; exact he, hei⟩)
    · exact .inr (.inr (by rw [p3]; exact h'))
  have hne3 : s3.σ ≠ [] → s1.σ ≠ [] := by rw [p4]; exact hne'
  split
  · -- dominated by the best match: the node is deleted
    rename_i hdom
    obtain ⟨bm, bb, hbm, hbne, hbb, hbd⟩ := dominatedByBest_facts hdom
    refine ⟨core3, ?_⟩
    intro hne
    obtain ⟨i, ho, hal⟩ := ha (hne3 hne)
    by_cases hi : i = node.item
    · -- the deleted node was optimal: then so is the best match, which stays
      obtain ⟨hun, hcase⟩ := bestMatch_cases hbm
      rcases hcase with ⟨m, hmu, hmi⟩ | ⟨m, hmt, hmi⟩
      · have : s1.u.min = some m := hmu
        rw [hm] at this; cases this
        exact absurd hmi.symm hbne
      · have hmt' : s1.t.min = some m := hmt
        obtain ⟨memt, _⟩ := hc.tHeap.2 m hmt'
        obtain ⟨am, ham, _, hk⟩ := tOK' m memt
        obtain ⟨nm, hnm, vam⟩ := valid'.get ham
        rw [hmi] at ham hnm
        have : bb = am.cur := by
          have := curAt_of_get ham
          have hbb' : curAt (tightenAt s1.σ node.item).2 bm = some bb := hbb
          rw [this] at hbb'; cases hbb'; rfl
        subst this
        have hle := dom_final vam va' hbd
        obtain ⟨ni, hni, hmin⟩ := ho
        rw [hi, hn'] at hni; cases hni
        refine ⟨bm, ⟨nm, hnm, fun k nk hk => Int.le_trans hle (hmin k nk hk)⟩, .inr (.inr ⟨m, by rw [p3]; exact memt, hmi⟩)⟩
    · exact ⟨i, ho, alive3 i hi hal⟩
  · split
    · -- `initial_bounds.dominates`: impossible with the default bounds
      rename_i hib
      exfalso
      have hib' : (s1.ib).dominates a'.cur = true := hib
      rw [hc.ib] at hib'
      unfold Range.dominates at hib'
      simp only [] at hib'
      have := Bound.le_trans hib' va'.contains.1
      simp [Bound.le, Bound.lt] at this
    · split
      · -- became definitive: moved to `_tightened`
        rename_i hdef
        rw [pushT_eq hcur3]
        refine ⟨⟨core3.valid, core3.ib, core3.uOK, ?_, core3.uHeap, core3.tHeap.push _ _ _, core3.uNodup, core3.pend,
          core3.unsup⟩, ?_⟩
        · intro e he
          simp only [push_es, List.mem_append, List.mem_singleton] at he
          rcases he with he | rfl
          · exact core3.tOK e he
          · exact ⟨a', by rw [p4]; exact ha', (va'.definitive hdef).2, rfl⟩
        · intro hne
          obtain ⟨i, ho, hal⟩ := ha (hne3 hne)
          refine ⟨i, ho, ?_⟩
          by_cases hi : i = node.item
          · exact .inr (.inr ⟨⟨s3.next, node.item, a'.cur⟩, by simp [push_es], hi.symm⟩)
          · refine AliveIdx.mono (s := s3) ?_ (fun e he => ?_) (fun e he => ?_) (alive3 i hi hal)
            · rfl
            · exact he
            · simp [push_es, he]
      · split
        · -- the lower bound increased: re-pushed with a fresh key
          rename_i hdef hlo
          rw [pushU_eq hcur3]
          have hnotin : ∀ e ∈ s3.u.es, e.item ≠ node.item := by
            rw [p1]; exact erase_item_ne hc.uNodup mem
          refine ⟨⟨core3.valid, core3.ib, ?_, core3.tOK, core3.uHeap.push _ _ _, core3.tHeap, ?_, ?_, core3.unsup⟩, ?_⟩
          · intro e he
            simp only [push_es, List.mem_append, List.mem_singleton] at he
            rcases he with he | rfl
            · exact core3.uOK e he
            · exact ⟨a', by rw [p4]; exact ha', fun hr => hdef (va'.definitive_iff.mpr hr), Bound.le_refl _,
                Bound.le_refl _⟩
          · simp only [push_es, List.map_append, List.map_cons, List.map_nil]
            rw [List.nodup_append]
            refine ⟨core3.uNodup, by simp, ?_⟩
            intro a ha0 b hb
            simp at hb; subst hb
            obtain ⟨e, he, rfl⟩ := List.mem_map.mp ha0
            exact hnotin e he
          · intro l hl
            obtain ⟨nd, rest⟩ := core3.pend l hl
            refine ⟨nd, fun k hk => ⟨(rest k hk).1, ?_⟩⟩
            intro e he
            simp only [push_es, List.mem_append, List.mem_singleton] at he
            rcases he with he | rfl
            · exact (rest k hk).2 e he
            · have hl' : s1.unproc = some l := by rw [← p5]; exact hl
              exact ((hc.pend l hl').2 k hk).2 node mem
          · intro hne
            obtain ⟨i, ho, hal⟩ := ha (hne3 hne)
            refine ⟨i, ho, ?_⟩
            by_cases hi : i = node.item
            · exact .inr (.inl ⟨⟨s3.next, node.item, a'.cur⟩, by simp [push_es], hi.symm⟩)
            · refine AliveIdx.mono (s := s3) ?_ (fun e he => ?_) (fun e he => ?_) (alive3 i hi hal)
              · rfl
              · simp [push_es, he]
              · exact he
        · -- only the upper bound moved: the node keeps its stale key
          rename_i hdef hlo
          refine ⟨⟨valid', hc.ib, ?_, tOK', hc.uHeap, hc.tHeap, hc.uNodup, pend', hc.unsup⟩, ?_⟩
          · intro e he
            have he' : e ∈ s1.u.es := he
            by_cases hen : e = node
            · subst hen
              exact ⟨a', ha', fun hr => hdef (va'.definitive_iff.mpr hr), l1, l2⟩
            · exact others e ((List.mem_erase_of_ne hen).mpr he')
          · intro hne
            obtain ⟨i, ho, hal⟩ := ha (hne' hne)
            exact ⟨i, ho, hal⟩

end GtModel.Bounded

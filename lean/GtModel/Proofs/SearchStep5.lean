/- `IterativeTighteningSearch`: the state when `_untightened` is empty; the invariant through `tighten_bounds` and
   `search`. -/
import GtModel.Proofs.SearchStep4

namespace GtModel.Bounded
open GtModel

theorem min'_self (a : Bound) : Bound.min' a a = a := by
  unfold Bound.min'; rw [Bound.lt_irrefl]; rfl

/-- no untightened item left (and the input exhausted): the best match is the minimum of `_tightened`, it has
minimum final cost, `bounds()` is that single value and `goal_test()` holds -/
theorem final_facts {fs : List Int} {s : SS} (h : SInv fs s) (hun : s.unproc = none) (hu : s.u.es = [])
    (hne : s.σ ≠ []) :
    ∃ m nm, s.t.min = some m ∧ bestMatch s = some m.item ∧ fs[m.item]? = some nm ∧ OptIdx fs m.item ∧
      boundsOf s = Range.point nm ∧ goalTest s = true := by
  obtain ⟨hc, ha⟩ := h
  obtain ⟨i, ⟨ni, hni, hmin⟩, hal⟩ := ha hne
  have hin : ∃ ei ∈ s.t.es, ei.item = i := by
    rcases hal with ⟨l, hl, _⟩ | ⟨e, he, _⟩ | h'
    · rw [hun] at hl; cases hl
    · rw [hu] at he; cases he
    · exact h'
  obtain ⟨ei, hei, heii⟩ := hin
  cases hmt : s.t.min with
  | none => have := hc.tHeap.1 hmt; rw [this] at hei; cases hei
  | some m =>
    obtain ⟨memt, mn⟩ := hc.tHeap.2 m hmt
    -- every tightened node's key is the final point of its item
    have pt : ∀ e ∈ s.t.es, ∃ a n, s.σ[e.item]? = some a ∧ fs[e.item]? = some n ∧ e.key = Range.point n ∧ a.cur = Range.point n := by
      intro e he
      obtain ⟨a, hae, hr, hk⟩ := hc.tOK e he
      obtain ⟨n, hn, va⟩ := hc.valid.get hae
      exact ⟨a, n, hae, hn, by rw [hk]; exact va.last hr, va.last hr⟩
    obtain ⟨am, nm, ham, hnm, hkm, hcm⟩ := pt m memt
    have below : ∀ e ∈ s.t.es, ∀ n, fs[e.item]? = some n → nm ≤ n := by
      intro e he n hn
      obtain ⟨_, n2, _, hn2, hk2, _⟩ := pt e he
      rw [hn] at hn2; cases hn2
      have := Range.hi_le_of_not_lt (mn e he)
      rw [hkm, hk2] at this
      exact Bound.fin_le_fin.mp this
    have hopt : OptIdx fs m.item := by
      refine ⟨nm, hnm, fun k nk hk => ?_⟩
      have := below ei hei ni (by rw [heii]; exact hni)
      exact Int.le_trans this (hmin k nk hk)
    have hbm : bestMatch s = some m.item := by
      unfold bestMatch
      have h1 : s.u.isEmpty = true := by simp [Heap.isEmpty, hu]
      have h2 : s.t.isEmpty = false := by
        unfold Heap.isEmpty
        cases hes : s.t.es with
        | nil => rw [hes] at memt; cases memt
        | cons _ _ => rfl
      simp [hun, h1, h2, peek_eq, hmt]
    have hlb : lbOf s = .fin nm := by
      rw [hc.lb_eq (.inr memt), staleLb_eq, hu]
      simp only [List.nil_append]
      obtain ⟨_, f2, _, f4⟩ := foldLb_spec s.t.es .posInf
      have u1 := f2 m memt
      rw [hkm] at u1
      have u2 := f4 (.fin nm) (by simp [Bound.le, Bound.lt]) (by
        intro e he
        obtain ⟨_, n2, _, hn2, hk2, _⟩ := pt e he
        rw [hk2]
        exact Bound.fin_le_fin.mpr (below e he n2 hn2))
      exact Bound.le_antisymm u1 u2
    have hb : boundsOf s = Range.point nm := by
      rw [boundsOf_some hbm (curAt_of_get ham), hlb, hcm]
      simp [Range.point, min'_self]
    refine ⟨m, nm, rfl, hbm, hnm, hopt, hb, ?_⟩
    unfold goalTest
    rw [hun, hbm]
    simp only [Option.isSome_none, Bool.false_eq_true, ↓reduceIte]
    rw [curAt_of_get ham, hb, hcm]
    simp [Range.dominates, Range.point, Bound.le_refl]

theorem lenOne_length (s : SS) : (lenOne s).σ.length = s.σ.length := by
  unfold lenOne; split
  · split
    · rfl
    · rename_i x _
      simp only []
      split
      · exact tightenAt_length _ _
      · split
        · have := pushT_same { s with σ := (tightenAt s.σ x).2, u := Heap.empty } x
          rw [this.1]; exact tightenAt_length _ _
        · exact tightenAt_length _ _
  · rfl

theorem tbFin_false {start : Range} {s s' : SS} {tg : Bool} (h : tbFin start s tg = .ret false s') :
    s' = s ∧ s.unproc = none ∧ tg = false := by
  unfold tbFin at h
  split at h
  · cases h
  · split at h
    · rename_i hc
      cases h
      simp only [Bool.and_eq_true, Bool.not_eq_eq_eq_not, Bool.not_true] at hc
      refine ⟨rfl, ?_, hc.2⟩
      cases hu : s.unproc with
      | none => rfl
      | some l => simp [hu] at hc
    · cases h

theorem tbFin_st (start : Range) (s : SS) (tg : Bool) : (tbFin start s tg).st = s := (tbFin_spec start s tg).1

/-- the body of an iteration keeps the invariant; an answer `False` leaves no untightened item -/
theorem tbBody_inv {fs : List Int} (sel : Sel) (start : Range) {s : SS} (h : SInv fs s) :
    SInv fs (tbBody sel start s).st ∧
    (∀ s', tbBody sel start s = .ret false s' → s'.unproc = none ∧ s'.u.es = []) := by
  unfold tbBody
  split
  · rename_i hemp
    rw [tbFin_st]
    refine ⟨h, ?_⟩
    intro s' hs'
    obtain ⟨rfl, hun, _⟩ := tbFin_false hs'
    exact ⟨hun, by simpa [Heap.isEmpty] using hemp⟩
  · rename_i hemp
    simp only []
    generalize hs1 : (if s.unproc.isNone = true then lenOne s else s) = s1
    have h1 : SInv fs s1 ∧ s1.unproc = s.unproc := by
      rw [← hs1]; split
      · exact lenOne_inv h
      · exact ⟨h, rfl⟩
    obtain ⟨inv1, hun1⟩ := h1
    split
    · rename_i hgoal
      simp only [Bool.and_eq_true] at hgoal
      obtain ⟨_, best', hb'⟩ : ∃ bb best, bestMatch s1 = some best := by
        obtain ⟨best, bb, _, hb, _, _⟩ := goalTest_facts hgoal.2
        exact ⟨bb, best, hb⟩
      split
      · rename_i hnone; rw [hnone] at hb'; cases hb'
      · rename_i best hb
        obtain ⟨g1, g2, g3⟩ := goal_inv inv1 hgoal.2 hb
        refine ⟨g1, ?_⟩
        intro s' hs'
        simp only [StepRes.ret.injEq] at hs'
        obtain ⟨hf, rfl⟩ := hs'
        exact ⟨g2, g3 hf⟩
    · rename_i hgoal
      have hmin : s1.u.minEntry = s1.u.min := rfl
      rw [hmin]
      cases hm : s1.u.min with
      | none =>
        exfalso
        have hu1 : s1.u.es = [] := inv1.1.uHeap.1 hm
        -- `lenOne` emptied `_untightened`: then the goal test holds
        have hun : s.unproc = none := by
          cases hu : s.unproc with
          | none => rfl
          | some l =>
            rw [hu] at hs1; simp at hs1; subst hs1
            exfalso; apply hemp; simp [Heap.isEmpty, hu1]
        have hne : s1.σ ≠ [] := by
          -- the heap of `s` is non-empty, so there are items
          cases hes : s.u.es with
          | nil => rw [Heap.isEmpty, hes] at hemp; simp at hemp
          | cons e0 _ =>
            obtain ⟨a, ha, _⟩ := h.1.uOK e0 (by rw [hes]; simp)
            intro h0
            have hl : s1.σ.length = s.σ.length := by
              rw [← hs1]; split
              · exact lenOne_length s
              · rfl
            rw [h0] at hl
            have : s.σ = [] := List.eq_nil_of_length_eq_zero hl.symm
            rw [this] at ha; cases ha
        obtain ⟨_, _, _, _, _, _, _, hg⟩ := final_facts inv1 (by rw [hun1]; exact hun) hu1 hne
        apply hgoal
        simp [hun, hg]
      | some node =>
        simp only []
        obtain ⟨ht, inv2⟩ := forloop_inv sel inv1 hm
        rw [ht]
        simp only [↓reduceIte]
        rw [tbFin_st]
        refine ⟨inv2, ?_⟩
        intro s' hs'
        obtain ⟨_, _, hf⟩ := tbFin_false hs'
        cases hf

theorem tbIter_inv {fs : List Int} (sel : Sel) (start : Range) {s : SS} (h : SInv fs s) :
    SInv fs (tbIter sel start s).st ∧
    (∀ s', tbIter sel start s = .ret false s' → s'.unproc = none ∧ s'.u.es = []) := by
  obtain ⟨i1, i2⟩ := intake_inv h
  unfold tbIter
  cases hin : intake s with
  | mk ob s1 =>
    rw [hin] at i1 i2
    simp only at i1 i2
    subst i1
    simp only []
    exact tbBody_inv sel start i2

theorem tbLoop_inv {fs : List Int} (sel : Sel) (start : Range) : ∀ (f : Nat) (s : SS) (b : Bool) (s' : SS),
    SInv fs s → tbLoop sel start f s = some (b, s') →
    SInv fs s' ∧ (b = false → s'.unproc = none ∧ s'.u.es = []) := by
  intro f
  induction f with
  | zero => intro s b s' _ h; simp [tbLoop] at h
  | succ f ih =>
    intro s b s' inv h
    obtain ⟨a1, a2⟩ := tbIter_inv sel start inv
    unfold tbLoop at h
    cases hres : tbIter sel start s with
    | ret b1 s1 =>
      rw [hres] at h a1
      simp only [Option.some.injEq, Prod.mk.injEq] at h
      obtain ⟨rfl, rfl⟩ := h
      refine ⟨a1, ?_⟩
      intro hb; subst hb
      exact a2 _ hres
    | cont s1 =>
      rw [hres] at h a1
      exact ih s1 b s' a1 h

theorem tightenBounds_inv {fs : List Int} (sel : Sel) {s : SS} {b : Bool} {s' : SS} (h : SInv fs s)
    (ht : tightenBounds sel s = some (b, s')) : SInv fs s' ∧ (b = false → s'.unproc = none ∧ s'.u.es = []) :=
  tbLoop_inv sel _ _ s b s' h ht

theorem searchLoop_inv {fs : List Int} (sel : Sel) : ∀ (f : Nat) (s s' : SS), SInv fs s →
    searchLoop sel f s = some s' → SInv fs s' ∧ s'.unproc = none ∧ s'.u.es = [] := by
  intro f
  induction f with
  | zero => intro s s' _ h; simp [searchLoop] at h
  | succ f ih =>
    intro s s' inv h
    unfold searchLoop at h
    cases ht : tightenBounds sel s with
    | none => rw [ht] at h; cases h
    | some p =>
      obtain ⟨b, s1⟩ := p
      rw [ht] at h
      obtain ⟨inv1, hf⟩ := tightenBounds_inv sel inv ht
      cases b with
      | true => exact ih s1 s' inv1 h
      | false =>
        simp only [Option.some.injEq] at h; subst h
        exact ⟨inv1, hf rfl⟩

end GtModel.Bounded

/- `bounds.sort` with an abstract heap: a validated comparison transcript yields a sorted permutation. -/
import GtModel.Proofs.CompareLemmas

namespace GtModel.Bounded
open GtModel

/-- `final x ≤ final y` for two existing items -/
def LE (fs : List Int) (x y : Nat) : Prop := ∃ nx ny, fs[x]? = some nx ∧ fs[y]? = some ny ∧ nx ≤ ny

theorem LE.trans {fs : List Int} {x y z : Nat} (h1 : LE fs x y) (h2 : LE fs y z) : LE fs x z := by
  obtain ⟨a, b, ha, hb, hab⟩ := h1
  obtain ⟨b', c, hb', hc, hbc⟩ := h2
  rw [hb] at hb'; cases hb'
  exact ⟨a, c, ha, hc, by omega⟩

theorem LE.refl {fs : List Int} {x : Nat} (h : x < fs.length) : LE fs x x :=
  ⟨fs[x], fs[x], List.getElem?_eq_getElem h, List.getElem?_eq_getElem h, Int.le_refl _⟩

def KnowOK (fs : List Int) (know : List (Nat × Nat)) : Prop := ∀ p ∈ know, LE fs p.1 p.2

theorem reachStep_sound {fs : List Int} {know : List (Nat × Nat)} (hk : KnowOK fs know) {m : Nat} {s : List Nat}
    (hs : ∀ x ∈ s, LE fs m x) : ∀ y ∈ reachStep know s, LE fs m y := by
  intro y hy
  unfold reachStep at hy
  rcases List.mem_append.mp hy with h | h
  · exact hs y h
  · obtain ⟨p, hp, rfl⟩ := List.mem_map.mp h
    obtain ⟨hpk, hps⟩ := List.mem_filter.mp hp
    simp at hps
    exact (hs p.1 hps).trans (hk p hpk)

theorem reachN_sound {fs : List Int} {know : List (Nat × Nat)} (hk : KnowOK fs know) {m : Nat} :
    ∀ (k : Nat) (s : List Nat), (∀ x ∈ s, LE fs m x) → ∀ y ∈ reachN know k s, LE fs m y := by
  intro k
  induction k with
  | zero => intro s hs y hy; exact hs y hy
  | succ k ih => intro s hs y hy; exact ih _ (reachStep_sound hk hs) y hy

theorem justified_sound {fs : List Int} {know : List (Nat × Nat)} (hk : KnowOK fs know) {rem : List Nat} {m : Nat}
    (hm : m < fs.length) (h : justified know rem m = true) : ∀ y ∈ rem, LE fs m y := by
  intro y hy
  unfold justified at h
  simp only [List.all_eq_true] at h
  have := h y hy
  simp at this
  exact reachN_sound hk _ [m] (by intro x hx; simp at hx; subst hx; exact LE.refl hm) y this

structure SortInv (fs : List Int) (n : Nat) (s : SortSt) : Prop where
  valid : ValidSt s.σ fs
  know : KnowOK fs s.know
  rem : ∀ x ∈ s.remaining, x < n
  below : ∀ o ∈ s.out, ∀ y ∈ s.remaining, LE fs o y
  sorted : s.out.Pairwise (LE fs)
  perm : (s.out ++ s.remaining).Perm (List.range n)

theorem sortReplay_spec (fs : List Int) : ∀ (evs : List SortEv) (s s' : SortSt),
    SortInv fs fs.length s → sortReplay evs s = .ok s' → Reach s.σ s'.σ ∧ SortInv fs fs.length s' := by
  intro evs
  induction evs with
  | nil => intro s s' inv h; simp [sortReplay] at h; subst h; exact ⟨.refl _, inv⟩
  | cons ev evs ih =>
    intro s s' inv h
    cases ev with
    | cmp i j idlt res =>
      simp only [sortReplay] at h
      split at h
      · cases h
      · rename_i hidx
        split at h
        · cases h
        · rename_i hres
          simp at hidx hres
          have hl := inv.valid.1
          have gi : fs[i]? = some fs[i] := List.getElem?_eq_getElem (by omega)
          have gj : fs[j]? = some fs[j] := List.getElem?_eq_getElem (by omega)
          obtain ⟨c1, c2, c3⟩ := ltCmp_spec inv.valid i j idlt gi gj
          have inv' : SortInv fs fs.length
              { s with σ := (ltCmp s.σ i j idlt).2, know := (if res = true then (i, j) else (j, i)) :: s.know } := by
            refine ⟨c1.valid inv.valid, ?_, inv.rem, inv.below, inv.sorted, inv.perm⟩
            intro p hp
            simp at hp
            rcases hp with rfl | hp
            · cases res
              · simp; exact ⟨_, _, gj, gi, c3 hres⟩
              · simp; exact ⟨_, _, gi, gj, c2 hres⟩
            · exact inv.know p hp
          obtain ⟨r, i'⟩ := ih _ s' inv' h
          exact ⟨c1.trans r, i'⟩
    | pop m =>
      simp only [sortReplay] at h
      split at h
      · cases h
      · rename_i hmem
        split at h
        · cases h
        · rename_i hjust
          simp at hmem hjust
          have hm : m < fs.length := inv.rem m hmem
          have hbelow := justified_sound inv.know hm hjust
          have inv' : SortInv fs fs.length { s with remaining := s.remaining.erase m, out := s.out ++ [m] } := by
            refine ⟨inv.valid, inv.know, fun x hx => inv.rem x (List.mem_of_mem_erase hx), ?_, ?_, ?_⟩
            · intro o ho y hy
              have hy' := List.mem_of_mem_erase hy
              rcases List.mem_append.mp ho with h' | h'
              · exact inv.below o h' y hy'
              · simp at h'; subst h'; exact hbelow y hy'
            · rw [List.pairwise_append]
              refine ⟨inv.sorted, by simp, ?_⟩
              intro a ha b hb
              simp at hb; subst hb
              exact inv.below a ha b hmem
            · have p1 : s.remaining.Perm (m :: s.remaining.erase m) := List.perm_cons_erase hmem
              have p2 : (s.out ++ [m] ++ s.remaining.erase m).Perm (s.out ++ s.remaining) := by
                rw [List.append_assoc]
                exact List.Perm.append_left _ p1.symm
              exact p2.trans inv.perm
          exact ih { s with remaining := s.remaining.erase m, out := s.out ++ [m] } s' inv' h

theorem sortInit_inv {σ : St} {fs : List Int} (hv : ValidSt σ fs) : SortInv fs fs.length (sortInit σ) := by
  unfold sortInit
  refine ⟨hv, (by intro p hp; cases hp), ?_, (by intro o ho; cases ho), List.Pairwise.nil, ?_⟩
  · intro x hx; rw [← hv.1]; simpa using hx
  · simp [hv.1]

end GtModel.Bounded

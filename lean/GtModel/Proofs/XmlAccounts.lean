/-
  C01 for XML: `XAccounts` = at every nesting level the sub-edits of a compound XML edit account for every child of
  both nodes exactly once, in order; the embedded L2 scripts (tag, attributes, text) satisfy L2's `Accounts`.
-/
import GtModel.Proofs.XmlIdx
import GtModel.Proofs.EditsBuild
namespace GtModel.Xml
open List GtModel
open GtModel.EditMatrix

attribute [-simp] List.getD_eq_getElem?_getD

/-- the things an XML edit can relate: elements, child tuples (`XMLElementChildren`), and L2 nodes (the tag and
    text strings, the attribute mapping and everything below them) -/
inductive XNd where
  | elem (x : XTree)
  | kids (cs : List XTree)
  | l2 (n : Nd)

/-- `XMLElement.children()` = (tag, attrib, [text], _children) -/
def elemChildren : XTree → List XNd
  | .mk tag a text cs =>
      [.l2 (.tree (.leaf (.str tag))), .l2 (.tree a)]
        ++ (match text with | some s => [XNd.l2 (.tree (.leaf (.str s)))] | none => [])
        ++ [.kids cs]

def XNd.children : XNd → List XNd
  | .elem x => elemChildren x
  | .kids cs => cs.map .elem
  | .l2 n => n.children.map .l2

/-- which node pairs an XML edit with sub-edits may relate -/
def xkindFits : XKind → XNd → XNd → Prop
  | .elem, .elem _, .elem _ => True
  | .fixed, .kids _, .kids _ => True
  | .ed, .kids _, .kids _ => True
  | _, _, _ => False

/-- one compound XML edit accounts for the children of the two nodes it relates: each exactly once, in order -/
def XLocalAcc (a b : XNd) (k : XKind) (subs : List XScript) : Prop :=
  k.hasSubs = true → xkindFits k a b ∧
    xfromIdx subs = ixRange a.children.length ∧ xtoIdx subs = ixRange b.children.length

/-- sub-edits that carry sub-edits themselves (they are linked to the children their indices name) -/
def XScript.linked : XScript → Bool
  | .emb s => s.kind.hasSubs
  | .mk k _ _ _ _ => k.hasSubs

mutual
/-- the script accounts for both nodes at every nesting level -/
def XAccounts : XNd → XNd → XScript → Prop
  | a, b, .emb s => ∃ a' b', a = .l2 a' ∧ b = .l2 b' ∧ Accounts a' b' s
  | a, b, .mk k _ _ _ subs => XLocalAcc a b k subs ∧ XAccountsL a b subs
def XAccountsL : XNd → XNd → List XScript → Prop
  | _, _, [] => True
  | a, b, s :: rest =>
      (s.linked = true → ∃ i j x y, s.fi = .at i ∧ xtoIxOf s = .at j ∧
          a.children[i]? = some x ∧ b.children[j]? = some y ∧ XAccounts x y s)
        ∧ XAccountsL a b rest
end

theorem xaccountsL_iff (a b : XNd) (l : List XScript) : XAccountsL a b l ↔ ∀ s ∈ l, s.linked = true →
    ∃ i j x y, s.fi = .at i ∧ xtoIxOf s = .at j ∧
      a.children[i]? = some x ∧ b.children[j]? = some y ∧ XAccounts x y s := by
  induction l with
  | nil => simp [XAccountsL]
  | cons s l ih => simp [XAccountsL, ih]

theorem xaccounts_mk (a b : XNd) (k : XKind) (f t : Ix) (c : Nat) (subs : List XScript) :
    XAccounts a b (.mk k f t c subs) ↔ XLocalAcc a b k subs ∧ XAccountsL a b subs := by
  simp [XAccounts]

theorem xaccounts_emb (a b : Nd) (s : Script) : XAccounts (.l2 a) (.l2 b) (.emb s) ↔ Accounts a b s := by
  simp [XAccounts]

theorem xaccounts_relabel (a b : XNd) (s : XScript) (f t : Ix) : XAccounts a b (s.relabel f t) ↔ XAccounts a b s := by
  cases s with
  | emb s =>
    simp only [XScript.relabel_emb, XAccounts, Accounts, walk_relabel]
  | mk k f0 t0 c subs => simp [XAccounts]

theorem xaccounts_xMatch (a b : XNd) (c : Nat) : XAccounts a b (xMatch c) := by
  simp [xMatch, XAccounts, XLocalAcc, XKind.hasSubs, XAccountsL]

/-! ### distinct attribute names (true of every parsed element: a Python dict cannot hold a key twice) -/

mutual
def XTree.keysDistinct : XTree → Bool
  | .mk _ a _ cs => a.keysDistinct && xkdL cs
def xkdL : List XTree → Bool
  | [] => true
  | c :: cs => c.keysDistinct && xkdL cs
end

/-- within every attribute mapping of the element tree, no name occurs twice -/
abbrev XTree.KeysDistinct (t : XTree) : Prop := t.keysDistinct = true

theorem xkdL_iff (cs : List XTree) : xkdL cs = true ↔ ∀ c ∈ cs, c.KeysDistinct := by
  induction cs with
  | nil => simp [xkdL]
  | cons c cs ih => simp [xkdL, ih]

theorem xkd_mk (tag : Str) (a : Tree) (x : Option Str) (cs : List XTree) :
    (XTree.mk tag a x cs).KeysDistinct ↔ a.KeysDistinct ∧ ∀ c ∈ cs, c.KeysDistinct := by
  simp [XTree.KeysDistinct, XTree.keysDistinct, xkdL_iff]

/-! ### the parts of an `XMLElementEdit` -/

theorem elemChildren_length (tag : Str) (a : Tree) (x : Option Str) (cs : List XTree) :
    (elemChildren (.mk tag a x cs)).length = kidsIx x + 1 := by
  cases x <;> simp [elemChildren, kidsIx]

theorem accounts_strEdits (a b : Str) : Accounts (.tree (.leaf (.str a))) (.tree (.leaf (.str b))) (strEdits a b) := by
  have := accounts_edits Tree.eq_symm {} [] [] [] (.leaf (.str a)) (.leaf (.str b)) rfl rfl
  rw [edits_leaf] at this
  simpa [leafEdits] using this

/-- the four parts, labelled in `children()` order, account for the children of both elements -/
theorem elemScript_idx (ftag ttag : Str) (fattr tattr : Tree) (ftext ttext : Option Str) (fcs tcs : List XTree)
    (attrE : Script) (kidsE : XScript) (ha : attrE.kind.isTop = true) (hk : kidsE.isTop = true) :
    xfromIdx (elemScript (strEdits ftag ttag) attrE (textEdit ftext ttext) (kidsIx ftext) (kidsIx ttext) kidsE).subs
      = ixRange (elemChildren (.mk ftag fattr ftext fcs)).length ∧
    xtoIdx (elemScript (strEdits ftag ttag) attrE (textEdit ftext ttext) (kidsIx ftext) (kidsIx ttext) kidsE).subs
      = ixRange (elemChildren (.mk ttag tattr ttext tcs)).length := by
  have h1 := Kind.isTop_ne (strEdits_kind_top ftag ttag)
  have h2 := Kind.isTop_ne ha
  have h3 := XScript.isTop_iff.1 hk
  have e1 : ((strEdits ftag ttag).kind == Kind.insert) = false := by simpa using h1.1
  have e2 : ((strEdits ftag ttag).kind == Kind.remove) = false := by simpa using h1.2.1
  have e3 : (attrE.kind == Kind.insert) = false := by simpa using h2.1
  have e4 : (attrE.kind == Kind.remove) = false := by simpa using h2.2.1
  rw [elemChildren_length, elemChildren_length]
  cases ftext with
  | none =>
    cases ttext with
    | none =>
      simp [elemScript, textEdit, kidsIx, xfromIdx, xtoIdx, xtoIxOf, List.filter_cons, e1, e2, e3, e4, h3.1, h3.2,
        ixRange, List.range_succ]
    | some b =>
      simp [elemScript, textEdit, kidsIx, xfromIdx, xtoIdx, xtoIxOf, List.filter_cons, e1, e2, e3, e4, h3.1, h3.2,
        ixRange, List.range_succ, mkInsert]
  | some a =>
    cases ttext with
    | none =>
      simp [elemScript, textEdit, kidsIx, xfromIdx, xtoIdx, xtoIxOf, List.filter_cons, e1, e2, e3, e4, h3.1, h3.2,
        ixRange, List.range_succ, mkRemove]
    | some b =>
      have h4 := Kind.isTop_ne (strEdits_kind_top a b)
      have e5 : ((strEdits a b).kind == Kind.insert) = false := by simpa using h4.1
      have e6 : ((strEdits a b).kind == Kind.remove) = false := by simpa using h4.2.1
      simp [elemScript, textEdit, kidsIx, xfromIdx, xtoIdx, xtoIxOf, List.filter_cons, e1, e2, e3, e4, e5, e6, h3.1, h3.2,
        ixRange, List.range_succ]

/-! ### the child tuples -/

theorem xaccounts_kidsScript (o : Opts) (orc : Oracle) (fp tp : List Nat) (kf kt : Nat) (fcs tcs : List XTree)
    (ih : ∀ i j (hi : i < fcs.length) (hj : j < tcs.length),
      XAccounts (.elem fcs[i]) (.elem tcs[j]) (xmlEdits o orc (fp ++ [kf, i]) (tp ++ [kt, j]) fcs[i] tcs[j])) :
    XAccounts (.kids fcs) (.kids tcs) (kidsScript o fcs tcs (kidsTbl o orc fp tp kf kt fcs tcs)) := by
  have hT := kidsTbl_top o orc fp tp kf kt fcs tcs
  have hlink : ∀ i j, i < fcs.length → j < tcs.length →
      ∃ i' j' x y, ((((kidsTbl o orc fp tp kf kt fcs tcs).getD i []).getD j (xMatch 0)).relabel (.at i) (.at j)).fi = .at i' ∧
        xtoIxOf ((((kidsTbl o orc fp tp kf kt fcs tcs).getD i []).getD j (xMatch 0)).relabel (.at i) (.at j)) = .at j' ∧
        (XNd.kids fcs).children[i']? = some x ∧ (XNd.kids tcs).children[j']? = some y ∧
        XAccounts x y ((((kidsTbl o orc fp tp kf kt fcs tcs).getD i []).getD j (xMatch 0)).relabel (.at i) (.at j)) := by
    intro i j hi hj
    refine ⟨i, j, .elem fcs[i], .elem tcs[j], by simp, xtoIxOf_relabel_at _ _ _ (XScript.isTop_iff.1 (hT i j)).1,
      by simp [XNd.children, hi], by simp [XNd.children, hj], ?_⟩
    rw [xaccounts_relabel, kidsTbl_getD _ _ _ _ _ _ _ _ _ _ _ hi hj]
    exact ih i j hi hj
  unfold kidsScript
  split
  · exact xaccounts_xMatch _ _ _
  · split
    · simp only [kidsFixed, xCompound]
      rw [xaccounts_mk]
      constructor
      · intro _
        refine ⟨trivial, ?_⟩
        have := kidsFixed_idx fcs tcs _ hT
        simpa [kidsFixed, xCompound, XNd.children] using this
      · rw [xaccountsL_iff]
        intro s hs hsub
        simp only [List.mem_append, List.mem_map, List.mem_range] at hs
        rcases hs with (⟨k, hk, rfl⟩ | ⟨k, _, rfl⟩) | ⟨k, _, rfl⟩
        · have h1 : fcs.length.min tcs.length ≤ fcs.length := Nat.min_le_left _ _
          have h2 : fcs.length.min tcs.length ≤ tcs.length := Nat.min_le_right _ _
          exact hlink k k (by omega) (by omega)
        · simp [xRemove, XScript.linked, XKind.hasSubs] at hsub
        · simp [xInsert, XScript.linked, XKind.hasSubs] at hsub
    · simp only [kidsEd]
      rw [xaccounts_mk]
      constructor
      · intro _
        refine ⟨trivial, ?_⟩
        have := kidsEd_idx fcs tcs 1 _ hT
        simpa [kidsEd, XNd.children] using this
      · rw [xaccountsL_iff]
        intro s hs hsub
        simp only [List.mem_append, List.mem_map] at hs
        rcases hs with (⟨k, _, rfl⟩ | ⟨⟨m, r, c⟩, hm, rfl⟩) | ⟨k, _, rfl⟩
        · simp [xMatch, XScript.linked, XKind.hasSubs] at hsub
        · have hr := solve_located_inRange _ _ _ _ hm
          have hl := trimLens_le fcs tcs
          simp only [List.length_map, middle_length] at hr
          cases m
          · have h1 := hr.1 (by simp)
            have h2 := hr.2 (by simp)
            dsimp only
            exact hlink _ _ (by omega) (by omega)
          · simp [xInsert, XScript.linked, XKind.hasSubs] at hsub
          · simp [xRemove, XScript.linked, XKind.hasSubs] at hsub
        · simp [xMatch, XScript.linked, XKind.hasSubs] at hsub

/-! ### every nesting level -/

theorem xaccounts_xmlEdits (o : Opts) (orc : Oracle) (f : XTree) : ∀ (fp tp : List Nat) (t : XTree),
    f.KeysDistinct → t.KeysDistinct → XAccounts (.elem f) (.elem t) (xmlEdits o orc fp tp f t) := by
  induction f using XTree.ind with
  | mk ftag fattr ftext fcs ih =>
    intro fp tp t hf ht
    obtain ⟨ttag, tattr, ttext, tcs⟩ := t
    rw [xkd_mk] at hf ht
    rw [xmlEdits_eq]
    split
    · exact xaccounts_xMatch _ _ _
    · have hkids := xaccounts_kidsScript o orc fp tp (kidsIx ftext) (kidsIx ttext) fcs tcs
        (fun i j hi hj => ih _ (List.getElem_mem hi) _ _ _ (hf.2 _ (List.getElem_mem hi)) (ht.2 _ (List.getElem_mem hj)))
      have hidx := elemScript_idx ftag ttag fattr tattr ftext ttext fcs tcs
        (edits o orc (fp ++ [1]) (tp ++ [1]) fattr tattr)
        (kidsScript o fcs tcs (kidsTbl o orc fp tp (kidsIx ftext) (kidsIx ttext) fcs tcs))
        (edits_kind_top ..) (kidsScript_top ..)
      have hktop := kidsScript_top o fcs tcs (kidsTbl o orc fp tp (kidsIx ftext) (kidsIx ttext) fcs tcs)
      generalize kidsScript o fcs tcs (kidsTbl o orc fp tp (kidsIx ftext) (kidsIx ttext) fcs tcs) = kidsE at hkids hidx hktop
      have hattr := accounts_edits Tree.eq_symm o orc (fp ++ [1]) (tp ++ [1]) fattr tattr hf.1 ht.1
      have hatop := edits_kind_top o orc (fp ++ [1]) (tp ++ [1]) fattr tattr
      generalize edits o orc (fp ++ [1]) (tp ++ [1]) fattr tattr = attrE at hattr hidx hatop
      simp only [elemScript, xCompound] at hidx ⊢
      rw [xaccounts_mk]
      refine ⟨fun _ => ⟨trivial, hidx⟩, ?_⟩
      rw [xaccountsL_iff]
      intro s hs hlinked
      simp only [List.mem_append, List.mem_cons, List.mem_nil_iff, or_false] at hs
      rcases hs with ((rfl | rfl) | hs) | rfl
      · refine ⟨0, 0, .l2 (.tree (.leaf (.str ftag))), .l2 (.tree (.leaf (.str ttag))), rfl, ?_, by simp [XNd.children, elemChildren],
          by simp [XNd.children, elemChildren], ?_⟩
        · simp [xtoIxOf, (Kind.isTop_ne (strEdits_kind_top ftag ttag)).1]
        · rw [xaccounts_emb]; simp only [Accounts, walk_relabel]; exact accounts_strEdits ftag ttag
      · refine ⟨1, 1, .l2 (.tree fattr), .l2 (.tree tattr), rfl, ?_, by simp [XNd.children, elemChildren],
          by simp [XNd.children, elemChildren], ?_⟩
        · simp [xtoIxOf, (Kind.isTop_ne hatop).1]
        · rw [xaccounts_emb]; simp only [Accounts, walk_relabel]; exact hattr
      · cases ftext with
        | none =>
          cases ttext with
          | none => simp [textEdit] at hs
          | some b => simp only [textEdit, List.mem_cons, List.mem_nil_iff, or_false] at hs; subst hs
                      simp [XScript.linked, mkInsert, Kind.hasSubs] at hlinked
        | some a =>
          cases ttext with
          | none => simp only [textEdit, List.mem_cons, List.mem_nil_iff, or_false] at hs; subst hs
                    simp [XScript.linked, mkRemove, Kind.hasSubs] at hlinked
          | some b =>
            simp only [textEdit, List.mem_cons, List.mem_nil_iff, or_false] at hs; subst hs
            refine ⟨2, 2, .l2 (.tree (.leaf (.str a))), .l2 (.tree (.leaf (.str b))), rfl, ?_, by simp [XNd.children, elemChildren],
              by simp [XNd.children, elemChildren], ?_⟩
            · simp [xtoIxOf, (Kind.isTop_ne (strEdits_kind_top a b)).1]
            · rw [xaccounts_emb]; simp only [Accounts, walk_relabel]; exact accounts_strEdits a b
      · refine ⟨kidsIx ftext, kidsIx ttext, .kids fcs, .kids tcs, by simp, ?_, ?_, ?_, ?_⟩
        · exact xtoIxOf_relabel_at _ _ _ (XScript.isTop_iff.1 hktop).1
        · cases ftext <;> simp [XNd.children, elemChildren, kidsIx]
        · cases ttext <;> simp [XNd.children, elemChildren, kidsIx]
        · rw [xaccounts_relabel]; exact hkids

/-! ### built documents -/

/-- distinct attribute names in the documents (what every XML parser delivers: a duplicated attribute is a
    well-formedness error) -/
def XDoc.keysDistinct : XDoc → Bool
  | .mk _ a _ _ cs => decide ((a.map Prod.fst).Nodup) && kdL cs
where
  kdL : List XDoc → Bool
    | [] => true
    | c :: cs => XDoc.keysDistinct c && kdL cs

theorem attrDoc_keysDistinct (a : List (Str × Str)) (h : (a.map Prod.fst).Nodup) : (attrDoc a).KeysDistinct := by
  simp only [attrDoc, Doc.KeysDistinct, Doc.keysDistinct, List.map_map, Bool.and_eq_true, decide_eq_true_eq]
  refine ⟨by simpa [Function.comp_def] using h, ?_⟩
  clear h
  induction a with
  | nil => rfl
  | cons p a ih => simp [dkdKV, Doc.keysDistinct, ih]

mutual
theorem xbuild_keysDistinct (o : Opts) : ∀ (d : XDoc), XDoc.keysDistinct d = true → (xbuild o d).KeysDistinct
  | .mk tag a x tl cs, h => by
    simp only [XDoc.keysDistinct, Bool.and_eq_true, decide_eq_true_eq] at h
    rw [xbuild, xkd_mk]
    exact ⟨build_kd o _ (attrDoc_keysDistinct a h.1), (xkdL_iff _).1 (xbuildL_kd o cs h.2)⟩
theorem xbuildL_kd (o : Opts) : ∀ (cs : List XDoc), XDoc.keysDistinct.kdL cs = true → xkdL (xbuild.xbuildL o cs) = true
  | [], _ => rfl
  | c :: cs, h => by
    simp only [XDoc.keysDistinct.kdL, Bool.and_eq_true] at h
    simp only [xbuild.xbuildL, xkdL, Bool.and_eq_true]
    exact ⟨xbuild_keysDistinct o c h.1, xbuildL_kd o cs h.2⟩
end

end GtModel.Xml

/-
  C02 for XML, "whenever the elements differ, at least one edit of positive cost is reported": every XML script of
  positive cost contains a non-compound edit (Match / Replace / Remove / Insert, possibly inside an embedded L2
  script) of positive cost.  Mirrors Proofs/ZeroAtom.lean.
-/
import GtModel.Proofs.XmlZero
import GtModel.Proofs.ZeroAtom
namespace GtModel.Xml
open List GtModel
open GtModel.EditMatrix (Move solve located trimLens middle cellAt moveCost moveCostsFrom moveCosts positionsFrom
  solve_total_eq_sum)

/-- Match / Remove / Insert of an element -/
def XKind.atomic : XKind → Bool
  | .match_ | .remove | .insert => true
  | _ => false

/-- the XML script contains (at any depth) a non-compound edit of positive cost -/
inductive XPosAtom : XScript → Prop
  | emb {s : Script} : PosAtom s → XPosAtom (.emb s)
  | here {k : XKind} {f t : Ix} {c : Nat} {subs : List XScript} : k.atomic = true → 0 < c → XPosAtom (.mk k f t c subs)
  | sub {k : XKind} {f t : Ix} {c : Nat} {subs : List XScript} {s' : XScript} :
      k.atomic = false → s' ∈ subs → XPosAtom s' → XPosAtom (.mk k f t c subs)

def XGood (s : XScript) : Prop := 0 < s.cost → XPosAtom s

theorem xposAtom_relabel {s : XScript} {f t : Ix} (h : XPosAtom s) : XPosAtom (s.relabel f t) := by
  cases h with
  | emb h => exact .emb (posAtom_relabel h)
  | here hk hc => exact .here hk hc
  | sub hk hm hp => exact .sub hk hm hp

theorem xgood_relabel {s : XScript} (f t : Ix) (h : XGood s) : XGood (s.relabel f t) :=
  fun hc => xposAtom_relabel (h (by simpa using hc))

theorem xgood_emb {s : Script} (h : Good s) : XGood (.emb s) := fun hc => .emb (h hc)
theorem xgood_xMatch (c : Nat) : XGood (xMatch c) := fun h => .here rfl h
theorem xgood_xRemove (i s p : Nat) : XGood (xRemove i s p) := fun h => .here rfl h
theorem xgood_xInsert (i s p : Nat) : XGood (xInsert i s p) := fun h => .here rfl h

theorem exists_pos_of_xsum_pos : ∀ (l : List XScript), 0 < xsum l → ∃ s ∈ l, 0 < s.cost := by
  intro l
  induction l with
  | nil => simp
  | cons s l ih =>
    intro h
    simp only [xsum_cons] at h
    by_cases hs : 0 < s.cost
    · exact ⟨s, List.mem_cons_self, hs⟩
    · obtain ⟨s', hm, hp⟩ := ih (by omega)
      exact ⟨s', List.mem_cons_of_mem _ hm, hp⟩

theorem xgood_compound (k : XKind) (hk : k.atomic = false) (f t : Ix) (c : Nat) (subs : List XScript)
    (hc : c ≤ xsum subs) (hg : ∀ s ∈ subs, XGood s) : XGood (.mk k f t c subs) := by
  intro hpos
  simp only [XScript.cost_mk] at hpos
  obtain ⟨s, hm, hp⟩ := exists_pos_of_xsum_pos subs (by omega)
  exact .sub hk hm (hg s hm hp)

theorem solve_total_le_xsubs (rem ins : List Nat) (cells : List (List Nat)) (g : Move × Nat × Nat → XScript)
    (hg : ∀ mv r c, moveCost rem ins cells r c mv ≤ (g (mv, r, c)).cost) :
    (solve rem ins cells).1 ≤ xsum ((located (solve rem ins cells).2).map g) := by
  have := solve_total_le_subs rem ins cells (fun x => mkMatch (g x).cost) (by simpa using hg)
  refine Nat.le_trans this (Nat.le_of_eq ?_)
  simp [xsum, sumCosts, Function.comp_def]

def XGoodTbl (tbl : List (List XScript)) : Prop := ∀ i j, XGood ((tbl.getD i []).getD j (xMatch 0))

theorem xgood_kidsFixed (fcs tcs : List XTree) (tbl : List (List XScript)) (h : XGoodTbl tbl) :
    XGood (kidsFixed fcs tcs tbl) := by
  unfold kidsFixed
  refine xgood_compound .fixed rfl _ _ _ _ (Nat.le_refl _) ?_
  intro s hs
  simp only [List.mem_append, List.mem_map] at hs
  rcases hs with (⟨k, -, rfl⟩ | ⟨k, -, rfl⟩) | ⟨k, -, rfl⟩
  · exact xgood_relabel _ _ (h _ _)
  · exact xgood_xRemove _ _ _
  · exact xgood_xInsert _ _ _

theorem xgood_kidsEd (fcs tcs : List XTree) (pen : Nat) (tbl : List (List XScript)) (h : XGoodTbl tbl) :
    XGood (kidsEd fcs tcs pen tbl) := by
  simp only [kidsEd]
  refine xgood_compound .ed rfl _ _ _ _ ?_ ?_
  · simp only [xsum_append]
    apply Nat.le_trans _ (Nat.le_add_right _ _)
    apply Nat.le_trans _ (Nat.le_add_left _ _)
    apply solve_total_le_xsubs
    intro mv r c
    cases mv with
    | diag =>
      simp only [moveCost, XScript.relabel_cost]
      exact cellAt_tab_le (fun r c => ((tbl.getD (c + (trimLens fcs tcs).1) []).getD (r + (trimLens fcs tcs).1) (xMatch 0)).cost) _ _ r c
    | up =>
      simp only [moveCost, xInsert_cost]
      exact getD_map_le _ (fun (c : XTree) => c.size + pen) r _
    | left =>
      simp only [moveCost, xRemove_cost]
      exact getD_map_le _ (fun (c : XTree) => c.size + pen) c _
  · intro s hs
    simp only [List.mem_append, List.mem_map] at hs
    rcases hs with (⟨k, -, rfl⟩ | ⟨⟨mv, r, c⟩, -, rfl⟩) | ⟨k, -, rfl⟩
    · exact xgood_relabel _ _ (xgood_xMatch 0)
    · cases mv
      · exact xgood_relabel _ _ (h _ _)
      · exact xgood_xInsert _ _ _
      · exact xgood_xRemove _ _ _
    · exact xgood_relabel _ _ (xgood_xMatch 0)

theorem xgood_kidsScript (o : Opts) (fcs tcs : List XTree) (tbl : List (List XScript)) (h : XGoodTbl tbl) :
    XGood (kidsScript o fcs tcs tbl) := by
  unfold kidsScript
  split
  · exact xgood_xMatch 0
  · split
    · exact xgood_kidsFixed _ _ _ h
    · exact xgood_kidsEd _ _ _ _ h

theorem good_textEdit (ft tt : Option Str) : ∀ e, textEdit ft tt = some e → Good e := by
  intro e he
  cases ft <;> cases tt <;> simp only [textEdit, Option.some.injEq, reduceCtorEq] at he <;> subst he
  · exact good_mkInsert _ _ _
  · exact good_mkRemove _ _ _
  · exact good_relabel _ _ (good_strEdits _ _)

theorem xgood_elemScript (tagE attrE : Script) (textE : Option Script) (kf kt : Nat) (kidsE : XScript)
    (h1 : Good tagE) (h2 : Good attrE) (h3 : ∀ e, textE = some e → Good e) (h4 : XGood kidsE) :
    XGood (elemScript tagE attrE textE kf kt kidsE) := by
  unfold elemScript
  refine xgood_compound .elem rfl _ _ _ _ (Nat.le_refl _) ?_
  intro s hs
  simp only [List.mem_append, List.mem_cons, List.mem_nil_iff, or_false] at hs
  rcases hs with ((rfl | rfl) | hs) | rfl
  · exact xgood_emb (good_relabel _ _ h1)
  · exact xgood_emb (good_relabel _ _ h2)
  · cases textE with
    | none => simp at hs
    | some e => simp only [List.mem_cons, List.mem_nil_iff, or_false] at hs; subst hs; exact xgood_emb (h3 e rfl)
  · exact xgood_relabel _ _ h4

theorem xgood_xmlEdits (o : Opts) (orc : Oracle) (f : XTree) : ∀ (fp tp : List Nat) (t : XTree),
    XGood (xmlEdits o orc fp tp f t) := by
  induction f using XTree.ind with
  | mk ftag fattr ftext fcs ih =>
    intro fp tp t
    obtain ⟨ttag, tattr, ttext, tcs⟩ := t
    rw [xmlEdits_eq]
    split
    · exact xgood_xMatch 0
    · apply xgood_elemScript
      · exact good_strEdits _ _
      · exact good_edits o orc _ fattr (Nat.le_refl _) _ _ tattr
      · exact good_textEdit _ _
      · apply xgood_kidsScript
        exact xtbl_all _ _ (xgood_xMatch 0)
          (kidsTbl_all o orc fp tp _ _ fcs tcs (fun fc hfc tc fp tp => ih fc hfc fp tp tc))

end GtModel.Xml

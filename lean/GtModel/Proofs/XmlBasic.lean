/-
  Basic facts about the XML layer `GtModel.Xml.xmlEdits`: accessor simp lemmas, the attach-free unfolding equation,
  the table of child scripts as a function of (c, r), induction principle for `XTree`.
-/
import GtModel.Model.XmlEdits
import GtModel.Proofs.EditsBasic
namespace GtModel.Xml
open List GtModel

/-! ### accessors -/
@[simp] theorem XScript.cost_mk (k f t c s) : (XScript.mk k f t c s).cost = c := rfl
@[simp] theorem XScript.cost_emb (s) : (XScript.emb s).cost = s.cost := rfl
@[simp] theorem XScript.fi_mk (k f t c s) : (XScript.mk k f t c s).fi = f := rfl
@[simp] theorem XScript.fi_emb (s) : (XScript.emb s).fi = s.fi := rfl
@[simp] theorem XScript.ti_mk (k f t c s) : (XScript.mk k f t c s).ti = t := rfl
@[simp] theorem XScript.ti_emb (s) : (XScript.emb s).ti = s.ti := rfl
@[simp] theorem XScript.subs_mk (k f t c s) : (XScript.mk k f t c s).subs = s := rfl
@[simp] theorem XScript.subs_emb (s) : (XScript.emb s).subs = [] := rfl
@[simp] theorem XScript.isInsert_mk (k f t c s) : (XScript.mk k f t c s).isInsert = (k == .insert) := rfl
@[simp] theorem XScript.isInsert_emb (s) : (XScript.emb s).isInsert = (s.kind == .insert) := rfl
@[simp] theorem XScript.isRemove_mk (k f t c s) : (XScript.mk k f t c s).isRemove = (k == .remove) := rfl
@[simp] theorem XScript.isRemove_emb (s) : (XScript.emb s).isRemove = (s.kind == .remove) := rfl
@[simp] theorem XScript.relabel_cost (s : XScript) (f t) : (s.relabel f t).cost = s.cost := by cases s <;> rfl
@[simp] theorem XScript.relabel_fi (s : XScript) (f t) : (s.relabel f t).fi = f := by cases s <;> rfl
@[simp] theorem XScript.relabel_ti (s : XScript) (f t) : (s.relabel f t).ti = t := by cases s <;> rfl
@[simp] theorem XScript.relabel_subs (s : XScript) (f t) : (s.relabel f t).subs = s.subs := by cases s <;> rfl
@[simp] theorem XScript.relabel_isInsert (s : XScript) (f t) : (s.relabel f t).isInsert = s.isInsert := by cases s <;> rfl
@[simp] theorem XScript.relabel_isRemove (s : XScript) (f t) : (s.relabel f t).isRemove = s.isRemove := by cases s <;> rfl
@[simp] theorem XScript.relabel_emb (s : Script) (f t) : (XScript.emb s).relabel f t = .emb (s.relabel f t) := rfl
@[simp] theorem XScript.relabel_mk (k f0 t0 c s f t) : (XScript.mk k f0 t0 c s).relabel f t = .mk k f t c s := rfl

@[simp] theorem xMatch_cost (c) : (xMatch c).cost = c := rfl
@[simp] theorem xMatch_subs (c) : (xMatch c).subs = [] := rfl
@[simp] theorem xRemove_cost (i s p) : (xRemove i s p).cost = s + p := rfl
@[simp] theorem xInsert_cost (i s p) : (xInsert i s p).cost = s + p := rfl
@[simp] theorem xCompound_cost (k s) : (xCompound k s).cost = xsum s := rfl
@[simp] theorem xCompound_subs (k s) : (xCompound k s).subs = s := rfl
@[simp] theorem xsum_nil : xsum [] = 0 := rfl
@[simp] theorem xsum_cons (s : XScript) (l) : xsum (s :: l) = s.cost + xsum l := by simp [xsum]
@[simp] theorem xsum_append (a b : List XScript) : xsum (a ++ b) = xsum a + xsum b := by simp [xsum]

/-! ### the table of child scripts -/

/-- `tbl[c][r]` = script of `from_children[c].edits(to_children[r])`; `kf`/`kt` = index of `_children` in the two
    elements' `children()` -/
def kidsTbl (o : Opts) (orc : Oracle) (fp tp : List Nat) (kf kt : Nat) (fcs tcs : List XTree) : List (List XScript) :=
  fcs.zipIdx.map fun p => tcs.zipIdx.map fun q => xmlEdits o orc (fp ++ [kf, p.2]) (tp ++ [kt, q.2]) p.1 q.1

/-- the unfolding equation of `xmlEdits` without `attach` -/
theorem xmlEdits_eq (o : Opts) (orc : Oracle) (fp tp : List Nat) (ftag : Str) (fattr : Tree) (ftext : Option Str)
    (fcs : List XTree) (ttag : Str) (tattr : Tree) (ttext : Option Str) (tcs : List XTree) :
    xmlEdits o orc fp tp (.mk ftag fattr ftext fcs) (.mk ttag tattr ttext tcs) =
      if XTree.eq (.mk ftag fattr ftext fcs) (.mk ttag tattr ttext tcs) then xMatch 0
      else elemScript (strEdits ftag ttag) (edits o orc (fp ++ [1]) (tp ++ [1]) fattr tattr) (textEdit ftext ttext)
        (kidsIx ftext) (kidsIx ttext)
        (kidsScript o fcs tcs (kidsTbl o orc fp tp (kidsIx ftext) (kidsIx ttext) fcs tcs)) := by
  rw [xmlEdits]
  have := attach_zipIdx_map fcs (fun fc c => tcs.zipIdx.map fun q =>
    xmlEdits o orc (fp ++ [kidsIx ftext, c]) (tp ++ [kidsIx ttext, q.2]) fc q.1) 0
  simp only [kidsTbl, this]

theorem kidsTbl_getD (o : Opts) (orc : Oracle) (fp tp : List Nat) (kf kt : Nat) (fcs tcs : List XTree) (i j : Nat)
    (d : XScript) (hi : i < fcs.length) (hj : j < tcs.length) :
    ((kidsTbl o orc fp tp kf kt fcs tcs).getD i []).getD j d =
      xmlEdits o orc (fp ++ [kf, i]) (tp ++ [kt, j]) fcs[i] tcs[j] := by
  simp [kidsTbl, List.getD_eq_getElem?_getD, hi, hj]

theorem XTree.sizeOf_lt_of_mem {tag : Str} {a : Tree} {x : Option Str} {cs : List XTree} {c : XTree} (h : c ∈ cs) :
    sizeOf c < sizeOf (XTree.mk tag a x cs) := by
  have := List.sizeOf_lt_of_mem h
  simp; omega

theorem XTree.ind {P : XTree → Prop}
    (mk : ∀ tag a x cs, (∀ c ∈ cs, P c) → P (.mk tag a x cs)) : ∀ t, P t := by
  intro t
  induction h : sizeOf t using Nat.strongRecOn generalizing t with
  | _ n ih =>
    subst h
    cases t with
    | mk tag a x cs =>
      apply mk; intro c hc
      exact ih _ (XTree.sizeOf_lt_of_mem hc) c rfl

/-- a property of every entry of a table (in range: by `h`; out of range: the default) -/
theorem xtbl_all {P : XScript → Prop} (tbl : List (List XScript)) (d : XScript) (hd : P d)
    (h : ∀ row ∈ tbl, ∀ s ∈ row, P s) (i j : Nat) : P ((tbl.getD i []).getD j d) := by
  simp only [List.getD_eq_getElem?_getD]
  cases hi : tbl[i]? with
  | none => simpa using hd
  | some row =>
    have hrow := List.mem_of_getElem? hi
    cases hj : row[j]? with
    | none => simpa [hj] using hd
    | some s => simpa [hj] using h row hrow s (List.mem_of_getElem? hj)

theorem kidsTbl_all {P : XScript → Prop} (o : Opts) (orc : Oracle) (fp tp : List Nat) (kf kt : Nat)
    (fcs tcs : List XTree) (h : ∀ fc ∈ fcs, ∀ tc fp tp, P (xmlEdits o orc fp tp fc tc)) :
    ∀ row ∈ kidsTbl o orc fp tp kf kt fcs tcs, ∀ s ∈ row, P s := by
  intro row hrow s hs
  simp only [kidsTbl, List.mem_map] at hrow
  obtain ⟨p, hp, rfl⟩ := hrow
  simp only [List.mem_map] at hs
  obtain ⟨q, _, rfl⟩ := hs
  exact h p.1 (by have := List.mem_zipIdx hp; simp_all) _ _ _

/-! ### unfolding `XTree.eq` -/

theorem XTree.eq_mk (stag : Str) (sattr : Tree) (stext : Option Str) (scs : List XTree)
    (otag : Str) (oattr : Tree) (otext : Option Str) (ocs : List XTree) :
    XTree.eq (.mk stag sattr stext scs) (.mk otag oattr otext ocs) =
      (otag == stag && oattr.eq sattr && eqText otext == eqText stext && xeqL ocs scs) := by
  rw [XTree.eq]

@[simp] theorem xeqL_nil_nil : xeqL [] [] = true := by rw [xeqL]
@[simp] theorem xeqL_cons_cons (a b : XTree) (as bs : List XTree) :
    xeqL (a :: as) (b :: bs) = (a.eq b && xeqL as bs) := by rw [xeqL]
@[simp] theorem xeqL_nil_cons (b : XTree) (bs : List XTree) : xeqL [] (b :: bs) = false := by rw [xeqL] <;> simp
@[simp] theorem xeqL_cons_nil (a : XTree) (as : List XTree) : xeqL (a :: as) [] = false := by rw [xeqL] <;> simp

theorem xeqL_iff : ∀ (as bs : List XTree), xeqL as bs = true ↔
    as.length = bs.length ∧ ∀ i, i < as.length → (as.getD i dX).eq (bs.getD i dX) = true := by
  intro as
  induction as with
  | nil => intro bs; cases bs <;> simp
  | cons a as ih =>
    intro bs
    cases bs with
    | nil => simp
    | cons b bs =>
      simp only [xeqL_cons_cons, Bool.and_eq_true, ih bs, List.length_cons, Nat.add_right_cancel_iff]
      constructor
      · rintro ⟨h1, h2, h3⟩
        refine ⟨h2, fun i hi => ?_⟩
        cases i with
        | zero => simpa using h1
        | succ i => simpa using h3 i (by omega)
      · rintro ⟨h1, h2⟩
        refine ⟨by simpa using h2 0 (by omega), h1, fun i hi => ?_⟩
        simpa using h2 (i + 1) (by omega)

end GtModel.Xml

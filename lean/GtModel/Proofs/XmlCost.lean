/-
  C03 for XML: cost bookkeeping of the script produced by `xmlEdits`.
  `XScript.CostOK`: every compound node reports exactly the sum of its sub-edits, at every level; the embedded L2
  scripts (tag / attribute / text edits) satisfy `Script.CostOK`.
  `xflatSum`: the sum over the flat edit list of `TreeNode.get_all_edit_contexts`.
-/
import GtModel.Proofs.XmlBasic
import GtModel.Proofs.EditsCost
namespace GtModel.Xml
open List GtModel
open GtModel.EditMatrix

/-- kinds that carry sub-edits: XMLElementEdit, FixedLengthSequenceEdit, EditDistance -/
def XKind.hasSubs : XKind → Bool
  | .elem | .fixed | .ed => true
  | _ => false

mutual
/-- a node with sub-edits reports the sum of their costs (recursively); Match / Remove / Insert have none;
    an embedded L2 script is `Script.CostOK` -/
def XScript.CostOK : XScript → Prop
  | .emb s => s.CostOK
  | .mk k _ _ c subs => (if k.hasSubs then c = xsum subs else subs = []) ∧ XCostOKL subs
def XCostOKL : List XScript → Prop
  | [] => True
  | s :: rest => s.CostOK ∧ XCostOKL rest
end

theorem xcostOKL_iff (l : List XScript) : XCostOKL l ↔ ∀ s ∈ l, s.CostOK := by
  induction l with
  | nil => simp [XCostOKL]
  | cons s l ih => simp [XCostOKL, ih]

theorem XScript.costOK_mk (k : XKind) (f t : Ix) (c : Nat) (subs : List XScript) :
    (XScript.mk k f t c subs).CostOK ↔ (if k.hasSubs then c = xsum subs else subs = []) ∧ ∀ x ∈ subs, x.CostOK := by
  simp only [XScript.CostOK, xcostOKL_iff]

@[simp] theorem XScript.costOK_emb (s : Script) : (XScript.emb s).CostOK ↔ s.CostOK := by simp [XScript.CostOK]
@[simp] theorem costOK_xMatch (c : Nat) : (xMatch c).CostOK := by simp [xMatch, XScript.CostOK, XKind.hasSubs, XCostOKL]
@[simp] theorem costOK_xRemove (i s p : Nat) : (xRemove i s p).CostOK := by simp [xRemove, XScript.CostOK, XKind.hasSubs, XCostOKL]
@[simp] theorem costOK_xInsert (i s p : Nat) : (xInsert i s p).CostOK := by simp [xInsert, XScript.CostOK, XKind.hasSubs, XCostOKL]
@[simp] theorem costOK_xrelabel (s : XScript) (f t : Ix) : (s.relabel f t).CostOK ↔ s.CostOK := by
  cases s <;> simp [XScript.relabel, XScript.CostOK]

theorem costOK_xCompound (k : XKind) (subs : List XScript) (hk : k.hasSubs = true) (h : ∀ s ∈ subs, s.CostOK) :
    (xCompound k subs).CostOK := by
  simp [xCompound, XScript.CostOK, hk, xcostOKL_iff]; exact h

/-! ### replaying a matrix script -/

theorem xsum_located (rem ins : List Nat) (cells : List (List Nat)) (g : Move × Nat × Nat → XScript)
    (h : ∀ x ∈ located (solve rem ins cells).2, (g x).cost = moveCost rem ins cells x.2.1 x.2.2 x.1) :
    xsum ((located (solve rem ins cells).2).map g) = (solve rem ins cells).1 := by
  have := sumCosts_located rem ins cells (fun x => mkMatch (g x).cost) (by simpa using h)
  rw [← this]
  simp [xsum, sumCosts, Function.comp_def]

theorem xsum_map_zero {α : Type} (l : List α) (g : α → XScript) (h : ∀ a ∈ l, (g a).cost = 0) :
    xsum (l.map g) = 0 := by
  induction l with
  | nil => rfl
  | cons a l ih => simp [h a, ih (fun a ha => h a (by simp [ha]))]

theorem kidsEd_sum (fcs tcs : List XTree) (pen : Nat) (tbl : List (List XScript)) :
    (kidsEd fcs tcs pen tbl).cost = xsum (kidsEd fcs tcs pen tbl).subs := by
  simp only [kidsEd, XScript.cost_mk, XScript.subs_mk, xsum_append]
  rw [xsum_map_zero (List.range _) _ (by intros; rfl), xsum_map_zero (List.range _) _ (by intros; rfl),
    xsum_located]
  · simp
  · intro x hx
    obtain ⟨m, r, c⟩ := x
    have hr := solve_located_inRange _ _ _ _ hx
    simp only [List.length_map] at hr
    cases m
    · simp only [moveCost]
      rw [cellAt_tabulate _ _ _ _ _ (hr.1 (by simp)) (hr.2 (by simp))]; simp
    · have := hr.1 (by simp)
      simp [moveCost, List.getD_eq_getElem?_getD, this]
    · have := hr.2 (by simp)
      simp [moveCost, List.getD_eq_getElem?_getD, this]

theorem costOK_kidsEd (fcs tcs : List XTree) (pen : Nat) (tbl : List (List XScript))
    (hT : ∀ i j, ((tbl.getD i []).getD j (xMatch 0)).CostOK) : (kidsEd fcs tcs pen tbl).CostOK := by
  have hs := kidsEd_sum fcs tcs pen tbl
  simp only [kidsEd, XScript.cost_mk, XScript.subs_mk] at hs
  simp only [kidsEd]
  rw [XScript.costOK_mk]
  refine ⟨by simpa [XKind.hasSubs] using hs, ?_⟩
  intro s hs
  simp only [List.mem_append, List.mem_map] at hs
  rcases hs with (⟨k, _, rfl⟩ | ⟨⟨m, r, c⟩, _, rfl⟩) | ⟨k, _, rfl⟩
  · simp
  · cases m <;> simp [-List.getD_eq_getElem?_getD, hT]
  · simp

theorem costOK_kidsFixed (fcs tcs : List XTree) (tbl : List (List XScript))
    (hT : ∀ i j, ((tbl.getD i []).getD j (xMatch 0)).CostOK) : (kidsFixed fcs tcs tbl).CostOK := by
  unfold kidsFixed
  apply costOK_xCompound _ _ rfl
  intro s hs
  simp only [List.mem_append, List.mem_map] at hs
  rcases hs with (⟨k, _, rfl⟩ | ⟨k, _, rfl⟩) | ⟨k, _, rfl⟩ <;> simp [-List.getD_eq_getElem?_getD, hT]

theorem costOK_kidsScript (o : Opts) (fcs tcs : List XTree) (tbl : List (List XScript))
    (hT : ∀ i j, ((tbl.getD i []).getD j (xMatch 0)).CostOK) : (kidsScript o fcs tcs tbl).CostOK := by
  unfold kidsScript
  split
  · simp
  · split
    · exact costOK_kidsFixed _ _ _ hT
    · exact costOK_kidsEd _ _ _ _ hT

theorem costOK_textEdit (ft tt : Option Str) : ∀ e, textEdit ft tt = some e → e.CostOK := by
  intro e he
  cases ft <;> cases tt <;> simp only [textEdit, Option.some.injEq, reduceCtorEq] at he <;> subst he <;>
    simp [costOK_strEdits]

theorem costOK_elemScript (tagE attrE : Script) (textE : Option Script) (kf kt : Nat) (kidsE : XScript)
    (h1 : tagE.CostOK) (h2 : attrE.CostOK) (h3 : ∀ e, textE = some e → e.CostOK) (h4 : kidsE.CostOK) :
    (elemScript tagE attrE textE kf kt kidsE).CostOK := by
  unfold elemScript
  apply costOK_xCompound _ _ rfl
  intro s hs
  simp only [List.mem_append, List.mem_cons, List.mem_nil_iff, or_false] at hs
  rcases hs with ((rfl | rfl) | hs) | rfl
  · simpa using h1
  · simpa using h2
  · cases textE with
    | none => simp at hs
    | some e => simp only [List.mem_cons, List.mem_nil_iff, or_false] at hs; subst hs; simpa using h3 e rfl
  · simpa using h4

/-- C03(a) on the XML model: every node of the script reports the sum of its parts -/
theorem costOK_xmlEdits (o : Opts) (orc : Oracle) (f : XTree) : ∀ (fp tp : List Nat) (t : XTree),
    (xmlEdits o orc fp tp f t).CostOK := by
  induction f using XTree.ind with
  | mk ftag fattr ftext fcs ih =>
    intro fp tp t
    obtain ⟨ttag, tattr, ttext, tcs⟩ := t
    rw [xmlEdits_eq]
    split
    · simp
    · apply costOK_elemScript
      · exact costOK_strEdits _ _
      · exact costOK_edits _ _ _ _ _ _
      · exact costOK_textEdit _ _
      · apply costOK_kidsScript
        exact xtbl_all _ _ (costOK_xMatch 0)
          (kidsTbl_all o orc fp tp _ _ fcs tcs (fun fc hfc tc fp tp => ih fc hfc fp tp tc))

/-! ### the flat edit list (`TreeNode.get_all_edit_contexts`) -/

/-- `isinstance(edit, CompoundEdit)`: XMLElementEdit, FixedLengthSequenceEdit and EditDistance all are -/
def XKind.isCompoundEdit : XKind → Bool := XKind.hasSubs

mutual
/-- the edits `get_all_edit_contexts` yields: compound edits are exploded (depth first, in order), every other
    edit is yielded iff its cost is positive; the embedded L2 scripts are flattened by L2's `flatEdits` -/
def xflatCosts : XScript → List Nat
  | .emb s => (flatEdits s).map Script.cost
  | .mk k _ _ c subs => if k.isCompoundEdit then xflatCostsL subs else if c > 0 then [c] else []
def xflatCostsL : List XScript → List Nat
  | [] => []
  | s :: rest => xflatCosts s ++ xflatCostsL rest
end

/-- what `get_all_edits` sums to -/
def xflatSum (s : XScript) : Nat := (xflatCosts s).sum

/-- `EditedTreeNode.edited_cost()` of the annotated root: the root carries exactly one edit, the root edit -/
def xeditedCost (s : XScript) : Nat := s.cost

mutual
theorem xflatSum_eq_cost : ∀ (s : XScript), s.CostOK → (xflatCosts s).sum = s.cost
  | .emb s, h => by
    simp only [XScript.costOK_emb] at h
    simpa [xflatCosts, sumCosts] using flatSum_eq_cost s h
  | .mk k f t c subs, h => by
    simp only [XScript.CostOK] at h
    simp only [xflatCosts, XKind.isCompoundEdit]
    by_cases hk : k.hasSubs = true
    · simp only [hk, if_true] at h ⊢
      rw [xflatSumL_eq_cost subs h.2, XScript.cost_mk, h.1]
    · simp only [hk, Bool.false_eq_true, if_false]
      by_cases hc : c > 0
      · simp [hc]
      · simp [hc]; omega
theorem xflatSumL_eq_cost : ∀ (l : List XScript), XCostOKL l → (xflatCostsL l).sum = xsum l
  | [], _ => rfl
  | s :: rest, h => by
    simp only [XCostOKL] at h
    simp only [xflatCostsL, List.sum_append, xsum_cons, xflatSum_eq_cost s h.1, xflatSumL_eq_cost rest h.2]
end

end GtModel.Xml

/-
  C01 for XML, per node: which children of the two nodes the sub-edits of one compound XML edit account for
  (`XMLElementEdit` over (tag, attrib, [text], children); `FixedLengthSequenceEdit` / `EditDistance` over the
  child tuples).  Mirrors Proofs/EditsIdx.lean for `XScript`.
-/
import GtModel.Proofs.XmlCost
import GtModel.Proofs.EditsIdx
namespace GtModel.Xml
open List GtModel
open GtModel.EditMatrix

attribute [-simp] List.getD_eq_getElem?_getD

/-- from-side index of every sub-edit that is not an insertion, in script order -/
def xfromIdx (subs : List XScript) : List Ix := (subs.filter fun s => !s.isInsert).map XScript.fi

/-- to-side index of one sub-edit: an `Insert` holds the inserted node's index in `fi` -/
def xtoIxOf (s : XScript) : Ix := if s.isInsert then s.fi else s.ti

/-- to-side index of every sub-edit that is not a removal, in script order -/
def xtoIdx (subs : List XScript) : List Ix := (subs.filter fun s => !s.isRemove).map xtoIxOf

/-- an edit between two nodes (never a bare Insert / Remove): what `xmlEdits` and `kidsScript` return -/
def XScript.isTop (s : XScript) : Bool := !s.isInsert && !s.isRemove

theorem xMatch_top (c : Nat) : (xMatch c).isTop = true := rfl

theorem kidsScript_top (o : Opts) (fcs tcs : List XTree) (tbl : List (List XScript)) : (kidsScript o fcs tcs tbl).isTop = true := by
  unfold kidsScript
  split
  · rfl
  · split <;> rfl

theorem xmlEdits_top (o : Opts) (orc : Oracle) (fp tp : List Nat) (f t : XTree) :
    (xmlEdits o orc fp tp f t).isTop = true := by
  obtain ⟨ftag, fattr, ftext, fcs⟩ := f
  obtain ⟨ttag, tattr, ttext, tcs⟩ := t
  rw [xmlEdits_eq]
  split <;> rfl

/-- every table entry (or the default) is an edit between two nodes -/
def XTblTop (tbl : List (List XScript)) : Prop := ∀ i j, ((tbl.getD i []).getD j (xMatch 0)).isTop = true

theorem kidsTbl_top (o : Opts) (orc : Oracle) (fp tp : List Nat) (kf kt : Nat) (fcs tcs : List XTree) :
    XTblTop (kidsTbl o orc fp tp kf kt fcs tcs) :=
  xtbl_all (P := fun s => s.isTop = true) _ _ rfl
    (kidsTbl_all (P := fun s => s.isTop = true) o orc fp tp kf kt fcs tcs (fun _ _ _ _ _ => xmlEdits_top ..))

theorem XScript.isTop_iff {s : XScript} : s.isTop = true ↔ s.isInsert = false ∧ s.isRemove = false := by
  simp [XScript.isTop]

/-! ### generic list facts -/

theorem xfromIdx_append (a b : List XScript) : xfromIdx (a ++ b) = xfromIdx a ++ xfromIdx b := by simp [xfromIdx]
theorem xtoIdx_append (a b : List XScript) : xtoIdx (a ++ b) = xtoIdx a ++ xtoIdx b := by simp [xtoIdx]

theorem xfromIdx_map {α : Type} (l : List α) (g : α → XScript) (ix : α → Ix)
    (h : ∀ a ∈ l, (g a).isInsert = false ∧ (g a).fi = ix a) : xfromIdx (l.map g) = l.map ix := by
  induction l with
  | nil => rfl
  | cons a l ih =>
    have ha := h a (by simp)
    simp only [xfromIdx, List.map_cons, List.filter_cons, ha.1, Bool.not_false, if_true, ha.2] at ih ⊢
    rw [ih (fun a ha => h a (by simp [ha]))]

theorem xfromIdx_map_insert {α : Type} (l : List α) (g : α → XScript)
    (h : ∀ a ∈ l, (g a).isInsert = true) : xfromIdx (l.map g) = [] := by
  induction l with
  | nil => rfl
  | cons a l ih =>
    have ha := h a (by simp)
    simp only [xfromIdx, List.map_cons, List.filter_cons, ha, Bool.not_true, Bool.false_eq_true, if_false] at ih ⊢
    exact ih (fun a ha => h a (by simp [ha]))

theorem xtoIdx_map {α : Type} (l : List α) (g : α → XScript) (ix : α → Ix)
    (h : ∀ a ∈ l, (g a).isRemove = false ∧ xtoIxOf (g a) = ix a) : xtoIdx (l.map g) = l.map ix := by
  induction l with
  | nil => rfl
  | cons a l ih =>
    have ha := h a (by simp)
    simp only [xtoIdx, List.map_cons, List.filter_cons, ha.1, Bool.not_false, if_true, ha.2] at ih ⊢
    rw [ih (fun a ha => h a (by simp [ha]))]

theorem xtoIdx_map_remove {α : Type} (l : List α) (g : α → XScript)
    (h : ∀ a ∈ l, (g a).isRemove = true) : xtoIdx (l.map g) = [] := by
  induction l with
  | nil => rfl
  | cons a l ih =>
    have ha := h a (by simp)
    simp only [xtoIdx, List.map_cons, List.filter_cons, ha, Bool.not_true, Bool.false_eq_true, if_false] at ih ⊢
    exact ih (fun a ha => h a (by simp [ha]))

theorem xtoIxOf_relabel_at (s : XScript) (f : Ix) (j : Nat) (h : s.isInsert = false) :
    xtoIxOf (s.relabel f (.at j)) = .at j := by
  simp [xtoIxOf, h]

theorem xfromIdx_map_filter {α : Type} (l : List α) (g : α → XScript) (keep : α → Bool) (ix : α → Ix)
    (h : ∀ a ∈ l, (!(g a).isInsert) = keep a ∧ (keep a = true → (g a).fi = ix a)) :
    xfromIdx (l.map g) = (l.filter keep).map ix := by
  induction l with
  | nil => rfl
  | cons a l ih =>
    have ha := h a (by simp)
    have ih := ih (fun a ha => h a (by simp [ha]))
    simp only [xfromIdx, List.map_cons, List.filter_cons, ha.1] at ih ⊢
    cases hk : keep a
    · simpa using ih
    · simp [ha.2 hk, ih]

theorem xtoIdx_map_filter {α : Type} (l : List α) (g : α → XScript) (keep : α → Bool) (ix : α → Ix)
    (h : ∀ a ∈ l, (!(g a).isRemove) = keep a ∧ (keep a = true → xtoIxOf (g a) = ix a)) :
    xtoIdx (l.map g) = (l.filter keep).map ix := by
  induction l with
  | nil => rfl
  | cons a l ih =>
    have ha := h a (by simp)
    have ih := ih (fun a ha => h a (by simp [ha]))
    simp only [xtoIdx, List.map_cons, List.filter_cons, ha.1] at ih ⊢
    cases hk : keep a
    · simpa using ih
    · simp [ha.2 hk, ih]

/-! ### FixedLengthSequenceEdit over child tuples -/

theorem kidsFixed_idx (fcs tcs : List XTree) (tbl : List (List XScript)) (hT : XTblTop tbl) :
    xfromIdx (kidsFixed fcs tcs tbl).subs = ixRange fcs.length ∧
    xtoIdx (kidsFixed fcs tcs tbl).subs = ixRange tcs.length := by
  simp only [kidsFixed, xCompound_subs, xfromIdx_append, xtoIdx_append]
  have hp : ∀ i, (((tbl.getD i []).getD i (xMatch 0)).relabel (.at i) (.at i)).isInsert = false ∧
      (((tbl.getD i []).getD i (xMatch 0)).relabel (.at i) (.at i)).isRemove = false := by
    intro i; have := XScript.isTop_iff.1 (hT i i); simpa using this
  constructor
  · rw [xfromIdx_map _ _ Ix.at (fun i _ => ⟨(hp i).1, by simp⟩),
      xfromIdx_map _ _ (fun k => Ix.at (fcs.length.min tcs.length + k)) (fun i _ => ⟨rfl, rfl⟩),
      xfromIdx_map_insert _ _ (fun i _ => rfl)]
    have : fcs.length = fcs.length.min tcs.length + (fcs.length - fcs.length.min tcs.length) := by
      have : fcs.length.min tcs.length ≤ fcs.length := Nat.min_le_left _ _; omega
    conv => rhs; rw [this, ixRange_add]
    simp [ixRange]
  · rw [xtoIdx_map _ _ Ix.at (fun i _ => ⟨(hp i).2, xtoIxOf_relabel_at _ _ _ (XScript.isTop_iff.1 (hT i i)).1⟩),
      xtoIdx_map_remove _ _ (fun i _ => rfl),
      xtoIdx_map _ _ (fun k => Ix.at (fcs.length.min tcs.length + k)) (fun i _ => ⟨rfl, rfl⟩)]
    have : tcs.length = fcs.length.min tcs.length + (tcs.length - fcs.length.min tcs.length) := by
      have : fcs.length.min tcs.length ≤ tcs.length := Nat.min_le_right _ _; omega
    conv => rhs; rw [this, ixRange_add]
    simp [ixRange]

/-! ### EditDistance over child tuples: prefix, replayed matrix path, suffix -/

theorem kidsEd_idx (fcs tcs : List XTree) (pen : Nat) (tbl : List (List XScript)) (hT : XTblTop tbl) :
    xfromIdx (kidsEd fcs tcs pen tbl).subs = ixRange fcs.length ∧
    xtoIdx (kidsEd fcs tcs pen tbl).subs = ixRange tcs.length := by
  have hl := trimLens_le fcs tcs
  have hmf := middle_length fcs (trimLens fcs tcs)
  have hmt := middle_length tcs (trimLens fcs tcs)
  simp only [kidsEd, XScript.subs_mk, xfromIdx_append, xtoIdx_append]
  constructor
  · rw [xfromIdx_map _ _ Ix.at (fun i _ => ⟨rfl, rfl⟩),
      xfromIdx_map _ _ (fun k => Ix.at (fcs.length - (trimLens fcs tcs).2 + k)) (fun i _ => ⟨rfl, rfl⟩),
      xfromIdx_map_filter _ _ (fun x => x.1 != .up) (fun x => Ix.at (x.2.2 + (trimLens fcs tcs).1))]
    · rw [solve_cols_at]
      simp only [List.length_map]
      exact ixRange_three _ _ _ _ (by omega)
    · rintro ⟨m, rr, c⟩ _
      have := XScript.isTop_iff.1 (hT (c + (trimLens fcs tcs).1) (rr + (trimLens fcs tcs).1))
      cases m <;> simp [this.1, xInsert, xRemove] <;> decide
  · rw [xtoIdx_map _ _ Ix.at (fun i _ => ⟨rfl, rfl⟩),
      xtoIdx_map _ _ (fun k => Ix.at (tcs.length - (trimLens fcs tcs).2 + k)) (fun i _ => ⟨rfl, rfl⟩),
      xtoIdx_map_filter _ _ (fun x => x.1 != .left) (fun x => Ix.at (x.2.1 + (trimLens fcs tcs).1))]
    · rw [solve_rows_at]
      simp only [List.length_map]
      exact ixRange_three _ _ _ _ (by omega)
    · rintro ⟨m, rr, c⟩ _
      have := XScript.isTop_iff.1 (hT (c + (trimLens fcs tcs).1) (rr + (trimLens fcs tcs).1))
      cases m <;> simp [this.1, this.2, xtoIxOf, xInsert, xRemove] <;> decide

end GtModel.Xml

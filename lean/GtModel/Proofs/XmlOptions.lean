/-
  C10 for XML / HTML: what the two list options do to the edit over the children of an element, at every nesting
  level of elements.  `XWalk P a b s`: `P` holds of the root of `s` and the node pair (a, b) it relates, and of every
  XML sub-edit with sub-edits (`XMLElementEdit`, the two list edits over `XMLElementChildren`) and the children its
  indices name — the XML analogue of `Walk` (Proofs/EditsWalk.lean).  The embedded L2 scripts (tag, attribute mapping,
  text) are not walked: those trees are strings and a mapping of strings, they contain no list.
-/
import GtModel.Proofs.XmlAccounts
import GtModel.Proofs.EditsOptions
namespace GtModel.Xml
open List GtModel
open GtModel.EditMatrix

attribute [-simp] List.getD_eq_getElem?_getD

/-! ### shapes -/

def XScript.role (s : XScript) : Role :=
  if s.isInsert then .ins else if s.isRemove then .rem else .pair

/-- what C10 looks at in a sub-edit: pair / remove / insert and the two indices -/
def XScript.shape (s : XScript) : Role × Ix × Ix := (s.role, s.fi, s.ti)

/-- XML sub-edits that carry XML sub-edits themselves -/
def XScript.xlinked : XScript → Bool
  | .emb _ => false
  | .mk k _ _ _ _ => k.hasSubs

/-- `P` at the root of a script (embedded L2 scripts: nothing to say) -/
def XScript.holds (P : XNd → XNd → XKind → List XScript → Prop) (a b : XNd) : XScript → Prop
  | .emb _ => True
  | .mk k _ _ _ subs => P a b k subs

mutual
def XWalk (P : XNd → XNd → XKind → List XScript → Prop) : XNd → XNd → XScript → Prop
  | _, _, .emb _ => True
  | a, b, .mk k _ _ _ subs => P a b k subs ∧ XWalkL P a b subs
def XWalkL (P : XNd → XNd → XKind → List XScript → Prop) : XNd → XNd → List XScript → Prop
  | _, _, [] => True
  | a, b, s :: rest =>
      (s.xlinked = true → ∃ i j x y, s.fi = .at i ∧ xtoIxOf s = .at j ∧
          a.children[i]? = some x ∧ b.children[j]? = some y ∧ XWalk P x y s)
        ∧ XWalkL P a b rest
end

variable {P : XNd → XNd → XKind → List XScript → Prop}

theorem xwalk_iff (a b : XNd) (s : XScript) : XWalk P a b s ↔ s.holds P a b ∧ XWalkL P a b s.subs := by
  cases s <;> simp [XWalk, XScript.holds, XWalkL]

theorem xwalkL_iff (a b : XNd) (l : List XScript) : XWalkL P a b l ↔ ∀ s ∈ l, s.xlinked = true →
    ∃ i j x y, s.fi = .at i ∧ xtoIxOf s = .at j ∧
      a.children[i]? = some x ∧ b.children[j]? = some y ∧ XWalk P x y s := by
  induction l with
  | nil => simp [XWalkL]
  | cons s l ih => simp [XWalkL, ih]

theorem xwalk_relabel (a b : XNd) (s : XScript) (f t : Ix) : XWalk P a b (s.relabel f t) ↔ XWalk P a b s := by
  cases s <;> simp [XWalk]

@[simp] theorem XScript.relabel_xlinked (s : XScript) (f t : Ix) : (s.relabel f t).xlinked = s.xlinked := by
  cases s <;> rfl

theorem xwalk_xMatch (a b : XNd) (c : Nat) (h : P a b .match_ []) : XWalk P a b (xMatch c) := by
  simp [xMatch, XWalk, XWalkL, h]

/-! ### the walk over `xmlEdits` -/

section
variable (o : Opts) (orc : Oracle)
variable (hE : ∀ fp tp f t, (xmlEdits o orc fp tp f t).holds P (.elem f) (.elem t))
variable (hK : ∀ fp tp kf kt fcs tcs,
    (kidsScript o fcs tcs (kidsTbl o orc fp tp kf kt fcs tcs)).holds P (.kids fcs) (.kids tcs))
include hK

theorem xwalk_kidsScript (fp tp : List Nat) (kf kt : Nat) (fcs tcs : List XTree)
    (ih : ∀ i j (hi : i < fcs.length) (hj : j < tcs.length),
      XWalk P (.elem fcs[i]) (.elem tcs[j]) (xmlEdits o orc (fp ++ [kf, i]) (tp ++ [kt, j]) fcs[i] tcs[j])) :
    XWalk P (.kids fcs) (.kids tcs) (kidsScript o fcs tcs (kidsTbl o orc fp tp kf kt fcs tcs)) := by
  rw [xwalk_iff]
  refine ⟨hK fp tp kf kt fcs tcs, ?_⟩
  have hT := kidsTbl_top o orc fp tp kf kt fcs tcs
  have hlink : ∀ i j, i < fcs.length → j < tcs.length →
      ∃ i' j' x y, ((((kidsTbl o orc fp tp kf kt fcs tcs).getD i []).getD j (xMatch 0)).relabel (.at i) (.at j)).fi = .at i' ∧
        xtoIxOf ((((kidsTbl o orc fp tp kf kt fcs tcs).getD i []).getD j (xMatch 0)).relabel (.at i) (.at j)) = .at j' ∧
        (XNd.kids fcs).children[i']? = some x ∧ (XNd.kids tcs).children[j']? = some y ∧
        XWalk P x y ((((kidsTbl o orc fp tp kf kt fcs tcs).getD i []).getD j (xMatch 0)).relabel (.at i) (.at j)) := by
    intro i j hi hj
    refine ⟨i, j, .elem fcs[i], .elem tcs[j], by simp, xtoIxOf_relabel_at _ _ _ (XScript.isTop_iff.1 (hT i j)).1,
      by simp [XNd.children, hi], by simp [XNd.children, hj], ?_⟩
    rw [xwalk_relabel, kidsTbl_getD _ _ _ _ _ _ _ _ _ _ _ hi hj]
    exact ih i j hi hj
  unfold kidsScript
  split
  · simp [XWalkL]
  · split
    · rw [xwalkL_iff]
      intro s hs hsub
      simp only [kidsFixed, xCompound_subs, List.mem_append, List.mem_map, List.mem_range] at hs
      rcases hs with (⟨k, hk, rfl⟩ | ⟨k, _, rfl⟩) | ⟨k, _, rfl⟩
      · have h1 : fcs.length.min tcs.length ≤ fcs.length := Nat.min_le_left _ _
        have h2 : fcs.length.min tcs.length ≤ tcs.length := Nat.min_le_right _ _
        exact hlink k k (by omega) (by omega)
      · simp [xRemove, XScript.xlinked, XKind.hasSubs] at hsub
      · simp [xInsert, XScript.xlinked, XKind.hasSubs] at hsub
    · rw [xwalkL_iff]
      intro s hs hsub
      simp only [kidsEd, XScript.subs_mk, List.mem_append, List.mem_map] at hs
      rcases hs with (⟨k, _, rfl⟩ | ⟨⟨m, r, c⟩, hm, rfl⟩) | ⟨k, _, rfl⟩
      · simp [xMatch, XScript.xlinked, XKind.hasSubs] at hsub
      · have hr := solve_located_inRange _ _ _ _ hm
        have hl := trimLens_le fcs tcs
        simp only [List.length_map, middle_length] at hr
        cases m
        · have h1 := hr.1 (by simp)
          have h2 := hr.2 (by simp)
          dsimp only
          exact hlink _ _ (by omega) (by omega)
        · simp [xInsert, XScript.xlinked, XKind.hasSubs] at hsub
        · simp [xRemove, XScript.xlinked, XKind.hasSubs] at hsub
      · simp [xMatch, XScript.xlinked, XKind.hasSubs] at hsub

include hE

/-- to prove `XWalk P` for `xmlEdits …` it suffices to prove `P` for element pairs and for child-tuple pairs -/
theorem xwalk_xmlEdits (f : XTree) : ∀ (fp tp : List Nat) (t : XTree),
    XWalk P (.elem f) (.elem t) (xmlEdits o orc fp tp f t) := by
  induction f using XTree.ind with
  | mk ftag fattr ftext fcs ih =>
    intro fp tp t
    obtain ⟨ttag, tattr, ttext, tcs⟩ := t
    rw [xwalk_iff]
    refine ⟨hE fp tp _ _, ?_⟩
    rw [xmlEdits_eq]
    split
    · simp [XWalkL]
    · have hkids := xwalk_kidsScript o orc hK fp tp (kidsIx ftext) (kidsIx ttext) fcs tcs
        (fun i j hi hj => ih _ (List.getElem_mem hi) _ _ _)
      have hktop := kidsScript_top o fcs tcs (kidsTbl o orc fp tp (kidsIx ftext) (kidsIx ttext) fcs tcs)
      generalize kidsScript o fcs tcs (kidsTbl o orc fp tp (kidsIx ftext) (kidsIx ttext) fcs tcs) = kidsE at hkids hktop
      simp only [elemScript, xCompound_subs]
      rw [xwalkL_iff]
      intro s hs hlinked
      simp only [List.mem_append, List.mem_cons, List.mem_nil_iff, or_false] at hs
      rcases hs with ((rfl | rfl) | hs) | rfl
      · simp [XScript.xlinked] at hlinked
      · simp [XScript.xlinked] at hlinked
      · cases h : textEdit ftext ttext with
        | none => simp [h] at hs
        | some e =>
          simp only [h, List.mem_cons, List.mem_nil_iff, or_false] at hs; subst hs
          simp [XScript.xlinked] at hlinked
      · refine ⟨kidsIx ftext, kidsIx ttext, .kids fcs, .kids tcs, by simp, ?_, ?_, ?_, ?_⟩
        · exact xtoIxOf_relabel_at _ _ _ (XScript.isTop_iff.1 hktop).1
        · cases ftext <;> simp [XNd.children, elemChildren, kidsIx]
        · cases ttext <;> simp [XNd.children, elemChildren, kidsIx]
        · rw [xwalk_relabel]; exact hkids

end

/-! ### positional child scripts -/

theorem kidsFixed_shape (fcs tcs : List XTree) (tbl : List (List XScript)) (hT : XTblTop tbl) :
    (kidsFixed fcs tcs tbl).subs.map XScript.shape = positionalShape fcs.length tcs.length := by
  simp only [kidsFixed, xCompound_subs, positionalShape, List.map_append, List.map_map]
  congr 1
  · congr 1
    apply List.map_congr_left
    intro i _
    have := XScript.isTop_iff.1 (hT i i)
    simp [XScript.shape, XScript.role, this.1, this.2]

/-- the edit over two child tuples, when it is not a plain match, is positional whenever `cond` holds of the two
    lengths -/
def XLocalPos (cond : Nat → Nat → Prop) (a b : XNd) (k : XKind) (subs : List XScript) : Prop :=
  ∀ fcs tcs, a = .kids fcs → b = .kids tcs → k ≠ .match_ → cond fcs.length tcs.length →
    k = .fixed ∧ subs.map XScript.shape = positionalShape fcs.length tcs.length

/-- the edit-class selection of `ListNode.edits` on child tuples -/
theorem kidsScript_of_cond (o : Opts) (fcs tcs : List XTree) (tbl : List (List XScript))
    (hne : xeqL fcs tcs = false)
    (hc : (!o.ale || (fcs.length == tcs.length && (!o.alesl || fcs.length == 1))) = true) :
    kidsScript o fcs tcs tbl = kidsFixed fcs tcs tbl := by
  unfold kidsScript
  rw [if_neg (by simp [hne]), if_pos hc]

theorem xlocalPos_kidsScript (o : Opts) (cond : Nat → Nat → Prop)
    (hc : ∀ n m, cond n m → (!o.ale || (n == m && (!o.alesl || n == 1))) = true)
    (fcs tcs : List XTree) (tbl : List (List XScript)) (hT : XTblTop tbl) :
    (kidsScript o fcs tcs tbl).holds (XLocalPos cond) (.kids fcs) (.kids tcs) := by
  by_cases heq : xeqL fcs tcs = true
  · simp only [kidsScript, heq, if_true, xMatch, XScript.holds]
    intro _ _ _ _ hk; exact absurd rfl hk
  · have heq : xeqL fcs tcs = false := by simpa using heq
    by_cases hcond : cond fcs.length tcs.length
    · rw [kidsScript_of_cond o fcs tcs tbl heq (hc _ _ hcond)]
      have hs := kidsFixed_shape fcs tcs tbl hT
      simp only [kidsFixed, xCompound, XScript.holds, XScript.subs_mk] at hs ⊢
      intro fcs' tcs' ha hb _ _
      simp only [XNd.kids.injEq] at ha hb
      subst ha hb
      exact ⟨rfl, hs⟩
    · unfold kidsScript
      rw [if_neg (by simp [heq])]
      split
      · simp only [kidsFixed, xCompound, XScript.holds]
        intro fcs' tcs' ha hb _ hcd
        simp only [XNd.kids.injEq] at ha hb
        subst ha hb
        exact absurd hcd hcond
      · simp only [kidsEd, XScript.holds]
        intro fcs' tcs' ha hb _ hcd
        simp only [XNd.kids.injEq] at ha hb
        subst ha hb
        exact absurd hcd hcond

theorem xlocalPos_xmlEdits (o : Opts) (orc : Oracle) (cond : Nat → Nat → Prop) (fp tp : List Nat) (f t : XTree) :
    (xmlEdits o orc fp tp f t).holds (XLocalPos cond) (.elem f) (.elem t) := by
  obtain ⟨ftag, fattr, ftext, fcs⟩ := f
  obtain ⟨ttag, tattr, ttext, tcs⟩ := t
  rw [xmlEdits_eq]
  split
  · simp only [xMatch, XScript.holds]; intro _ _ ha; cases ha
  · simp only [elemScript, xCompound, XScript.holds]; intro _ _ ha; cases ha

/-- the positional property at every nesting level of elements -/
theorem xwalk_pos (o : Opts) (cond : Nat → Nat → Prop)
    (hc : ∀ n m, cond n m → (!o.ale || (n == m && (!o.alesl || n == 1))) = true)
    (orc : Oracle) (fp tp : List Nat) (f t : XTree) :
    XWalk (XLocalPos cond) (.elem f) (.elem t) (xmlEdits o orc fp tp f t) :=
  xwalk_xmlEdits o orc (fun fp tp f t => xlocalPos_xmlEdits o orc cond fp tp f t)
    (fun fp tp kf kt fcs tcs => xlocalPos_kidsScript o cond hc fcs tcs _ (kidsTbl_top o orc fp tp kf kt fcs tcs))
    f fp tp t

end GtModel.Xml

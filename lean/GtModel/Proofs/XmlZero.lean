/-
  C02 for XML: the fully refined script of `XMLElement.edits` has cost 0 exactly when the two elements compare
  equal (`XTree.eq` = `XMLElement.__eq__`), for elements whose attribute mappings have distinct names.
  Built on the C02 proofs of L2 (`cost_zero_imp_eq`, `eq_imp_cost_zero`, `strEdits_cost_zero_iff`, `solve_zero`).

  NOTE (import discipline): this file lives on the `Zero*` proof chain; the `Edits*` chain (EditsCost and later)
  declares some lemma names a second time, so the two chains cannot be imported together.  The symmetry of node
  equality under distinct keys is therefore re-proved here for `Tree.WF` (`treeEq_symm`).
-/
import GtModel.Proofs.XmlBasic
import GtModel.Proofs.ZeroMain
import GtModel.Proofs.ZeroBuild
namespace GtModel.Xml
open List GtModel
open GtModel.EditMatrix (sharedPrefixLen trimLens middle solve cellAt solve_zero)

/-! ### node equality is symmetric on well-formed trees -/

theorem kvRel_imp (X Y : List (Str × Tree)) (hx : (X.map Prod.fst).Nodup) (hy : (Y.map Prod.fst).Nodup)
    (ih : ∀ p ∈ X, ∀ q ∈ Y, p.2.eq q.2 = true → q.2.eq p.2 = true) (h : kvRel X Y) : kvRel Y X := by
  obtain ⟨hl, hs⟩ := h
  refine ⟨hl.symm, ?_⟩
  have hsub : X.map Prod.fst ⊆ Y.map Prod.fst := by
    intro k hk
    simp only [List.mem_map] at hk ⊢
    obtain ⟨p, hp, rfl⟩ := hk
    obtain ⟨q, hq, e, _⟩ := hs p hp
    exact ⟨q, hq, e.symm⟩
  have hsup : Y.map Prod.fst ⊆ X.map Prod.fst := subset_of_nodup_of_length_le hx hsub (by simp [hl])
  intro q hq
  have : q.1 ∈ X.map Prod.fst := hsup (List.mem_map_of_mem hq)
  simp only [List.mem_map] at this
  obtain ⟨p, hp, e⟩ := this
  obtain ⟨q', hq', e', he⟩ := hs p hp
  have : q' = q := eq_of_mem_of_key_eq hy hq' hq (e'.symm.trans e)
  subst this
  exact ⟨p, hp, e.symm, ih p hp _ hq' he⟩

theorem scalarEq_symm (a b : Scalar) : a.eq b = b.eq a := by
  cases a <;> cases b <;> simp only [Scalar.eq] <;>
    first | rfl | (rw [Bool.eq_iff_iff]; simp only [beq_iff_eq]; exact eq_comm)

theorem wf_dict (kvs : List (Str × Tree)) :
    (Tree.dict kvs).WF = true ↔ (kvs.map Prod.fst).Nodup ∧ ∀ p ∈ kvs, p.2.WF = true := by
  simp [Tree.WF, wfKV_iff]
theorem wf_fdict (kvs : List (Str × Tree)) :
    (Tree.fdict kvs).WF = true ↔ (kvs.map Prod.fst).Nodup ∧ ∀ p ∈ kvs, p.2.WF = true := by
  simp [Tree.WF, wfKV_iff]
theorem wf_list (cs : List Tree) : (Tree.list cs).WF = true ↔ ∀ c ∈ cs, c.WF = true := by
  simp [Tree.WF, wfL_iff]

theorem treeEq_imp (f : Tree) : ∀ t : Tree, f.WF = true → t.WF = true → f.eq t = true → t.eq f = true := by
  induction f using Tree.ind with
  | leaf a =>
    intro t _ _ h
    cases t <;> simp [Tree.eq] at h ⊢
    rw [scalarEq_symm]; exact h
  | list as ih =>
    intro t hf ht h
    cases t with
    | list bs =>
      rw [wf_list] at hf ht
      simp only [Tree.eq] at h ⊢
      induction as generalizing bs with
      | nil => cases bs <;> simp_all [eqL]
      | cons a as ih2 =>
        cases bs with
        | nil => simp [eqL] at h
        | cons b bs =>
          simp only [eqL, Bool.and_eq_true] at h ⊢
          exact ⟨ih a (by simp) b (hf a (by simp)) (ht b (by simp)) h.1,
            ih2 (fun c hc => ih c (by simp [hc])) (fun c hc => hf c (by simp [hc])) bs (fun c hc => ht c (by simp [hc])) h.2⟩
    | _ => simp [Tree.eq] at h
  | dict as ih =>
    intro t hf ht h
    cases t with
    | dict bs =>
      rw [wf_dict] at hf ht
      rw [dict_eq_iff] at h ⊢
      exact kvRel_imp as bs hf.1 ht.1 (fun p hp q hq he => ih p hp q.2 (hf.2 p hp) (ht.2 q hq) he) h
    | _ => simp [Tree.eq] at h
  | fdict as ih =>
    intro t hf ht h
    cases t with
    | fdict bs =>
      rw [wf_fdict] at hf ht
      rw [fdict_eq_iff] at h ⊢
      exact kvRel_imp as bs hf.1 ht.1 (fun p hp q hq he => ih p hp q.2 (hf.2 p hp) (ht.2 q hq) he) h
    | _ => simp [Tree.eq] at h

/-- `a == b ↔ b == a` on trees with distinct keys -/
theorem treeEq_symm (f t : Tree) (hf : f.WF = true) (ht : t.WF = true) : f.eq t = t.eq f := by
  rw [Bool.eq_iff_iff]
  exact ⟨treeEq_imp f t hf ht, treeEq_imp t f ht hf⟩

/-! ### well-formed elements: distinct attribute names everywhere -/

mutual
def XTree.WF : XTree → Bool
  | .mk _ a _ cs => a.WF && xwfL cs
def xwfL : List XTree → Bool
  | [] => true
  | c :: cs => c.WF && xwfL cs
end

theorem xwfL_iff (cs : List XTree) : xwfL cs = true ↔ ∀ c ∈ cs, c.WF = true := by
  induction cs with
  | nil => simp [xwfL]
  | cons c cs ih => simp [xwfL, ih]

theorem xwf_mk (tag : Str) (a : Tree) (x : Option Str) (cs : List XTree) :
    (XTree.mk tag a x cs).WF = true ↔ a.WF = true ∧ ∀ c ∈ cs, c.WF = true := by
  simp [XTree.WF, xwfL_iff]

theorem xeqL_comm_of (as bs : List XTree) (ih : ∀ a ∈ as, ∀ b ∈ bs, a.eq b = b.eq a) :
    xeqL as bs = xeqL bs as := by
  induction as generalizing bs with
  | nil => cases bs <;> simp
  | cons a as ih2 =>
    cases bs with
    | nil => simp
    | cons b bs =>
      simp only [xeqL_cons_cons]
      rw [ih a (by simp) b (by simp), ih2 bs (fun a' ha' b' hb' => ih a' (by simp [ha']) b' (by simp [hb']))]

/-- `XMLElement.__eq__` is symmetric on elements with distinct attribute names -/
theorem xtreeEq_symm (f : XTree) : ∀ t : XTree, f.WF = true → t.WF = true → f.eq t = t.eq f := by
  induction f using XTree.ind with
  | mk ftag fattr ftext fcs ih =>
    intro t hf ht
    obtain ⟨ttag, tattr, ttext, tcs⟩ := t
    rw [xwf_mk] at hf ht
    rw [XTree.eq_mk, XTree.eq_mk]
    rw [treeEq_symm tattr fattr ht.1 hf.1,
      xeqL_comm_of tcs fcs (fun b hb a ha => (ih a ha b (hf.2 a ha) (ht.2 b hb)).symm)]
    congr 1
    congr 1
    · congr 1
      rw [Bool.eq_iff_iff]; simp only [beq_iff_eq]; exact eq_comm
    · rw [Bool.eq_iff_iff]; simp only [beq_iff_eq]; exact eq_comm

/-! ### child tuples: cost 0 only for equal tuples -/

theorem xsum_eq_zero {l : List XScript} : xsum l = 0 ↔ ∀ s ∈ l, s.cost = 0 := by
  induction l with
  | nil => simp
  | cons s l ih => simp [ih]

theorem kidsFixed_cost_zero (fcs tcs : List XTree) (tbl : List (List XScript))
    (H : ∀ i, i < fcs.length → i < tcs.length →
      ((tbl.getD i []).getD i (xMatch 0)).cost = 0 → (fcs.getD i dX).eq (tcs.getD i dX) = true)
    (h : (kidsFixed fcs tcs tbl).cost = 0) : xeqL fcs tcs = true := by
  simp only [kidsFixed, xCompound_cost, xsum_append, Nat.add_eq_zero_iff, xsum_eq_zero,
    List.mem_map, List.mem_range, forall_exists_index, and_imp] at h
  obtain ⟨⟨hp, hr⟩, hi⟩ := h
  have h1 : fcs.length - Nat.min fcs.length tcs.length = 0 := by
    by_cases h0 : 0 < fcs.length - Nat.min fcs.length tcs.length
    · have := hr _ 0 h0 rfl; simp at this
    · omega
  have h2 : tcs.length - Nat.min fcs.length tcs.length = 0 := by
    by_cases h0 : 0 < tcs.length - Nat.min fcs.length tcs.length
    · have := hi _ 0 h0 rfl; simp at this
    · omega
  have hmin : Nat.min fcs.length tcs.length = min fcs.length tcs.length := rfl
  rw [hmin] at h1 h2 hp
  have hlen : fcs.length = tcs.length := by omega
  rw [xeqL_iff]
  refine ⟨hlen, fun i hi' => H i hi' (by omega) ?_⟩
  have := hp _ i (by omega) rfl
  simpa using this

theorem kidsEd_cost_zero (fcs tcs : List XTree) (pen : Nat) (hpen : 0 < pen) (tbl : List (List XScript))
    (H : ∀ i j, i < fcs.length → j < tcs.length →
      ((tbl.getD i []).getD j (xMatch 0)).cost = 0 → (fcs.getD i dX).eq (tcs.getD j dX) = true)
    (h : (kidsEd fcs tcs pen tbl).cost = 0) : xeqL fcs tcs = true := by
  simp only [kidsEd, XScript.cost_mk] at h
  have hz := solve_zero _ _ _ (by
      intro x hx
      simp only [List.mem_map] at hx
      obtain ⟨c, _, rfl⟩ := hx
      omega) (by
      intro x hx
      simp only [List.mem_map] at hx
      obtain ⟨c, _, rfl⟩ := hx
      omega) h
  obtain ⟨hl, -, hc⟩ := hz
  simp only [List.length_map] at hl hc
  have la := trim_le_left fcs tcs
  have lb := trim_le_right fcs tcs
  have hall := trim_all dX fcs tcs hl.symm (fun i hi => by
    have hi2 : i < (middle tcs (trimLens fcs tcs)).length := by omega
    have := hc i hi
    rw [cellAt_tab (fun r c => ((tbl.getD (c + (trimLens fcs tcs).1) []).getD (r + (trimLens fcs tcs).1) (xMatch 0)).cost)
      _ _ i i hi2 hi] at this
    rw [middle_lengthZ] at hi hi2
    have := H _ _ (by omega) (by omega) this
    rw [middle_getD dX fcs _ i hi, middle_getD dX tcs _ i hi2]
    exact this)
  rw [xeqL_iff]
  exact hall

theorem kidsScript_cost_zero (o : Opts) (fcs tcs : List XTree) (tbl : List (List XScript))
    (H : ∀ i j, i < fcs.length → j < tcs.length →
      ((tbl.getD i []).getD j (xMatch 0)).cost = 0 → (fcs.getD i dX).eq (tcs.getD j dX) = true)
    (h : (kidsScript o fcs tcs tbl).cost = 0) : xeqL fcs tcs = true := by
  unfold kidsScript at h
  split at h
  · assumption
  · split at h
    · exact kidsFixed_cost_zero fcs tcs tbl (fun i hi hj => H i i hi hj) h
    · exact kidsEd_cost_zero fcs tcs 1 (by omega) tbl H h

/-! ### the parts of an `XMLElementEdit` -/

theorem textEdit_cost_zero (ft tt : Option Str)
    (h : (match textEdit ft tt with | some e => e.cost | none => 0) = 0) : ft = tt := by
  cases ft <;> cases tt <;> simp [textEdit] at h ⊢
  exact (strEdits_cost_zero_iff _ _).1 h

theorem elemScript_cost (tagE attrE : Script) (textE : Option Script) (kf kt : Nat) (kidsE : XScript) :
    (elemScript tagE attrE textE kf kt kidsE).cost =
      tagE.cost + attrE.cost + (match textE with | some e => e.cost | none => 0) + kidsE.cost := by
  cases textE <;> simp [elemScript] <;> omega

/-! ### the main induction -/

theorem xml_eq_imp_cost_zero (o : Opts) (orc : Oracle) (fp tp : List Nat) (f t : XTree) (h : f.eq t = true) :
    (xmlEdits o orc fp tp f t).cost = 0 := by
  obtain ⟨ftag, fattr, ftext, fcs⟩ := f
  obtain ⟨ttag, tattr, ttext, tcs⟩ := t
  rw [xmlEdits_eq, h]; rfl

theorem xml_cost_zero_imp_eq (o : Opts) (orc : Oracle) (f : XTree) : ∀ (fp tp : List Nat) (t : XTree),
    f.WF = true → t.WF = true → (xmlEdits o orc fp tp f t).cost = 0 → f.eq t = true := by
  induction f using XTree.ind with
  | mk ftag fattr ftext fcs ih =>
    intro fp tp t hf ht h
    obtain ⟨ttag, tattr, ttext, tcs⟩ := t
    rw [xmlEdits_eq] at h
    split at h
    · assumption
    · rw [elemScript_cost] at h
      rw [xwf_mk] at hf ht
      have h1 : (strEdits ftag ttag).cost = 0 := by omega
      have h2 : (edits o orc (fp ++ [1]) (tp ++ [1]) fattr tattr).cost = 0 := by omega
      have h3 : (match textEdit ftext ttext with | some e => e.cost | none => 0) = 0 := by omega
      have h4 : (kidsScript o fcs tcs (kidsTbl o orc fp tp (kidsIx ftext) (kidsIx ttext) fcs tcs)).cost = 0 := by omega
      have e1 := (strEdits_cost_zero_iff _ _).1 h1
      have e2 := cost_zero_imp_eq o orc _ fattr (Nat.le_refl _) _ _ tattr hf.1 ht.1 h2
      have e3 := textEdit_cost_zero _ _ h3
      have e4 := kidsScript_cost_zero o fcs tcs _ (fun i j hi hj hc => by
        rw [kidsTbl_getD _ _ _ _ _ _ _ _ _ _ _ hi hj] at hc
        have e : fcs.getD i dX = fcs[i] := by simp [List.getD_eq_getElem?_getD, hi]
        have e' : tcs.getD j dX = tcs[j] := by simp [List.getD_eq_getElem?_getD, hj]
        rw [e, e']
        exact ih _ (List.getElem_mem hi) _ _ _ (hf.2 _ (List.getElem_mem hi)) (ht.2 _ (List.getElem_mem hj)) hc) h4
      rw [XTree.eq_mk]
      subst e1 e3
      rw [treeEq_symm _ _ ht.1 hf.1, e2,
        xeqL_comm_of tcs fcs (fun b hb a ha => xtreeEq_symm b a (ht.2 b hb) (hf.2 a ha)), e4]
      simp

/-! ### documents: node equality of the built elements is equality as data -/

mutual
/-- every element of the document has pairwise distinct attribute names (what an XML parser delivers) -/
def XDoc.wf : XDoc → Bool
  | .mk _ a _ _ cs => (attrDoc a).distinctKeys && xdocWfL cs
def xdocWfL : List XDoc → Bool
  | [] => true
  | c :: cs => c.wf && xdocWfL cs
end

mutual
/-- equality of two elements as graphtage sees the data: same tag, same attributes (as a finite map, order
    ignored), same text up to surrounding white space (absent = empty), pairwise equal children in order.
    The `tail`s are NOT compared (defect D23: `build_tree` drops them). -/
def XDoc.dataEq : XDoc → XDoc → Bool
  | .mk t1 a1 x1 _ c1, .mk t2 a2 x2 _ c2 =>
      t1 == t2 && Doc.dataEq (attrDoc a1) (attrDoc a2) && eqText x1 == eqText x2 && xdataEqL c1 c2
def xdataEqL : List XDoc → List XDoc → Bool
  | [], [] => true
  | a :: as, b :: bs => a.dataEq b && xdataEqL as bs
  | _, _ => false
end

theorem eqText_buildText (x : Option Str) : eqText (buildText x) = eqText x := by
  cases x with
  | none => rfl
  | some s => cases s <;> rfl

mutual
theorem xbuild_WF (o : Opts) : ∀ (d : XDoc), d.wf = true → (xbuild o d).WF = true
  | .mk tag a x tl cs, h => by
    simp only [XDoc.wf, Bool.and_eq_true] at h
    rw [xbuild, xwf_mk]
    exact ⟨build_WF o _ h.1, (xwfL_iff _).1 (xbuildL_WF o cs h.2)⟩
theorem xbuildL_WF (o : Opts) : ∀ (cs : List XDoc), xdocWfL cs = true → xwfL (xbuild.xbuildL o cs) = true
  | [], _ => rfl
  | c :: cs, h => by
    simp only [xdocWfL, Bool.and_eq_true] at h
    simp only [xbuild.xbuildL, xwfL, Bool.and_eq_true]
    exact ⟨xbuild_WF o c h.1, xbuildL_WF o cs h.2⟩
end

mutual
theorem xeq_iff_dataEq (o : Opts) : ∀ (a b : XDoc), a.wf = true → b.wf = true →
    XTree.eq (xbuild o a) (xbuild o b) = XDoc.dataEq a b
  | .mk t1 a1 x1 l1 c1, .mk t2 a2 x2 l2 c2, ha, hb => by
    have ha' := ha
    have hb' := hb
    simp only [XDoc.wf, Bool.and_eq_true] at ha' hb'
    rw [xbuild, xbuild, XTree.eq_mk, XDoc.dataEq, eqText_buildText, eqText_buildText]
    rw [treeEq_symm _ _ (build_WF o _ hb'.1) (build_WF o _ ha'.1),
      eq_iff_dataEq_aux o _ (attrDoc a1) (Nat.le_refl _) (attrDoc a2) ha'.1 hb'.1]
    have hsym : xeqL (xbuild.xbuildL o c2) (xbuild.xbuildL o c1) = xeqL (xbuild.xbuildL o c1) (xbuild.xbuildL o c2) :=
      xeqL_comm_of _ _ (fun x hx y hy => xtreeEq_symm x y ((xwfL_iff _).1 (xbuildL_WF o c2 hb'.2) x hx)
        ((xwfL_iff _).1 (xbuildL_WF o c1 ha'.2) y hy))
    rw [hsym, xeqL_iff_dataEqL o c1 c2 ha'.2 hb'.2]
    congr 1
    congr 1
    · congr 1
      rw [Bool.eq_iff_iff]; simp only [beq_iff_eq]; exact eq_comm
    · rw [Bool.eq_iff_iff]; simp only [beq_iff_eq]; exact eq_comm
theorem xeqL_iff_dataEqL (o : Opts) : ∀ (as bs : List XDoc), xdocWfL as = true → xdocWfL bs = true →
    xeqL (xbuild.xbuildL o as) (xbuild.xbuildL o bs) = xdataEqL as bs
  | [], [], _, _ => by simp [xbuild.xbuildL, xdataEqL]
  | [], _ :: _, _, _ => by simp [xbuild.xbuildL, xdataEqL]
  | _ :: _, [], _, _ => by simp [xbuild.xbuildL, xdataEqL]
  | a :: as, b :: bs, ha, hb => by
    simp only [xdocWfL, Bool.and_eq_true] at ha hb
    simp only [xbuild.xbuildL, xeqL_cons_cons, xdataEqL]
    rw [xeq_iff_dataEq o a b ha.1 hb.1, xeqL_iff_dataEqL o as bs ha.2 hb.2]
end

end GtModel.Xml

/-
  A script of positive cost contains a non-compound edit (match / replace / remove / insert) of positive cost.
  Fragment of the cost-sum property (C03) that C02 needs: the cost of a compound node never exceeds the sum of the
  costs of its sub-edits.
-/
import GtModel.Proofs.ZeroMain

namespace GtModel
open GtModel.EditMatrix (Move solve located trimLens middle cellAt moveCost moveCostsFrom moveCosts positionsFrom
  solve_total_eq_sum charCells ones)

def Kind.atomic : Kind → Bool
  | .match_ | .replace | .remove | .insert => true
  | _ => false

/-- the script contains (at any depth below compound nodes) a non-compound edit of positive cost -/
inductive PosAtom : Script → Prop
  | here {s : Script} : s.kind.atomic = true → 0 < s.cost → PosAtom s
  | sub {s s' : Script} : s.kind.atomic = false → s' ∈ s.subs → PosAtom s' → PosAtom s

/-- "positive cost is witnessed by an atomic edit" -/
def Good (s : Script) : Prop := 0 < s.cost → PosAtom s

theorem posAtom_relabel {s : Script} {f t : Ix} (h : PosAtom s) : PosAtom (s.relabel f t) := by
  cases h with
  | here hk hc => exact .here (by simpa using hk) (by simpa using hc)
  | sub hk hm hp => exact .sub (by simpa using hk) (by simpa using hm) hp

theorem good_relabel {s : Script} (f t : Ix) (h : Good s) : Good (s.relabel f t) :=
  fun hc => posAtom_relabel (h (by simpa using hc))

theorem good_mkMatch (c : Nat) : Good (mkMatch c) := fun h => .here rfl h
theorem good_mkReplace (a b : Nat) : Good (mkReplace a b) := fun h => .here rfl h
theorem good_mkRemove (i s p : Nat) : Good (mkRemove i s p) := fun h => .here rfl h
theorem good_mkInsert (i s p : Nat) : Good (mkInsert i s p) := fun h => .here rfl h

theorem exists_pos_of_sum_pos : ∀ (l : List Script), 0 < sumCosts l → ∃ s ∈ l, 0 < s.cost := by
  intro l
  induction l with
  | nil => simp
  | cons s l ih =>
    intro h
    simp only [sumCosts_consZ] at h
    by_cases hs : 0 < s.cost
    · exact ⟨s, List.mem_cons_self, hs⟩
    · obtain ⟨s', hm, hp⟩ := ih (by omega)
      exact ⟨s', List.mem_cons_of_mem _ hm, hp⟩

theorem good_compound (k : Kind) (hk : k.atomic = false) (f t : Ix) (c : Nat) (subs : List Script)
    (hc : c ≤ sumCosts subs) (hg : ∀ s ∈ subs, Good s) : Good (.mk k f t c subs) := by
  intro hpos
  simp only [mk_cost] at hpos
  obtain ⟨s, hm, hp⟩ := exists_pos_of_sum_pos subs (by omega)
  exact .sub hk hm (hg s hm hp)

theorem good_mkCompound (k : Kind) (hk : k.atomic = false) (subs : List Script) (hg : ∀ s ∈ subs, Good s) :
    Good (mkCompound k subs) :=
  good_compound k hk _ _ _ subs (Nat.le_refl _) hg

/-! ### the matrix total is bounded by the costs of the emitted sub-edits -/

theorem moveCosts_le (rem ins : List Nat) (cells : List (List Nat)) (g : Move × Nat × Nat → Script)
    (hg : ∀ mv r c, moveCost rem ins cells r c mv ≤ (g (mv, r, c)).cost) :
    ∀ (moves : List Move) (r c : Nat),
      (moveCostsFrom rem ins cells r c moves).sum ≤ sumCosts ((moves.zip (positionsFrom r c moves)).map g) := by
  intro moves
  induction moves with
  | nil => intro r c; simp [moveCostsFrom, positionsFrom]
  | cons mv moves ih =>
    intro r c
    simp only [moveCostsFrom, positionsFrom, List.zip_cons_cons, List.map_cons, List.sum_cons, sumCosts_consZ]
    have h1 := hg mv r c
    have h2 := ih (Move.next r c mv).1 (Move.next r c mv).2
    omega

theorem solve_total_le_subs (rem ins : List Nat) (cells : List (List Nat)) (g : Move × Nat × Nat → Script)
    (hg : ∀ mv r c, moveCost rem ins cells r c mv ≤ (g (mv, r, c)).cost) :
    (solve rem ins cells).1 ≤ sumCosts ((located (solve rem ins cells).2).map g) := by
  rw [solve_total_eq_sum]
  exact moveCosts_le rem ins cells g hg _ 0 0

theorem getD_map_le {α : Type} (l : List α) (f : α → Nat) (i : Nat) (d : α) : (l.map f).getD i 0 ≤ f (l.getD i d) := by
  by_cases h : i < l.length
  · simp [List.getD_eq_getElem?_getD, h]
  · simp [List.getD_eq_getElem?_getD, List.getElem?_eq_none (Nat.le_of_not_lt h)]

theorem cellAt_tab_le (f : Nat → Nat → Nat) (m n r c : Nat) :
    cellAt ((List.range m).map fun r => (List.range n).map fun c => f r c) r c ≤ f r c := by
  by_cases hr : r < m
  · by_cases hc : c < n
    · rw [cellAt_tab f m n r c hr hc]; exact Nat.le_refl _
    · have : (List.range n)[c]? = none := List.getElem?_eq_none (by simpa using hc)
      simp [cellAt, List.getD_eq_getElem?_getD, hr, this]
  · have : (List.range m)[r]? = none := List.getElem?_eq_none (by simpa using hr)
    simp [cellAt, List.getD_eq_getElem?_getD, this]

/-! ### strings and leaves -/

theorem cellAt_charCells_le (ma mb : Str) (r c : Nat) :
    cellAt (charCells ma mb) r c ≤ if (ma.getD c 0 == mb.getD r 0) = true then 0 else 1 := by
  by_cases hr : r < mb.length
  · by_cases hc : c < ma.length
    · simp [cellAt, charCells, List.getD_eq_getElem?_getD, hr, hc]
    · simp [cellAt, charCells, List.getD_eq_getElem?_getD, hr, List.getElem?_eq_none (Nat.le_of_not_lt hc)]
  · simp [cellAt, charCells, List.getD_eq_getElem?_getD, List.getElem?_eq_none (Nat.le_of_not_lt hr)]

theorem good_strEdits (a b : Str) : Good (strEdits a b) := by
  unfold strEdits
  split
  · exact good_mkMatch 0
  · split
    · exact good_mkMatch 1
    · refine good_compound .str rfl _ _ _ _ ?_ ?_
      · simp only [strSubs, sumCosts_appendZ]
        apply Nat.le_trans _ (Nat.le_add_right _ _)
        apply Nat.le_trans _ (Nat.le_add_left _ _)
        apply solve_total_le_subs
        intro mv r c
        cases mv with
        | diag => simp only [moveCost, relabel_cost, mkMatch_costZ]; exact cellAt_charCells_le _ _ r c
        | up =>
          simp only [moveCost, mkInsert_costZ, ones]
          exact getD_map_le _ (fun _ => 1) r 0
        | left =>
          simp only [moveCost, mkRemove_costZ, ones]
          exact getD_map_le _ (fun _ => 1) c 0
      · intro s hs
        simp only [strSubs, List.mem_append, List.mem_map] at hs
        rcases hs with (⟨k, -, rfl⟩ | ⟨⟨mv, r, c⟩, -, rfl⟩) | ⟨k, -, rfl⟩
        · exact good_relabel _ _ (good_mkMatch 0)
        · cases mv
          · exact good_relabel _ _ (good_mkMatch _)
          · exact good_mkInsert _ _ _
          · exact good_mkRemove _ _ _
        · exact good_relabel _ _ (good_mkMatch 0)

theorem good_leafEdits (a : Scalar) (t : Tree) : Good (leafEdits a t) := by
  unfold leafEdits
  split
  · exact good_mkMatch 0
  · exact good_mkReplace _ _
  · exact good_strEdits _ _
  · exact good_mkMatch _
  · exact good_mkReplace _ _

/-! ### compound scripts over a table of good cells -/

def GoodTbl (tbl : List (List Script)) : Prop := ∀ row ∈ tbl, ∀ s ∈ row, Good s

theorem good_cell {tbl : List (List Script)} (h : GoodTbl tbl) (i j : Nat) :
    Good ((tbl.getD i []).getD j (mkMatch 0)) := by
  by_cases hi : i < tbl.length
  · by_cases hj : j < (tbl.getD i []).length
    · exact h _ (getD_mem tbl i [] hi) _ (getD_mem _ j _ hj)
    · rw [List.getD_eq_getElem?_getD (l := tbl.getD i []), List.getElem?_eq_none (Nat.le_of_not_lt hj)]
      exact good_mkMatch 0
  · rw [List.getD_eq_getElem?_getD (l := tbl), List.getElem?_eq_none (Nat.le_of_not_lt hi)]
    exact good_mkMatch 0

theorem good_kvpScript (fk tk : Str) (ve : Bool) (valEdit : Script) (h : Good valEdit) :
    Good (kvpScript fk tk ve valEdit) := by
  unfold kvpScript
  refine good_mkCompound .kvp rfl _ ?_
  intro s hs
  simp only [List.mem_cons, List.not_mem_nil, or_false] at hs
  rcases hs with rfl | rfl
  · refine good_relabel _ _ ?_
    split
    · exact good_mkMatch 0
    · exact good_strEdits _ _
  · refine good_relabel _ _ ?_
    split
    · exact good_mkMatch 0
    · exact h

theorem good_fixedScript (fcs tcs : List Tree) (tbl : List (List Script)) (h : GoodTbl tbl) :
    Good (fixedScript fcs tcs tbl) := by
  unfold fixedScript
  refine good_mkCompound .fixed rfl _ ?_
  intro s hs
  simp only [List.mem_append, List.mem_map] at hs
  rcases hs with (⟨k, -, rfl⟩ | ⟨k, -, rfl⟩) | ⟨k, -, rfl⟩
  · exact good_relabel _ _ (good_cell h _ _)
  · exact good_mkRemove _ _ _
  · exact good_mkInsert _ _ _

theorem good_edScript (fcs tcs : List Tree) (pen : Nat) (tbl : List (List Script)) (h : GoodTbl tbl) :
    Good (edScript fcs tcs pen tbl) := by
  simp only [edScript]
  refine good_compound .ed rfl _ _ _ _ ?_ ?_
  · simp only [sumCosts_appendZ]
    apply Nat.le_trans _ (Nat.le_add_right _ _)
    apply Nat.le_trans _ (Nat.le_add_left _ _)
    apply solve_total_le_subs
    intro mv r c
    cases mv with
    | diag =>
      simp only [moveCost, relabel_cost]
      exact cellAt_tab_le (fun r c => ((tbl.getD (c + (trimLens fcs tcs).1) []).getD (r + (trimLens fcs tcs).1) (mkMatch 0)).cost) _ _ r c
    | up =>
      simp only [moveCost, mkInsert_costZ]
      exact getD_map_le _ (fun (c : Tree) => c.size + pen) r _
    | left =>
      simp only [moveCost, mkRemove_costZ]
      exact getD_map_le _ (fun (c : Tree) => c.size + pen) c _
  · intro s hs
    simp only [List.mem_append, List.mem_map] at hs
    rcases hs with (⟨k, -, rfl⟩ | ⟨⟨mv, r, c⟩, -, rfl⟩) | ⟨k, -, rfl⟩
    · exact good_relabel _ _ (good_mkMatch 0)
    · cases mv
      · exact good_relabel _ _ (good_cell h _ _)
      · exact good_mkInsert _ _ _
      · exact good_mkRemove _ _ _
    · exact good_relabel _ _ (good_mkMatch 0)

theorem good_fkScript (fkv tkv : List (Str × Tree)) (vtbl : List (List Script)) (h : GoodTbl vtbl) :
    Good (fkScript fkv tkv vtbl) := by
  unfold fkScript
  refine good_mkCompound .fk rfl _ ?_
  intro s hs
  simp only [List.mem_append, List.mem_filterMap, List.mem_range] at hs
  rcases hs with (⟨i, -, hs⟩ | ⟨i, -, hs⟩) | ⟨j, -, hs⟩
  · simp only [Option.map_eq_some_iff] at hs
    obtain ⟨j, -, rfl⟩ := hs
    split
    · exact good_relabel _ _ (good_mkMatch 0)
    · exact good_relabel _ _ (good_kvpScript _ _ _ _ (good_cell h _ _))
  · split at hs
    · simp at hs
    · simp only [Option.some.injEq] at hs; subst hs; exact good_mkRemove _ _ _
  · split at hs
    · simp at hs
    · simp only [Option.some.injEq] at hs; subst hs; exact good_mkInsert _ _ _

theorem good_msScript (amk : Bool) (orc : Oracle) (fp tp : List Nat) (fkv tkv : List (Str × Tree))
    (vtbl : List (List Script)) (h : GoodTbl vtbl) : Good (msScript amk orc fp tp fkv tkv vtbl) := by
  unfold msScript
  extract_lets nf nt kvE auto fLeft tLeft hasEqIn toMatch toRemove toInsert pairs matched remLeft insLeft subs
  have hkvE : ∀ i j, Good (kvE i j) := fun i j => good_relabel _ _ (good_kvpScript _ _ _ _ (good_cell h _ _))
  refine good_mkCompound .ms rfl _ ?_
  intro s hs
  simp only [subs, matched, List.mem_append, List.mem_map] at hs
  rcases hs with (((⟨i, -, rfl⟩ | ⟨⟨i, j⟩, -, rfl⟩) | ⟨⟨a, b⟩, -, rfl⟩) | ⟨a, -, rfl⟩) | ⟨b, -, rfl⟩
  · exact good_relabel _ _ (good_mkMatch 0)
  · exact hkvE _ _
  · exact hkvE _ _
  · exact good_mkRemove _ _ _
  · exact good_mkInsert _ _ _

/-! ### the whole recursion -/

theorem good_edits (o : Opts) (orc : Oracle) : ∀ (n : Nat) (f : Tree), sizeOf f ≤ n →
    ∀ (fp tp : List Nat) (t : Tree), Good (edits o orc fp tp f t) := by
  intro n
  induction n with
  | zero => intro f h; cases f <;> simp at h
  | succ n ih =>
    intro f hn fp tp t
    cases f with
    | leaf a => rw [edits]; exact good_leafEdits a t
    | list fcs =>
      cases t with
      | list tcs =>
        rw [edits]
        split
        · exact good_mkMatch 0
        · extract_lets tbl pen
          have hT : GoodTbl tbl := by
            intro row hrow s hs
            simp only [tbl, List.mem_map] at hrow
            obtain ⟨⟨⟨fc, hfc⟩, c⟩, -, rfl⟩ := hrow
            simp only [List.mem_map] at hs
            obtain ⟨⟨tc, r⟩, -, rfl⟩ := hs
            have := List.sizeOf_lt_of_mem hfc
            simp only [Tree.list.sizeOf_spec] at hn
            exact ih fc (by omega) _ _ _
          split
          · exact good_fixedScript _ _ _ hT
          · exact good_edScript _ _ _ _ hT
      | leaf b => rw [edits] <;> first | exact good_mkReplace _ _ | (intro _ h; cases h)
      | dict kvs => rw [edits] <;> first | exact good_mkReplace _ _ | (intro _ h; cases h)
      | fdict kvs => rw [edits] <;> first | exact good_mkReplace _ _ | (intro _ h; cases h)
    | dict fkv =>
      cases t with
      | dict tkv =>
        rw [edits]
        split
        · exact good_mkMatch 0
        · extract_lets vtbl
          have hT : GoodTbl vtbl := by
            intro row hrow s hs
            simp only [vtbl, List.mem_map] at hrow
            obtain ⟨⟨⟨kv, hkv⟩, c⟩, -, rfl⟩ := hrow
            simp only [List.mem_map] at hs
            obtain ⟨⟨tc, r⟩, -, rfl⟩ := hs
            have := List.sizeOf_lt_of_mem hkv
            have := sizeOf_snd_lt kv
            simp only [Tree.dict.sizeOf_spec] at hn
            exact ih kv.2 (by omega) _ _ _
          exact good_msScript _ _ _ _ _ _ _ hT
      | leaf b => rw [edits] <;> first | exact good_mkReplace _ _ | (intro _ h; cases h)
      | list cs => rw [edits] <;> first | exact good_mkReplace _ _ | (intro _ h; cases h)
      | fdict kvs => rw [edits] <;> first | exact good_mkReplace _ _ | (intro _ h; cases h)
    | fdict fkv =>
      cases t with
      | fdict tkv =>
        rw [edits]
        split
        · exact good_mkMatch 0
        · extract_lets vtbl
          have hT : GoodTbl vtbl := by
            intro row hrow s hs
            simp only [vtbl, List.mem_map] at hrow
            obtain ⟨⟨⟨kv, hkv⟩, c⟩, -, rfl⟩ := hrow
            simp only [List.mem_map] at hs
            obtain ⟨⟨tc, r⟩, -, rfl⟩ := hs
            have := List.sizeOf_lt_of_mem hkv
            have := sizeOf_snd_lt kv
            simp only [Tree.fdict.sizeOf_spec] at hn
            exact ih kv.2 (by omega) _ _ _
          exact good_fkScript _ _ _ hT
      | leaf b => rw [edits] <;> first | exact good_mkReplace _ _ | (intro _ h; cases h)
      | list cs => rw [edits] <;> first | exact good_mkReplace _ _ | (intro _ h; cases h)
      | dict kvs => rw [edits] <;> first | exact good_mkReplace _ _ | (intro _ h; cases h)

end GtModel

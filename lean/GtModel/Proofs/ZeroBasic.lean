/-
  Basic facts used by the C02 / C08 proofs: scalar equality is Leibniz equality, index characterisations of
  `eqL` / `subKV`, costs of the script constructors, zero sums, shared prefix/suffix trimming.
-/
import GtModel.Model.Edits
import GtModel.Proofs.EditMatrix

namespace GtModel
open GtModel.EditMatrix (sharedPrefixLen trimLens middle)

/-! ### scalars -/

theorem Scalar.eq_iff (a b : Scalar) : a.eq b = true ↔ a = b := by
  cases a <;> cases b <;> simp [Scalar.eq]

theorem Scalar.eq_refl (a : Scalar) : a.eq a = true := (Scalar.eq_iff a a).2 rfl

/-! ### script constructors -/

@[simp] theorem mkMatch_costZ (c : Nat) : (mkMatch c).cost = c := rfl
@[simp] theorem mkReplace_cost (a b : Nat) : (mkReplace a b).cost = Nat.max a b + 1 := rfl
@[simp] theorem mkRemove_costZ (i s p : Nat) : (mkRemove i s p).cost = s + p := rfl
@[simp] theorem mkInsert_costZ (i s p : Nat) : (mkInsert i s p).cost = s + p := rfl
@[simp] theorem mkCompound_costZ (k : Kind) (l : List Script) : (mkCompound k l).cost = sumCosts l := rfl
@[simp] theorem relabel_cost (s : Script) (f t : Ix) : (s.relabel f t).cost = s.cost := rfl
@[simp] theorem relabel_kind (s : Script) (f t : Ix) : (s.relabel f t).kind = s.kind := rfl
@[simp] theorem relabel_subs (s : Script) (f t : Ix) : (s.relabel f t).subs = s.subs := rfl
@[simp] theorem mk_cost (k : Kind) (f t : Ix) (c : Nat) (l : List Script) : (Script.mk k f t c l).cost = c := rfl

theorem mkReplace_pos (a b : Nat) : 0 < (mkReplace a b).cost := by simp

@[simp] theorem sumCosts_nilZ : sumCosts [] = 0 := rfl
@[simp] theorem sumCosts_consZ (s : Script) (l : List Script) : sumCosts (s :: l) = s.cost + sumCosts l := by
  simp [sumCosts]
@[simp] theorem sumCosts_appendZ (l₁ l₂ : List Script) : sumCosts (l₁ ++ l₂) = sumCosts l₁ + sumCosts l₂ := by
  simp [sumCosts]

theorem sumCosts_eq_zero {l : List Script} : sumCosts l = 0 ↔ ∀ s ∈ l, s.cost = 0 := by
  induction l with
  | nil => simp
  | cons s l ih => simp [ih]

/-! ### `eqL`, `subKV` by index / membership -/

/-- default tree for `getD` (what the model uses) -/
abbrev dT : Tree := .leaf .null
abbrev dKV : Str × Tree := ([], .leaf .null)

theorem eqL_iff : ∀ (as bs : List Tree), eqL as bs = true ↔
    as.length = bs.length ∧ ∀ i, i < as.length → (as.getD i dT).eq (bs.getD i dT) = true := by
  intro as
  induction as with
  | nil => intro bs; cases bs <;> simp [eqL]
  | cons a as ih =>
    intro bs
    cases bs with
    | nil => simp [eqL]
    | cons b bs =>
      simp only [eqL, Bool.and_eq_true, ih bs, List.length_cons, Nat.add_right_cancel_iff]
      constructor
      · rintro ⟨h1, h2, h3⟩
        refine ⟨h2, fun i hi => ?_⟩
        cases i with
        | zero => simpa using h1
        | succ i => simpa using h3 i (by omega)
      · rintro ⟨h1, h2⟩
        refine ⟨by simpa using h2 0 (by omega), h1, fun i hi => ?_⟩
        simpa using h2 (i + 1) (by omega)

theorem findKV_iffZ (k : Str) (v : Tree) : ∀ (bs : List (Str × Tree)),
    findKV k v bs = true ↔ ∃ q ∈ bs, k = q.1 ∧ v.eq q.2 = true := by
  intro bs
  induction bs with
  | nil => simp [findKV]
  | cons b bs ih =>
    obtain ⟨k', v'⟩ := b
    simp [findKV, ih]

theorem subKV_iffZ : ∀ (as bs : List (Str × Tree)),
    subKV as bs = true ↔ ∀ p ∈ as, ∃ q ∈ bs, p.1 = q.1 ∧ p.2.eq q.2 = true := by
  intro as
  induction as with
  | nil => simp [subKV]
  | cons a as ih =>
    intro bs
    obtain ⟨k, v⟩ := a
    simp only [subKV, Bool.and_eq_true, ih bs, findKV_iffZ, List.mem_cons, forall_eq_or_imp]

/-! ### shared prefix / suffix -/

section Trim
variable {α : Type} [BEq α]

theorem spl_le_left : ∀ (a b : List α), sharedPrefixLen a b ≤ a.length := by
  intro a
  induction a with
  | nil => intro b; simp [sharedPrefixLen]
  | cons x a ih =>
    intro b
    cases b with
    | nil => simp [sharedPrefixLen]
    | cons y b =>
      simp only [sharedPrefixLen]
      split
      · have := ih b; simp; omega
      · simp

theorem spl_le_right : ∀ (a b : List α), sharedPrefixLen a b ≤ b.length := by
  intro a
  induction a with
  | nil => intro b; simp [sharedPrefixLen]
  | cons x a ih =>
    intro b
    cases b with
    | nil => simp [sharedPrefixLen]
    | cons y b =>
      simp only [sharedPrefixLen]
      split
      · have := ih b; simp; omega
      · simp

theorem spl_get (d : α) : ∀ (a b : List α) (i : Nat), i < sharedPrefixLen a b →
    (a.getD i d == b.getD i d) = true := by
  intro a
  induction a with
  | nil => intro b i h; simp [sharedPrefixLen] at h
  | cons x a ih =>
    intro b i h
    cases b with
    | nil => simp [sharedPrefixLen] at h
    | cons y b =>
      simp only [sharedPrefixLen] at h
      split at h
      · cases i with
        | zero => simpa
        | succ i => simpa using ih b i (by omega)
      · omega

theorem trim_le_left (a b : List α) : (trimLens a b).1 + (trimLens a b).2 ≤ a.length := by
  have h1 := spl_le_left a b
  have h2 := spl_le_left (a.drop (sharedPrefixLen a b)).reverse (b.drop (sharedPrefixLen a b)).reverse
  simp only [List.length_reverse, List.length_drop] at h2
  simp only [trimLens]; omega

theorem trim_le_right (a b : List α) : (trimLens a b).1 + (trimLens a b).2 ≤ b.length := by
  have h1 := spl_le_right a b
  have h2 := spl_le_right (a.drop (sharedPrefixLen a b)).reverse (b.drop (sharedPrefixLen a b)).reverse
  simp only [List.length_reverse, List.length_drop] at h2
  simp only [trimLens]; omega

theorem trim_prefix (d : α) (a b : List α) (i : Nat) (h : i < (trimLens a b).1) :
    (a.getD i d == b.getD i d) = true := spl_get d a b i h

omit [BEq α] in
theorem getD_reverse_drop (d : α) (a : List α) (p k : Nat) (h : k < a.length - p) :
    (a.drop p).reverse.getD k d = a.getD (a.length - 1 - k) d := by
  simp only [List.getD_eq_getElem?_getD]
  rw [List.getElem?_reverse (by simpa using h)]
  simp only [List.length_drop, List.getElem?_drop]
  congr 2; omega

theorem trim_suffix (d : α) (a b : List α) (k : Nat) (h : k < (trimLens a b).2) :
    (a.getD (a.length - 1 - k) d == b.getD (b.length - 1 - k) d) = true := by
  have h1 := spl_le_left (a.drop (sharedPrefixLen a b)).reverse (b.drop (sharedPrefixLen a b)).reverse
  have h2 := spl_le_right (a.drop (sharedPrefixLen a b)).reverse (b.drop (sharedPrefixLen a b)).reverse
  simp only [List.length_reverse, List.length_drop] at h1 h2
  simp only [trimLens] at h
  have := spl_get d _ _ k h
  rwa [getD_reverse_drop d a _ k (by omega), getD_reverse_drop d b _ k (by omega)] at this

omit [BEq α] in
theorem middle_lengthZ (a : List α) (ps : Nat × Nat) : (middle a ps).length = a.length - ps.1 - ps.2 := by
  simp only [middle, List.length_take, List.length_drop]; omega

omit [BEq α] in
theorem middle_getD (d : α) (a : List α) (ps : Nat × Nat) (i : Nat) (h : i < a.length - ps.1 - ps.2) :
    (middle a ps).getD i d = a.getD (i + ps.1) d := by
  simp only [middle, List.getD_eq_getElem?_getD, List.getElem?_take, h, if_true, List.getElem?_drop]
  congr 2; omega

omit [BEq α] in
theorem mem_middle {a : List α} {ps : Nat × Nat} {x : α} (h : x ∈ middle a ps) : x ∈ a :=
  List.mem_of_mem_drop (List.mem_of_mem_take h)

/-- if the middles agree position-wise, the whole sequences do -/
theorem trim_all (d : α) (a b : List α)
    (hl : (middle a (trimLens a b)).length = (middle b (trimLens a b)).length)
    (hm : ∀ i, i < (middle a (trimLens a b)).length →
      ((middle a (trimLens a b)).getD i d == (middle b (trimLens a b)).getD i d) = true) :
    a.length = b.length ∧ ∀ i, i < a.length → (a.getD i d == b.getD i d) = true := by
  have la := trim_le_left a b
  have lb := trim_le_right a b
  rw [middle_lengthZ, middle_lengthZ] at hl
  have hlen : a.length = b.length := by omega
  refine ⟨hlen, fun i hi => ?_⟩
  by_cases h1 : i < (trimLens a b).1
  · exact trim_prefix d a b i h1
  · by_cases h2 : i < a.length - (trimLens a b).2
    · have := hm (i - (trimLens a b).1) (by rw [middle_lengthZ]; omega)
      rw [middle_getD d a _ _ (by omega), middle_getD d b _ _ (by omega)] at this
      have e : i - (trimLens a b).1 + (trimLens a b).1 = i := by omega
      rwa [e] at this
    · have := trim_suffix d a b (a.length - 1 - i) (by omega)
      have e1 : a.length - 1 - (a.length - 1 - i) = i := by omega
      have e2 : b.length - 1 - (a.length - 1 - i) = i := by omega
      rwa [e1, e2] at this

end Trim

theorem list_eq_of_getD {α : Type} (d : α) (a b : List α) (hl : a.length = b.length)
    (h : ∀ i, i < a.length → a.getD i d = b.getD i d) : a = b := by
  apply List.ext_getElem hl
  intro i h1 h2
  have := h i h1
  simpa [List.getD_eq_getElem?_getD, List.getElem?_eq_getElem h1, List.getElem?_eq_getElem h2] using this

end GtModel

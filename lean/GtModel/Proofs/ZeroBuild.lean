/-
  `build_tree`: documents with distinct keys give well-formed trees; node equality of built trees is equality of
  the documents as data (`Doc.dataEq`); node equality is reflexive.
-/
import GtModel.Proofs.ZeroMain
import GtModel.Proofs.ZeroSort

namespace GtModel

/-! ### `build` through `List.map` -/

theorem buildL_eq_map (o : Opts) : ∀ cs, build.buildL o cs = cs.map (build o) := by
  intro cs; induction cs with
  | nil => simp [build.buildL]
  | cons c cs ih => simp [build.buildL, ih]

theorem buildKV_eq_map (o : Opts) : ∀ kvs, build.buildKV o kvs = kvs.map (fun p => (p.1, build o p.2)) := by
  intro cs; induction cs with
  | nil => simp [build.buildKV]
  | cons c cs ih => obtain ⟨k, v⟩ := c; simp [build.buildKV, ih]

theorem buildKV_keys (o : Opts) (kvs : List (Str × Doc)) : (build.buildKV o kvs).map Prod.fst = kvs.map Prod.fst := by
  simp [buildKV_eq_map, List.map_map, Function.comp_def]

theorem sizeOf_snd_lt_doc (p : Str × Doc) : sizeOf p.2 < sizeOf p := by
  cases p; simp; omega

theorem sizeOf_val_lt_obj {kvs : List (Str × Doc)} {p : Str × Doc} (h : p ∈ kvs) :
    sizeOf p.2 < sizeOf (Doc.obj kvs) := by
  have h1 := List.sizeOf_lt_of_mem h
  have h2 := sizeOf_snd_lt_doc p
  simp only [Doc.obj.sizeOf_spec]; omega

theorem sizeOf_lt_list {cs : List Doc} {c : Doc} (h : c ∈ cs) : sizeOf c < sizeOf (Doc.list cs) := by
  have h1 := List.sizeOf_lt_of_mem h
  simp only [Doc.list.sizeOf_spec]; omega

/-! ### documents with distinct keys per object (what a JSON/YAML parser hands to `build_tree`) -/

mutual
def Doc.distinctKeys : Doc → Bool
  | .scalar _ => true
  | .list cs => dkL cs
  | .obj kvs => decide ((kvs.map Prod.fst).Nodup) && dkKV kvs
def dkL : List Doc → Bool
  | [] => true
  | c :: cs => c.distinctKeys && dkL cs
def dkKV : List (Str × Doc) → Bool
  | [] => true
  | (_, v) :: rest => v.distinctKeys && dkKV rest
end

theorem dkL_iff : ∀ (cs : List Doc), dkL cs = true ↔ ∀ c ∈ cs, c.distinctKeys = true := by
  intro cs
  induction cs with
  | nil => simp [dkL]
  | cons c cs ih => simp [dkL, ih]

theorem dkKV_iff : ∀ (kvs : List (Str × Doc)), dkKV kvs = true ↔ ∀ p ∈ kvs, p.2.distinctKeys = true := by
  intro kvs
  induction kvs with
  | nil => simp [dkKV]
  | cons p kvs ih => obtain ⟨k, v⟩ := p; simp [dkKV, ih]

theorem build_WF_aux (o : Opts) : ∀ (n : Nat) (d : Doc), sizeOf d ≤ n → d.distinctKeys = true →
    (build o d).WF = true := by
  intro n
  induction n with
  | zero => intro d h; cases d <;> simp at h
  | succ n ih =>
    intro d hn hd
    cases d with
    | scalar s => simp [build, Tree.WF]
    | list cs =>
      simp only [Doc.distinctKeys, dkL_iff] at hd
      simp only [build, Tree.WF, buildL_eq_map, wfL_iff, List.mem_map, forall_exists_index, and_imp,
        forall_apply_eq_imp_iff₂]
      intro c hc
      have := sizeOf_lt_list hc
      exact ih c (by omega) (hd c hc)
    | obj kvs =>
      simp only [Doc.distinctKeys, Bool.and_eq_true, decide_eq_true_eq, dkKV_iff] at hd
      have hvals : ∀ p ∈ build.buildKV o kvs, p.2.WF = true := by
        intro p hp
        simp only [buildKV_eq_map, List.mem_map] at hp
        obtain ⟨q, hq, rfl⟩ := hp
        have := sizeOf_val_lt_obj hq
        exact ih q.2 (by omega) (hd.2 q hq)
      have hkeys : ((build.buildKV o kvs).map Prod.fst).Nodup := by rw [buildKV_keys]; exact hd.1
      simp only [build]
      split
      · simp only [Tree.WF, Bool.and_eq_true, decide_eq_true_eq, wfKV_iff]
        exact ⟨sortKV_keys_nodup hkeys, fun p hp => hvals p (mem_sortKV.1 hp)⟩
      · simp only [Tree.WF, Bool.and_eq_true, decide_eq_true_eq, wfKV_iff]
        exact ⟨hkeys, hvals⟩

/-- every document with distinct keys per object builds a well-formed tree -/
theorem build_WF (o : Opts) (d : Doc) (h : d.distinctKeys = true) : (build o d).WF = true :=
  build_WF_aux o _ d (Nat.le_refl _) h

/-! ### node equality is reflexive -/

theorem Tree.eq_refl_aux : ∀ (n : Nat) (t : Tree), sizeOf t ≤ n → t.eq t = true := by
  intro n
  induction n with
  | zero => intro t h; cases t <;> simp at h
  | succ n ih =>
    intro t hn
    have hkv : ∀ kvs : List (Str × Tree), 1 + sizeOf kvs ≤ n + 1 → subKV kvs kvs = true := by
      intro kvs hs
      rw [subKV_iffZ]
      intro p hp
      have h1 := List.sizeOf_lt_of_mem hp
      have h2 := sizeOf_snd_lt p
      exact ⟨p, hp, rfl, ih p.2 (by omega)⟩
    cases t with
    | leaf s => simp [Tree.eq, Scalar.eq_refl]
    | list cs =>
      simp only [Tree.eq, eqL_iff, true_and]
      intro i hi
      have := List.sizeOf_lt_of_mem (getD_mem cs i dT hi)
      simp only [Tree.list.sizeOf_spec] at hn
      exact ih _ (by omega)
    | dict kvs =>
      simp only [Tree.dict.sizeOf_spec] at hn
      simp [Tree.eq, hkv kvs hn]
    | fdict kvs =>
      simp only [Tree.fdict.sizeOf_spec] at hn
      simp [Tree.eq, hkv kvs hn]

theorem Tree.eq_refl (t : Tree) : t.eq t = true := Tree.eq_refl_aux _ t (Nat.le_refl _)

/-! ### "equal as data": the specification side of C02 -/

/-- every key of the first object occurs in the second -/
def keysSub (as bs : List (Str × Doc)) : Bool := as.all fun p => bs.any fun q => p.1 == q.1

mutual
/-- Equality of documents as DATA: scalars by value and type, lists element-wise in order, objects as finite
    maps (same key set, equal values under equal keys; the order of the pairs is irrelevant). -/
def Doc.dataEq : Doc → Doc → Bool
  | .scalar a, .scalar b => a.eq b
  | .list as, .list bs => dataEqL as bs
  | .obj as, .obj bs => keysSub as bs && keysSub bs as && agreeKV as bs
  | _, _ => false
def dataEqL : List Doc → List Doc → Bool
  | [], [] => true
  | a :: as, b :: bs => a.dataEq b && dataEqL as bs
  | _, _ => false
/-- values under equal keys are equal -/
def agreeKV : List (Str × Doc) → List (Str × Doc) → Bool
  | [], _ => true
  | (k, v) :: rest, bs => agree1 k v bs && agreeKV rest bs
def agree1 (k : Str) (v : Doc) : List (Str × Doc) → Bool
  | [] => true
  | (k', v') :: rest => (!(k == k') || v.dataEq v') && agree1 k v rest
end

theorem keysSub_iff (as bs : List (Str × Doc)) :
    keysSub as bs = true ↔ ∀ p ∈ as, p.1 ∈ bs.map Prod.fst := by
  simp only [keysSub, List.all_eq_true, List.any_eq_true, beq_iff_eq, List.mem_map]
  constructor
  · intro h p hp; obtain ⟨q, hq, e⟩ := h p hp; exact ⟨q, hq, e.symm⟩
  · intro h p hp; obtain ⟨q, hq, e⟩ := h p hp; exact ⟨q, hq, e.symm⟩

theorem agree1_iff (k : Str) (v : Doc) : ∀ (bs : List (Str × Doc)),
    agree1 k v bs = true ↔ ∀ q ∈ bs, k = q.1 → v.dataEq q.2 = true := by
  intro bs
  induction bs with
  | nil => simp [agree1]
  | cons b bs ih =>
    obtain ⟨k', v'⟩ := b
    simp only [agree1, Bool.and_eq_true, ih, List.mem_cons, forall_eq_or_imp]
    by_cases h : k = k' <;> simp [h]

theorem agreeKV_iff : ∀ (as bs : List (Str × Doc)),
    agreeKV as bs = true ↔ ∀ p ∈ as, ∀ q ∈ bs, p.1 = q.1 → p.2.dataEq q.2 = true := by
  intro as
  induction as with
  | nil => simp [agreeKV]
  | cons a as ih => intro bs; obtain ⟨k, v⟩ := a; simp [agreeKV, ih, agree1_iff]

theorem dataEqL_iff : ∀ (as bs : List Doc), dataEqL as bs = true ↔
    as.length = bs.length ∧ ∀ i (h1 : i < as.length) (h2 : i < bs.length), as[i].dataEq bs[i] = true := by
  intro as
  induction as with
  | nil => intro bs; cases bs <;> simp [dataEqL]
  | cons a as ih =>
    intro bs
    cases bs with
    | nil => simp [dataEqL]
    | cons b bs =>
      simp only [dataEqL, Bool.and_eq_true, ih bs, List.length_cons, Nat.add_right_cancel_iff]
      constructor
      · rintro ⟨h1, h2, h3⟩
        refine ⟨h2, fun i hi hi' => ?_⟩
        cases i with
        | zero => simpa using h1
        | succ i => simpa using h3 i (by omega) (by omega)
      · rintro ⟨h1, h2⟩
        refine ⟨h2 0 (by simp) (by simp), h1, fun i hi hi' => ?_⟩
        exact h2 (i + 1) (by simp; omega) (by simp; omega)

theorem eqL_iff' (as bs : List Tree) : eqL as bs = true ↔
    as.length = bs.length ∧ ∀ i (h1 : i < as.length) (h2 : i < bs.length), as[i].eq bs[i] = true := by
  rw [eqL_iff]
  constructor
  · rintro ⟨h1, h2⟩
    refine ⟨h1, fun i hi hi' => ?_⟩
    have := h2 i hi
    rwa [getD_eq_getElem' _ _ hi, getD_eq_getElem' _ _ hi'] at this
  · rintro ⟨h1, h2⟩
    refine ⟨h1, fun i hi => ?_⟩
    rw [getD_eq_getElem' _ _ hi, getD_eq_getElem' _ _ (by omega : i < bs.length)]
    exact h2 i hi (by omega)

/-! ### mappings as sets of pairs -/

/-- the content of `DictNode.__eq__` / `FixedKeyDictNode.__eq__` on lists of pairs -/
def kvRel (X Y : List (Str × Tree)) : Prop :=
  X.length = Y.length ∧ ∀ p ∈ X, ∃ q ∈ Y, p.1 = q.1 ∧ p.2.eq q.2 = true

theorem dict_eq_iff (X Y : List (Str × Tree)) : (Tree.dict X).eq (Tree.dict Y) = true ↔ kvRel X Y := by
  simp [Tree.eq, subKV_iffZ, kvRel]

theorem fdict_eq_iff (X Y : List (Str × Tree)) : (Tree.fdict X).eq (Tree.fdict Y) = true ↔ kvRel X Y := by
  simp [Tree.eq, subKV_iffZ, kvRel]

theorem kvRel_sortKV (X Y : List (Str × Tree)) : kvRel (sortKV X) (sortKV Y) ↔ kvRel X Y := by
  simp only [kvRel, sortKV_length, mem_sortKV]

/-- pigeonhole: a duplicate-free list inside a list that is not longer contains all of it -/
theorem subset_of_nodup_of_length_le {α : Type} [DecidableEq α] : ∀ {l₁ l₂ : List α}, l₁.Nodup → l₁ ⊆ l₂ →
    l₂.length ≤ l₁.length → l₂ ⊆ l₁ := by
  intro l₁
  induction l₁ with
  | nil =>
    intro l₂ _ _ hl x hx
    have : l₂ = [] := List.eq_nil_of_length_eq_zero (by simpa using hl)
    rw [this] at hx; exact hx
  | cons a t ih =>
    intro l₂ hn hs hl x hx
    rw [List.nodup_cons] at hn
    have ha : a ∈ l₂ := hs List.mem_cons_self
    have hts : t ⊆ l₂.erase a := by
      intro y hy
      have hya : y ≠ a := fun e => hn.1 (e ▸ hy)
      exact (List.mem_erase_of_ne hya).2 (hs (List.mem_cons_of_mem _ hy))
    have hlen : (l₂.erase a).length = l₂.length - 1 := by rw [List.length_erase]; simp [ha]
    have hpos : 1 ≤ l₂.length := List.length_pos_of_mem ha
    have := ih hn.2 hts (by simp only [List.length_cons] at hl; omega)
    by_cases hxa : x = a
    · rw [hxa]; exact List.mem_cons_self
    · exact List.mem_cons_of_mem _ (this ((List.mem_erase_of_ne hxa).2 hx))

theorem eq_of_mem_of_key_eq {α : Type} {l : List (Str × α)} (hn : (l.map Prod.fst).Nodup) {p q : Str × α}
    (hp : p ∈ l) (hq : q ∈ l) (e : p.1 = q.1) : p = q := by
  induction l with
  | nil => simp at hp
  | cons r l ih =>
    simp only [List.map_cons, List.nodup_cons, List.mem_map, not_exists, not_and] at hn
    simp only [List.mem_cons] at hp hq
    rcases hp with rfl | hp
    · rcases hq with rfl | hq
      · rfl
      · exact absurd e.symm (hn.1 q hq)
    · rcases hq with rfl | hq
      · exact absurd e (hn.1 p hp)
      · exact ih hn.2 hp hq

/-- core of `eq_iff_dataEq` for one object, values handled by the induction hypothesis -/
theorem kvRel_build_iff (o : Opts) (as bs : List (Str × Doc))
    (ha : (as.map Prod.fst).Nodup) (hb : (bs.map Prod.fst).Nodup)
    (ih : ∀ p ∈ as, ∀ q ∈ bs, (build o p.2).eq (build o q.2) = p.2.dataEq q.2) :
    kvRel (build.buildKV o as) (build.buildKV o bs) ↔
      (keysSub as bs = true ∧ keysSub bs as = true) ∧ agreeKV as bs = true := by
  rw [keysSub_iff, keysSub_iff, agreeKV_iff]
  unfold kvRel
  rw [buildKV_eq_map, buildKV_eq_map]
  simp only [List.length_map]
  constructor
  · rintro ⟨hl, hs⟩
    have hs' : ∀ p ∈ as, ∃ q ∈ bs, p.1 = q.1 ∧ (build o p.2).eq (build o q.2) = true := by
      intro p hp
      obtain ⟨q', hq', e, he⟩ := hs _ (List.mem_map_of_mem (f := fun p => (p.1, build o p.2)) hp)
      obtain ⟨q, hq, rfl⟩ := List.mem_map.1 hq'
      exact ⟨q, hq, e, he⟩
    have hsub : ∀ p ∈ as, p.1 ∈ bs.map Prod.fst := by
      intro p hp
      obtain ⟨q, hq, e, -⟩ := hs' p hp
      exact List.mem_map.2 ⟨q, hq, e.symm⟩
    refine ⟨⟨hsub, ?_⟩, ?_⟩
    · intro q hq
      have : bs.map Prod.fst ⊆ as.map Prod.fst :=
        subset_of_nodup_of_length_le ha (by
          intro k hk; obtain ⟨p, hp, rfl⟩ := List.mem_map.1 hk; exact hsub p hp) (by simp [hl])
      exact this (List.mem_map_of_mem hq)
    · intro p hp q hq e
      obtain ⟨q', hq', e', he⟩ := hs' p hp
      have : q' = q := eq_of_mem_of_key_eq hb hq' hq (e'.symm.trans e)
      subst this
      rw [← ih p hp q' hq']; exact he
  · rintro ⟨⟨h1, h2⟩, h3⟩
    constructor
    · have l1 := List.Nodup.length_le_of_subset ha (l₂ := bs.map Prod.fst) (by
        intro k hk; obtain ⟨p, hp, rfl⟩ := List.mem_map.1 hk; exact h1 p hp)
      have l2 := List.Nodup.length_le_of_subset hb (l₂ := as.map Prod.fst) (by
        intro k hk; obtain ⟨p, hp, rfl⟩ := List.mem_map.1 hk; exact h2 p hp)
      simp only [List.length_map] at l1 l2
      omega
    · intro p' hp'
      obtain ⟨p, hp, rfl⟩ := List.mem_map.1 hp'
      obtain ⟨q, hq, e⟩ := List.mem_map.1 (h1 p hp)
      refine ⟨(q.1, build o q.2), List.mem_map_of_mem (f := fun p => (p.1, build o p.2)) hq, e.symm, ?_⟩
      simp only
      rw [ih p hp q hq]
      exact h3 p hp q hq e.symm

theorem eq_iff_dataEq_aux (o : Opts) : ∀ (n : Nat) (a : Doc), sizeOf a ≤ n → ∀ (b : Doc),
    a.distinctKeys = true → b.distinctKeys = true → (build o a).eq (build o b) = a.dataEq b := by
  intro n
  induction n with
  | zero => intro a h; cases a <;> simp at h
  | succ n ih =>
    intro a hn b ha hb
    cases a with
    | scalar s => cases b <;> simp [build, Tree.eq, Doc.dataEq] <;> split <;> simp [Tree.eq]
    | list as =>
      cases b with
      | list bs =>
        simp only [Doc.distinctKeys, dkL_iff] at ha hb
        simp only [build, Tree.eq, Doc.dataEq, buildL_eq_map]
        rw [Bool.eq_iff_iff, eqL_iff', dataEqL_iff]
        simp only [List.length_map, List.getElem_map]
        constructor
        · rintro ⟨h1, h2⟩
          refine ⟨h1, fun i hi hi' => ?_⟩
          have hm := List.getElem_mem hi
          have := sizeOf_lt_list hm
          rw [← ih as[i] (by omega) bs[i] (ha _ hm) (hb _ (List.getElem_mem hi'))]
          exact h2 i hi hi'
        · rintro ⟨h1, h2⟩
          refine ⟨h1, fun i hi hi' => ?_⟩
          have hm := List.getElem_mem hi
          have := sizeOf_lt_list hm
          rw [ih as[i] (by omega) bs[i] (ha _ hm) (hb _ (List.getElem_mem hi'))]
          exact h2 i hi hi'
      | scalar s => simp [build, Tree.eq, Doc.dataEq]
      | obj kvs => simp only [build, Doc.dataEq]; split <;> simp [Tree.eq]
    | obj as =>
      cases b with
      | obj bs =>
        simp only [Doc.distinctKeys, Bool.and_eq_true, decide_eq_true_eq, dkKV_iff] at ha hb
        have hih : ∀ p ∈ as, ∀ q ∈ bs, (build o p.2).eq (build o q.2) = p.2.dataEq q.2 := by
          intro p hp q hq
          have := sizeOf_val_lt_obj hp
          exact ih p.2 (by omega) q.2 (ha.2 p hp) (hb.2 q hq)
        have key := kvRel_build_iff o as bs ha.1 hb.1 hih
        simp only [build, Doc.dataEq]
        rw [Bool.eq_iff_iff]
        split
        · rw [dict_eq_iff, kvRel_sortKV, key]; simp
        · rw [fdict_eq_iff, key]; simp
      | scalar s => simp only [build, Doc.dataEq]; split <;> simp [Tree.eq]
      | list cs => simp only [build, Doc.dataEq]; split <;> simp [Tree.eq]

end GtModel

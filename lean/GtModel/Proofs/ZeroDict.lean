/-
  Mappings: `kvpScript`, `fkScript` (FixedKeyDictNodeEdit) and `msScript` (MultiSetEdit) have cost 0 only when
  the two mappings have the same keys with equal values (given distinct keys within each mapping).
  The table of value scripts is abstract: only "cell cost 0 ⇒ the two values are equal" is assumed.
-/
import GtModel.Proofs.ZeroStr

namespace GtModel

abbrev keysOf (kvs : List (Str × Tree)) : List Str := kvs.map Prod.fst

/-! ### `findKey` -/

theorem findKey_someZ : ∀ (l : List (Str × Tree)) (k : Str) (i j : Nat), findKey k l i = some j →
    i ≤ j ∧ j - i < l.length ∧ (l.getD (j - i) dKV).1 = k := by
  intro l
  induction l with
  | nil => intro k i j h; simp [findKey] at h
  | cons p l ih =>
    intro k i j h
    obtain ⟨k', v'⟩ := p
    simp only [findKey] at h
    split at h
    · rename_i hk
      simp only [Option.some.injEq] at h
      subst h
      simp at hk
      simp [hk]
    · obtain ⟨h1, h2, h3⟩ := ih k (i + 1) j h
      refine ⟨by omega, by simp; omega, ?_⟩
      have e : j - i = (j - (i + 1)) + 1 := by omega
      rw [e]; simpa using h3

theorem findKey_noneZ : ∀ (l : List (Str × Tree)) (k : Str) (i : Nat), findKey k l i = none → k ∉ keysOf l := by
  intro l
  induction l with
  | nil => intro k i h; simp
  | cons p l ih =>
    intro k i h
    obtain ⟨k', v'⟩ := p
    simp only [findKey] at h
    split at h
    · simp at h
    · rename_i hk
      have := ih k (i + 1) h
      simp at hk
      simp only [keysOf, List.map_cons, List.mem_cons, not_or]
      exact ⟨hk, this⟩

theorem findKey_zero_some {l : List (Str × Tree)} {k : Str} {j : Nat} (h : findKey k l 0 = some j) :
    j < l.length ∧ (l.getD j dKV).1 = k := by
  have := findKey_someZ l k 0 j h
  simpa using this.2

theorem getD_mem {α : Type} (l : List α) (i : Nat) (d : α) (h : i < l.length) : l.getD i d ∈ l := by
  simp [List.getD_eq_getElem?_getD, List.getElem?_eq_getElem h]

theorem exists_getD_of_mem {α : Type} {l : List α} {x : α} (d : α) (h : x ∈ l) : ∃ i, i < l.length ∧ l.getD i d = x := by
  obtain ⟨i, hi, rfl⟩ := List.getElem_of_mem h
  exact ⟨i, hi, by simp [List.getD_eq_getElem?_getD, List.getElem?_eq_getElem hi]⟩

/-! ### `KeyValuePairEdit` -/

theorem kvpScript_cost_zero {fk tk : Str} {ve : Bool} {valEdit : Script}
    (h : (kvpScript fk tk ve valEdit).cost = 0) : fk = tk ∧ (ve = true ∨ valEdit.cost = 0) := by
  simp only [kvpScript, mkCompound_costZ, sumCosts_consZ, relabel_cost, sumCosts_nilZ, Nat.add_zero,
    Nat.add_eq_zero_iff] at h
  obtain ⟨h1, h2⟩ := h
  constructor
  · by_cases hk : fk = tk
    · exact hk
    · have hb : (fk == tk) = false := by simpa using hk
      simp only [hb, Bool.false_eq_true, if_false] at h1
      exact absurd h1 (by have := strEdits_pos hk; omega)
  · cases ve with
    | true => exact Or.inl rfl
    | false => right; simpa using h2

/-- two mappings with distinct keys that embed into each other key-wise have the same length -/
theorem length_eq_of_keys {as bs : List (Str × Tree)} (ha : (keysOf as).Nodup) (hb : (keysOf bs).Nodup)
    (hab : ∀ p ∈ as, p.1 ∈ keysOf bs) (hba : ∀ q ∈ bs, q.1 ∈ keysOf as) : as.length = bs.length := by
  have h1 := List.Nodup.length_le_of_subset ha (l₂ := keysOf bs) (by
    intro k hk; simp only [keysOf, List.mem_map] at hk; obtain ⟨p, hp, rfl⟩ := hk; exact hab p hp)
  have h2 := List.Nodup.length_le_of_subset hb (l₂ := keysOf as) (by
    intro k hk; simp only [keysOf, List.mem_map] at hk; obtain ⟨p, hp, rfl⟩ := hk; exact hba p hp)
  simp only [keysOf, List.length_map] at h1 h2
  omega

/-! ### `FixedKeyDictNodeEdit` -/

theorem fkScript_cost_zero (fkv tkv : List (Str × Tree)) (vtbl : List (List Script))
    (hdf : (keysOf fkv).Nodup) (hdt : (keysOf tkv).Nodup)
    (H : ∀ i j, i < fkv.length → j < tkv.length →
      ((vtbl.getD i []).getD j (mkMatch 0)).cost = 0 → (fkv.getD i dKV).2.eq (tkv.getD j dKV).2 = true)
    (h : (fkScript fkv tkv vtbl).cost = 0) : fkv.length = tkv.length ∧ subKV fkv tkv = true := by
  simp only [fkScript, mkCompound_costZ, sumCosts_appendZ, Nat.add_eq_zero_iff, sumCosts_eq_zero,
    List.mem_filterMap, List.mem_range, forall_exists_index, and_imp] at h
  obtain ⟨⟨hs, hr⟩, hi⟩ := h
  -- every from-pair has an equal to-pair
  have hsub : ∀ i, i < fkv.length → ∃ j, j < tkv.length ∧ (fkv.getD i dKV).1 = (tkv.getD j dKV).1 ∧
      (fkv.getD i dKV).2.eq (tkv.getD j dKV).2 = true := by
    intro i hi'
    cases hf : findKey (fkv.getD i dKV).1 tkv 0 with
    | none =>
      have := hr _ i hi' (by simp only [hf]; rfl)
      simp at this
    | some j =>
      obtain ⟨hj, hk⟩ := findKey_zero_some hf
      refine ⟨j, hj, hk.symm, ?_⟩
      have := hs _ i hi' (by simp only [hf, Option.map_some]; rfl)
      split at this
      · rename_i he
        simp only [kvEq, Bool.and_eq_true] at he
        exact he.2
      · simp only [relabel_cost] at this
        rcases (kvpScript_cost_zero this).2 with h1 | h1
        · exact h1
        · exact H i j hi' hj h1
  have hkeys : ∀ q ∈ tkv, q.1 ∈ keysOf fkv := by
    intro q hq
    obtain ⟨j, hj, rfl⟩ := exists_getD_of_mem dKV hq
    cases hf : findKey (tkv.getD j dKV).1 fkv 0 with
    | none =>
      have := hi _ j hj (by simp only [hf]; rfl)
      simp at this
    | some i =>
      obtain ⟨hi', hk⟩ := findKey_zero_some hf
      rw [← hk]
      exact List.mem_map_of_mem (getD_mem fkv i dKV hi')
  have hsub' : ∀ p ∈ fkv, ∃ q ∈ tkv, p.1 = q.1 ∧ p.2.eq q.2 = true := by
    intro p hp
    obtain ⟨i, hi', rfl⟩ := exists_getD_of_mem dKV hp
    obtain ⟨j, hj, h1, h2⟩ := hsub i hi'
    exact ⟨_, getD_mem tkv j dKV hj, h1, h2⟩
  refine ⟨length_eq_of_keys hdf hdt ?_ hkeys, (subKV_iffZ _ _).2 hsub'⟩
  intro p hp
  obtain ⟨q, hq, h1, -⟩ := hsub' p hp
  rw [h1]; exact List.mem_map_of_mem hq

/-! ### the oracle's answer is always in range -/

theorem sanitize_range (nf nt : Nat) : ∀ (rest acc : List (Nat × Nat)),
    (∀ p ∈ acc, p.1 < nf ∧ p.2 < nt) → ∀ p ∈ sanitize nf nt acc rest, p.1 < nf ∧ p.2 < nt := by
  intro rest
  induction rest with
  | nil => intro acc h p hp; simp only [sanitize, List.mem_reverse] at hp; exact h p hp
  | cons q rest ih =>
    intro acc h p hp
    obtain ⟨i, j⟩ := q
    simp only [sanitize] at hp
    split at hp
    · rename_i hc
      simp only [Bool.and_eq_true, decide_eq_true_eq] at hc
      refine ih _ ?_ p hp
      intro p' hp'
      simp only [List.mem_cons] at hp'
      rcases hp' with rfl | hp'
      · exact ⟨hc.1.1.1, hc.1.1.2⟩
      · exact h p' hp'
    · exact ih _ h p hp

theorem lookup_range (orc : Oracle) (fps tps : List (List Nat)) :
    ∀ p ∈ orc.lookup fps tps, p.1 < fps.length ∧ p.2 < tps.length := by
  intro p hp
  simp only [Oracle.lookup] at hp
  split at hp
  · exact sanitize_range _ _ _ [] (by simp) p hp
  · simp only [identityPairs, List.mem_map, List.mem_range] at hp
    obtain ⟨i, hi, rfl⟩ := hp
    have : Nat.min fps.length tps.length = min fps.length tps.length := rfl
    simp only; omega

theorem mem_insertPair (p q : Nat × Nat) : ∀ (l : List (Nat × Nat)), q ∈ insertPair p l ↔ q = p ∨ q ∈ l := by
  intro l
  induction l with
  | nil => simp [insertPair]
  | cons r l ih =>
    simp only [insertPair]
    split
    · simp
    · simp only [List.mem_cons, ih]
      constructor
      · rintro (h | h | h) <;> simp [h]
      · rintro (h | h | h) <;> simp [h]

theorem mem_sortPairs (q : Nat × Nat) : ∀ (l : List (Nat × Nat)), q ∈ sortPairs l ↔ q ∈ l := by
  intro l
  induction l with
  | nil => simp [sortPairs]
  | cons r l ih => simp [sortPairs, mem_insertPair, ih]

/-! ### `MultiSetEdit` -/

theorem msScript_cost_zero (amk : Bool) (orc : Oracle) (fp tp : List Nat) (fkv tkv : List (Str × Tree))
    (vtbl : List (List Script))
    (hdf : (keysOf fkv).Nodup) (hdt : (keysOf tkv).Nodup)
    (H : ∀ i j, i < fkv.length → j < tkv.length →
      ((vtbl.getD i []).getD j (mkMatch 0)).cost = 0 → (fkv.getD i dKV).2.eq (tkv.getD j dKV).2 = true)
    (h : (msScript amk orc fp tp fkv tkv vtbl).cost = 0) : fkv.length = tkv.length ∧ subKV fkv tkv = true := by
  unfold msScript at h
  extract_lets nf nt kvE auto fLeft tLeft hasEqIn toMatch toRemove toInsert pairs matched remLeft insLeft subs at h
  simp only [mkCompound_costZ, sumCosts_eq_zero] at h
  -- a key/value edit of cost 0 relates equal pairs
  have hkvE : ∀ i j, i < nf → j < nt → (kvE i j).cost = 0 →
      (fkv.getD i dKV).1 = (tkv.getD j dKV).1 ∧ (fkv.getD i dKV).2.eq (tkv.getD j dKV).2 = true := by
    intro i j hi hj hc
    simp only [kvE, relabel_cost] at hc
    obtain ⟨h1, h2⟩ := kvpScript_cost_zero hc
    refine ⟨h1, ?_⟩
    rcases h2 with h2 | h2
    · exact h2
    · exact H i j hi hj h2
  have hfLeft : ∀ i ∈ fLeft, i < nf := by
    intro i hi; simp only [fLeft, List.mem_filter, List.mem_range] at hi; exact hi.1
  have htLeft : ∀ j ∈ tLeft, j < nt := by
    intro j hj; simp only [tLeft, List.mem_filter, List.mem_range] at hj; exact hj.1
  have hpairs : ∀ p ∈ pairs, p.1 < toRemove.length ∧ p.2 < toInsert.length := by
    intro p hp
    simp only [pairs, mem_sortPairs] at hp
    simpa using lookup_range _ _ _ p hp
  have hRem : ∀ i ∈ toRemove, i ∈ fLeft ∧ hasEqIn (fkv.getD i dKV) tLeft tkv = false := by
    intro i hi; simpa [toRemove, List.mem_filter] using hi
  have hIns : ∀ j ∈ toInsert, j ∈ tLeft ∧ hasEqIn (tkv.getD j dKV) fLeft fkv = false := by
    intro j hj; simpa [toInsert, List.mem_filter] using hj
  have hRem' : ∀ i ∈ fLeft, i ∉ toRemove → hasEqIn (fkv.getD i dKV) tLeft tkv = true := by
    intro i hi hn
    simp only [toRemove, List.mem_filter, hi, true_and] at hn
    simpa using hn
  have hIns' : ∀ j ∈ tLeft, j ∉ toInsert → hasEqIn (tkv.getD j dKV) fLeft fkv = true := by
    intro j hj hn
    simp only [toInsert, List.mem_filter, hj, true_and] at hn
    simpa using hn
  -- no oracle pair can have cost 0
  have hnopairs : pairs = [] := by
    cases hp : pairs with
    | nil => rfl
    | cons p rest =>
      exfalso
      have hmem : p ∈ pairs := by rw [hp]; simp
      obtain ⟨ha, hb⟩ := hpairs p hmem
      have hi : toRemove.getD p.1 0 ∈ toRemove := getD_mem _ _ _ ha
      have hj : toInsert.getD p.2 0 ∈ toInsert := getD_mem _ _ _ hb
      have hc := h (kvE (toRemove.getD p.1 0) (toInsert.getD p.2 0)) (by
        simp only [subs, List.mem_append]
        left; left; right
        simp only [matched, List.mem_map]
        exact ⟨p, hmem, rfl⟩)
      have hi2 := hRem _ hi
      have hj2 := hIns _ hj
      obtain ⟨e1, e2⟩ := hkvE _ _ (hfLeft _ hi2.1) (htLeft _ hj2.1) hc
      have : hasEqIn (fkv.getD (toRemove.getD p.1 0) dKV) tLeft tkv = true := by
        simp only [hasEqIn, List.any_eq_true]
        exact ⟨_, hj2.1, by simp only [kvEq, Bool.and_eq_true, beq_iff_eq]; exact ⟨e1, e2⟩⟩
      rw [hi2.2] at this
      exact Bool.false_ne_true this
  have hrem : toRemove = [] := by
    cases hr : toRemove with
    | nil => rfl
    | cons x rest =>
      exfalso
      have hm : 0 ∈ remLeft := by
        simp only [remLeft, List.mem_filter, List.mem_range, hnopairs, hr]; simp
      have hc := h _ (by
        simp only [subs, List.mem_append]
        left; right
        simp only [List.mem_map]
        exact ⟨0, hm, rfl⟩)
      simp at hc
  have hins : toInsert = [] := by
    cases hr : toInsert with
    | nil => rfl
    | cons x rest =>
      exfalso
      have hm : 0 ∈ insLeft := by
        simp only [insLeft, List.mem_filter, List.mem_range, hnopairs, hr]; simp
      have hc := h _ (by
        simp only [subs, List.mem_append]
        right
        simp only [List.mem_map]
        exact ⟨0, hm, rfl⟩)
      simp at hc
  -- automatically matched pairs
  have hauto : ∀ p ∈ auto, p.1 < nf ∧ p.2 < nt ∧ (fkv.getD p.1 dKV).1 = (tkv.getD p.2 dKV).1 := by
    intro p hp
    simp only [auto] at hp
    split at hp
    · simp only [List.mem_filterMap, List.mem_range, Option.map_eq_some_iff] at hp
      obtain ⟨i, hi, j, hf, rfl⟩ := hp
      obtain ⟨hj, hk⟩ := findKey_zero_some hf
      exact ⟨hi, hj, hk.symm⟩
    · simp at hp
  have hautoE : ∀ p ∈ auto, (fkv.getD p.1 dKV).2.eq (tkv.getD p.2 dKV).2 = true := by
    intro p hp
    obtain ⟨h1, h2, -⟩ := hauto p hp
    have hc := h (kvE p.1 p.2) (by
      simp only [subs, List.mem_append]
      left; left; left; right
      simp only [List.mem_map]
      exact ⟨p, hp, rfl⟩)
    exact (hkvE _ _ h1 h2 hc).2
  have hsubF : ∀ i, i < nf → ∃ j, j < nt ∧ (fkv.getD i dKV).1 = (tkv.getD j dKV).1 ∧
      (fkv.getD i dKV).2.eq (tkv.getD j dKV).2 = true := by
    intro i hi
    by_cases ha : ∃ p ∈ auto, p.1 = i
    · obtain ⟨p, hp, rfl⟩ := ha
      obtain ⟨-, h2, h3⟩ := hauto p hp
      exact ⟨p.2, h2, h3, hautoE p hp⟩
    · have hiL : i ∈ fLeft := by
        simp only [fLeft, List.mem_filter, List.mem_range]
        refine ⟨hi, ?_⟩
        simp only [Bool.not_eq_true', List.any_eq_false, beq_iff_eq]
        intro p hp he; exact ha ⟨p, hp, he⟩
      have := hRem' i hiL (by rw [hrem]; simp)
      simp only [hasEqIn, List.any_eq_true, kvEq, Bool.and_eq_true, beq_iff_eq] at this
      obtain ⟨j, hj, h1, h2⟩ := this
      exact ⟨j, htLeft j hj, h1, h2⟩
  have hsubT : ∀ j, j < nt → ∃ i, i < nf ∧ (tkv.getD j dKV).1 = (fkv.getD i dKV).1 := by
    intro j hj
    by_cases ha : ∃ p ∈ auto, p.2 = j
    · obtain ⟨p, hp, rfl⟩ := ha
      obtain ⟨h1, -, h3⟩ := hauto p hp
      exact ⟨p.1, h1, h3.symm⟩
    · have hjL : j ∈ tLeft := by
        simp only [tLeft, List.mem_filter, List.mem_range]
        refine ⟨hj, ?_⟩
        simp only [Bool.not_eq_true', List.any_eq_false, beq_iff_eq]
        intro p hp he; exact ha ⟨p, hp, he⟩
      have := hIns' j hjL (by rw [hins]; simp)
      simp only [hasEqIn, List.any_eq_true, kvEq, Bool.and_eq_true, beq_iff_eq] at this
      obtain ⟨i, hi, h1, -⟩ := this
      exact ⟨i, hfLeft i hi, h1⟩
  have hsub' : ∀ p ∈ fkv, ∃ q ∈ tkv, p.1 = q.1 ∧ p.2.eq q.2 = true := by
    intro p hp
    obtain ⟨i, hi', rfl⟩ := exists_getD_of_mem dKV hp
    obtain ⟨j, hj, h1, h2⟩ := hsubF i hi'
    exact ⟨_, getD_mem tkv j dKV hj, h1, h2⟩
  refine ⟨length_eq_of_keys hdf hdt ?_ ?_, (subKV_iffZ _ _).2 hsub'⟩
  · intro p hp
    obtain ⟨q, hq, h1, -⟩ := hsub' p hp
    rw [h1]; exact List.mem_map_of_mem hq
  · intro q hq
    obtain ⟨j, hj, rfl⟩ := exists_getD_of_mem dKV hq
    obtain ⟨i, hi, h1⟩ := hsubT j hj
    rw [h1]; exact List.mem_map_of_mem (getD_mem fkv i dKV hi)

end GtModel

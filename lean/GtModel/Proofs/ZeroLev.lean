/-
  `levenshtein_distance(s, t) = 0 ↔ s = t` for the table model `lev` (Model/Edits.lean).

  Only the zero pattern of the table is tracked: an inner cell `min (min (up+1) (left+1)) (diag + c)` is 0 exactly
  when the diagonal neighbour is 0 and the two characters agree; hence row `i` has a 0 exactly at column `i`, and
  only if the first `i` characters of both strings agree.
-/
import GtModel.Model.Edits

namespace GtModel

theorem min3_zero (a b d c : Nat) : Nat.min (Nat.min (a + 1) (b + 1)) (d + c) = 0 ↔ d = 0 ∧ c = 0 := by
  show min (min (a + 1) (b + 1)) (d + c) = 0 ↔ _
  omega

theorem levRow_go_zero (x : Nat) : ∀ (ups : List Nat) (ys : Str) (left diag j : Nat), ups.length = ys.length →
    ((levRow.go x left diag ups ys)[j]? = some 0 ↔ ((diag :: ups)[j]? = some 0 ∧ ys[j]? = some x)) := by
  intro ups
  induction ups with
  | nil =>
    intro ys left diag j h
    cases ys with
    | nil => simp [levRow.go]
    | cons y ys => simp at h
  | cons up ups ih =>
    intro ys left diag j h
    cases ys with
    | nil => simp at h
    | cons y ys =>
      simp only [List.length_cons, Nat.add_right_cancel_iff] at h
      cases j with
      | zero =>
        simp only [levRow.go, List.getElem?_cons_zero, Option.some.injEq]
        rw [min3_zero]
        by_cases hxy : x = y
        · subst hxy; simp
        · have : (x == y) = false := by simpa using hxy
          simp [this]; intro _ h2; exact hxy h2.symm
      | succ j =>
        simp only [levRow.go, List.getElem?_cons_succ]
        rw [ih ys _ up j h]

theorem levRow_go_length (x : Nat) : ∀ (ups : List Nat) (ys : Str) (left diag : Nat), ups.length = ys.length →
    (levRow.go x left diag ups ys).length = ys.length := by
  intro ups
  induction ups with
  | nil => intro ys _ _ h; cases ys <;> simp_all [levRow.go]
  | cons up ups ih =>
    intro ys left diag h
    cases ys with
    | nil => simp at h
    | cons y ys => simp only [List.length_cons, Nat.add_right_cancel_iff] at h; simp [levRow.go, ih ys _ _ h]

theorem levRow_length (prev : List Nat) (x : Nat) (t : Str) (i : Nat) (h : prev.length = t.length + 1) :
    (levRow prev x t i).length = t.length + 1 := by
  cases prev with
  | nil => simp at h
  | cons d0 rest =>
    simp only [List.length_cons, Nat.add_right_cancel_iff] at h
    simp [levRow, levRow_go_length x rest t _ _ h]

/-- zero pattern of the next row: never at column 0 (row index > 0); at column `j+1` iff the previous row is 0 at
    column `j` and `t[j] = x` -/
theorem levRow_zero (prev : List Nat) (x : Nat) (t : Str) (i : Nat) (h : prev.length = t.length + 1) (j : Nat) :
    (levRow prev x t (i + 1))[j]? = some 0 ↔ ∃ j', j = j' + 1 ∧ prev[j']? = some 0 ∧ t[j']? = some x := by
  cases prev with
  | nil => simp at h
  | cons d0 rest =>
    simp only [List.length_cons, Nat.add_right_cancel_iff] at h
    cases j with
    | zero => simp [levRow]
    | succ j =>
      simp only [levRow, List.getElem?_cons_succ]
      rw [levRow_go_zero x rest t _ _ j h]
      simp

theorem take_succ_eq_append {α : Type} (t : List α) (i : Nat) (x : α) (h : t[i]? = some x) :
    t.take (i + 1) = t.take i ++ [x] := by
  rw [List.take_add_one, h]; rfl

theorem levRows_zero (t : Str) : ∀ (xs : Str) (prev : List Nat) (i : Nat) (sdone : Str),
    prev.length = t.length + 1 → sdone.length = i →
    (∀ j, prev[j]? = some 0 ↔ (j = i ∧ sdone = t.take i)) →
    (levRows t prev i xs).length = t.length + 1 ∧
    ∀ j, (levRows t prev i xs)[j]? = some 0 ↔ (j = i + xs.length ∧ sdone ++ xs = t.take j) := by
  intro xs
  induction xs with
  | nil =>
    intro prev i sdone hl hs hz
    refine ⟨by simpa [levRows] using hl, fun j => ?_⟩
    simp only [levRows, List.length_nil, Nat.add_zero, List.append_nil]
    rw [hz j]; constructor <;> (rintro ⟨rfl, h⟩; exact ⟨rfl, h⟩)
  | cons x xs ih =>
    intro prev i sdone hl hs hz
    simp only [levRows]
    have := ih (levRow prev x t (i + 1)) (i + 1) (sdone ++ [x]) (levRow_length _ _ _ _ hl) (by simp [hs]) ?_
    · refine ⟨this.1, fun j => ?_⟩
      rw [this.2 j]; simp; omega
    · intro j
      rw [levRow_zero prev x t i hl j]
      constructor
      · rintro ⟨j', rfl, h1, h2⟩
        obtain ⟨rfl, h3⟩ := (hz j').1 h1
        refine ⟨rfl, ?_⟩
        rw [take_succ_eq_append t j' x h2, h3]
      · rintro ⟨rfl, h3⟩
        have hlen : i + 1 ≤ t.length := by
          have := congrArg List.length h3
          simp [hs] at this; omega
        have hx : t[i]? = some x := by
          have h4 := congrArg (fun l => l[i]?) h3
          simp [hs] at h4
          exact h4.symm
        refine ⟨i, rfl, (hz i).2 ⟨rfl, ?_⟩, hx⟩
        rw [take_succ_eq_append t i x hx] at h3
        exact List.append_cancel_right h3

/-- the Levenshtein table's last cell is 0 exactly for equal strings -/
theorem lev_eq_zero_iff (s t : Str) : lev s t = 0 ↔ s = t := by
  have h := levRows_zero t s (List.range (t.length + 1)) 0 [] (by simp) rfl (by
    intro j
    by_cases hj : j < t.length + 1
    · simp [List.getElem?_range hj]
    · simp [List.getElem?_eq_none (l := List.range (t.length + 1)) (by simpa using hj)]; omega)
  obtain ⟨hl, hz⟩ := h
  unfold lev
  have hlast : (levRows t (List.range (t.length + 1)) 0 s).getLast? = (levRows t (List.range (t.length + 1)) 0 s)[t.length]? := by
    rw [List.getLast?_eq_getElem?, hl]; simp
  rw [hlast]
  have hsome : t.length < (levRows t (List.range (t.length + 1)) 0 s).length := by omega
  have := hz t.length
  rw [List.getElem?_eq_getElem hsome] at this ⊢
  simp only [Option.some.injEq, List.nil_append, Nat.zero_add, List.take_length] at this
  simp only [Option.getD_some]
  rw [this]
  constructor
  · exact fun h => h.2
  · intro h; exact ⟨by rw [h], h⟩

theorem lev_self (s : Str) : lev s s = 0 := (lev_eq_zero_iff s s).2 rfl

theorem lev_zero {s t : Str} (h : lev s t = 0) : s = t := (lev_eq_zero_iff s t).1 h

example : lev [1, 2, 3] [1, 2, 3] = 0 ∧ lev [1, 2, 3] [1, 3] = 1 := by decide

end GtModel

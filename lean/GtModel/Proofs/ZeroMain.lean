/-
  Well-formed trees (distinct keys within every mapping) and the main induction:
  the fully refined script of `from.edits(to)` has cost 0 exactly when `from == to`.
-/
import GtModel.Proofs.ZeroSeq
import GtModel.Proofs.ZeroDict

namespace GtModel

/-! ### well-formedness: keys are distinct within every mapping (what `build_tree` produces from parsed documents) -/

mutual
def Tree.WF : Tree → Bool
  | .leaf _ => true
  | .list cs => wfL cs
  | .dict kvs => decide ((kvs.map Prod.fst).Nodup) && wfKV kvs
  | .fdict kvs => decide ((kvs.map Prod.fst).Nodup) && wfKV kvs
def wfL : List Tree → Bool
  | [] => true
  | c :: cs => c.WF && wfL cs
def wfKV : List (Str × Tree) → Bool
  | [] => true
  | (_, v) :: rest => v.WF && wfKV rest
end

theorem wfL_iff : ∀ (cs : List Tree), wfL cs = true ↔ ∀ c ∈ cs, c.WF = true := by
  intro cs
  induction cs with
  | nil => simp [wfL]
  | cons c cs ih => simp [wfL, ih]

theorem wfKV_iff : ∀ (kvs : List (Str × Tree)), wfKV kvs = true ↔ ∀ p ∈ kvs, p.2.WF = true := by
  intro kvs
  induction kvs with
  | nil => simp [wfKV]
  | cons p kvs ih => obtain ⟨k, v⟩ := p; simp [wfKV, ih]

theorem getD_map_attach_zipIdx {α β : Type} (as : List α) (F : {x // x ∈ as} × Nat → β) (d : β) (i : Nat)
    (hi : i < as.length) : (as.attach.zipIdx.map F).getD i d = F (⟨as[i], List.getElem_mem hi⟩, i) := by
  simp [List.getD_eq_getElem?_getD, hi]

theorem getD_map_zipIdx {α β : Type} (as : List α) (F : α × Nat → β) (d : β) (i : Nat)
    (hi : i < as.length) : (as.zipIdx.map F).getD i d = F (as[i], i) := by
  simp [List.getD_eq_getElem?_getD, hi]

theorem getD_eq_getElem' {α : Type} (l : List α) (d : α) {i : Nat} (h : i < l.length) : l.getD i d = l[i] := by
  simp [List.getD_eq_getElem?_getD, h]

theorem size_pos_of_allPositive {cs : List Tree} (h : allPositive cs = true) : ∀ c ∈ cs, 0 < c.size := by
  intro c hc
  simp only [allPositive, List.all_eq_true, decide_eq_true_eq] at h
  exact h c hc

theorem cost_zero_imp_eq (o : Opts) (orc : Oracle) : ∀ (n : Nat) (f : Tree), sizeOf f ≤ n →
    ∀ (fp tp : List Nat) (t : Tree), f.WF = true → t.WF = true →
      (edits o orc fp tp f t).cost = 0 → f.eq t = true := by
  intro n
  induction n with
  | zero => intro f h; cases f <;> simp at h
  | succ n ih =>
    intro f hn fp tp t hf ht h
    cases f with
    | leaf a =>
      rw [edits] at h
      exact (leafEdits_cost_zero_iff a t).1 h
    | list fcs =>
      cases t with
      | list tcs =>
        rw [edits] at h
        simp only [Tree.eq]
        split at h
        · assumption
        · simp only [Tree.WF, wfL_iff] at hf ht
          extract_lets tbl pen at h
          have H : ∀ i j, i < fcs.length → j < tcs.length →
              ((tbl.getD i []).getD j (mkMatch 0)).cost = 0 → (fcs.getD i dT).eq (tcs.getD j dT) = true := by
            intro i j hi hj hc
            simp only [tbl] at hc
            rw [getD_map_attach_zipIdx _ _ _ _ hi] at hc
            dsimp only at hc
            rw [getD_map_zipIdx _ _ _ _ hj] at hc
            dsimp only at hc
            rw [getD_eq_getElem' _ _ hi, getD_eq_getElem' _ _ hj]
            have hm := List.getElem_mem hi
            have hs := List.sizeOf_lt_of_mem hm
            simp only [Tree.list.sizeOf_spec] at hn
            exact ih _ (by omega) _ _ _ (hf _ hm) (ht _ (List.getElem_mem hj)) hc
          split at h
          · exact fixedScript_cost_zero fcs tcs _ (fun i hi hj => H i i hi hj) h
          · refine edScript_cost_zero fcs tcs _ _ ?_ ?_ H h
            · intro c hc
              simp only [pen]
              split
              · rename_i hp
                simp only [Bool.and_eq_true] at hp
                have := size_pos_of_allPositive hp.1.2 c hc; omega
              · omega
            · intro c hc
              simp only [pen]
              split
              · rename_i hp
                simp only [Bool.and_eq_true] at hp
                have := size_pos_of_allPositive hp.2 c hc; omega
              · omega
      | leaf b => rw [edits] at h; simp at h; simp
      | dict kvs => rw [edits] at h; simp at h; simp
      | fdict kvs => rw [edits] at h; simp at h; simp
    | dict fkv =>
      cases t with
      | dict tkv =>
        rw [edits] at h
        simp only [Tree.eq]
        split at h
        · assumption
        · simp only [Tree.WF, Bool.and_eq_true, decide_eq_true_eq, wfKV_iff] at hf ht
          extract_lets vtbl at h
          have H : ∀ i j, i < fkv.length → j < tkv.length →
              ((vtbl.getD i []).getD j (mkMatch 0)).cost = 0 → (fkv.getD i dKV).2.eq (tkv.getD j dKV).2 = true := by
            intro i j hi hj hc
            simp only [vtbl] at hc
            rw [getD_map_attach_zipIdx _ _ _ _ hi] at hc
            dsimp only at hc
            rw [getD_map_zipIdx _ _ _ _ hj] at hc
            dsimp only at hc
            rw [getD_eq_getElem' _ _ hi, getD_eq_getElem' _ _ hj]
            have hm := List.getElem_mem hi
            have hs := List.sizeOf_lt_of_mem hm
            have hs2 := sizeOf_snd_lt fkv[i]
            simp only [Tree.dict.sizeOf_spec] at hn
            exact ih _ (by omega) _ _ _ (hf.2 _ hm) (ht.2 _ (List.getElem_mem hj)) hc
          have := msScript_cost_zero o.amk orc fp tp fkv tkv _ hf.1 ht.1 H h
          simp [this.1, this.2]
      | leaf b => rw [edits] at h; simp at h; simp
      | list cs => rw [edits] at h; simp at h; simp
      | fdict kvs => rw [edits] at h; simp at h; simp
    | fdict fkv =>
      cases t with
      | fdict tkv =>
        rw [edits] at h
        simp only [Tree.eq]
        split at h
        · assumption
        · simp only [Tree.WF, Bool.and_eq_true, decide_eq_true_eq, wfKV_iff] at hf ht
          extract_lets vtbl at h
          have H : ∀ i j, i < fkv.length → j < tkv.length →
              ((vtbl.getD i []).getD j (mkMatch 0)).cost = 0 → (fkv.getD i dKV).2.eq (tkv.getD j dKV).2 = true := by
            intro i j hi hj hc
            simp only [vtbl] at hc
            rw [getD_map_attach_zipIdx _ _ _ _ hi] at hc
            dsimp only at hc
            rw [getD_map_zipIdx _ _ _ _ hj] at hc
            dsimp only at hc
            rw [getD_eq_getElem' _ _ hi, getD_eq_getElem' _ _ hj]
            have hm := List.getElem_mem hi
            have hs := List.sizeOf_lt_of_mem hm
            have hs2 := sizeOf_snd_lt fkv[i]
            simp only [Tree.fdict.sizeOf_spec] at hn
            exact ih _ (by omega) _ _ _ (hf.2 _ hm) (ht.2 _ (List.getElem_mem hj)) hc
          have := fkScript_cost_zero fkv tkv _ hf.1 ht.1 H h
          simp [this.1, this.2]
      | leaf b => rw [edits] at h; simp at h; simp
      | list cs => rw [edits] at h; simp at h; simp
      | dict kvs => rw [edits] at h; simp at h; simp

theorem eq_imp_cost_zero (o : Opts) (orc : Oracle) (fp tp : List Nat) (f t : Tree) (h : f.eq t = true) :
    (edits o orc fp tp f t).cost = 0 := by
  cases f with
  | leaf a => rw [edits]; exact (leafEdits_cost_zero_iff a t).2 h
  | list fcs =>
    cases t with
    | list tcs => rw [edits]; simp only [Tree.eq] at h; simp [h]
    | leaf b => simp [Tree.eq] at h
    | dict kvs => simp [Tree.eq] at h
    | fdict kvs => simp [Tree.eq] at h
  | dict fkv =>
    cases t with
    | dict tkv => rw [edits]; simp only [Tree.eq] at h; simp [h]
    | leaf b => simp [Tree.eq] at h
    | list cs => simp [Tree.eq] at h
    | fdict kvs => simp [Tree.eq] at h
  | fdict fkv =>
    cases t with
    | fdict tkv => rw [edits]; simp only [Tree.eq] at h; simp [h]
    | leaf b => simp [Tree.eq] at h
    | list cs => simp [Tree.eq] at h
    | dict kvs => simp [Tree.eq] at h

end GtModel

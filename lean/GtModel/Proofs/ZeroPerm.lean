/-
  Key-order permutations of documents (`Doc.PermEq`) and what `build_tree` makes of them.
-/
import GtModel.Proofs.ZeroBuild

namespace GtModel

mutual
/-- `PermEq a b`: `b` is `a` with the pairs of any objects, at any depth, arbitrarily re-ordered
    (list order is kept). -/
inductive Doc.PermEq : Doc → Doc → Prop
  | scalar (s : Scalar) : Doc.PermEq (.scalar s) (.scalar s)
  | list {as bs : List Doc} : PermEqL as bs → Doc.PermEq (.list as) (.list bs)
  /-- re-order (`cs ~ bs`) after rewriting the values in place (`as → cs`) -/
  | obj {as cs bs : List (Str × Doc)} : PermEqKV as cs → List.Perm cs bs → Doc.PermEq (.obj as) (.obj bs)
/-- element-wise, same order -/
inductive PermEqL : List Doc → List Doc → Prop
  | nil : PermEqL [] []
  | cons {a b : Doc} {as bs : List Doc} : Doc.PermEq a b → PermEqL as bs → PermEqL (a :: as) (b :: bs)
/-- pair-wise, same keys, same order -/
inductive PermEqKV : List (Str × Doc) → List (Str × Doc) → Prop
  | nil : PermEqKV [] []
  | cons {k : Str} {v w : Doc} {as bs : List (Str × Doc)} :
      Doc.PermEq v w → PermEqKV as bs → PermEqKV ((k, v) :: as) ((k, w) :: bs)
end

/-! ### `ake = true`: the built trees are identical -/

theorem permEqL_map_eq (f : Doc → Tree) : ∀ (as bs : List Doc), PermEqL as bs →
    (∀ a ∈ as, ∀ b, Doc.PermEq a b → f a = f b) → as.map f = bs.map f := by
  intro as
  induction as with
  | nil => intro bs h _; cases h; rfl
  | cons a as ih =>
    intro bs h hf
    cases h with
    | cons h1 h2 =>
      simp only [List.map_cons]
      rw [hf a List.mem_cons_self _ h1, ih _ h2 (fun a ha b hb => hf a (List.mem_cons_of_mem _ ha) b hb)]

theorem permEqKV_map_eq (f : Doc → Tree) : ∀ (as cs : List (Str × Doc)), PermEqKV as cs →
    (∀ p ∈ as, ∀ b, Doc.PermEq p.2 b → f p.2 = f b) →
    as.map (fun p => (p.1, f p.2)) = cs.map (fun p => (p.1, f p.2)) := by
  intro as
  induction as with
  | nil => intro cs h _; cases h; rfl
  | cons a as ih =>
    intro cs h hf
    cases h with
    | cons h1 h2 =>
      simp only [List.map_cons]
      rw [hf _ List.mem_cons_self _ h1, ih _ h2 (fun a ha b hb => hf a (List.mem_cons_of_mem _ ha) b hb)]

theorem permEqKV_keys : ∀ (as cs : List (Str × Doc)), PermEqKV as cs → as.map Prod.fst = cs.map Prod.fst := by
  intro as
  induction as with
  | nil => intro cs h; cases h; rfl
  | cons a as ih =>
    intro cs h
    cases h with
    | cons h1 h2 => simp only [List.map_cons]; rw [ih _ h2]

theorem build_perm_dict_aux (o : Opts) (hake : o.ake = true) : ∀ (n : Nat) (a : Doc), sizeOf a ≤ n → ∀ (b : Doc),
    Doc.PermEq a b → a.distinctKeys = true → build o a = build o b := by
  intro n
  induction n with
  | zero => intro a h; cases a <;> simp at h
  | succ n ih =>
    intro a hn b h hd
    cases h with
    | scalar s => rfl
    | list hL =>
      rename_i as bs
      simp only [Doc.distinctKeys, dkL_iff] at hd
      simp only [build, buildL_eq_map]
      rw [permEqL_map_eq (build o) as bs hL (fun a ha b hb => by
        have := sizeOf_lt_list ha
        exact ih a (by omega) b hb (hd a ha))]
    | obj hKV hperm =>
      rename_i as cs bs
      simp only [Doc.distinctKeys, Bool.and_eq_true, decide_eq_true_eq, dkKV_iff] at hd
      simp only [build, hake, if_true, buildKV_eq_map]
      rw [permEqKV_map_eq (build o) as cs hKV (fun p hp b hb => by
        have := sizeOf_val_lt_obj hp
        exact ih p.2 (by omega) b hb (hd.2 p hp))]
      congr 1
      apply sortKV_perm_eq
      · rw [List.map_map]
        have : (Prod.fst ∘ fun (p : Str × Doc) => (p.1, build o p.2)) = Prod.fst := rfl
        rw [this, ← permEqKV_keys as cs hKV]; exact hd.1
      · exact hperm.map _

/-! ### every option set: the built trees compare equal -/

theorem permEqL_eqL (f : Doc → Tree) : ∀ (as bs : List Doc), PermEqL as bs →
    (∀ a ∈ as, ∀ b, Doc.PermEq a b → (f a).eq (f b) = true) → eqL (as.map f) (bs.map f) = true := by
  intro as
  induction as with
  | nil => intro bs h _; cases h; simp [eqL]
  | cons a as ih =>
    intro bs h hf
    cases h with
    | cons h1 h2 =>
      simp only [List.map_cons, eqL, Bool.and_eq_true]
      exact ⟨hf a List.mem_cons_self _ h1, ih _ h2 (fun a ha b hb => hf a (List.mem_cons_of_mem _ ha) b hb)⟩

theorem permEqKV_rel (f : Doc → Tree) : ∀ (as cs : List (Str × Doc)), PermEqKV as cs →
    (∀ p ∈ as, ∀ b, Doc.PermEq p.2 b → (f p.2).eq (f b) = true) →
    as.length = cs.length ∧ ∀ p ∈ as, ∃ q ∈ cs, p.1 = q.1 ∧ (f p.2).eq (f q.2) = true := by
  intro as
  induction as with
  | nil => intro cs h _; cases h; simp
  | cons a as ih =>
    intro cs h hf
    cases h with
    | cons h1 h2 =>
      rename_i k v w cs'
      obtain ⟨hl, hr⟩ := ih _ h2 (fun a ha b hb => hf a (List.mem_cons_of_mem _ ha) b hb)
      refine ⟨by simp [hl], ?_⟩
      intro p hp
      simp only [List.mem_cons] at hp
      rcases hp with rfl | hp
      · exact ⟨(k, w), List.mem_cons_self, rfl, hf _ List.mem_cons_self _ h1⟩
      · obtain ⟨q, hq, e⟩ := hr p hp
        exact ⟨q, List.mem_cons_of_mem _ hq, e⟩

theorem perm_equal_aux (o : Opts) : ∀ (n : Nat) (a : Doc), sizeOf a ≤ n → ∀ (b : Doc),
    Doc.PermEq a b → (build o a).eq (build o b) = true := by
  intro n
  induction n with
  | zero => intro a h; cases a <;> simp at h
  | succ n ih =>
    intro a hn b h
    cases h with
    | scalar s => simp [build, Tree.eq, Scalar.eq_refl]
    | list hL =>
      rename_i as bs
      simp only [build, buildL_eq_map, Tree.eq]
      exact permEqL_eqL (build o) as bs hL (fun a ha b hb => by
        have := sizeOf_lt_list ha
        exact ih a (by omega) b hb)
    | obj hKV hperm =>
      rename_i as cs bs
      obtain ⟨hl, hr⟩ := permEqKV_rel (build o) as cs hKV (fun p hp b hb => by
        have := sizeOf_val_lt_obj hp
        exact ih p.2 (by omega) b hb)
      have key : kvRel (build.buildKV o as) (build.buildKV o bs) := by
        unfold kvRel
        rw [buildKV_eq_map, buildKV_eq_map]
        refine ⟨by simp [hl, hperm.length_eq], ?_⟩
        intro p' hp'
        obtain ⟨p, hp, rfl⟩ := List.mem_map.1 hp'
        obtain ⟨q, hq, e, he⟩ := hr p hp
        exact ⟨(q.1, build o q.2), List.mem_map_of_mem (f := fun p => (p.1, build o p.2)) (hperm.subset hq), e, he⟩
      simp only [build]
      split
      · rw [dict_eq_iff, kvRel_sortKV]; exact key
      · rw [fdict_eq_iff]; exact key

/-! ### key-order permutations keep keys distinct -/

theorem permEqKV_right (as cs : List (Str × Doc)) (h : PermEqKV as cs) :
    ∀ q ∈ cs, ∃ p ∈ as, p.1 = q.1 ∧ Doc.PermEq p.2 q.2 := by
  induction as generalizing cs with
  | nil => cases h; simp
  | cons a as ih =>
    cases h with
    | cons h1 h2 =>
      intro q hq
      simp only [List.mem_cons] at hq
      rcases hq with rfl | hq
      · exact ⟨_, List.mem_cons_self, rfl, h1⟩
      · obtain ⟨p, hp, e⟩ := ih _ h2 q hq
        exact ⟨p, List.mem_cons_of_mem _ hp, e⟩

theorem permEqL_right (as bs : List Doc) (h : PermEqL as bs) : ∀ b ∈ bs, ∃ a ∈ as, Doc.PermEq a b := by
  induction as generalizing bs with
  | nil => cases h; simp
  | cons a as ih =>
    cases h with
    | cons h1 h2 =>
      intro q hq
      simp only [List.mem_cons] at hq
      rcases hq with rfl | hq
      · exact ⟨_, List.mem_cons_self, h1⟩
      · obtain ⟨p, hp, e⟩ := ih _ h2 q hq
        exact ⟨p, List.mem_cons_of_mem _ hp, e⟩

theorem permEq_distinctKeys_aux : ∀ (n : Nat) (a : Doc), sizeOf a ≤ n → ∀ (b : Doc),
    Doc.PermEq a b → a.distinctKeys = true → b.distinctKeys = true := by
  intro n
  induction n with
  | zero => intro a h; cases a <;> simp at h
  | succ n ih =>
    intro a hn b h hd
    cases h with
    | scalar s => rfl
    | list hL =>
      rename_i as bs
      simp only [Doc.distinctKeys, dkL_iff] at hd ⊢
      intro b hb
      obtain ⟨a, ha, hab⟩ := permEqL_right as bs hL b hb
      have := sizeOf_lt_list ha
      exact ih a (by omega) b hab (hd a ha)
    | obj hKV hperm =>
      rename_i as cs bs
      simp only [Doc.distinctKeys, Bool.and_eq_true, decide_eq_true_eq, dkKV_iff] at hd ⊢
      constructor
      · have : (cs.map Prod.fst).Nodup := by rw [← permEqKV_keys as cs hKV]; exact hd.1
        exact (hperm.map Prod.fst).nodup this
      · intro q hq
        obtain ⟨p, hp, -, hpq⟩ := permEqKV_right as cs hKV q (hperm.symm.subset hq)
        have := sizeOf_val_lt_obj hp
        exact ih p.2 (by omega) q.2 hpq (hd.2 p hp)

theorem Doc.PermEq.distinctKeys {a b : Doc} (h : Doc.PermEq a b) (hd : a.distinctKeys = true) :
    b.distinctKeys = true := permEq_distinctKeys_aux _ a (Nat.le_refl _) b h hd

end GtModel

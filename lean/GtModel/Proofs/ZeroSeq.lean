/-
  Leaves and sequences: `leafEdits`, `fixedScript`, `edScript` have cost 0 only for equal operands
  (the table of child scripts is abstract: only "cell cost 0 ⇒ the two children are equal" is assumed).
-/
import GtModel.Proofs.ZeroStr
import GtModel.Proofs.ZeroLev

namespace GtModel
open GtModel.EditMatrix (sharedPrefixLen trimLens middle solve cellAt solve_zero)

/-! ### leaves -/

theorem leafLeaf_cost_zero_iff (a b : Scalar) : (leafLeaf a b).cost = 0 ↔ a.eq b = true := by
  simp only [leafLeaf, mkMatch_costZ]
  constructor
  · intro h
    split at h
    · omega
    · rename_i hc
      simp only [h, beq_self_eq_true, Bool.true_and, Bool.not_eq_true'] at hc h
      simpa using hc
  · intro h
    have e : a = b := (Scalar.eq_iff a b).1 h
    subst e
    simp [lev_self, Scalar.eq_refl]

theorem leafEdits_cost_zero_iff (a : Scalar) (t : Tree) : (leafEdits a t).cost = 0 ↔ (Tree.leaf a).eq t = true := by
  cases t with
  | leaf b =>
    cases a <;> cases b <;>
      simp [leafEdits, Tree.eq, leafLeaf_cost_zero_iff, strEdits_cost_zero_iff, Scalar.eq]
  | list cs => cases a <;> simp [leafEdits, Tree.eq]
  | dict kvs => cases a <;> simp [leafEdits, Tree.eq]
  | fdict kvs => cases a <;> simp [leafEdits, Tree.eq]

/-! ### tables -/

theorem cellAt_tab (f : Nat → Nat → Nat) (m n r c : Nat) (hr : r < m) (hc : c < n) :
    cellAt ((List.range m).map fun r => (List.range n).map fun c => f r c) r c = f r c := by
  simp [cellAt, List.getD_eq_getElem?_getD, hr, hc]

/-! ### `FixedLengthSequenceEdit` -/

theorem fixedScript_cost_zero (fcs tcs : List Tree) (tbl : List (List Script))
    (H : ∀ i, i < fcs.length → i < tcs.length →
      ((tbl.getD i []).getD i (mkMatch 0)).cost = 0 → (fcs.getD i dT).eq (tcs.getD i dT) = true)
    (h : (fixedScript fcs tcs tbl).cost = 0) : eqL fcs tcs = true := by
  simp only [fixedScript, mkCompound_costZ, sumCosts_appendZ, Nat.add_eq_zero_iff, sumCosts_eq_zero,
    List.mem_map, List.mem_range, forall_exists_index, and_imp] at h
  obtain ⟨⟨hp, hr⟩, hi⟩ := h
  have h1 : fcs.length - Nat.min fcs.length tcs.length = 0 := by
    by_cases h0 : 0 < fcs.length - Nat.min fcs.length tcs.length
    · have := hr _ 0 h0 rfl; simp at this
    · omega
  have h2 : tcs.length - Nat.min fcs.length tcs.length = 0 := by
    by_cases h0 : 0 < tcs.length - Nat.min fcs.length tcs.length
    · have := hi _ 0 h0 rfl; simp at this
    · omega
  have hmin : Nat.min fcs.length tcs.length = min fcs.length tcs.length := rfl
  rw [hmin] at h1 h2 hp
  have hlen : fcs.length = tcs.length := by omega
  rw [eqL_iff]
  refine ⟨hlen, fun i hi' => H i hi' (by omega) ?_⟩
  have := hp _ i (by omega) rfl
  simpa using this

/-! ### `EditDistance` over the children -/

theorem edScript_cost_zero (fcs tcs : List Tree) (pen : Nat) (tbl : List (List Script))
    (hpf : ∀ c ∈ fcs, 0 < c.size + pen) (hpt : ∀ c ∈ tcs, 0 < c.size + pen)
    (H : ∀ i j, i < fcs.length → j < tcs.length →
      ((tbl.getD i []).getD j (mkMatch 0)).cost = 0 → (fcs.getD i dT).eq (tcs.getD j dT) = true)
    (h : (edScript fcs tcs pen tbl).cost = 0) : eqL fcs tcs = true := by
  simp only [edScript, mk_cost] at h
  have hz := solve_zero _ _ _ (by
      intro x hx
      simp only [List.mem_map] at hx
      obtain ⟨c, hc, rfl⟩ := hx
      exact hpf c (mem_middle hc)) (by
      intro x hx
      simp only [List.mem_map] at hx
      obtain ⟨c, hc, rfl⟩ := hx
      exact hpt c (mem_middle hc)) h
  obtain ⟨hl, -, hc⟩ := hz
  simp only [List.length_map] at hl hc
  have la := trim_le_left fcs tcs
  have lb := trim_le_right fcs tcs
  have hall := trim_all dT fcs tcs hl.symm (fun i hi => by
    have hi2 : i < (middle tcs (trimLens fcs tcs)).length := by omega
    have := hc i hi
    rw [cellAt_tab (fun r c => ((tbl.getD (c + (trimLens fcs tcs).1) []).getD (r + (trimLens fcs tcs).1) (mkMatch 0)).cost)
      _ _ i i hi2 hi] at this
    rw [middle_lengthZ] at hi hi2
    have := H _ _ (by omega) (by omega) this
    rw [middle_getD dT fcs _ i hi, middle_getD dT tcs _ i hi2]
    exact this)
  rw [eqL_iff]
  exact hall

end GtModel

/-
  `strLt` (Python's `<` on `str`, as lists of code points) is a strict total order; `sortKV` (the model of
  `sorted(...)` in `DictNode.from_dict`) returns the unique strictly key-sorted permutation of its input when the
  keys are distinct.
-/
import GtModel.Model.Tree

namespace GtModel

/-! ### `strLt` is a strict total order -/

theorem strLt_irrefl : ∀ (a : Str), strLt a a = false := by
  intro a
  induction a with
  | nil => rfl
  | cons x a ih => simp [strLt, ih]

theorem strLt_trans : ∀ (a b c : Str), strLt a b = true → strLt b c = true → strLt a c = true := by
  intro a
  induction a with
  | nil =>
    intro b c h1 h2
    cases b with
    | nil => simp [strLt] at h1
    | cons y b => cases c with
      | nil => simp [strLt] at h2
      | cons z c => simp [strLt]
  | cons x a ih =>
    intro b c h1 h2
    cases b with
    | nil => simp [strLt] at h1
    | cons y b =>
      cases c with
      | nil => simp [strLt] at h2
      | cons z c =>
        simp only [strLt] at h1 h2 ⊢
        by_cases hxy : x < y
        · by_cases hyz : y < z
          · have : x < z := by omega
            simp [this]
          · by_cases hzy : z < y
            · simp [hyz, hzy] at h2
            · have : x < z := by omega
              simp [this]
        · by_cases hyx : y < x
          · simp [hxy, hyx] at h1
          · have exy : x = y := by omega
            subst exy
            simp only [hxy, if_false] at h1
            by_cases hxz : x < z
            · simp [hxz]
            · by_cases hzx : z < x
              · simp [hxz, hzx] at h2
              · simp only [hxz, hzx, if_false] at h2 ⊢
                exact ih b c h1 h2

theorem strLt_total : ∀ (a b : Str), a ≠ b → strLt a b = true ∨ strLt b a = true := by
  intro a
  induction a with
  | nil => intro b h; cases b with
    | nil => exact absurd rfl h
    | cons y b => simp [strLt]
  | cons x a ih =>
    intro b h
    cases b with
    | nil => simp [strLt]
    | cons y b =>
      simp only [strLt]
      by_cases hxy : x < y
      · simp [hxy]
      · by_cases hyx : y < x
        · simp [hyx]
        · have exy : x = y := by omega
          subst exy
          simp only [hxy, if_false]
          exact ih b (fun e => h (by rw [e]))

theorem strLt_asymm (a b : Str) (h1 : strLt a b = true) (h2 : strLt b a = true) : False := by
  have := strLt_trans a b a h1 h2
  rw [strLt_irrefl] at this
  exact Bool.false_ne_true this

theorem strLt_ne {a b : Str} (h : strLt a b = true) : a ≠ b := by
  intro e; subst e; rw [strLt_irrefl] at h; exact Bool.false_ne_true h

/-! ### `sortKV` -/

section SortSec
variable {α : Type}

theorem insertKV_permZ (k : Str) (v : α) : ∀ (l : List (Str × α)), (insertKV k v l).Perm ((k, v) :: l) := by
  intro l
  induction l with
  | nil => simp [insertKV]
  | cons p l ih =>
    obtain ⟨k', v'⟩ := p
    simp only [insertKV]
    split
    · exact List.Perm.refl _
    · exact (List.Perm.cons _ ih).trans (List.Perm.swap _ _ _)

theorem sortKV_permZ : ∀ (l : List (Str × α)), (sortKV l).Perm l := by
  intro l
  induction l with
  | nil => simp [sortKV]
  | cons p l ih =>
    obtain ⟨k, v⟩ := p
    simp only [sortKV]
    exact (insertKV_permZ k v _).trans (List.Perm.cons _ ih)

/-- strictly increasing keys -/
def SortedKV (l : List (Str × α)) : Prop := l.Pairwise (fun p q => strLt p.1 q.1 = true)

theorem insertKV_sorted (k : Str) (v : α) : ∀ (l : List (Str × α)), SortedKV l → (∀ p ∈ l, p.1 ≠ k) →
    SortedKV (insertKV k v l) := by
  intro l
  induction l with
  | nil => intro _ _; simp [insertKV, SortedKV]
  | cons p l ih =>
    intro hs hk
    obtain ⟨k', v'⟩ := p
    simp only [insertKV]
    simp only [SortedKV, List.pairwise_cons] at hs
    split
    · rename_i hlt
      simp only [SortedKV, List.pairwise_cons]
      refine ⟨?_, hs⟩
      intro q hq
      simp only [List.mem_cons] at hq
      rcases hq with rfl | hq
      · exact hlt
      · exact strLt_trans _ _ _ hlt (hs.1 q hq)
    · rename_i hlt
      have hne : k' ≠ k := hk (k', v') (by simp)
      have hlt' : strLt k' k = true := by
        rcases strLt_total k' k hne with h | h
        · exact h
        · exact absurd h hlt
      have ih' := ih hs.2 (fun p hp => hk p (by simp [hp]))
      simp only [SortedKV, List.pairwise_cons]
      refine ⟨?_, ih'⟩
      intro q hq
      have := (insertKV_permZ k v l).subset hq
      simp only [List.mem_cons] at this
      rcases this with rfl | hq
      · exact hlt'
      · exact hs.1 q hq

theorem sortKV_sorted : ∀ (l : List (Str × α)), (l.map Prod.fst).Nodup → SortedKV (sortKV l) := by
  intro l
  induction l with
  | nil => intro _; simp [sortKV, SortedKV]
  | cons p l ih =>
    intro hn
    obtain ⟨k, v⟩ := p
    simp only [List.map_cons, List.nodup_cons, List.mem_map, not_exists, not_and] at hn
    simp only [sortKV]
    refine insertKV_sorted k v _ (ih hn.2) ?_
    intro p hp e
    exact hn.1 p ((sortKV_permZ l).subset hp) e

/-- two strictly key-sorted lists that are permutations of each other are equal -/
theorem sorted_perm_eq {l₁ l₂ : List (Str × α)} (h₁ : SortedKV l₁) (h₂ : SortedKV l₂) (hp : l₁.Perm l₂) :
    l₁ = l₂ :=
  List.Perm.eq_of_pairwise (le := fun (p q : Str × α) => strLt p.1 q.1 = true)
    (fun a b _ _ hab hba => (strLt_asymm a.1 b.1 hab hba).elim) h₁ h₂ hp

/-- `sorted` does not depend on the order of its input when keys are distinct -/
theorem sortKV_perm_eq {l₁ l₂ : List (Str × α)} (hn : (l₁.map Prod.fst).Nodup) (hp : l₁.Perm l₂) :
    sortKV l₁ = sortKV l₂ := by
  have hn2 : (l₂.map Prod.fst).Nodup := (hp.map Prod.fst).nodup hn
  exact sorted_perm_eq (sortKV_sorted l₁ hn) (sortKV_sorted l₂ hn2)
    ((sortKV_permZ l₁).trans (hp.trans (sortKV_permZ l₂).symm))

theorem sortKV_length (l : List (Str × α)) : (sortKV l).length = l.length := (sortKV_permZ l).length_eq

theorem mem_sortKV {l : List (Str × α)} {p : Str × α} : p ∈ sortKV l ↔ p ∈ l := (sortKV_permZ l).mem_iff

theorem sortKV_keys_nodup {l : List (Str × α)} (h : (l.map Prod.fst).Nodup) : ((sortKV l).map Prod.fst).Nodup :=
  ((sortKV_permZ l).map Prod.fst).symm.nodup h

end SortSec

example : sortKV [([98], 1), ([97], 2), ([97, 0], 3)] = sortKV [([97, 0], 3), ([98], 1), ([97], 2)] := by decide

end GtModel

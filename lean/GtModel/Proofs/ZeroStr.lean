/-
  `StringNode.edits`: the string edit has cost 0 exactly for equal strings.
-/
import GtModel.Proofs.ZeroBasic

namespace GtModel
open GtModel.EditMatrix (sharedPrefixLen trimLens middle solve cellAt charCells ones solve_zero)

theorem cellAt_charCellsZ (ma mb : Str) (r c : Nat) (hr : r < mb.length) (hc : c < ma.length) :
    cellAt (charCells ma mb) r c = if ma.getD c 0 = mb.getD r 0 then 0 else 1 := by
  simp [cellAt, charCells, List.getD_eq_getElem?_getD, List.getElem?_eq_getElem hr, List.getElem?_eq_getElem hc]

theorem strSubs_cost_zero (a b : Str) (h : (strSubs a b).2 = 0) : a = b := by
  simp only [strSubs] at h
  have hz := solve_zero (ones (middle a (trimLens a b))) (ones (middle b (trimLens a b)))
    (charCells (middle a (trimLens a b)) (middle b (trimLens a b)))
    (by simp [ones]) (by simp [ones]) h
  obtain ⟨hl, -, hc⟩ := hz
  simp only [ones, List.length_map] at hl hc
  have := trim_all 0 a b hl.symm (fun i hi => by
    have := hc i hi
    rw [cellAt_charCellsZ _ _ i i (by omega) hi] at this
    simp at this
    simpa using this)
  exact list_eq_of_getD 0 a b this.1 (fun i hi => by simpa using this.2 i hi)

theorem strEdits_cost_zero_iff (a b : Str) : (strEdits a b).cost = 0 ↔ a = b := by
  unfold strEdits
  by_cases h : a = b
  · simp [h]
  · have hb : (a == b) = false := by simpa using h
    simp only [hb, Bool.false_eq_true, if_false, h, iff_false]
    split
    · simp
    · simp only [mk_cost]
      exact fun h0 => h (strSubs_cost_zero a b h0)

theorem strEdits_pos {a b : Str} (h : a ≠ b) : 0 < (strEdits a b).cost := by
  have := mt (strEdits_cost_zero_iff a b).1 h
  omega

end GtModel

/-
  C01 "The edit script turns the first document into the second: discarding everything marked inserted reproduces
  the first document and discarding everything marked removed reproduces the second; the sub-edits of every
  compound edit account for every element of the first container exactly once and every element of the second
  exactly once, at every nesting level, and keep the relative order of list elements."

  Model: `GtModel.edits` (validated against the real engine by stream `script`).  Index bookkeeping:
    `fromIdx subs`        from-index (`fi`) of every sub-edit that is not an Insert, in script order;
    `toIdx resolve subs`  to-index of every sub-edit that is not a Remove: `ti`, for an Insert its `fi` (an Insert's
                          from_node IS the inserted node), for the identity matches `Match(n, n, 0)` of MultiSetEdit
                          (`ti = same`) the index of the pair with the same key in the to-mapping (`keyResolve`);
    `ixRange n`           `[at 0, …, at (n-1)]`.
  Per node (`*_accounts`): for the ordered kinds (`ed` = EditDistance, `fixed` = FixedLengthSequenceEdit, `str` =
  StringEdit over characters, `kvp` = KeyValuePairEdit over [key, value]) both index lists EQUAL the range (each child
  exactly once, in order); for `ms` (MultiSetEdit) and `fk` (FixedKeyDictNodeEdit) they are PERMUTATIONS of the range,
  for EVERY oracle answer (`sanitize_partial_injection`: whatever the assignment solver returned is cut down to a
  partial injection with in-range components before use).
  All levels (`script_accounts`): `Accounts a b s` = `Walk LocalAcc a b s` (Proofs/EditsWalk.lean): the root satisfies
  the per-node statement for the node pair (a, b), every sub-edit that itself has sub-edits carries indices (i, j) that
  name existing children a.children[i], b.children[j], and `Accounts` holds for it on those children (key/value
  pairs: children [key, value]; strings: their characters).

  Whole documents, second sentence of the property (`project_from`, `project_to`, Proofs/EditsProject.lean):
  `projectFrom a b s` / `projectTo a b s` REBUILD a document from the script: container types from the kinds of the
  compound edits, children = the sub-edits in script order without the insertions (resp. removals), compound
  sub-edits projected recursively, a sub-edit without sub-edits (Match / Replace / Remove / Insert) contributes the
  node its recorded index names among the children of the node pair its parent relates (the model's scripts carry
  indices and costs, not values: the documents are consulted only for that look-up, never compared).  Proved for
  every oracle, all options, trees with distinct keys:
      projectFrom f t (edits … f t) = some f'  with  f'.Sim f        projectTo f t (edits … f t) = some t'  with  t'.Sim t
  where `Tree.Sim` = equal up to the ORDER of the pairs of mappings at every depth (MultiSetEdit / FixedKeyDictNodeEdit
  list matched pairs, then removals, then insertions); for documents without mappings it is equality
  (`project_from_mapFree`, `project_to_mapFree`).  What this does NOT cover: the marks on the real `EditedTreeNode`s
  (`removed` / `inserted` / `edit.to_node`) are tied to the model's script by the `script` stream's monitor, not by a
  theorem; `keep_reproduces` below is the older PER-NODE statement (it re-reads `LocalAcc` for one compound edit and
  does not mention `edits`; kept as the registered per-node statement — `pick` / `pick_ixRange` are also used by C01x and C06).

  Hypothesis `Tree.KeysDistinct` (no mapping holds a key twice; true of every tree `build` makes from a Python dict,
  `build_keysDistinct`) is needed for the TO side of the two mapping edits only: with a duplicated key the model
  (like the Python code, which looks pairs up by key) would account one to-pair twice.
-/
import GtModel.Proofs.EditsBuild
import GtModel.Proofs.EditsProject

namespace GtModel.C01
open GtModel

/-- whatever the assignment solver answered, the model continues from a partial injection with in-range,
    pairwise distinct components -/
theorem sanitize_partial_injection (nf nt : Nat) (answer : List (Nat × Nat)) :
    PInj nf nt (sanitize nf nt [] answer) :=
  sanitize_pinj nf nt answer [] ⟨by simp, by simp, by simp⟩

theorem oracle_partial_injection (orc : Oracle) (fps tps : List (List Nat)) :
    PInj fps.length tps.length (orc.lookup fps tps) := lookup_pinj orc fps tps

/-! ### per node -/

/-- FixedLengthSequenceEdit: each element of both lists exactly once, in order -/
theorem fixed_accounts (o : Opts) (orc : Oracle) (fp tp : List Nat) (fcs tcs : List Tree) (r : Ix → Ix) :
    fromIdx (fixedScript fcs tcs (listTbl o orc fp tp fcs tcs)).subs = ixRange fcs.length ∧
    toIdx r (fixedScript fcs tcs (listTbl o orc fp tp fcs tcs)).subs = ixRange tcs.length :=
  fixedScript_idx r fcs tcs _ (listTbl_top o orc fp tp fcs tcs)

/-- EditDistance over list elements: each element of both lists exactly once, in order -/
theorem ed_accounts (o : Opts) (orc : Oracle) (fp tp : List Nat) (fcs tcs : List Tree) (pen : Nat) (r : Ix → Ix) :
    fromIdx (edScript fcs tcs pen (listTbl o orc fp tp fcs tcs)).subs = ixRange fcs.length ∧
    toIdx r (edScript fcs tcs pen (listTbl o orc fp tp fcs tcs)).subs = ixRange tcs.length :=
  edScript_idx r fcs tcs pen _ (listTbl_top o orc fp tp fcs tcs)

/-- StringEdit: each character of both strings exactly once, in order -/
theorem str_accounts (a b : Str) (r : Ix → Ix) :
    fromIdx (strSubs a b).1 = ixRange a.length ∧ toIdx r (strSubs a b).1 = ixRange b.length :=
  strSubs_idx r a b

/-- KeyValuePairEdit: exactly two parts, the key edit labelled (0,0) and the value edit labelled (1,1) -/
theorem kvp_accounts (o : Opts) (orc : Oracle) (fp tp : List Nat) (k k' : Str) (v v' : Tree) (r : Ix → Ix) :
    (kvpScript k k' (v.eq v') (edits o orc fp tp v v')).subs.length = 2 ∧
    fromIdx (kvpScript k k' (v.eq v') (edits o orc fp tp v v')).subs = [.at 0, .at 1] ∧
    toIdx r (kvpScript k k' (v.eq v') (edits o orc fp tp v v')).subs = [.at 0, .at 1] :=
  ⟨rfl, kvpScript_idx r k k' _ _ (edits_kind_top o orc fp tp v v')⟩

/-- FixedKeyDictNodeEdit: every pair of both mappings exactly once -/
theorem fk_accounts (fkv tkv : List (Str × Tree)) (vtbl : List (List Script)) (r : Ix → Ix)
    (hf : (keys fkv).Nodup) (ht : (keys tkv).Nodup) :
    (fromIdx (fkScript fkv tkv vtbl).subs).Perm (ixRange fkv.length) ∧
    (toIdx r (fkScript fkv tkv vtbl).subs).Perm (ixRange tkv.length) :=
  ⟨fkScript_fromIdx fkv tkv vtbl, fkScript_toIdx r fkv tkv vtbl hf ht⟩

/-- MultiSetEdit, from side: every pair of the first mapping exactly once — for every oracle, no hypothesis -/
theorem ms_accounts_from (amk : Bool) (orc : Oracle) (fp tp : List Nat) (fkv tkv : List (Str × Tree))
    (vtbl : List (List Script)) :
    (fromIdx (msScript amk orc fp tp fkv tkv vtbl).subs).Perm (ixRange fkv.length) :=
  msScript_fromIdx amk orc fp tp fkv tkv vtbl

/-- MultiSetEdit: every pair of both mappings exactly once, for every oracle -/
theorem ms_accounts (amk : Bool) (orc : Oracle) (fp tp : List Nat) (fkv tkv : List (Str × Tree))
    (vtbl : List (List Script)) (hf : (Tree.dict fkv).KeysDistinct) (ht : (Tree.dict tkv).KeysDistinct) :
    (fromIdx (msScript amk orc fp tp fkv tkv vtbl).subs).Perm (ixRange fkv.length) ∧
    (toIdx (keyResolve fkv tkv) (msScript amk orc fp tp fkv tkv vtbl).subs).Perm (ixRange tkv.length) := by
  rw [kd_dict] at hf ht
  exact ⟨msScript_fromIdx amk orc fp tp fkv tkv vtbl,
    msScript_toIdx amk orc fp tp fkv tkv vtbl hf.1 ht.1
      (kvSymm_of_eqSymm _ _ (fun x hx y hy => Tree.eq_symm _ _ (hf.2 x hx) (ht.2 y hy)))⟩

/-! ### every nesting level -/

/-- C01: the script accounts for both documents at every nesting level -/
theorem script_accounts (o : Opts) (orc : Oracle) (fp tp : List Nat) (f t : Tree)
    (hf : f.KeysDistinct) (ht : t.KeysDistinct) :
    Accounts (.tree f) (.tree t) (edits o orc fp tp f t) :=
  accounts_edits Tree.eq_symm o orc fp tp f t hf ht

/-- trees built from documents (Python dicts cannot hold a key twice) have distinct keys -/
theorem build_keysDistinct (o : Opts) (d : Doc) (h : d.KeysDistinct) : (build o d).KeysDistinct := build_kd o d h

/-- C01 for whole documents -/
theorem script_accounts_docs (o : Opts) (orc : Oracle) (f t : Doc) (hf : f.KeysDistinct) (ht : t.KeysDistinct) :
    Accounts (.tree (build o f)) (.tree (build o t)) (diffDocs o orc f t) :=
  script_accounts o orc [] [] _ _ (build_kd o f hf) (build_kd o t ht)

/-! ### "discarding inserted reproduces the first document, discarding removed reproduces the second": one node -/

/-- the from-children a compound edit keeps when everything inserted is discarded -/
def keepFrom (a : Nd) (subs : List Script) : List Nd := pick a.children (fromIdx subs)
/-- the to-children a compound edit keeps when everything removed is discarded -/
def keepTo (a b : Nd) (subs : List Script) : List Nd := pick b.children (toIdx (resolveSame a b) subs)

/-- PER NODE ONLY (a re-reading of `LocalAcc` through `pick` for ONE compound edit; it does not mention `edits` and
    does not descend — the whole-document statements are `project_from` / `project_to` below): a compound edit
    that accounts for the children of `a` and `b` keeps exactly the children of the first node when the insertions are
    discarded and exactly the children of the second when the removals are discarded (in order for sequences, as
    multisets for mappings) -/
theorem keep_reproduces {a b : Nd} {k : Kind} {subs : List Script} (h : LocalAcc a b k subs)
    (hk : k.hasSubs = true) :
    (k.ordered = true → keepFrom a subs = a.children ∧ keepTo a b subs = b.children) ∧
    (k.ordered = false → (keepFrom a subs).Perm a.children ∧ (keepTo a b subs).Perm b.children) := by
  have h := (h hk).2
  constructor
  · intro ho
    simp only [ho, if_true] at h
    simp only [keepFrom, keepTo, h.1, h.2, pick_ixRange, and_self]
  · intro ho
    simp only [ho, Bool.false_eq_true, if_false] at h
    constructor
    · exact pick_perm' a.children h.1
    · exact pick_perm' b.children h.2

/-- the root of the script satisfies the premise of `keep_reproduces` (and so does every node below, by `script_accounts`) -/
theorem keep_root (o : Opts) (orc : Oracle) (fp tp : List Nat) (f t : Tree) (hf : f.KeysDistinct) (ht : t.KeysDistinct) :
    LocalAcc (.tree f) (.tree t) (edits o orc fp tp f t).kind (edits o orc fp tp f t).subs :=
  ((walk_iff _ _ _).1 (script_accounts o orc fp tp f t hf ht)).1

/-! ### "discarding inserted reproduces the first document, discarding removed reproduces the second": whole documents -/

theorem nd_sim_tree {a : Nd} {f : Tree} (h : a.Sim (.tree f)) : ∃ f', a = .tree f' ∧ f'.Sim f := by
  cases a with
  | tree f' => exact ⟨f', rfl, h⟩
  | kv _ _ => exact absurd h (by simp [Nd.Sim])
  | chr _ => exact absurd h (by simp [Nd.Sim])

/-- C01, sentence 2, for EVERY script that accounts for both nodes at every level (`Accounts`): discarding what is
    marked inserted rebuilds the first node, discarding what is marked removed rebuilds the second (mappings up to
    the order of their pairs) -/
theorem project_of_accounts (a b : Nd) (s : Script) (h : Accounts a b s) :
    (∃ a', projectFrom a b s = some a' ∧ a'.Sim a) ∧ (∃ b', projectTo a b s = some b' ∧ b'.Sim b) :=
  ⟨projectFrom_ok a b s h, projectTo_ok a b s h⟩

/-- C01, sentence 2, first half: rebuilding a document from the engine's script without everything marked inserted
    gives the FIRST document (mappings up to the order of their pairs), for every oracle and all options -/
theorem project_from (o : Opts) (orc : Oracle) (fp tp : List Nat) (f t : Tree) (hf : f.KeysDistinct) (ht : t.KeysDistinct) :
    ∃ f', projectFrom (.tree f) (.tree t) (edits o orc fp tp f t) = some (.tree f') ∧ f'.Sim f := by
  obtain ⟨a', h1, h2⟩ := projectFrom_ok _ _ _ (script_accounts o orc fp tp f t hf ht)
  obtain ⟨f', rfl, h3⟩ := nd_sim_tree h2
  exact ⟨f', h1, h3⟩

/-- C01, sentence 2, second half: … without everything marked removed gives the SECOND document -/
theorem project_to (o : Opts) (orc : Oracle) (fp tp : List Nat) (f t : Tree) (hf : f.KeysDistinct) (ht : t.KeysDistinct) :
    ∃ t', projectTo (.tree f) (.tree t) (edits o orc fp tp f t) = some (.tree t') ∧ t'.Sim t := by
  obtain ⟨b', h1, h2⟩ := projectTo_ok _ _ _ (script_accounts o orc fp tp f t hf ht)
  obtain ⟨t', rfl, h3⟩ := nd_sim_tree h2
  exact ⟨t', h1, h3⟩

/-- for whole documents -/
theorem project_from_docs (o : Opts) (orc : Oracle) (f t : Doc) (hf : f.KeysDistinct) (ht : t.KeysDistinct) :
    ∃ f', projectFrom (.tree (build o f)) (.tree (build o t)) (diffDocs o orc f t) = some (.tree f') ∧
      f'.Sim (build o f) :=
  project_from o orc [] [] _ _ (build_kd o f hf) (build_kd o t ht)

theorem project_to_docs (o : Opts) (orc : Oracle) (f t : Doc) (hf : f.KeysDistinct) (ht : t.KeysDistinct) :
    ∃ t', projectTo (.tree (build o f)) (.tree (build o t)) (diffDocs o orc f t) = some (.tree t') ∧
      t'.Sim (build o t) :=
  project_to o orc [] [] _ _ (build_kd o f hf) (build_kd o t ht)

/-! `Tree.Sim` identifies nothing but the order of mapping pairs: on trees without mappings it is equality -/

mutual
/-- no DictNode / FixedKeyDictNode anywhere (lists of lists of leaves: CSV tables, JSON arrays) -/
def mapFree : Tree → Bool
  | .leaf _ => true
  | .list cs => mapFreeL cs
  | .dict _ => false
  | .fdict _ => false
def mapFreeL : List Tree → Bool
  | [] => true
  | c :: cs => mapFree c && mapFreeL cs
end

mutual
theorem sim_eq_of_mapFree : ∀ (f' f : Tree), f'.Sim f → mapFree f = true → f' = f
  | .leaf a, f, h, _ => by simp only [Tree.Sim] at h; exact h.symm
  | .list as, f, h, hm => by
    simp only [Tree.Sim] at h
    obtain ⟨bs, rfl, h2⟩ := h
    simp only [mapFree] at hm
    rw [simL_eq_of_mapFree as bs h2 hm]
  | .dict as, f, h, hm => by
    simp only [Tree.Sim] at h
    obtain ⟨_, bs, rfl, _⟩ := h
    simp [mapFree] at hm
  | .fdict as, f, h, hm => by
    simp only [Tree.Sim] at h
    obtain ⟨_, bs, rfl, _⟩ := h
    simp [mapFree] at hm
theorem simL_eq_of_mapFree : ∀ (as bs : List Tree), SimL as bs → mapFreeL bs = true → as = bs
  | [], bs, h, _ => by simp only [SimL] at h; exact h.symm
  | a :: as, bs, h, hm => by
    simp only [SimL] at h
    obtain ⟨b, bs', rfl, h1, h2⟩ := h
    simp only [mapFreeL, Bool.and_eq_true] at hm
    rw [sim_eq_of_mapFree a b h1 hm.1, simL_eq_of_mapFree as bs' h2 hm.2]
end

/-- documents without mappings: the projections are the documents themselves -/
theorem project_from_mapFree (o : Opts) (orc : Oracle) (fp tp : List Nat) (f t : Tree)
    (hf : mapFree f = true) (hkf : f.KeysDistinct) (hkt : t.KeysDistinct) :
    projectFrom (.tree f) (.tree t) (edits o orc fp tp f t) = some (.tree f) := by
  obtain ⟨f', h1, h2⟩ := project_from o orc fp tp f t hkf hkt
  rw [h1, sim_eq_of_mapFree f' f h2 hf]

theorem project_to_mapFree (o : Opts) (orc : Oracle) (fp tp : List Nat) (f t : Tree)
    (ht : mapFree t = true) (hkf : f.KeysDistinct) (hkt : t.KeysDistinct) :
    projectTo (.tree f) (.tree t) (edits o orc fp tp f t) = some (.tree t) := by
  obtain ⟨t', h1, h2⟩ := project_to o orc fp tp f t hkf hkt
  rw [h1, sim_eq_of_mapFree t' t h2 ht]

/-! ### non-vacuity and concrete instances

  `edits` is defined by well-founded recursion and `Tree.eq` too, so the kernel cannot evaluate them on literals;
  the examples are given for the sub-functions (evaluated by `decide +kernel` where no node equality is involved,
  by `simp` otherwise); the correspondence stream ties whole scripts to the real engine. -/

/-- the hypotheses are satisfiable by non-trivial trees / documents -/
example : (Tree.list [.dict [([107], .leaf (.float [53])), ([108], .list [.fdict [([97], .leaf .null), ([98], .leaf .null)]])]]).KeysDistinct := by
  decide
example : (Doc.obj [([107], .scalar (.int 5)), ([108], .list [.obj [([107], .scalar .null)]])]).KeysDistinct := by decide
/-- … and can fail (a duplicated key, which no Python dict can hold) -/
example : ¬ (Tree.dict [([107], .leaf .null), ([107], .leaf .null)]).KeysDistinct := by decide

/-- an adversarial solver answer (out-of-range indices, a row and a column used twice) is cut down to a partial injection -/
example : sanitize 2 2 [] [(0, 1), (0, 0), (5, 1), (1, 1), (1, 0), (1, 0)] = [(0, 1), (1, 0)] := by decide

/-- "abc" → "axc": match a, insert x, remove b, match c — each character of both strings once, in order -/
example : fromIdx (strSubs [97, 98, 99] [97, 120, 99]).1 = [.at 0, .at 1, .at 2] ∧
    toIdx (fun _ => .same) (strSubs [97, 98, 99] [97, 120, 99]).1 = [.at 0, .at 1, .at 2] ∧
    ((strSubs [97, 98, 99] [97, 120, 99]).1.map Script.kind) = [.match_, .insert, .remove, .match_] := by
  decide +kernel

/-- FixedLengthSequenceEdit of 3 against 1 element: one positional pair, two removals -/
example : fromIdx (fixedScript [.leaf .null, .leaf (.float [49]), .leaf .null] [.leaf (.float [50])] [[mkMatch 1]]).subs
      = [.at 0, .at 1, .at 2] ∧
    toIdx (fun _ => .same) (fixedScript [.leaf .null, .leaf (.float [49]), .leaf .null] [.leaf (.float [50])] [[mkMatch 1]]).subs
      = [.at 0] := by
  decide +kernel

/-- the index bookkeeping notices an element that is accounted twice or not at all -/
example : fromIdx [mkRemove 0 1 1, mkRemove 0 1 1] ≠ ixRange 2 := by decide
example : fromIdx [mkRemove 1 1 1] ≠ ixRange 2 := by decide

/-! ### whole-document projections on a concrete 3-level pair (mapping → list → string)

  `{"a":[1,2,"xy"],"b":2,"c":3}` → `{"a":[2,"xzy",3],"c":3,"d":2}` without automatic key matching; the solver pairs
  a↦a and b↦d.  `pScript` IS the model's script for this pair (`pScript_is_model_output`, proved by unfolding
  `edits` level by level: the kernel cannot evaluate the well-founded recursion directly): MultiSetEdit with the
  identity match of c:3, KeyValuePairEdit a/a with an EditDistance over the lists and a StringEdit "xy"→"xzy" inside,
  KeyValuePairEdit b/d.  It satisfies the hypothesis of `project_of_accounts`, and both projections are computed by
  `rfl`. -/

def pF : Tree := .dict [([97], .list [.leaf (.int 1), .leaf (.int 2), .leaf (.str [120, 121])]), ([98], .leaf (.int 2)),
  ([99], .leaf (.int 3))]
def pT : Tree := .dict [([97], .list [.leaf (.int 2), .leaf (.str [120, 122, 121]), .leaf (.int 3)]), ([99], .leaf (.int 3)),
  ([100], .leaf (.int 2))]
def pOrc : Oracle := [{ f := [[0], [1]], t := [[0], [2]], pairs := [(1, 1), (0, 0)] }]
def pScript : Script :=
  .mk .ms .none .none 4 [
    .mk .match_ (.at 2) .same 0 [],
    .mk .kvp (.at 0) (.at 0) 3 [
      .mk .match_ (.at 0) (.at 0) 0 [],
      .mk .ed (.at 1) (.at 1) 3 [
        .mk .remove (.at 0) .none 1 [],
        .mk .match_ (.at 1) (.at 0) 0 [],
        .mk .str (.at 2) (.at 1) 1 [
          .mk .match_ (.at 0) (.at 0) 0 [], .mk .insert (.at 1) .none 1 [], .mk .match_ (.at 1) (.at 2) 0 []],
        .mk .insert (.at 2) .none 1 []]],
    .mk .kvp (.at 1) (.at 2) 1 [.mk .match_ (.at 0) (.at 0) 1 [], .mk .match_ (.at 1) (.at 1) 0 []]]

example : pF.KeysDistinct ∧ pT.KeysDistinct := by decide

section
set_option linter.unusedSimpArgs false
open GtModel.EditMatrix in
/-- the list level: `[1, 2, "xy"]` → `[2, "xzy", 3]` (remove 1, match 2, StringEdit "xy"→"xzy", insert 3) -/
theorem pList_script (fp tp : List Nat) (orc : Oracle) :
    edits {amk := false} orc fp tp (.list [.leaf (.int 1), .leaf (.int 2), .leaf (.str [120, 121])])
        (.list [.leaf (.int 2), .leaf (.str [120, 122, 121]), .leaf (.int 3)]) =
      .mk .ed .none .none 3 [
        .mk .remove (.at 0) .none 1 [],
        .mk .match_ (.at 1) (.at 0) 0 [],
        .mk .str (.at 2) (.at 1) 1 [
          .mk .match_ (.at 0) (.at 0) 0 [], .mk .insert (.at 1) .none 1 [], .mk .match_ (.at 1) (.at 2) 0 []],
        .mk .insert (.at 2) .none 1 []] := by
  have hb : ∀ a b : Tree, (a == b) = a.eq b := fun _ _ => rfl
  rw [edits_list_list]
  have h1 : eqL [.leaf (.int 1), .leaf (.int 2), .leaf (.str [120, 121])]
      [.leaf (.int 2), .leaf (.str [120, 122, 121]), .leaf (.int 3)] = false := by simp [eqL, Tree.eq, Scalar.eq]
  have h2 : listTbl {amk := false} orc fp tp [.leaf (.int 1), .leaf (.int 2), .leaf (.str [120, 121])]
      [.leaf (.int 2), .leaf (.str [120, 122, 121]), .leaf (.int 3)] =
      [[leafEdits (.int 1) (.leaf (.int 2)), leafEdits (.int 1) (.leaf (.str [120, 122, 121])), leafEdits (.int 1) (.leaf (.int 3))],
       [leafEdits (.int 2) (.leaf (.int 2)), leafEdits (.int 2) (.leaf (.str [120, 122, 121])), leafEdits (.int 2) (.leaf (.int 3))],
       [leafEdits (.str [120, 121]) (.leaf (.int 2)), leafEdits (.str [120, 121]) (.leaf (.str [120, 122, 121])),
        leafEdits (.str [120, 121]) (.leaf (.int 3))]] := by
    simp [listTbl, List.zipIdx, edits_leaf]
  have h3 : trimLens [Tree.leaf (.int 1), .leaf (.int 2), .leaf (.str [120, 121])]
      [Tree.leaf (.int 2), .leaf (.str [120, 122, 121]), .leaf (.int 3)] = (0, 0) := by
    simp [trimLens, sharedPrefixLen, hb, Tree.eq, Scalar.eq]
  rw [h1, h2]
  simp only [Bool.false_eq_true, if_false]
  rw [show (!({amk := false} : Opts).ale || (([Tree.leaf (.int 1), .leaf (.int 2), .leaf (.str [120, 121])] : List Tree).length
      == ([Tree.leaf (.int 2), .leaf (.str [120, 122, 121]), .leaf (.int 3)] : List Tree).length &&
      (!({amk := false} : Opts).alesl || ([Tree.leaf (.int 1), .leaf (.int 2), .leaf (.str [120, 121])] : List Tree).length == 1)))
      = false by decide]
  simp only [Bool.false_eq_true, if_false]
  rw [show (if allLeaves [Tree.leaf (.int 1), .leaf (.int 2), .leaf (.str [120, 121])] &&
      allLeaves [Tree.leaf (.int 2), .leaf (.str [120, 122, 121]), .leaf (.int 3)] &&
      allPositive [Tree.leaf (.int 1), .leaf (.int 2), .leaf (.str [120, 121])] &&
      allPositive [Tree.leaf (.int 2), .leaf (.str [120, 122, 121]), .leaf (.int 3)] then 0 else 1) = 0 by decide +kernel]
  simp only [edScript, h3]
  exact Script.eq_of_beq _ _ (by decide +kernel)

set_option maxRecDepth 4000 in
/-- `pScript` is what the model computes for the pair (all three levels) -/
theorem pScript_is_model_output : edits {amk := false} pOrc [] [] pF pT = pScript := by
  simp [pF, pT, pOrc, pScript, edits_dict_dict, pList_script, edits_leaf, kvTbl, subKV, findKV, Tree.eq, eqL, Scalar.eq,
    msScript, kvEq, findKey, List.range_succ, kvpScript, Oracle.lookup, sanitize, sortPairs, insertPair, mkCompound,
    List.filter_cons, List.getD_eq_getElem?_getD, mkMatch, mkRemove, mkInsert, Script.relabel, List.zipIdx, leafEdits, strEdits,
    leafLeaf, kvSize, Tree.size, sizeL, Scalar.pyStr, Script.kind, Script.cost, Script.subs, Script.fi, Script.ti, sumCosts]
end

/-- `project_from` / `project_to` on the model's own script for this pair: the first document with its pairs in
    script order (identity match c first), the second with the to-key `d` of the pair b↦d -/
example : projectFrom (.tree pF) (.tree pT) (edits {amk := false} pOrc [] [] pF pT) = some (.tree (.dict
    [([99], .leaf (.int 3)), ([97], .list [.leaf (.int 1), .leaf (.int 2), .leaf (.str [120, 121])]),
      ([98], .leaf (.int 2))])) := by rw [pScript_is_model_output]; rfl
example : projectTo (.tree pF) (.tree pT) (edits {amk := false} pOrc [] [] pF pT) = some (.tree (.dict
    [([99], .leaf (.int 3)), ([97], .list [.leaf (.int 2), .leaf (.str [120, 122, 121]), .leaf (.int 3)]),
      ([100], .leaf (.int 2))])) := by rw [pScript_is_model_output]; rfl


/-- the script accounts for both documents at all three levels (the hypothesis of `project_of_accounts`) -/
example : Accounts (.tree pF) (.tree pT) pScript := by
  simp [Accounts, Walk, WalkL, LocalAcc, pScript, pF, pT, Kind.hasSubs, Kind.ordered, kindFits, fromIdx, toIdx, toIxOf,
    ixRange, resolveSame, keyResolve, findKey, Nd.children, List.range_succ, Script.kind, Script.fi, Script.ti]
  constructor <;> decide

/-- discarding the insertions (the inserted `z`, the inserted `3`): the first document, its pairs in script order
    (identity match c first) — the list `[1,2,"xy"]` and the string `"xy"` are rebuilt element by element -/
example : projectFrom (.tree pF) (.tree pT) pScript = some (.tree (.dict
    [([99], .leaf (.int 3)), ([97], .list [.leaf (.int 1), .leaf (.int 2), .leaf (.str [120, 121])]),
      ([98], .leaf (.int 2))])) := rfl

/-- discarding the removals (the removed `1`): the second document; the key of the pair b↦d is the to-key `d` -/
example : projectTo (.tree pF) (.tree pT) pScript = some (.tree (.dict
    [([99], .leaf (.int 3)), ([97], .list [.leaf (.int 2), .leaf (.str [120, 122, 121]), .leaf (.int 3)]),
      ([100], .leaf (.int 2))])) := rfl

/-- … which is `pF` up to the order of its pairs -/
example : Tree.Sim (.dict [([99], .leaf (.int 3)), ([97], .list [.leaf (.int 1), .leaf (.int 2), .leaf (.str [120, 121])]),
    ([98], .leaf (.int 2))]) pF := by
  simp only [Tree.Sim, pF]
  exact ⟨_, _, rfl, SimKV.refl _, (List.Perm.swap _ _ _).trans ((List.Perm.swap _ _ _).cons _)⟩

/-- the projections are NOT insensitive to the script: a sub-edit that names the wrong element, a missing sub-edit, an
    index out of range or an edit kind that does not fit its survivors give another document or none -/
example : projectFrom (.tree (.list [.leaf (.int 1), .leaf (.int 2)])) (.tree (.list [.leaf (.int 1), .leaf (.int 3)]))
      (.mk .fixed .none .none 1 [.mk .match_ (.at 0) (.at 0) 0 [], .mk .match_ (.at 0) (.at 1) 1 []])
    = some (.tree (.list [.leaf (.int 1), .leaf (.int 1)])) := rfl
example : projectTo (.tree (.list [.leaf (.int 1), .leaf (.int 2)])) (.tree (.list [.leaf (.int 1), .leaf (.int 3)]))
      (.mk .fixed .none .none 1 [.mk .match_ (.at 0) (.at 0) 0 []])
    = some (.tree (.list [.leaf (.int 1)])) := rfl
example : projectFrom (.tree (.list [.leaf (.int 1), .leaf (.int 2)])) (.tree (.list [.leaf (.int 1), .leaf (.int 3)]))
      (.mk .fixed .none .none 1 [.mk .match_ (.at 0) (.at 0) 0 [], .mk .match_ (.at 2) (.at 1) 1 []]) = none := rfl
example : projectFrom (.tree (.list [.leaf (.int 1), .leaf (.int 2)])) (.tree (.list [.leaf (.int 1), .leaf (.int 3)]))
      (.mk .ms .none .none 1 [.mk .match_ (.at 0) (.at 0) 0 [], .mk .match_ (.at 1) (.at 1) 1 []]) = none := rfl
/-- … and `Tree.Sim` does not identify a re-ordered list or different leaves -/
example : ¬ Tree.Sim (.list [.leaf (.int 1), .leaf (.int 2)]) (.list [.leaf (.int 2), .leaf (.int 1)]) := by
  simp [Tree.Sim, SimL]
example : ¬ Tree.Sim (.dict [([97], .leaf (.int 1))]) (.dict [([97], .leaf (.int 2))]) := by
  simp [Tree.Sim, SimKV]

def fkvE : List (Str × Tree) := [([97], .leaf (.float [49])), ([98], .leaf .null), ([99], .leaf (.str [120]))]
def tkvE : List (Str × Tree) := [([98], .leaf (.float [50])), ([100], .leaf (.float [49])), ([97], .leaf (.float [49]))]
/-- an adversarial solver answer for the matcher over the nodes left to it (from-pairs 1, 2; to-pairs 0, 1):
    out-of-range indices, a repeated pair, a repeated column -/
def orcE : Oracle := [{ f := [[1], [2]], t := [[0], [1]], pairs := [(7, 0), (1, 1), (1, 1), (1, 5), (0, 1)] }]

example : (Tree.dict fkvE).KeysDistinct ∧ (Tree.dict tkvE).KeysDistinct := by decide

/-- MultiSetEdit without auto key matching on {a:1.0, b:null, c:"x"} → {b:2.0, d:1.0, a:1.0}: the identity match of
    a:1.0 resolves to to-index 2; of the solver's answer only (1,1) survives (c ↦ d), b is removed, b:2.0 inserted;
    both index lists are permutations (neither is the identity) -/
example : fromIdx (msScript false orcE [] [] fkvE tkvE []).subs = [.at 0, .at 2, .at 1] ∧
    toIdx (keyResolve fkvE tkvE) (msScript false orcE [] [] fkvE tkvE []).subs = [.at 2, .at 1, .at 0] ∧
    (msScript false orcE [] [] fkvE tkvE []).subs.map Script.kind = [.match_, .kvp, .remove, .insert] := by
  simp [msScript, fkvE, tkvE, orcE, kvEq, Tree.eq, Scalar.eq, findKey, List.range_succ, kvpScript, Oracle.lookup,
    sanitize, sortPairs, insertPair, mkCompound, fromIdx, toIdx, toIxOf, keyResolve, List.filter_cons,
    List.getD_eq_getElem?_getD, mkMatch, mkRemove, mkInsert, Script.relabel]

/-- FixedKeyDictNodeEdit on the same pairs: a↦2, b↦0 by key, c removed, d inserted -/
example : fromIdx (fkScript fkvE tkvE []).subs = [.at 0, .at 1, .at 2] ∧
    toIdx (fun _ => .none) (fkScript fkvE tkvE []).subs = [.at 2, .at 0, .at 1] := by
  simp [fkScript, fkvE, tkvE, kvEq, Tree.eq, Scalar.eq, findKey, List.range_succ, kvpScript, mkCompound, fromIdx, toIdx,
    toIxOf, List.filter_cons, List.getD_eq_getElem?_getD, mkMatch, mkRemove, mkInsert, Script.relabel]

end GtModel.C01

/-
  C01 "The edit script turns the first document into the second: discarding everything marked inserted reproduces
  the first document and discarding everything marked removed reproduces the second; the sub-edits of every
  compound edit account for every element of the first container exactly once and every element of the second
  exactly once, at every nesting level, and keep the relative order of list elements."

  Model: `GtModel.edits` (validated against the real engine by stream `script`).  Index bookkeeping:
    `fromIdx subs`        from-index (`fi`) of every sub-edit that is not an Insert, in script order;
    `toIdx resolve subs`  to-index of every sub-edit that is not a Remove: `ti`, for an Insert its `fi` (an Insert's
                          from_node IS the inserted node), for the identity matches `Match(n, n, 0)` of MultiSetEdit
                          (`ti = same`) the index of the pair with the same key in the to-mapping (`keyResolve`);
    `ixRange n`           `[at 0, …, at (n-1)]`.
  Per node (`*_accounts`): for the ordered kinds (`ed` = EditDistance, `fixed` = FixedLengthSequenceEdit, `str` =
  StringEdit over characters, `kvp` = KeyValuePairEdit over [key, value]) both index lists EQUAL the range (each child
  exactly once, in order); for `ms` (MultiSetEdit) and `fk` (FixedKeyDictNodeEdit) they are PERMUTATIONS of the range,
  for EVERY oracle answer (`sanitize_partial_injection`: whatever the assignment solver returned is cut down to a
  partial injection with in-range components before use).
  All levels (`script_accounts`): `Accounts a b s` = `Walk LocalAcc a b s` (Proofs/EditsWalk.lean): the root satisfies
  the per-node statement for the node pair (a, b), every sub-edit that itself has sub-edits carries indices (i, j) that
  name existing children a.children[i], b.children[j], and `Accounts` holds for it on those children (key/value
  pairs: children [key, value]; strings: their characters).

  Hypothesis `Tree.KeysDistinct` (no mapping holds a key twice; true of every tree `build` makes from a Python dict,
  `build_keysDistinct`) is needed for the TO side of the two mapping edits only: with a duplicated key the model
  (like the Python code, which looks pairs up by key) would account one to-pair twice.
-/
import GtModel.Proofs.EditsBuild

namespace GtModel.C01
open GtModel

/-- whatever the assignment solver answered, the model continues from a partial injection with in-range,
    pairwise distinct components -/
theorem sanitize_partial_injection (nf nt : Nat) (answer : List (Nat × Nat)) :
    PInj nf nt (sanitize nf nt [] answer) :=
  sanitize_pinj nf nt answer [] ⟨by simp, by simp, by simp⟩

theorem oracle_partial_injection (orc : Oracle) (fps tps : List (List Nat)) :
    PInj fps.length tps.length (orc.lookup fps tps) := lookup_pinj orc fps tps

/-! ### per node -/

/-- FixedLengthSequenceEdit: each element of both lists exactly once, in order -/
theorem fixed_accounts (o : Opts) (orc : Oracle) (fp tp : List Nat) (fcs tcs : List Tree) (r : Ix → Ix) :
    fromIdx (fixedScript fcs tcs (listTbl o orc fp tp fcs tcs)).subs = ixRange fcs.length ∧
    toIdx r (fixedScript fcs tcs (listTbl o orc fp tp fcs tcs)).subs = ixRange tcs.length :=
  fixedScript_idx r fcs tcs _ (listTbl_top o orc fp tp fcs tcs)

/-- EditDistance over list elements: each element of both lists exactly once, in order -/
theorem ed_accounts (o : Opts) (orc : Oracle) (fp tp : List Nat) (fcs tcs : List Tree) (pen : Nat) (r : Ix → Ix) :
    fromIdx (edScript fcs tcs pen (listTbl o orc fp tp fcs tcs)).subs = ixRange fcs.length ∧
    toIdx r (edScript fcs tcs pen (listTbl o orc fp tp fcs tcs)).subs = ixRange tcs.length :=
  edScript_idx r fcs tcs pen _ (listTbl_top o orc fp tp fcs tcs)

/-- StringEdit: each character of both strings exactly once, in order -/
theorem str_accounts (a b : Str) (r : Ix → Ix) :
    fromIdx (strSubs a b).1 = ixRange a.length ∧ toIdx r (strSubs a b).1 = ixRange b.length :=
  strSubs_idx r a b

/-- KeyValuePairEdit: exactly two parts, the key edit labelled (0,0) and the value edit labelled (1,1) -/
theorem kvp_accounts (o : Opts) (orc : Oracle) (fp tp : List Nat) (k k' : Str) (v v' : Tree) (r : Ix → Ix) :
    (kvpScript k k' (v.eq v') (edits o orc fp tp v v')).subs.length = 2 ∧
    fromIdx (kvpScript k k' (v.eq v') (edits o orc fp tp v v')).subs = [.at 0, .at 1] ∧
    toIdx r (kvpScript k k' (v.eq v') (edits o orc fp tp v v')).subs = [.at 0, .at 1] :=
  ⟨rfl, kvpScript_idx r k k' _ _ (edits_kind_top o orc fp tp v v')⟩

/-- FixedKeyDictNodeEdit: every pair of both mappings exactly once -/
theorem fk_accounts (fkv tkv : List (Str × Tree)) (vtbl : List (List Script)) (r : Ix → Ix)
    (hf : (keys fkv).Nodup) (ht : (keys tkv).Nodup) :
    (fromIdx (fkScript fkv tkv vtbl).subs).Perm (ixRange fkv.length) ∧
    (toIdx r (fkScript fkv tkv vtbl).subs).Perm (ixRange tkv.length) :=
  ⟨fkScript_fromIdx fkv tkv vtbl, fkScript_toIdx r fkv tkv vtbl hf ht⟩

/-- MultiSetEdit, from side: every pair of the first mapping exactly once — for every oracle, no hypothesis -/
theorem ms_accounts_from (amk : Bool) (orc : Oracle) (fp tp : List Nat) (fkv tkv : List (Str × Tree))
    (vtbl : List (List Script)) :
    (fromIdx (msScript amk orc fp tp fkv tkv vtbl).subs).Perm (ixRange fkv.length) :=
  msScript_fromIdx amk orc fp tp fkv tkv vtbl

/-- MultiSetEdit: every pair of both mappings exactly once, for every oracle -/
theorem ms_accounts (amk : Bool) (orc : Oracle) (fp tp : List Nat) (fkv tkv : List (Str × Tree))
    (vtbl : List (List Script)) (hf : (Tree.dict fkv).KeysDistinct) (ht : (Tree.dict tkv).KeysDistinct) :
    (fromIdx (msScript amk orc fp tp fkv tkv vtbl).subs).Perm (ixRange fkv.length) ∧
    (toIdx (keyResolve fkv tkv) (msScript amk orc fp tp fkv tkv vtbl).subs).Perm (ixRange tkv.length) := by
  rw [kd_dict] at hf ht
  exact ⟨msScript_fromIdx amk orc fp tp fkv tkv vtbl,
    msScript_toIdx amk orc fp tp fkv tkv vtbl hf.1 ht.1
      (kvSymm_of_eqSymm _ _ (fun x hx y hy => Tree.eq_symm _ _ (hf.2 x hx) (ht.2 y hy)))⟩

/-! ### every nesting level -/

/-- C01: the script accounts for both documents at every nesting level -/
theorem script_accounts (o : Opts) (orc : Oracle) (fp tp : List Nat) (f t : Tree)
    (hf : f.KeysDistinct) (ht : t.KeysDistinct) :
    Accounts (.tree f) (.tree t) (edits o orc fp tp f t) :=
  accounts_edits Tree.eq_symm o orc fp tp f t hf ht

/-- trees built from documents (Python dicts cannot hold a key twice) have distinct keys -/
theorem build_keysDistinct (o : Opts) (d : Doc) (h : d.KeysDistinct) : (build o d).KeysDistinct := build_kd o d h

/-- C01 for whole documents -/
theorem script_accounts_docs (o : Opts) (orc : Oracle) (f t : Doc) (hf : f.KeysDistinct) (ht : t.KeysDistinct) :
    Accounts (.tree (build o f)) (.tree (build o t)) (diffDocs o orc f t) :=
  script_accounts o orc [] [] _ _ (build_kd o f hf) (build_kd o t ht)

/-! ### "discarding inserted reproduces the first document, discarding removed reproduces the second" -/

/-- the children named by a list of indices -/
def pick {α : Type} (l : List α) (ixs : List Ix) : List α :=
  ixs.filterMap fun ix => match ix with | .at i => l[i]? | _ => none

/-- the from-children a compound edit keeps when everything inserted is discarded -/
def keepFrom (a : Nd) (subs : List Script) : List Nd := pick a.children (fromIdx subs)
/-- the to-children a compound edit keeps when everything removed is discarded -/
def keepTo (a b : Nd) (subs : List Script) : List Nd := pick b.children (toIdx (resolveSame a b) subs)

theorem filterMap_getElem?_range {α : Type} (l : List α) :
    (List.range l.length).filterMap (fun i => l[i]?) = l := by
  induction l with
  | nil => rfl
  | cons x xs ih => simp [List.range_succ_eq_map, List.filterMap_map, Function.comp_def, ih]

theorem pick_ixRange {α : Type} (l : List α) : pick l (ixRange l.length) = l := by
  simp only [pick, ixRange, List.filterMap_map]
  exact filterMap_getElem?_range l

/-- every compound edit of the script, at every level, keeps exactly the children of the first node when the
    insertions are discarded and exactly the children of the second when the removals are discarded
    (in order for sequences, as multisets for mappings) -/
theorem keep_reproduces {a b : Nd} {k : Kind} {subs : List Script} (h : LocalAcc a b k subs)
    (hk : k.hasSubs = true) :
    (k.ordered = true → keepFrom a subs = a.children ∧ keepTo a b subs = b.children) ∧
    (k.ordered = false → (keepFrom a subs).Perm a.children ∧ (keepTo a b subs).Perm b.children) := by
  have h := (h hk).2
  constructor
  · intro ho
    simp only [ho, if_true] at h
    simp only [keepFrom, keepTo, h.1, h.2, pick_ixRange, and_self]
  · intro ho
    simp only [ho, Bool.false_eq_true, if_false] at h
    constructor
    · have := h.1.filterMap (fun ix => match ix with | .at i => a.children[i]? | _ => none)
      rw [show List.filterMap _ (ixRange a.children.length) = pick a.children (ixRange a.children.length) from rfl,
        pick_ixRange] at this
      exact this
    · have := h.2.filterMap (fun ix => match ix with | .at i => b.children[i]? | _ => none)
      rw [show List.filterMap _ (ixRange b.children.length) = pick b.children (ixRange b.children.length) from rfl,
        pick_ixRange] at this
      exact this

/-- the root of the script satisfies the premise of `keep_reproduces` (and so does every node below, by `script_accounts`) -/
theorem keep_root (o : Opts) (orc : Oracle) (fp tp : List Nat) (f t : Tree) (hf : f.KeysDistinct) (ht : t.KeysDistinct) :
    LocalAcc (.tree f) (.tree t) (edits o orc fp tp f t).kind (edits o orc fp tp f t).subs :=
  ((walk_iff _ _ _).1 (script_accounts o orc fp tp f t hf ht)).1

/-! ### non-vacuity and concrete instances

  `edits` is defined by well-founded recursion and `Tree.eq` too, so the kernel cannot evaluate them on literals;
  the examples are given for the sub-functions (evaluated by `decide +kernel` where no node equality is involved,
  by `simp` otherwise); the correspondence stream ties whole scripts to the real engine. -/

/-- the hypotheses are satisfiable by non-trivial trees / documents -/
example : (Tree.list [.dict [([107], .leaf (.float [53])), ([108], .list [.fdict [([97], .leaf .null), ([98], .leaf .null)]])]]).KeysDistinct := by
  decide
example : (Doc.obj [([107], .scalar (.int 5)), ([108], .list [.obj [([107], .scalar .null)]])]).KeysDistinct := by decide
/-- … and can fail (a duplicated key, which no Python dict can hold) -/
example : ¬ (Tree.dict [([107], .leaf .null), ([107], .leaf .null)]).KeysDistinct := by decide

/-- an adversarial solver answer (out-of-range indices, a row and a column used twice) is cut down to a partial injection -/
example : sanitize 2 2 [] [(0, 1), (0, 0), (5, 1), (1, 1), (1, 0), (1, 0)] = [(0, 1), (1, 0)] := by decide

/-- "abc" → "axc": match a, insert x, remove b, match c — each character of both strings once, in order -/
example : fromIdx (strSubs [97, 98, 99] [97, 120, 99]).1 = [.at 0, .at 1, .at 2] ∧
    toIdx (fun _ => .same) (strSubs [97, 98, 99] [97, 120, 99]).1 = [.at 0, .at 1, .at 2] ∧
    ((strSubs [97, 98, 99] [97, 120, 99]).1.map Script.kind) = [.match_, .insert, .remove, .match_] := by
  decide +kernel

/-- FixedLengthSequenceEdit of 3 against 1 element: one positional pair, two removals -/
example : fromIdx (fixedScript [.leaf .null, .leaf (.float [49]), .leaf .null] [.leaf (.float [50])] [[mkMatch 1]]).subs
      = [.at 0, .at 1, .at 2] ∧
    toIdx (fun _ => .same) (fixedScript [.leaf .null, .leaf (.float [49]), .leaf .null] [.leaf (.float [50])] [[mkMatch 1]]).subs
      = [.at 0] := by
  decide +kernel

/-- the index bookkeeping notices an element that is accounted twice or not at all -/
example : fromIdx [mkRemove 0 1 1, mkRemove 0 1 1] ≠ ixRange 2 := by decide
example : fromIdx [mkRemove 1 1 1] ≠ ixRange 2 := by decide

def fkvE : List (Str × Tree) := [([97], .leaf (.float [49])), ([98], .leaf .null), ([99], .leaf (.str [120]))]
def tkvE : List (Str × Tree) := [([98], .leaf (.float [50])), ([100], .leaf (.float [49])), ([97], .leaf (.float [49]))]
/-- an adversarial solver answer for the matcher over the nodes left to it (from-pairs 1, 2; to-pairs 0, 1):
    out-of-range indices, a repeated pair, a repeated column -/
def orcE : Oracle := [{ f := [[1], [2]], t := [[0], [1]], pairs := [(7, 0), (1, 1), (1, 1), (1, 5), (0, 1)] }]

example : (Tree.dict fkvE).KeysDistinct ∧ (Tree.dict tkvE).KeysDistinct := by decide

/-- MultiSetEdit without auto key matching on {a:1.0, b:null, c:"x"} → {b:2.0, d:1.0, a:1.0}: the identity match of
    a:1.0 resolves to to-index 2; of the solver's answer only (1,1) survives (c ↦ d), b is removed, b:2.0 inserted;
    both index lists are permutations (neither is the identity) -/
example : fromIdx (msScript false orcE [] [] fkvE tkvE []).subs = [.at 0, .at 2, .at 1] ∧
    toIdx (keyResolve fkvE tkvE) (msScript false orcE [] [] fkvE tkvE []).subs = [.at 2, .at 1, .at 0] ∧
    (msScript false orcE [] [] fkvE tkvE []).subs.map Script.kind = [.match_, .kvp, .remove, .insert] := by
  simp [msScript, fkvE, tkvE, orcE, kvEq, Tree.eq, Scalar.eq, findKey, List.range_succ, kvpScript, Oracle.lookup,
    sanitize, sortPairs, insertPair, mkCompound, fromIdx, toIdx, toIxOf, keyResolve, List.filter_cons,
    List.getD_eq_getElem?_getD, mkMatch, mkRemove, mkInsert, Script.relabel]

/-- FixedKeyDictNodeEdit on the same pairs: a↦2, b↦0 by key, c removed, d inserted -/
example : fromIdx (fkScript fkvE tkvE []).subs = [.at 0, .at 1, .at 2] ∧
    toIdx (fun _ => .none) (fkScript fkvE tkvE []).subs = [.at 2, .at 0, .at 1] := by
  simp [fkScript, fkvE, tkvE, kvEq, Tree.eq, Scalar.eq, findKey, List.range_succ, kvpScript, mkCompound, fromIdx, toIdx,
    toIxOf, List.filter_cons, List.getD_eq_getElem?_getD, mkMatch, mkRemove, mkInsert, Script.relabel]

end GtModel.C01

/-
  C01 for general multisets (`MultiSetNode` of arbitrary nodes WITH duplicates; library API only): the sub-edits of a
  `MultiSetEdit` account for every element of the FIRST multiset exactly as often as it occurs — BY MULTIPLICITY,
  because equal elements of a multiset share one node object (`HashableCounter` key), so an edit can only name "an
  element equal to x", not a position.

  Model: `GtModel.MSet.msGeneral` (Model/MSetEdits.lean), validated by stream `scriptmset`.
  `children()` of a multiset node = `elements()` of its counter; as classes: `(parts fs ts).chF`; the from-index a
  sub-edit carries is the position of the FIRST occurrence of its node object (`chF.idxOf`).

  * `mset_accounts` (both sides) / `mset_accounts_from`: the from-indices of all sub-edits that are not Inserts are a PERMUTATION of
    `children()` with every child replaced by the first occurrence of its object — for EVERY oracle answer, i.e. also
    when the matcher's node-keyed dict collides (D21): a pair dropped by the collision re-appears as a Remove
    (`to_remove - Counter(dict keys)`).  So D21 breaks the cost (C03), not the accounting of the first multiset.
  * `mset_accounts_to`: the same for the SECOND multiset: the to-indices of all sub-edits that are not Removes (an
    Insert names the inserted node; an identity match `Match(n, n, 0)` is resolved by `msResolve` to the equal element of
    the second multiset) are a permutation of its `children()` — again for every oracle answer: a to-node whose pair the
    dict dropped re-appears as an Insert (`to_insert - Counter(matched to-nodes)`).
-/
import GtModel.Proofs.MSetLemmas

namespace GtModel.C01
open GtModel GtModel.MSet

/-- `MultiSetEdit`, from side, by multiplicity; `etbl` = any table of element-to-element scripts (never bare
    Insert / Remove) -/
theorem mset_accounts_from (orc : Oracle) (fp tp : List Nat) (fs ts : List Tree)
    (etbl : Nat → Nat → Script) (hT : ∀ a b, (etbl a b).kind.isTop = true) :
    (fromIdx (msGenScript orc fp tp fs ts (parts fs ts) etbl).subs).Perm
      ((parts fs ts).chF.map fun k => Ix.at ((parts fs ts).chF.idxOf k)) :=
  msGenScript_accounts_from orc fp tp fs ts etbl hT

/-- `MultiSetEdit`, to side, by multiplicity -/
theorem mset_accounts_to (orc : Oracle) (fp tp : List Nat) (fs ts : List Tree)
    (etbl : Nat → Nat → Script) (hT : ∀ a b, (etbl a b).kind.isTop = true) :
    (toIdx (msResolve (parts fs ts)) (msGenScript orc fp tp fs ts (parts fs ts) etbl).subs).Perm
      ((parts fs ts).chT.map fun k => Ix.at ((parts fs ts).chT.idxOf k)) :=
  msGenScript_accounts_to orc fp tp fs ts etbl hT

-- [audit] non-vacuity of `mset_accounts_from` / `mset_accounts_to`: the hypothesis `hT` (table entries are never bare
-- Insert / Remove / kvp) holds for a constant table; multisets with a duplicate and a shared element
example := mset_accounts_from [] [] [] [.leaf (.int 1), .leaf (.int 1), .leaf (.int 2)] [.leaf (.int 4), .leaf (.int 2)]
  (fun _ _ => mkMatch 1) (fun _ _ => rfl)
-- [audit] non-vacuity
example := mset_accounts_to [] [] [] [.leaf (.int 1), .leaf (.int 1), .leaf (.int 2)] [.leaf (.int 4), .leaf (.int 2)]
  (fun _ _ => mkMatch 1) (fun _ _ => rfl)

/-- `MultiSetNode(fs).edits(MultiSetNode(ts))`: either `Match(…, 0)` without sub-edits (equal counters), or a
    MultiSetEdit whose sub-edits account for BOTH multisets by multiplicity — all options, all oracles -/
theorem mset_accounts (o : Opts) (orc : Oracle) (fp tp : List Nat) (fs ts : List Tree) :
    msGeneral o orc fp tp fs ts = mkMatch 0 ∨
    ((msGeneral o orc fp tp fs ts).kind = .ms ∧
      (fromIdx (msGeneral o orc fp tp fs ts).subs).Perm
        ((parts fs ts).chF.map fun k => Ix.at ((parts fs ts).chF.idxOf k)) ∧
      (toIdx (msResolve (parts fs ts)) (msGeneral o orc fp tp fs ts).subs).Perm
        ((parts fs ts).chT.map fun k => Ix.at ((parts fs ts).chT.idxOf k))) := by
  unfold msGeneral
  simp only []
  by_cases h : ((firstOcc ((parts fs ts).fcls ++ (parts fs ts).tcls)).all
      fun k => (parts fs ts).fcls.count k == (parts fs ts).tcls.count k) = true
  · simp only [h, if_true]; exact Or.inl trivial
  · simp only [h, if_false, Bool.false_eq_true]
    exact Or.inr ⟨rfl, msGenScript_accounts_from orc fp tp fs ts _ (fun _ _ => edits_kind_top ..),
      msGenScript_accounts_to orc fp tp fs ts _ (fun _ _ => edits_kind_top ..)⟩

/-- the number of children = the number of elements (duplicates counted) -/
theorem mset_children_length (fs ts : List Tree) : (parts fs ts).chF.length = fs.length := by
  have h : ∀ (l : List Nat), (elementsOf (firstOcc l) fun k => l.count k).length = l.length := by
    intro l
    have hp : (elementsOf (firstOcc l) fun k => l.count k).Perm l := by
      rw [List.perm_iff_count]
      intro k
      exact count_elementsOf_firstOcc l _ k (fun h => List.count_eq_zero.2 h)
    exact hp.length_eq
  have hl : ∀ (pre l : List Tree), (classesFrom pre l).length = l.length := by
    intro pre l
    induction l generalizing pre with
    | nil => rfl
    | cons x xs ih => simp [classesFrom, ih]
  simp only [parts]
  rw [h, hl]

/-! ### concrete instance: the D21 input -/

/-- `[1, 1]` → `[4, 5]` with the dict collision: sub-edits Match(1→5), Remove(1), Insert(4); the two from-indices are
    both 0 (the one shared node `1`), a permutation of children() = [node@0, node@0] -/
example :
    let s := msGenScript [] [] [] [.leaf (.int 1), .leaf (.int 1)] [.leaf (.int 4), .leaf (.int 5)]
      { fcls := [0, 0], tcls := [2, 3], chF := [0, 0], chT := [2, 3], matE := [], remE := [0, 0], insE := [2, 3] }
      (fun _ _ => mkMatch 1)
    fromIdx s.subs = [.at 0, .at 0] ∧ toIdx (fun _ => .none) s.subs = [.at 1, .at 0] := by
  decide +kernel

end GtModel.C01

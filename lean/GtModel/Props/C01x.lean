/-
  C01 for XML / HTML elements: "the sub-edits of every compound edit account for every element of the first
  container exactly once and every element of the second exactly once, at every nesting level, and keep the
  relative order of list elements."

  Model: `GtModel.Xml.xmlEdits` (Model/XmlEdits.lean), validated against the real engine by stream `scriptxml`.
  The nodes an XML edit relates (`XNd`): elements, child tuples (`XMLElementChildren`), L2 nodes (tag and text
  strings, the attribute mapping and everything below).  Children: of an element = `XMLElement.children()` =
  (tag, attrib, [text], children); of a child tuple = its elements.  Index bookkeeping as in C01:
    `xfromIdx subs`  from-index of every sub-edit that is not an Insert, in script order;
    `xtoIdx subs`    to-index of every sub-edit that is not a Remove (for an Insert its `fi`: the inserted node).
  Per node (`XLocalAcc`): both index lists EQUAL `ixRange` of the number of children: each child exactly once, in
  order.  For an XMLElementEdit this says: its parts are the tag edit, the attribute edit, a text edit exactly when
  either side has text (edit of both texts, or Remove of the from-text, or Insert of the to-text) and the edit of
  the child tuples — in that order, nothing else.
  All levels (`xml_script_accounts`): `XAccounts` holds at the root, every sub-edit that itself has sub-edits names
  existing children (i, j) of the two nodes and `XAccounts` holds for it on those children; the embedded L2 scripts
  satisfy C01's `Accounts` (`C01.script_accounts`: permutations for the attribute MultiSetEdit /
  FixedKeyDictNodeEdit, for EVERY oracle answer).

  Hypothesis `XTree.KeysDistinct`: no attribute mapping holds a name twice (true of every parsed element; needed
  only for the to-side of the attribute edits, exactly as in C01).
-/
import GtModel.Proofs.XmlAccounts
import GtModel.Props.C01

namespace GtModel.C01
open GtModel GtModel.Xml

/-! ### per node -/

/-- XMLElementEdit: tag, attributes, text (when either side has one), children — each exactly once, in order -/
theorem xml_elem_accounts (o : Opts) (orc : Oracle) (fp tp : List Nat) (ftag ttag : Str) (fattr tattr : Tree)
    (ftext ttext : Option Str) (fcs tcs : List XTree) (tbl : List (List XScript)) :
    let s := elemScript (strEdits ftag ttag) (edits o orc fp tp fattr tattr) (textEdit ftext ttext)
      (kidsIx ftext) (kidsIx ttext) (kidsScript o fcs tcs tbl)
    xfromIdx s.subs = ixRange (XNd.elem (.mk ftag fattr ftext fcs)).children.length ∧
    xtoIdx s.subs = ixRange (XNd.elem (.mk ttag tattr ttext tcs)).children.length :=
  elemScript_idx ftag ttag fattr tattr ftext ttext fcs tcs _ _ (edits_kind_top ..) (kidsScript_top ..)

/-- the number of parts: 3 without text on a side, 4 with -/
theorem xml_elem_children_length (tag : Str) (a : Tree) (x : Option Str) (cs : List XTree) :
    (XNd.elem (.mk tag a x cs)).children.length = if x.isSome then 4 else 3 := by
  cases x <;> rfl

/-- EditDistance over the child elements: each element of both tuples exactly once, in order -/
theorem xml_ed_accounts (o : Opts) (orc : Oracle) (fp tp : List Nat) (kf kt : Nat) (fcs tcs : List XTree) (pen : Nat) :
    xfromIdx (kidsEd fcs tcs pen (kidsTbl o orc fp tp kf kt fcs tcs)).subs = ixRange fcs.length ∧
    xtoIdx (kidsEd fcs tcs pen (kidsTbl o orc fp tp kf kt fcs tcs)).subs = ixRange tcs.length :=
  kidsEd_idx fcs tcs pen _ (kidsTbl_top o orc fp tp kf kt fcs tcs)

/-- FixedLengthSequenceEdit over the child elements: each element of both tuples exactly once, in order -/
theorem xml_fixed_accounts (o : Opts) (orc : Oracle) (fp tp : List Nat) (kf kt : Nat) (fcs tcs : List XTree) :
    xfromIdx (kidsFixed fcs tcs (kidsTbl o orc fp tp kf kt fcs tcs)).subs = ixRange fcs.length ∧
    xtoIdx (kidsFixed fcs tcs (kidsTbl o orc fp tp kf kt fcs tcs)).subs = ixRange tcs.length :=
  kidsFixed_idx fcs tcs _ (kidsTbl_top o orc fp tp kf kt fcs tcs)

/-! ### every nesting level -/

/-- C01 for XML: the script accounts for both elements at every nesting level -/
theorem xml_script_accounts (o : Opts) (orc : Oracle) (fp tp : List Nat) (f t : XTree)
    (hf : f.KeysDistinct) (ht : t.KeysDistinct) :
    XAccounts (.elem f) (.elem t) (xmlEdits o orc fp tp f t) :=
  xaccounts_xmlEdits o orc f fp tp t hf ht

/-- C01 for whole XML documents -/
theorem xml_script_accounts_docs (o : Opts) (orc : Oracle) (f t : XDoc)
    (hf : XDoc.keysDistinct f = true) (ht : XDoc.keysDistinct t = true) :
    XAccounts (.elem (xbuild o f)) (.elem (xbuild o t)) (diffXml o orc f t) :=
  xml_script_accounts o orc [] [] _ _ (xbuild_keysDistinct o f hf) (xbuild_keysDistinct o t ht)

/-! ### "discarding inserted reproduces the first element, discarding removed reproduces the second" -/

/-- the from-children a compound XML edit keeps when everything inserted is discarded -/
def xkeepFrom (a : XNd) (subs : List XScript) : List XNd := pick a.children (xfromIdx subs)
/-- the to-children a compound XML edit keeps when everything removed is discarded -/
def xkeepTo (b : XNd) (subs : List XScript) : List XNd := pick b.children (xtoIdx subs)

/-- every compound XML edit keeps exactly the children of the first node when the insertions are discarded and
    exactly the children of the second when the removals are discarded, in order -/
theorem xml_keep_reproduces {a b : XNd} {k : XKind} {subs : List XScript} (h : XLocalAcc a b k subs)
    (hk : k.hasSubs = true) : xkeepFrom a subs = a.children ∧ xkeepTo b subs = b.children := by
  have h := (h hk).2
  simp only [xkeepFrom, xkeepTo, h.1, h.2, pick_ixRange, and_self]

-- [audit] non-vacuity of `xml_keep_reproduces`: `<a>x</a>` → `<a/>` (text removed): a concrete `XLocalAcc` instance
def auditXa : XTree := .mk [97] (.dict []) (some [120]) []
def auditXb : XTree := .mk [97] (.dict []) none []
def auditXsubs : List XScript :=
  (elemScript (mkMatch 0) (mkMatch 0) (textEdit (some [120]) none) 3 2 (xMatch 0)).subs
-- [audit] non-vacuity
theorem audit_xLocalAcc : XLocalAcc (.elem auditXa) (.elem auditXb) .elem auditXsubs := by
  intro _; exact ⟨trivial, by decide +kernel⟩
-- [audit] non-vacuity
example : xkeepFrom (.elem auditXa) auditXsubs = (XNd.elem auditXa).children ∧
    xkeepTo (.elem auditXb) auditXsubs = (XNd.elem auditXb).children :=
  xml_keep_reproduces audit_xLocalAcc rfl

/-! ### non-vacuity and concrete instances -/

/-- the hypothesis is satisfiable by a non-trivial document … -/
example : XDoc.keysDistinct (.mk [97] [([107], [49]), ([108], [50])] (some [120]) none
    [.mk [98] [([107], [49])] none (some [116]) [], .mk [99] [] none none []]) = true := by decide
/-- … and can fail (a duplicated attribute, which no parser delivers) -/
example : XDoc.keysDistinct (.mk [97] [([107], [49]), ([107], [50])] none none []) = false := by decide

/-- `<a> x</a>` → `<a>x<b/></a>`-shaped element edit: tag (0,0), attrib (1,1), text (2,2), children (3,3) -/
example :
    let s := elemScript (mkMatch 0) (mkMatch 0) (textEdit (some [32, 120]) (some [120])) 3 3 (xMatch 0)
    xfromIdx s.subs = [.at 0, .at 1, .at 2, .at 3] ∧ xtoIdx s.subs = [.at 0, .at 1, .at 2, .at 3] := by
  decide +kernel

/-- text only on the first element: the text is removed (from-index 2), the children sit at 3 on the from side and
    at 2 on the to side -/
example :
    let s := elemScript (mkMatch 0) (mkMatch 0) (textEdit (some [120]) none) 3 2 (xMatch 0)
    xfromIdx s.subs = [.at 0, .at 1, .at 2, .at 3] ∧ xtoIdx s.subs = [.at 0, .at 1, .at 2] := by
  decide +kernel

/-- the bookkeeping notices a part that is accounted twice or not at all -/
example : xfromIdx [XScript.emb (mkMatch 0 |>.relabel (.at 0) (.at 0)), xMatch 0 |>.relabel (.at 2) (.at 2)] ≠ ixRange 3 := by
  decide

end GtModel.C01

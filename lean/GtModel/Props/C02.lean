/-
  C02  "No edits are reported exactly when the two documents are equal (same structure, keys and scalar values;
        mapping order ignored, list order respected).  Whenever they differ anywhere, at least one edit of
        positive cost is reported."

  Statements are about the L2 model `edits` (Model/Edits.lean), for ALL options, oracles (assignment-solver
  answers), node paths and trees.
-/
import GtModel.Proofs.ZeroMain
import GtModel.Proofs.ZeroBuild
import GtModel.Proofs.ZeroAtom

namespace GtModel.C02
open GtModel

/-- (1) The fully refined script of `from.edits(to)` has total cost 0 exactly when the nodes compare equal
    (`Tree.eq` = graphtage's `__eq__`: lists element-wise in order, mappings as sets of pairs), for trees whose
    mappings have distinct keys (`Tree.WF`; every tree built from a parsed document is such, see `build_WF`). -/
theorem zero_cost_iff_eq (o : Opts) (orc : Oracle) (fp tp : List Nat) (f t : Tree)
    (hf : f.WF = true) (ht : t.WF = true) :
    (edits o orc fp tp f t).cost = 0 ↔ Tree.eq f t = true :=
  ⟨cost_zero_imp_eq o orc _ f (Nat.le_refl _) fp tp t hf ht, eq_imp_cost_zero o orc fp tp f t⟩

/-- non-vacuity: the hypotheses hold for concrete nested trees — an equal pair up to key order and an unequal pair
    (`1` vs `"1"`); by the theorem the first costs 0 and the second does not -/
example :
    let f : Tree := .dict [([97], .leaf (.int 1)), ([98], .list [.leaf (.str [120])])]
    let t : Tree := .dict [([98], .list [.leaf (.str [120])]), ([97], .leaf (.int 1))]
    let u : Tree := .dict [([97], .leaf (.str [49])), ([98], .list [.leaf (.str [120])])]
    f.WF = true ∧ t.WF = true ∧ u.WF = true ∧ f.eq t = true ∧ f.eq u = false ∧
      (edits {} [] [] [] f t).cost = 0 ∧ (edits {} [] [] [] f u).cost ≠ 0 := by
  intro f t u
  have hf : f.WF = true := by decide
  have ht : t.WF = true := by decide
  have hu : u.WF = true := by decide
  have e1 : f.eq t = true := by simp [f, t, Tree.eq, subKV, findKV, eqL, Scalar.eq]
  have e2 : f.eq u = false := by simp [f, u, Tree.eq, subKV, findKV, eqL, Scalar.eq]
  refine ⟨hf, ht, hu, e1, e2, (zero_cost_iff_eq _ _ _ _ f t hf ht).2 e1, ?_⟩
  intro h
  have := (zero_cost_iff_eq _ _ _ _ f u hf hu).1 h
  rw [e2] at this; exact Bool.false_ne_true this

/-- the direction that needs no hypothesis -/
theorem eq_zero_cost (o : Opts) (orc : Oracle) (fp tp : List Nat) (f t : Tree) (h : Tree.eq f t = true) :
    (edits o orc fp tp f t).cost = 0 := eq_imp_cost_zero o orc fp tp f t h

/-- every document whose objects have distinct keys (what a JSON/YAML parser produces) builds a well-formed
    tree, for every option set -/
theorem build_WF (o : Opts) (d : Doc) (h : d.distinctKeys = true) : (build o d).WF = true :=
  GtModel.build_WF o d h

example : (Doc.obj [([98], .list [.scalar (.int 1), .obj [([97], .scalar .null)]]), ([97], .scalar (.bool true))]).distinctKeys
    = true := by decide

/-- (2) node equality of the built trees IS equality of the documents as data (`Doc.dataEq`: scalars by value and
    type, lists in order, objects as finite maps), for every option set (`DictNode` or `FixedKeyDictNode`) -/
theorem eq_iff_dataEq (o : Opts) (a b : Doc) (ha : a.distinctKeys = true) (hb : b.distinctKeys = true) :
    Tree.eq (build o a) (build o b) = Doc.dataEq a b :=
  eq_iff_dataEq_aux o _ a (Nat.le_refl _) b ha hb

/-- (2) C02 on documents: the whole comparison reports total cost 0 exactly when the two documents are equal as
    data — for all options and all assignment-solver answers -/
theorem zero_cost_iff_dataEq (o : Opts) (orc : Oracle) (a b : Doc)
    (ha : a.distinctKeys = true) (hb : b.distinctKeys = true) :
    (diffDocs o orc a b).cost = 0 ↔ Doc.dataEq a b = true := by
  unfold diffDocs
  rw [zero_cost_iff_eq o orc [] [] _ _ (build_WF o a ha) (build_WF o b hb), eq_iff_dataEq o a b ha hb]

/-- non-vacuity: two documents with distinct keys, equal as data but with different key order, and a third one
    differing in a nested scalar's type -/
example :
    let a : Doc := .obj [([97], .scalar (.int 1)), ([98], .list [.scalar (.str [120])])]
    let b : Doc := .obj [([98], .list [.scalar (.str [120])]), ([97], .scalar (.int 1))]
    let c : Doc := .obj [([98], .list [.scalar (.str [120])]), ([97], .scalar (.str [49]))]
    a.distinctKeys = true ∧ b.distinctKeys = true ∧ c.distinctKeys = true ∧
      a.dataEq b = true ∧ a.dataEq c = false := by
  refine ⟨by decide, by decide, by decide, ?_, ?_⟩ <;>
    simp [Doc.dataEq, keysSub, agreeKV, agree1, dataEqL, Scalar.eq]

/-- every script of positive cost contains a non-compound edit (match / replace / remove / insert) of positive
    cost — for all options, oracles and trees (no well-formedness needed) -/
theorem pos_atom_of_pos_cost (o : Opts) (orc : Oracle) (fp tp : List Nat) (f t : Tree)
    (h : 0 < (edits o orc fp tp f t).cost) : PosAtom (edits o orc fp tp f t) :=
  good_edits o orc _ f (Nat.le_refl _) fp tp t h

/-- (3) "Whenever they differ anywhere, at least one edit of positive cost is reported": if the documents are not
    equal as data, the script contains a non-compound edit of positive cost -/
theorem positive_edit_exists (o : Opts) (orc : Oracle) (a b : Doc)
    (ha : a.distinctKeys = true) (hb : b.distinctKeys = true) (hne : Doc.dataEq a b = false) :
    PosAtom (diffDocs o orc a b) := by
  apply good_edits o orc _ _ (Nat.le_refl _)
  apply Nat.pos_of_ne_zero
  intro h0
  have := (zero_cost_iff_dataEq o orc a b ha hb).1 h0
  rw [hne] at this; exact Bool.false_ne_true this

/-- non-vacuity of (3): `{"a": [1, 2]}` vs `{"a": [1, "2"]}` -/
example :
    let a : Doc := .obj [([97], .list [.scalar (.int 1), .scalar (.int 2)])]
    let b : Doc := .obj [([97], .list [.scalar (.int 1), .scalar (.str [50])])]
    a.distinctKeys = true ∧ b.distinctKeys = true ∧ a.dataEq b = false := by
  refine ⟨by decide, by decide, ?_⟩
  simp [Doc.dataEq, keysSub, agreeKV, agree1, dataEqL, Scalar.eq]

/-- (4) the command's exit status as a function of the final script: `had_edits` is set when an edit with
    non-zero cost is seen (definition-level model of `__main__`: 1 iff the total cost is positive) -/
def exitStatus (s : Script) : Nat := if s.cost = 0 then 0 else 1

/-- (4) exit status 0 exactly for documents that are equal as data; and status 1 comes with a concrete
    non-compound edit of positive cost in the script (the edit `has_non_zero_cost()` fires on) -/
theorem exit_status_iff (o : Opts) (orc : Oracle) (a b : Doc)
    (ha : a.distinctKeys = true) (hb : b.distinctKeys = true) :
    (exitStatus (diffDocs o orc a b) = 0 ↔ Doc.dataEq a b = true) ∧
    (exitStatus (diffDocs o orc a b) = 1 → PosAtom (diffDocs o orc a b)) := by
  unfold exitStatus
  constructor
  · rw [← zero_cost_iff_dataEq o orc a b ha hb]
    split <;> simp_all
  · intro h
    apply good_edits o orc _ _ (Nat.le_refl _)
    split at h
    · simp at h
    · unfold diffDocs at *; omega

end GtModel.C02

/-
  C02 for XML / HTML elements: "No edits are reported exactly when the two documents are equal.  Whenever they
  differ anywhere, at least one edit of positive cost is reported."

  Statements are about the model `GtModel.Xml.xmlEdits` (Model/XmlEdits.lean; validated against the real engine by
  stream `scriptxml`), for ALL options, oracles (assignment-solver answers), node paths and elements.

  What "equal" means for graphtage (`XMLElement.__eq__` = `XTree.eq`): same tag, equal attribute mappings, same text
  after `.strip()` with absent ≡ empty, pairwise equal children in order.  Two facts of the code are mirrored, not
  repaired:
   * D23 (genuine C02 defect, `xml_tail_ignored`): `xml.build_tree` never reads ElementTree's `.tail`, so text that
     follows a child element (`<p>one <b>two</b> three</p>`) is not part of the tree at all: two documents that differ
     only there are reported as identical (cost 0, exit status 0).  The strongest true statement is
     `xml_zero_cost_iff_dataEq`: cost 0 ⇔ equal as data IGNORING the tails.
   * text white space: `==` ignores surrounding white space of the text, but the text edit inside an XMLElementEdit
     (built only for elements that are NOT `==`) compares the texts exactly (`xml_text_whitespace_charged`).  This does
     not affect "cost 0 ⇔ equal": equal elements short-circuit to `Match(…, 0)` at every level.
-/
import GtModel.Proofs.XmlAtom

namespace GtModel.C02
open GtModel GtModel.Xml

/-- (1) The fully refined script of `from.edits(to)` on two elements has total cost 0 exactly when they compare
    equal, for elements whose attribute mappings have distinct names (`XTree.WF`; every parsed element is such,
    see `xml_build_WF`). -/
theorem xml_zero_cost_iff_eq (o : Opts) (orc : Oracle) (fp tp : List Nat) (f t : XTree)
    (hf : f.WF = true) (ht : t.WF = true) :
    (xmlEdits o orc fp tp f t).cost = 0 ↔ XTree.eq f t = true :=
  ⟨xml_cost_zero_imp_eq o orc f fp tp t hf ht, xml_eq_imp_cost_zero o orc fp tp f t⟩

/-- the direction that needs no hypothesis: `==` elements cost 0 (the `Match(self, node, 0)` short-circuit), whatever
    white space surrounds their texts -/
theorem xml_eq_zero_cost (o : Opts) (orc : Oracle) (fp tp : List Nat) (f t : XTree) (h : XTree.eq f t = true) :
    (xmlEdits o orc fp tp f t).cost = 0 := xml_eq_imp_cost_zero o orc fp tp f t h

/-- `XMLElement.__eq__` is symmetric (its definition swaps the operands at every level) -/
theorem xml_eq_symm (f t : XTree) (hf : f.WF = true) (ht : t.WF = true) : XTree.eq f t = XTree.eq t f :=
  xtreeEq_symm f t hf ht

/-- every document whose elements have distinct attribute names builds a well-formed tree, for every option set -/
theorem xml_build_WF (o : Opts) (d : XDoc) (h : d.wf = true) : (xbuild o d).WF = true := xbuild_WF o d h

/-- (2) node equality of the built elements IS `XDoc.dataEq` (tag, attributes as a finite map, text modulo
    surrounding white space with absent ≡ empty, children in order; tails ignored), for every option set
    (`DictNode` or `FixedKeyDictNode` attributes) -/
theorem xml_eq_iff_dataEq (o : Opts) (a b : XDoc) (ha : a.wf = true) (hb : b.wf = true) :
    XTree.eq (xbuild o a) (xbuild o b) = XDoc.dataEq a b := xeq_iff_dataEq o a b ha hb

/-- (2) C02 on XML documents, the strongest true form: the whole comparison reports total cost 0 exactly when the
    two documents are equal as data ignoring tails — for all options and all assignment-solver answers -/
theorem xml_zero_cost_iff_dataEq (o : Opts) (orc : Oracle) (a b : XDoc) (ha : a.wf = true) (hb : b.wf = true) :
    (diffXml o orc a b).cost = 0 ↔ XDoc.dataEq a b = true := by
  unfold diffXml
  rw [xml_zero_cost_iff_eq o orc [] [] _ _ (xbuild_WF o a ha) (xbuild_WF o b hb), xeq_iff_dataEq o a b ha hb]

/-- every XML script of positive cost contains a non-compound edit (match / replace / remove / insert, possibly
    inside the embedded tag / attribute / text script) of positive cost — no well-formedness needed -/
theorem xml_pos_atom_of_pos_cost (o : Opts) (orc : Oracle) (fp tp : List Nat) (f t : XTree)
    (h : 0 < (xmlEdits o orc fp tp f t).cost) : XPosAtom (xmlEdits o orc fp tp f t) :=
  xgood_xmlEdits o orc f fp tp t h

/-- (3) "Whenever they differ anywhere, at least one edit of positive cost is reported" (for the data graphtage
    keeps: see D23 for the tails) -/
theorem xml_positive_edit_exists (o : Opts) (orc : Oracle) (a b : XDoc)
    (ha : a.wf = true) (hb : b.wf = true) (hne : XDoc.dataEq a b = false) : XPosAtom (diffXml o orc a b) := by
  apply xgood_xmlEdits
  apply Nat.pos_of_ne_zero
  intro h0
  have := (xml_zero_cost_iff_dataEq o orc a b ha hb).1 h0
  rw [hne] at this; exact Bool.false_ne_true this

/-- (4) exit status (1 iff the total cost is positive, as in `C02.exitStatus`) -/
def xexitStatus (s : XScript) : Nat := if s.cost = 0 then 0 else 1

theorem xml_exit_status_iff (o : Opts) (orc : Oracle) (a b : XDoc) (ha : a.wf = true) (hb : b.wf = true) :
    (xexitStatus (diffXml o orc a b) = 0 ↔ XDoc.dataEq a b = true) ∧
    (xexitStatus (diffXml o orc a b) = 1 → XPosAtom (diffXml o orc a b)) := by
  unfold xexitStatus
  constructor
  · rw [← xml_zero_cost_iff_dataEq o orc a b ha hb]
    split <;> simp_all
  · intro h
    apply xgood_xmlEdits
    split at h
    · simp at h
    · unfold diffXml at *; omega

/-! ### D23: the tail text is not compared (genuine C02 defect, mirrored) -/

/-- all `tail` texts of a document, in document order -/
def _root_.GtModel.Xml.XDoc.tails : XDoc → List (Option Str)
  | .mk _ _ _ tl cs => tl :: tailsL cs
where
  tailsL : List XDoc → List (Option Str)
    | [] => []
    | c :: cs => GtModel.Xml.XDoc.tails c ++ tailsL cs

/-- `<p>one <b>two</b> three</p>` and `<p>one <b>two</b> FOUR</p>` -/
def d23From : XDoc := .mk [112] [] (some [111, 110, 101, 32]) none
  [.mk [98] [] (some [116, 119, 111]) (some [32, 116, 104, 114, 101, 101]) []]
def d23To : XDoc := .mk [112] [] (some [111, 110, 101, 32]) none
  [.mk [98] [] (some [116, 119, 111]) (some [32, 70, 79, 85, 82]) []]

/-- D23 witness: two well-formed documents whose text content differs (` three` vs ` FOUR` after the `<b>` element)
    are reported as identical — total cost 0, exit status 0 — for all options and oracles -/
theorem xml_tail_ignored (o : Opts) (orc : Oracle) :
    d23From.wf = true ∧ d23To.wf = true ∧ d23From.tails ≠ d23To.tails ∧
    (diffXml o orc d23From d23To).cost = 0 ∧ xexitStatus (diffXml o orc d23From d23To) = 0 := by
  have hw1 : d23From.wf = true := by decide
  have hw2 : d23To.wf = true := by decide
  have hd : XDoc.dataEq d23From d23To = true := by
    simp [d23From, d23To, XDoc.dataEq, xdataEqL, attrDoc, Doc.dataEq, keysSub, agreeKV]
  have hc := (xml_zero_cost_iff_dataEq o orc _ _ hw1 hw2).2 hd
  exact ⟨hw1, hw2, by decide, hc, by simp [xexitStatus, hc]⟩

/-! ### text white space -/

/-- `str.strip()` on code points -/
example : strip [32, 9, 120, 32, 121, 10, 12288] = [120, 32, 121] := by decide
example : strip [32, 10] = [] ∧ eqText none = eqText (some [32, 10]) := by decide
/-- U+200B (zero width space) and U+FEFF are not white space for Python -/
example : strip [8203, 120] = [8203, 120] ∧ strip [65279, 120] = [65279, 120] := by decide

/-- the texts ` x` and `x` are equal for `==` but the text edit of an XMLElementEdit (built when the elements differ
    for another reason) charges the white space: `StringEdit(" x" → "x")` costs 1; an absent text against a
    white-space-only text costs its length + 1 -/
theorem xml_text_whitespace_charged :
    eqText (some [32, 120]) = eqText (some [120]) ∧
    (textEdit (some [32, 120]) (some [120])).map Script.cost = some 1 ∧
    eqText none = eqText (some [32, 32]) ∧ (textEdit none (some [32, 32])).map Script.cost = some 3 := by
  decide +kernel

/-! ### non-vacuity -/

/-- the hypotheses hold for concrete nested elements — an equal pair up to attribute order and text white space, and
    an unequal pair; by the theorem the first costs 0 and the second does not -/
example :
    let f : XDoc := .mk [97] [([107], [49]), ([108], [50])] (some [32, 120]) none [.mk [98] [] none (some [116]) []]
    let t : XDoc := .mk [97] [([108], [50]), ([107], [49])] (some [120, 10]) none [.mk [98] [] (some []) none []]
    let u : XDoc := .mk [97] [([108], [50]), ([107], [50])] (some [120, 10]) none [.mk [98] [] none none []]
    f.wf = true ∧ t.wf = true ∧ u.wf = true ∧ f.dataEq t = true ∧ f.dataEq u = false ∧
      (diffXml {} [] f t).cost = 0 ∧ (diffXml {} [] f u).cost ≠ 0 := by
  intro f t u
  have hf : f.wf = true := by decide
  have ht : t.wf = true := by decide
  have hu : u.wf = true := by decide
  have e1 : f.dataEq t = true := by
    simp [f, t, XDoc.dataEq, xdataEqL, attrDoc, Doc.dataEq, keysSub, agreeKV, agree1, Scalar.eq]; decide
  have e2 : f.dataEq u = false := by
    simp [f, u, XDoc.dataEq, xdataEqL, attrDoc, Doc.dataEq, keysSub, agreeKV, agree1, Scalar.eq]
  refine ⟨hf, ht, hu, e1, e2, (xml_zero_cost_iff_dataEq _ _ f t hf ht).2 e1, ?_⟩
  intro h
  have := (xml_zero_cost_iff_dataEq _ _ f u hf hu).1 h
  rw [e2] at this; exact Bool.false_ne_true this

end GtModel.C02

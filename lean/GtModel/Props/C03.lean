/-
  C03 "The reported cost equals the sum of its parts, in every view."

  Model: `GtModel.edits` (Model/Edits.lean) = the fully refined edit script of `from.edits(to)`; validated against the
  real engine by the correspondence stream `script`.

  (a) `reported_eq_sum`: at EVERY nesting level, a node that carries sub-edits (KeyValuePairEdit,
      FixedLengthSequenceEdit, EditDistance, MultiSetEdit, FixedKeyDictNodeEdit, StringEdit) reports exactly the sum
      of the costs of its sub-edits; Match/Replace/Remove/Insert carry none.  For `EditDistance`/`StringEdit` the
      reported cost is the lower-right matrix cell (`solve_total_eq_sum`) and the sub-edits are the replayed path.
  (b) `three_views_agree`: the flat edit list of `get_all_edit_contexts` (CompoundEdits exploded, StringEdit not,
      zero-cost edits skipped), the root edit's own cost, and `edited_cost()` of the annotated root (which sums the
      root's edit list = the root edit) are the same number.

  These two are statements about the L2 SCRIPT and need no hypothesis (all options, every oracle answer — the
  assignment solver's recorded matchings are sanitised —, all trees).  What they do NOT say by themselves: for the
  compound kinds kvp / fixed / ms / fk the script's cost is produced by `mkCompound`, i.e. it is the sum BY DEFINITION;
  only `ed` (EditDistance) and `str` (StringEdit) carry an independently computed total (`solve_total_eq_sum`).
  That the number the ENGINE reports for a compound edit (`bounds()` after tightening: matcher bounds + automatic pairs
  + left-overs for MultiSetEdit, …) is this sum is `C03.engine_reported_eq_sum_docs` (Props/C03l.lean), obtained from
  `C05.history_independent_docs` — and that link DOES have hypotheses: `OrcFull` (every recorded solver answer has full
  size; with a short answer L2's script still sums up while the machine stops with `Err.oracle`), distinct keys, `fkOK`
  without key edits (D24).  The link is NOT `C05.mkEdit_refines_L2` (a ghost identity that holds for every oracle and
  says nothing about `bounds()`).
-/
import GtModel.Proofs.EditsCost

namespace GtModel.C03
open GtModel

/-- C03(a) for the L2 script (no hypothesis; for kvp / fixed / ms / fk nodes the cost is `mkCompound`'s sum by
    definition, for ed / str it is the matrix total; the engine-level statement is `engine_reported_eq_sum_docs`) -/
theorem reported_eq_sum (o : Opts) (orc : Oracle) (fp tp : List Nat) (f t : Tree) :
    (edits o orc fp tp f t).CostOK :=
  costOK_edits o orc f fp tp t

/-- C03(a), unfolded one level for readability: the root of a script with sub-edits reports their sum -/
theorem reported_eq_sum_root (o : Opts) (orc : Oracle) (fp tp : List Nat) (f t : Tree)
    (h : (edits o orc fp tp f t).kind.hasSubs = true) :
    (edits o orc fp tp f t).cost = sumCosts (edits o orc fp tp f t).subs := by
  have := (Script.costOK_iff _).1 (reported_eq_sum o orc fp tp f t)
  simpa [h] using this.1

/-- C03(b) for the L2 script: `flatSum` is a second traversal of the same script value and `editedCost s` is `s.cost`
    by definition; the three REAL views (`edited_cost()`, Σ `get_all_edits()`, `bounds()`) are compared by the
    streams' monitors, and `bounds()` after any run is tied to `s.cost` by `engine_reported_eq_sum_docs` -/
theorem three_views_agree (o : Opts) (orc : Oracle) (fp tp : List Nat) (f t : Tree) :
    flatSum (edits o orc fp tp f t) = (edits o orc fp tp f t).cost ∧
    editedCost (edits o orc fp tp f t) = (edits o orc fp tp f t).cost :=
  ⟨flatSum_eq_cost _ (reported_eq_sum o orc fp tp f t), rfl⟩

/-- the same for whole documents -/
theorem three_views_agree_docs (o : Opts) (orc : Oracle) (f t : Doc) :
    flatSum (diffDocs o orc f t) = (diffDocs o orc f t).cost := (three_views_agree ..).1

/-! ### non-vacuity: the predicate discriminates, and a concrete compound script satisfies it -/

/-- `[1.0, "abc"]` → `["axc", 2.0, null]`-style script with a nested string edit (literal copy of a model output) -/
def sample : Script := .mk .ed .none .none 8
  [.mk .remove (.at 0) .none 2 [],
   .mk .str (.at 1) (.at 0) 2 [.mk .match_ (.at 0) (.at 0) 0 [], .mk .insert (.at 1) .none 1 [],
     .mk .remove (.at 1) .none 1 [], .mk .match_ (.at 2) (.at 2) 0 []],
   .mk .ms (.at 2) (.at 1) 2
     [.mk .kvp (.at 0) (.at 0) 1 [.mk .match_ (.at 0) (.at 0) 0 [], .mk .match_ (.at 1) (.at 1) 1 []],
      .mk .kvp (.at 1) (.at 1) 1 [.mk .match_ (.at 0) (.at 0) 1 [], .mk .match_ (.at 1) (.at 1) 0 []]],
   .mk .insert (.at 2) .none 2 []]

example : sample.CostOK := by simp [sample, Script.CostOK, CostOKL, Kind.hasSubs, sumCosts]
example : flatSum sample = 8 := by decide
/-- a node whose reported cost is NOT the sum of its parts (defect D6 shape) is rejected -/
example : ¬ (Script.mk .ed .none .none 3 [.mk .remove (.at 0) .none 2 []]).CostOK := by
  simp [Script.CostOK, CostOKL, Kind.hasSubs, sumCosts]

/-- the model on a concrete pair at the level of the string edit: "abc" → "axc" reports 2 = insert 1 + remove 1 -/
example : strEdits [97, 98, 99] [97, 120, 99] =
    .mk .str .none .none 2 [.mk .match_ (.at 0) (.at 0) 0 [], .mk .insert (.at 1) .none 1 [],
      .mk .remove (.at 1) .none 1 [], .mk .match_ (.at 2) (.at 2) 0 []] :=
  Script.eq_of_beq _ _ (by decide +kernel)

end GtModel.C03

/-
  C03 on the OPERATIONAL model (L3, Model/Lazy.lean): the cost the lazy engine ENDS WITH equals the sum of the costs
  of the sub-edits it lists, at every nesting level.

  Why this file exists.  `C03.reported_eq_sum` is a theorem about L2's script `edits`, whose compound nodes get their
  cost from `mkCompound` (a sum, by definition) — only EditDistance / StringEdit carry an independent total there.
  The engine does not compute a compound edit's cost that way: `bounds()` of a MultiSetEdit is the matcher's bounds
  plus the automatically matched pairs plus the cheapest / costliest left-overs (`msBounds`), of a
  FixedKeyDictNodeEdit / FixedLengthSequenceEdit the sum of the sub-edits' CURRENT intervals, of an EditDistance the
  fringe / corner cell.  The link between the two is `C05.history_independent_docs`: running ANY sequence of public
  operations and then tightening to exhaustion makes the engine dump exactly `toD (diffDocs …)`, where the interval
  dumped at every node is what `bounds()` of that node returns at that moment.  (NOT `C05.mkEdit_refines_L2`: that
  equates the GHOST script / ghost final cost of the fresh machine with L2's, and the ghost cost of a compound
  machine is again defined as a sum — it needs no hypothesis on the solver and says nothing about `bounds()`.)

  HYPOTHESES (those of `history_independent_docs`; C03's L2 theorems need none of them):
    * `OrcFull orc.assign` — every recorded answer of the assignment solver has full size `min(#from, #to)`.  With a
      smaller answer (e.g. `pairs := []` on `{"a":1,"b":1} → {"c":1,"d":1}`) L2's script still satisfies
      `reported_eq_sum` (cost 20) but the machine stops with `Err.oracle` and the real code reports 22;
    * distinct keys (Python dicts); without key edits the to-document in the domain `fkOK` (finding D24);
    * ONE solver oracle for all histories (see Props/C05.lean, M13).
-/
import GtModel.Props.C03
import GtModel.Props.C05

namespace GtModel.C03
open GtModel GtModel.Lazy

def _root_.GtModel.Lazy.DScript.iv : DScript → Iv | .mk _ _ _ b _ => b
def _root_.GtModel.Lazy.DScript.dkind : DScript → Kind | .mk k _ _ _ _ => k
def _root_.GtModel.Lazy.DScript.dsubs : DScript → List DScript | .mk _ _ _ _ s => s

mutual
/-- a DUMPED script (what the engine lists after tightening, with the interval `bounds()` returns at every node):
    every interval is a single number, and a node with sub-edits reports the sum of the numbers of its sub-edits;
    an edit without sub-edits lists none — at every level -/
def DumpSumOK : DScript → Prop
  | .mk k _ _ b subs =>
      b.lo = b.hi ∧ (if k.hasSubs then b.lo = ((subs.map fun d => d.iv.lo).sum) else subs = []) ∧ DumpSumOKL subs
def DumpSumOKL : List DScript → Prop
  | [] => True
  | d :: ds => DumpSumOK d ∧ DumpSumOKL ds
end

theorem toD_iv (s : Script) : (toD s).iv = Iv.point s.cost := by cases s; rfl

mutual
theorem dumpSumOK_toD : ∀ s : Script, s.CostOK → DumpSumOK (toD s)
  | .mk k f t c subs, h => by
    simp only [Script.CostOK] at h
    simp only [toD, DumpSumOK, Iv.point, true_and]
    refine ⟨?_, dumpSumOKL_toDL subs h.2⟩
    split
    · rename_i hk
      simp only [hk, if_true] at h
      rw [h.1, sum_toDL subs]
    · rename_i hk
      simp only [hk, Bool.false_eq_true, if_false] at h
      rw [h.1]; rfl
theorem dumpSumOKL_toDL : ∀ l : List Script, CostOKL l → DumpSumOKL (toDL l)
  | [], _ => trivial
  | s :: rest, h => by
    simp only [CostOKL] at h
    exact ⟨dumpSumOK_toD s h.1, dumpSumOKL_toDL rest h.2⟩
theorem sum_toDL : ∀ l : List Script, sumCosts l = ((toDL l).map fun d => d.iv.lo).sum
  | [] => rfl
  | s :: rest => by
    simp only [sumCosts_cons, toDL, List.map_cons, List.sum_cons, toD_iv, Iv.point]
    rw [sum_toDL rest]
end

/-- C03 on the engine: for every pair of documents with distinct keys, every option set, every full-size solver
    oracle, both values of `quiet`, every loop bound above the machine's measure: after ANY run `ops` of public
    operations, tightening to exhaustion succeeds and the engine's dump `d` — the sub-edits it lists with the cost
    interval `bounds()` gives each — satisfies "reported = sum of parts" at every level, and its root reports L2's cost
    (so the reported cost is also the sum of the flat edit list: `three_views_agree_docs`). -/
theorem engine_reported_eq_sum_docs (q : Bool) (o : Opts) (orc : Orc) (f t : Doc) (hkf : f.KeysDistinct)
    (hkt : t.KeysDistinct) (horc : OrcFull orc.assign) (hdom : o.ake = false → (build o t).fkOK = true) (F n : Nat)
    (hF : muG C04.noAtoms (mkEdit o orc [] [] (build o f) (build o t)) < F)
    (hn : height (mkEdit o orc [] [] (build o f) (build o t)) ≤ n + 1) (ops : List Op) :
    ∃ m1 rs m2 d, run q F n (mkEdit o orc [] [] (build o f) (build o t)) ops = .ok (m1, rs) ∧
      finish q F n m1 = .ok (m2, d) ∧ DumpSumOK d ∧
      d.iv = Iv.point (diffDocs o orc.assign f t).cost ∧
      (diffDocs o orc.assign f t).cost = flatSum (diffDocs o orc.assign f t) := by
  obtain ⟨m1, rs, m2, _, h1, _, h2, _⟩ :=
    C05.history_independent_docs q q o orc f t hkf hkt horc hdom F n hF hn ops
  exact ⟨m1, rs, m2, _, h1, h2, dumpSumOK_toD _ (reported_eq_sum o orc.assign [] [] _ _), toD_iv _,
    (three_views_agree_docs o orc.assign f t).symm⟩

/-! ### non-vacuity -/

/-- the predicate discriminates: a dumped MultiSetEdit reporting 22 over parts that sum to 20 is rejected, one that
    has not converged (`[1,9]`) is rejected, the converged sum is accepted -/
example : ¬ DumpSumOK (.mk .ms .none .none (Iv.point 22)
    [.mk .remove (.at 0) .none (Iv.point 10) [], .mk .insert (.at 0) .none (Iv.point 10) []]) := by
  simp [DumpSumOK, DumpSumOKL, Kind.hasSubs, DScript.iv, Iv.point]
example : ¬ DumpSumOK (.mk .match_ .none .none ⟨1, 9⟩ []) := by simp [DumpSumOK]
example : DumpSumOK (.mk .ms .none .none (Iv.point 20)
    [.mk .remove (.at 0) .none (Iv.point 10) [], .mk .insert (.at 0) .none (Iv.point 10) []]) := by
  simp [DumpSumOK, DumpSumOKL, Kind.hasSubs, DScript.iv, Iv.point]

/-- the hypotheses hold for C05's document pair (`{"a":1,"b":[1,2]}` → `{"a":2,"c":[1,3]}`, default options, the
    empty oracle: a MultiSetEdit over a matcher, key/value pair edits, an EditDistance) — the theorem applied -/
example (q : Bool) (ops : List Op) :
    ∃ m1 rs m2 d,
      run q (muG C04.noAtoms (mkEdit {} {} [] [] (build {} C05.exDocF) (build {} C05.exDocT)) + 1)
        (height (mkEdit {} {} [] [] (build {} C05.exDocF) (build {} C05.exDocT)))
        (mkEdit {} {} [] [] (build {} C05.exDocF) (build {} C05.exDocT)) ops = .ok (m1, rs) ∧
      finish q (muG C04.noAtoms (mkEdit {} {} [] [] (build {} C05.exDocF) (build {} C05.exDocT)) + 1)
        (height (mkEdit {} {} [] [] (build {} C05.exDocF) (build {} C05.exDocT))) m1 = .ok (m2, d) ∧ DumpSumOK d ∧
      d.iv = Iv.point (diffDocs {} ({} : Orc).assign C05.exDocF C05.exDocT).cost ∧
      (diffDocs {} ({} : Orc).assign C05.exDocF C05.exDocT).cost = flatSum (diffDocs {} ({} : Orc).assign C05.exDocF C05.exDocT) :=
  engine_reported_eq_sum_docs q {} {} C05.exDocF C05.exDocT (by decide) (by decide) C05.orcFull_nil
    (fun h => by cases h) _ _ (Nat.lt_succ_self _) (Nat.le_succ _) ops

end GtModel.C03

/-
  C03 for general multisets (`MultiSetNode` of arbitrary nodes WITH duplicates; library API only):
  "The reported cost equals the sum of its parts" — FALSE on the current code (defect D21), characterised exactly.

  Model: `GtModel.MSet.msGeneral` / `msGenScript` (Model/MSetEdits.lean), validated against the real engine by stream
  `scriptmset` (exact script and cost comparison, D21 cases included).

  * `mset_reported_eq_sum_iff`: the reported cost of a `MultiSetEdit` equals the sum of its sub-edits IF AND ONLY IF the
    matcher's cached bound equals the sum over the entries of its node-keyed matching dict.
  * `mset_reported_eq_sum_partial`: it does whenever the matcher's bounds were NOT definitive before a matching
    existed (`lo ≠ hi`), or one side of the matcher is empty — with or without duplicates, for every oracle.
    Full statement wanted: "… whenever no two unmatched from-elements are equal" (then the dict cannot collide, its
    entries are the solver's full matching, and a definitive pre-matching range [Σ n smallest row minima, Σ n largest
    row maxima] forces every full matching to cost exactly that).  Missing: the sandwich lemma "Σ n smallest of l ≤
    Σ over any n distinct positions of l ≤ Σ n largest of l" and "the solver's answer is a FULL matching" (an
    assumption on the oracle); not formalised.
  * `mset_d21_witness`: `MultiSetNode([1, 1])` → `MultiSetNode([4, 5])`: all four edges cost 1, the matcher caches
    [2, 2]; the dict keyed by node keeps ONE entry for the two equal nodes `1`; reported 2 + Remove 2 + Insert 2 = 6,
    listed sub-edits Match 1 + Remove 2 + Insert 2 = 5.
-/
import GtModel.Proofs.MSetLemmas

namespace GtModel.C03
open GtModel GtModel.MSet

/-- the matcher's pre-matching range, as `msGenScript` computes it -/
def msLoHi (p : Parts) (etbl : Nat → Nat → Script) : Nat × Nat :=
  let nf := p.remE.length
  let nt := p.insE.length
  let rows := (List.range nf).map fun a => (List.range nt).map fun b => (etbl a b).cost
  (sumSmallest (Nat.min nf nt) (rows.map fun r => r.foldl Nat.min (r.headD 0)),
   sumLargest (Nat.min nf nt) (rows.map fun r => r.foldl Nat.max 0))

/-- the sub-edits the matching dict contributes -/
def msMatched (orc : Oracle) (fp tp : List Nat) (p : Parts) (etbl : Nat → Nat → Script) : List Script :=
  (collide p.remE (MSet.msPairs orc fp tp p)).map fun (k, b) =>
    (etbl (p.remE.idxOf k) b).relabel (.at (p.chF.idxOf k)) (.at (p.chT.idxOf (p.insE.getD b 0)))

/-- `WeightedBipartiteMatcher.bounds()` once everything is tightened -/
def msMatcherBound (orc : Oracle) (fp tp : List Nat) (p : Parts) (etbl : Nat → Nat → Script) : Nat :=
  if p.remE.length == 0 || p.insE.length == 0 then 0
  else if (msLoHi p etbl).1 == (msLoHi p etbl).2 then (msLoHi p etbl).1
  else sumCosts (msMatched orc fp tp p etbl)

theorem sumCosts_map_match0 (l : List Nat) (f : Nat → Ix) :
    sumCosts (l.map fun k => (mkMatch 0).relabel (f k) .same) = 0 := by
  induction l with
  | nil => rfl
  | cons x xs ih => simp [ih]

/-- the Remove edits of the elements the matching leaves over -/
def msRems (orc : Oracle) (fp tp : List Nat) (fs : List Tree) (p : Parts) : List Script :=
  (elementsOf (firstOcc p.remE) fun k =>
      p.remE.count k - (if (collide p.remE (MSet.msPairs orc fp tp p)).any (·.1 == k) then 1 else 0)).map
    fun k => mkRemove (p.chF.idxOf k) ((fs.getD (p.fcls.idxOf k) (.leaf .null)).size) 1

/-- the Insert edits of the elements the matching leaves over -/
def msInss (orc : Oracle) (fp tp : List Nat) (ts : List Tree) (p : Parts) : List Script :=
  (elementsOf (firstOcc p.insE) fun k =>
      p.insE.count k - ((collide p.remE (MSet.msPairs orc fp tp p)).map fun e => p.insE.getD e.2 0).count k).map
    fun k => mkInsert (p.chT.idxOf k) ((ts.getD (p.tcls.idxOf k) (.leaf .null)).size) 1

/-- `MultiSetEdit.bounds()` = matcher bounds + the left-over removals and insertions -/
theorem msGenScript_cost (orc : Oracle) (fp tp : List Nat) (fs ts : List Tree) (p : Parts) (etbl : Nat → Nat → Script) :
    (msGenScript orc fp tp fs ts p etbl).cost =
      msMatcherBound orc fp tp p etbl + sumCosts (msRems orc fp tp fs p) + sumCosts (msInss orc fp tp ts p) := rfl

/-- `MultiSetEdit.edits()` = identity matches, the dict entries, removals, insertions -/
theorem msGenScript_subs (orc : Oracle) (fp tp : List Nat) (fs ts : List Tree) (p : Parts) (etbl : Nat → Nat → Script) :
    (msGenScript orc fp tp fs ts p etbl).subs =
      (p.matE.map fun k => (mkMatch 0).relabel (.at (p.chF.idxOf k)) .same) ++ msMatched orc fp tp p etbl
        ++ msRems orc fp tp fs p ++ msInss orc fp tp ts p := rfl

/-- exact characterisation: reported = Σ sub-edits ⇔ the matcher's (possibly cached) bound = Σ over the dict entries -/
theorem mset_reported_eq_sum_iff (orc : Oracle) (fp tp : List Nat) (fs ts : List Tree) (p : Parts)
    (etbl : Nat → Nat → Script) :
    (msGenScript orc fp tp fs ts p etbl).cost = sumCosts (msGenScript orc fp tp fs ts p etbl).subs ↔
      msMatcherBound orc fp tp p etbl = sumCosts (msMatched orc fp tp p etbl) := by
  rw [msGenScript_cost, msGenScript_subs]
  simp only [sumCosts_append, sumCosts_map_match0, Nat.zero_add]
  constructor <;> intro h <;> omega

/-- no pair survives when one side of the matcher is empty -/
theorem msMatched_nil (orc : Oracle) (fp tp : List Nat) (p : Parts) (etbl : Nat → Nat → Script)
    (h : p.remE.length = 0 ∨ p.insE.length = 0) : msMatched orc fp tp p etbl = [] := by
  have hp := msPairs_pinj orc fp tp p
  have : MSet.msPairs orc fp tp p = [] := by
    cases hq : MSet.msPairs orc fp tp p with
    | nil => rfl
    | cons q qs =>
      have := hp.2.2 q (by rw [hq]; simp)
      omega
  simp [msMatched, this, collide, firstOcc]

/-- C03(a) for general multisets, the part that holds: if the matcher's bounds were not definitive before a matching
    existed, or one side of the matcher is empty, the reported cost is the sum of the sub-edits — duplicates or not,
    for every oracle answer -/
theorem mset_reported_eq_sum_partial (orc : Oracle) (fp tp : List Nat) (fs ts : List Tree) (p : Parts)
    (etbl : Nat → Nat → Script)
    (h : p.remE.length = 0 ∨ p.insE.length = 0 ∨ (msLoHi p etbl).1 ≠ (msLoHi p etbl).2) :
    (msGenScript orc fp tp fs ts p etbl).cost = sumCosts (msGenScript orc fp tp fs ts p etbl).subs := by
  rw [mset_reported_eq_sum_iff]
  unfold msMatcherBound
  rcases h with h | h | h
  · rw [msMatched_nil orc fp tp p etbl (Or.inl h)]; simp [h]
  · rw [msMatched_nil orc fp tp p etbl (Or.inr h)]; simp [h]
  · split
    · rename_i h0
      simp only [Bool.or_eq_true, beq_iff_eq] at h0
      rw [msMatched_nil orc fp tp p etbl h0]; rfl
    · simp [h]

/-! ### D21 -/

/-- the parts of `MultiSetNode([1, 1])` vs `MultiSetNode([4, 5])`: classes 0, 0 | 2, 3; nothing in common -/
def d21Parts : Parts :=
  { fcls := [0, 0], tcls := [2, 3], chF := [0, 0], chT := [2, 3], matE := [], remE := [0, 0], insE := [2, 3] }

theorem d21Parts_eq : parts [.leaf (.int 1), .leaf (.int 1)] [.leaf (.int 4), .leaf (.int 5)] = d21Parts := by
  simp [parts, classesFrom, classOf, Tree.eq, Scalar.eq, firstOcc, elementsOf, d21Parts, List.findIdx?_cons]

/-- D21 witness: every edge `1 → 4`, `1 → 5` is `Match` of cost 1; whatever the solver answers (here the recorded
    `[(0,0),(1,1)]`), the reported cost is 6 and the listed sub-edits (Match 1→5, Remove 1, Insert 4) sum to 5 -/
theorem mset_d21_witness :
    let orc : Oracle := [{ f := [[0], [0]], t := [[0], [1]], pairs := [(0, 0), (1, 1)] }]
    let s := msGenScript orc [] [] [.leaf (.int 1), .leaf (.int 1)] [.leaf (.int 4), .leaf (.int 5)] d21Parts
      (fun _ _ => mkMatch 1)
    s.cost = 6 ∧ sumCosts s.subs = 5 ∧ s.subs.map Script.kind = [.match_, .remove, .insert] ∧
      fromIdx s.subs = [.at 0, .at 0] := by
  decide +kernel

/-- … and the hypothesis of `mset_reported_eq_sum_partial` indeed fails there: the pre-matching range is [2, 2] -/
example : msLoHi d21Parts (fun _ _ => mkMatch 1) = (2, 2) := by decide +kernel

/-- non-vacuity of `mset_reported_eq_sum_partial` WITH duplicates: `[1, 1]` vs `[4, 55]` (edges cost 1 and 2): the range
    is [2, 4], not definitive, and reported = Σ sub-edits = 6 although the dict collides -/
example :
    let p : Parts := d21Parts
    let etbl : Nat → Nat → Script := fun _ b => mkMatch (b + 1)
    (msLoHi p etbl).1 ≠ (msLoHi p etbl).2 ∧
      (msGenScript [] [] [] [.leaf (.int 1), .leaf (.int 1)] [.leaf (.int 4), .leaf (.int 55)] p etbl).cost = 6 := by
  decide +kernel

/-! ### [audit] counter-example: "for every oracle answer" needs FULLNESS of the solver's matching, also WITHOUT duplicates

  `MultiSetNode([1, 2])` → `MultiSetNode([4, 5])` (no duplicates; all four edges cost 1, so the matcher caches [2, 2]) with
  an EMPTY (non-full, but sanitised-valid) solver answer: the faithful model reports 2 + 4·2 = 10, the sub-edits sum to 8.
  The real code behaves the same (checked by patching `min_weight_bipartite_matching` to return `{}` on
  `{"a":1,"b":1}` → `{"c":1,"d":1}`, auto_match_keys=False: `MultiSetEdit.bounds()` = 22, Σ sub-edits = 20).
  The L2 model `GtModel.msScript` (DictNodes; what `C03.reported_eq_sum` is about) DEFINES the cost of an `ms` node as
  `sumCosts subs` (`mkCompound`), so there the equation is `rfl` for every answer — it does not mirror
  `MultiSetEdit.bounds()` = `matcher.bounds()` + ….  The tie for `ms` costs is the correspondence stream only. -/

-- [audit] counter-example (faithful model, no duplicates, non-full answer)
example :
    let orc : Oracle := [{ f := [[0], [1]], t := [[0], [1]], pairs := [] }]
    let p : Parts := { fcls := [0, 1], tcls := [2, 3], chF := [0, 1], chT := [2, 3], matE := [], remE := [0, 1], insE := [2, 3] }
    let s := msGenScript orc [] [] [.leaf (.int 1), .leaf (.int 2)] [.leaf (.int 4), .leaf (.int 5)] p (fun _ _ => mkMatch 1)
    s.cost = 10 ∧ sumCosts s.subs = 8 := by
  decide +kernel

-- [audit] … while the L2 `msScript` on the analogous mappings reports the sum by definition (`rfl`), same empty answer
example :
    let orc : Oracle := [{ f := [[0], [1]], t := [[0], [1]], pairs := [] }]
    let fkv : List (Str × Tree) := [([97], .leaf (.int 1)), ([98], .leaf (.int 1))]
    let tkv : List (Str × Tree) := [([99], .leaf (.int 1)), ([100], .leaf (.int 1))]
    (msScript false orc [] [] fkv tkv []).cost = sumCosts (msScript false orc [] [] fkv tkv []).subs := rfl

end GtModel.C03

/-
  C03 for XML / HTML elements: "The reported cost equals the sum of its parts, in every view."

  Model: `GtModel.Xml.xmlEdits` (Model/XmlEdits.lean) = the fully refined script of `XMLElement.edits`, validated
  against the real engine by the correspondence stream `scriptxml` (exact script comparison).

  (a) `xml_reported_eq_sum`: at EVERY nesting level, an XMLElementEdit reports the sum of its parts (tag edit,
      attribute edit, optional text edit, child-list edit), the child-list edits (FixedLengthSequenceEdit /
      EditDistance) report the sum of their sub-edits (for EditDistance the reported cost is the lower-right matrix
      cell: `solve_total_eq_sum`), and the embedded L2 scripts (tag / text `StringEdit`s, the attribute
      `MultiSetEdit` / `FixedKeyDictNodeEdit` with its key/value pair edits) satisfy L2's `Script.CostOK`
      (`C03.reported_eq_sum`).
  (b) `xml_three_views_agree`: the flat edit list of `get_all_edit_contexts` (compound edits exploded, zero-cost
      edits skipped), the root edit's own cost and `edited_cost()` of the annotated root are the same number.

  No hypotheses on the SCRIPT: all options, all oracle answers (assignment-solver matchings of the attribute
  MultiSetEdits), all elements — the attribute mapping may be ANY L2 tree.  Caveat (as for L2, Props/C03.lean): the
  cost of an XMLElementEdit / fixed child-list script is a sum BY DEFINITION (`xCompound`); only `kidsEd` and the
  embedded `ed` / `str` scripts carry an independent total, and there is NO operational (L3) model of
  `XMLElementEdit.bounds()` — the engine-side link `C03.engine_reported_eq_sum_docs` (needs `OrcFull`) covers
  JSON-family documents only; for XML the reported cost is tied to the sum by the `scriptxml` stream's monitor.
-/
import GtModel.Proofs.XmlCost
import GtModel.Props.C03

namespace GtModel.C03
open GtModel GtModel.Xml

/-- C03(a) for XML -/
theorem xml_reported_eq_sum (o : Opts) (orc : Oracle) (fp tp : List Nat) (f t : XTree) :
    (xmlEdits o orc fp tp f t).CostOK :=
  costOK_xmlEdits o orc f fp tp t

/-- C03(a), unfolded one level: an XMLElementEdit (the script of two unequal elements) reports the sum of its
    parts, and its parts are exactly: tag edit, attribute edit, the text edit when either side has text, and the
    edit of the child lists -/
theorem xml_reported_eq_sum_root (o : Opts) (orc : Oracle) (fp tp : List Nat) (f t : XTree)
    (h : XTree.eq f t = false) :
    (xmlEdits o orc fp tp f t).cost =
      (strEdits f.tag t.tag).cost + (edits o orc (fp ++ [1]) (tp ++ [1]) f.attrib t.attrib).cost
        + (match textEdit f.text t.text with | some e => e.cost | none => 0)
        + (kidsScript o f.children t.children
            (kidsTbl o orc fp tp (kidsIx f.text) (kidsIx t.text) f.children t.children)).cost := by
  obtain ⟨ftag, fattr, ftext, fcs⟩ := f
  obtain ⟨ttag, tattr, ttext, tcs⟩ := t
  rw [xmlEdits_eq, h]
  simp only [Bool.false_eq_true, if_false, elemScript, xCompound_cost, xsum_append, xsum_cons, xsum_nil,
    XScript.cost_emb, Script.relabel_cost, XScript.relabel_cost, XTree.tag, XTree.attrib, XTree.text, XTree.children]
  cases textEdit ftext ttext <;> simp <;> omega

-- [audit] non-vacuity of `xml_reported_eq_sum_root`: `<a>x<b/></a>` and `<a/>` are unequal elements
example : XTree.eq (.mk [97] (.dict []) (some [120]) [.mk [98] (.dict []) none []]) (.mk [97] (.dict []) none []) = false := by
  simp [XTree.eq, eqText, strip, lstrip, isPySpace, Tree.eq, subKV]

/-- the whole comparison of two documents -/
theorem xml_reported_eq_sum_docs (o : Opts) (orc : Oracle) (f t : XDoc) : (diffXml o orc f t).CostOK :=
  xml_reported_eq_sum ..

/-- C03(b) for XML -/
theorem xml_three_views_agree (o : Opts) (orc : Oracle) (fp tp : List Nat) (f t : XTree) :
    xflatSum (xmlEdits o orc fp tp f t) = (xmlEdits o orc fp tp f t).cost ∧
    xeditedCost (xmlEdits o orc fp tp f t) = (xmlEdits o orc fp tp f t).cost :=
  ⟨xflatSum_eq_cost _ (xml_reported_eq_sum o orc fp tp f t), rfl⟩

/-! ### non-vacuity: the predicate discriminates, and a concrete script satisfies it -/

/-- `<a k="1"> x<b/></a>` → `<a k="2">x<c/><d/></a>` (literal copy of a model output of stream `scriptxml`) -/
def xsample : XScript := .mk .elem .none .none 7
  [.emb (.mk .match_ (.at 0) (.at 0) 0 []),
   .emb (.mk .ms (.at 1) (.at 1) 1
     [.mk .kvp (.at 0) (.at 0) 1 [.mk .match_ (.at 0) (.at 0) 0 [], .mk .match_ (.at 1) (.at 1) 1 []]]),
   .emb (.mk .str (.at 2) (.at 2) 1 [.mk .remove (.at 0) .none 1 [], .mk .match_ (.at 1) (.at 0) 0 []]),
   .mk .ed (.at 3) (.at 3) 5
     [.mk .elem (.at 0) (.at 0) 1
        [.emb (.mk .match_ (.at 0) (.at 0) 1 []), .emb (.mk .match_ (.at 1) (.at 1) 0 []), .mk .match_ (.at 2) (.at 2) 0 []],
      .mk .insert (.at 1) .none 4 []]]

example : xsample.CostOK := by
  simp [xsample, XScript.CostOK, XCostOKL, XKind.hasSubs, xsum, Script.CostOK, CostOKL, Kind.hasSubs, sumCosts]
example : xflatSum xsample = 7 := by
  simp [xsample, xflatSum, xflatCosts, xflatCostsL, XKind.isCompoundEdit, XKind.hasSubs, flatEdits, flatEditsL,
    Kind.isCompoundEdit]
/-- an XMLElementEdit whose reported cost is NOT the sum of its parts is rejected -/
example : ¬ (XScript.mk .elem .none .none 3 [.emb (mkMatch 1), .emb (mkMatch 0), xMatch 0]).CostOK := by
  simp [XScript.CostOK, XCostOKL, XKind.hasSubs, xsum, xMatch]
/-- … and so is one whose embedded attribute script is wrong inside -/
example : ¬ (XScript.mk .elem .none .none 1
    [.emb (mkMatch 0), .emb (.mk .ms .none .none 1 [mkRemove 0 1 1]), xMatch 0]).CostOK := by
  simp [XScript.CostOK, XCostOKL, XKind.hasSubs, xsum, xMatch, Script.CostOK, CostOKL, Kind.hasSubs, sumCosts]

end GtModel.C03

/-
  C04 — "Cost bounds only tighten, stay sound, and converge", on the operational model L3 (`GtModel.Lazy`).

  `Protocol ops g` (Proofs/LazyBase.lean) says, for every machine state `m` with invariant `g.I m`, final value
  `g.fin m`, exposed interval `g.view m` and measure `g.μ m`:
     wf        fin m ∈ view m
     bounds    `bounds()` succeeds, returns `view m`, changes nothing observable and leaves a SETTLED state
     tighten   `tighten_bounds()` succeeds with some `r`; the invariant and the final value are kept; the new interval
               lies in the old one; μ never grows and strictly decreases when r; when ¬r the new interval is a single
               value; and when the state was settled (i.e. an observer has just read `bounds()`), r implies that
               the interval strictly shrank
     complete / onDiff / dump   succeed and change nothing observable.

  FULL STATEMENT (engine_protocol): `∀ o orc f t n, height ≤ n → Protocol (mkOps q n) ghost` for the machine
  `mkEdit o orc [] [] f t` with NO hypothesis.  PROVED here:
    * `engine_protocol_partial`: for every machine built from const / kvp / str / fixed / coll nodes (`coll` =
      EditCollection = FixedKeyDictNodeEdit) over arbitrary atoms (`ed` = EditDistance, `ms` = MultiSetEdit +
      matcher), PROVIDED the atoms obey the protocol whenever their children do (`AtomHyp`).  Missing conjuncts:
      `editDistance_protocol`, `matcher_protocol` / `multiset_protocol` (= `AtomHyp` for the two atom classes).
    * `engine_protocol_structural`: unconditional for machines without atoms: fixed-key dictionaries (dict strategy
      `none`), key/value pairs, positional list edits, leaves — everything except list alignment / string edits and
      multiset matching.
    * per class: `const`/`kvp`/`str` (inside `engine_step`), `fixedLen_protocol`, `repeat_until_tightened_terminates`,
      `editCollection_protocol` (bounds never invalid and never an ill-formed Range, the `while True` loop of
      `tighten_bounds` terminates, True ⇒ strictly inside the starting bounds, False ⇒ single value).
    * corollaries for any `Protocol`: `observed_step` (what an external caller sees around one refinement step),
      `bounds_sound`, `converges`.
  One gap named by the statement itself: "a step that reports progress has strictly shrunk the interval" is only
  true for an observer who read `bounds()` before the step (`Step.strict` needs `g.Q m`): `EditDistance.tighten_bounds`
  on a complete, not yet finalised matrix returns True while `bounds()` before and after is the same single value —
  but reading `bounds()` first finalises the matrix and the step then returns False (see NOTES_C04).
-/
import GtModel.Proofs.LazyRun
import GtModel.Proofs.LazyEdStatic

namespace GtModel.C04
open GtModel.Lazy

/-- ghost data for "there are no atoms" -/
def noAtoms : Ghost :=
  { I := fun _ => False, Q := fun _ => True, view := fun _ => ⟨0, 0⟩, fin := fun _ => 0, μ := fun _ => 0,
    script := fun _ => default }

theorem noAtoms_hyp (q : Bool) (F : Nat) : AtomHyp q F noAtoms := by
  intro n _
  have hF : ∀ m, (atomsOf (G noAtoms F (n + 1))).I m → False := by
    intro m hm
    obtain ⟨⟨hi, _⟩, ha⟩ := hm
    cases m <;> simp [isAtom] at ha <;> exact hi
  refine ⟨?_, ?_, ?_, ?_, ?_, ?_⟩ <;> intro m hm <;> exact (hF m hm).elim

/-- per class: KeyValuePairEdit (`bounds` adds, `tighten_bounds` is a short-circuit `or`) -/
theorem kvp_protocol {rec : Ops} {g : Ghost} (h : Protocol rec g) (l : Lbl) (k v : M) (hk : g.I k) (hv : g.I v) :
    (∃ k' v', kvpBounds rec l k v = .ok (.kvp l k' v', (g.view k).add (g.view v)) ∧
      Pres g k k' ∧ g.Q k' ∧ Pres g v v' ∧ g.Q v') ∧
    (∃ k' v' r, kvpTighten rec l k v = .ok (.kvp l k' v', r) ∧
      ((r = true ∧ Step g k k' true ∧ v' = v) ∨ (Step g k k' false ∧ Step g v v' r))) :=
  ⟨kvpBounds_ok h l k v hk hv, kvpTighten_ok h l k v hk hv⟩

/-- per class: FixedLengthSequenceEdit with its `repeat_until_tightened` decorator -/
theorem fixedLen_protocol {rec : Ops} {g : Ghost} (h : Protocol rec g) (l : Lbl) (tail : List Script) (n : Nat)
    (ms : List M) (hI : ∀ m ∈ ms, g.I m) :
    ∃ ms' r, fixedTighten rec (n + 1) l ms tail = .ok (.fixed l ms' tail, r) ∧ FixedOut g ms ms' r :=
  fixedTighten_ok h l tail n ms hI

/-- the loop of `repeat_until_tightened` returns in its first iteration (fuel 1 suffices) -/
theorem repeat_until_tightened_terminates {rec : Ops} {g : Ghost} (h : Protocol rec g) (l : Lbl)
    (tail : List Script) (ms : List M) (hI : ∀ m ∈ ms, g.I m) (hnd : sumLo g ms ≠ sumHi g ms) :
    ∃ ms', fixedLoop rec l tail ⟨sumLo g ms + tailCost tail, sumHi g ms + tailCost tail⟩ 1 ms
        = .ok (.fixed l ms' tail, true) ∧ FixedOut g ms ms' true :=
  fixedLoop_ok h l tail 0 ms hI hnd

/-- every machine over protocol-abiding atoms obeys the protocol (`engine_protocol` with the atom classes as
    hypothesis) -/
theorem engine_protocol_partial (q : Bool) (F : Nat) (hF : 0 < F) (a : Ghost) (hA : AtomHyp q F a) (n : Nat) :
    Protocol (mkOps q F n) (G a F n) :=
  engine_protocol_of_atoms q F hF a hA n

/-- unconditional: machines without atoms (const, kvp, fixed, coll) -/
theorem engine_protocol_structural (q : Bool) (F : Nat) (hF : 0 < F) (n : Nat) :
    Protocol (mkOps q F n) (G noAtoms F n) :=
  engine_protocol_of_atoms q F hF noAtoms (noAtoms_hyp q F) n

/-- per class: EditCollection (explode_edits = False; FixedKeyDictNodeEdit), generic in the sub-edits' ghost `g`.
    Under the invariant `CollInv` (initial upper bounds of all sub-edits sum to at most the collection's upper bound;
    the `_cost` memo, if set, is the exact definitive value; the collection is not empty):
    `bounds()` succeeds — the collection is NEVER INVALIDATED and the Range it builds is well-formed — and returns
    `collView`; `tighten_bounds()` terminates within `collMu0 + 1` iterations of its `while True` loop, keeps the
    invariant, never widens, returns True only with bounds strictly inside the starting ones and False only on a
    single value. -/
theorem editCollection_protocol {rec : Ops} {g : Ghost} (h : Protocol rec g) (l : Lbl) (n : Nat) (s : CollSt)
    (p q : List M) (inv : CollInv g s p q) (hn : collMu0 g s p q < n) :
    (∃ s' q', collBounds rec l s p q = .ok (.coll l s' p q', collView g s q) ∧ CollKeeps g s p q s' p q' ∧
      collView g s' q' = collView g s q) ∧
    ((collView g s q).lo ≤ sumFin g q + sumFin g p ∧ sumFin g q + sumFin g p ≤ (collView g s q).hi) ∧
    (∃ s' p' q' r, collTighten rec n l s p q = .ok (.coll l s' p' q', r) ∧ CollKeeps g s p q s' p' q' ∧
      (r = true → (collView g s q).lo < (collView g s' q').lo ∨ (collView g s' q').hi < (collView g s q).hi) ∧
      (r = false → (collView g s' q').lo = (collView g s' q').hi)) := by
  obtain ⟨s', q', e, ck, hv, _⟩ := collBounds_keeps h l s p q inv
  exact ⟨⟨s', q', e, ck, hv⟩, collView_wf h inv, collTighten_ok h l n s p q inv hn⟩

section Observed
variable {ops : Ops} {g : Ghost}

/-- what `bounds()` returns contains the final cost -/
theorem bounds_sound (P : Protocol ops g) (m : M) (hI : g.I m) :
    ∃ m' b, ops.bounds m = .ok (m', b) ∧ b.lo ≤ g.fin m ∧ g.fin m ≤ b.hi :=
  let ⟨m', e, _, _⟩ := P.bounds m hI
  ⟨m', g.view m, e, P.wf m hI⟩

/-- an external caller doing `b0 = e.bounds(); r = e.tighten_bounds(); b1 = e.bounds()`: all three calls succeed,
    b1 ⊆ b0, the final cost lies in b1, r ⇒ b1 ≠ b0 (strictly shrunk), ¬r ⇒ b1 is a single value -/
theorem observed_step (P : Protocol ops g) (m : M) (hI : g.I m) :
    ∃ m1 b0 m2 r m3 b1, ops.bounds m = .ok (m1, b0) ∧ ops.tighten m1 = .ok (m2, r) ∧ ops.bounds m2 = .ok (m3, b1) ∧
      b0.lo ≤ b1.lo ∧ b1.hi ≤ b0.hi ∧ b1.lo ≤ g.fin m ∧ g.fin m ≤ b1.hi ∧
      (r = true → b1 ≠ b0) ∧ (r = false → b1.lo = b1.hi) := by
  obtain ⟨m1, e1, p1, q1⟩ := P.bounds m hI
  obtain ⟨m2, r, e2, st⟩ := P.tighten m1 p1.inv
  obtain ⟨m3, e3, p3, _⟩ := P.bounds m2 st.inv
  have wf := P.wf m2 st.inv
  have hs := st.sub
  rw [p1.view] at hs
  refine ⟨m1, _, m2, r, m3, _, e1, e2, e3, hs.1, hs.2, ?_, ?_, ?_, st.stop⟩
  · rw [← p1.fin, ← st.fin]; exact wf.1
  · rw [← p1.fin, ← st.fin]; exact wf.2
  · intro hr; rw [← p1.view]; exact st.strict q1 hr

/-- refinement converges: `while e.tighten_bounds(): pass` stops within `μ m + 1` steps, at the final cost -/
theorem converges (P : Protocol ops g) (m : M) (hI : g.I m) :
    ∃ m', full ops (g.μ m + 1) m = .ok m' ∧ g.I m' ∧ g.view m' = Iv.point (g.fin m) :=
  let ⟨m', e, k, hv⟩ := full_ok P (g.μ m + 1) m hI (Nat.lt_succ_self _)
  ⟨m', e, k.inv, hv⟩

end Observed

/-! ### EditDistance: the static facts its interval rests on (part of `editDistance_protocol`)

While the matrix is being built, `EditDistance.bounds()` is `[max(constant_cost, min cost over the current and
the last fringe diagonal), cost_upper_bound]`.  On the greedy matrix of L2 (`EditMatrix.spec`, which `costs` holds for
the processed diagonals): -/

/-- fringe lower bound monotone: a lower bound for the costs on diagonals k and k-1 is one for k+1 and k -/
theorem editDistance_fringe_lb_monotone (rem ins : List Nat) (cells : List (List Nat)) (m n k x : Nat)
    (h : EditMatrix.FringeLB rem ins cells m n k x) : EditMatrix.FringeLB rem ins cells m n (k + 1) x :=
  EditMatrix.fringeLB_step rem ins cells m n k x h

/-- fringe lower bound sound: it never exceeds the final cost -/
theorem editDistance_fringe_lb_sound (rem ins : List Nat) (cells : List (List Nat)) (k x : Nat)
    (hk : k ≤ ins.length + rem.length) (h : EditMatrix.FringeLB rem ins cells ins.length rem.length k x) :
    x ≤ (EditMatrix.solve rem ins cells).1 :=
  EditMatrix.fringeLB_sound rem ins cells k x hk h

/-- greedy final ≤ Σ removes + Σ inserts (≤ cost_upper_bound) -/
theorem editDistance_final_le_total (rem ins : List Nat) (cells : List (List Nat)) :
    (EditMatrix.solve rem ins cells).1 ≤ rem.sum + ins.sum :=
  EditMatrix.solve_total_le rem ins cells

example : EditMatrix.FringeLB [2, 3] [4] [[1, 9]] 1 2 0 0 := by
  intro r c _ _ _; exact Nat.zero_le _

/-! ### non-vacuity: a concrete machine without atoms — `[[1, 2], 7]` → `[[1, 3], 8, 9]` with list edits off -/

def exampleMachine : M :=
  .fixed { kind := .fixed }
    [.fixed { kind := .fixed, fi := .at 0, ti := .at 0 }
        [.const { kind := .match_, fi := .at 0, ti := .at 0 } 0, .const { kind := .match_, fi := .at 1, ti := .at 1 } 1] [],
     .const { kind := .match_, fi := .at 1, ti := .at 1 } 1]
    [mkInsert 2 1 1]

example : (G noAtoms 9 3).I exampleMachine := by
  simp [exampleMachine, G, invG, invL, height, heightL]

example : ∃ m', full (mkOps true 9 3) ((G noAtoms 9 3).μ exampleMachine + 1) exampleMachine = .ok m' ∧
    (G noAtoms 9 3).view m' = Iv.point 4 := by
  obtain ⟨m', e, _, hv⟩ := converges (engine_protocol_structural true 9 (by omega) 3) exampleMachine
    (by simp [exampleMachine, G, invG, invL, height, heightL])
  exact ⟨m', e, by rw [hv]; simp [exampleMachine, G, finG, finL, tailCost, GtModel.mkInsert, Script.cost]⟩

/-- a fixed-key dictionary: `{"a": 1, "b": 2}` → `{"a": 3, "c": 2}` under dict strategy `none`: the pending edits are
    the key/value pair edit for "a", Remove("b": 2) and Insert("c": 2); nothing expanded yet -/
def exampleDict : M :=
  .coll { kind := .fk } { ub0 := 21, inits := [], pinits := [1, 5, 5] }
    [.kvp { kind := .kvp, fi := .at 0, ti := .at 0 }
        (.const { kind := .match_, fi := .at 0, ti := .at 0 } 0) (.const { kind := .match_, fi := .at 1, ti := .at 1 } 1),
     .const { kind := .remove, fi := .at 1 } 5, .const { kind := .insert, fi := .at 1 } 5]
    []

example : (G noAtoms 9 3).I exampleDict := by
  simp [exampleDict, G, invG, invL, height, heightL, muL, muG, HiLe, viewOnly, viewG, Iv.add, Iv.point]

end GtModel.C04

/-
  C04 — "Cost bounds only tighten, stay sound, and converge", on the operational model L3 (`GtModel.Lazy`).

  `Protocol ops g` (Proofs/LazyBase.lean) says, for every machine state `m` with invariant `g.I m`, final value
  `g.fin m`, exposed interval `g.view m` and measure `g.μ m`:
     wf        fin m ∈ view m
     bounds    `bounds()` succeeds, returns `view m`, changes nothing observable and leaves a SETTLED state
     tighten   `tighten_bounds()` succeeds with some `r`; the invariant and the final value are kept; the new interval
               lies in the old one; μ never grows and strictly decreases when r; when ¬r the new interval is a single
               value; and when the state was settled (i.e. an observer has just read `bounds()`), r implies that
               the interval strictly shrank
     complete / onDiff / dump   succeed and change nothing observable.

  FULL STATEMENT (engine_protocol): `∀ o orc f t n, height ≤ n → Protocol (mkOps q n) ghost` for the machine
  `mkEdit o orc [] [] f t` with NO hypothesis.  PROVED here:
    * `engine_protocol` (+ `mkEdit_invariant`, `mkEdit_initial_bounds`): the FULL statement for `from.edits(to)`
      without MultiSetEdit — `f.noDict`, distinct keys, `t.fkOK` (the domain on which FixedKeyDictNodeEdit's static
      upper bound `from.total_size + to.total_size + 1` holds; outside it the statement is FALSE: finding D24).
    * `engine_protocol_every_machine`: UNCONDITIONAL for EVERY machine of the engine — leaves, key/value pairs,
      string edits, positional list edits, fixed-key dictionaries (EditCollection), EditDistance (list alignment,
      string edit distance) AND MultiSetEdit with its WeightedBipartiteMatcher, at any nesting, for every
      `make_distinct` oracle and every admissible solver answer — `Protocol (mkOps q F n) (G noAtoms F n)`, where the
      invariant `(G noAtoms F n).I` = `invG` is the structural one (per EditDistance: `EdInv`, per EditCollection:
      `CollInv`, per MultiSetEdit: `MsInv`/`WmInv`, nesting height ≤ n, loop bounds < F).  No class is left abstract
      (`isAtom` is constantly false; `AtomHyp` survives only as a trivially true parameter of the induction).
    * `engine_protocol_docs` (+ `mkEdit_invariant_dict`): the FULL statement for every pair of DOCUMENTS and every
      option set; with key edits (MultiSetEdit) for every solver oracle with full-size answers (`OrcFull`).
    * per class: `const`/`kvp`/`str` (inside `engine_step`), `fixedLen_protocol`, `repeat_until_tightened_terminates`,
      `matcher_protocol`, `multiset_protocol` (see below), `editCollection_protocol` (bounds never invalid and never an ill-formed Range, the `while True` loop of
      `tighten_bounds` terminates, True ⇒ strictly inside the starting bounds, False ⇒ single value),
      `editDistance_protocol` (generic in the cells' ghost: `bounds()` / `tighten_bounds()` / `edits()` succeed, never
      read the freed matrix, never index outside it, keep the invariant `EdInv`, the interval contains the greedy
      final value of L2's `EditMatrix.solve` on the cells' final costs, only shrinks, the measure decreases on True,
      False ⇒ single value and matrix complete, True after an observation ⇒ interval changed).
    * corollaries for any `Protocol`: `observed_step` (what an external caller sees around one refinement step),
      `bounds_sound`, `converges`.
  One gap named by the statement itself: "a step that reports progress has strictly shrunk the interval" is only
  true for an observer who read `bounds()` before the step (`Step.strict` needs `g.Q m`): `EditDistance.tighten_bounds`
  on a complete, not yet finalised matrix returns True while `bounds()` before and after is the same single value —
  but reading `bounds()` first finalises the matrix and the step then returns False (see NOTES_C04).
-/
import GtModel.Proofs.LazyRun
import GtModel.Proofs.LazyEdStatic
import GtModel.Proofs.LazyMkC
import GtModel.Proofs.LazyMsC
import GtModel.Proofs.LazyMkD

namespace GtModel.C04
open GtModel.Lazy

/-- ghost data for "there are no atoms" -/
def noAtoms : Ghost :=
  { I := fun _ => False, Q := fun _ => True, view := fun _ => ⟨0, 0⟩, fin := fun _ => 0, μ := fun _ => 0,
    script := fun _ => default }

theorem noAtoms_hyp (q : Bool) (F : Nat) : AtomHyp q F noAtoms := by
  intro n _
  have hF : ∀ m, (atomsOf (G noAtoms F (n + 1))).I m → False := by
    intro m hm
    obtain ⟨⟨hi, _⟩, ha⟩ := hm
    cases m <;> simp [isAtom] at ha <;> exact hi
  refine ⟨?_, ?_, ?_, ?_, ?_, ?_⟩ <;> intro m hm <;> exact (hF m hm).elim

/-- per class: KeyValuePairEdit (`bounds` adds, `tighten_bounds` is a short-circuit `or`) -/
theorem kvp_protocol {rec : Ops} {g : Ghost} (h : Protocol rec g) (l : Lbl) (k v : M) (hk : g.I k) (hv : g.I v) :
    (∃ k' v', kvpBounds rec l k v = .ok (.kvp l k' v', (g.view k).add (g.view v)) ∧
      Pres g k k' ∧ g.Q k' ∧ Pres g v v' ∧ g.Q v') ∧
    (∃ k' v' r, kvpTighten rec l k v = .ok (.kvp l k' v', r) ∧
      ((r = true ∧ Step g k k' true ∧ v' = v) ∨ (Step g k k' false ∧ Step g v v' r))) :=
  ⟨kvpBounds_ok h l k v hk hv, kvpTighten_ok h l k v hk hv⟩

/-- per class: FixedLengthSequenceEdit with its `repeat_until_tightened` decorator -/
theorem fixedLen_protocol {rec : Ops} {g : Ghost} (h : Protocol rec g) (l : Lbl) (tail : List Script) (n : Nat)
    (ms : List M) (hI : ∀ m ∈ ms, g.I m) :
    ∃ ms' r, fixedTighten rec (n + 1) l ms tail = .ok (.fixed l ms' tail, r) ∧ FixedOut g ms ms' r :=
  fixedTighten_ok h l tail n ms hI

/-- the loop of `repeat_until_tightened` returns in its first iteration (fuel 1 suffices) -/
theorem repeat_until_tightened_terminates {rec : Ops} {g : Ghost} (h : Protocol rec g) (l : Lbl)
    (tail : List Script) (ms : List M) (hI : ∀ m ∈ ms, g.I m) (hnd : sumLo g ms ≠ sumHi g ms) :
    ∃ ms', fixedLoop rec l tail ⟨sumLo g ms + tailCost tail, sumHi g ms + tailCost tail⟩ 1 ms
        = .ok (.fixed l ms' tail, true) ∧ FixedOut g ms ms' true :=
  fixedLoop_ok h l tail 0 ms hI hnd

/-- every machine over protocol-abiding atoms (MultiSetEdit) obeys the protocol (`engine_protocol` with the atom
    class as hypothesis) -/
theorem engine_protocol_of_hyp (q : Bool) (F : Nat) (hF : 0 < F) (a : Ghost) (hA : AtomHyp q F a) (n : Nat) :
    Protocol (mkOps q F n) (G a F n) :=
  engine_protocol_of_atoms q F hF a hA n

/-- unconditional: EVERY machine (const, kvp, str, fixed, coll, ed, ms) satisfying the structural invariant -/
theorem engine_protocol_every_machine (q : Bool) (F : Nat) (hF : 0 < F) (n : Nat) :
    Protocol (mkOps q F n) (G noAtoms F n) :=
  engine_protocol_of_atoms q F hF noAtoms (noAtoms_hyp q F) n

/-- per class: EditCollection (explode_edits = False; FixedKeyDictNodeEdit), generic in the sub-edits' ghost `g`.
    Under the invariant `CollInv` (initial upper bounds of all sub-edits sum to at most the collection's upper bound;
    the `_cost` memo, if set, is the exact definitive value; the collection is not empty):
    `bounds()` succeeds — the collection is NEVER INVALIDATED and the Range it builds is well-formed — and returns
    `collView`; `tighten_bounds()` terminates within `collMu0 + 1` iterations of its `while True` loop, keeps the
    invariant, never widens, returns True only with bounds strictly inside the starting ones and False only on a
    single value. -/
theorem editCollection_protocol {rec : Ops} {g : Ghost} (h : Protocol rec g) (l : Lbl) (n : Nat) (s : CollSt)
    (p q : List M) (inv : CollInv g s p q) (hn : collMu0 g s p q < n) :
    (∃ s' q', collBounds rec l s p q = .ok (.coll l s' p q', collView g s q) ∧ CollKeeps g s p q s' p q' ∧
      collView g s' q' = collView g s q) ∧
    ((collView g s q).lo ≤ sumFin g q + sumFin g p ∧ sumFin g q + sumFin g p ≤ (collView g s q).hi) ∧
    (∃ s' p' q' r, collTighten rec n l s p q = .ok (.coll l s' p' q', r) ∧ CollKeeps g s p q s' p' q' ∧
      (r = true → (collView g s q).lo < (collView g s' q').lo ∨ (collView g s' q').hi < (collView g s q).hi) ∧
      (r = false → (collView g s' q').lo = (collView g s' q').hi)) := by
  obtain ⟨s', q', e, ck, hv, _⟩ := collBounds_keeps h l s p q inv
  exact ⟨⟨s', q', e, ck, hv⟩, collView_wf h inv, collTighten_ok h l n s p q inv hn⟩

/-- per class: EditDistance, generic in the cells' ghost `g` and ops `rec`.  Under the invariant `EdInv` (matrix
    entries of processed diagonals = L2's greedy `EditMatrix.spec` over the cells' final costs; cells compared so far
    are definitive; `freed ↔ script cached`; the cached path is the back-trace; static facts `EdStat`) and a loop
    bound `F` above the measure:
    * the interval `edViewOf` contains the final value `edFinOf` (= greedy matrix value + penalty);
    * `bounds()` succeeds, returns `edViewOf`, keeps the invariant and the interval, and finalises a complete matrix;
    * `tighten_bounds()` succeeds, keeps the invariant (`EdKeeps`: interval only shrinks, cells only refine), the
      measure strictly decreases on True, False ⇒ the interval is a single value and the matrix is complete, and for
      an observer that has read `bounds()` True ⇒ the interval changed;
    * `edits()` (force to completion + back-trace) succeeds and leaves the script cached. -/
theorem editDistance_protocol {rec : Ops} {g : Ghost} (h : Protocol rec g) (q : Bool) (F : Nat) (s : EdSt)
    (cells : List (List M)) (inv : EdInv g s cells) (hmu : edMu0 s + muLLg g cells < F) :
    ((edViewOf s (finM g cells)).lo ≤ edFinOf s (finM g cells) ∧
      edFinOf s (finM g cells) ≤ (edViewOf s (finM g cells)).hi) ∧
    (∃ s' cells', edBounds rec F s cells = .ok (s', cells', edViewOf s (finM g cells)) ∧ EdKeeps g s cells s' cells' ∧
      edViewOf s' (finM g cells) = edViewOf s (finM g cells) ∧
      (edComplete s' = true → s'.cache.isSome = true)) ∧
    (∃ s' cells' r, edTighten rec q F s cells = .ok (s', cells', r) ∧ EdKeeps g s cells s' cells' ∧
      (r = true → edMu0 s' + muLLg g cells' < edMu0 s + muLLg g cells) ∧
      (r = false → (edViewOf s' (finM g cells)).lo = (edViewOf s' (finM g cells)).hi ∧ edComplete s' = true) ∧
      ((edComplete s = true → s.cache.isSome = true) → r = true →
        edViewOf s' (finM g cells) ≠ edViewOf s (finM g cells))) ∧
    (∃ s' cells', edEnsure rec q F s cells = .ok (s', cells') ∧ EdKeeps g s cells s' cells' ∧
      s'.cache.isSome = true) := by
  obtain ⟨s1, c1, e1, k1, hv1, _, hq1, _, _⟩ := edBounds_keeps h F inv (by omega)
  obtain ⟨s2, c2, r, e2, k2, hd, hs, hst, hc⟩ := edTighten_ok h q F inv hmu
  exact ⟨edView_wf inv, ⟨s1, c1, e1, k1, hv1, hq1⟩, ⟨s2, c2, r, e2, k2, hd, fun hr => ⟨hs hr, hc hr⟩, hst⟩,
    edEnsure_ok h q F inv hmu⟩

/-- the final value of an EditDistance is L2's greedy matrix value on the cells' final costs -/
theorem editDistance_final_is_greedy (s : EdSt) (fm : List (List Nat)) :
    edFinOf s fm = (EditMatrix.solve s.rem s.ins fm).1 :=
  edFin_eq_solve s fm

/-- per class: WeightedBipartiteMatcher (with `make_distinct` and the assignment solver as ORACLES), generic in the
    edges' ghost `g`.  `WmInv`: the edge matrix is `nf × nt`; the solver's answer `w.assign` is admissible
    (`AssignOK`: in range, ordered by from-index, injective, of size `min nf nt`); the chosen matching, if any, is that
    answer; the `_bounds` memo, if set, is the single final value and then every matched edge is definitive.
    For EVERY `make_distinct` oracle (`w.mdCounts` arbitrary):
    * the exposed interval `wmViewV` contains the matcher's final value (Σ final costs of the matched edges);
    * `bounds()` succeeds (no `min()`/`max()` of an empty row, no ill-formed Range), returns `wmViewV`, changes no edge
      interval;
    * forcing the matching succeeds (the oracle checks pass) and only shrinks the interval;
    * `tighten_bounds()` — `repeat_until_tightened` around "make distinct / choose the matching / tighten the first
      matched edge that can" — TERMINATES within `wmFlags + Σ μ(edges) + 1` iterations, never widens, returns True
      only with a changed interval and False only on a single value (and then it only read the edges). -/
theorem matcher_protocol {rec : Ops} {g : Ghost} (h : Protocol rec g) (n : Nat) (w : WmSt) (edges : List (List M))
    (inv : WmInv g w edges) (hn : wmFlags w + muLLg g edges < n) :
    ((wmViewV w (viewM g edges)).lo ≤ wmFin g w edges ∧ wmFin g w edges ≤ (wmViewV w (viewM g edges)).hi) ∧
    (∃ w' e', wmBounds rec w edges = .ok (w', e', wmViewV w (viewM g edges)) ∧ PresLL g edges e' ∧ WmInv g w' e' ∧
      wmViewV w' (viewM g e') = wmViewV w (viewM g edges)) ∧
    (∃ w' e', wmMatching rec w edges = .ok (w', e') ∧ KeepsLL g edges e' ∧ WmInv g w' e' ∧
      w'.mtch = some w.assign ∧
      (wmViewV w (viewM g edges)).lo ≤ (wmViewV w' (viewM g e')).lo ∧
      (wmViewV w' (viewM g e')).hi ≤ (wmViewV w (viewM g edges)).hi) ∧
    (∃ w' e' r, wmTighten rec n w edges = .ok (w', e', r) ∧ KeepsLL g edges e' ∧ WmInv g w' e' ∧
      (wmViewV w (viewM g edges)).lo ≤ (wmViewV w' (viewM g e')).lo ∧
      (wmViewV w' (viewM g e')).hi ≤ (wmViewV w (viewM g edges)).hi ∧
      wmFlags w' + muLLg g e' ≤ wmFlags w + muLLg g edges ∧
      (r = true → wmViewV w' (viewM g e') ≠ wmViewV w (viewM g edges)) ∧
      (r = false → (wmViewV w (viewM g edges)).lo = (wmViewV w (viewM g edges)).hi ∧ PresLL g edges e')) := by
  obtain ⟨w1, e1, hb, pp, inv1, _, hv⟩ := wmBounds_ok h inv
  obtain ⟨w2, e2, hm, k2, inv2, _, _, _, m4, _, v1, v2, _, _⟩ := wmMatching_ok h inv
  obtain ⟨w3, e3, r, ht, k3, inv3, _, _, _, s1, s2, fl, hr1, hr0, _⟩ := wmTighten_ok h n inv hn
  exact ⟨wmView_wf h inv, ⟨w1, e1, hb, pp, inv1, hv⟩, ⟨w2, e2, hm, k2, inv2, m4, v1, v2⟩,
    ⟨w3, e3, r, ht, k3, inv3, s1, s2, fl, hr1, fun hr => ⟨(hr0 hr).1, (hr0 hr).2.1⟩⟩⟩

/-- per class: MultiSetEdit over its matcher and its auto-matched key/value edits, generic in the children's ghost.
    `MsInv`: the matcher invariant, and as many removal / insertion costs as unmatched from- / to-nodes.
    * `msViewOf` (matcher interval + Σ key/value intervals + the interval of the left-over removals/insertions: the
      k smallest … k largest costs before the matching is known, their exact sum afterwards) contains the final cost;
    * `bounds()` succeeds, returns it, settles the key/value edits, changes nothing observable;
    * `tighten_bounds()` succeeds, never widens, strictly decreases `msBase + width` on True, returns False only on a
      single value, and True after an observation (`Q` of the key/value edits) only with a changed interval. -/
theorem multiset_protocol {rec : Ops} {g : Ghost} (h : Protocol rec g) (n : Nat) (l : Lbl) (s : MsSt) (kvps : List M)
    (w : WmSt) (edges : List (List M)) (inv : MsInv g s kvps w edges) (hn : wmFlags w + muLLg g edges < n) :
    ((msViewOf g s kvps w edges).lo ≤ msFinOf g s kvps w edges ∧
      msFinOf g s kvps w edges ≤ (msViewOf g s kvps w edges).hi) ∧
    (∃ kvps' w' e', msBounds rec l s kvps w edges = .ok (.ms l s kvps' w' e', msViewOf g s kvps w edges) ∧
      PresL g kvps kvps' ∧ PresLL g edges e' ∧ MsInv g s kvps' w' e' ∧
      msViewOf g s kvps' w' e' = msViewOf g s kvps w edges ∧ (∀ m ∈ kvps', g.Q m)) ∧
    (∃ kvps' w' e' r, msTighten rec n l s kvps w edges = .ok (.ms l s kvps' w' e', r) ∧ KeepsL g kvps kvps' ∧
      KeepsLL g edges e' ∧ MsInv g s kvps' w' e' ∧
      (msViewOf g s kvps w edges).lo ≤ (msViewOf g s kvps' w' e').lo ∧
      (msViewOf g s kvps' w' e').hi ≤ (msViewOf g s kvps w edges).hi ∧
      msBase g kvps' w' e' ≤ msBase g kvps w edges ∧
      (r = true → msBase g kvps' w' e' < msBase g kvps w edges ∨
        (msViewOf g s kvps w edges).lo < (msViewOf g s kvps' w' e').lo ∨
        (msViewOf g s kvps' w' e').hi < (msViewOf g s kvps w edges).hi) ∧
      (r = false → (msViewOf g s kvps' w' e').lo = (msViewOf g s kvps' w' e').hi) ∧
      ((∀ m ∈ kvps, g.Q m) → r = true → msViewOf g s kvps' w' e' ≠ msViewOf g s kvps w edges)) := by
  obtain ⟨k1, w1, e1, hb, pk, pp, inv1, _, hv, q, _⟩ := msBounds_ok h l inv
  obtain ⟨k2, w2, e2, r, ht, kk, ke, inv2, _, _, _, v1, v2, b, _, hd, hs, hq⟩ := msTighten_ok h n l inv hn
  exact ⟨msView_wf h inv, ⟨k1, w1, e1, hb, pk, pp, inv1, hv, q⟩, ⟨k2, w2, e2, r, ht, kk, ke, inv2, v1, v2, b, hd, hs, hq⟩⟩

/-! ### the fresh machine of `from.edits(to)` -/

/-- `mkEdit o orc [] [] f t` SATISFIES the structural invariant, on the fragment without MultiSetEdit:
    `f.noDict` (no `DictNode` on the from-side, i.e. dict strategy `none` / lists / scalars), distinct keys in every
    mapping, and the to-side in the domain `fkOK` on which FixedKeyDictNodeEdit's static upper bound
    `from.total_size + to.total_size + 1` really bounds its sub-edits (every value `v` under key `k` of a fixed-key
    dictionary of `t` has `3 * nw v ≤ 2 * len k + 5`, `nw` = number of `null` leaves reachable through lists only).
    Outside `fkOK` the invariant is FALSE and so is the property: see NOTES_C04 (finding D24). -/
theorem mkEdit_invariant (o : Opts) (orc : Orc) (f t : Tree) (hf : f.noDict = true) (hkf : f.KeysDistinct)
    (hkt : t.KeysDistinct) (ht : t.fkOK = true) (F n : Nat) (hF : muG noAtoms (mkEdit o orc [] [] f t) < F)
    (hn : height (mkEdit o orc [] [] f t) ≤ n) : (G noAtoms F n).I (mkEdit o orc [] [] f t) :=
  ⟨(mkEdit_fresh noAtoms o orc f hf hkf t hkt ht [] []).1.inv F hF, hn⟩

/-- a fresh machine exposes its initial bounds, and the initial upper bound is at most
    `size f + size t + 1 + 3 * nw t` (the `3 * nw t` is needed: `LeafNode("").edits(NullNode)` costs
    `lev("", "None") = 4` while both sizes are 0) -/
theorem mkEdit_initial_bounds (o : Opts) (orc : Orc) (f t : Tree) (hf : f.noDict = true) (hkf : f.KeysDistinct)
    (hkt : t.KeysDistinct) (ht : t.fkOK = true) :
    viewG noAtoms (mkEdit o orc [] [] f t) = initIv (mkEdit o orc [] [] f t) ∧
      (initIv (mkEdit o orc [] [] f t)).hi ≤ f.size + t.size + 1 + 3 * t.nw :=
  ⟨(mkEdit_fresh noAtoms o orc f hf hkf t hkt ht [] []).1.view, (mkEdit_fresh noAtoms o orc f hf hkf t hkt ht [] []).2⟩

/-- FULL STATEMENT for the fragment: the machine of `from.edits(to)` obeys the protocol, with NO hypothesis on the
    machine (loop bound `F` = its measure + 1, nesting depth `n` = its height) -/
theorem engine_protocol (q : Bool) (o : Opts) (orc : Orc) (f t : Tree) (hf : f.noDict = true) (hkf : f.KeysDistinct)
    (hkt : t.KeysDistinct) (ht : t.fkOK = true) :
    ∃ F n, Protocol (mkOps q F n) (G noAtoms F n) ∧ (G noAtoms F n).I (mkEdit o orc [] [] f t) :=
  ⟨muG noAtoms (mkEdit o orc [] [] f t) + 1, height (mkEdit o orc [] [] f t),
    engine_protocol_every_machine q _ (Nat.succ_pos _) _,
    mkEdit_invariant o orc f t hf hkf hkt ht _ _ (Nat.lt_succ_self _) (Nat.le_refl _)⟩

/-- the machine of `from.edits(to)` satisfies the structural invariant also with MultiSetEdits: trees without
    fixed-key dictionaries (the DEFAULT dict strategy builds only `DictNode`s) and a solver oracle whose recorded
    answers have full size (`OrcFull`: every answer pairs `min(nf, nt)` nodes — what a min-weight matching does;
    unrecorded matchers get the identity).  No hypothesis on keys or sizes: the static-bound defect D24 does not
    exist here, a MultiSetEdit has no static upper bound. -/
theorem mkEdit_invariant_dict (o : Opts) (orc : Orc) (f t : Tree) (hf : f.noFdict = true) (horc : OrcFull orc.assign)
    (F n : Nat) (hF : muG noAtoms (mkEdit o orc [] [] f t) < F) (hn : height (mkEdit o orc [] [] f t) ≤ n) :
    (G noAtoms F n).I (mkEdit o orc [] [] f t) :=
  ⟨(mkEdit_invP noAtoms o orc horc f hf t [] []).inv F hF, hn⟩

/-- FULL STATEMENT for every pair of DOCUMENTS (as `json.build_tree` builds them): the machine of
    `build o f`.edits(`build o t`) obeys the protocol — with key edits (default, `DictNode` / MultiSetEdit) for every
    full-size solver oracle and every `make_distinct` oracle; without key edits (`FixedKeyDictNode`) for distinct keys
    and `t` in the domain `fkOK` of the static bound (D24). -/
theorem engine_protocol_docs (q : Bool) (o : Opts) (orc : Orc) (f t : Doc) (hkf : f.KeysDistinct) (hkt : t.KeysDistinct)
    (horc : OrcFull orc.assign) (hdom : o.ake = false → (build o t).fkOK = true) :
    ∃ F n, Protocol (mkOps q F n) (G noAtoms F n) ∧
      (G noAtoms F n).I (mkEdit o orc [] [] (build o f) (build o t)) := by
  refine ⟨muG noAtoms (mkEdit o orc [] [] (build o f) (build o t)) + 1,
    height (mkEdit o orc [] [] (build o f) (build o t)), engine_protocol_every_machine q _ (Nat.succ_pos _) _, ?_⟩
  cases hake : o.ake with
  | true =>
    exact mkEdit_invariant_dict o orc _ _ (build_noFdict o hake f) horc _ _ (Nat.lt_succ_self _) (Nat.le_refl _)
  | false =>
    exact mkEdit_invariant o orc _ _ (build_noDict o hake f) (build_kd o f hkf) (build_kd o t hkt) (hdom hake) _ _
      (Nat.lt_succ_self _) (Nat.le_refl _)

section Observed
variable {ops : Ops} {g : Ghost}

/-- what `bounds()` returns contains the final cost -/
theorem bounds_sound (P : Protocol ops g) (m : M) (hI : g.I m) :
    ∃ m' b, ops.bounds m = .ok (m', b) ∧ b.lo ≤ g.fin m ∧ g.fin m ≤ b.hi :=
  let ⟨m', e, _, _⟩ := P.bounds m hI
  ⟨m', g.view m, e, P.wf m hI⟩

/-- an external caller doing `b0 = e.bounds(); r = e.tighten_bounds(); b1 = e.bounds()`: all three calls succeed,
    b1 ⊆ b0, the final cost lies in b1, r ⇒ b1 ≠ b0 (strictly shrunk), ¬r ⇒ b1 is a single value -/
theorem observed_step (P : Protocol ops g) (m : M) (hI : g.I m) :
    ∃ m1 b0 m2 r m3 b1, ops.bounds m = .ok (m1, b0) ∧ ops.tighten m1 = .ok (m2, r) ∧ ops.bounds m2 = .ok (m3, b1) ∧
      b0.lo ≤ b1.lo ∧ b1.hi ≤ b0.hi ∧ b1.lo ≤ g.fin m ∧ g.fin m ≤ b1.hi ∧
      (r = true → b1 ≠ b0) ∧ (r = false → b1.lo = b1.hi) := by
  obtain ⟨m1, e1, p1, q1⟩ := P.bounds m hI
  obtain ⟨m2, r, e2, st⟩ := P.tighten m1 p1.inv
  obtain ⟨m3, e3, p3, _⟩ := P.bounds m2 st.inv
  have wf := P.wf m2 st.inv
  have hs := st.sub
  rw [p1.view] at hs
  refine ⟨m1, _, m2, r, m3, _, e1, e2, e3, hs.1, hs.2, ?_, ?_, ?_, st.stop⟩
  · rw [← p1.fin, ← st.fin]; exact wf.1
  · rw [← p1.fin, ← st.fin]; exact wf.2
  · intro hr; rw [← p1.view]; exact st.strict q1 hr

/-- refinement converges: `while e.tighten_bounds(): pass` stops within `μ m + 1` steps, at the final cost -/
theorem converges (P : Protocol ops g) (m : M) (hI : g.I m) :
    ∃ m', full ops (g.μ m + 1) m = .ok m' ∧ g.I m' ∧ g.view m' = Iv.point (g.fin m) :=
  let ⟨m', e, k, hv⟩ := full_ok P (g.μ m + 1) m hI (Nat.lt_succ_self _)
  ⟨m', e, k.inv, hv⟩

end Observed

/-! ### EditDistance: the static facts its interval rests on (part of `editDistance_protocol`)

While the matrix is being built, `EditDistance.bounds()` is `[max(constant_cost, min cost over the current and
the last fringe diagonal), cost_upper_bound]`.  On the greedy matrix of L2 (`EditMatrix.spec`, which `costs` holds for
the processed diagonals): -/

/-- fringe lower bound monotone: a lower bound for the costs on diagonals k and k-1 is one for k+1 and k -/
theorem editDistance_fringe_lb_monotone (rem ins : List Nat) (cells : List (List Nat)) (m n k x : Nat)
    (h : EditMatrix.FringeLB rem ins cells m n k x) : EditMatrix.FringeLB rem ins cells m n (k + 1) x :=
  EditMatrix.fringeLB_step rem ins cells m n k x h

/-- fringe lower bound sound: it never exceeds the final cost -/
theorem editDistance_fringe_lb_sound (rem ins : List Nat) (cells : List (List Nat)) (k x : Nat)
    (hk : k ≤ ins.length + rem.length) (h : EditMatrix.FringeLB rem ins cells ins.length rem.length k x) :
    x ≤ (EditMatrix.solve rem ins cells).1 :=
  EditMatrix.fringeLB_sound rem ins cells k x hk h

/-- greedy final ≤ Σ removes + Σ inserts (≤ cost_upper_bound) -/
theorem editDistance_final_le_total (rem ins : List Nat) (cells : List (List Nat)) :
    (EditMatrix.solve rem ins cells).1 ≤ rem.sum + ins.sum :=
  EditMatrix.solve_total_le rem ins cells

example : EditMatrix.FringeLB [2, 3] [4] [[1, 9]] 1 2 0 0 := by
  intro r c _ _ _; exact Nat.zero_le _

/-! ### non-vacuity: a concrete machine without atoms — `[[1, 2], 7]` → `[[1, 3], 8, 9]` with list edits off -/

def exampleMachine : M :=
  .fixed { kind := .fixed }
    [.fixed { kind := .fixed, fi := .at 0, ti := .at 0 }
        [.const { kind := .match_, fi := .at 0, ti := .at 0 } 0, .const { kind := .match_, fi := .at 1, ti := .at 1 } 1] [],
     .const { kind := .match_, fi := .at 1, ti := .at 1 } 1]
    [mkInsert 2 1 1]

example : (G noAtoms 9 3).I exampleMachine := by
  simp [exampleMachine, G, invG, invL, height, heightL]

example : ∃ m', full (mkOps true 9 3) ((G noAtoms 9 3).μ exampleMachine + 1) exampleMachine = .ok m' ∧
    (G noAtoms 9 3).view m' = Iv.point 4 := by
  obtain ⟨m', e, _, hv⟩ := converges (engine_protocol_every_machine true 9 (by omega) 3) exampleMachine
    (by simp [exampleMachine, G, invG, invL, height, heightL])
  exact ⟨m', e, by rw [hv]; simp [exampleMachine, G, finG, finL, tailCost, GtModel.mkInsert, Script.cost]⟩

/-- a fixed-key dictionary: `{"a": 1, "b": 2}` → `{"a": 3, "c": 2}` under dict strategy `none`: the pending edits are
    the key/value pair edit for "a", Remove("b": 2) and Insert("c": 2); nothing expanded yet -/
def exampleDict : M :=
  .coll { kind := .fk } { ub0 := 21, inits := [], pinits := [1, 5, 5] }
    [.kvp { kind := .kvp, fi := .at 0, ti := .at 0 }
        (.const { kind := .match_, fi := .at 0, ti := .at 0 } 0) (.const { kind := .match_, fi := .at 1, ti := .at 1 } 1),
     .const { kind := .remove, fi := .at 1 } 5, .const { kind := .insert, fi := .at 1 } 5]
    []

example : (G noAtoms 9 3).I exampleDict := by
  simp [exampleDict, G, invG, invL, height, heightL, muL, muG, HiLe, viewOnly, viewG, Iv.add, Iv.point]

end GtModel.C04

/-
  C05 — "Results do not depend on how the edit API is driven or on status settings", on the operational model L3.

  `Op = bounds | tighten | complete | valid | edits | nonzero | onDiff` (the six public operations, plus the
  recursive `on_diff` that `TreeNode.diff` performs); `run quiet n m ops` applies them to the root machine,
  `finish quiet n m` = `while e.tighten_bounds(): pass` followed by the script dump.  `quiet` is the
  `DEFAULT_PRINTER.quiet` flag (it decides whether `EditDistance` reads its cells' `bounds()` before tightening them);
  colour never reaches the engine.

  FULL STATEMENTS:
     no_internal_error     ∀ quiet ops, run quiet n (mkEdit o orc [] [] f t) ops ≠ error
     history_independent   finish (run quiet m ops) = finish m = (cost, script) of L2 `edits`
  PROVED here:
     no_internal_error, observations_nested, history_independent, history_independent_L2,
     observations_contain_L2_cost, mkEdit_refines_L2
                                    the FULL statements, with no hypothesis on the machine, for `from.edits(to)` on the
                                    fragment WITHOUT MultiSetEdit: `f.noDict` (no DictNode on the from side), distinct
                                    keys, to-side in the domain `fkOK` of FixedKeyDictNodeEdit's static upper bound
                                    (outside it the statements are FALSE: finding D24, NOTES_C05).  The result of
                                    finishing after any history, for both values of `quiet`, is L2's `edits` itself.
     *_every_machine                the same for EVERY machine (all seven classes, incl. MultiSetEdit + matcher) that
                                    satisfies the structural invariant `invG`, for every `make_distinct` oracle
     no_internal_error_docs, history_independent_docs
                                    the FULL statements for every pair of DOCUMENTS and every option set; the result
                                    of finishing after any history is `toD (diffDocs o orc f t)`, L2's script.
                                    Hypotheses: distinct keys, `OrcFull` (solver answers of full size), and without
                                    key edits `fkOK` (D24).

  ASSUMPTION built into every `history_independent*` statement: ONE solver oracle `orc` (hence one `orc.assign`) is
  shared by the run after the history (`run q1 … ops`, `finish q1 … m1`) and by the fresh run (`finish q2 … (mkEdit …)`).
  In the code the assignment is computed by scipy from the edges' `bounds().upper_bound` at the moment the matching is
  forced (`matching.py`, after `_make_edges_distinct`), so the solver's answer is a function of the edge bounds AT SOLVE
  TIME — exactly a quantity that another history / `quiet` setting could change; a different full-size answer gives a
  different `diffDocs o orc.assign f t`.  The model takes the answer from the recorded run.  The theorems therefore
  say "results do not depend on the history, GIVEN that the solver answers the same"; that it does is checked per run
  by the `history` stream (both runs are recorded and compared), not proved.
-/
import GtModel.Props.C04
import GtModel.Proofs.LazyEd
import GtModel.Proofs.LazyRefC

namespace GtModel.C05
open GtModel.Lazy

/-- any sequence of public operations on a machine satisfying the invariant succeeds -/
theorem no_internal_error_of_hyp (q : Bool) (F : Nat) (hF : 0 < F) (a : Ghost) (hA : AtomHyp q F a)
    (hE : EditsHyp q F a) (n : Nat) (m : M) (hI : (G a F (n + 1)).I m) (hμ : muG a m < F) (ops : List Op) (e : Err) :
    run q F n m ops ≠ .error e := by
  obtain ⟨m', rs, h, _⟩ := run_ok q F hF a hA hE n ops m hI hμ
  rw [h]; intro hc; cases hc

/-- every `bounds()` result of a run is contained in the previous one and contains the final cost -/
theorem observations_nested_of_hyp (q : Bool) (F : Nat) (hF : 0 < F) (a : Ghost) (hA : AtomHyp q F a)
    (hE : EditsHyp q F a) (n : Nat) (m : M) (hI : (G a F (n + 1)).I m) (hμ : muG a m < F) (ops : List Op) :
    ∃ m' rs, run q F n m ops = .ok (m', rs) ∧ Nested (finG a m) (viewG a m) rs :=
  let ⟨m', rs, h, _, hn⟩ := run_ok q F hF a hA hE n ops m hI hμ
  ⟨m', rs, h, hn⟩

/-- finishing after ANY history gives the same script (with its costs) as finishing the fresh machine, for any
    two settings `q1`, `q2` of the quiet flag -/
theorem history_independent_of_hyp (q1 q2 : Bool) (F : Nat) (hF : 0 < F) (a : Ghost) (hA1 : AtomHyp q1 F a)
    (hA2 : AtomHyp q2 F a) (hE : EditsHyp q1 F a) (n : Nat) (m : M) (hI : (G a F (n + 1)).I m) (hμ : muG a m < F)
    (ops : List Op) :
    ∃ m1 rs m2 m3, run q1 F n m ops = .ok (m1, rs) ∧ finish q1 F n m1 = .ok (m2, scriptG a m) ∧
      finish q2 F n m = .ok (m3, scriptG a m) := by
  obtain ⟨m1, rs, h, k, _⟩ := run_ok q1 F hF a hA1 hE n ops m hI hμ
  have hμ1 : muG a m1 < F := by have := k.mu; simp only [G_mu] at this; omega
  obtain ⟨m2, h2⟩ := finish_ok q1 F hF a hA1 n m1 k.inv hμ1
  obtain ⟨m3, h3⟩ := finish_ok q2 F hF a hA2 n m hI hμ
  have hs : scriptG a m1 = scriptG a m := k.scr
  rw [hs] at h2
  exact ⟨m1, rs, m2, m3, h, h2, h3⟩

theorem noAtoms_edits (q : Bool) (F : Nat) : EditsHyp q F C04.noAtoms := by
  intro n _ m hI ha
  cases m <;> simp [isAtom] at ha <;> exact hI.1.elim

/-- unconditional, EVERY machine (const, kvp, str, fixed, coll, ed, ms) satisfying the structural invariant -/
theorem no_internal_error_every_machine (q : Bool) (F : Nat) (hF : 0 < F) (n : Nat) (m : M)
    (hI : (G C04.noAtoms F (n + 1)).I m) (hμ : muG C04.noAtoms m < F) (ops : List Op) (e : Err) :
    run q F n m ops ≠ .error e :=
  no_internal_error_of_hyp q F hF C04.noAtoms (C04.noAtoms_hyp q F) (noAtoms_edits q F) n m hI hμ ops e

theorem observations_nested_every_machine (q : Bool) (F : Nat) (hF : 0 < F) (n : Nat) (m : M)
    (hI : (G C04.noAtoms F (n + 1)).I m) (hμ : muG C04.noAtoms m < F) (ops : List Op) :
    ∃ m' rs, run q F n m ops = .ok (m', rs) ∧ Nested (finG C04.noAtoms m) (viewG C04.noAtoms m) rs :=
  observations_nested_of_hyp q F hF C04.noAtoms (C04.noAtoms_hyp q F) (noAtoms_edits q F) n m hI hμ ops

theorem history_independent_every_machine (q1 q2 : Bool) (F : Nat) (hF : 0 < F) (n : Nat) (m : M)
    (hI : (G C04.noAtoms F (n + 1)).I m) (hμ : muG C04.noAtoms m < F) (ops : List Op) :
    ∃ m1 rs m2 m3, run q1 F n m ops = .ok (m1, rs) ∧ finish q1 F n m1 = .ok (m2, scriptG C04.noAtoms m) ∧
      finish q2 F n m = .ok (m3, scriptG C04.noAtoms m) :=
  history_independent_of_hyp q1 q2 F hF C04.noAtoms (C04.noAtoms_hyp q1 F) (C04.noAtoms_hyp q2 F)
    (noAtoms_edits q1 F) n m hI hμ ops

/-- FULL STATEMENT for the fragment without MultiSetEdit (`f.noDict`, distinct keys, to-side in the domain `fkOK`
    of the static FixedKeyDictNodeEdit bound — see `C04.mkEdit_invariant`): no sequence of public operations on the
    machine of `from.edits(to)` raises, for both values of `quiet`, every loop bound above the machine's measure
    and every nesting bound above its height -/
theorem no_internal_error (q : Bool) (o : Opts) (orc : Orc) (f t : Tree) (hf : f.noDict = true) (hkf : f.KeysDistinct)
    (hkt : t.KeysDistinct) (ht : t.fkOK = true) (F n : Nat) (hF : muG C04.noAtoms (mkEdit o orc [] [] f t) < F)
    (hn : height (mkEdit o orc [] [] f t) ≤ n + 1) (ops : List Op) (e : Err) :
    run q F n (mkEdit o orc [] [] f t) ops ≠ .error e :=
  no_internal_error_every_machine q F (by omega) n _ (C04.mkEdit_invariant o orc f t hf hkf hkt ht F (n + 1) hF hn) hF ops e

/-- every interval observed during any run on `from.edits(to)` lies in the previous one, starting from the initial
    bounds, and contains the final cost -/
theorem observations_nested (q : Bool) (o : Opts) (orc : Orc) (f t : Tree) (hf : f.noDict = true) (hkf : f.KeysDistinct)
    (hkt : t.KeysDistinct) (ht : t.fkOK = true) (F n : Nat) (hF : muG C04.noAtoms (mkEdit o orc [] [] f t) < F)
    (hn : height (mkEdit o orc [] [] f t) ≤ n + 1) (ops : List Op) :
    ∃ m' rs, run q F n (mkEdit o orc [] [] f t) ops = .ok (m', rs) ∧
      Nested (finG C04.noAtoms (mkEdit o orc [] [] f t)) (initIv (mkEdit o orc [] [] f t)) rs := by
  have := observations_nested_every_machine q F (by omega) n _
    (C04.mkEdit_invariant o orc f t hf hkf hkt ht F (n + 1) hF hn) hF ops
  rwa [(C04.mkEdit_initial_bounds o orc f t hf hkf hkt ht).1] at this

/-- finishing `from.edits(to)` after ANY history of public operations gives the same script as finishing it at once,
    for any two settings of `quiet` -/
theorem history_independent (q1 q2 : Bool) (o : Opts) (orc : Orc) (f t : Tree) (hf : f.noDict = true)
    (hkf : f.KeysDistinct) (hkt : t.KeysDistinct) (ht : t.fkOK = true) (F n : Nat)
    (hF : muG C04.noAtoms (mkEdit o orc [] [] f t) < F) (hn : height (mkEdit o orc [] [] f t) ≤ n + 1)
    (ops : List Op) :
    ∃ m1 rs m2 m3, run q1 F n (mkEdit o orc [] [] f t) ops = .ok (m1, rs) ∧
      finish q1 F n m1 = .ok (m2, scriptG C04.noAtoms (mkEdit o orc [] [] f t)) ∧
      finish q2 F n (mkEdit o orc [] [] f t) = .ok (m3, scriptG C04.noAtoms (mkEdit o orc [] [] f t)) :=
  history_independent_every_machine q1 q2 F (by omega) n _
    (C04.mkEdit_invariant o orc f t hf hkf hkt ht F (n + 1) hF hn) hF ops

/-- L3 → L2 refinement: the ghost script and final cost of the fresh machine are L2's `edits` (as the harness dumps
    it: `toD`), for EVERY pair of trees and every oracle — MultiSetEdit included -/
theorem mkEdit_refines_L2 (o : Opts) (orc : Orc) (f t : Tree) :
    scriptG C04.noAtoms (mkEdit o orc [] [] f t) = toD (edits o orc.assign [] [] f t) ∧
      finG C04.noAtoms (mkEdit o orc [] [] f t) = (edits o orc.assign [] [] f t).cost :=
  ⟨(mkEdit_refines C04.noAtoms o orc f t [] []).scr, (mkEdit_refines C04.noAtoms o orc f t [] []).fin⟩

/-- FULL STATEMENT `history_independent` with its last link: finishing `from.edits(to)` after ANY history, with any
    `quiet` setting, yields exactly L2's script `edits o orc [] [] f t` (C01–C03 are theorems about that script) -/
theorem history_independent_L2 (q1 q2 : Bool) (o : Opts) (orc : Orc) (f t : Tree) (hf : f.noDict = true)
    (hkf : f.KeysDistinct) (hkt : t.KeysDistinct) (ht : t.fkOK = true) (F n : Nat)
    (hF : muG C04.noAtoms (mkEdit o orc [] [] f t) < F) (hn : height (mkEdit o orc [] [] f t) ≤ n + 1)
    (ops : List Op) :
    ∃ m1 rs m2 m3, run q1 F n (mkEdit o orc [] [] f t) ops = .ok (m1, rs) ∧
      finish q1 F n m1 = .ok (m2, toD (edits o orc.assign [] [] f t)) ∧
      finish q2 F n (mkEdit o orc [] [] f t) = .ok (m3, toD (edits o orc.assign [] [] f t)) := by
  have := history_independent q1 q2 o orc f t hf hkf hkt ht F n hF hn ops
  rwa [(mkEdit_refines_L2 o orc f t).1] at this

/-- every observed interval contains L2's cost -/
theorem observations_contain_L2_cost (q : Bool) (o : Opts) (orc : Orc) (f t : Tree) (hf : f.noDict = true)
    (hkf : f.KeysDistinct) (hkt : t.KeysDistinct) (ht : t.fkOK = true) (F n : Nat)
    (hF : muG C04.noAtoms (mkEdit o orc [] [] f t) < F) (hn : height (mkEdit o orc [] [] f t) ≤ n + 1)
    (ops : List Op) :
    ∃ m' rs, run q F n (mkEdit o orc [] [] f t) ops = .ok (m', rs) ∧
      Nested (edits o orc.assign [] [] f t).cost (initIv (mkEdit o orc [] [] f t)) rs := by
  have := observations_nested q o orc f t hf hkf hkt ht F n hF hn ops
  rwa [(mkEdit_refines_L2 o orc f t).2] at this

/-- FULL STATEMENT `no_internal_error` for every pair of DOCUMENTS and every option set: no sequence of public
    operations on `build o f`.edits(`build o t`) raises, for both values of `quiet`.  Hypotheses: distinct keys
    (Python dicts), a solver oracle with full-size answers, and — only without key edits — `t` in the domain `fkOK`
    of FixedKeyDictNodeEdit's static bound (outside it the statement is false: D24). -/
theorem no_internal_error_docs (q : Bool) (o : Opts) (orc : Orc) (f t : Doc) (hkf : f.KeysDistinct)
    (hkt : t.KeysDistinct) (horc : OrcFull orc.assign) (hdom : o.ake = false → (build o t).fkOK = true) (F n : Nat)
    (hF : muG C04.noAtoms (mkEdit o orc [] [] (build o f) (build o t)) < F)
    (hn : height (mkEdit o orc [] [] (build o f) (build o t)) ≤ n + 1) (ops : List Op) (e : Err) :
    run q F n (mkEdit o orc [] [] (build o f) (build o t)) ops ≠ .error e := by
  have hI : (G C04.noAtoms F (n + 1)).I (mkEdit o orc [] [] (build o f) (build o t)) := by
    cases hake : o.ake with
    | true => exact C04.mkEdit_invariant_dict o orc _ _ (build_noFdict o hake f) horc F (n + 1) hF hn
    | false =>
      exact C04.mkEdit_invariant o orc _ _ (build_noDict o hake f) (build_kd o f hkf) (build_kd o t hkt) (hdom hake)
        F (n + 1) hF hn
  exact no_internal_error_every_machine q F (by omega) n _ hI hF ops e

/-- FULL STATEMENT `history_independent` for every pair of documents: finishing after ANY history gives the same
    script as finishing at once, for any two settings of `quiet`, and that script is L2's `diffDocs o orc f t` (the
    object of C01–C03); every observed interval lies in the previous one and contains L2's cost -/
theorem history_independent_docs (q1 q2 : Bool) (o : Opts) (orc : Orc) (f t : Doc) (hkf : f.KeysDistinct)
    (hkt : t.KeysDistinct) (horc : OrcFull orc.assign) (hdom : o.ake = false → (build o t).fkOK = true) (F n : Nat)
    (hF : muG C04.noAtoms (mkEdit o orc [] [] (build o f) (build o t)) < F)
    (hn : height (mkEdit o orc [] [] (build o f) (build o t)) ≤ n + 1) (ops : List Op) :
    ∃ m1 rs m2 m3, run q1 F n (mkEdit o orc [] [] (build o f) (build o t)) ops = .ok (m1, rs) ∧
      Nested (diffDocs o orc.assign f t).cost
        (viewG C04.noAtoms (mkEdit o orc [] [] (build o f) (build o t))) rs ∧
      finish q1 F n m1 = .ok (m2, toD (diffDocs o orc.assign f t)) ∧
      finish q2 F n (mkEdit o orc [] [] (build o f) (build o t)) = .ok (m3, toD (diffDocs o orc.assign f t)) := by
  have hI : (G C04.noAtoms F (n + 1)).I (mkEdit o orc [] [] (build o f) (build o t)) := by
    cases hake : o.ake with
    | true => exact C04.mkEdit_invariant_dict o orc _ _ (build_noFdict o hake f) horc F (n + 1) hF hn
    | false =>
      exact C04.mkEdit_invariant o orc _ _ (build_noDict o hake f) (build_kd o f hkf) (build_kd o t hkt) (hdom hake)
        F (n + 1) hF hn
  obtain ⟨m1, rs, m2, m3, h1, h2, h3⟩ := history_independent_every_machine q1 q2 F (by omega) n _ hI hF ops
  obtain ⟨m1', rs', h1', hn'⟩ := observations_nested_every_machine q1 F (by omega) n _ hI hF ops
  rw [h1] at h1'
  cases h1'
  have hr := mkEdit_refines_L2 o orc (build o f) (build o t)
  rw [hr.1] at h2 h3
  rw [hr.2] at hn'
  exact ⟨m1, rs, m2, m3, h1, hn', h2, h3⟩

/-- EditDistance invariant "matrix freed ⇒ script cached" (the state in which defect D8 dereferenced `None` is
    unreachable): preserved by `bounds()`, `tighten_bounds()` and `on_diff()`/`edits()` WHATEVER the cells do, and true
    of a fresh EditDistance (`edInit_J`).  The only place that reads the matrix after `_cleanup` (`edFinalize`, error
    `Err.freed`) is guarded by `cache = none`, which `J` makes incompatible with `freed`. -/
theorem editDistance_freed_cached (rec : Ops) (q : Bool) (n : Nat) (l : Lbl) (s : EdSt) (cells : List (List M))
    (hj : s.J) :
    (∀ m' b, boundsB rec n (.ed l s cells) = .ok (m', b) → ∃ s' c', m' = .ed l s' c' ∧ s'.J) ∧
    (∀ m' r, tightenB rec q n (.ed l s cells) = .ok (m', r) → ∃ s' c', m' = .ed l s' c' ∧ s'.J) ∧
    (∀ m', onDiffB rec q n (.ed l s cells) = .ok m' → ∃ s' c', m' = .ed l s' c' ∧ s'.J) :=
  ed_freed_cached rec q n l s cells hj

theorem editDistance_fresh_J (ps : Nat × Nat) (fs ts : List Nat) (pen : Nat) : (edInit ps fs ts pen).J :=
  edInit_J ps fs ts pen

/-! non-vacuity: the machines of C04's examples (a nested positional list edit; a lazily expanded fixed-key
    dictionary edit), any operation sequence, loops bounded by 9 iterations -/
example (ops : List Op) (e : Err) : run false 9 9 C04.exampleMachine ops ≠ .error e :=
  no_internal_error_every_machine false 9 (by omega) 9 C04.exampleMachine
    (by simp [C04.exampleMachine, G, invG, invL, height, heightL])
    (by simp [C04.exampleMachine, muG, muL, viewL, viewG, Iv.add, Iv.point]) ops e

example (ops : List Op) (e : Err) : run true 40 9 C04.exampleDict ops ≠ .error e :=
  no_internal_error_every_machine true 40 (by omega) 9 C04.exampleDict
    (by simp [C04.exampleDict, G, invG, invL, height, heightL, muL, muG, HiLe, viewOnly, viewG, Iv.add, Iv.point])
    (by simp [C04.exampleDict, muG, muL, viewL, viewG, decL, Iv.add, Iv.point]) ops e

/-- non-vacuity of the full statements: a list alignment with a nested fixed-key dictionary and a string edit -/
def exF : Tree := .list [.leaf (.int 1), .fdict [([107], .leaf (.str [97, 98]))], .leaf (.int 2)]
def exT : Tree := .list [.fdict [([107], .leaf (.str [97, 99, 100]))], .leaf .null]

example (q : Bool) (ops : List Op) (e : Err) :
    run q (muG C04.noAtoms (mkEdit {} {} [] [] exF exT) + 1) (height (mkEdit {} {} [] [] exF exT))
      (mkEdit {} {} [] [] exF exT) ops ≠ .error e :=
  no_internal_error q {} {} exF exT (by decide) (by decide) (by decide) (by decide) _ _ (Nat.lt_succ_self _)
    (Nat.le_succ _) ops e

theorem orcFull_nil : OrcFull ([] : Oracle) := by
  intro fps tps
  simp [Oracle.lookup, identityPairs]

/-- non-vacuity of the document-level statement: default options, two objects with a shared key, a removed key, an
    inserted key and a list alignment below — a MultiSetEdit over a matcher, key/value pair edits, an EditDistance -/
def exDocF : Doc := .obj [([97], .scalar (.int 1)), ([98], .list [.scalar (.int 1), .scalar (.int 2)])]
def exDocT : Doc := .obj [([97], .scalar (.int 2)), ([99], .list [.scalar (.int 1), .scalar (.int 3)])]

example (q : Bool) (ops : List Op) (e : Err) :
    run q (muG C04.noAtoms (mkEdit {} {} [] [] (build {} exDocF) (build {} exDocT)) + 1)
      (height (mkEdit {} {} [] [] (build {} exDocF) (build {} exDocT)))
      (mkEdit {} {} [] [] (build {} exDocF) (build {} exDocT)) ops ≠ .error e :=
  no_internal_error_docs q {} {} exDocF exDocT (by decide) (by decide) orcFull_nil (fun h => by cases h) _ _
    (Nat.lt_succ_self _) (Nat.le_succ _) ops e

end GtModel.C05

/-
  C06 "Both documents can be read back from the rendered diff: in a diff rendered as JSON, deleting everything marked
  as inserted leaves text that parses to the first document and deleting everything marked as removed leaves text
  that parses to the second document (separator placement aside).  The rendering carries no change marks exactly
  when the documents are equal."

  SCOPE.  The statement is about the COLOUR rendering (`Printer(ansi_color=True)`): the marks are the combining
  strike / under-plus characters and the red / green background of the ANSI output, recovered by the `render` stream
  (without colour `Match.print` / `Replace.print` write `old -> new` with no marks at all, so nothing could be
  projected).  "Parses to" is stated with a JSON TOKENIZER, not a full JSON parser: the projection and the canonical
  text of the document have the same token structure (strings as single tokens, `[ ] { } :`, literals; commas ignored),
  given as a token tree `Val`; that two JSON texts with the same token tree denote the same data is not formalised
  (the stream's monitor does parse both projections of the real output with `json.loads` and compares them as data).

  Model: `GtModel.Render.render f t s` (Model/Render.lean, validated against the real JSON formatter by stream
  `render`: exact equality of the (character, mark) sequences) over the L2 script `s = edits o orc [] [] f t`.

  Vocabulary
    projFrom r / projTo r   delete every character marked inserted / removed (and the " -> " arrows)
    tokens                  JSON tokenizer over code points: strings as single tokens, `[ ] { } : ,`, literals
    dropCommas              "separator placement aside": comma tokens are ignored
    printJson f             the rendering of the unedited node (= `jsonText f`)
    treeVal f : Val         the JSON value of a node as a token tree; `(treeVal f).toks = dropCommas (tokens (printJson f))`
                            (`printJson_toks`)
    ValPerm v w             v and w are equal up to the ORDER of the members of objects, recursively: the least
                            equivalence that is a congruence for members (same key), lists (element-wise, in order) and
                            objects (element-wise after a permutation of the members).  Nothing else is identified:
                            related values have the same multiset of tokens (`ValPerm.toks_perm`), atoms are related
                            only to themselves (`ValPerm.atom_eq`); see the examples at the end (a reordered object is
                            accepted, two objects with different members are rejected).
                            (Needed because a mapping's pairs are printed in EDIT order — matched pairs first, then
                            removals, then insertions — on both sides; and a zero-cost Match prints the to-node, the
                            cost gate the from-node: node-equal trees, which for trees with distinct keys are
                            `ValPerm`-related, `Render.eq_valPerm`.)
    hasMark r               some character of the rendering is not plain

  PROVED, for all options `o`, all oracles (assignment-solver answers) `orc`, all trees whose mappings have distinct
  keys (`Tree.KeysDistinct`, what `build` produces) and whose float leaves carry a literal repr (`litOK`):
    (1) `project_from` : ∃ v, ValPerm v (treeVal f) ∧ dropCommas (tokens (projFrom (render f t (edits o orc [] [] f t)))) = v.toks
    (2) `project_to`   : ∃ v, ValPerm v (treeVal t) ∧ dropCommas (tokens (projTo   (render f t (edits o orc [] [] f t)))) = v.toks
        each together with `dropCommas (tokens (printJson f)) = (treeVal f).toks`;
        corollaries without `Val`: `project_from_tokens` / `project_to_tokens` — the comma-less token list of the
        projection is a permutation of that of the document's canonical text;
    (3) `marks_iff`    : hasMark (render f t (edits o orc [] [] f t)) = true ↔ f.eq t = false
    and for whole documents (`diffDocs`, `Doc.distinctKeys`, `Doc.floatsOK`): `project_from_docs`, `project_to_docs`,
    `marks_iff_docs` (… ↔ the documents differ as data, `Doc.dataEq`).
  How: `Render.main` (Proofs/RenderMain: every well-formed script projects correctly — leaves, `print_StringEdit`'s
  buffers, key/value pairs behind their cost gates, and `seq_lemma`: under the to_remove/to_insert delimiter counters of
  `print_SequenceNode` two surviving items are always separated by a surviving comma or the start symbol),
  `Render.script_wellformed` (Proofs/RenderEdits: the engine's script is well formed — from C01's index accounting
  `fixedScript_idx`/`edScript_idx`/`msScript_fromIdx`/`msScript_toIdx`/`fkScript_*`/`strSubs_idx`, the unfolding lemmas
  of `edits`, the trimmed prefix/suffix of EditDistance being node-equal, `eq_valPerm`, and C02 `zero_cost_iff_eq` for
  the cost gates), `Render.positive_cost_shows` (Proofs/RenderMarks: with C03 `reported_eq_sum` an edit of positive
  cost has a sub-edit of positive cost, down to a Match/Replace (arrow), a Remove/Insert (every node prints ≥ 1
  character) or a string edit between different strings) and `Render.zero_cost_is_match`.
  Also kept: `project_from_wf` / `project_to_wf` / `projection_is_value` for EVERY well-formed script (`Render.WF`).
-/
import GtModel.Proofs.RenderMarks

namespace GtModel.C06
open GtModel GtModel.Render

/-- `s` is a well-formed edit of `f` into `t` (see `Render.WF`), printed behind the root cost gate -/
def ScriptWellFormed (f t : Tree) (s : Script) : Prop :=
  WF (.tree f) (.tree t) s ∧ Gate (.tree f) (.tree t) s

/-- the comma-less tokens of the canonical text of a node are the tokens of its value -/
theorem printJson_toks (f : Tree) (hf : litOK f = true) : dropCommas (tokens (printJson f)) = (treeVal f).toks :=
  T_jsonText f hf

/-- (1) for every well-formed script -/
theorem project_from_wf (f t : Tree) (s : Script) (hf : litOK f = true) (ht : litOK t = true)
    (hs : ScriptWellFormed f t s) :
    ∃ v, ValPerm v (treeVal f) ∧ dropCommas (tokens (projFrom (render f t s))) = v.toks := by
  obtain ⟨_, v, hv, hT⟩ := render_spec f t s hf ht hs.1 hs.2 true
  exact ⟨v, hv, hT⟩

/-- (2) for every well-formed script -/
theorem project_to_wf (f t : Tree) (s : Script) (hf : litOK f = true) (ht : litOK t = true)
    (hs : ScriptWellFormed f t s) :
    ∃ v, ValPerm v (treeVal t) ∧ dropCommas (tokens (projTo (render f t s))) = v.toks := by
  obtain ⟨_, v, hv, hT⟩ := render_spec f t s hf ht hs.1 hs.2 false
  exact ⟨v, hv, hT⟩

/-- both projections are complete JSON values: followed by punctuation or nothing, their tokens do not change -/
theorem projection_is_value (f t : Tree) (s : Script) (hf : litOK f = true) (ht : litOK t = true)
    (hs : ScriptWellFormed f t s) :
    ClosedT (projFrom (render f t s)) ∧ ClosedT (projTo (render f t s)) :=
  ⟨(render_spec f t s hf ht hs.1 hs.2 true).1, (render_spec f t s hf ht hs.1 hs.2 false).1⟩

/-- the script the engine computes is a well-formed edit, for all options, oracles, paths and trees with distinct keys -/
theorem script_wellformed (o : Opts) (orc : Oracle) (fp tp : List Nat) (f t : Tree)
    (hf : f.KeysDistinct) (ht : t.KeysDistinct) : ScriptWellFormed f t (edits o orc fp tp f t) :=
  Render.script_wellformed o orc fp tp f t hf ht

/-- (1) deleting everything inserted leaves the first document -/
theorem project_from (o : Opts) (orc : Oracle) (f t : Tree) (hf : f.KeysDistinct) (ht : t.KeysDistinct)
    (hlf : litOK f = true) (hlt : litOK t = true) :
    ∃ v, ValPerm v (treeVal f) ∧
      dropCommas (tokens (projFrom (render f t (edits o orc [] [] f t)))) = v.toks ∧
      dropCommas (tokens (printJson f)) = (treeVal f).toks := by
  obtain ⟨v, hv, hT⟩ := project_from_wf f t _ hlf hlt (script_wellformed o orc [] [] f t hf ht)
  exact ⟨v, hv, hT, printJson_toks f hlf⟩

/-- (2) deleting everything removed leaves the second document -/
theorem project_to (o : Opts) (orc : Oracle) (f t : Tree) (hf : f.KeysDistinct) (ht : t.KeysDistinct)
    (hlf : litOK f = true) (hlt : litOK t = true) :
    ∃ v, ValPerm v (treeVal t) ∧
      dropCommas (tokens (projTo (render f t (edits o orc [] [] f t)))) = v.toks ∧
      dropCommas (tokens (printJson t)) = (treeVal t).toks := by
  obtain ⟨v, hv, hT⟩ := project_to_wf f t _ hlf hlt (script_wellformed o orc [] [] f t hf ht)
  exact ⟨v, hv, hT, printJson_toks t hlt⟩

/-- (1) without `Val`: the comma-less tokens of the from-projection are those of the first document's canonical text,
    up to their order (which only the reordering of object members can change) -/
theorem project_from_tokens (o : Opts) (orc : Oracle) (f t : Tree) (hf : f.KeysDistinct) (ht : t.KeysDistinct)
    (hlf : litOK f = true) (hlt : litOK t = true) :
    (dropCommas (tokens (projFrom (render f t (edits o orc [] [] f t))))).Perm (dropCommas (tokens (printJson f))) := by
  obtain ⟨v, hv, hT, hP⟩ := project_from o orc f t hf ht hlf hlt
  rw [hT, hP]; exact hv.toks_perm

/-- (2) without `Val` -/
theorem project_to_tokens (o : Opts) (orc : Oracle) (f t : Tree) (hf : f.KeysDistinct) (ht : t.KeysDistinct)
    (hlf : litOK f = true) (hlt : litOK t = true) :
    (dropCommas (tokens (projTo (render f t (edits o orc [] [] f t))))).Perm (dropCommas (tokens (printJson t))) := by
  obtain ⟨v, hv, hT, hP⟩ := project_to o orc f t hf ht hlf hlt
  rw [hT, hP]; exact hv.toks_perm

/-- non-vacuity of the tree-level hypotheses: a nested tree with a mapping, a float and a string -/
example :
    let f : Tree := .list [.dict [([97], .leaf (.float [49, 46, 53])), ([98], .leaf (.str [34, 92]))], .leaf .null]
    f.KeysDistinct ∧ litOK f = true := by decide

/-! ### marks -/

/-- an edit without sub-edits whose cost is 0 is rendered as the unmarked from-node -/
theorem no_marks_of_zero_cost_leaf (f t : Tree) (s : Script) (h0 : s.cost = 0) (hk : isCompound s.kind = false) :
    hasMark (render f t s) = false := by
  cases s with
  | mk k fi ti c subs =>
    simp only [Script.cost, Script.kind] at h0 hk
    subst h0
    simp only [render, Script.cost, Nat.lt_irrefl, decide_false]
    rw [leafkind_render_false _ _ k fi ti 0 subs hk]
    exact hasMark_plain _

/-- a Match / Replace of positive cost shows the arrow -/
theorem marks_of_change (f t : Tree) (k : Kind) (fi ti : Ix) (c : Nat) (subs : List Script) (hc : c > 0)
    (hk : k = .match_ ∨ k = .replace) : hasMark (render f t (.mk k fi ti c subs)) = true := by
  rcases hk with rfl | rfl <;>
    simp [render, Script.cost, hc, renderEdit, hasMark_append, hasMark_arrow]

/-- (3) the rendering carries a change mark exactly when the two nodes are not equal -/
theorem marks_iff (o : Opts) (orc : Oracle) (f t : Tree) (hf : f.KeysDistinct) (ht : t.KeysDistinct)
    (hlf : litOK f = true) (hlt : litOK t = true) :
    hasMark (render f t (edits o orc [] [] f t)) = true ↔ f.eq t = false := by
  have hz := C02.zero_cost_iff_eq o orc [] [] f t (wf_of_kd hf) (wf_of_kd ht)
  by_cases h0 : (edits o orc [] [] f t).cost = 0
  · have heq := hz.1 h0
    rw [no_marks_of_zero_cost_leaf f t _ h0 (zero_cost_is_match o orc [] [] f t hf ht h0), heq]
    simp
  · have hpos : (edits o orc [] [] f t).cost > 0 := by omega
    have hne : f.eq t = false := by
      cases h : f.eq t with
      | false => rfl
      | true => exact absurd (hz.2 h) h0
    simp only [render, hpos, decide_true, positive_cost_shows o orc [] [] f t hf ht hlf hlt hpos, hne]

/-! ### whole documents -/

theorem build_kd' (o : Opts) (d : Doc) (h : d.distinctKeys = true) : (build o d).KeysDistinct := by
  have := C02.build_WF o d h
  rw [wf_eq_kd] at this
  exact this

/-- (1) for whole documents: objects with distinct keys (what every JSON parser delivers) -/
theorem project_from_docs (o : Opts) (orc : Oracle) (a b : Doc) (ha : a.distinctKeys = true) (hb : b.distinctKeys = true)
    (hfa : a.floatsOK = true) (hfb : b.floatsOK = true) :
    ∃ v, ValPerm v (treeVal (build o a)) ∧
      dropCommas (tokens (projFrom (render (build o a) (build o b) (diffDocs o orc a b)))) = v.toks ∧
      dropCommas (tokens (printJson (build o a))) = (treeVal (build o a)).toks :=
  project_from o orc _ _ (build_kd' o a ha) (build_kd' o b hb) (build_litOK o a hfa) (build_litOK o b hfb)

/-- (2) for whole documents -/
theorem project_to_docs (o : Opts) (orc : Oracle) (a b : Doc) (ha : a.distinctKeys = true) (hb : b.distinctKeys = true)
    (hfa : a.floatsOK = true) (hfb : b.floatsOK = true) :
    ∃ v, ValPerm v (treeVal (build o b)) ∧
      dropCommas (tokens (projTo (render (build o a) (build o b) (diffDocs o orc a b)))) = v.toks ∧
      dropCommas (tokens (printJson (build o b))) = (treeVal (build o b)).toks :=
  project_to o orc _ _ (build_kd' o a ha) (build_kd' o b hb) (build_litOK o a hfa) (build_litOK o b hfb)

/-- (3) for whole documents: the rendering carries a change mark exactly when the documents differ as data -/
theorem marks_iff_docs (o : Opts) (orc : Oracle) (a b : Doc) (ha : a.distinctKeys = true) (hb : b.distinctKeys = true)
    (hfa : a.floatsOK = true) (hfb : b.floatsOK = true) :
    hasMark (render (build o a) (build o b) (diffDocs o orc a b)) = true ↔ Doc.dataEq a b = false := by
  rw [← C02.eq_iff_dataEq o a b ha hb]
  exact marks_iff o orc _ _ (build_kd' o a ha) (build_kd' o b hb) (build_litOK o a hfa) (build_litOK o b hfb)

/-- non-vacuity of the document-level hypotheses -/
example : (Doc.obj [([98], .list [.scalar (.int 1), .scalar (.float [49, 46, 53]), .obj [([97], .scalar .null)]]),
    ([97], .scalar (.bool true))]).distinctKeys = true ∧
    (Doc.obj [([98], .list [.scalar (.int 1), .scalar (.float [49, 46, 53]), .obj [([97], .scalar .null)]]),
    ([97], .scalar (.bool true))]).floatsOK = true := by decide

/-! ### non-vacuity: concrete well-formed scripts, and what the theorems say about them -/

/-- "ab" → "ac" as the engine edits it: match a, insert c, remove b -/
def strS : Script := .mk .str .none .none 2
  [.mk .match_ (.at 0) (.at 0) 0 [], .mk .insert (.at 1) .none 1 [], .mk .remove (.at 1) .none 1 []]

example : ScriptWellFormed (.leaf (.str [97, 98])) (.leaf (.str [97, 99])) strS := by
  refine ⟨?_, by simp [Gate, strS, Script.kind, Script.cost]⟩
  simp only [strS, WF]
  refine ⟨[97, 98], [97, 99], rfl, rfl, ?_, by decide, by decide⟩
  intro s hs
  simp only [List.mem_cons, List.mem_nil_iff, or_false] at hs
  rcases hs with rfl | rfl | rfl <;> simp [classifyChar]

/-- the rendering of that script: `"a` `c`(inserted) `b`(removed) `"` -/
example : render (.leaf (.str [97, 98])) (.leaf (.str [97, 99])) strS =
    [(34, .plain), (97, .plain), (99, .inserted), (98, .removed), (34, .plain)] := by decide

/-- [1, 2] → [1] as the engine edits it (EditDistance: match, remove), rendered `[1` `,2`(removed) `]` -/
def listS : Script := .mk .ed .none .none 2 [.mk .match_ (.at 0) (.at 0) 0 [], .mk .remove (.at 1) .none 2 []]
def l12 : Tree := .list [.leaf (.float [49]), .leaf (.float [50])]
def l1 : Tree := .list [.leaf (.float [49])]

example : render l12 l1 listS =
    [(91, .plain), (49, .plain), (44, .removed), (50, .removed), (93, .plain)] := by decide

example : ScriptWellFormed l12 l1 listS := by
  refine ⟨?_, by simp [Gate, listS, Script.kind, Script.cost]⟩
  simp only [listS, WF, WFSubs]
  refine ⟨⟨91, 93, rfl, rfl, ?_⟩, ⟨_, _, rfl, ?_⟩, ⟨_, _, rfl, trivial⟩, trivial⟩
  · simp only [if_true]
    exact ⟨ValPermL.refl' _, ValPermL.refl' _⟩
  · exact Or.inr (.refl _)

/-- a script that loses an element is NOT well formed (so the hypothesis says something) -/
example : ¬ ScriptWellFormed l12 l1 (.mk .ed .none .none 0 [.mk .match_ (.at 0) (.at 0) 0 []]) := by
  intro h
  have hc := h.1
  simp only [WF] at hc
  obtain ⟨⟨o, c, hb, _, hcov⟩, _⟩ := hc
  have : o = 91 := by simp [l12, Item.brackets] at hb; exact hb.1.symm
  subst this
  simp only [if_true] at hcov
  have h1 := hcov.1
  simp [sideItems, absent, resolve, Script.kind, Script.fi, Script.ti, l12, l1, Item.children] at h1
  cases h1 with
  | cons _ h2 => cases h2

/-! ### what `ValPerm` accepts and what it rejects -/

/-- `{"a": 1, "b": 2}` -/
def objAB : Tree := .dict [([97], .leaf (.int 1)), ([98], .leaf (.int 2))]
/-- `{"b": 2, "a": 1}` -/
def objBA : Tree := .dict [([98], .leaf (.int 2)), ([97], .leaf (.int 1))]
/-- `{"c": "x", "d": [null]}` -/
def objCD : Tree := .dict [([99], .leaf (.str [120])), ([100], .list [.leaf .null])]

/-- the same object with its members in another order is accepted -/
example : ValPerm (treeVal objAB) (treeVal objBA) := by
  simp only [objAB, objBA, treeVal, valKV]
  exact .map (.permL (List.Perm.swap _ _ _) (.cons (.refl _) (.cons (.refl _) .nil)))

/-- two objects with the same number of members but different members are REJECTED (the pair that the earlier,
    too loose relation identified) -/
example : ¬ ValPerm (treeVal objAB) (treeVal objCD) := by
  intro h
  have hp := h.toks_perm
  have hmem : Tok.str [97] ∈ (treeVal objAB).toks := by
    simp [objAB, treeVal, valKV, Val.toks, toksL, escStr, escChar]
  have hnot : Tok.str [97] ∉ (treeVal objCD).toks := by
    simp [objCD, treeVal, valKV, valL, Val.toks, toksL, escStr, escChar, T, tokens, run, step, flush, dropCommas,
      scalarText, quote, strOfString, isPunct]
  exact hnot (hp.mem_iff.1 hmem)

end GtModel.C06
